// Package engkeys holds the key material helpers shared by the secrecy (C15) and crash (C13)
// engines: seeded key pairs, directly dealt shares (what a completed DKG hands each node) and
// the matching group.
package engkeys

import (
	"bytes"
	"math/rand"
	"sync"
	"time"

	"github.com/drand/drand/v2/common/key"
	"github.com/drand/drand/v2/crypto"
	"github.com/drand/kyber"
	"github.com/drand/kyber/share"
	kdkg "github.com/drand/kyber/share/dkg"
)

// RngStream adapts math/rand to the cipher.Stream kyber picks scalars from, so that every
// random choice of the engines derives from the seed.
type RngStream struct{ R *rand.Rand }

// XORKeyStream implements cipher.Stream.
func (s RngStream) XORKeyStream(dst, src []byte) {
	for i := range src {
		dst[i] = src[i] ^ byte(s.R.Intn(256))
	}
}

// NewPair makes a self-signed key pair from the seeded generator.
func NewPair(rng *rand.Rand, addr string, sch *crypto.Scheme) (*key.Pair, error) {
	k := sch.KeyGroup.Scalar().Pick(RngStream{rng})
	p := &key.Pair{Key: k, Public: &key.Identity{Key: sch.KeyGroup.Point().Mul(k, nil), Addr: addr, Scheme: sch}}
	return p, p.SelfSign()
}

// Deal makes a fresh (thr, n) sharing of secret.
func Deal(rng *rand.Rand, sch *crypto.Scheme, secret kyber.Scalar, n, thr int) ([]*key.Share, []kyber.Point) {
	pri := share.NewPriPoly(sch.KeyGroup, thr, secret, RngStream{rng})
	pub := pri.Commit(sch.KeyGroup.Point().Base())
	_, commits := pub.Info()
	shares := pri.Shares(n)
	out := make([]*key.Share, n)
	for i := 0; i < n; i++ {
		out[i] = &key.Share{DistKeyShare: kdkg.DistKeyShare{Share: shares[i], Commits: commits}, Scheme: sch}
	}
	return out, commits
}

// MkGroup builds the group of the given pairs with the dealt public polynomial.
func MkGroup(sch *crypto.Scheme, pairs []*key.Pair, commits []kyber.Point, thr int, genesis int64, period time.Duration, id string) *key.Group {
	nodes := make([]*key.Node, len(pairs))
	for i, p := range pairs {
		nodes[i] = &key.Node{Index: uint32(i), Identity: p.Public}
	}
	g := key.LoadGroup(nodes, genesis, &key.DistPublic{Coefficients: commits}, period, 0, sch, id)
	g.Threshold = thr
	g.GenesisSeed = g.Hash()
	return g
}

// LogSink is a zap WriteSyncer that keeps everything written to it.
type LogSink struct {
	mu  sync.Mutex
	buf bytes.Buffer
}

// Write implements io.Writer.
func (l *LogSink) Write(p []byte) (int, error) {
	l.mu.Lock()
	defer l.mu.Unlock()
	return l.buf.Write(p)
}

// Sync implements zapcore.WriteSyncer.
func (l *LogSink) Sync() error { return nil }

// Bytes returns a copy of everything logged so far.
func (l *LogSink) Bytes() []byte {
	l.mu.Lock()
	defer l.mu.Unlock()
	return append([]byte{}, l.buf.Bytes()...)
}
