package engdkgrun

import (
	"context"
	"errors"
	"fmt"
	"io"
	"math/rand"
	"os"
	"time"

	"go.uber.org/zap/zapcore"

	"github.com/drand/drand/v2/common/key"
	"github.com/drand/drand/v2/common/log"
	"github.com/drand/drand/v2/crypto"
	"github.com/drand/drand/v2/internal/dkg"
	"github.com/drand/drand/v2/internal/util"
	pdkg "github.com/drand/drand/v2/protobuf/dkg"
	"github.com/drand/drand/v2/zzverif/emit"
	"github.com/drand/kyber"
	"github.com/drand/kyber/share"
	kdkg "github.com/drand/kyber/share/dkg"
	"github.com/drand/kyber/util/random"
)

func quietLogger() log.Logger {
	if os.Getenv("VERIF_C06_DEBUG") != "" {
		return log.New(zapcore.AddSync(os.Stderr), log.DebugLevel, false)
	}
	return log.New(zapcore.AddSync(io.Discard), log.FatalLevel, false)
}

// newPair makes a key pair whose randomness comes from rng (key.NewKeyPair uses crypto/rand).
func newPair(rng *rand.Rand, addr string, sch *crypto.Scheme) (*key.Pair, error) {
	sk := sch.KeyGroup.Scalar().Pick(random.New(rng))
	pk := sch.KeyGroup.Point().Mul(sk, nil)
	p := &key.Pair{Key: sk, Public: &key.Identity{Key: pk, Addr: addr, Scheme: sch}}
	return p, p.SelfSign()
}

type pool struct {
	sch   *crypto.Scheme
	pairs []*key.Pair
	parts []*pdkg.Participant
	pts   []kyber.Point
}

func newPool(rng *rand.Rand, sch *crypto.Scheme, n int, tag string) (*pool, error) {
	pl := &pool{sch: sch}
	for i := 0; i < n; i++ {
		kp, err := newPair(rng, fmt.Sprintf("%s%d.test:%d", tag, i, 4000+rng.Intn(5000)), sch)
		if err != nil {
			return nil, err
		}
		pt, err := util.PublicKeyAsParticipant(kp.Public)
		if err != nil {
			return nil, err
		}
		pl.pairs = append(pl.pairs, kp)
		pl.parts = append(pl.parts, pt)
		pl.pts = append(pl.pts, sch.KeyGroup.Point().Mul(sch.KeyGroup.Scalar().Pick(random.New(rng)), nil))
	}
	return pl, nil
}

func clonePart(p *pdkg.Participant) *pdkg.Participant {
	return &pdkg.Participant{Address: p.Address, Key: append([]byte{}, p.Key...), Signature: append([]byte{}, p.Signature...)}
}

// memStore is an in-memory dkg.Store (only used to feed setupDKG).
type memStore struct{ cur, fin *dkg.DBState }

func (m *memStore) GetCurrent(id string) (*dkg.DBState, error) {
	if m.cur == nil {
		return dkg.NewFreshState(id), nil
	}
	return m.cur, nil
}
func (m *memStore) GetFinished(string) (*dkg.DBState, error)                  { return m.fin, nil }
func (m *memStore) SaveCurrent(_ string, s *dkg.DBState) error                { m.cur = s; return nil }
func (m *memStore) SaveFinished(_ string, s *dkg.DBState) error               { m.cur, m.fin = s, s; return nil }
func (m *memStore) Close() error                                              { return nil }
func (m *memStore) MigrateFromGroupfile(string, *key.Group, *key.Share) error { return nil }

type ident struct{ kp *key.Pair }

func (s ident) KeypairFor(string) (*key.Pair, error) { return s.kp, nil }

type caseOut struct {
	line, descr, bucket, key string
	nontrivial               bool
}

type pureGen struct {
	rng   *rand.Rand
	rep   *emit.Report
	pools []*pool
	out   []caseOut
}

func (g *pureGen) add(line, descr, bucket, key string, nontrivial bool) {
	g.out = append(g.out, caseOut{line, descr, bucket, key, nontrivial})
}

// ---- DSort: util.SortedByPublicKey on arbitrary byte-string keys ----

func (g *pureGen) sortCase(ps []*pdkg.Participant, why string) {
	sch := g.pools[0].sch
	in := projParts(ps, sch)
	cp := make([]*pdkg.Participant, len(ps))
	copy(cp, ps)
	res := util.SortedByPublicKey(cp)
	out := projParts(res, sch)
	// monitor: ascending by Go string order, same multiset
	for i := 1; i < len(res); i++ {
		if string(res[i-1].Key) > string(res[i].Key) {
			g.rep.Fail("sort-not-ascending", "SortedByPublicKey result is not ascending by key bytes", map[string]interface{}{"input": in, "output": out})
			break
		}
	}
	if !sameMultiset(in, out) {
		g.rep.Fail("sort-not-permutation", "SortedByPublicKey result is not a permutation of its input", map[string]interface{}{"input": in, "output": out})
	}
	distinct := map[string]bool{}
	for _, p := range in {
		distinct[string(p.Key)] = true
	}
	line := fmt.Sprintf("DSort %s %s", cParts(in), cParts(out))
	g.add(line, fmt.Sprintf("DSort n=%d distinct=%d (%s)", len(in), len(distinct), why), "sort/"+why, line, len(distinct) >= 2)
}

func sameMultiset(a, b []pPart) bool {
	if len(a) != len(b) {
		return false
	}
	cnt := map[string]int{}
	k := func(p pPart) string { return fmt.Sprintf("%q|%x|%x", p.Addr, p.Key, p.Sig) }
	for _, p := range a {
		cnt[k(p)]++
	}
	for _, p := range b {
		cnt[k(p)]--
	}
	for _, v := range cnt {
		if v != 0 {
			return false
		}
	}
	return true
}

func (g *pureGen) randSmallParts(n, alpha, maxLen int) []*pdkg.Participant {
	ps := make([]*pdkg.Participant, n)
	alphabet := []byte{0, 1, 127, 128, 255, 65, 97}
	for i := range ps {
		l := g.rng.Intn(maxLen + 1)
		k := make([]byte, l)
		for j := range k {
			k[j] = alphabet[g.rng.Intn(alpha)]
		}
		// address order deliberately unrelated (often opposite) to key order
		ps[i] = &pdkg.Participant{Address: fmt.Sprintf("%c%d:1", 'z'-byte(i%26), g.rng.Intn(90)), Key: k, Signature: []byte{byte(i)}}
	}
	return ps
}

func (g *pureGen) genSort(n int) {
	// corpus: prefix ordering, high bytes (unsigned comparison), empty key, duplicates
	mk := func(ks ...[]byte) []*pdkg.Participant {
		ps := make([]*pdkg.Participant, len(ks))
		for i, k := range ks {
			ps[i] = &pdkg.Participant{Address: fmt.Sprintf("a%d:1", len(ks)-i), Key: k, Signature: []byte{byte(i)}}
		}
		return ps
	}
	g.sortCase(mk([]byte{3, 200}, []byte{3}, []byte{}, []byte{200}, []byte{127}, []byte{128}), "corpus")
	g.sortCase(mk([]byte{1, 2}, []byte{1, 2}, []byte{1}, []byte{1, 2, 0}), "corpus")
	g.sortCase(mk(), "corpus")
	g.sortCase(mk([]byte{9}), "corpus")
	for i := 0; i < n; i++ {
		switch g.rng.Intn(3) {
		case 0:
			g.sortCase(g.randSmallParts(g.rng.Intn(9), 2+g.rng.Intn(5), 3), "small-alphabet")
		case 1:
			g.sortCase(g.randSmallParts(g.rng.Intn(14), 7, 6), "mixed")
		default:
			// real keys in a random order
			pl := g.pools[g.rng.Intn(len(g.pools))]
			ps := g.pick(pl, 1+g.rng.Intn(7))
			g.sortCase(ps, "real-keys")
		}
	}
}

func (g *pureGen) pick(pl *pool, n int) []*pdkg.Participant {
	perm := g.rng.Perm(len(pl.parts))
	ps := make([]*pdkg.Participant, 0, n)
	for _, i := range perm[:n] {
		ps = append(ps, clonePart(pl.parts[i]))
	}
	return ps
}

// ---- shared generator of DBStates ----

type genState struct {
	st  *dkg.DBState
	pl  *pool
	all []*pdkg.Participant
	bad bool // contains a key that does not unmarshal
}

func (g *pureGen) oldGroup(pl *pool, beaconID string) *key.Group {
	n := 1 + g.rng.Intn(5)
	perm := g.rng.Perm(len(pl.pairs))
	nodes := make([]*key.Node, n)
	for i := 0; i < n; i++ {
		nodes[i] = &key.Node{Identity: pl.pairs[perm[i]].Public, Index: uint32(g.rng.Intn(9))}
	}
	t := 1 + g.rng.Intn(n)
	coeffs := make([]kyber.Point, t)
	for i := range coeffs {
		coeffs[i] = pl.pts[g.rng.Intn(len(pl.pts))]
	}
	return &key.Group{Threshold: 20 + g.rng.Intn(9), Period: time.Duration(50+g.rng.Intn(9)) * time.Second, Scheme: pl.sch, ID: beaconID,
		CatchupPeriod: time.Duration(40+g.rng.Intn(9)) * time.Second, Nodes: nodes, GenesisTime: int64(7000 + g.rng.Intn(99)),
		GenesisSeed: []byte{9, 9, byte(g.rng.Intn(250))}, TransitionTime: int64(8000 + g.rng.Intn(99)), PublicKey: &key.DistPublic{Coefficients: coeffs}}
}

func (g *pureGen) state(malformed bool) genState {
	pl := g.pools[g.rng.Intn(len(g.pools))]
	n := 1 + g.rng.Intn(7)
	all := g.pick(pl, n)
	bad := false
	if malformed {
		switch g.rng.Intn(4) {
		case 0: // garbage key of the right length
			i := g.rng.Intn(n)
			for j := range all[i].Key {
				all[i].Key[j] = 0xff
			}
			bad = true
		case 1: // truncated key
			i := g.rng.Intn(n)
			all[i].Key = all[i].Key[:len(all[i].Key)/2]
			bad = true
		case 2: // key of another scheme's group
			if len(g.pools) > 1 {
				other := g.pools[(g.rng.Intn(len(g.pools)-1)+1+indexOf(g.pools, pl))%len(g.pools)]
				i := g.rng.Intn(n)
				all[i].Key = append([]byte{}, other.parts[g.rng.Intn(len(other.parts))].Key...)
				bad = !keyOK(all[i].Key, pl.sch)
			}
		case 3: // no participants at all
			all = nil
			n = 0
		}
	}
	split := 0
	if n > 0 {
		split = g.rng.Intn(n + 1)
	}
	ids := []string{"default", "", "beacon-x", "quicknet-t"}
	schemeID := pl.sch.Name
	if pl.sch.Name == crypto.DefaultSchemeID && g.rng.Intn(3) == 0 {
		schemeID = "" // GetSchemeByID maps "" to the default scheme
	}
	st := &dkg.DBState{
		BeaconID:      ids[g.rng.Intn(len(ids))],
		Epoch:         uint32(1 + g.rng.Intn(4)),
		State:         dkg.Executing,
		Threshold:     uint32(1 + g.rng.Intn(8)),
		Timeout:       time.Unix(2000000000, 0).UTC(),
		SchemeID:      schemeID,
		GenesisTime:   time.Unix(int64(1600000000+g.rng.Intn(100000000)), 0).UTC(),
		CatchupPeriod: time.Duration(1+g.rng.Intn(30)) * time.Second,
		BeaconPeriod:  time.Duration(1+g.rng.Intn(60)) * time.Second,
		Remaining:     all[:split:split],
		Joining:       all[split:],
	}
	if g.rng.Intn(2) == 0 {
		st.GenesisSeed = make([]byte, 32)
		g.rng.Read(st.GenesisSeed)
	} else if g.rng.Intn(2) == 0 {
		st.GenesisSeed = []byte{}
	}
	if g.rng.Intn(2) == 0 {
		st.FinalGroup = g.oldGroup(pl, st.BeaconID)
	}
	return genState{st: st, pl: pl, all: all, bad: bad}
}

func indexOf(ps []*pool, p *pool) int {
	for i, q := range ps {
		if q == p {
			return i
		}
	}
	return 0
}

// ---- DSetup: (*Process).setupDKG through the hook ----

func (g *pureGen) setupCase(malformed bool) {
	gs := g.state(malformed)
	st, pl := gs.st, gs.pl
	var fin *dkg.DBState
	lastTerm := "None"
	if g.rng.Intn(2) == 0 {
		og := g.oldGroup(pl, st.BeaconID)
		fin = &dkg.DBState{BeaconID: st.BeaconID, Epoch: 1, State: dkg.Complete, Threshold: uint32(30 + g.rng.Intn(9)), SchemeID: pl.sch.Name,
			FinalGroup: og, KeyShare: &key.Share{DistKeyShare: kdkg.DistKeyShare{Commits: og.PublicKey.Coefficients,
				Share: &share.PriShare{I: 0, V: pl.sch.KeyGroup.Scalar().One()}}, Scheme: pl.sch}}
		lastTerm = fmt.Sprintf("(Some (%s, %d))", cGroup(projGroup(og)), fin.Threshold)
	}
	in := projState(st, pl.sch) // before the call: setupDKG sorts in place
	proc := dkg.NewDKGProcess(&memStore{cur: st, fin: fin}, ident{pl.pairs[0]}, util.NewFanOutChan[dkg.SharingOutput](), nil, nil,
		dkg.Config{Timeout: time.Minute, TimeBetweenDKGPhases: time.Second, KickoffGracePeriod: time.Second}, quietLogger())
	cfg, err := proc.VerifExecSetupDKG(context.Background(), st.BeaconID)
	if b := proc.Executions[st.BeaconID]; b != nil {
		b.Stop()
	}
	var out string
	bucket := "setup/ok"
	if err != nil {
		name := "ENoParticipants"
		if errors.Is(err, key.ErrInvalidKeyScheme) {
			name = "EBadKey"
		}
		out = cRes(false, "", name)
		bucket = "setup/" + name
	} else {
		pc := pConfig{New: projDKGNodes(cfg.NewNodes), Old: projDKGNodes(cfg.OldNodes), Thr: int64(cfg.Threshold), OldThr: int64(cfg.OldThreshold), HasShare: cfg.Share != nil}
		for _, c := range cfg.PublicCoeffs {
			cb, _ := c.MarshalBinary()
			pc.Coeffs = append(pc.Coeffs, cb)
		}
		out = cRes(true, cConfig(pc), "")
		// monitor: indices are 0..n-1 in ascending key order; every participant got exactly one
		for i, nd := range pc.New {
			if int(nd.Index) != i {
				g.rep.Fail("setup-index", "config.NewNodes[i].Index != i", map[string]interface{}{"state": in})
			}
			if i > 0 && string(pc.New[i-1].Key) >= string(nd.Key) {
				g.rep.Fail("setup-order", "DKG indices are not ascending in the participants' key bytes", map[string]interface{}{"state": in})
			}
		}
		if len(pc.New) != len(in.Remaining)+len(in.Joining) {
			g.rep.Fail("setup-count", "config.NewNodes does not cover all participants", map[string]interface{}{"state": in})
		}
		if pc.Thr != in.Threshold {
			g.rep.Fail("setup-threshold", "config.Threshold is not the proposal's threshold", map[string]interface{}{"state": in, "got": pc.Thr})
		}
	}
	line := fmt.Sprintf("DSetup %s %s %s", cState(in), lastTerm, out)
	g.add(line, fmt.Sprintf("DSetup n=%d scheme=%s reshare=%v %s", len(in.Remaining)+len(in.Joining), pl.sch.Name, fin != nil, bucket), bucket, line,
		len(in.Remaining)+len(in.Joining) >= 2)
}

// ---- DAsGroup: asGroup through the hook ----

func (g *pureGen) asGroupCase(malformed bool) {
	gs := g.state(malformed && g.rng.Intn(3) > 0)
	st, pl := gs.st, gs.pl
	n := len(gs.all)
	badScheme := false
	if malformed && g.rng.Intn(4) == 0 {
		st.SchemeID = "no-such-scheme"
		badScheme = true
	}
	// black-box outcome: QUAL = a subset of the indices in some order, commits = random points
	var idxs []int64
	for _, i := range g.rng.Perm(n) {
		if g.rng.Intn(5) > 0 {
			idxs = append(idxs, int64(i))
		}
	}
	if g.rng.Intn(3) > 0 { // kyber lists QUAL ascending; keep both shapes
		sortInts(idxs)
	}
	outOfRange := false
	if malformed && g.rng.Intn(4) == 0 {
		idxs = append(idxs, int64(n+g.rng.Intn(3)))
		outOfRange = true
	}
	t := 1 + g.rng.Intn(4)
	commits := make([]kyber.Point, t)
	for i := range commits {
		commits[i] = pl.pts[g.rng.Intn(len(pl.pts))]
	}
	ks := &key.Share{DistKeyShare: kdkg.DistKeyShare{Commits: commits, Share: &share.PriShare{I: 0, V: pl.sch.KeyGroup.Scalar().One()}}, Scheme: pl.sch}
	final := make([]kdkg.Node, len(idxs))
	for i, v := range idxs {
		final[i] = kdkg.Node{Index: uint32(v), Public: pl.pts[0]}
	}
	ttime := int64(0)
	if g.rng.Intn(6) > 0 {
		ttime = st.GenesisTime.Unix() + int64(g.rng.Intn(100000))
	}
	in := projState(st, pl.sch)
	var cm [][]byte
	for _, c := range commits {
		cb, _ := c.MarshalBinary()
		cm = append(cm, cb)
	}
	grp, err, panicked := callAsGroup(st, ks, final, ttime)
	var out, bucket string
	var hin *pHashIn
	var hout []byte
	switch {
	case panicked:
		out, bucket = cRes(false, "", "EIndexRange"), "asgroup/EIndexRange"
	case err != nil:
		name := "EBadScheme"
		if errors.Is(err, key.ErrInvalidKeyScheme) {
			name = "EBadKey"
		}
		out, bucket = cRes(false, "", name), "asgroup/"+name
	default:
		pg := projGroup(&grp)
		out, bucket = cRes(true, cGroup(pg), ""), "asgroup/ok"
		if len(in.GenesisSeed) == 0 {
			bucket = "asgroup/ok-derived-seed"
			pre := *pg
			pre.GenesisSeed = nil
			h, hi := hashOf(&pre)
			hout, hin = h, &hi
			if string(h) != string(pg.GenesisSeed) {
				g.rep.Fail("seed-not-group-hash", "derived genesis seed is not the hash of the group", map[string]interface{}{"state": in, "group": pg})
			}
		}
		g.monitorAsGroup(in, cm, idxs, ttime, pg)
	}
	_ = badScheme
	_ = outOfRange
	line := fmt.Sprintf("DAsGroup %s %s %s %s %s %s %s %s", cStr(crypto.DefaultSchemeID), cState(in), cBytesList(cm), cIdx(idxs), emit.Z(ttime), cHashIn(hin), cB(hout), out)
	g.add(line, fmt.Sprintf("DAsGroup n=%d qual=%v scheme=%q seed=%d %s", n, idxs, st.SchemeID, len(in.GenesisSeed), bucket), bucket, line, len(idxs) >= 2)
}

func sortInts(a []int64) {
	for i := 1; i < len(a); i++ {
		for j := i; j > 0 && a[j-1] > a[j]; j-- {
			a[j-1], a[j] = a[j], a[j-1]
		}
	}
}

func callAsGroup(st *dkg.DBState, ks *key.Share, final []kdkg.Node, ttime int64) (grp key.Group, err error, panicked bool) {
	defer func() {
		if r := recover(); r != nil {
			panicked = true
		}
	}()
	grp, err = dkg.VerifExecAsGroup(context.Background(), st, ks, final, ttime)
	return
}

// monitorAsGroup: the property's clauses on one asGroup result, from the implementation's
// output alone: node with Index i has the key of the participant that is i-th in ascending key
// order; scalar fields are the terms'.
func (g *pureGen) monitorAsGroup(in pState, commits [][]byte, idxs []int64, ttime int64, pg *pGroup) {
	all := append(append([]pPart{}, in.Remaining...), in.Joining...)
	ctx := map[string]interface{}{"state": in, "qual": idxs, "group": pg}
	rank := func(k []byte) int {
		r := 0
		for _, p := range all {
			if string(p.Key) < string(k) {
				r++
			}
		}
		return r
	}
	if len(pg.Nodes) != len(idxs) {
		g.rep.Fail("group-size", "group does not have one node per QUAL member", ctx)
	}
	want := append([]int64{}, idxs...)
	sortInts(want)
	var have []int64
	for _, nd := range pg.Nodes {
		have = append(have, int64(nd.Index))
	}
	sortInts(have)
	if fmt.Sprint(want) != fmt.Sprint(have) {
		g.rep.Fail("group-not-qual", "the indices of the group's nodes are not the QUAL indices", ctx)
	}
	for _, nd := range pg.Nodes {
		if rank(nd.Key) != int(nd.Index) {
			g.rep.Fail("index-misaligned", "group node's Index is not the rank of its key among the participants' keys", ctx)
			break
		}
		found := false
		for _, p := range all {
			if string(p.Key) == string(nd.Key) && p.Addr == nd.Addr && string(p.Sig) == string(nd.Sig) {
				found = true
			}
		}
		if !found {
			g.rep.Fail("node-identity", "group node's (key, address, signature) is not a participant's", ctx)
			break
		}
	}
	wantScheme := in.Scheme
	if wantScheme == "" {
		wantScheme = crypto.DefaultSchemeID
	}
	if pg.Threshold != in.Threshold || pg.Period != in.Period || pg.Catchup != in.Catchup || pg.GenesisTime != in.GenesisTime ||
		pg.ID != in.BeaconID || pg.Scheme != wantScheme || pg.Transition != ttime {
		g.rep.Fail("terms-not-copied", "a scalar field of the group differs from the stored proposal terms", ctx)
	}
	if len(in.GenesisSeed) != 0 && string(pg.GenesisSeed) != string(in.GenesisSeed) {
		g.rep.Fail("seed-changed", "genesis seed of the group differs from the stored one", ctx)
	}
	if len(pg.Public) != len(commits) {
		g.rep.Fail("public-key", "group public key is not the share's commitments", ctx)
	} else {
		for i := range commits {
			if string(commits[i]) != string(pg.Public[i]) {
				g.rep.Fail("public-key", "group public key is not the share's commitments", ctx)
				break
			}
		}
	}
}

// orderIndependence (M only, on the implementation): several "nodes" hold the same terms with
// Remaining/Joining listed and split differently, and see QUAL in different orders; their groups
// must have the same hash and the same node set.
func (g *pureGen) orderIndependence() {
	gs := g.state(false)
	st, pl := gs.st, gs.pl
	n := len(gs.all)
	t := 1 + g.rng.Intn(3)
	commits := make([]kyber.Point, t)
	for i := range commits {
		commits[i] = pl.pts[g.rng.Intn(len(pl.pts))]
	}
	ks := &key.Share{DistKeyShare: kdkg.DistKeyShare{Commits: commits, Share: &share.PriShare{I: 0, V: pl.sch.KeyGroup.Scalar().One()}}, Scheme: pl.sch}
	var qual []int64
	for i := 0; i < n; i++ {
		if g.rng.Intn(6) > 0 {
			qual = append(qual, int64(i))
		}
	}
	ttime := st.GenesisTime.Unix() + 1000
	var ref *pGroup
	var refHash []byte
	for v := 0; v < 4; v++ {
		perm := g.rng.Perm(n)
		all := make([]*pdkg.Participant, n)
		for i, j := range perm {
			all[i] = clonePart(gs.all[j])
		}
		split := g.rng.Intn(n + 1)
		cp := *st
		cp.Remaining, cp.Joining = all[:split:split], all[split:]
		qp := g.rng.Perm(len(qual))
		final := make([]kdkg.Node, len(qual))
		for i, j := range qp {
			final[i] = kdkg.Node{Index: uint32(qual[j]), Public: pl.pts[0]}
		}
		in := projState(&cp, pl.sch)
		grp, err, panicked := callAsGroup(&cp, ks, final, ttime)
		g.rep.Evaluations++
		g.rep.Count("order-independence/variant")
		if err != nil || panicked {
			g.rep.Fail("order-variant-error", "asGroup failed on a permuted listing of valid terms", map[string]interface{}{"state": in})
			return
		}
		h := grp.Hash()
		pg := projGroup(&grp)
		if ref == nil {
			ref, refHash = pg, h
			continue
		}
		a, b := *ref, *pg
		a.Nodes, b.Nodes = nil, nil
		sameNodes := sameNodeSet(ref.Nodes, pg.Nodes)
		if string(h) != string(refHash) || !sameNodes || fmt.Sprint(a) != fmt.Sprint(b) {
			g.rep.Fail("order-dependent-group", "two listings of the same participants give different groups", map[string]interface{}{"state": in, "group_a": ref, "group_b": pg})
			return
		}
	}
}

func sameNodeSet(a, b []pNode) bool {
	if len(a) != len(b) {
		return false
	}
	m := map[string]int{}
	k := func(n pNode) string { return fmt.Sprintf("%d|%x|%s|%x", n.Index, n.Key, n.Addr, n.Sig) }
	for _, n := range a {
		m[k(n)]++
	}
	for _, n := range b {
		m[k(n)]--
	}
	for _, v := range m {
		if v != 0 {
			return false
		}
	}
	return true
}
