package engdkgrun

import (
	"fmt"
	"go/ast"
	"go/parser"
	"go/printer"
	"go/token"
	"path/filepath"
	"strings"
)

// echoShape reads the three loops of internal/dkg/broadcast.go that decide who is sent a DKG
// bundle (newDispatcher, dispatcher.broadcast, dispatcher.broadcastDirect) and renders them as the
// Coq term [dispatcher_shape] of Model/DKGExec.v. Anything it does not recognise becomes
// UnknownRange / false, which the checker [shape_ok] rejects: it never guesses.
func echoShape(repo string) (term string, descr string, err error) {
	path := filepath.Join(repo, "internal", "dkg", "broadcast.go")
	fset := token.NewFileSet()
	f, err := parser.ParseFile(fset, path, nil, 0)
	if err != nil {
		return "", "", fmt.Errorf("T-break: %s: %w", path, err)
	}
	src := func(n ast.Node) string {
		var sb strings.Builder
		_ = printer.Fprint(&sb, fset, n)
		return sb.String()
	}
	rangeOf := func(fn *ast.FuncDecl) (string, string) {
		var loops []*ast.RangeStmt
		ast.Inspect(fn.Body, func(n ast.Node) bool {
			if r, ok := n.(*ast.RangeStmt); ok {
				loops = append(loops, r)
			}
			return true
		})
		if len(loops) != 1 {
			return "UnknownRange", fmt.Sprintf("%d range loops", len(loops))
		}
		r := loops[0]
		x := strings.ReplaceAll(src(r.X), " ", "")
		// the body must send to d.senders[<loop variable>]
		body := strings.ReplaceAll(src(r.Body), " ", "")
		val, _ := r.Value.(*ast.Ident)
		if val == nil || !strings.Contains(body, "d.senders["+val.Name+"].send") || len(r.Body.List) != 1 {
			return "UnknownRange", x + " with body " + body
		}
		switch {
		case x == "rand.Perm(len(d.senders))":
			return "AllSenders", x
		case strings.HasPrefix(x, "rand.Perm(len(d.senders)-") && strings.HasSuffix(x, ")"):
			k := strings.TrimSuffix(strings.TrimPrefix(x, "rand.Perm(len(d.senders)-"), ")")
			ok := k != ""
			for _, c := range k {
				if c < '0' || c > '9' {
					ok = false
				}
			}
			if ok {
				return "(AllButLast " + k + ")", x
			}
		}
		return "UnknownRange", x
	}
	var echo, direct, echoSrc, directSrc string
	oneSenderPerOther, ndSrc := false, "newDispatcher not found"
	for _, d := range f.Decls {
		fn, ok := d.(*ast.FuncDecl)
		if !ok || fn.Body == nil {
			continue
		}
		recv := ""
		if fn.Recv != nil && len(fn.Recv.List) == 1 {
			recv = strings.ReplaceAll(src(fn.Recv.List[0].Type), " ", "")
		}
		switch {
		case recv == "*dispatcher" && fn.Name.Name == "broadcast":
			echo, echoSrc = rangeOf(fn)
		case recv == "*dispatcher" && fn.Name.Name == "broadcastDirect":
			direct, directSrc = rangeOf(fn)
		case recv == "" && fn.Name.Name == "newDispatcher":
			oneSenderPerOther, ndSrc = newDispatcherShape(fn, src)
		}
	}
	if echo == "" || direct == "" {
		return "", "", fmt.Errorf("T-break: %s: dispatcher.broadcast / broadcastDirect not found", path)
	}
	b := "false"
	if oneSenderPerOther {
		b = "true"
	}
	return fmt.Sprintf("(mkD %s %s %s)", b, echo, direct),
		fmt.Sprintf("DEcho newDispatcher: %s; broadcast: range %s; broadcastDirect: range %s", ndSrc, echoSrc, directSrc), nil
}

// newDispatcherShape recognises
//
//	for _, node := range to { if node.Address == us { continue }; sender := newSender(.. node ..); go sender.run(ctx); senders = append(senders, sender) }
func newDispatcherShape(fn *ast.FuncDecl, src func(ast.Node) string) (bool, string) {
	var loops []*ast.RangeStmt
	ast.Inspect(fn.Body, func(n ast.Node) bool {
		if r, ok := n.(*ast.RangeStmt); ok {
			loops = append(loops, r)
		}
		return true
	})
	if len(loops) != 1 {
		return false, fmt.Sprintf("%d range loops", len(loops))
	}
	r := loops[0]
	val, _ := r.Value.(*ast.Ident)
	if val == nil || strings.ReplaceAll(src(r.X), " ", "") != "to" || len(fn.Type.Params.List) < 5 {
		return false, "range over " + src(r.X)
	}
	// last parameter is the node's own address
	us := fn.Type.Params.List[len(fn.Type.Params.List)-1].Names
	if len(us) != 1 {
		return false, "own-address parameter not recognised"
	}
	if len(r.Body.List) != 4 {
		return false, fmt.Sprintf("loop body has %d statements", len(r.Body.List))
	}
	norm := func(n ast.Node) string { return strings.Join(strings.Fields(src(n)), "") }
	skip := norm(r.Body.List[0])
	wantSkip := "if" + val.Name + ".Address==" + us[0].Name + "{continue}"
	mk := norm(r.Body.List[1])
	run := norm(r.Body.List[2])
	app := norm(r.Body.List[3])
	if skip != wantSkip || !strings.HasPrefix(mk, "sender:=newSender(") || !strings.Contains(mk, ","+val.Name+",") ||
		run != "gosender.run(ctx)" || app != "senders=append(senders,sender)" {
		return false, skip + " " + mk + " " + run + " " + app
	}
	return true, "one sender per participant other than self"
}

// phaserSource reads which configuration field startDKGExecution (internal/dkg/execution.go)
// passes to dkg.NewTimePhaser and renders it as the Coq term [phaser_source].
func phaserSource(repo string) (term string, descr string, err error) {
	path := filepath.Join(repo, "internal", "dkg", "execution.go")
	fset := token.NewFileSet()
	f, err := parser.ParseFile(fset, path, nil, 0)
	if err != nil {
		return "", "", fmt.Errorf("T-break: %s: %w", path, err)
	}
	var calls []string
	found := false
	for _, d := range f.Decls {
		fn, ok := d.(*ast.FuncDecl)
		if !ok || fn.Body == nil || fn.Name.Name != "startDKGExecution" {
			continue
		}
		found = true
		ast.Inspect(fn.Body, func(n ast.Node) bool {
			c, ok := n.(*ast.CallExpr)
			if !ok {
				return true
			}
			var sb strings.Builder
			_ = printer.Fprint(&sb, fset, c.Fun)
			if strings.HasSuffix(sb.String(), "NewTimePhaser") || strings.HasSuffix(sb.String(), "NewTimePhaserFunc") {
				var ab strings.Builder
				for i, a := range c.Args {
					if i > 0 {
						ab.WriteString(", ")
					}
					_ = printer.Fprint(&ab, fset, a)
				}
				calls = append(calls, sb.String()+"("+strings.Join(strings.Fields(ab.String()), "")+")")
			}
			return true
		})
	}
	if !found {
		return "", "", fmt.Errorf("T-break: %s: startDKGExecution not found", path)
	}
	descr = "DPhaser startDKGExecution: " + strings.Join(calls, "; ")
	if len(calls) != 1 {
		return "PhOther", descr, nil
	}
	switch calls[0] {
	case "dkg.NewTimePhaser(d.config.TimeBetweenDKGPhases)":
		return "PhTimeBetweenDKGPhases", descr, nil
	case "dkg.NewTimePhaser(d.config.KickoffGracePeriod)":
		return "PhKickoffGracePeriod", descr, nil
	}
	return "PhOther", descr, nil
}
