// Package engdkgrun is the correspondence engine for C06 (a completed DKG leaves all nodes with
// one group and matching key shares): pure cases for SortedByPublicKey / setupDKG / asGroup
// through the verif hooks and real multi-node dkg.Process runs over an in-memory bus.
package engdkgrun

import (
	"encoding/binary"
	"fmt"
	"path/filepath"
	"regexp"
	"sort"
	"strings"
	"sync"
	"time"

	"golang.org/x/crypto/blake2b"

	"github.com/drand/drand/v2/common/key"
	"github.com/drand/drand/v2/crypto"
	"github.com/drand/drand/v2/internal/dkg"
	pdkg "github.com/drand/drand/v2/protobuf/dkg"
	"github.com/drand/drand/v2/zzverif/emit"
	kdkg "github.com/drand/kyber/share/dkg"
)

// ---- projections of implementation values (no addresses of objects, no timestamps) ----

type pPart struct {
	Addr  string `json:"addr"`
	Key   []byte `json:"key"`
	Sig   []byte `json:"sig"`
	KeyOK bool   `json:"key_ok"`
}

type pNode struct {
	Index uint32 `json:"index"`
	Key   []byte `json:"key"`
	Addr  string `json:"addr"`
	Sig   []byte `json:"sig"`
}

type pGroup struct {
	ID          string   `json:"id"`
	Threshold   int64    `json:"threshold"`
	Period      int64    `json:"period_s"`
	Scheme      string   `json:"scheme"`
	Catchup     int64    `json:"catchup_s"`
	GenesisTime int64    `json:"genesis_time"`
	GenesisSeed []byte   `json:"genesis_seed"`
	Transition  int64    `json:"transition_time"`
	Nodes       []pNode  `json:"nodes"`
	Public      [][]byte `json:"public"`
	HasPublic   bool     `json:"-"`
}

type pState struct {
	BeaconID    string  `json:"beacon_id"`
	Epoch       int64   `json:"epoch"`
	Threshold   int64   `json:"threshold"`
	Scheme      string  `json:"scheme"`
	SchemeOK    bool    `json:"scheme_ok"`
	GenesisTime int64   `json:"genesis_time"`
	GenesisSeed []byte  `json:"genesis_seed"`
	Catchup     int64   `json:"catchup_s"`
	Period      int64   `json:"period_s"`
	Remaining   []pPart `json:"remaining"`
	Joining     []pPart `json:"joining"`
	FinalGroup  *pGroup `json:"final_group,omitempty"`
}

type pHashIn struct {
	Nodes      []pNode
	Threshold  int64
	Genesis    int64
	Transition int64
	Public     [][]byte
	ID         string
}

type pConfig struct {
	New, Old    []pNode // only Index and Key are meaningful
	Coeffs      [][]byte
	Thr, OldThr int64
	HasShare    bool
}

// keyOK is the oracle bit of the model: do these bytes unmarshal to a point of the key group?
// (evaluated here, independently of the code path under test)
func keyOK(k []byte, sch *crypto.Scheme) bool {
	p := sch.KeyGroup.Point()
	return p.UnmarshalBinary(k) == nil
}

func projPart(p *pdkg.Participant, sch *crypto.Scheme) pPart {
	return pPart{Addr: p.GetAddress(), Key: append([]byte{}, p.GetKey()...), Sig: append([]byte{}, p.GetSignature()...), KeyOK: keyOK(p.GetKey(), sch)}
}

func projParts(ps []*pdkg.Participant, sch *crypto.Scheme) []pPart {
	out := make([]pPart, len(ps))
	for i, p := range ps {
		out[i] = projPart(p, sch)
	}
	return out
}

func projGroup(g *key.Group) *pGroup {
	if g == nil {
		return nil
	}
	out := &pGroup{ID: g.ID, Threshold: int64(g.Threshold), Period: int64(g.Period / time.Second),
		Catchup: int64(g.CatchupPeriod / time.Second), GenesisTime: g.GenesisTime,
		GenesisSeed: append([]byte{}, g.GenesisSeed...), Transition: g.TransitionTime}
	if g.Scheme != nil {
		out.Scheme = g.Scheme.Name
	}
	for _, n := range g.Nodes {
		kb, _ := n.Key.MarshalBinary()
		out.Nodes = append(out.Nodes, pNode{Index: n.Index, Key: kb, Addr: n.Addr, Sig: append([]byte{}, n.Signature...)})
	}
	if g.PublicKey != nil {
		out.HasPublic = true
		for _, c := range g.PublicKey.Coefficients {
			cb, _ := c.MarshalBinary()
			out.Public = append(out.Public, cb)
		}
	}
	return out
}

func schemeKnown(id string) bool {
	_, err := crypto.GetSchemeByID(id)
	return err == nil
}

func projState(s *dkg.DBState, keySch *crypto.Scheme) pState {
	return pState{BeaconID: s.BeaconID, Epoch: int64(s.Epoch), Threshold: int64(s.Threshold), Scheme: s.SchemeID,
		SchemeOK: schemeKnown(s.SchemeID), GenesisTime: s.GenesisTime.Unix(), GenesisSeed: append([]byte{}, s.GenesisSeed...),
		Catchup: int64(s.CatchupPeriod / time.Second), Period: int64(s.BeaconPeriod / time.Second),
		Remaining: projParts(s.Remaining, keySch), Joining: projParts(s.Joining, keySch), FinalGroup: projGroup(s.FinalGroup)}
}

func projDKGNodes(ns []kdkg.Node) []pNode {
	out := make([]pNode, len(ns))
	for i, n := range ns {
		kb, _ := n.Public.MarshalBinary()
		out[i] = pNode{Index: n.Index, Key: kb}
	}
	return out
}

// hashOf computes Group.Hash of a projected group with this harness' own serialisation (not
// via key.Group.Hash): BLAKE2b-256 over node hashes ascending by index, threshold, genesis
// time, transition time when non-zero, hash of the coefficients, id unless default.
func hashOf(g *pGroup) ([]byte, pHashIn) {
	nodes := append([]pNode{}, g.Nodes...)
	sort.SliceStable(nodes, func(i, j int) bool { return nodes[i].Index < nodes[j].Index })
	h, _ := blake2b.New256(nil)
	for _, n := range nodes {
		nh, _ := blake2b.New256(nil)
		_ = binary.Write(nh, binary.LittleEndian, n.Index)
		nh.Write(n.Key)
		h.Write(nh.Sum(nil))
	}
	_ = binary.Write(h, binary.LittleEndian, uint32(g.Threshold))
	_ = binary.Write(h, binary.LittleEndian, uint64(g.GenesisTime))
	if g.Transition != 0 {
		_ = binary.Write(h, binary.LittleEndian, g.Transition)
	}
	if g.HasPublic {
		ph, _ := blake2b.New256(nil)
		for _, c := range g.Public {
			ph.Write(c)
		}
		h.Write(ph.Sum(nil))
	}
	if g.ID != "" && g.ID != "default" {
		h.Write([]byte(g.ID))
	}
	return h.Sum(nil), pHashIn{Nodes: nodes, Threshold: g.Threshold, Genesis: g.GenesisTime, Transition: g.Transition, Public: g.Public, ID: g.ID}
}

// ---- Coq terms ----

// Long byte strings (keys, signatures, commitments, hashes) occur in many cases; each distinct
// one is defined once per case file (Definition zbN : bytes := [...]) and referred to by name,
// which keeps the files small (Coq elaborates long list literals slowly).
var (
	dictMu    sync.Mutex
	dictNames = map[string]string{}
	dictDefs  = map[string]string{}
)

func cB(b []byte) string {
	if len(b) <= 6 {
		return emit.Bytes(b)
	}
	dictMu.Lock()
	defer dictMu.Unlock()
	if n, ok := dictNames[string(b)]; ok {
		return n
	}
	n := fmt.Sprintf("zb%d", len(dictNames))
	dictNames[string(b)] = n
	dictDefs[n] = fmt.Sprintf("Definition %s : list Z := (%s)%%Z.", n, emit.Bytes(b))
	return n
}

var dictRef = regexp.MustCompile(`\bzb\d+\b`)

// shard writes the case files (at most per cases each) with the definitions each one needs.
func shard(r *emit.Report, dir, prefix string, requires []string, cases, descr []string, per int) error {
	for i, k := 0, 0; i < len(cases); i, k = i+per, k+1 {
		j := i + per
		if j > len(cases) {
			j = len(cases)
		}
		seen := map[string]bool{}
		req := append([]string{}, requires...)
		for _, c := range cases[i:j] {
			for _, n := range dictRef.FindAllString(c, -1) {
				if !seen[n] {
					seen[n] = true
					req = append(req, dictDefs[n])
				}
			}
		}
		name := fmt.Sprintf("%s_%03d.v", prefix, k)
		if err := emit.CaseFile(filepath.Join(dir, name), req, "dcase", "mismatches", cases[i:j]); err != nil {
			return err
		}
		r.CaseFiles = append(r.CaseFiles, name)
		r.CaseIndex[name] = descr[i:j]
	}
	return nil
}

func cStr(s string) string { return cB([]byte(s)) }

func cPart(p pPart) string {
	return fmt.Sprintf("(mkP %s %s %s %s)", cStr(p.Addr), cB(p.Key), cB(p.Sig), emit.Bool(p.KeyOK))
}

func cParts(ps []pPart) string {
	s := make([]string, len(ps))
	for i, p := range ps {
		s[i] = cPart(p)
	}
	return emit.List(s)
}

func cBytesList(bs [][]byte) string {
	s := make([]string, len(bs))
	for i, b := range bs {
		s[i] = cB(b)
	}
	return emit.List(s)
}

func cNodes(ns []pNode) string {
	s := make([]string, len(ns))
	for i, n := range ns {
		s[i] = fmt.Sprintf("(mkN %d %s %s %s)", n.Index, cB(n.Key), cStr(n.Addr), cB(n.Sig))
	}
	return emit.List(s)
}

func cIdxKeys(ns []pNode) string {
	s := make([]string, len(ns))
	for i, n := range ns {
		s[i] = fmt.Sprintf("(%d, %s)", n.Index, cB(n.Key))
	}
	return emit.List(s)
}

func cGroup(g *pGroup) string {
	return fmt.Sprintf("(mkG %s %s %s %s %s %s %s %s %s %s)", cStr(g.ID), emit.Z(g.Threshold), emit.Z(g.Period), cStr(g.Scheme),
		emit.Z(g.Catchup), emit.Z(g.GenesisTime), cB(g.GenesisSeed), emit.Z(g.Transition), cNodes(g.Nodes), cBytesList(g.Public))
}

func cOptGroup(g *pGroup) string {
	if g == nil {
		return "None"
	}
	return "(Some " + cGroup(g) + ")"
}

func cState(s pState) string {
	return fmt.Sprintf("(mkS %s %s %s %s %s %s %s %s %s %s %s %s)", cStr(s.BeaconID), emit.Z(s.Epoch), emit.Z(s.Threshold), cStr(s.Scheme),
		emit.Bool(s.SchemeOK), emit.Z(s.GenesisTime), cB(s.GenesisSeed), emit.Z(s.Catchup), emit.Z(s.Period),
		cParts(s.Remaining), cParts(s.Joining), cOptGroup(s.FinalGroup))
}

func cHashIn(h *pHashIn) string {
	if h == nil {
		return "None"
	}
	return fmt.Sprintf("(Some (mkH %s %s %s %s %s %s))", cIdxKeys(h.Nodes), emit.Z(h.Threshold), emit.Z(h.Genesis), emit.Z(h.Transition),
		cBytesList(h.Public), cStr(h.ID))
}

func cConfig(c pConfig) string {
	return fmt.Sprintf("(mkC %s %s %s %s %s %s)", cIdxKeys(c.New), cIdxKeys(c.Old), cBytesList(c.Coeffs), emit.Z(c.Thr), emit.Z(c.OldThr), emit.Bool(c.HasShare))
}

func cIdx(ix []int64) string {
	s := make([]string, len(ix))
	for i, v := range ix {
		s[i] = emit.Z(v)
	}
	return emit.List(s)
}

func cRes(ok bool, v, errName string) string {
	if ok {
		return "(Ok " + v + ")"
	}
	return "(Err " + errName + ")"
}

func short(s string, n int) string {
	s = strings.ReplaceAll(s, "\n", " ")
	if len(s) > n {
		return s[:n] + "..."
	}
	return s
}
