package engdkgrun

import (
	"bytes"
	"context"
	"errors"
	"fmt"
	"math/rand"
	"os"
	"sync"
	"time"

	"github.com/BurntSushi/toml"
	"google.golang.org/grpc"
	"google.golang.org/protobuf/proto"
	"google.golang.org/protobuf/types/known/timestamppb"

	"github.com/drand/drand/v2/common/key"
	"github.com/drand/drand/v2/crypto"
	"github.com/drand/drand/v2/internal/dkg"
	"github.com/drand/drand/v2/internal/net"
	"github.com/drand/drand/v2/internal/util"
	pdkg "github.com/drand/drand/v2/protobuf/dkg"
)

// schedule scripts the in-memory network: every delivery is delayed by a random amount (so
// messages overtake each other), may be duplicated, and one node can be made slow for one kind
// of message.
type schedule struct {
	Name      string        `json:"name"`
	MaxDelay  time.Duration `json:"max_delay"`  // uniform random delay per delivery (reordering)
	DupProb   float64       `json:"dup_prob"`   // probability that a delivery is repeated later
	SlowNode  int           `json:"slow_node"`  // position in the node list, -1 = none
	SlowKind  string        `json:"slow_kind"`  // "all" | "gossip" | "deal" | "response" | "justification"
	SlowDelay time.Duration `json:"slow_delay"` // extra delay for deliveries of that kind to the slow node
	Crash     bool          `json:"crash"`      // one non-leader node (the one with the smallest key among them) crashes when the execution starts
	Lose      *lostLink     `json:"dropped_link,omitempty"`
}

// lostLink is a single faulty transmission: the ONE direct transmission of the sender's own
// bundle of the given kind to one receiver is lost (or arrives after the phase has ended).
// Re-sends of that bundle by other nodes (the echo broadcast) are not touched. Ranks are
// positions in ascending public-key order: of the receiver among the participants of the new
// group, of the sender among the nodes that send that kind of bundle (dealers = the previous
// group in a resharing).
type lostLink struct {
	Kind     string `json:"kind"` // "deal" | "response"
	FromRank int    `json:"from_rank"`
	ToRank   int    `json:"to_rank"`
	Late     bool   `json:"late"` // (deals only) delivered only after the receiver has left the deal phase, instead of never
	// AllCopies: every copy of the sender's bundle addressed to the receiver - the direct one and
	// the re-sends of the other nodes - stays on the wire for Delay (counted from the first copy);
	// Delay lies between the configured kick-off grace period and the configured phase duration
	AllCopies bool          `json:"all_copies,omitempty"`
	Delay     time.Duration `json:"delay,omitempty"`
	Grace     time.Duration `json:"configured_grace,omitempty"`
	Phase     time.Duration `json:"configured_phase,omitempty"`
	From      string        `json:"from,omitempty"`
	To        string        `json:"to,omitempty"`
	Hits      int           `json:"transmissions_hit"`
}

type rnode struct {
	addr  string
	kp    *key.Pair
	part  *pdkg.Participant
	dir   string
	store *dkg.BoltStore
	proc  *dkg.Process
	done  chan doneEv
}

// doneEv is a completion notice of a node's dkg.Process with the instant it was emitted.
type doneEv struct {
	out dkg.SharingOutput
	at  time.Time
}

type bus struct {
	mu        sync.Mutex
	rng       *rand.Rand
	nodes     map[string]*rnode
	sched     schedule
	slowAddr  string
	deadAddr  string
	lose      *lostLink
	loseIdx   uint32                     // index carried by the sender's own bundle
	loseToIdx uint32                     // share index of the receiver of the scripted faulty link
	lateGate  chan struct{}              // closed when that receiver has sent its own response bundle (it left the deal phase)
	lateCap   time.Duration              // upper bound of the wait for the gate
	firstAt   time.Time                  // when the first copy of an AllCopies-delayed bundle was sent
	recorded  map[string]*pdkg.DKGPacket // first response bundle sent by each node (for the replay witness)
	indexOf   map[string]uint32          // DKG index of each node (replay witness)
	stats     map[string]int
	wg        sync.WaitGroup
	closed    bool
	inflight  int
}

func (b *bus) rand(f func(r *rand.Rand)) {
	b.mu.Lock()
	defer b.mu.Unlock()
	f(b.rng)
}

func (b *bus) plan(to, kind string) (delay time.Duration, dup bool, dupDelay time.Duration) {
	b.rand(func(r *rand.Rand) {
		if b.sched.MaxDelay > 0 {
			delay = time.Duration(r.Int63n(int64(b.sched.MaxDelay)))
			dupDelay = time.Duration(r.Int63n(int64(b.sched.MaxDelay))) + b.sched.MaxDelay/2
		}
		dup = r.Float64() < b.sched.DupProb
		if to == b.slowAddr && (b.sched.SlowKind == "all" || b.sched.SlowKind == kind) {
			delay += b.sched.SlowDelay
			b.stats["slowed/"+kind]++
		}
		b.stats["delivered/"+kind]++
		b.inflight++
		if dup {
			b.inflight++
			b.stats["duplicated/"+kind]++
		}
	})
	return
}

func (b *bus) done() {
	b.mu.Lock()
	b.inflight--
	b.mu.Unlock()
}

// waitQuiet waits until no delivery has been in flight for a while: a resharing is only started
// after the traffic of the previous DKG (including the queues of its echo broadcast) has ended.
func (b *bus) waitQuiet(quiet, max time.Duration) bool {
	deadline := time.Now().Add(max)
	since := time.Now()
	for time.Now().Before(deadline) {
		b.mu.Lock()
		n := b.inflight
		b.mu.Unlock()
		if n != 0 {
			since = time.Now()
		} else if time.Since(since) >= quiet {
			return true
		}
		time.Sleep(5 * time.Millisecond)
	}
	return false
}

func (b *bus) snapshot() map[string]int {
	b.mu.Lock()
	defer b.mu.Unlock()
	m := map[string]int{}
	for k, v := range b.stats {
		m[k] = v
	}
	return m
}

func (b *bus) lookup(addr string) *rnode {
	b.mu.Lock()
	defer b.mu.Unlock()
	if b.closed {
		return nil
	}
	return b.nodes[addr]
}

// client is the net.DKGClient handed to one node: it knows who is sending.
type client struct {
	b    *bus
	from string
}

func (c *client) Packet(ctx context.Context, p net.Peer, packet *pdkg.GossipPacket, o ...grpc.CallOption) (*pdkg.EmptyDKGResponse, error) {
	return c.b.Packet(ctx, p, packet, o...)
}

func (c *client) BroadcastDKG(ctx context.Context, p net.Peer, in *pdkg.DKGPacket, o ...grpc.CallOption) (*pdkg.EmptyDKGResponse, error) {
	if r := in.GetDkg().GetResponse(); r != nil {
		c.b.mu.Lock()
		if c.b.recorded != nil && c.b.recorded[c.from] == nil && r.GetShareIndex() == c.b.indexOf[c.from] {
			c.b.recorded[c.from] = proto.Clone(in).(*pdkg.DKGPacket)
		}
		c.b.mu.Unlock()
	}
	c.b.observe(c.from, in)
	if wait := c.b.delayAll(p.Address(), in); wait > 0 {
		cp := proto.Clone(in).(*pdkg.DKGPacket)
		c.b.mu.Lock()
		c.b.inflight++
		c.b.mu.Unlock()
		c.b.wg.Add(1)
		go func() {
			defer c.b.wg.Done()
			time.Sleep(wait)
			c.b.done()
			_, _ = c.b.deliverDKG(c.from, p, cp)
		}()
		return &pdkg.EmptyDKGResponse{}, nil
	}
	if gate, lost := c.b.faulty(c.from, p.Address(), in); lost {
		return nil, errors.New("transmission lost")
	} else if gate != nil {
		// a late transmission: it is handed to the network now and arrives only after the receiver
		// has left the phase the bundle belongs to (observed on the bus, not timed); the sender
		// goes on with its other transmissions
		cp := proto.Clone(in).(*pdkg.DKGPacket)
		c.b.mu.Lock()
		c.b.inflight++
		limit := c.b.lateCap
		c.b.mu.Unlock()
		c.b.wg.Add(1)
		go func() {
			defer c.b.wg.Done()
			select {
			case <-gate:
			case <-time.After(limit):
			}
			c.b.done()
			_, _ = c.b.deliverDKG(c.from, p, cp)
		}()
		return &pdkg.EmptyDKGResponse{}, nil
	}
	if c.b.isDead(c.from) || c.b.isDead(p.Address()) {
		// a crashed node: its bundles never leave and nothing reaches it
		c.b.mu.Lock()
		c.b.stats["dropped/"+dkgKind(in)]++
		c.b.mu.Unlock()
		return nil, errors.New("connection refused")
	}
	return c.b.deliverDKG(c.from, p, in)
}

// delayAll: is this a copy (direct or re-sent by anybody) of the scripted sender's bundle on its
// way to the scripted receiver? Then it stays on the wire until Delay after the first copy.
func (b *bus) delayAll(to string, in *pdkg.DKGPacket) time.Duration {
	b.mu.Lock()
	defer b.mu.Unlock()
	l := b.lose
	if l == nil || !l.AllCopies || l.To != to {
		return 0
	}
	switch l.Kind {
	case "deal":
		if d := in.GetDkg().GetDeal(); d == nil || d.GetDealerIndex() != b.loseIdx {
			return 0
		}
	case "response":
		if r := in.GetDkg().GetResponse(); r == nil || r.GetShareIndex() != b.loseIdx {
			return 0
		}
	default:
		return 0
	}
	if b.firstAt.IsZero() {
		b.firstAt = time.Now()
	}
	l.Hits++
	b.stats["delayed-within-phase/"+l.Kind]++
	if w := time.Until(b.firstAt.Add(l.Delay)); w > time.Millisecond {
		return w
	}
	return time.Millisecond
}

// faulty decides whether this transmission is the scripted lost / late one: the sender's OWN
// bundle (its index is the sender's) on the scripted link; only the first such transmission.
func (b *bus) faulty(from, to string, in *pdkg.DKGPacket) (chan struct{}, bool) {
	b.mu.Lock()
	defer b.mu.Unlock()
	l := b.lose
	if l == nil || l.AllCopies || l.From != from || l.To != to || l.Hits > 0 {
		return nil, false
	}
	switch l.Kind {
	case "deal":
		if d := in.GetDkg().GetDeal(); d == nil || d.GetDealerIndex() != b.loseIdx {
			return nil, false
		}
	case "response":
		if r := in.GetDkg().GetResponse(); r == nil || r.GetShareIndex() != b.loseIdx {
			return nil, false
		}
	default:
		return nil, false
	}
	l.Hits++
	if l.Late {
		b.stats["late/"+l.Kind]++
		return b.lateGate, false
	}
	b.stats["lost/"+l.Kind]++
	return nil, true
}

// observe opens the gate of a late transmission once the receiver of the faulty link sends its
// own response bundle, i.e. has processed the deals it had.
func (b *bus) observe(from string, in *pdkg.DKGPacket) {
	b.mu.Lock()
	defer b.mu.Unlock()
	l := b.lose
	if l == nil || !l.Late || b.lateGate == nil || from != l.To {
		return
	}
	if r := in.GetDkg().GetResponse(); r != nil && r.GetShareIndex() == b.loseToIdx {
		select {
		case <-b.lateGate:
		default:
			close(b.lateGate)
		}
	}
}

func (b *bus) isDead(addr string) bool {
	b.mu.Lock()
	defer b.mu.Unlock()
	return b.deadAddr != "" && b.deadAddr == addr
}

// Packet implements net.DKGClient (proposal / accept / reject / abort / execute gossip).
func (b *bus) Packet(_ context.Context, p net.Peer, packet *pdkg.GossipPacket, _ ...grpc.CallOption) (*pdkg.EmptyDKGResponse, error) {
	delay, dup, dd := b.plan(p.Address(), "gossip")
	defer b.done()
	time.Sleep(delay)
	n := b.lookup(p.Address())
	if n == nil {
		if dup {
			b.done()
		}
		return nil, errors.New("no such address")
	}
	resp, err := n.proc.Packet(context.Background(), proto.Clone(packet).(*pdkg.GossipPacket))
	if dup {
		cp := proto.Clone(packet).(*pdkg.GossipPacket)
		b.wg.Add(1)
		go func() {
			defer b.wg.Done()
			defer b.done()
			time.Sleep(dd)
			if n := b.lookup(p.Address()); n != nil {
				_, _ = n.proc.Packet(context.Background(), cp)
			}
		}()
	}
	return resp, err
}

func dkgKind(in *pdkg.DKGPacket) string {
	switch in.GetDkg().GetBundle().(type) {
	case *pdkg.Packet_Deal:
		return "deal"
	case *pdkg.Packet_Response:
		return "response"
	case *pdkg.Packet_Justification:
		return "justification"
	}
	return "unknown"
}

// deliverDKG carries a deal / response / justification bundle from one node to another.
func (b *bus) deliverDKG(from string, p net.Peer, in *pdkg.DKGPacket) (*pdkg.EmptyDKGResponse, error) {
	delay, dup, dd := b.plan(p.Address(), dkgKind(in))
	defer b.done()
	time.Sleep(delay)
	n := b.lookup(p.Address())
	if n == nil {
		if dup {
			b.done()
		}
		return nil, errors.New("no such address")
	}
	resp, err := n.proc.BroadcastDKG(context.Background(), proto.Clone(in).(*pdkg.DKGPacket))
	if dup {
		cp := proto.Clone(in).(*pdkg.DKGPacket)
		b.wg.Add(1)
		go func() {
			defer b.wg.Done()
			defer b.done()
			time.Sleep(dd)
			if n := b.lookup(p.Address()); n != nil {
				_, _ = n.proc.BroadcastDKG(context.Background(), cp)
			}
		}()
	}
	return resp, err
}

const witnessStale = "stale-bundle-eviction"

// scenario is one network: a first DKG and optionally a resharing.
type scenario struct {
	Name      string        `json:"name"`
	Scheme    string        `json:"scheme"`
	N         int           `json:"n"`
	Thr       int           `json:"threshold"`
	Period    int           `json:"period_s"`
	GenesisIn int64         `json:"genesis_offset_s"` // genesis = start + offset (negative: chain already running)
	ListPerm  []int         `json:"list_perm"`        // order in which the leader lists the joiners
	Sched     schedule      `json:"schedule"`
	Phase     time.Duration `json:"phase"`
	// resharing
	Reshare     string        `json:"reshare"` // "" | "same" | "add" | "remove"
	Thr2        int           `json:"threshold2"`
	Sched2      schedule      `json:"schedule2"`
	ListPerm2   []int         `json:"list_perm2"`
	BeaconID    string        `json:"beacon_id"`
	Witness     string        `json:"witness,omitempty"`      // replay of a candidate finding instead of a regular run
	WitnessOnly bool          `json:"witness_only,omitempty"` // replays a known finding that depends on real time; never reported as not completing
	Grace       time.Duration `json:"grace,omitempty"`        // KickoffGracePeriod of the nodes (default 800 ms), before scaling
	Scale       float64       `json:"time_scale"`             // factor applied to every real-time constant (phase already includes it)
}

// nodeObs is what one node holds after a completed DKG.
type nodeObs struct {
	Node      int      `json:"node"`
	Addr      string   `json:"addr"`
	State     pState   `json:"-"`
	Group     *pGroup  `json:"group"`
	GroupHash []byte   `json:"group_hash"`
	ShareI    int      `json:"share_index"`
	Commits   [][]byte `json:"-"`
	OwnIndex  int      `json:"own_group_index"`
	T0, T1    int64    `json:"-"`
	OnPoly    bool     `json:"share_on_polynomial"`
	Key       []byte   `json:"-"`
	fin       *dkg.DBState
	doneAt    time.Time
}

type epochObs struct {
	Scenario string         `json:"scenario"`
	Epoch    int            `json:"epoch"`
	Err      string         `json:"error,omitempty"`
	Nodes    []nodeObs      `json:"nodes"`
	Expected int            `json:"expected_nodes"`
	Subsets  int            `json:"signing_subsets"`
	Wall     float64        `json:"wall_s"`
	Stats    map[string]int `json:"bus"`
	Loss     *lostLink      `json:"dropped_link,omitempty"`
}

type world struct {
	scale float64
	sc    scenario
	sch   *crypto.Scheme
	bus   *bus
	nodes []*rnode
	dirs  []string
}

// d scales a real-time constant by the factor measured on this machine at the start of the run.
func (w *world) d(x time.Duration) time.Duration {
	if w.scale <= 1 {
		return x
	}
	return time.Duration(float64(x) * w.scale)
}

// grace is the (scaled) kick-off grace period the nodes are configured with.
func (w *world) grace() time.Duration {
	if w.sc.Grace > 0 {
		return w.d(w.sc.Grace)
	}
	return w.d(800 * time.Millisecond)
}

func (w *world) addNode(rng *rand.Rand, i int) (*rnode, error) {
	dir, err := os.MkdirTemp("", "zzv-dkgrun-")
	if err != nil {
		return nil, err
	}
	w.dirs = append(w.dirs, dir)
	st, err := dkg.NewDKGStore(dir)
	if err != nil {
		return nil, err
	}
	addr := fmt.Sprintf("%c%d.test:%d", 'z'-byte(i), i, 8000+i) // address order opposite to creation order
	kp, err := newPair(rng, addr, w.sch)
	if err != nil {
		return nil, err
	}
	part, err := util.PublicKeyAsParticipant(kp.Public)
	if err != nil {
		return nil, err
	}
	out := util.NewFanOutChan[dkg.SharingOutput]()
	conf := dkg.Config{Timeout: w.d(time.Minute), TimeBetweenDKGPhases: w.sc.Phase, KickoffGracePeriod: w.grace()}
	n := &rnode{addr: addr, kp: kp, part: part, dir: dir, store: st}
	n.proc = dkg.NewDKGProcess(st, ident{kp}, out, &client{w.bus, addr}, nil, conf, quietLogger().Named(fmt.Sprintf("S%s/%s", w.sc.Name[:2], addr[:2])))
	n.done = make(chan doneEv, 8)
	go func(in chan dkg.SharingOutput, to chan doneEv) {
		for so := range in {
			to <- doneEv{so, time.Now()}
		}
	}(out.Listen(), n.done)
	w.bus.mu.Lock()
	w.bus.nodes[addr] = n
	w.bus.mu.Unlock()
	w.nodes = append(w.nodes, n)
	return n, nil
}

func (w *world) close() {
	w.bus.mu.Lock()
	w.bus.closed = true
	w.bus.mu.Unlock()
	for _, n := range w.nodes {
		func() {
			defer func() { _ = recover() }()
			n.proc.Close()
		}()
	}
	w.bus.wg.Wait()
	for _, d := range w.dirs {
		_ = os.RemoveAll(d)
	}
}

func cmd(n *rnode, id string, c *pdkg.DKGCommand) error {
	c.Metadata = &pdkg.CommandMetadata{BeaconID: id}
	_, err := n.proc.Command(context.Background(), c)
	return err
}

func (w *world) waitState(n *rnode, want dkg.Status, epoch uint32, d time.Duration) error {
	deadline := time.Now().Add(d)
	for time.Now().Before(deadline) {
		cur, err := n.store.GetCurrent(w.sc.BeaconID)
		if err == nil && cur.State == want && cur.Epoch == epoch {
			return nil
		}
		time.Sleep(10 * time.Millisecond)
	}
	return fmt.Errorf("node %s did not reach state %s for epoch %d", n.addr, want.String(), epoch)
}

func (w *world) setSchedule(s schedule) {
	w.bus.mu.Lock()
	defer w.bus.mu.Unlock()
	w.bus.sched = s
	w.bus.slowAddr = ""
	w.bus.deadAddr = ""
	if s.Crash && len(w.nodes) > 1 {
		best := w.nodes[1]
		for _, n := range w.nodes[2:] {
			if string(n.part.Key) < string(best.part.Key) {
				best = n
			}
		}
		w.bus.deadAddr = best.addr
	}
	if s.SlowNode >= 0 && s.SlowNode < len(w.nodes) {
		w.bus.slowAddr = w.nodes[s.SlowNode].addr
	}
	w.bus.stats = map[string]int{}
}

func byKey(ns []*rnode) []*rnode {
	out := append([]*rnode{}, ns...)
	for i := 1; i < len(out); i++ {
		for j := i; j > 0 && string(out[j-1].part.Key) > string(out[j].part.Key); j-- {
			out[j-1], out[j] = out[j], out[j-1]
		}
	}
	return out
}

// armLoss resolves the scripted lost transmission of the current schedule to two nodes.
// senders: the nodes that send that kind of bundle, with the index their own bundle carries
// (dealer index for deals = index in the previous group, or rank in a first DKG; share index for
// responses = rank among the new members).
func (w *world) armLoss(members []*rnode, dealers []*rnode, dealerIdx map[string]uint32) {
	w.bus.mu.Lock()
	defer w.bus.mu.Unlock()
	w.bus.lose = nil
	l := w.bus.sched.Lose
	if l == nil {
		return
	}
	recv := byKey(members)
	var send []*rnode
	idx := map[string]uint32{}
	if l.Kind == "deal" {
		send = byKey(dealers)
		idx = dealerIdx
	} else {
		send = recv
		for i, n := range recv {
			idx[n.addr] = uint32(i)
		}
	}
	if len(recv) < 2 || len(send) == 0 {
		return
	}
	to := recv[((l.ToRank%len(recv))+len(recv))%len(recv)]
	from := send[((l.FromRank%len(send))+len(send))%len(send)]
	if from == to { // the next sender in key order
		for i, n := range send {
			if n == from {
				from = send[(i+1)%len(send)]
				break
			}
		}
	}
	if from == to {
		return
	}
	cp := *l
	cp.From, cp.To, cp.Hits = from.addr, to.addr, 0
	if cp.AllCopies {
		cp.Grace, cp.Phase = w.grace(), w.sc.Phase
		cp.Delay = cp.Grace + (cp.Phase-cp.Grace)*2/5 // grace 1 s, phase 6 s: 3 s
	}
	w.bus.firstAt = time.Time{}
	for i, n := range recv {
		if n == to {
			cp.ToRank = i
		}
	}
	for i, n := range send {
		if n == from {
			cp.FromRank = i
		}
	}
	w.bus.lose = &cp
	w.bus.loseIdx = idx[from.addr]
	for i, n := range recv {
		if n == to {
			w.bus.loseToIdx = uint32(i)
		}
	}
	w.bus.lateGate = make(chan struct{})
	w.bus.lateCap = 5*w.sc.Phase + w.d(5*time.Second)
}

// lossOf reports the resolved lost transmission of the current epoch (nil if none).
func (w *world) lossOf() *lostLink {
	w.bus.mu.Lock()
	defer w.bus.mu.Unlock()
	if w.bus.lose == nil {
		return nil
	}
	cp := *w.bus.lose
	return &cp
}

func permuted(ps []*pdkg.Participant, perm []int) []*pdkg.Participant {
	out := make([]*pdkg.Participant, 0, len(ps))
	for _, i := range perm {
		if i < len(ps) {
			out = append(out, ps[i])
		}
	}
	if len(out) != len(ps) {
		return ps
	}
	return out
}

// collect waits for the members to finish the epoch and reads what they stored.
func (w *world) collect(members []*rnode, epoch uint32, t0 int64, wait time.Duration) ([]nodeObs, error) {
	var obs []nodeObs
	var firstErr error
	deadline := time.Now().Add(wait)
	for _, n := range members {
		idx := -1
		for i, m := range w.nodes {
			if m == n {
				idx = i
			}
		}
		var t1 int64
		var doneAt time.Time
		got := false
		for !got {
			select {
			case ev := <-n.done:
				if ev.out.New.Epoch == epoch {
					got = true
					t1 = ev.at.Unix()
					doneAt = ev.at
				}
			case <-time.After(time.Until(deadline)):
				cur, _ := n.store.GetCurrent(w.sc.BeaconID)
				st := "?"
				if cur != nil {
					st = cur.State.String()
				}
				if firstErr == nil {
					firstErr = fmt.Errorf("node %d (%s) did not complete epoch %d (state %s)", idx, n.addr, epoch, st)
				}
				got = true
				t1 = 0
			}
		}
		if t1 == 0 {
			continue
		}
		fin, err := n.store.GetFinished(w.sc.BeaconID)
		if err != nil || fin == nil || fin.FinalGroup == nil || fin.KeyShare == nil {
			if firstErr == nil {
				firstErr = fmt.Errorf("node %d has no finished state after completion: %v", idx, err)
			}
			continue
		}
		o := nodeObs{Node: idx, Addr: n.addr, fin: fin, T0: t0, T1: t1, doneAt: doneAt, Key: append([]byte{}, n.part.Key...)}
		o.State = projState(fin, w.sch)
		o.Group = projGroup(fin.FinalGroup)
		o.GroupHash = fin.FinalGroup.Hash()
		o.ShareI = fin.KeyShare.Share.I
		for _, c := range fin.KeyShare.Commits {
			cb, _ := c.MarshalBinary()
			o.Commits = append(o.Commits, cb)
		}
		o.OwnIndex = -1
		if nd := fin.FinalGroup.Find(n.kp.Public); nd != nil {
			o.OwnIndex = int(nd.Index)
		}
		obs = append(obs, o)
	}
	return obs, firstErr
}

// run executes the scenario and returns the observations of each completed epoch.
func runScenario(sc scenario, seed int64) (res []epochObs) {
	rng := rand.New(rand.NewSource(seed))
	sch, err := crypto.GetSchemeByID(sc.Scheme)
	if err != nil {
		return []epochObs{{Scenario: sc.Name, Epoch: 1, Err: err.Error()}}
	}
	w := &world{scale: sc.Scale, sc: sc, sch: sch, bus: &bus{rng: rand.New(rand.NewSource(seed + 1)), nodes: map[string]*rnode{}, stats: map[string]int{}}}
	defer w.close()
	fail := func(epoch int, err error, obs []nodeObs, exp int, t time.Time) []epochObs {
		return append(res, epochObs{Scenario: sc.Name, Epoch: epoch, Err: err.Error(), Nodes: obs, Expected: exp, Wall: time.Since(t).Seconds(), Stats: w.bus.snapshot(), Loss: w.lossOf()})
	}
	for i := 0; i < sc.N; i++ {
		if _, err := w.addNode(rng, i); err != nil {
			return fail(1, err, nil, sc.N, time.Now())
		}
	}
	id := sc.BeaconID
	leader := w.nodes[0]
	parts := make([]*pdkg.Participant, sc.N)
	for i, n := range w.nodes {
		parts[i] = n.part
	}
	if sc.Witness == witnessStale {
		w.bus.recorded = map[string]*pdkg.DKGPacket{}
		w.bus.indexOf = map[string]uint32{}
		for _, n := range w.nodes {
			r := uint32(0)
			for _, m := range w.nodes {
				if string(m.part.Key) < string(n.part.Key) {
					r++
				}
			}
			w.bus.indexOf[n.addr] = r
		}
	}
	// ---------------- epoch 1 ----------------
	start := time.Now()
	w.setSchedule(sc.Sched)
	rank1 := map[string]uint32{}
	for i, n := range byKey(w.nodes) {
		rank1[n.addr] = uint32(i)
	}
	w.armLoss(w.nodes, w.nodes, rank1)
	genesis := start.Unix() + sc.GenesisIn
	err = cmd(leader, id, &pdkg.DKGCommand{Command: &pdkg.DKGCommand_Initial{Initial: &pdkg.FirstProposalOptions{
		Timeout: timestamppb.New(start.Add(w.d(50 * time.Second))), Threshold: uint32(sc.Thr), PeriodSeconds: uint32(sc.Period), Scheme: sc.Scheme,
		CatchupPeriodSeconds: uint32(sc.Period/2 + 1), GenesisTime: timestamppb.New(time.Unix(genesis, 0)), Joining: permuted(parts, sc.ListPerm)}}})
	if err != nil && sc.N > 1 {
		return fail(1, fmt.Errorf("initial proposal: %w", err), nil, sc.N, start)
	}
	for _, n := range w.nodes[1:] {
		if err := w.waitState(n, dkg.Proposed, 1, w.d(10*time.Second)); err != nil {
			return fail(1, err, nil, sc.N, start)
		}
		if err := cmd(n, id, &pdkg.DKGCommand{Command: &pdkg.DKGCommand_Join{Join: &pdkg.JoinOptions{}}}); err != nil {
			return fail(1, fmt.Errorf("join: %w", err), nil, sc.N, start)
		}
	}
	t0 := time.Now().Unix()
	if err := cmd(leader, id, &pdkg.DKGCommand{Command: &pdkg.DKGCommand_Execute{Execute: &pdkg.ExecutionOptions{}}}); err != nil {
		return fail(1, fmt.Errorf("execute: %w", err), nil, sc.N, start)
	}
	alive := w.nodes
	if w.bus.deadAddr != "" {
		alive = nil
		for _, n := range w.nodes {
			if n.addr != w.bus.deadAddr {
				alive = append(alive, n)
			}
		}
	}
	obs, err := w.collect(alive, 1, t0, 4*sc.Phase+w.d(10*time.Second))
	if err != nil {
		return fail(1, err, obs, len(alive), start)
	}
	res = append(res, epochObs{Scenario: sc.Name, Epoch: 1, Nodes: obs, Expected: len(alive), Wall: time.Since(start).Seconds(), Stats: w.bus.snapshot(), Loss: w.lossOf()})
	if sc.Reshare == "" {
		return res
	}
	// ---------------- epoch 2 ----------------
	if !w.bus.waitQuiet(w.d(300*time.Millisecond), w.d(20*time.Second)) {
		return fail(2, errors.New("network did not become quiet after the first DKG"), nil, sc.N, time.Now())
	}
	start2 := time.Now()
	oldGroup := obs[0].fin.FinalGroup
	remaining := append([]*rnode{}, w.nodes...)
	var joiners, leavers []*rnode
	switch sc.Reshare {
	case "add":
		j, err := w.addNode(rng, sc.N)
		if err != nil {
			return fail(2, err, nil, sc.N+1, start2)
		}
		joiners = []*rnode{j}
	case "remove":
		leavers = []*rnode{remaining[len(remaining)-1]}
		remaining = remaining[:len(remaining)-1]
	}
	w.setSchedule(sc.Sched2)
	oldIdx := map[string]uint32{}
	oldMembers := append([]*rnode{}, w.nodes[:sc.N]...)
	for _, n := range oldMembers {
		if nd := oldGroup.Find(n.kp.Public); nd != nil {
			oldIdx[n.addr] = nd.Index
		}
	}
	w.armLoss(append(append([]*rnode{}, remaining...), joiners...), oldMembers, oldIdx)
	toParts := func(ns []*rnode) []*pdkg.Participant {
		out := make([]*pdkg.Participant, len(ns))
		for i, n := range ns {
			out[i] = n.part
		}
		return out
	}
	err = cmd(leader, id, &pdkg.DKGCommand{Command: &pdkg.DKGCommand_Resharing{Resharing: &pdkg.ProposalOptions{
		Timeout: timestamppb.New(start2.Add(w.d(50 * time.Second))), Threshold: uint32(sc.Thr2), CatchupPeriodSeconds: uint32(sc.Period/2 + 2),
		Joining: toParts(joiners), Remaining: permuted(toParts(remaining), sc.ListPerm2), Leaving: toParts(leavers)}}})
	if err != nil && len(remaining)+len(joiners)+len(leavers) > 1 {
		return fail(2, fmt.Errorf("reshare proposal: %w", err), nil, len(remaining)+len(joiners), start2)
	}
	for _, n := range remaining[1:] {
		if err := w.waitState(n, dkg.Proposed, 2, w.d(10*time.Second)); err != nil {
			return fail(2, err, nil, len(remaining)+len(joiners), start2)
		}
		if err := cmd(n, id, &pdkg.DKGCommand{Command: &pdkg.DKGCommand_Accept{Accept: &pdkg.AcceptOptions{}}}); err != nil {
			return fail(2, fmt.Errorf("accept: %w", err), nil, len(remaining)+len(joiners), start2)
		}
	}
	for _, n := range joiners {
		if err := w.waitState(n, dkg.Proposed, 2, w.d(10*time.Second)); err != nil {
			return fail(2, err, nil, len(remaining)+len(joiners), start2)
		}
		var gb bytes.Buffer
		if err := toml.NewEncoder(&gb).Encode(oldGroup.TOML()); err != nil {
			return fail(2, err, nil, len(remaining)+len(joiners), start2)
		}
		if err := cmd(n, id, &pdkg.DKGCommand{Command: &pdkg.DKGCommand_Join{Join: &pdkg.JoinOptions{GroupFile: gb.Bytes()}}}); err != nil {
			return fail(2, fmt.Errorf("join reshare: %w", err), nil, len(remaining)+len(joiners), start2)
		}
	}
	for _, n := range leavers {
		if err := w.waitState(n, dkg.Proposed, 2, w.d(10*time.Second)); err != nil {
			return fail(2, err, nil, len(remaining)+len(joiners), start2)
		}
	}
	t0 = time.Now().Unix()
	if err := cmd(leader, id, &pdkg.DKGCommand{Command: &pdkg.DKGCommand_Execute{Execute: &pdkg.ExecutionOptions{}}}); err != nil {
		return fail(2, fmt.Errorf("execute reshare: %w", err), nil, len(remaining)+len(joiners), start2)
	}
	if sc.Witness == witnessStale {
		// a response bundle of the previous ceremony (sent by X) is delivered once more, to Y, after
		// every node has set up the new ceremony and before the new bundles exist; Y's echo
		// broadcast passes it on to the others like any new packet
		x, y := w.nodes[1], w.nodes[2]
		w.bus.mu.Lock()
		old := w.bus.recorded[x.addr]
		w.bus.recorded = nil
		w.bus.mu.Unlock()
		if old == nil {
			return fail(2, errors.New("witness: no response bundle recorded in the first ceremony"), nil, len(remaining), start2)
		}
		for _, n := range remaining {
			if err := w.waitState(n, dkg.Executing, 2, w.d(5*time.Second)); err != nil {
				return fail(2, err, nil, len(remaining), start2)
			}
		}
		_, _ = y.proc.BroadcastDKG(context.Background(), proto.Clone(old).(*pdkg.DKGPacket))
	}
	members := append(append([]*rnode{}, remaining...), joiners...)
	obs2, err := w.collect(members, 2, t0, 4*sc.Phase+w.d(15*time.Second))
	if err != nil {
		return fail(2, err, obs2, len(members), start2)
	}
	res = append(res, epochObs{Scenario: sc.Name, Epoch: 2, Nodes: obs2, Expected: len(members), Wall: time.Since(start2).Seconds(), Stats: w.bus.snapshot(), Loss: w.lossOf()})
	return res
}
