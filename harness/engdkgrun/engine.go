package engdkgrun

import (
	"fmt"
	"math/rand"
	"os"
	"sort"
	"strings"
	"sync"
	"time"

	"github.com/drand/drand/v2/common"
	"github.com/drand/drand/v2/crypto"
	"github.com/drand/drand/v2/zzverif/cli"
	"github.com/drand/drand/v2/zzverif/emit"
	"github.com/drand/kyber/share"
)

const f15Class = "transition-skew"

// Run is the engine entry point.
func Run(outDir string, seed int64, tier string) error {
	rep := emit.NewReport("dkgrun", seed, tier)
	rng := rand.New(rand.NewSource(seed))
	thorough := tier == "thorough"

	// real runs go first in the background (they are wall-clock bound), pure cases meanwhile
	scs := scenarios(rng, thorough)
	if only := os.Getenv("VERIF_C06_ONLY"); only != "" { // development aid: run a single scenario
		var keep []scenario
		for _, sc := range scs {
			if strings.HasPrefix(sc.Name, only) {
				keep = append(keep, sc)
			}
		}
		scs = keep
	}
	// ---- calibration: one plain 3-node ceremony measures how fast this machine is right now; every
	// real-time constant of the real runs (kick-off grace period, phase timeout, waits) is scaled by
	// the factor derived from it, so that a busy machine does not turn into failed ceremonies ----
	calSc := scenario{Name: "cal-" + crypto.DefaultSchemeID + "-n3-t2-prompt-", Scheme: crypto.DefaultSchemeID, N: 3, Thr: 2, Period: 1000,
		Sched: schedule{Name: "prompt", SlowNode: -1}, Phase: 2500 * time.Millisecond, BeaconID: "default", ListPerm: []int{2, 0, 1},
		GenesisIn: -(7*1000 + 500), Scale: 1}
	var calObs []epochObs
	scale := 1.0
	for _, f := range []float64{1, 4, 12} {
		c := calSc
		c.Scale = f
		c.Phase = time.Duration(float64(calSc.Phase) * f)
		calObs = runScenario(c, seed*1000+900)
		if !incomplete(calObs) {
			// an idle machine needs about 0.25 s on top of the grace period
			work := calObs[0].Wall - 0.8*f
			scale = work / 0.5
			if scale < f {
				scale = f
			}
			break
		}
		scale = 0
	}
	if scale == 0 {
		return fmt.Errorf("calibration: a plain 3-node DKG did not complete even with 12x timeouts: %s", calObs[len(calObs)-1].Err)
	}
	if scale > 1 {
		scale *= 1.5 // the scenarios below run in parallel
	}
	if scale > 16 {
		scale = 16
	}
	rep.Extra["time_scale"] = map[string]interface{}{"factor": scale, "calibration_wall_s": calObs[0].Wall,
		"note": "every real-time constant of the real runs is multiplied by this factor (measured with one plain 3-node DKG at the start of the run)"}
	scaled := func(sc scenario, f float64) scenario {
		sc.Scale = f
		sc.Phase = time.Duration(float64(sc.Phase) * f)
		return sc
	}

	type scRes struct {
		sc           scenario
		obs          []epochObs
		inconclusive string
	}
	results := make([]scRes, len(scs))
	var wg sync.WaitGroup
	par := make(chan struct{}, 8)
	for i := range scs {
		wg.Add(1)
		go func(i int) {
			defer wg.Done()
			par <- struct{}{}
			defer func() { <-par }()
			obs := runScenario(scaled(scs[i], scale), seed*1000+int64(i))
			why := ""
			if incomplete(obs) {
				// retry with longer timeouts: a loaded machine must not produce an alarm
				sc := scaled(scs[i], 2*scale+1)
				sc.Name += "/retry"
				obs = runScenario(sc, seed*1000+int64(i))
			}
			if incomplete(obs) {
				// control run: the same ceremony without the scripted schedule (no delays, no lost or
				// late transmission, no crash). Only when the control completes is the schedule the
				// one difference, and the non-completion reported; otherwise the run is inconclusive.
				why = "inconclusive: the ceremony did not complete, nor did the same ceremony without the scripted schedule"
				if scs[i].Witness == "" && !scs[i].WitnessOnly {
					ctl := scaled(scs[i], 2*scale+1)
					ctl.Name += "/control"
					ctl.Sched = schedule{Name: "prompt", SlowNode: -1}
					ctl.Sched2 = schedule{Name: "prompt", SlowNode: -1}
					if !incomplete(runScenario(ctl, seed*1000+int64(i))) {
						why = ""
					}
				} else {
					why = "inconclusive: witness scenario did not complete"
				}
			}
			results[i] = scRes{scs[i], obs, why}
		}(i)
	}

	// ---- pure cases through the hooks ----
	schemeIDs := []string{crypto.DefaultSchemeID, crypto.SigsOnG1ID}
	if thorough {
		schemeIDs = crypto.ListSchemes()
	}
	g := &pureGen{rng: rng, rep: rep}
	for _, id := range schemeIDs {
		sch, err := crypto.GetSchemeByID(id)
		if err != nil {
			return err
		}
		pl, err := newPool(rng, sch, 14, "n")
		if err != nil {
			return err
		}
		g.pools = append(g.pools, pl)
	}
	nSort, nSetup, nAs, nOrd := 260, 200, 400, 60
	if thorough {
		nSort, nSetup, nAs, nOrd = 4000, 3000, 6000, 600
	}
	g.genSort(nSort)
	for i := 0; i < nSetup; i++ {
		g.setupCase(i%5 == 4)
	}
	for i := 0; i < nAs; i++ {
		g.asGroupCase(i%4 == 3)
	}
	for i := 0; i < nOrd; i++ {
		g.orderIndependence()
	}

	// ---- real runs: monitor + DFinish cases ----
	wg.Wait()
	var runs []interface{}
	var inconclusive []interface{}
	spreads := map[string]float64{}
	results = append([]scRes{{sc: calSc, obs: calObs}}, results...)
	for _, r := range results {
		for _, eo := range r.obs {
			rep.Count(fmt.Sprintf("run/%s/epoch%d", eo.Scenario, eo.Epoch))
			summary := map[string]interface{}{"scenario": eo.Scenario, "epoch": eo.Epoch, "nodes": len(eo.Nodes), "expected": eo.Expected, "wall_s": eo.Wall, "bus": eo.Stats}
			if eo.Err != "" && r.inconclusive != "" {
				summary["error"] = eo.Err
				summary["inconclusive"] = r.inconclusive
				rep.Count("run/inconclusive")
				inconclusive = append(inconclusive, map[string]interface{}{"scenario": eo.Scenario, "epoch": eo.Epoch, "error": eo.Err, "why": r.inconclusive})
				runs = append(runs, summary)
				continue
			}
			if eo.Err != "" {
				summary["error"] = eo.Err
				summary["control_completed"] = true
				rep.Fail("dkg-did-not-complete", "a scheduled DKG did not complete on every participant (twice, the second time with doubled timeouts) although the same ceremony without the scripted schedule completed in the same run", map[string]interface{}{"dropped_link": eo.Loss, "scenario": r.sc, "epoch": eo.Epoch, "error": eo.Err})
				runs = append(runs, summary)
				continue
			}
			monitorEpoch(rep, r.sc, &eo, g)
			summary["signing_subsets"] = eo.Subsets
			if eo.Loss != nil {
				summary["dropped_link"] = eo.Loss
				late := "lost"
				if eo.Loss.Late {
					late = "late"
				}
				if eo.Loss.AllCopies {
					late = "late-within-phase"
				}
				rep.Count(fmt.Sprintf("run/one-%s-%s/to-rank%d-of-%d/epoch%d", late, eo.Loss.Kind, eo.Loss.ToRank, eo.Expected, eo.Epoch))
				if eo.Loss.Hits == 0 {
					rep.Count("run/scripted-fault-not-exercised")
				}
			}
			// how far apart the nodes finish (the transition time of a resharing differs between
			// two nodes exactly when a round boundary falls between their completion instants)
			if len(eo.Nodes) > 1 && r.sc.Witness == "" {
				lo, hi := eo.Nodes[0].doneAt, eo.Nodes[0].doneAt
				for _, o := range eo.Nodes {
					if o.doneAt.Before(lo) {
						lo = o.doneAt
					}
					if o.doneAt.After(hi) {
						hi = o.doneAt
					}
				}
				ms := float64(hi.Sub(lo).Microseconds()) / 1000
				summary["completion_spread_ms"] = ms
				spreads[eo.Scenario[3:]+fmt.Sprintf("/e%d", eo.Epoch)] = ms
			}
			runs = append(runs, summary)
		}
	}
	rep.Extra["runs"] = runs
	rep.Extra["inconclusive_runs"] = inconclusive
	rep.Extra["completion_spread_ms"] = spreads
	rep.Extra["completion_spread_note"] = "F15: each node computes the transition time from its own clock when kyber returns; two nodes disagree exactly when a round boundary falls between their completion instants, i.e. with probability about spread/period per resharing (spreads measured above under the scripted delays); see known_witnesses for the deterministic replay"

	// ---- T: the loops of broadcast.go that decide who is sent a bundle (premise of C06_echo_delivery) ----
	shape, shapeDescr, err := echoShape(cli.Repo)
	if err != nil {
		return err
	}
	g.add("DEcho "+shape, shapeDescr, "echo-loops", "DEcho "+shape, true)
	ph, phDescr, err := phaserSource(cli.Repo)
	if err != nil {
		return err
	}
	g.add("DPhaser "+ph, phDescr, "phaser-source", "DPhaser "+ph, true)

	// ---- report ----
	seen := map[string]bool{}
	var lines, descr []string
	for _, c := range g.out {
		rep.Evaluations++
		rep.Count(c.bucket)
		if !seen[c.key] {
			seen[c.key] = true
			if c.nontrivial {
				rep.DistinctNontrivial++
			}
		}
		lines = append(lines, c.line)
		descr = append(descr, c.descr)
	}
	for _, b := range []string{"sort/", "setup/", "asgroup/", "finish/"} {
		for _, c := range g.out {
			if len(c.bucket) >= len(b) && c.bucket[:len(b)] == b {
				rep.Sample(short(c.descr, 300), 12)
				break
			}
		}
	}
	rep.Rule = "pure: SortedByPublicKey on byte-string keys (corpus of prefix/high-byte/empty/duplicate keys, small alphabets, real keys), setupDKG and asGroup through the verif hooks on generated DBStates (1..7 participants from seeded key pools of each scheme, random Remaining/Joining split, QUAL subsets ascending or shuffled, stored/empty seed, decoy previous group, malformed stream: garbage/truncated/foreign-group keys, unknown scheme, out-of-range QUAL index, no participants); real: dkg.Process networks (bolt stores, real kyber DKG) over an in-memory bus with random per-message delays, duplicates, one slow node, one crashed node, and exactly one lost direct transmission of a deal/response bundle (or one deal delivered only after the receiver has left the deal phase, gated on bus events, not on time) to each receiver rank in key order (sender chosen by the seed), and one deal/response bundle whose every copy reaches one holder between the configured kick-off grace period and the configured phase duration (grace 1 s, phase 6 s, delay 3 s, scaled); all real-time constants scaled by a factor calibrated with a plain 3-node DKG at the start; a ceremony that does not complete is retried with longer timeouts and reported only if the same ceremony without the scripted schedule completes (else counted inconclusive), first DKG + one resharing (same/add/remove), one finished-state case per node; distinct = distinct case text; non-trivial = at least two distinct keys / participants / QUAL members (real runs: n >= 2)"
	if err := shard(rep, outDir, "cases_dkgrun", []string{"From DV Require Import Model.DKGExec Corr.DKGExecCorr."}, lines, descr, 60); err != nil {
		return err
	}
	return rep.Write(outDir)
}

func incomplete(obs []epochObs) bool {
	for _, o := range obs {
		if o.Err != "" {
			return true
		}
	}
	return len(obs) == 0
}

func ident0(n int) []int {
	p := make([]int, n)
	for i := range p {
		p[i] = i
	}
	return p
}

// midRoundGenesis returns a negative genesis offset that puts "now" in the middle of a round of
// a long period, so that a whole run stays inside one round (the transition time is then fully
// determined and compared exactly).
func midRoundGenesis(rng *rand.Rand, period int) int64 {
	return -(int64(3+rng.Intn(50))*int64(period) + int64(period)/2)
}

func scenarios(rng *rand.Rand, thorough bool) []scenario {
	none := schedule{Name: "prompt", SlowNode: -1}
	jitter := schedule{Name: "reorder+dup", MaxDelay: 120 * time.Millisecond, DupProb: 0.3, SlowNode: -1}
	slowAll := func(i int) schedule {
		return schedule{Name: "slow-node", MaxDelay: 60 * time.Millisecond, DupProb: 0.1, SlowNode: i, SlowKind: "all", SlowDelay: 250 * time.Millisecond}
	}
	// one participant crashes at the start of the execution: QUAL is a proper subset and the
	// positions in QUAL differ from the DKG indices
	crash := func(n, t int, scheme string) scenario {
		return scenario{Scheme: scheme, N: n, Thr: t, Period: 1000, Phase: 1500 * time.Millisecond,
			Sched: schedule{Name: "crash", MaxDelay: 40 * time.Millisecond, SlowNode: -1, Crash: true}}
	}
	// replay witness: a duplicate of a response bundle of the previous ceremony is delivered to one
	// node during the next one
	staleReplay := scenario{Scheme: crypto.DefaultSchemeID, N: 3, Thr: 2, Period: 1000, Sched: none, Reshare: "same", Thr2: 2, Sched2: none,
		Phase: 1500 * time.Millisecond, Witness: witnessStale}
	// exactly one direct transmission is lost (or arrives after the phase): the echo broadcast of
	// the other nodes must make up for it, whoever the receiver is in the canonical key order
	lossy := func(n, t int, scheme, kind string, toRank, fromRank int, late bool, reshare string, thr2 int) scenario {
		mk := func() schedule {
			name := "one-lost-" + kind
			if late {
				name = "one-late-" + kind
			}
			return schedule{Name: fmt.Sprintf("%s-to%d", name, toRank), MaxDelay: 20 * time.Millisecond, SlowNode: -1,
				Lose: &lostLink{Kind: kind, FromRank: fromRank, ToRank: toRank, Late: late}}
		}
		return scenario{Scheme: scheme, N: n, Thr: t, Period: 1000, Phase: 1500 * time.Millisecond, Sched: mk(), Reshare: reshare, Thr2: thr2, Sched2: mk()}
	}
	// every copy (direct and echoed) of one node's deal / response bundle reaches one holder late,
	// but well inside the configured phase: grace period 1 s, phase 6 s, delay 3 s (all scaled).
	// The holder must wait for it (the phaser runs on the configured phase duration).
	withinPhase := func(n, t int, scheme, kind string, toRank, fromRank int, reshare string, thr2 int) scenario {
		mk := func() schedule {
			return schedule{Name: fmt.Sprintf("%s-late-within-phase-to%d", kind, toRank), SlowNode: -1,
				Lose: &lostLink{Kind: kind, FromRank: fromRank, ToRank: toRank, AllCopies: true}}
		}
		return scenario{Scheme: scheme, N: n, Thr: t, Period: 1000, Grace: time.Second, Phase: 6 * time.Second, Sched: mk(), Reshare: reshare, Thr2: thr2, Sched2: mk()}
	}
	var scs []scenario
	add := func(sc scenario) {
		sc.BeaconID = []string{"default", "c06-net"}[len(scs)%2]
		if sc.Phase == 0 {
			sc.Phase = 2500 * time.Millisecond
		}
		if sc.ListPerm == nil {
			sc.ListPerm = rng.Perm(sc.N)
		}
		if sc.Reshare != "" && sc.ListPerm2 == nil {
			m := sc.N
			if sc.Reshare == "remove" {
				m--
			}
			sc.ListPerm2 = rng.Perm(m)
		}
		if sc.GenesisIn == 0 {
			sc.GenesisIn = midRoundGenesis(rng, sc.Period)
		}
		sc.Name = fmt.Sprintf("%02d-%s-n%d-t%d-%s-%s", len(scs), sc.Scheme, sc.N, sc.Thr, sc.Sched.Name, sc.Reshare)
		scs = append(scs, sc)
	}
	// F15 replay: a running chain with a short period, one node receives the response bundles late
	f15 := scenario{Scheme: crypto.DefaultSchemeID, N: 2, Thr: 2, Period: 1, GenesisIn: -100, Sched: none, Reshare: "same", Thr2: 2,
		Sched2: schedule{Name: "late-responses", SlowNode: 1, SlowKind: "response", SlowDelay: 1300 * time.Millisecond}, Phase: 4 * time.Second, WitnessOnly: true}
	if !thorough {
		// n = 1..4 with every admissible threshold, two schemes, the three reshare shapes
		add(scenario{Scheme: crypto.DefaultSchemeID, N: 3, Thr: 2, Period: 1000, Sched: jitter, Reshare: "add", Thr2: 3, Sched2: slowAll(1)})
		add(scenario{Scheme: crypto.SigsOnG1ID, N: 4, Thr: 3, Period: 600, Sched: slowAll(2), Reshare: "remove", Thr2: 2, Sched2: jitter})
		add(f15)
		add(scenario{Scheme: crypto.SigsOnG1ID, N: 1, Thr: 1, Period: 30, GenesisIn: 20, Sched: none})
		add(scenario{Scheme: crypto.SigsOnG1ID, N: 2, Thr: 2, Period: 3000, Sched: jitter, Reshare: "add", Thr2: 2, Sched2: jitter})
		add(scenario{Scheme: crypto.DefaultSchemeID, N: 3, Thr: 3, Period: 1000, Sched: slowAll(0), Reshare: "same", Thr2: 2, Sched2: slowAll(2)})
		add(scenario{Scheme: crypto.DefaultSchemeID, N: 4, Thr: 4, Period: 600, Sched: jitter, Reshare: "same", Thr2: 3, Sched2: slowAll(1)})
		add(crash(4, 3, crypto.SigsOnG1ID))
		add(staleReplay)
		// n = 3: every receiver (smallest, middle, largest key), sender chosen by the seed; first
		// DKG and resharing; n = 4: the two largest keys, late instead of lost, a lost response
		for to := 0; to < 3; to++ {
			add(lossy(3, 2, []string{crypto.DefaultSchemeID, crypto.SigsOnG1ID}[to%2], "deal", to, rng.Intn(3), false, "same", 2))
		}
		add(lossy(4, 3, crypto.DefaultSchemeID, "deal", 3, rng.Intn(4), true, "add", 3))
		add(lossy(4, 3, crypto.SigsOnG1ID, "deal", 2, rng.Intn(4), false, "same", 3))
		add(lossy(3, 2, crypto.DefaultSchemeID, "response", 2, rng.Intn(3), false, "same", 2))
		add(withinPhase(5, 3, crypto.DefaultSchemeID, "deal", rng.Intn(5), rng.Intn(5), "same", 3))
		add(withinPhase(4, 3, crypto.SigsOnG1ID, "response", rng.Intn(4), rng.Intn(4), "same", 3))
		return scs
	}
	schemes := crypto.ListSchemes()
	k := 0
	for n := 1; n <= 7; n++ {
		for t := n/2 + 1; t <= n; t++ {
			sc := scenario{Scheme: schemes[k%len(schemes)], N: n, Thr: t, Period: []int{1000, 600, 3000}[k%3]}
			switch k % 3 {
			case 0:
				sc.Sched = jitter
			case 1:
				sc.Sched = slowAll(rng.Intn(n))
			default:
				sc.Sched = none
			}
			if n >= 2 {
				switch k % 3 {
				case 0:
					sc.Reshare, sc.Thr2, sc.Sched2 = "add", (n+1)/2+1+rng.Intn((n+1)-((n+1)/2+1)+1), slowAll(rng.Intn(n))
				case 1:
					sc.Reshare, sc.Thr2, sc.Sched2 = "same", t, jitter
				default:
					if n >= 3 && t <= n-1 {
						sc.Reshare, sc.Thr2, sc.Sched2 = "remove", (n-1)/2+1+rng.Intn((n-1)-((n-1)/2+1)+1), jitter
					} else {
						sc.Reshare, sc.Thr2, sc.Sched2 = "same", t, none
					}
				}
			}
			if k%7 == 3 {
				sc.GenesisIn = 25 // chain not started yet
			}
			add(sc)
			k++
		}
	}
	// every scheme at least once with each reshare shape on n = 3
	for i, s := range schemes {
		add(scenario{Scheme: s, N: 3, Thr: 2, Period: 1000, Sched: jitter, Reshare: []string{"add", "remove", "same"}[i%3], Thr2: []int{3, 2, 3}[i%3], Sched2: slowAll(i % 3)})
	}
	add(f15)
	add(crash(4, 3, crypto.DefaultSchemeID))
	add(crash(5, 3, crypto.SigsOnG1ID))
	add(crash(7, 4, crypto.UnchainedSchemeID))
	add(staleReplay)
	for n := 3; n <= 5; n++ {
		for to := 0; to < n; to++ {
			add(lossy(n, n/2+1, schemes[(n+to)%len(schemes)], "deal", to, rng.Intn(n), to%2 == 1, []string{"same", "add", "remove"}[(n+to)%3], n/2+1))
			add(lossy(n, n/2+1, schemes[(n+to+1)%len(schemes)], "response", to, rng.Intn(n), false, "same", n/2+1))
		}
		add(withinPhase(n, n/2+1, schemes[n%len(schemes)], "deal", rng.Intn(n), rng.Intn(n), []string{"same", "add"}[n%2], n/2+1))
		add(withinPhase(n, n/2+1, schemes[(n+1)%len(schemes)], "response", rng.Intn(n), rng.Intn(n), "same", n/2+1))
	}
	return scs
}

// monitorEpoch evaluates the property's clauses on what the nodes of one completed epoch hold
// (independent of the Coq model) and emits one DFinish correspondence case per node.
func monitorEpoch(rep *emit.Report, sc scenario, eo *epochObs, g *pureGen) {
	obs := eo.Nodes
	ctx := func(extra map[string]interface{}) map[string]interface{} {
		m := map[string]interface{}{"scenario": sc, "epoch": eo.Epoch, "nodes": obs}
		if eo.Loss != nil {
			m["dropped_link"] = eo.Loss // the one faulty transmission of this run (sorts first in the printed input)
		}
		for k, v := range extra {
			m[k] = v
		}
		return m
	}
	if len(obs) != eo.Expected {
		rep.Fail("dkg-did-not-complete", "not every participant completed", ctx(nil))
		return
	}
	if sc.Witness != "" && eo.Epoch == 2 {
		witnessEpoch(rep, sc, eo)
		return
	}
	rep.Evaluations++
	sch, _ := crypto.GetSchemeByID(sc.Scheme)
	// (1) one group: pairwise equality of every field and of the hash
	ref := obs[0]
	skew := false
	for _, o := range obs[1:] {
		a, b := *ref.Group, *o.Group
		if fmt.Sprint(a) == fmt.Sprint(b) && string(ref.GroupHash) == string(o.GroupHash) && ref.fin.FinalGroup.Equal(o.fin.FinalGroup) {
			continue
		}
		a.Transition, b.Transition = 0, 0
		if fmt.Sprint(a) == fmt.Sprint(b) {
			skew = true
			continue
		}
		rep.Fail("groups-differ", "two nodes that completed the same DKG hold different groups", ctx(map[string]interface{}{"a": ref.Node, "b": o.Node}))
	}
	if skew {
		tts := map[int]int64{}
		for _, o := range obs {
			tts[o.Node] = o.Group.Transition
		}
		mf := emit.MonitorFailure{Class: f15Class, What: "nodes that completed the same resharing hold groups with different transition times (completion straddled a round boundary)",
			Input: map[string]interface{}{"scenario": sc, "epoch": eo.Epoch, "transition_times": tts, "period_s": sc.Period}}
		// F15 is a candidate finding: it is recorded as a known witness and turned into a
		// monitor failure only on request, until it is listed in known_findings.txt
		recordWitness(rep, mf)
	}
	// (1b) the transition time is the genesis time in the first epoch, else the start of the 10th
	// round after some instant of the completion window (plain arithmetic, C16's functions)
	for _, o := range obs {
		okTT := false
		if eo.Epoch == 1 {
			okTT = o.Group.Transition == o.Group.GenesisTime
		} else {
			for t := o.T0; t <= o.T1; t++ {
				per := time.Duration(o.Group.Period) * time.Second
				if common.TimeOfRound(per, o.Group.GenesisTime, common.CurrentRound(t, per, o.Group.GenesisTime)+10) == o.Group.Transition {
					okTT = true
				}
			}
		}
		if !okTT {
			rep.Fail("transition-time-rule", "transition time is not genesis (epoch 1) / the start of the 10th round after completion", ctx(map[string]interface{}{"node": o.Node}))
		}
	}
	if len(ref.Group.Nodes) < len(ref.State.Remaining)+len(ref.State.Joining) {
		rep.Count("run/qual-proper-subset")
	}
	// (2) every node's share lies on the public polynomial of the group at its own index
	for i := range obs {
		o := &obs[i]
		if o.OwnIndex < 0 {
			rep.Fail("self-missing", "a node that completed is not in its own final group", ctx(map[string]interface{}{"node": o.Node}))
			continue
		}
		if o.ShareI != o.OwnIndex {
			rep.Fail("share-index-misaligned", "share index differs from the node's index in the group", ctx(map[string]interface{}{"node": o.Node}))
		}
		pub := o.fin.FinalGroup.PublicKey.PubPoly(sch)
		want := pub.Eval(o.OwnIndex).V
		got := sch.KeyGroup.Point().Mul(o.fin.KeyShare.Share.V, nil)
		o.OnPoly = want.Equal(got)
		if !o.OnPoly {
			rep.Fail("share-off-polynomial", "g^share differs from the group's public polynomial at the node's index", ctx(map[string]interface{}{"node": o.Node}))
		}
		if len(o.Commits) != len(o.Group.Public) {
			rep.Fail("public-key", "share commitments differ from the group public key", ctx(map[string]interface{}{"node": o.Node}))
		}
		if len(o.Group.Public) != int(o.Group.Threshold) {
			rep.Fail("public-degree", "public polynomial does not have threshold-many coefficients", ctx(map[string]interface{}{"node": o.Node}))
		}
	}
	// (3) any threshold of the shares signs a message that verifies under the group key
	t := int(ref.Group.Threshold)
	n := len(obs)
	pubPoly := ref.fin.FinalGroup.PublicKey.PubPoly(sch)
	msg := []byte(fmt.Sprintf("c06 %s epoch %d", sc.Name, eo.Epoch))
	partials := make([][]byte, n)
	for i, o := range obs {
		p, err := sch.ThresholdScheme.Sign(&share.PriShare{I: o.fin.KeyShare.Share.I, V: o.fin.KeyShare.Share.V}, msg)
		if err != nil {
			rep.Fail("threshold-signing", "partial signing failed", ctx(map[string]interface{}{"node": o.Node}))
			return
		}
		partials[i] = p
	}
	subsets := combos(n, t)
	if n > 5 && len(subsets) > 12 {
		g.rng.Shuffle(len(subsets), func(i, j int) { subsets[i], subsets[j] = subsets[j], subsets[i] })
		subsets = subsets[:12]
	}
	for _, sub := range subsets {
		var ps [][]byte
		for _, i := range sub {
			ps = append(ps, partials[i])
		}
		sig, err := sch.ThresholdScheme.Recover(pubPoly, msg, ps, t, len(ref.Group.Nodes))
		if err != nil || sch.ThresholdScheme.VerifyRecovered(pubPoly.Commit(), msg, sig) != nil {
			rep.Fail("threshold-signing", "a threshold of the shares does not produce a signature valid under the group key", ctx(map[string]interface{}{"subset": sub}))
			break
		}
		eo.Subsets++
	}
	// (4) correspondence: the model run on each node's stored terms must predict its group
	for _, o := range obs {
		st := o.State
		st.FinalGroup = nil
		var hin *pHashIn
		var hout []byte
		if eo.Epoch == 1 {
			st.GenesisSeed = nil // the proposal of the first epoch carries no seed; Complete() stores the derived one
			pre := *o.Group
			pre.GenesisSeed = nil
			h, hi := hashOf(&pre)
			hout, hin = h, &hi
			if string(h) != string(o.Group.GenesisSeed) {
				rep.Fail("seed-not-group-hash", "genesis seed of the first group is not the group hash", ctx(map[string]interface{}{"node": o.Node}))
			}
		}
		// QUAL as the schedule implies it (not read off the group): the DKG indices, ascending, of
		// the nodes that ran the protocol to the end, i.e. the ranks of their keys among the
		// participants this node stored
		var qual []int64
		for _, c := range obs {
			r := 0
			for _, p := range append(append([]pPart{}, st.Remaining...), st.Joining...) {
				if string(p.Key) < string(c.Key) {
					r++
				}
			}
			qual = append(qual, int64(r))
		}
		sortInts(qual)
		line := fmt.Sprintf("DFinish %s %s %s %s %s %s %s %s %s", cStr(crypto.DefaultSchemeID), cState(st), cBytesList(o.Commits), cIdx(qual),
			emit.Z(o.T0), emit.Z(o.T1), cHashIn(hin), cB(hout), cGroup(o.Group))
		d := fmt.Sprintf("DFinish scenario=%s epoch=%d node=%d index=%d n=%d t=%d window=[%d,%d] ttime=%d", sc.Name, eo.Epoch, o.Node, o.OwnIndex, n, t, o.T0, o.T1, o.Group.Transition)
		g.add(line, d, "finish/epoch"+fmt.Sprint(eo.Epoch), line, n >= 2)
	}
}

// witnessEpoch evaluates a replayed candidate finding: it is recorded as a known witness (and
// as a monitor failure only when VERIF_C06_WITNESSES=fail) until it is listed in known_findings.txt.
func witnessEpoch(rep *emit.Report, sc scenario, eo *epochObs) {
	sizes := map[int]int{}
	differ := false
	for _, o := range eo.Nodes {
		sizes[o.Node] = len(o.Group.Nodes)
		if string(o.GroupHash) != string(eo.Nodes[0].GroupHash) {
			differ = true
		}
	}
	samePoly, sameKey := true, true
	for _, o := range eo.Nodes {
		if fmt.Sprint(o.Commits) != fmt.Sprint(eo.Nodes[0].Commits) {
			samePoly = false
		}
		if len(o.Commits) == 0 || len(eo.Nodes[0].Commits) == 0 || string(o.Commits[0]) != string(eo.Nodes[0].Commits[0]) {
			sameKey = false
		}
	}
	rep.Extra["witness/"+sc.Witness] = map[string]interface{}{"reproduced": differ, "group_sizes": sizes, "same_public_polynomial": samePoly, "same_group_key": sameKey, "completed": len(eo.Nodes), "bus": eo.Stats}
	if !differ {
		return
	}
	mf := emit.MonitorFailure{Class: sc.Witness, What: "all participants complete the resharing, but the node that received a duplicate of a response bundle of the PREVIOUS ceremony before the sender's new response evicts that sender from QUAL and ends with a smaller group than the others (kyber's packet set treats the two bundles as equivocation before looking at the session id; the echo broadcast accepts bundles of an old session)",
		Input: map[string]interface{}{"scenario": sc, "epoch": eo.Epoch, "group_sizes_by_node": sizes}}
	recordWitness(rep, mf)
}

func recordWitness(rep *emit.Report, mf emit.MonitorFailure) {
	rep.Known = append(rep.Known, mf)
	if os.Getenv("VERIF_C06_WITNESSES") == "fail" {
		rep.Fail(mf.Class, mf.What, mf.Input)
	}
}

func combos(n, k int) [][]int {
	var out [][]int
	var rec func(start int, cur []int)
	rec = func(start int, cur []int) {
		if len(cur) == k {
			out = append(out, append([]int{}, cur...))
			return
		}
		for i := start; i < n; i++ {
			rec(i+1, append(cur, i))
		}
	}
	rec(0, nil)
	sort.Slice(out, func(i, j int) bool { return fmt.Sprint(out[i]) < fmt.Sprint(out[j]) })
	return out
}
