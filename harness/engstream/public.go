package engstream

// The public randomness stream: the REAL BeaconProcess.PublicRandStream (its proxyRequest /
// proxyStream adapters over beacon.SyncChain) on a real beacon.Handler, with a transport that keeps
// the message pointers it is handed and reads them only after the stream has ended, as gRPC allows
// ("it is not safe to modify the message after calling SendMsg"). Real code and monitor only.

import (
	"bytes"
	"context"
	"fmt"
	"sync"
	"time"

	"google.golang.org/grpc"

	"github.com/drand/drand/v2/common"
	"github.com/drand/drand/v2/crypto"
	"github.com/drand/drand/v2/internal/core"
	proto "github.com/drand/drand/v2/protobuf/drand"
	"github.com/drand/drand/v2/zzverif/emit"
	"github.com/drand/drand/v2/zzverif/engnode"
)

type sentMsg struct {
	msg                   *proto.PublicRandResponse // the pointer the transport was handed
	round                 uint64                    // what it carried at that moment
	sig, prev, randomness []byte
}

type retainingStream struct {
	grpc.ServerStream
	ctx context.Context
	mu  sync.Mutex
	got []sentMsg
}

func (s *retainingStream) Context() context.Context { return s.ctx }
func (s *retainingStream) Send(r *proto.PublicRandResponse) error {
	s.mu.Lock()
	defer s.mu.Unlock()
	s.got = append(s.got, sentMsg{msg: r, round: r.GetRound(), sig: bytes.Clone(r.GetSignature()),
		prev: bytes.Clone(r.GetPreviousSignature()), randomness: bytes.Clone(r.GetRandomness())})
	return nil
}
func (s *retainingStream) count() int {
	s.mu.Lock()
	defer s.mu.Unlock()
	return len(s.got)
}

func waitCount(s *retainingStream, n int) bool {
	deadline := time.Now().Add(Deadline)
	for s.count() < n {
		if time.Now().After(deadline) {
			return false
		}
		time.Sleep(time.Millisecond)
	}
	return true
}

// publicStream runs one public stream from round `from` over a handler that holds rounds 0..5 and then
// stores 6..8 while the stream is live; it checks what the transport finally reads.
func publicStream(rep *emit.Report, schemeName string, from uint64) error {
	sch, err := crypto.SchemeFromName(schemeName)
	if err != nil {
		return err
	}
	const period, genesis = int64(10), int64(1_700_000_000)
	w, err := engnode.NewWorld(sch, 3, 2, 0, period, genesis, genesis+5, "mem")
	if err != nil {
		return err
	}
	defer w.Close()
	ctx := context.Background()
	store := w.H.Store()
	last, err := store.Last(ctx)
	if err != nil {
		return err
	}
	put := func(r uint64) error {
		b := &common.Beacon{Round: r, PreviousSig: last.Signature, Signature: tokSig(int64(7000 + r))}
		if err := store.Put(ctx, b); err != nil {
			return err
		}
		last = b
		return nil
	}
	for r := uint64(1); r <= 5; r++ {
		if err := put(r); err != nil {
			return err
		}
	}
	bp := core.VerifServingProcess("default", []byte{0xC1, 0x1A}, w.Epochs[0].Group, w.H, quiet())
	sctx, cancel := context.WithCancel(ctx)
	rs := &retainingStream{ctx: sctx}
	done := make(chan error, 1)
	go func() { done <- bp.PublicRandStream(&proto.PublicRandRequest{Round: from}, rs) }()
	first := from
	nScan := 0
	if from != 0 {
		nScan = int(5 - from + 1)
		if !waitCount(rs, nScan) {
			failOnce(rep, "C11-harness-stuck", "the public stream did not deliver its catch-up", map[string]interface{}{"scenario": "public-stream", "scheme": schemeName})
		}
	} else {
		first = 6
		time.Sleep(20 * time.Millisecond) // "from now on": let the stream register before the next beacon
	}
	for r := uint64(6); r <= 8; r++ {
		if err := put(r); err != nil {
			cancel()
			return err
		}
	}
	complete := waitCount(rs, nScan+3)
	cancel()
	select {
	case <-done:
	case <-time.After(Deadline):
	}
	// the transport reads its messages now
	rs.mu.Lock()
	defer rs.mu.Unlock()
	var finalRounds []uint64
	for _, m := range rs.got {
		finalRounds = append(finalRounds, m.msg.GetRound())
	}
	for i, m := range rs.got {
		in := map[string]interface{}{"scenario": "public-stream", "scheme": schemeName, "from_round": from, "message": i,
			"round_when_sent": m.round, "round_when_read": m.msg.GetRound(), "rounds_read_by_the_transport": finalRounds}
		if m.msg.GetRound() != m.round || !bytes.Equal(m.msg.GetSignature(), m.sig) || !bytes.Equal(m.msg.GetPreviousSignature(), m.prev) || !bytes.Equal(m.msg.GetRandomness(), m.randomness) {
			failOnce(rep, "C11-public-stream-message-mutated-after-send",
				fmt.Sprintf("message %d of the public stream carried round %d when it was handed to the transport and carries round %d when the transport reads it: the transport sees rounds %v", i, m.round, m.msg.GetRound(), finalRounds), in)
			break
		}
		want := first + uint64(i)
		sb, err := store.Get(ctx, want)
		if err != nil || m.msg.GetRound() != want || !bytes.Equal(m.msg.GetSignature(), sb.Signature) ||
			!bytes.Equal(m.msg.GetPreviousSignature(), sb.PreviousSig) ||
			!bytes.Equal(m.msg.GetRandomness(), crypto.RandomnessFromSignature(sb.Signature)) {
			failOnce(rep, "C11-public-stream-beacon-differs-from-stored",
				fmt.Sprintf("message %d of the public stream (from round %d) is not the stored beacon of round %d", i, from, want), in)
			break
		}
	}
	if !complete || len(rs.got) != nScan+3 {
		failOnce(rep, "C11-public-stream-incomplete", fmt.Sprintf("the public stream from round %d delivered %d messages, expected %d", from, len(rs.got), nScan+3),
			map[string]interface{}{"scenario": "public-stream", "scheme": schemeName, "from_round": from})
	}
	rep.Evaluations += nScan + 3
	rep.Count("stream/public-rand-stream/" + schemeName)
	return nil
}

func runPublicStreams(rep *emit.Report) error {
	for _, name := range []string{crypto.DefaultSchemeID, crypto.UnchainedSchemeID} {
		for _, from := range []uint64{1, 4, 0} {
			if err := publicStream(rep, name, from); err != nil {
				return err
			}
		}
	}
	return nil
}
