// Package engstream is the correspondence engine "stream" for C11: the REAL beacon.SyncChain
// over the real callback store on bolt (trimmed and untrimmed) and memdb, with a fake SyncStream
// whose Send is gated and a wrapping CallbackStore that gates AddCallback, so that the harness
// CHOOSES the interleaving of appends with the catch-up scan, the switch to live delivery,
// concurrent streams and reconnects. Observable: the beacons passed to Send and the error class
// each SyncChain call returned.
package engstream

import (
	"context"
	"encoding/binary"
	"errors"
	"fmt"
	"math/rand"
	"net"
	"os"
	"path/filepath"
	"sync"
	"time"

	dto "github.com/prometheus/client_model/go"
	"google.golang.org/grpc/peer"

	"github.com/drand/drand/v2/common"
	"github.com/drand/drand/v2/common/log"
	"github.com/drand/drand/v2/crypto"
	"github.com/drand/drand/v2/internal/chain"
	"github.com/drand/drand/v2/internal/chain/beacon"
	"github.com/drand/drand/v2/internal/chain/boltdb"
	chainerrors "github.com/drand/drand/v2/internal/chain/errors"
	"github.com/drand/drand/v2/internal/chain/memdb"
	"github.com/drand/drand/v2/internal/metrics"
	proto "github.com/drand/drand/v2/protobuf/drand"
	"github.com/drand/drand/v2/zzverif/emit"
)

// Deadline for something that must happen "at once".
var Deadline = 2 * time.Second

var errSend = errors.New("harness: send refused")

func quiet() log.Logger { return log.New(nil, log.PanicLevel, false) }

type evKind int

const (
	evPut evKind = iota
	evStart
	evAck
	evRegister
)

type event struct {
	kind   evKind
	d      int64  // Put: content token
	cid    int    // Start
	from   uint64 // Start
	k      int    // Ack / Register: stream index
	ok     bool   // Ack
	cancel bool   // Register: the stream context is cancelled right after AddCallback returned (the client is gone)
	ctx    int    // Put: 0 = live context, 1 = context cancelled between the commit and the dispatch, 2 = cancelled before the call
}

func (e event) coq() string {
	switch e.kind {
	case evPut:
		if e.ctx != 0 {
			return fmt.Sprintf("SPutCtx %d %s", e.d, emit.Bool(e.ctx == 2))
		}
		return fmt.Sprintf("SPut %d", e.d)
	case evStart:
		return fmt.Sprintf("SStart %d %d", e.cid, e.from)
	case evAck:
		return fmt.Sprintf("SAck %d %s", e.k, emit.Bool(e.ok))
	}
	if e.cancel {
		return fmt.Sprintf("SRegisterCancel %d", e.k)
	}
	return fmt.Sprintf("SRegister %d", e.k)
}

type sent struct {
	round uint64
	tok   int64 // content token of the signature
	prev  int64 // content token of the previous signature, -1 when it is empty
}

func tokSig(d int64) []byte {
	b := make([]byte, 8)
	binary.BigEndian.PutUint64(b, uint64(d))
	return b
}
func sigTok(s []byte) int64 {
	if len(s) != 8 {
		return -1
	}
	return int64(binary.BigEndian.Uint64(s))
}

// ---- fake stream ----
type fakeStream struct {
	cancel  context.CancelFunc
	ctx     context.Context
	mu      sync.Mutex
	sent    []sent
	broken  bool
	refused int // Send calls refused at once after the stream broke
	entered chan sent
	ack     chan bool
}

func (f *fakeStream) Context() context.Context { return f.ctx }
func (f *fakeStream) Send(p *proto.BeaconPacket) error {
	f.mu.Lock()
	if f.broken {
		f.refused++
		f.mu.Unlock()
		return errSend
	}
	s := sent{p.GetRound(), sigTok(p.GetSignature()), sigTok(p.GetPreviousSignature())}
	f.sent = append(f.sent, s)
	f.mu.Unlock()
	f.entered <- s
	if ok := <-f.ack; !ok {
		f.mu.Lock()
		f.broken = true
		f.sent = f.sent[:len(f.sent)-1]
		f.mu.Unlock()
		return errSend
	}
	return nil
}

// conn is the key of a connection (remote host and source port) as used in the events: the model
// identifies a client stream by its connection, whatever id the code derives from it.
func conn(host, port int) int { return host*100000 + port }

// peerAddr is the gRPC peer address of a connection key (keys below 100000: that host, port 7000).
func peerAddr(key int) *net.TCPAddr {
	host, port := key/100000, key%100000
	if host == 0 {
		host, port = key, 7000
	}
	return &net.TCPAddr{IP: net.IPv4(203, 0, 113, byte(host)), Port: port}
}

// ---- CallbackStore wrapper that announces and gates AddCallback ----
type gatedStore struct {
	beacon.CallbackStore
	atAdd chan struct{}
	gate  chan struct{}
	added chan struct{}
	// afterAdd, when set, runs between the return of the real AddCallback and the return to SyncChain
	afterAdd func()
}

func (g *gatedStore) AddCallback(id string, fn beacon.CallbackFunc) {
	g.atAdd <- struct{}{}
	<-g.gate
	g.CallbackStore.AddCallback(id, fn)
	if g.afterAdd != nil {
		g.afterAdd()
	}
	g.added <- struct{}{}
}

// pausingStore lets the harness hold a Put of the callback store between the write to the
// underlying store and the dispatch to the callbacks.
type pausingStore struct {
	chain.Store
	mu     sync.Mutex
	armed  bool
	stored chan struct{}
	resume chan struct{}
	// giveUp, when set, is called right after the next successful write: the caller of Put gives up
	// (its context is cancelled) while the commit is in flight
	giveUp context.CancelFunc
}

func (p *pausingStore) Put(ctx context.Context, b *common.Beacon) error {
	err := p.Store.Put(ctx, b)
	p.mu.Lock()
	armed := p.armed
	p.armed = false
	giveUp := p.giveUp
	p.giveUp = nil
	p.mu.Unlock()
	if giveUp != nil && err == nil {
		giveUp()
	}
	if armed {
		p.stored <- struct{}{}
		<-p.resume
	}
	return err
}

type req struct{ from uint64 }

func (r req) GetFromRound() uint64         { return r.from }
func (r req) GetMetadata() *proto.Metadata { return &proto.Metadata{BeaconID: "default"} }

type streamRun struct {
	fs   *fakeStream
	gs   *gatedStore
	done chan error
	// harness view
	pending *sent // a Send that was entered and not yet acknowledged
	atGate  bool
	phase   string // scan | wait | live | done
	// shadow bookkeeping, used only to know how long to wait
	qlen           int
	busy           bool
	cid            int
	windowed       bool            // a Put happened between this stream's snapshot / last scan read and its AddCallback
	winRounds      map[uint64]bool // the rounds of those Puts
	base           uint64
	started        bool
	registeredOnce bool
	from           uint64 // requested round
	headAt         uint64 // the server's last stored round when the request arrived
}

type world struct {
	stack string // bare: callback store directly over the back-end; chained / unchained: the daemon's
	// stack callback(append(scheme(back-end))) with that scheme
	name    string // logger name = label of the sync_total_callbacks gauge of this world's callback store
	backend string
	dir     string
	base    chain.Store
	pause   *pausingStore
	cbs     beacon.CallbackStore
	runs    []*streamRun
	reg     map[int]int
	head    uint64
	toks    map[uint64]int64
	problem string
}

// template of a pre-grown bolt file: pages freed before a read transaction started can be reused by
// writers while that transaction is open, so appends during a gated scan do not need to grow the
// memory map (which would wait for the read transaction).
var templates = map[string]string{}

func boltDir(backend, root string, n int) (string, error) {
	tpl, ok := templates[backend]
	if !ok {
		tpl = filepath.Join(root, "tpl-"+backend)
		if err := os.MkdirAll(tpl, 0o755); err != nil {
			return "", err
		}
		ctx := context.Background()
		if backend == "boltU" {
			ctx = boltdb.IsATest(ctx)
		}
		st, err := boltdb.NewBoltStore(ctx, quiet(), tpl)
		if err != nil {
			return "", err
		}
		pad := make([]byte, 4000)
		for r := uint64(1000); r < 1400; r++ {
			if err := st.Put(ctx, &common.Beacon{Round: r, Signature: pad}); err != nil {
				return "", err
			}
		}
		for r := uint64(1000); r < 1400; r++ {
			if err := st.Del(ctx, r); err != nil {
				return "", err
			}
		}
		if err := st.Close(); err != nil {
			return "", err
		}
		templates[backend] = tpl
	}
	dir := filepath.Join(root, fmt.Sprintf("w-%s-%d", backend, n))
	if err := os.MkdirAll(dir, 0o755); err != nil {
		return "", err
	}
	b, err := os.ReadFile(filepath.Join(tpl, boltdb.BoltFileName))
	if err != nil {
		return "", err
	}
	return dir, os.WriteFile(filepath.Join(dir, boltdb.BoltFileName), b, 0o600)
}

var worldN int

var schemes = map[string]*crypto.Scheme{}

func schemeOf(stack string) *crypto.Scheme {
	if sch, ok := schemes[stack]; ok {
		return sch
	}
	sch := crypto.NewPedersenBLSChained()
	if stack == "unchained" {
		sch = crypto.NewPedersenBLSUnchained()
	}
	schemes[stack] = sch
	return sch
}

func newWorld(backend, stack, root string, genesis int64) (*world, error) {
	worldN++
	w := &world{backend: backend, stack: stack, name: fmt.Sprintf("zzv-stream-%d", worldN), reg: map[int]int{}, toks: map[uint64]int64{}}
	ctx := context.Background()
	if stack == "chained" {
		ctx = chain.SetPreviousRequiredOnContext(ctx) // trimmed bolt rebuilds the previous signature
	}
	switch backend {
	case "mem":
		w.base = memdb.NewStore(5000)
	case "boltT", "boltU":
		dir, err := boltDir(backend, root, worldN)
		if err != nil {
			return nil, err
		}
		w.dir = dir
		if backend == "boltU" {
			ctx = boltdb.IsATest(ctx)
		}
		st, err := boltdb.NewBoltStore(ctx, quiet(), dir)
		if err != nil {
			return nil, err
		}
		w.base = st
	}
	if err := w.base.Put(ctx, &common.Beacon{Round: 0, Signature: tokSig(genesis)}); err != nil {
		return nil, err
	}
	w.toks[0] = genesis
	inner := w.base
	if stack != "bare" {
		// as newChainStore builds it: the scheme store under the append store under the callback store
		sch := schemeOf(stack)
		ss, err := beacon.NewSchemeStore(ctx, w.base, sch)
		if err != nil {
			return nil, err
		}
		if inner, err = beacon.NewAppendStore(ctx, ss); err != nil {
			return nil, err
		}
	}
	w.pause = &pausingStore{Store: inner, stored: make(chan struct{}, 1), resume: make(chan struct{})}
	w.cbs = beacon.NewCallbackStore(quiet().Named(w.name), w.pause)
	return w, nil
}

// close unwinds the SyncChain calls that are still gated (a scan holds a bolt read transaction
// open, and bolt's Close waits for it), then closes the store.
func (w *world) close() {
	for _, r := range w.runs {
		r.fs.mu.Lock()
		r.fs.broken = true
		r.fs.mu.Unlock()
		go func(r *streamRun) {
			for i := 0; i < 3; i++ {
				select {
				case r.fs.ack <- false:
				case r.gs.gate <- struct{}{}:
				case <-time.After(20 * time.Millisecond):
				}
			}
		}(r)
	}
	closed := make(chan struct{})
	go func() { _ = w.cbs.Close(); close(closed) }()
	select {
	case <-closed:
	case <-time.After(Deadline):
	}
	if w.dir != "" {
		_ = os.RemoveAll(w.dir)
	}
}

// patience: how long to wait for something that must happen at once; once this world has already
// shown an anomaly (recorded in problem) there is no point in waiting the full deadline again.
func (w *world) patience() time.Duration {
	if w.problem != "" {
		return 50 * time.Millisecond
	}
	if anomalies >= 3 {
		return 200 * time.Millisecond
	}
	return Deadline
}

// anomalies counts the scenarios of this run that got stuck; after a few of them the run is a
// violation anyway and the remaining scenarios stop waiting the full deadline.
var anomalies int

func (w *world) note(format string, a ...interface{}) {
	if w.problem == "" {
		w.problem = fmt.Sprintf(format, a...)
	}
}

// waitStable waits until stream k shows where it is: a Send entered, the AddCallback gate, or the end.
func (w *world) waitStable(r *streamRun) {
	if r.pending != nil || r.atGate || r.phase == "done" {
		return
	}
	select {
	case s := <-r.fs.entered:
		r.pending = &s
	case <-r.gs.atAdd:
		r.atGate = true
		r.phase = "wait"
	case err := <-r.done:
		r.phase = "done"
		r.done <- err
	case <-time.After(w.patience()):
		w.note("stream did not reach a Send, AddCallback or its end within %v", Deadline)
	}
}

func (w *world) do(e event) {
	ctx := context.Background()
	switch e.kind {
	case evPut:
		round := w.head + 1
		b := &common.Beacon{Round: round, Signature: tokSig(e.d)}
		if w.stack != "bare" {
			// like the aggregator and sync peers: the beacon arrives with the previous signature set
			b.PreviousSig = tokSig(w.toks[w.head])
		}
		pctx := ctx
		if e.ctx != 0 {
			var cancel context.CancelFunc
			pctx, cancel = context.WithCancel(ctx)
			if e.ctx == 2 {
				cancel()
			} else {
				w.pause.mu.Lock()
				w.pause.giveUp = cancel
				w.pause.mu.Unlock()
			}
			defer cancel()
		}
		done := make(chan error, 1)
		go func() { done <- w.cbs.Put(pctx, b) }()
		select {
		case err := <-done:
			if err != nil && e.ctx == 0 {
				w.note("Put failed: %v", err)
			}
		case <-time.After(w.patience()):
			w.note("Put of round %d did not return within %v", round, Deadline)
		}
		if e.ctx != 0 {
			// what counts is whether the store accepted the beacon (a cancelled context makes bolt refuse)
			if last, err := w.base.Last(ctx); err != nil || last.Round != round {
				return
			}
		}
		w.head = round
		w.toks[round] = e.d
		for k, r := range w.runs {
			switch r.phase {
			case "scan":
				if w.backend != "mem" {
					r.windowed = true
					r.winRounds[w.head] = true
				}
			case "wait":
				r.windowed = true
				r.winRounds[w.head] = true
			case "live":
				if kk, ok := w.reg[r.cid]; ok && kk == k {
					if r.busy {
						r.qlen++
					} else {
						r.busy = true
					}
				}
			}
		}
	case evStart:
		fs := &fakeStream{entered: make(chan sent, 1024), ack: make(chan bool)}
		addr := peerAddr(e.cid) // a real gRPC peer context: internal/net derives the callback id from it
		fs.ctx, fs.cancel = context.WithCancel(peer.NewContext(context.Background(), &peer.Peer{Addr: addr}))
		gs := &gatedStore{CallbackStore: w.cbs, atAdd: make(chan struct{}, 1), gate: make(chan struct{}), added: make(chan struct{}, 1)}
		r := &streamRun{fs: fs, gs: gs, done: make(chan error, 1), phase: "scan", cid: e.cid, started: true, winRounds: map[uint64]bool{}}
		if e.from == 0 {
			r.base = w.head + 1
		} else {
			r.base = e.from
		}
		r.from, r.headAt = e.from, w.head
		w.runs = append(w.runs, r)
		go func() { r.done <- beacon.SyncChain(quiet(), gs, req{e.from}, fs) }()
		w.waitStable(r)
	case evAck:
		if e.k >= len(w.runs) {
			return
		}
		r := w.runs[e.k]
		if r.pending == nil && (r.phase == "scan" || (r.phase == "live" && r.busy)) {
			w.waitStable(r)
		}
		if r.pending == nil {
			return // nothing in Send: the event is a no-op, as in the model
		}
		r.pending = nil
		r.fs.ack <- e.ok
		switch {
		case !e.ok:
			// SyncChain returns the error; in the live phase the worker then drains the queue into
			// the broken stream (each refused at once, the third blocks for ever on errChan)
			want := 0
			if r.phase == "live" {
				want = r.qlen
				if want > 2 {
					want = 2
				}
				if kk, ok := w.reg[r.cid]; ok {
					_ = kk
					delete(w.reg, r.cid)
				}
			}
			select {
			case err := <-r.done:
				r.done <- err
			case <-time.After(w.patience()):
				w.note("SyncChain did not return after a refused Send")
			}
			dl := time.Now().Add(100 * time.Millisecond)
			for {
				r.fs.mu.Lock()
				n := r.fs.refused
				r.fs.mu.Unlock()
				if n >= want || time.Now().After(dl) {
					break
				}
				time.Sleep(200 * time.Microsecond)
			}
			time.Sleep(10 * time.Millisecond) // let the RemoveCallback of the last refused Send finish
			r.phase = "done"
		case r.phase == "scan":
			w.waitStable(r)
		case r.phase == "live":
			if r.qlen > 0 {
				r.qlen--
				w.waitStable(r)
			} else {
				r.busy = false
			}
		}
	case evRegister:
		if e.k >= len(w.runs) {
			return
		}
		r := w.runs[e.k]
		if r.phase == "scan" && r.pending == nil {
			w.waitStable(r)
		}
		if !r.atGate {
			return
		}
		r.atGate = false
		if e.cancel {
			r.gs.afterAdd = r.fs.cancel
		}
		r.gs.gate <- struct{}{}
		select {
		case <-r.gs.added:
		case <-time.After(w.patience()):
			w.note("AddCallback did not return within %v", Deadline)
		}
		if old, ok := w.reg[r.cid]; ok {
			o := w.runs[old]
			if o.busy {
				o.qlen++ // the close job
			} else {
				// idle: the close callback runs at once and the old SyncChain returns
				select {
				case err := <-o.done:
					o.done <- err
					o.phase = "done"
				case <-time.After(w.patience()):
					w.note("replaced SyncChain did not return")
				}
			}
		}
		if e.cancel {
			// the client is gone: SyncChain unregisters and returns the context's error
			delete(w.reg, r.cid)
			select {
			case err := <-r.done:
				r.done <- err
			case <-time.After(w.patience()):
				w.note("SyncChain did not return after its context was cancelled")
			}
			r.phase = "done"
			return
		}
		w.reg[r.cid] = e.k
		r.registeredOnce = true
		r.phase = "live"
		r.busy, r.qlen = false, 0
		// SyncChain now sends what was stored since its snapshot / last scan read
		if n := len(r.winRounds); n > 0 {
			r.busy, r.qlen = true, n-1
			w.waitStable(r)
		}
	}
}

type obs struct {
	sent   []sent
	stored []sent // what the store (through the whole stack) returns for the round of each sent beacon
	err    string // "" still running, else NoBeacon | Send | Replaced | Canceled | Other
}

// registered reads the sync_total_callbacks gauge of this world's callback store (len(callbacks),
// set by every AddCallback / RemoveCallback; a RemoveCallback of an unknown id refreshes it).
func (w *world) registered() int {
	w.cbs.RemoveCallback("zzv-probe-not-registered")
	var m dto.Metric
	if err := metrics.SyncCallbacks.WithLabelValues(w.name).Write(&m); err != nil || m.GetGauge() == nil {
		return -1
	}
	return int(m.GetGauge().GetValue())
}

func (w *world) finish() []obs {
	// every stream that the bookkeeping expects inside a Send must have entered it
	for _, r := range w.runs {
		if r.phase == "live" && r.busy && r.pending == nil {
			w.waitStable(r)
		}
	}
	time.Sleep(5 * time.Millisecond)
	out := make([]obs, len(w.runs))
	for i, r := range w.runs {
		r.fs.mu.Lock()
		out[i].sent = append([]sent(nil), r.fs.sent...)
		r.fs.mu.Unlock()
		for _, s := range out[i].sent {
			st := sent{round: s.round, tok: -2, prev: -2}
			if b, err := w.cbs.Get(context.Background(), s.round); err == nil && b != nil {
				st.tok, st.prev = sigTok(b.Signature), sigTok(b.PreviousSig)
			}
			out[i].stored = append(out[i].stored, st)
		}
		select {
		case err := <-r.done:
			switch {
			case errors.Is(err, chainerrors.ErrNoBeaconStored):
				out[i].err = "NoBeacon"
			case errors.Is(err, beacon.ErrCallbackReplaced):
				out[i].err = "Replaced"
			case errors.Is(err, errSend):
				out[i].err = "Send"
			case errors.Is(err, context.Canceled):
				out[i].err = "Canceled"
			default:
				out[i].err = "Other"
			}
		default:
		}
	}
	return out
}

// straddle runs, on the real code only (the model treats a Put as one step), the schedule in which
// a Put has written to the store but not yet dispatched when SyncChain registers its callback: the
// catch-up sends that beacon from the store and the callback must then drop it. Returns the rounds
// passed to Send.
func straddle(root, backend string) ([]uint64, string, error) {
	w, err := newWorld(backend, "bare", root, 7)
	if err != nil {
		return nil, "", err
	}
	defer w.close()
	for i := 0; i < 3; i++ {
		w.do(event{kind: evPut, d: int64(100 + i)})
	}
	w.do(event{kind: evStart, cid: 1, from: 1})
	for i := 0; i < 3; i++ {
		w.do(event{kind: evAck, k: 0, ok: true})
	}
	r := w.runs[0]
	if !r.atGate {
		return nil, "the scan did not reach AddCallback", nil
	}
	w.pause.mu.Lock()
	w.pause.armed = true
	w.pause.mu.Unlock()
	w.head++
	w.toks[w.head] = 104
	putDone := make(chan error, 1)
	go func() { putDone <- w.cbs.Put(context.Background(), &common.Beacon{Round: 4, Signature: tokSig(104)}) }()
	select {
	case <-w.pause.stored:
	case <-time.After(Deadline):
		return nil, "the paused Put did not reach the store", nil
	}
	// AddCallback and the catch-up run while the Put is between its store write and its dispatch
	r.atGate = false
	r.gs.gate <- struct{}{}
	select {
	case <-r.gs.added:
	case <-time.After(Deadline):
		return nil, "AddCallback did not return", nil
	}
	w.reg[r.cid] = 0
	r.phase, r.busy, r.qlen = "live", true, 0
	w.waitStable(r)
	w.do(event{kind: evAck, k: 0, ok: true}) // Send(4) from the catch-up
	w.pause.resume <- struct{}{}             // now the dispatch of round 4 reaches the callback
	select {
	case <-putDone:
	case <-time.After(Deadline):
		return nil, "the resumed Put did not return", nil
	}
	w.do(event{kind: evPut, d: 105})
	w.do(event{kind: evAck, k: 0, ok: true})
	time.Sleep(5 * time.Millisecond)
	obs := w.finish()
	var rounds []uint64
	for _, s := range obs[0].sent {
		rounds = append(rounds, s.round)
	}
	return rounds, w.problem, nil
}

// holeWalk runs, on the real code only (the model's store is contiguous), a stream over a chained
// store from which a middle round was deleted (a resync interrupted between its Del and its Put):
// whatever the server sends must still be the beacons of the chain, each with the signature of the
// round before it.
func holeWalk(root, backend string) (outcome, error) {
	sc := scenario{name: "chained-store-with-a-deleted-round", genesis: 7}
	w, err := newWorld(backend, "chained", root, 7)
	if err != nil {
		return outcome{}, err
	}
	for i := 0; i < 6; i++ {
		w.do(event{kind: evPut, d: int64(200 + i)})
	}
	if err := w.base.Del(context.Background(), 3); err != nil {
		w.close()
		return outcome{}, err
	}
	w.do(event{kind: evStart, cid: 1, from: 1})
	r := w.runs[0]
	for i := 0; i < 8 && r.phase != "done"; i++ {
		if r.atGate {
			w.do(event{kind: evRegister, k: 0})
			continue
		}
		if r.pending == nil {
			break
		}
		w.do(event{kind: evAck, k: 0, ok: true})
	}
	o := outcome{sc: sc, backend: backend, stack: "chained", obs: w.finish(), toks: w.toks, problem: ""}
	o.head = w.head
	w.close()
	return o, nil
}

type scenario struct {
	name    string
	genesis int64
	script  []event
}

func puts(rng *rand.Rand, n int) []event {
	out := make([]event, n)
	for i := range out {
		out[i] = event{kind: evPut, d: 100 + rng.Int63n(900)}
	}
	return out
}

func witnessScenarios(rng *rand.Rand) []scenario {
	var out []scenario
	// F4: store 0..3, stream from 1, Put 4 between the end of the scan and AddCallback
	s := puts(rng, 3)
	s = append(s, event{kind: evStart, cid: 1, from: 1},
		event{kind: evAck, k: 0, ok: true}, event{kind: evAck, k: 0, ok: true}, event{kind: evAck, k: 0, ok: true})
	s = append(s, puts(rng, 1)...)
	s = append(s, event{kind: evRegister, k: 0})
	s = append(s, puts(rng, 2)...)
	s = append(s, event{kind: evAck, k: 0, ok: true}, event{kind: evAck, k: 0, ok: true})
	out = append(out, scenario{name: "put-between-scan-end-and-addcallback", genesis: 7, script: s})
	// the same Put issued during the scan (first Send still in progress)
	s2 := puts(rng, 3)
	s2 = append(s2, event{kind: evStart, cid: 1, from: 1})
	s2 = append(s2, puts(rng, 1)...)
	s2 = append(s2, event{kind: evAck, k: 0, ok: true}, event{kind: evAck, k: 0, ok: true}, event{kind: evAck, k: 0, ok: true},
		event{kind: evAck, k: 0, ok: true}, event{kind: evRegister, k: 0})
	s2 = append(s2, puts(rng, 2)...)
	s2 = append(s2, event{kind: evAck, k: 0, ok: true}, event{kind: evAck, k: 0, ok: true})
	out = append(out, scenario{name: "put-during-scan", genesis: 7, script: s2})
	// no Put in the window: contiguous
	s3 := puts(rng, 3)
	s3 = append(s3, event{kind: evStart, cid: 1, from: 1},
		event{kind: evAck, k: 0, ok: true}, event{kind: evAck, k: 0, ok: true}, event{kind: evAck, k: 0, ok: true},
		event{kind: evRegister, k: 0})
	s3 = append(s3, puts(rng, 3)...)
	s3 = append(s3, event{kind: evAck, k: 0, ok: true}, event{kind: evAck, k: 0, ok: true}, event{kind: evAck, k: 0, ok: true})
	out = append(out, scenario{name: "no-put-in-window", genesis: 7, script: s3})
	// reconnect under the same id while the old stream is inside a Send
	s4 := puts(rng, 2)
	s4 = append(s4, event{kind: evStart, cid: 1, from: 0}, event{kind: evRegister, k: 0})
	s4 = append(s4, puts(rng, 2)...)
	s4 = append(s4, event{kind: evStart, cid: 1, from: 2}, event{kind: evAck, k: 1, ok: true}, event{kind: evAck, k: 1, ok: true},
		event{kind: evAck, k: 1, ok: true}, event{kind: evRegister, k: 1})
	s4 = append(s4, puts(rng, 1)...)
	s4 = append(s4, event{kind: evAck, k: 0, ok: true}, event{kind: evAck, k: 0, ok: true}, event{kind: evAck, k: 1, ok: true})
	out = append(out, scenario{name: "reconnect-same-id", genesis: 7, script: s4})
	// start beyond the head, at the head, at 0
	s5 := puts(rng, 3)
	s5 = append(s5, event{kind: evStart, cid: 1, from: 4}, event{kind: evStart, cid: 2, from: 3}, event{kind: evStart, cid: 3, from: 0},
		event{kind: evAck, k: 1, ok: true}, event{kind: evRegister, k: 1}, event{kind: evRegister, k: 2})
	s5 = append(s5, puts(rng, 2)...)
	s5 = append(s5, event{kind: evAck, k: 1, ok: true}, event{kind: evAck, k: 2, ok: false}, event{kind: evAck, k: 1, ok: true})
	out = append(out, scenario{name: "start-rounds", genesis: 7, script: s5})
	// a Put whose caller gives up (context cancelled) between the commit and the dispatch, with live
	// streams: the beacon is in the store, every live stream must still get it
	for _, mode := range []int{1, 2} {
		s6 := puts(rng, 3)
		s6 = append(s6, event{kind: evStart, cid: 1, from: 2}, event{kind: evAck, k: 0, ok: true}, event{kind: evAck, k: 0, ok: true},
			event{kind: evRegister, k: 0},
			event{kind: evStart, cid: 2, from: 0}, event{kind: evRegister, k: 1},
			event{kind: evStart, cid: 3, from: 3}, event{kind: evAck, k: 2, ok: true}, event{kind: evRegister, k: 2})
		s6 = append(s6, puts(rng, 1)...)
		s6 = append(s6, event{kind: evAck, k: 0, ok: true}, event{kind: evAck, k: 1, ok: true}, event{kind: evAck, k: 2, ok: true})
		s6 = append(s6, event{kind: evPut, d: 555, ctx: mode})
		s6 = append(s6, event{kind: evAck, k: 0, ok: true}, event{kind: evAck, k: 1, ok: true}, event{kind: evAck, k: 2, ok: true})
		s6 = append(s6, puts(rng, 2)...)
		s6 = append(s6, event{kind: evAck, k: 0, ok: true}, event{kind: evAck, k: 1, ok: true}, event{kind: evAck, k: 2, ok: true},
			event{kind: evAck, k: 0, ok: true}, event{kind: evAck, k: 1, ok: true}, event{kind: evAck, k: 2, ok: true})
		name := "live-put-context-cancelled-after-commit"
		if mode == 2 {
			name = "live-put-context-cancelled-before-call"
		}
		out = append(out, scenario{name: name, genesis: 7, script: s6})
	}
	// a second stream from the same address while the first one's consumer has stopped reading (its
	// Send never returns): the new stream must be served by its own worker
	s9 := puts(rng, 2)
	s9 = append(s9, event{kind: evStart, cid: 1, from: 0}, event{kind: evRegister, k: 0})
	s9 = append(s9, puts(rng, 1)...) // stream 0 enters Send(3) and stays there
	s9 = append(s9, event{kind: evStart, cid: 1, from: 2}, event{kind: evAck, k: 1, ok: true}, event{kind: evAck, k: 1, ok: true},
		event{kind: evRegister, k: 1})
	s9 = append(s9, puts(rng, 1)...)
	s9 = append(s9, event{kind: evAck, k: 1, ok: true})
	s9 = append(s9, puts(rng, 1)...)
	s9 = append(s9, event{kind: evAck, k: 1, ok: true})
	out = append(out, scenario{name: "reconnect-same-id-while-old-stream-stalled", genesis: 7, script: s9})
	// two clients on one host (different source ports) at the same time: both are served
	s10 := puts(rng, 2)
	s10 = append(s10, event{kind: evStart, cid: conn(5, 41001), from: 0}, event{kind: evRegister, k: 0},
		event{kind: evStart, cid: conn(5, 41002), from: 1}, event{kind: evAck, k: 1, ok: true}, event{kind: evAck, k: 1, ok: true}, event{kind: evRegister, k: 1},
		event{kind: evStart, cid: conn(8, 41001), from: 0}, event{kind: evRegister, k: 2})
	s10 = append(s10, puts(rng, 1)...)
	s10 = append(s10, event{kind: evAck, k: 0, ok: true}, event{kind: evAck, k: 1, ok: true}, event{kind: evAck, k: 2, ok: true})
	s10 = append(s10, puts(rng, 1)...)
	s10 = append(s10, event{kind: evAck, k: 0, ok: true}, event{kind: evAck, k: 1, ok: true}, event{kind: evAck, k: 2, ok: true})
	out = append(out, scenario{name: "two-streams-one-host", genesis: 7, script: s10})
	// a client reconnects from a new source port while its old connection is stalled; the old one is
	// torn down later (its Send fails): the new stream keeps being served
	s11 := puts(rng, 2)
	s11 = append(s11, event{kind: evStart, cid: conn(6, 41001), from: 0}, event{kind: evRegister, k: 0})
	s11 = append(s11, puts(rng, 1)...) // the old stream enters Send(3) and stays there
	s11 = append(s11, event{kind: evStart, cid: conn(6, 41002), from: 2}, event{kind: evAck, k: 1, ok: true}, event{kind: evAck, k: 1, ok: true},
		event{kind: evRegister, k: 1})
	s11 = append(s11, puts(rng, 1)...)
	s11 = append(s11, event{kind: evAck, k: 1, ok: true}, event{kind: evAck, k: 0, ok: false})
	s11 = append(s11, puts(rng, 1)...)
	s11 = append(s11, event{kind: evAck, k: 1, ok: true})
	s11 = append(s11, puts(rng, 1)...)
	s11 = append(s11, event{kind: evAck, k: 1, ok: true})
	out = append(out, scenario{name: "reconnect-from-new-port", genesis: 7, script: s11})
	// consumers that are gone exactly in the hand-over: a beacon is stored between the end of the scan
	// and AddCallback, and the Send of that beacon fails; one connection (address) after the other
	var s7 []event
	s7 = append(s7, puts(rng, 2)...)
	for c := 0; c < 6; c++ {
		s7 = append(s7, event{kind: evStart, cid: 10 + c, from: uint64(2 + c)}, event{kind: evAck, k: c, ok: true})
		s7 = append(s7, puts(rng, 1)...)
		s7 = append(s7, event{kind: evRegister, k: c}, event{kind: evAck, k: c, ok: false})
	}
	s7 = append(s7, puts(rng, 2)...)
	out = append(out, scenario{name: "consumer-gone-during-handover", genesis: 7, script: s7})
	// the stream context is cancelled between AddCallback and the catch-up (with and without a beacon to
	// catch up on)
	var s8 []event
	s8 = append(s8, puts(rng, 2)...)
	for c := 0; c < 6; c++ {
		s8 = append(s8, event{kind: evStart, cid: 20 + c, from: uint64(2 + c/2)}, event{kind: evAck, k: c, ok: true})
		if c%2 == 1 {
			s8 = append(s8, event{kind: evAck, k: c, ok: true})
		} else {
			s8 = append(s8, puts(rng, 1)...)
		}
		s8 = append(s8, event{kind: evRegister, k: c, cancel: true})
	}
	s8 = append(s8, event{kind: evStart, cid: 20, from: 0}, event{kind: evRegister, k: 6})
	s8 = append(s8, puts(rng, 2)...)
	s8 = append(s8, event{kind: evAck, k: 6, ok: true})
	out = append(out, scenario{name: "context-cancelled-at-addcallback", genesis: 7, script: s8})
	return out
}

// randomScenario keeps the shadow of what can be acknowledged so that most events are meaningful.
func randomScenario(rng *rand.Rand, windowPuts bool) scenario {
	type sh struct {
		phase   string
		cid     int
		pos     int // scan: index being sent
		pending bool
		q       int
		busy    bool
		win     int // appends while waiting for AddCallback (memdb view)
	}
	var s []event
	var st []*sh
	reg := map[int]int{}
	head := 0
	n0 := 1 + rng.Intn(5)
	for i := 0; i < n0; i++ {
		s = append(s, event{kind: evPut, d: 100 + rng.Int63n(900)})
		head++
	}
	nstreams := 1 + rng.Intn(3)
	n := 15 + rng.Intn(40)
	nput := 0
	for len(s) < n0+n {
		x := rng.Intn(100)
		switch {
		case x < 12 && len(st) < nstreams+1:
			cid := 1 + rng.Intn(2)
			if rng.Intn(3) == 0 {
				cid = conn(cid, 41000+rng.Intn(2)) // same host, another source port
			}
			var from int
			switch rng.Intn(6) {
			case 0:
				from = 0
			case 1:
				from = head
			case 2:
				from = head + 1 + rng.Intn(2)
			default:
				from = 1 + rng.Intn(head)
			}
			s = append(s, event{kind: evStart, cid: cid, from: uint64(from)})
			switch {
			case from > head:
				st = append(st, &sh{phase: "done", cid: cid})
			case from == 0:
				st = append(st, &sh{phase: "wait", cid: cid})
			default:
				st = append(st, &sh{phase: "scan", cid: cid, pos: from, pending: true})
			}
		case x < 40 && nput < 60:
			// a Put: avoid the windows unless asked for
			inWindow := false
			for _, t := range st {
				if t.phase == "wait" {
					inWindow = true
				}
			}
			if inWindow && !windowPuts {
				continue
			}
			pe := event{kind: evPut, d: 100 + rng.Int63n(900)}
			if x := rng.Intn(8); x < 2 {
				pe.ctx = 1 + x // the generator's shadow takes the memdb view: the beacon is stored
			}
			s = append(s, pe)
			head++
			nput++
			for k, t := range st {
				if t.phase == "wait" {
					t.win++
				}
				if t.phase == "live" {
					if kk, ok := reg[t.cid]; ok && kk == k {
						if t.busy {
							t.q++
						} else {
							t.busy = true
						}
					}
				}
			}
		case x < 55:
			var cand []int
			for k, t := range st {
				if t.phase == "wait" {
					cand = append(cand, k)
				}
			}
			if len(cand) == 0 {
				continue
			}
			k := cand[rng.Intn(len(cand))]
			t := st[k]
			if old, ok := reg[t.cid]; ok {
				o := st[old]
				if o.busy {
					o.q++
				} else {
					o.phase = "done"
				}
			}
			reg[t.cid] = k
			t.phase, t.busy, t.q = "live", false, 0
			if t.win > 0 {
				t.busy, t.q = true, t.win-1
			}
			s = append(s, event{kind: evRegister, k: k})
		default:
			var cand []int
			for k, t := range st {
				if (t.phase == "scan" && t.pending) || (t.phase == "live" && t.busy) {
					cand = append(cand, k)
				}
			}
			if len(cand) == 0 {
				continue
			}
			k := cand[rng.Intn(len(cand))]
			t := st[k]
			ok := rng.Intn(14) != 0
			s = append(s, event{kind: evAck, k: k, ok: ok})
			switch {
			case !ok:
				if t.phase == "live" {
					delete(reg, t.cid)
				}
				t.phase = "done"
			case t.phase == "scan":
				// the generator does not know the back-end: it only needs to know that either
				// another Send or the gate follows, both are handled by waitStable
				t.pos++
				if t.pos > head { // memdb would end here; bolt may end earlier
					t.phase, t.pending = "wait", false
				}
			default:
				if t.q > 0 {
					t.q--
				} else {
					t.busy = false
				}
			}
		}
	}
	return scenario{name: "random", genesis: rng.Int63n(50), script: s}
}

type outcome struct {
	sc      scenario
	backend string
	stack   string
	nreg    int // callbacks registered in the real callback store at the end
	running int // SyncChain calls that have not returned
	froms   []uint64
	cids    []int  // connection key of every stream
	didReg  []bool // the stream executed AddCallback (and stayed: not cancelled at registration)
	headsAt []uint64
	head    uint64
	idleReg []bool // per stream: registered, in its live phase and with no Send in progress at the end
	obs     []obs
	wins    []bool
	winRnds []map[uint64]bool
	bases   []uint64
	toks    map[uint64]int64
	problem string
}

func runOne(root string, sc scenario, backend, stack string) (outcome, error) {
	w, err := newWorld(backend, stack, root, sc.genesis)
	if err != nil {
		return outcome{}, err
	}
	// the generator's shadow may think a scan goes on when bolt's snapshot already ended: the
	// harness follows the real stream (waitStable), so acks of a stream at the gate are no-ops
	for _, e := range sc.script {
		w.do(e)
	}
	o := outcome{sc: sc, backend: backend, stack: stack, obs: w.finish(), toks: w.toks, problem: w.problem}
	o.nreg = w.registered()
	for _, x := range o.obs {
		if x.err == "" {
			o.running++
		}
	}
	if w.problem != "" {
		anomalies++
	}
	o.head = w.head
	for k, r := range w.runs {
		o.froms = append(o.froms, r.from)
		o.cids = append(o.cids, r.cid)
		o.didReg = append(o.didReg, r.registeredOnce)
		o.headsAt = append(o.headsAt, r.headAt)
		kk, isReg := w.reg[r.cid]
		o.idleReg = append(o.idleReg, isReg && kk == k && r.phase == "live" && r.pending == nil)
	}
	for _, r := range w.runs {
		o.wins = append(o.wins, r.windowed)
		o.winRnds = append(o.winRnds, r.winRounds)
		o.bases = append(o.bases, r.base)
	}
	w.close()
	return o, nil
}

func coqCase(o outcome) string {
	evs := make([]string, len(o.sc.script))
	for i, e := range o.sc.script {
		evs[i] = e.coq()
	}
	bk := "Mem"
	if o.backend != "mem" {
		bk = "Bolt"
	}
	ob := make([]string, len(o.obs))
	for i, x := range o.obs {
		ss := make([]string, len(x.sent))
		for j, s := range x.sent {
			ss[j] = fmt.Sprintf("(%d, %s, %s)", s.round, emit.Z(s.tok), emit.Z(s.prev))
		}
		e := "0"
		switch x.err {
		case "NoBeacon":
			e = "1"
		case "Send":
			e = "2"
		case "Replaced":
			e = "3"
		case "Canceled":
			e = "4"
		case "Other":
			e = "9"
		}
		ob[i] = fmt.Sprintf("(%s, %s)", emit.List(ss), e)
	}
	return fmt.Sprintf("SCase %s %s %d %s %s %d", bk, emit.Bool(o.stack == "chained"), o.sc.genesis, emit.List(evs), emit.List(ob), o.nreg)
}

var classCount = map[string]int{}

func failOnce(rep *emit.Report, class, what string, in interface{}) {
	if classCount[class] >= 2 {
		return
	}
	classCount[class]++
	rep.Fail(class, what, in)
}

// monitor M: the sent sequence of every stream is r, r+1, ... and equals the stored beacons.
func monitor(rep *emit.Report, o outcome) {
	for k, x := range o.obs {
		rounds := make([]uint64, len(x.sent))
		for i, s := range x.sent {
			rounds[i] = s.round
		}
		in := map[string]interface{}{"scenario": o.sc.name, "backend": o.backend, "stream": k, "from": o.bases[k], "sent": rounds}
		for j, s := range x.sent {
			if tok, ok := o.toks[s.round]; !ok || tok != s.tok {
				failOnce(rep, "C11-delivered-differs-from-stored", "a delivered beacon is not the stored beacon of that round", in)
			}
			// each delivered beacon equals what the store returns for that round: round, signature and
			// previous signature
			if st := x.stored[j]; st.tok != s.tok || st.prev != s.prev {
				in2 := map[string]interface{}{"scenario": o.sc.name, "backend": o.backend, "stack": o.stack, "stream": k, "round": s.round,
					"delivered_sig": s.tok, "delivered_prev": s.prev, "stored_sig": st.tok, "stored_prev": st.prev, "position_in_stream": j}
				failOnce(rep, "C11-delivered-beacon-differs-from-stored",
					fmt.Sprintf("stream %d was sent round %d with (signature token %d, previous-signature token %d) but the store returns (%d, %d) for that round (-1 = empty); stack %s on %s", k, s.round, s.tok, s.prev, st.tok, st.prev, o.stack, o.backend), in2)
			}
		}
		// (C01) on the chained scheme every beacon the server sends must verify: its signature and its
		// previous signature are exactly those of that round in the reference chain
		if o.stack == "chained" {
			for j, s := range x.sent {
				wantPrev, okp := o.toks[s.round-1]
				if s.round == 0 {
					wantPrev, okp = -1, true
				}
				if tok, ok := o.toks[s.round]; !ok || !okp || tok != s.tok || wantPrev != s.prev {
					failOnce(rep, "C01-served-beacon-does-not-verify",
						fmt.Sprintf("stream %d was sent round %d with previous-signature token %d and signature token %d; in the chain that round has previous signature %d and signature %d", k, s.round, s.prev, s.tok, wantPrev, tok),
						map[string]interface{}{"scenario": o.sc.name, "backend": o.backend, "stack": o.stack, "stream": k, "round": s.round, "position_in_stream": j, "sent": rounds})
					break
				}
			}
		}
		// (C05) a request for a round the server has stored is served that round; a request beyond the
		// head is refused
		if o.froms[k] != 0 {
			inb := map[string]interface{}{"scenario": o.sc.name, "backend": o.backend, "stack": o.stack, "stream": k, "from_round": o.froms[k], "server_last_round": o.headsAt[k], "sent": rounds, "error": x.err}
			if o.froms[k] <= o.headsAt[k] {
				if x.err == "NoBeacon" && len(x.sent) == 0 || len(x.sent) > 0 && x.sent[0].round != o.froms[k] {
					failOnce(rep, "C05-sync-server-refuses-its-head",
						fmt.Sprintf("a sync request from round %d was not served that round although the server's last stored round was %d (error class %q, sent %v): a peer exactly one round behind can never catch up", o.froms[k], o.headsAt[k], x.err, rounds), inb)
				}
			} else if x.err != "NoBeacon" || len(x.sent) != 0 {
				failOnce(rep, "C11-request-beyond-head-not-refused", "a request from a round beyond the server's head was not refused", inb)
			}
		}
		// a stream is ended with "callback replaced" only by a later stream of the SAME connection
		if x.err == "Replaced" {
			replacedBySame := false
			for j := range o.obs {
				if j != k && o.cids[j] == o.cids[k] && o.didReg[j] {
					replacedBySame = true
				}
			}
			if !replacedBySame {
				failOnce(rep, "C11-stream-ended-while-client-connected",
					fmt.Sprintf("stream %d (connection %s) was ended with 'callback replaced' although no other stream of that connection registered: a stream of another connection took its callback id", k, peerAddr(o.cids[k])),
					map[string]interface{}{"scenario": o.sc.name, "backend": o.backend, "stack": o.stack, "stream": k, "connection": peerAddr(o.cids[k]).String(), "sent": rounds})
			}
		}
		// a registered live stream with no Send in progress has been handed every stored beacon, whatever
		// the other streams' consumers do
		if o.idleReg[k] && x.err == "" {
			last := o.bases[k] - 1
			if len(x.sent) > 0 {
				last = x.sent[len(x.sent)-1].round
			}
			if last < o.head {
				ins := map[string]interface{}{"scenario": o.sc.name, "backend": o.backend, "stack": o.stack, "stream": k, "sent": rounds, "server_last_round": o.head}
				what := fmt.Sprintf("stream %d is registered, every Send it was given has returned, yet it was only sent up to round %d while the store is at round %d", k, last, o.head)
				failOnce(rep, "C11-live-stream-starved", what, ins)
				failOnce(rep, "C14-stream-wedged-behind-stalled-stream", what+" (what serves it is held or was removed by another stream)", ins)
			}
		}
		// contiguous from the start round?
		contiguous := true
		for i, s := range x.sent {
			if s.round != o.bases[k]+uint64(i) {
				contiguous = false
				break
			}
		}
		if contiguous {
			continue
		}
		// explained exactly by the appends made in this stream's hand-over window?
		explained := true
		next := o.bases[k]
		for _, s := range x.sent {
			for o.winRnds[k][next] && next != s.round {
				next++
			}
			if s.round != next {
				explained = false
				break
			}
			next++
		}
		if explained && o.wins[k] {
			failOnce(rep, "C11-put-in-handover-window-skipped",
				fmt.Sprintf("a beacon stored between the stream's snapshot / last scan read and its AddCallback was never sent: requested from %d, sent %v (back-end %s)", o.bases[k], rounds, o.backend), in)
		} else {
			failOnce(rep, "C11-stream-not-contiguous", fmt.Sprintf("sent sequence is not %d, %d, ... and is not explained by appends in the hand-over window: %v", o.bases[k], o.bases[k]+1, rounds), in)
		}
	}
	// every SyncChain call that has returned has unregistered its callback: the callback store holds at
	// most one callback per call that is still running
	if o.nreg > o.running {
		ended := []int{}
		for k, x := range o.obs {
			if x.err != "" {
				ended = append(ended, k)
			}
		}
		failOnce(rep, "C12-callback-leaked-after-stream-end",
			fmt.Sprintf("%d callbacks (worker goroutine and %d-slot queue each) are still registered in the callback store although only %d SyncChain calls are still running", o.nreg, beacon.CallbackWorkerQueue, o.running),
			map[string]interface{}{"scenario": o.sc.name, "backend": o.backend, "stack": o.stack, "registered_callbacks": o.nreg, "running_streams": o.running, "ended_streams": ended, "events": len(o.sc.script)})
	}
	if o.problem != "" {
		failOnce(rep, "C11-harness-stuck", o.problem, map[string]interface{}{"scenario": o.sc.name, "backend": o.backend})
	}
}

// Run is the engine entry point.
func Run(outDir string, seed int64, tier string) error {
	rep := emit.NewReport("stream", seed, tier)
	classCount = map[string]int{}
	anomalies = 0
	templates = map[string]string{}
	rng := rand.New(rand.NewSource(seed))
	root, err := os.MkdirTemp("", "zzv-stream-")
	if err != nil {
		return err
	}
	defer os.RemoveAll(root)
	scs := witnessScenarios(rng)
	nW := len(scs)
	nrand := 90
	if tier == "thorough" {
		nrand = 1500
	}
	for i := 0; i < nrand; i++ {
		scs = append(scs, randomScenario(rng, i%3 == 0))
	}
	backends := []string{"mem", "boltT", "boltU"}
	var cases, descr []string
	distinct := map[string]bool{}
	secs := map[string]float64{}
	rep.Extra["seconds_by_scenario_and_backend"] = secs
	for i, sc := range scs {
		for bi, b := range backends {
			if i >= nW && tier != "thorough" && (i+bi)%3 == 2 {
				continue // quick tier: two of the three back-ends per random script
			}
			stacks := []string{[]string{"unchained", "chained", "bare"}[(i+2*bi)%3]}
			if i < nW {
				stacks = []string{"chained", "unchained"} // witness scripts: the daemon's stack, both scheme families
				if b == "mem" {
					stacks = append(stacks, "bare")
				}
			}
			for _, stack := range stacks {
				t0 := time.Now()
				o, err := runOne(root, sc, b, stack)
				if err != nil {
					return err
				}
				secs[sc.name+"/"+b] += time.Since(t0).Seconds()
				cases = append(cases, coqCase(o))
				nsent := 0
				for _, x := range o.obs {
					nsent += len(x.sent)
				}
				descr = append(descr, fmt.Sprintf("SCase %s on %s, stack %s (%d events, %d streams, %d beacons sent, %d callbacks registered at the end)", sc.name, b, stack, len(sc.script), len(o.obs), nsent, o.nreg))
				rep.Evaluations += len(sc.script)
				rep.Count("stream/" + b + "/" + stack + "/" + sc.name)
				monitor(rep, o)
				for _, e := range sc.script {
					distinct[b+"|"+e.coq()] = true
				}
				if len(rep.Samples) < 8 {
					rep.Sample(descr[len(descr)-1], 8)
				}
			}
		}
	}
	// the Put that straddles AddCallback (real code and monitor only)
	for _, b := range backends {
		rounds, problem, err := straddle(root, b)
		if err != nil {
			return err
		}
		rep.Evaluations += 12
		rep.Count("stream/" + b + "/put-straddles-addcallback")
		in := map[string]interface{}{"scenario": "put-straddles-addcallback", "backend": b, "from": 1, "sent": rounds}
		if problem != "" {
			failOnce(rep, "C11-harness-stuck", problem, in)
		}
		want := []uint64{1, 2, 3, 4, 5}
		ok := len(rounds) == len(want)
		for i := range want {
			ok = ok && i < len(rounds) && rounds[i] == want[i]
		}
		if !ok {
			failOnce(rep, "C11-stream-not-contiguous", fmt.Sprintf("a Put that had written to the store but not yet dispatched when the callback was registered: sent %v, expected %v", rounds, want), in)
		}
	}
	// a chained store with a deleted middle round (real code and the C01 monitor only)
	for _, b := range backends {
		o, err := holeWalk(root, b)
		if err != nil {
			return err
		}
		rep.Evaluations += 10
		rep.Count("stream/" + b + "/chained/" + o.sc.name)
		for k, x := range o.obs {
			var rounds []uint64
			for _, s := range x.sent {
				rounds = append(rounds, s.round)
			}
			for j, s := range x.sent {
				wantPrev, okp := o.toks[s.round-1]
				if tok, ok := o.toks[s.round]; !ok || !okp || tok != s.tok || wantPrev != s.prev {
					failOnce(rep, "C01-served-beacon-does-not-verify",
						fmt.Sprintf("round 3 was deleted from the store; stream %d (from round 1) was sent round %d with previous-signature token %d and signature token %d, but in the chain that round has previous signature %d and signature %d: the beacon does not verify", k, s.round, s.prev, s.tok, wantPrev, tok),
						map[string]interface{}{"scenario": o.sc.name, "backend": b, "stack": "chained", "stream": k, "round": s.round, "position_in_stream": j, "sent": rounds, "deleted_round": 3})
					break
				}
			}
		}
	}
	// the public randomness stream through the real PublicRandStream adapters (real code and monitor only)
	if err := runPublicStreams(rep); err != nil {
		return err
	}
	rep.DistinctNontrivial = len(distinct)
	rep.Rule = "real SyncChain over the daemon's store stack callback(append(scheme(back-end))) with a chained and an unchained scheme (beacons arrive with the previous signature set) and over the bare callback store, on memdb, trimmed bolt and untrimmed bolt; every delivered beacon (round, signature, previous signature) is compared with what the store returns for that round; the callbacks left in the real callback store (sync_total_callbacks gauge) are compared with the SyncChain calls still running; Send and AddCallback gated so that the harness places every Put relative to each scan step and registration; the fake streams carry real gRPC peer contexts (host and source port; several connections from one host), so the callback id is the one internal/net derives; witness scripts (two clients on one host, reconnect from a new port while the old connection is stalled, Puts whose context is cancelled between the commit and the dispatch or before the call while several streams are live, Put between scan end and AddCallback, Put during the scan, no Put in the window, same-id reconnect, start at 0 / head / beyond head; a Put paused between its store write and its dispatch while AddCallback runs - monitor only; a chained store with a deleted middle round walked from below the hole - monitor only; the real BeaconProcess.PublicRandStream on a real Handler with a transport that keeps the message pointers and reads them after the stream ended - monitor only; a second stream from the same address while the first one's Send never returns) and random scripts with 1-3 concurrent streams, reconnects, refused Sends and Puts with cancelled contexts; distinct = distinct (back-end, event); an evaluation = one event"
	if err := rep.Shard(outDir, "cases_stream", []string{"From DV Require Import Model.Stream Corr.StreamCorr."}, "scase", "mismatches", cases, descr, 60); err != nil {
		return err
	}
	return rep.Write(outDir)
}
