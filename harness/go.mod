module github.com/drand/drand/v2/zzverif

go 1.25.0

require github.com/drand/drand/v2 v2.0.0

require (
	github.com/cenkalti/backoff/v5 v5.0.3 // indirect
	github.com/cespare/xxhash/v2 v2.3.0 // indirect
	github.com/drand/kyber v1.3.2 // indirect
	github.com/drand/kyber-bls12381 v0.3.4 // indirect
	github.com/go-logr/logr v1.4.3 // indirect
	github.com/go-logr/stdr v1.2.2 // indirect
	github.com/google/uuid v1.6.0 // indirect
	github.com/grpc-ecosystem/grpc-gateway/v2 v2.28.0 // indirect
	github.com/kilic/bls12-381 v0.1.0 // indirect
	go.dedis.ch/fixbuf v1.0.3 // indirect
	go.opentelemetry.io/auto/sdk v1.2.1 // indirect
	go.opentelemetry.io/otel v1.41.0 // indirect
	go.opentelemetry.io/otel/exporters/otlp/otlptrace v1.41.0 // indirect
	go.opentelemetry.io/otel/exporters/otlp/otlptrace/otlptracegrpc v1.41.0 // indirect
	go.opentelemetry.io/otel/metric v1.41.0 // indirect
	go.opentelemetry.io/otel/sdk v1.41.0 // indirect
	go.opentelemetry.io/otel/trace v1.41.0 // indirect
	go.opentelemetry.io/proto/otlp v1.9.0 // indirect
	golang.org/x/crypto v0.48.0 // indirect
	golang.org/x/net v0.51.0 // indirect
	golang.org/x/sys v0.41.0 // indirect
	golang.org/x/text v0.34.0 // indirect
	google.golang.org/genproto/googleapis/api v0.0.0-20260226221140-a57be14db171 // indirect
	google.golang.org/genproto/googleapis/rpc v0.0.0-20260226221140-a57be14db171 // indirect
	google.golang.org/grpc v1.79.1 // indirect
	google.golang.org/protobuf v1.36.11 // indirect
)

replace github.com/drand/drand/v2 => /repo
