module github.com/drand/drand/v2/zzverif

go 1.25.0

require (
	github.com/BurntSushi/toml v1.6.0
	github.com/drand/drand/v2 v2.0.0
	github.com/drand/kyber v1.3.2
	github.com/jonboulle/clockwork v0.5.0
	github.com/prometheus/client_model v0.6.2
	go.etcd.io/bbolt v1.4.3
	go.uber.org/zap v1.27.1
	golang.org/x/crypto v0.48.0
	google.golang.org/grpc v1.79.1
	google.golang.org/protobuf v1.36.11
)

require (
	github.com/ardanlabs/darwin/v2 v2.0.0 // indirect
	github.com/beorn7/perks v1.0.1 // indirect
	github.com/briandowns/spinner v1.23.2 // indirect
	github.com/cenkalti/backoff/v5 v5.0.3 // indirect
	github.com/cespare/xxhash/v2 v2.3.0 // indirect
	github.com/clipperhouse/uax29/v2 v2.7.0 // indirect
	github.com/cpuguy83/go-md2man/v2 v2.0.7 // indirect
	github.com/davecgh/go-spew v1.1.1 // indirect
	github.com/drand/kyber-bls12381 v0.3.4 // indirect
	github.com/fatih/color v1.18.0 // indirect
	github.com/felixge/httpsnoop v1.0.4 // indirect
	github.com/go-chi/chi/v5 v5.2.5 // indirect
	github.com/go-logr/logr v1.4.3 // indirect
	github.com/go-logr/stdr v1.2.2 // indirect
	github.com/google/uuid v1.6.0 // indirect
	github.com/grpc-ecosystem/go-grpc-middleware v1.4.0 // indirect
	github.com/grpc-ecosystem/go-grpc-prometheus v1.2.0 // indirect
	github.com/grpc-ecosystem/grpc-gateway/v2 v2.28.0 // indirect
	github.com/jedib0t/go-pretty/v6 v6.7.8 // indirect
	github.com/jmoiron/sqlx v1.4.0 // indirect
	github.com/kilic/bls12-381 v0.1.0 // indirect
	github.com/lib/pq v1.11.2 // indirect
	github.com/mattn/go-colorable v0.1.14 // indirect
	github.com/mattn/go-isatty v0.0.20 // indirect
	github.com/mattn/go-runewidth v0.0.20 // indirect
	github.com/munnerz/goautoneg v0.0.0-20191010083416-a7dc8b61c822 // indirect
	github.com/nikkolasg/hexjson v0.1.0 // indirect
	github.com/pkg/errors v0.9.1 // indirect
	github.com/pmezard/go-difflib v1.0.0 // indirect
	github.com/prometheus/client_golang v1.23.2 // indirect
	github.com/prometheus/common v0.67.5 // indirect
	github.com/prometheus/procfs v0.20.1 // indirect
	github.com/rogpeppe/go-internal v1.14.1 // indirect
	github.com/russross/blackfriday/v2 v2.1.0 // indirect
	github.com/stretchr/testify v1.11.1 // indirect
	github.com/urfave/cli/v2 v2.27.7 // indirect
	github.com/xrash/smetrics v0.0.0-20250705151800-55b8f293f342 // indirect
	go.dedis.ch/fixbuf v1.0.3 // indirect
	go.opentelemetry.io/auto/sdk v1.2.1 // indirect
	go.opentelemetry.io/contrib/instrumentation/google.golang.org/grpc/otelgrpc v0.66.0 // indirect
	go.opentelemetry.io/contrib/instrumentation/net/http/otelhttp v0.66.0 // indirect
	go.opentelemetry.io/otel v1.41.0 // indirect
	go.opentelemetry.io/otel/exporters/otlp/otlptrace v1.41.0 // indirect
	go.opentelemetry.io/otel/exporters/otlp/otlptrace/otlptracegrpc v1.41.0 // indirect
	go.opentelemetry.io/otel/metric v1.41.0 // indirect
	go.opentelemetry.io/otel/sdk v1.41.0 // indirect
	go.opentelemetry.io/otel/trace v1.41.0 // indirect
	go.opentelemetry.io/proto/otlp v1.9.0 // indirect
	go.uber.org/multierr v1.11.0 // indirect
	go.yaml.in/yaml/v2 v2.4.3 // indirect
	golang.org/x/net v0.51.0 // indirect
	golang.org/x/sys v0.41.0 // indirect
	golang.org/x/term v0.40.0 // indirect
	golang.org/x/text v0.34.0 // indirect
	google.golang.org/genproto/googleapis/api v0.0.0-20260226221140-a57be14db171 // indirect
	google.golang.org/genproto/googleapis/rpc v0.0.0-20260226221140-a57be14db171 // indirect
	gopkg.in/yaml.v3 v3.0.1 // indirect
)

replace github.com/drand/drand/v2 => /repo
