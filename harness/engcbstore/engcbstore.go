// Package engcbstore is the correspondence engine "cbstore" for C12: it drives the REAL
// beacon.NewCallbackStore with consumers that the harness gates, so that the harness chooses when
// a consumer reads, is slow, stalls or disconnects, and records which calls return and what every
// consumer received. The only timing-based observable of the suite lives here: a call that has not
// returned after the deadline (2 s, versus microseconds expected) is recorded as blocked.
package engcbstore

import (
	"context"
	"fmt"
	"math/rand"
	"sort"
	"strings"
	"sync"
	"sync/atomic"
	"time"

	"github.com/drand/drand/v2/common"
	"github.com/drand/drand/v2/common/log"
	"github.com/drand/drand/v2/internal/chain"
	"github.com/drand/drand/v2/internal/chain/beacon"
	"github.com/drand/drand/v2/internal/chain/memdb"
	"github.com/drand/drand/v2/zzverif/emit"
)

const queueN = beacon.CallbackWorkerQueue

// Deadline after which a call that has not returned is recorded as blocked.
var Deadline = 2 * time.Second

// anomalies counts the non-blocking scenarios of this run in which something that must happen at
// once did not happen within the deadline. After a few of them the run is a violation anyway and
// the remaining scenarios stop waiting the full deadline for such things.
var anomalies int32

func patience() time.Duration {
	if atomic.LoadInt32(&anomalies) >= 3 {
		return 200 * time.Millisecond
	}
	return Deadline
}

type evKind int

const (
	evPut evKind = iota
	evAdd
	evRemove
	evRelease
)

type event struct {
	kind evKind
	r    uint64 // Put: round
	cid  int    // Add/Remove: callback id
	auto bool   // Add: the consumer returns immediately (keeps reading)
	k    int    // Release: consumer instance
	rm   bool   // Release: the callback calls RemoveCallback(its id) before returning (send error path of SyncChain)
	ctx  int    // Put: 0 = live context, 1 = cancelled between the commit and the dispatch, 2 = cancelled before the call
}

func (e event) coq() string {
	switch e.kind {
	case evPut:
		return fmt.Sprintf("EPut %d", e.r)
	case evAdd:
		return fmt.Sprintf("EAdd %d %s", e.cid, emit.Bool(e.auto))
	case evRemove:
		return fmt.Sprintf("ERemove %d", e.cid)
	}
	return fmt.Sprintf("ERelease %d %s", e.k, emit.Bool(e.rm))
}

type entry struct {
	round  uint64
	closed bool
}

type consumer struct {
	cid     int
	auto    bool
	mu      sync.Mutex
	log     []entry
	entered chan entry
	release chan bool
	exited  chan struct{} // one token per callback invocation that returned
	inside  bool          // harness view: an entered event was received and not yet released
}

type world struct {
	short bool // a consumer did not get a job it was due: later waits for such jobs are cut short
	inner *giveUpStore
	cbs   beacon.CallbackStore
	cons  []*consumer
	calls []chan struct{} // one per event that is a call; closed when the call returns
}

// at most two witnesses per class, so that a frequent class cannot crowd out a new one
var classCount = map[string]int{}

func failOnce(rep *emit.Report, class, what string, in interface{}) {
	if classCount[class] >= 2 {
		return
	}
	classCount[class]++
	rep.Fail(class, what, in)
}

func quiet() log.Logger { return log.New(nil, log.PanicLevel, false) }

// giveUpStore sits below the callback store: when giveUp is set it is called right after the next
// successful write, i.e. the caller of Put gives up (its context is cancelled) while the commit is
// in flight.
type giveUpStore struct {
	chain.Store
	mu     sync.Mutex
	giveUp context.CancelFunc
}

func (g *giveUpStore) Put(ctx context.Context, b *common.Beacon) error {
	err := g.Store.Put(ctx, b)
	g.mu.Lock()
	giveUp := g.giveUp
	g.giveUp = nil
	g.mu.Unlock()
	if giveUp != nil && err == nil {
		giveUp()
	}
	return err
}

func newWorld() *world {
	inner := &giveUpStore{Store: memdb.NewStore(4000)}
	return &world{cbs: beacon.NewCallbackStore(quiet(), inner), inner: inner}
}

func cbName(cid int) string { return fmt.Sprintf("cb-%d", cid) }

func (w *world) newConsumer(cid int, auto bool) *consumer {
	c := &consumer{cid: cid, auto: auto, entered: make(chan entry, 4096), release: make(chan bool), exited: make(chan struct{}, 4096)}
	w.cons = append(w.cons, c)
	return c
}

func (w *world) fn(c *consumer) beacon.CallbackFunc {
	return func(b *common.Beacon, closed bool) {
		e := entry{closed: closed}
		if b != nil {
			e.round = b.Round
		}
		c.mu.Lock()
		c.log = append(c.log, e)
		c.mu.Unlock()
		if c.auto {
			return
		}
		c.entered <- e
		if rm := <-c.release; rm {
			w.cbs.RemoveCallback(cbName(c.cid))
		}
		c.exited <- struct{}{}
	}
}

func returned(ch chan struct{}, d time.Duration) bool {
	select {
	case <-ch:
		return true
	case <-time.After(d):
		return false
	}
}

type result struct {
	immediate []bool // per event: returned within the deadline of its own step (Release: an entered event was there)
	final     []bool // per event: returned by the end of the script
	released  []bool // per Release event: the consumer was inside a callback and was released
	logs      [][]entry
}

// run executes the script. wait[i] tells how long to wait for event i's call before moving on.
func (w *world) run(script []event, expectBlock map[int]bool) result {
	res := result{immediate: make([]bool, len(script)), final: make([]bool, len(script)), released: make([]bool, len(script))}
	for i, e := range script {
		done := make(chan struct{})
		w.calls = append(w.calls, done)
		d := Deadline
		switch e.kind {
		case evPut:
			r := e.r
			pctx := context.Background()
			if e.ctx != 0 {
				var cancel context.CancelFunc
				pctx, cancel = context.WithCancel(pctx)
				if e.ctx == 2 {
					cancel() // memdb ignores the context: the beacon is stored all the same
				} else {
					w.inner.mu.Lock()
					w.inner.giveUp = cancel
					w.inner.mu.Unlock()
				}
			}
			go func() {
				_ = w.cbs.Put(pctx, &common.Beacon{Round: r, Signature: []byte{byte(r), byte(r >> 8), 1}})
				close(done)
			}()
		case evAdd:
			c := w.newConsumer(e.cid, e.auto)
			go func() { w.cbs.AddCallback(cbName(c.cid), w.fn(c)); close(done) }()
		case evRemove:
			cid := e.cid
			go func() { w.cbs.RemoveCallback(cbName(cid)); close(done) }()
		case evRelease:
			c := w.cons[e.k]
			if !c.inside {
				wait := patience()
				if w.short {
					wait = 50 * time.Millisecond
				}
				select {
				case <-c.entered:
					c.inside = true
				case <-time.After(wait):
					// the job this release was generated for never reached the consumer: the script is
					// already off its expected course, do not wait the full deadline again
					w.short = true
				}
			}
			if c.inside {
				c.inside = false
				res.released[i] = true
				c.release <- e.rm
				// the callback must return before the script goes on (it may be stuck in RemoveCallback)
				go func() { <-c.exited; close(done) }()
				res.immediate[i] = returned(done, Deadline)
			}
			continue
		}
		if expectBlock[i] {
			d = Deadline
		}
		res.immediate[i] = returned(done, d)
	}
	// settle: give calls that were unblocked by later events the time to finish
	for i := range script {
		res.final[i] = returned(w.calls[i], 200*time.Millisecond)
	}
	// wait until every consumer has logged what the calls that returned must have produced
	// (this only decides how long to wait; what is recorded is what the consumers really saw)
	exp := expectedLens(script, res)
	deadline := time.Now().Add(patience())
	if w.short {
		deadline = time.Now().Add(100 * time.Millisecond)
	}
	for {
		ok := true
		for k, c := range w.cons {
			c.mu.Lock()
			if len(c.log) < exp[k] {
				ok = false
			}
			c.mu.Unlock()
		}
		if ok {
			break
		}
		if time.Now().After(deadline) {
			w.short = true
			break
		}
		time.Sleep(time.Millisecond)
	}
	time.Sleep(30 * time.Millisecond)
	for _, c := range w.cons {
		c.mu.Lock()
		res.logs = append(res.logs, append([]entry(nil), c.log...))
		c.mu.Unlock()
	}
	return res
}

// expectedLens: how many callback invocations each consumer instance must have started, given
// the calls that returned: jobs sent = beacons (round != 0) whose Put returned while the instance
// was registered, plus the close job of a replacement; a gated instance starts one job more than
// it was released.
func expectedLens(script []event, res result) []int {
	var sent, rel []int
	var auto []bool
	var cids []int
	reg := map[int]int{}
	for i, e := range script {
		switch e.kind {
		case evAdd:
			k := len(sent)
			sent, rel, auto, cids = append(sent, 0), append(rel, 0), append(auto, e.auto), append(cids, e.cid)
			if res.final[i] {
				if old, ok := reg[e.cid]; ok {
					sent[old]++
				}
				reg[e.cid] = k
			}
		case evRemove:
			if res.final[i] {
				delete(reg, e.cid)
			}
		case evRelease:
			if res.released[i] {
				rel[e.k]++
				if e.rm && res.final[i] {
					delete(reg, cids[e.k])
				}
			}
		case evPut:
			if res.final[i] && e.r != 0 {
				for _, k := range reg {
					sent[k]++
				}
			}
		}
	}
	out := make([]int, len(sent))
	for k := range sent {
		if auto[k] {
			out[k] = sent[k]
		} else {
			out[k] = rel[k] + 1
			if sent[k] < out[k] {
				out[k] = sent[k]
			}
		}
	}
	return out
}

func logStr(l []entry) string {
	s := make([]string, len(l))
	for i, e := range l {
		if e.closed {
			s[i] = "JClose"
		} else {
			s[i] = fmt.Sprintf("JBeacon %d", e.round)
		}
	}
	return emit.List(s)
}

type scenario struct {
	name     string
	script   []event
	blocking bool // some call is expected to hit the deadline
	tolerant bool // other consumers' last beacon while a Put is blocked depends on Go's map order
}

func puts(from, n int) []event {
	var out []event
	for i := 0; i < n; i++ {
		out = append(out, event{kind: evPut, r: uint64(from + i)})
	}
	return out
}

func witnessScenarios() []scenario {
	var out []scenario
	// F5: one stalled consumer; the (queue+2)-th Put never returns; Add/Remove then block too
	s := []event{{kind: evAdd, cid: 1}}
	s = append(s, puts(1, queueN+2)...)
	s = append(s, event{kind: evAdd, cid: 2, auto: true}, event{kind: evRemove, cid: 1})
	out = append(out, scenario{name: "stalled-consumer-put-blocks", script: s, blocking: true})
	// the same with a second consumer that keeps reading
	s2 := []event{{kind: evAdd, cid: 1}, {kind: evAdd, cid: 2, auto: true}}
	s2 = append(s2, puts(1, queueN+2)...)
	out = append(out, scenario{name: "stalled-consumer-with-reader", script: s2, blocking: true, tolerant: true})
	// slow consumer: blocked Put resumes when the consumer takes one more
	s3 := []event{{kind: evAdd, cid: 1}}
	s3 = append(s3, puts(1, queueN+2)...)
	s3 = append(s3, event{kind: evRelease, k: 0}, event{kind: evPut, r: uint64(queueN + 3)}, event{kind: evRelease, k: 0})
	out = append(out, scenario{name: "slow-consumer-put-resumes", script: s3, blocking: true})
	// disconnect too late: the consumer's send errors (callback removes itself) after Put blocked
	s4 := []event{{kind: evAdd, cid: 1}}
	s4 = append(s4, puts(1, queueN+2)...)
	s4 = append(s4, event{kind: evRelease, k: 0, rm: true})
	out = append(out, scenario{name: "disconnect-after-put-blocked", script: s4, blocking: true})
	// disconnect in time: the callback removes itself before the queue is full
	s5 := []event{{kind: evAdd, cid: 1}}
	s5 = append(s5, puts(1, queueN)...)
	s5 = append(s5, event{kind: evRelease, k: 0, rm: true})
	s5 = append(s5, puts(queueN+1, queueN+5)...)
	out = append(out, scenario{name: "disconnect-before-queue-full", script: s5})
	// reconnect with the same id while the old consumer is stalled with a full queue
	s6 := []event{{kind: evAdd, cid: 1}}
	s6 = append(s6, puts(1, queueN+1)...)
	s6 = append(s6, event{kind: evAdd, cid: 1, auto: true}, event{kind: evPut, r: uint64(queueN + 2)})
	out = append(out, scenario{name: "same-id-reconnect-on-full-queue", script: s6, blocking: true})
	// exactly queue beacons per stalled consumer: nothing blocks
	s7 := []event{{kind: evAdd, cid: 1}, {kind: evAdd, cid: 2}, {kind: evAdd, cid: 3, auto: true}}
	s7 = append(s7, puts(1, queueN)...)
	s7 = append(s7, event{kind: evAdd, cid: 1, auto: true}, event{kind: evRemove, cid: 2})
	out = append(out, scenario{name: "queue-beacons-per-stalled-consumer", script: s7})
	// Puts whose caller gives up (context cancelled between the commit and the dispatch, or before the
	// call) with two readers and a gated consumer registered: the beacon is in the store, so it must
	// reach every registered callback
	s8 := []event{{kind: evAdd, cid: 1, auto: true}, {kind: evAdd, cid: 2, auto: true}, {kind: evAdd, cid: 3}}
	s8 = append(s8, event{kind: evPut, r: 1}, event{kind: evPut, r: 2, ctx: 1}, event{kind: evPut, r: 3},
		event{kind: evPut, r: 4, ctx: 2}, event{kind: evPut, r: 5}, event{kind: evRelease, k: 2}, event{kind: evRelease, k: 2},
		event{kind: evPut, r: 6, ctx: 1}, event{kind: evRelease, k: 2}, event{kind: evPut, r: 7})
	out = append(out, scenario{name: "put-context-cancelled-with-registered-consumers", script: s8})
	return out
}

// randomScenario never fills a queue: at most queueN Puts in total.
func randomScenario(rng *rand.Rand) scenario {
	var s []event
	type inst struct {
		cid    int
		auto   bool
		queued int // jobs sent and not yet released (gated only)
		alive  bool
	}
	var insts []inst
	reg := map[int]int{} // cid -> instance
	nput := 0
	round := 1
	n := 20 + rng.Intn(120)
	for len(s) < n {
		x := rng.Intn(100)
		switch {
		case x < 45 && nput < queueN:
			if rng.Intn(25) == 0 {
				s = append(s, event{kind: evPut, r: 0}) // round 0 is stored but not dispatched
				break
			}
			pe := event{kind: evPut, r: uint64(round)}
			if x := rng.Intn(7); x < 2 {
				pe.ctx = 1 + x
			}
			s = append(s, pe)
			round++
			nput++
			for _, k := range reg {
				if !insts[k].auto {
					insts[k].queued++
				}
			}
		case x < 60:
			cid := 1 + rng.Intn(4)
			auto := rng.Intn(2) == 0
			if k, ok := reg[cid]; ok && !insts[k].auto {
				insts[k].queued++ // close job
			}
			insts = append(insts, inst{cid: cid, auto: auto, alive: true})
			reg[cid] = len(insts) - 1
			s = append(s, event{kind: evAdd, cid: cid, auto: auto})
		case x < 68:
			cid := 1 + rng.Intn(4)
			delete(reg, cid)
			s = append(s, event{kind: evRemove, cid: cid})
		default:
			// release a gated consumer that has something pending
			var cand []int
			for k, in := range insts {
				if !in.auto && in.queued > 0 {
					cand = append(cand, k)
				}
			}
			if len(cand) == 0 {
				continue
			}
			k := cand[rng.Intn(len(cand))]
			rm := rng.Intn(6) == 0
			insts[k].queued--
			if rm {
				delete(reg, insts[k].cid)
			}
			s = append(s, event{kind: evRelease, k: k, rm: rm})
		}
	}
	return scenario{name: "random", script: s}
}

type outcome struct {
	sc  scenario
	res result
}

func coqCase(o outcome) string {
	evs := make([]string, len(o.sc.script))
	for i, e := range o.sc.script {
		evs[i] = e.coq()
	}
	var ret []string
	for i, b := range o.res.final {
		if b {
			ret = append(ret, fmt.Sprint(i))
		}
	}
	var imm []string
	for i, b := range o.res.immediate {
		if b {
			imm = append(imm, fmt.Sprint(i))
		}
	}
	logs := make([]string, len(o.res.logs))
	for i, l := range o.res.logs {
		logs[i] = logStr(l)
	}
	return fmt.Sprintf("BCase %s %s %s %s %s", emit.Bool(o.sc.tolerant), emit.List(evs), emit.List(imm), emit.List(ret), emit.List(logs))
}

// Run is the engine entry point.
func Run(outDir string, seed int64, tier string) error {
	rep := emit.NewReport("cbstore", seed, tier)
	classCount = map[string]int{}
	rng := rand.New(rand.NewSource(seed))
	scs := witnessScenarios()
	nrand := 60
	if tier == "thorough" {
		nrand = 1200
	}
	for i := 0; i < nrand; i++ {
		scs = append(scs, randomScenario(rng))
	}
	outs := make([]outcome, len(scs))
	var wg sync.WaitGroup
	// blocking scenarios wait for deadlines: run them concurrently, the others sequentially
	for i, sc := range scs {
		if sc.blocking {
			wg.Add(1)
			go func(i int, sc scenario) {
				defer wg.Done()
				outs[i] = outcome{sc, newWorld().run(sc.script, nil)}
			}(i, sc)
		}
	}
	atomic.StoreInt32(&anomalies, 0)
	for i, sc := range scs {
		if !sc.blocking {
			w := newWorld()
			outs[i] = outcome{sc, w.run(sc.script, nil)}
			if w.short {
				atomic.AddInt32(&anomalies, 1)
			}
		}
	}
	wg.Wait()
	var cases, descr []string
	distinct := map[string]bool{}
	for _, o := range outs {
		cases = append(cases, coqCase(o))
		nblocked := 0
		for i, e := range o.sc.script {
			if e.kind != evRelease && !o.res.final[i] {
				nblocked++
			}
			distinct[e.coq()] = true
		}
		descr = append(descr, fmt.Sprintf("BCase %s (%d events, %d calls never returned)", o.sc.name, len(o.sc.script), nblocked))
		rep.Evaluations += len(o.sc.script)
		rep.Count("cbstore/" + o.sc.name)
		monitor(rep, o)
		rep.Sample(fmt.Sprintf("%s: %d events, calls not returned: %d", o.sc.name, len(o.sc.script), nblocked), 8)
	}
	rep.DistinctNontrivial = len(distinct)
	keys := make([]string, 0)
	for k := range rep.Distribution {
		keys = append(keys, k)
	}
	sort.Strings(keys)
	rep.Rule = "real NewCallbackStore over memdb with harness-gated consumers: witness scripts (Puts whose context is cancelled between the commit and the dispatch or before the call, stalled consumer with queue+2 Puts, with a second reader, slow consumer, disconnect after/before the queue fills, same-id reconnect on a full queue, exactly queue beacons) and random scripts of Put/AddCallback/RemoveCallback/release (reading and gated consumers, replacements, self-removal) that never fill a queue; distinct = distinct events; an evaluation = one event; a call not returned after " + Deadline.String() + " counts as blocked"
	_ = strings.Join
	if err := rep.Shard(outDir, "cases_cbstore", []string{"From DV Require Import Model.CbStore Corr.CbStoreCorr."}, "bcase", "mismatches", cases, descr, 40); err != nil {
		return err
	}
	return rep.Write(outDir)
}

// monitor M: the property's predicate on the implementation's own behaviour.
func monitor(rep *emit.Report, o outcome) {
	sc, res := o.sc, o.res
	// (1) storing a beacon never waits on a consumer: every Put returns within the deadline
	stalled := map[int]bool{} // consumer instances that are gated
	for k, c := range instKinds(sc.script) {
		if !c {
			stalled[k] = true
		}
	}
	firstBlockedPut := -1
	for i, e := range sc.script {
		if e.kind == evPut && !res.immediate[i] && firstBlockedPut < 0 {
			firstBlockedPut = i
		}
	}
	if firstBlockedPut >= 0 {
		nPutsBefore := 0
		for i := 0; i <= firstBlockedPut; i++ {
			if sc.script[i].kind == evPut {
				nPutsBefore++
			}
		}
		released := false
		for _, e := range sc.script[:firstBlockedPut] {
			if e.kind == evRelease {
				released = true
			}
		}
		in := map[string]interface{}{"scenario": sc.name, "event": firstBlockedPut, "puts_so_far": nPutsBefore, "queue": queueN, "deadline_s": Deadline.Seconds(), "returned_later": res.final[firstBlockedPut]}
		class := "C12-put-blocks-on-stalled-consumer"
		if !released && nPutsBefore <= queueN+1 && !hasSameIDAdd(sc.script[:firstBlockedPut]) {
			class = "C12-put-blocks-early" // blocked although no queue can be full yet
		}
		failOnce(rep, class, fmt.Sprintf("callbackStore.Put did not return within %v: Put number %d with a consumer that stopped reading (queue of %d per callback, blocking send under the read lock)", Deadline, nPutsBefore, queueN), in)
	}
	// (2) other consumers are served: a reading consumer registered before a returned Put receives it
	for k, c := range o.res.logs {
		_ = k
		_ = c
	}
	type regInfo struct{ inst int }
	reg := map[int]int{}
	inst := -1
	want := map[int][]uint64{}
	auto := instKinds(sc.script)
	for i, e := range sc.script {
		switch e.kind {
		case evAdd:
			inst++
			if res.final[i] {
				reg[e.cid] = inst
			}
		case evRemove:
			if res.final[i] {
				delete(reg, e.cid)
			}
		case evRelease:
			if e.rm && res.final[i] {
				// the callback removed whatever is registered under its id
				delete(reg, cidOf(sc.script, e.k))
			}
		case evPut:
			if res.final[i] && e.r != 0 {
				for _, k := range reg {
					if auto[k] {
						want[k] = append(want[k], e.r)
					}
				}
			}
		}
	}
	for k, ws := range want {
		var got []uint64
		for _, e := range res.logs[k] {
			if !e.closed {
				got = append(got, e.round)
			}
		}
		if !isSubsequence(ws, got) {
			failOnce(rep, "C12-reader-not-served", "a consumer that keeps reading did not receive, in order, every beacon whose Put returned while it was registered",
				map[string]interface{}{"scenario": sc.name, "consumer": k, "want": ws, "got": got})
		}
		// FIFO, no repetition
		for i := 1; i < len(got); i++ {
			if got[i] <= got[i-1] {
				failOnce(rep, "C12-callback-order", "callbacks of one consumer are not in Put order", map[string]interface{}{"scenario": sc.name, "consumer": k, "got": got})
				break
			}
		}
	}
}

func hasSameIDAdd(s []event) bool {
	seen := map[int]bool{}
	for _, e := range s {
		if e.kind == evAdd {
			if seen[e.cid] {
				return true
			}
			seen[e.cid] = true
		}
	}
	return false
}

// instKinds: for each consumer instance (in AddCallback order) whether it is auto.
func instKinds(s []event) []bool {
	var out []bool
	for _, e := range s {
		if e.kind == evAdd {
			out = append(out, e.auto)
		}
	}
	return out
}

func cidOf(s []event, k int) int {
	n := -1
	for _, e := range s {
		if e.kind == evAdd {
			n++
			if n == k {
				return e.cid
			}
		}
	}
	return -1
}

func isSubsequence(want, got []uint64) bool {
	j := 0
	for _, g := range got {
		if j < len(want) && want[j] == g {
			j++
		}
	}
	return j == len(want)
}
