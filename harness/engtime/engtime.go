// Package engtime is the correspondence engine for C16 (common/time.go).
package engtime

import (
	"fmt"
	"math"
	"math/big"
	"math/rand"
	"time"

	"github.com/drand/drand/v2/common"
	"github.com/drand/drand/v2/zzverif/emit"
)

type tcase struct {
	kind    string // TOR | NR
	p       int64  // period, whole seconds (may be negative for the malformed stream)
	g       int64
	x       uint64 // round for TOR; (as int64) now for NR
	now     int64
	o1      uint64
	o2      int64
	inDom   bool
	comment string
}

func big64(x int64) *big.Int      { return big.NewInt(x) }
func bigU(x uint64) *big.Int      { return new(big.Int).SetUint64(x) }
func mulB(a, b *big.Int) *big.Int { return new(big.Int).Mul(a, b) }
func addB(a, b *big.Int) *big.Int { return new(big.Int).Add(a, b) }
func subB(a, b *big.Int) *big.Int { return new(big.Int).Sub(a, b) }

var errVal = big64(common.TimeOfRoundErrorValue)

// Run generates cases, runs the real functions, writes case files and evaluates the property
// monitor on the implementation's outputs.
func Run(outDir string, seed int64, tier string) error {
	rep := emit.NewReport("time", seed, tier)
	rng := rand.New(rand.NewSource(seed))
	var cs []tcase
	addTOR := func(p, g int64, r uint64, dom bool, c string) {
		v := common.TimeOfRound(time.Duration(p)*time.Second, g, r)
		cs = append(cs, tcase{kind: "TOR", p: p, g: g, x: r, o2: v, inDom: dom, comment: c})
	}
	addNR := func(p, g, now int64, dom bool, c string) {
		n, t := common.NextRound(now, time.Duration(p)*time.Second, g)
		cur := common.CurrentRound(now, time.Duration(p)*time.Second, g)
		cs = append(cs, tcase{kind: "NR", p: p, g: g, now: now, o1: n, o2: t, x: cur, inDom: dom, comment: c})
	}
	// (i) exhaustive small grid
	pmax, dtmax, rmax := int64(10), int64(45), uint64(20)
	gs := []int64{0, 7}
	if tier == "thorough" {
		pmax, dtmax, rmax = 40, 400, 64
		gs = []int64{0, 1, 7}
	}
	for p := int64(1); p <= pmax; p++ {
		for _, g := range gs {
			for dt := int64(0); dt <= dtmax; dt++ {
				addNR(p, g, g+dt, true, "grid")
			}
			for r := uint64(0); r <= rmax; r++ {
				addTOR(p, g, r, true, "grid")
			}
		}
	}
	// (ii) boundary-directed
	gB := []int64{0, 1 << 32}
	if tier == "thorough" {
		gB = []int64{0, 1, 1 << 31, 1 << 32}
	}
	for k := uint(1); k <= 32; k++ {
		for _, dp := range []int64{-2, -1, 0, 1} {
			p := int64(1)<<k + dp
			if p < 1 || p > (1<<32)-1 {
				continue
			}
			bits := int(math.Log2(float64(p) + 1))
			guard := uint64(math.MaxUint64) >> (bits + 2)
			for _, g := range gB {
				for _, dr := range []int64{-2, -1, 0, 1, 2} {
					addTOR(p, g, uint64(int64(guard)+dr), true, "guard")
				}
				// around the buffer bound: largest r whose time is below the error value
				rb := new(big.Int).Div(subB(errVal, big64(g)), big64(p))
				if rb.IsUint64() {
					for _, dr := range []int64{-1, 0, 1, 2, 3} {
						addTOR(p, g, uint64(int64(rb.Uint64())+dr), true, "buffer")
					}
				}
				// instants around multiples of p up to 2^50 after genesis
				for _, m := range []int64{1, 2, 3, (1 << 50) / p, (1<<50)/p - 1, rng.Int63n((1<<50)/p + 1)} {
					for _, d := range []int64{-1, 0, 1} {
						dt := m*p + d
						if dt < 0 || dt > 1<<50 {
							continue
						}
						addNR(p, g, g+dt, true, "multiple")
					}
				}
			}
		}
	}
	for _, r := range []uint64{math.MaxUint64, math.MaxUint64 - 1, 1 << 63, 1<<63 - 1, 1 << 62} {
		addTOR(1, 0, r, true, "hugeround")
		addTOR((1<<32)-1, 1<<32, r, true, "hugeround")
	}
	// (iii) random, in domain
	nrand := 600
	if tier == "thorough" {
		nrand = 12000
	}
	for i := 0; i < nrand; i++ {
		p := int64(1) + rng.Int63n((1<<32)-1)
		if rng.Intn(3) == 0 {
			p = 1 + rng.Int63n(120)
		}
		g := rng.Int63n((1 << 32) + 1)
		if rng.Intn(2) == 0 {
			addTOR(p, g, rng.Uint64()>>uint(rng.Intn(64)), true, "random")
		} else {
			addNR(p, g, g+rng.Int63n((1<<50)+1)>>uint(rng.Intn(50)), true, "random")
		}
	}
	// (iii') the same instant asked for several chains in a row (one daemon runs several beacons,
	// often with the same period): the conversion depends on the genesis of the chain it is asked for
	for i := 0; i < nrand/10+20; i++ {
		p := int64(1) + rng.Int63n(120)
		now := int64(1_600_000_000) + rng.Int63n(1<<28)
		g1 := now - rng.Int63n(1<<27)
		g2 := now - rng.Int63n(1<<20)
		addNR(p, g1, now, true, "same-instant-two-chains")
		addNR(p, g2, now, true, "same-instant-two-chains")
		addNR(p, now+1+rng.Int63n(1000), now, false, "same-instant-two-chains")
		addNR(p, g1, now, true, "same-instant-two-chains")
	}
	// (iv) malformed / outside the property's domain: the model keeps the wrap explicit, so it
	// must still agree (negative period, genesis beyond 2^32, instants before genesis)
	for i := 0; i < nrand/6; i++ {
		p := int64(1) + rng.Int63n((1<<32)-1)
		switch rng.Intn(4) {
		case 0:
			addTOR(-p, rng.Int63n(1<<32), rng.Uint64()>>uint(rng.Intn(64)), false, "negperiod")
		case 1:
			addTOR(p, rng.Int63()>>uint(rng.Intn(30)), rng.Uint64()>>uint(rng.Intn(64)), false, "biggenesis")
		case 2:
			g := rng.Int63n(1 << 32)
			addNR(p, g, g-1-rng.Int63n(1000), false, "beforegenesis")
		case 3:
			addTOR(p, -rng.Int63n(1<<40), rng.Uint64()>>uint(rng.Intn(64)), false, "neggenesis")
		}
	}

	// ---- monitor M: the property's relations on the implementation's outputs ----
	seen := map[string]bool{}
	for _, c := range cs {
		rep.Evaluations++
		rep.Count(c.kind + "/" + c.comment)
		key := fmt.Sprintf("%s|%d|%d|%d|%d", c.kind, c.p, c.g, c.x, c.now)
		if !seen[key] {
			seen[key] = true
			nontrivial := (c.kind == "TOR" && c.x >= 1) || (c.kind == "NR" && c.now >= c.g)
			if nontrivial {
				rep.DistinctNontrivial++
			}
		}
		if !c.inDom {
			continue
		}
		in := map[string]interface{}{"kind": c.kind, "period_s": c.p, "genesis": c.g, "round": c.x, "now": c.now, "out1": c.o1, "out2": c.o2}
		switch c.kind {
		case "TOR":
			v := big64(c.o2)
			if c.x == 0 {
				if c.o2 != c.g {
					rep.Fail("tor-round0", "TimeOfRound(0) != genesis", in)
				}
				continue
			}
			ideal := addB(big64(c.g), mulB(subB(bigU(c.x), big64(1)), big64(c.p)))
			if v.Cmp(errVal) != 0 && v.Cmp(ideal) != 0 {
				rep.Fail("tor-wrap", "TimeOfRound is neither the error value nor g+(r-1)p", in)
			}
			if v.Sign() < 0 || v.Cmp(errVal) > 0 {
				rep.Fail("tor-range", "TimeOfRound outside [0, error value]", in)
			}
			// small rounds must be exact (not the error value)
			if ideal.Cmp(big64(1<<51)) < 0 && v.Cmp(ideal) != 0 {
				rep.Fail("tor-small", "TimeOfRound of a schedulable round is not g+(r-1)p", in)
			}
			// strictly increasing / error upward closed
			if c.x < math.MaxUint64 {
				v2 := common.TimeOfRound(time.Duration(c.p)*time.Second, c.g, c.x+1)
				if c.o2 != common.TimeOfRoundErrorValue && v2 != common.TimeOfRoundErrorValue && !(c.o2 < v2) {
					rep.Fail("tor-mono", "TimeOfRound not strictly increasing", in)
				}
				if c.o2 == common.TimeOfRoundErrorValue && v2 != common.TimeOfRoundErrorValue {
					rep.Fail("tor-errup", "error value not upward closed", in)
				}
			}
		case "NR":
			per := time.Duration(c.p) * time.Second
			cur := c.x
			tc := common.TimeOfRound(per, c.g, cur)
			tn := common.TimeOfRound(per, c.g, cur+1)
			if !(cur >= 1 && tc <= c.now && c.now < tn) {
				rep.Fail("cur-bracket", "CurrentRound does not bracket now", in)
			}
			if c.o1 != cur+1 || c.o2 != tn {
				rep.Fail("next", "NextRound != (current+1, its time)", in)
			}
			// uniqueness among neighbours
			for _, r := range []uint64{cur - 1, cur + 1} {
				if r >= 1 && r != cur {
					a, b := common.TimeOfRound(per, c.g, r), common.TimeOfRound(per, c.g, r+1)
					if a <= c.now && c.now < b {
						rep.Fail("cur-unique", "another round brackets now", in)
					}
				}
			}
		}
	}
	// ---- case files ----
	var lines, descr []string
	for _, c := range cs {
		var l string
		if c.kind == "TOR" {
			l = fmt.Sprintf("TOR %s %s %s %s", emit.Z(c.p), emit.Z(c.g), emit.U(c.x), emit.Z(c.o2))
		} else {
			l = fmt.Sprintf("NR %s %s %s %s %s %s", emit.Z(c.now), emit.Z(c.p), emit.Z(c.g), emit.U(c.o1), emit.Z(c.o2), emit.U(c.x))
		}
		lines = append(lines, l)
		descr = append(descr, l+" (* "+c.comment+" *)")
		rep.Sample(l+" (* "+c.comment+" *)", 8)
	}
	rep.Rule = "grid (exhaustive small), boundary-directed (2^k±, guard±2, buffer bound, multiples of p up to 2^50), random in-domain, and a malformed stream (negative period, huge/negative genesis, before genesis); distinct = distinct (kind,p,g,round/now); non-trivial = round>=1 or now>=genesis"
	if err := rep.Shard(outDir, "cases_time", []string{"From DV Require Import Corr.TimeCorr."}, "tcase", "mismatches", lines, descr, 1500); err != nil {
		return err
	}
	return rep.Write(outDir)
}
