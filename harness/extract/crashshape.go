package extract

// Gen/CrashShape.v for C13: the order and transaction structure of the persistence calls in the
// functions the crash model stands for, read from the Go source:
//   dkg/store.go        SaveCurrent / SaveFinished: db.Update calls and the bucket Puts inside each
//   core/drand_beacon.go storeDKGOutput: order of bp.store.SaveGroup / SaveShare
//   key/store.go        Reset: order of the Delete calls; Save: writes the target file in place
//   dkg/execution.go    executeAndFinishDKG: SaveFinished precedes the hand-over on completedDKGs
//   boltdb/store.go, trimmed.go  Put: one db.Update with one bucket.Put
//   beacon/store.go     callbackStore.Put: the underlying Put (error => return) precedes the dispatch
// Any other shape is a T-break.

import (
	"fmt"
	"go/ast"
	"go/token"
	"strings"
)

func init() { register("CrashShape.v", genCrashShape) }

// csUpdates returns, for each `<x>.db.Update(func...)` call in fd (in source order), the list of
// receivers of the `.Put(` calls inside the function literal.
func csUpdates(fd *ast.FuncDecl) [][]string {
	var out [][]string
	ast.Inspect(fd.Body, func(n ast.Node) bool {
		c, ok := n.(*ast.CallExpr)
		if !ok || !strings.HasSuffix(sfChain(c.Fun), ".db.Update") || len(c.Args) != 1 {
			return true
		}
		fl, ok := c.Args[0].(*ast.FuncLit)
		if !ok {
			out = append(out, []string{"?"})
			return false
		}
		var puts []string
		ast.Inspect(fl.Body, func(m ast.Node) bool {
			if pc, ok := m.(*ast.CallExpr); ok {
				if sel, ok := pc.Fun.(*ast.SelectorExpr); ok && sel.Sel.Name == "Put" {
					puts = append(puts, sfChain(sel.X))
				}
			}
			return true
		})
		out = append(out, puts)
		return false
	})
	return out
}

// csBucketVars maps local variables assigned from tx.Bucket(<name>) to <name>.
func csBucketVars(fd *ast.FuncDecl) map[string]string {
	m := map[string]string{}
	ast.Inspect(fd.Body, func(n ast.Node) bool {
		as, ok := n.(*ast.AssignStmt)
		if !ok || len(as.Lhs) != 1 || len(as.Rhs) != 1 {
			return true
		}
		id, ok := as.Lhs[0].(*ast.Ident)
		c, ok2 := as.Rhs[0].(*ast.CallExpr)
		if ok && ok2 && sfChain(c.Fun) == "tx.Bucket" && len(c.Args) == 1 {
			m[id.Name] = sfChain(c.Args[0])
		}
		return true
	})
	return m
}

func genCrashShape(repo string) (string, error) {
	tb := func(f string, a ...interface{}) (string, error) {
		return "", fmt.Errorf("T-break: crashshape: "+f, a...)
	}
	bucketName := map[string]string{"stagedStateBucket": "BCurrent", "finishedStateBucket": "BFinished"}
	ds, err := parseFile(repo, "internal/dkg/store.go")
	if err != nil {
		return "", err
	}
	txsOf := func(method string, bind map[string]string) ([][]string, error) {
		fd := sfFindFunc(ds, "BoltStore", method)
		if fd == nil {
			return nil, fmt.Errorf("T-break: crashshape: BoltStore.%s not found", method)
		}
		vars := csBucketVars(fd)
		var txs [][]string
		for _, puts := range csUpdates(fd) {
			var tx []string
			for _, p := range puts {
				v, ok := vars[p]
				if !ok {
					return nil, fmt.Errorf("T-break: crashshape: %s: Put on %q which is not a tx.Bucket(...) variable", method, p)
				}
				if b, ok := bind[v]; ok {
					v = b
				}
				bn, ok := bucketName[v]
				if !ok {
					return nil, fmt.Errorf("T-break: crashshape: %s: unknown bucket %q", method, v)
				}
				tx = append(tx, bn)
			}
			txs = append(txs, tx)
		}
		return txs, nil
	}
	// SaveFinished
	fin, err := txsOf("SaveFinished", nil)
	if err != nil {
		return "", err
	}
	// SaveCurrent -> s.save(stagedStateBucket, ...)
	sc := sfFindFunc(ds, "BoltStore", "SaveCurrent")
	if sc == nil {
		return tb("BoltStore.SaveCurrent not found")
	}
	var saveArg string
	for _, c := range sfCalls(sc) {
		if sfChain(c.Fun) == "s.save" && len(c.Args) == 3 {
			saveArg = sfChain(c.Args[0])
		}
	}
	if saveArg == "" || len(sfCalls(sc)) != 1 {
		return tb("SaveCurrent is not `return s.save(<bucket>, beaconID, state)`")
	}
	sv := sfFindFunc(ds, "BoltStore", "save")
	if sv == nil || sv.Type.Params == nil || len(sv.Type.Params.List) == 0 || len(sv.Type.Params.List[0].Names) == 0 {
		return tb("BoltStore.save not found")
	}
	cur, err := txsOf("save", map[string]string{sv.Type.Params.List[0].Names[0].Name: saveArg})
	if err != nil {
		return "", err
	}
	// storeDKGOutput
	cb, err := parseFile(repo, "internal/core/drand_beacon.go")
	if err != nil {
		return "", err
	}
	sdo := sfFindFunc(cb, "BeaconProcess", "storeDKGOutput")
	if sdo == nil {
		return tb("BeaconProcess.storeDKGOutput not found")
	}
	var storeOrder []string
	for _, c := range sfCalls(sdo) {
		switch sfChain(c.Fun) {
		case "bp.store.SaveGroup":
			storeOrder = append(storeOrder, "KSave KGroup")
		case "bp.store.SaveShare":
			storeOrder = append(storeOrder, "KSave KShare")
		case "bp.store.Reset":
			// extracted as data: the Coq obligations judge it (no destructive call before the writes)
			storeOrder = append(storeOrder, "KReset")
		case "bp.store.SaveKeyPair":
			return tb("storeDKGOutput calls %s", sfChain(c.Fun))
		}
	}
	if len(storeOrder) == 0 {
		return tb("storeDKGOutput makes no key-store call")
	}
	// every caller of storeDKGOutput is reached from onDKGCompleted only (the hand-over)
	// Reset
	ks, err := parseFile(repo, "common/key/store.go")
	if err != nil {
		return "", err
	}
	rs := sfFindFunc(ks, "fileStore", "Reset")
	if rs == nil {
		return tb("fileStore.Reset not found")
	}
	var resetOrder []string
	for _, c := range sfCalls(rs) {
		if sfChain(c.Fun) == "Delete" && len(c.Args) == 1 {
			switch sfChain(c.Args[0]) {
			case "f.shareFile":
				resetOrder = append(resetOrder, "KShare")
			case "f.groupFile":
				resetOrder = append(resetOrder, "KGroup")
			default:
				return tb("Reset deletes %s", sfChain(c.Args[0]))
			}
		}
	}
	if len(resetOrder) != 2 {
		return tb("Reset does not delete the share and the group file exactly once each: %v", resetOrder)
	}
	// key.Save: in place, or write aside + Sync + Close + rename (shape read by sfSaveShape)
	inPlace, atomicRename, _, _, err := sfSaveShape(ks)
	if err != nil {
		return "", fmt.Errorf("T-break: crashshape: %w", err)
	}
	if !inPlace && !atomicRename {
		return tb("key.Save renames a temporary file into place but not after encode, Sync and Close in this order")
	}
	// executeAndFinishDKG: SaveFinished before the send on completedDKGs
	ex, err := parseFile(repo, "internal/dkg/execution.go")
	if err != nil {
		return "", err
	}
	ef := sfFindFunc(ex, "Process", "executeAndFinishDKG")
	if ef == nil {
		return tb("Process.executeAndFinishDKG not found")
	}
	var posSave, posSend token.Pos
	nSave, nSend := 0, 0
	ast.Inspect(ef.Body, func(n ast.Node) bool {
		switch x := n.(type) {
		case *ast.CallExpr:
			if sfChain(x.Fun) == "d.store.SaveFinished" {
				posSave = x.Pos()
				nSave++
			}
		case *ast.SendStmt:
			if strings.Contains(sfChain(x.Chan), "completedDKGs") {
				posSend = x.Pos()
				nSend++
			}
		}
		return true
	})
	if nSave != 1 || nSend != 1 {
		return tb("executeAndFinishDKG: expected one SaveFinished and one send on completedDKGs (got %d, %d)", nSave, nSend)
	}
	// chain Put
	var chainShapes []string
	for _, spec := range []struct{ file, recv string }{{"internal/chain/boltdb/store.go", "BoltStore"}, {"internal/chain/boltdb/trimmed.go", "trimmedStore"}} {
		pf, err := parseFile(repo, spec.file)
		if err != nil {
			return "", err
		}
		fd := sfFindFunc(pf, spec.recv, "Put")
		if fd == nil {
			return tb("%s.Put not found", spec.recv)
		}
		var txs []string
		for _, puts := range csUpdates(fd) {
			txs = append(txs, fmt.Sprintf("%d", len(puts)))
		}
		chainShapes = append(chainShapes, "[["+strings.Join(txs, "]; [")+"]]")
	}
	if chainShapes[0] != chainShapes[1] {
		return tb("boltdb Put shapes differ between the two stores: %v", chainShapes)
	}
	// callbackStore.Put: `if err := c.Store.Put(ctx, b); err != nil { return err }` first, the
	// dispatch to the callback workers (send on the job channel inside the range over c.callbacks) after
	bs, err := parseFile(repo, "internal/chain/beacon/store.go")
	if err != nil {
		return "", err
	}
	cbp := sfFindFunc(bs, "callbackStore", "Put")
	if cbp == nil {
		return tb("callbackStore.Put not found")
	}
	var cbPosPut, cbPosSend token.Pos
	cbNPut, cbNSend, putGuarded := 0, 0, false
	ast.Inspect(cbp.Body, func(n ast.Node) bool {
		switch x := n.(type) {
		case *ast.IfStmt:
			// if err := c.Store.Put(ctx, b); err != nil { return err }
			if as, ok := x.Init.(*ast.AssignStmt); ok && len(as.Rhs) == 1 {
				if c, ok := as.Rhs[0].(*ast.CallExpr); ok && sfChain(c.Fun) == "c.Store.Put" && len(x.Body.List) == 1 {
					if _, ok := x.Body.List[0].(*ast.ReturnStmt); ok {
						putGuarded = true
					}
				}
			}
		case *ast.CallExpr:
			if sfChain(x.Fun) == "c.Store.Put" {
				cbPosPut = x.Pos()
				cbNPut++
			}
		case *ast.SendStmt:
			cbPosSend = x.Pos()
			cbNSend++
		}
		return true
	})
	if cbNPut != 1 || cbNSend != 1 {
		return tb("callbackStore.Put: expected one c.Store.Put call and one send to the callback workers (got %d, %d)", cbNPut, cbNSend)
	}
	cbWriteFirst := cbPosPut < cbPosSend && putGuarded
	coqTxs := func(txs [][]string) string {
		var parts []string
		for _, tx := range txs {
			parts = append(parts, "["+strings.Join(tx, "; ")+"]")
		}
		return "[" + strings.Join(parts, "; ") + "]"
	}
	b := func(x bool) string {
		if x {
			return "true"
		}
		return "false"
	}
	var sb strings.Builder
	sb.WriteString("(* GENERATED by zzv extract (harness/extract/crashshape.go) from internal/dkg/store.go, execution.go,\n   internal/core/drand_beacon.go, common/key/store.go, internal/chain/boltdb/{store,trimmed}.go; do not edit. *)\n")
	sb.WriteString("From Coq Require Import ZArith List.\nFrom DV Require Import Model.Crash.\nImport ListNotations.\nOpen Scope Z_scope.\n")
	fmt.Fprintf(&sb, "Definition crash_shape : shape :=\n  mkShape %s (* SaveCurrent *)\n    %s (* SaveFinished *)\n    [%s] (* storeDKGOutput *)\n    [%s] (* Reset *)\n    %s (* SaveFinished before hand-over *)\n    %s (* boltdb Put *)\n    %s (* Save in place (false: complete temporary file renamed over the target) *)\n    %s (* callbackStore.Put: write (error returns) before dispatch *).\n",
		coqTxs(cur), coqTxs(fin), strings.Join(storeOrder, "; "), strings.Join(resetOrder, "; "), b(posSave < posSend), chainShapes[0], b(inPlace), b(cbWriteFirst))
	return sb.String(), nil
}
