package extract

// Driver and Coq emission of the mirror translator (see mirrors.go).

import (
	"fmt"
	"go/ast"
	"reflect"
	"strings"
)

func (c *mctx) flattenBuild(b *mbuild, prefix []string, root string) []MirEntry {
	var out []MirEntry
	seen := map[string]bool{}
	for i := len(b.entries) - 1; i >= 0; i-- {
		ie := b.entries[i]
		k := strings.Join(ie.dst, ".")
		if seen[k] {
			continue
		}
		seen[k] = true
		out = append(c.flatten(append(append([]string{}, prefix...), ie.dst...), ie.v, root), out...)
	}
	return out
}

func cdJSONName(f MirField) (string, bool) {
	tag := reflect.StructTag(f.Tag).Get("json")
	parts := strings.Split(tag, ",")
	name := f.Name
	if parts[0] != "" {
		name = parts[0]
	}
	omit := false
	for _, p := range parts[1:] {
		if p == "omitempty" {
			omit = true
		}
	}
	return name, omit
}

func mirTranslate(w *mirWorld, spec MirSpec, roots map[string]bool) (*MirOut, error) {
	p, err := w.pkg(spec.Dir)
	if err != nil {
		return nil, err
	}
	fn := p.funcs[spec.Fn]
	if fn == nil {
		return nil, fmt.Errorf("T-break: function %s not found in %s", spec.Fn, spec.Dir)
	}
	out := &MirOut{Spec: spec, Pos: p.pos(fn)}
	c := &mctx{w: w, p: p, file: p.ffile[spec.Fn], fn: fn, spec: spec, roots: roots, locals: map[string]*mv{}, out: out}
	if spec.Src != "" {
		c.srcT = named(spec.Src)
	}
	if spec.Dst != "" {
		c.dstT = named(spec.Dst)
	}
	// receiver
	if fn.Recv != nil && len(fn.Recv.List[0].Names) == 1 {
		rn := fn.Recv.List[0].Names[0].Name
		rt := w.typeOf(fn.Recv.List[0].Type, spec.Dir, c.file)
		switch {
		case spec.SrcFrom == "recv":
			if rt.Deref().String() != c.srcT.String() {
				return nil, c.brk(fn, "receiver type %s is not the source type %s", rt, c.srcT)
			}
			c.locals[rn] = &mv{k: "src", t: rt}
			c.srcName = rn
		case spec.DstFrom == "recv":
			if rt.Deref().String() != c.dstT.String() {
				return nil, c.brk(fn, "receiver type %s is not the destination type %s", rt, c.dstT)
			}
			c.dst = &mbuild{typ: rt, isDst: true}
			c.locals[rn] = &mv{k: "build", b: c.dst, t: rt}
		default:
			c.locals[rn] = &mv{k: "ext", text: rn}
		}
	}
	// parameters
	srcBound := spec.SrcFrom != "param"
	for _, pl := range fn.Type.Params.List {
		pt := w.typeOf(pl.Type, spec.Dir, c.file)
		for _, id := range pl.Names {
			if !srcBound {
				ts := pt.Deref().String()
				switch {
				case ts == "interface{}":
					c.srcName = id.Name
					srcBound = true
					continue
				case ts == c.srcT.String() || (ts == dKey+".protoIdentity" && spec.Src == dPB+".Identity"):
					c.locals[id.Name] = &mv{k: "src", t: &MirType{Kind: "ptr", Elem: c.srcT}}
					c.srcName = id.Name
					srcBound = true
					continue
				}
			}
			c.locals[id.Name] = &mv{k: "ext", text: id.Name}
		}
	}
	if !srcBound {
		return nil, c.brk(fn, "no parameter of the source type %s", c.srcT)
	}
	if err := c.stmts(fn.Body.List); err != nil {
		return nil, err
	}
	if c.dst == nil || c.srcT == nil || c.dstT == nil {
		return nil, c.brk(fn, "source or destination of %s not identified", spec.Name)
	}
	out.SrcType, out.DstType = c.srcT, c.dstT
	if out.SrcLeaves, err = w.leaves(c.srcT, roots, 0); err != nil {
		return nil, err
	}
	if out.DstLeaves, err = w.leaves(c.dstT, roots, 0); err != nil {
		return nil, err
	}
	out.SrcFields, _ = w.fields(c.srcT)
	out.DstFields, _ = w.fields(c.dstT)
	out.Entries = c.flattenBuild(c.dst, nil, "")
	// implicit hex layer of HexBytes-typed fields of the JSON structs
	if strings.HasPrefix(spec.DstFrom, "local:") {
		for i := range out.Entries {
			if _, ft, ok := w.field(c.dstT, out.Entries[i].Dst[0]); ok && w.class(ft) == "hexbytes" {
				out.Entries[i].Ops = append(out.Entries[i].Ops, "Hex")
			}
		}
	}
	if strings.HasPrefix(spec.SrcFrom, "local:") {
		for i := range out.Entries {
			e := &out.Entries[i]
			if len(e.Src) == 1 {
				if _, ft, ok := w.field(c.srcT, e.Src[0]); ok && w.class(ft) == "hexbytes" {
					e.Ops = append([]string{"UnHex"}, e.Ops...)
				}
			}
		}
	}
	c.normalise(out)
	// anonymous JSON structs are matched by their json keys, not by Go field names
	if strings.HasPrefix(spec.DstFrom, "local:") || strings.HasPrefix(spec.SrcFrom, "local:") {
		ren := map[string]string{}
		var collect func(t *MirType)
		collect = func(t *MirType) {
			fs, err := w.fields(t)
			if err != nil {
				return
			}
			for _, f := range fs {
				jn, _ := cdJSONName(f)
				ren[f.Name] = jn
				if d := f.Type.Deref(); d != nil && d.Kind == "anon" {
					collect(d)
				}
			}
		}
		renPath := func(p []string) []string {
			q := make([]string, len(p))
			for i, x := range p {
				q[i] = x
				if y, ok := ren[x]; ok {
					q[i] = y
				}
			}
			return q
		}
		renText := func(s string) string {
			for g, j := range ren {
				s = strings.ReplaceAll(s, cdCoqString(g), cdCoqString(j))
			}
			return s
		}
		if strings.HasPrefix(spec.DstFrom, "local:") {
			collect(c.dstT)
			for i := range out.Entries {
				out.Entries[i].Dst = renPath(out.Entries[i].Dst)
			}
			for i := range out.DstLeaves {
				out.DstLeaves[i] = renPath(out.DstLeaves[i])
			}
		} else {
			collect(c.srcT)
			for i := range out.Entries {
				out.Entries[i].Src = renPath(out.Entries[i].Src)
			}
			for i := range out.SrcLeaves {
				out.SrcLeaves[i] = renPath(out.SrcLeaves[i])
			}
			for i := range out.Checks {
				out.Checks[i] = renText(out.Checks[i])
			}
			// overrides: condition and source are source-side, the destination is not
			for i := range out.Overrides {
				out.Overrides[i].Cond = renText(out.Overrides[i].Cond)
				out.Overrides[i].Entry.Src = renPath(out.Overrides[i].Entry.Src)
			}
		}
	}
	return out, nil
}

// beaconJSON synthesises the two directions of json.Marshal / json.Unmarshal on common.Beacon
// from its field types and struct tags, after checking that Marshal/Unmarshal and the HexBytes
// methods have the bodies this reading relies on.
func beaconJSON(w *mirWorld, roots map[string]bool) ([]*MirOut, error) {
	p, err := w.pkg("common")
	if err != nil {
		return nil, err
	}
	want := map[string]string{
		"Beacon.Marshal":              "return json.Marshal(b)",
		"Beacon.Unmarshal":            "return json.Unmarshal(buff, b)",
		"HexBytes.MarshalJSON":        "return json.Marshal(h.String())",
		"HexBytes.String":             "return hex.EncodeToString(*h)",
		"HexBytes.UnmarshalJSON":      "var hexString string; if err := json.Unmarshal(data, &hexString); err != nil { return err }; b, err := hex.DecodeString(hexString); if err != nil { return err }; *h = b; return nil",
		"Beacon.GetRound":             "return b.Round",
		"Beacon.GetSignature":         "return b.Signature",
		"Beacon.GetPreviousSignature": "return b.PreviousSig",
	}
	for k, body := range want {
		fn := p.funcs[k]
		if fn == nil {
			return nil, fmt.Errorf("T-break: common.%s not found", k)
		}
		var parts []string
		for _, s := range fn.Body.List {
			parts = append(parts, cdSrc(p.fset, s))
		}
		if got := strings.Join(parts, "; "); got != body {
			return nil, p.breakf(fn, "common.%s has an unexpected body: %s", k, got)
		}
	}
	bt := named("common.Beacon")
	fs, err := w.fields(bt)
	if err != nil {
		return nil, err
	}
	enc := &MirOut{Spec: MirSpec{Name: "Beacon.MarshalJSON", Dir: "common", Fn: "Beacon.Marshal"}, SrcType: bt, DstType: named("json:common.Beacon"), Synthetic: true, Pos: p.pos(p.funcs["Beacon.Marshal"]), SrcFields: fs}
	dec := &MirOut{Spec: MirSpec{Name: "Beacon.UnmarshalJSON", Dir: "common", Fn: "Beacon.Unmarshal"}, SrcType: named("json:common.Beacon"), DstType: bt, Synthetic: true, Pos: p.pos(p.funcs["Beacon.Unmarshal"]), DstFields: fs}
	for _, f := range fs {
		jn, omit := cdJSONName(f)
		var eo, do []string
		switch w.class(f.Type) {
		case "hexbytes":
			eo, do = []string{"Hex"}, []string{"UnHex"}
		case "int":
			eo, do = []string{"Copy"}, []string{"Copy"}
		default:
			eo, do = []string{"Unknown " + cdCoqString("json of "+f.Type.String())}, []string{"Unknown " + cdCoqString("json of "+f.Type.String())}
		}
		if omit {
			eo = append([]string{"IfNonEmpty"}, eo...)
			do = append([]string{"IfNotNil"}, do...)
		}
		enc.Entries = append(enc.Entries, MirEntry{[]string{jn}, eo, []string{f.Name}})
		dec.Entries = append(dec.Entries, MirEntry{[]string{f.Name}, do, []string{jn}})
		enc.SrcLeaves = append(enc.SrcLeaves, []string{f.Name})
		enc.DstLeaves = append(enc.DstLeaves, []string{jn})
		dec.SrcLeaves = append(dec.SrcLeaves, []string{jn})
		dec.DstLeaves = append(dec.DstLeaves, []string{f.Name})
	}
	return []*MirOut{enc, dec}, nil
}

// helper bodies the interpreter relies on
func mirCheckHelpers(w *mirWorld) error {
	p, err := w.pkg(dKey)
	if err != nil {
		return err
	}
	want := map[string]string{
		"Identity.Address":     "return i.Addr",
		"Group.Len":            "return len(g.Nodes)",
		"Group.GetGenesisSeed": "if g.GenesisSeed != nil { return g.GenesisSeed }; g.GenesisSeed = g.Hash(); return g.GenesisSeed",
		"MinimumT":             "return (n >> 1) + 1",
		"PointToString":        "buff, _ := p.MarshalBinary(); return hex.EncodeToString(buff)",
		"ScalarToString":       "buff, _ := s.MarshalBinary(); return hex.EncodeToString(buff)",
		"StringToPoint":        "buff, err := hex.DecodeString(s); if err != nil { return nil, err }; p := g.Point(); return p, p.UnmarshalBinary(buff)",
		"StringToScalar":       "buff, err := hex.DecodeString(s); if err != nil { return nil, err }; sc := g.Scalar(); return sc, sc.UnmarshalBinary(buff)",
	}
	for k, body := range want {
		fn := p.funcs[k]
		if fn == nil {
			return fmt.Errorf("T-break: key.%s not found", k)
		}
		var parts []string
		for _, s := range fn.Body.List {
			parts = append(parts, cdSrc(p.fset, s))
		}
		if got := strings.Join(parts, "; "); got != body {
			return p.breakf(fn, "key.%s has an unexpected body: %s", k, got)
		}
	}
	return nil
}

// Mirrors translates every conversion function of MirSpecs (exported for the codec engine,
// which cross-checks the result with reflect on the real structs).
func Mirrors(repo string) ([]*MirOut, error) {
	w := &mirWorld{repo: repo, pkgs: map[string]*cdPkg{}}
	if err := mirCheckHelpers(w); err != nil {
		return nil, err
	}
	roots := mirRoots()
	var outs []*MirOut
	for _, sp := range MirSpecs {
		o, err := mirTranslate(w, sp, roots)
		if err != nil {
			return nil, err
		}
		outs = append(outs, o)
	}
	bj, err := beaconJSON(w, roots)
	if err != nil {
		return nil, err
	}
	outs = append(outs, bj...)
	return outs, nil
}

func cdCoqPaths(ps [][]string) string {
	q := make([]string, len(ps))
	for i, p := range ps {
		q[i] = cdCoqPath(p)
	}
	return "[" + strings.Join(q, "; ") + "]"
}

func cdIdent(s string) string {
	r := strings.NewReplacer(".", "_", "#", "__")
	return "mir_" + r.Replace(s)
}

func emitMirror(sb *strings.Builder, o *MirOut, names *[]string) {
	fmt.Fprintf(sb, "(* %s  %s *)\n", o.Pos, o.Spec.Fn)
	for _, pr := range o.Presets {
		fmt.Fprintf(sb, "(* note: %s *)\n", strings.ReplaceAll(pr, "*)", "* )"))
	}
	fmt.Fprintf(sb, "Definition %s : mirror_def := M %s %s %s\n  %s\n  %s\n  [", cdIdent(o.Spec.Name), cdCoqString(o.Spec.Name),
		cdCoqString(o.SrcType.String()), cdCoqString(o.DstType.String()), cdCoqPaths(o.SrcLeaves), cdCoqPaths(o.DstLeaves))
	for i, e := range o.Entries {
		if i > 0 {
			sb.WriteString(";")
		}
		sb.WriteString("\n    " + cdCoqEntry(e))
	}
	sb.WriteString("]\n  [")
	for i, ch := range o.Checks {
		if i > 0 {
			sb.WriteString(";")
		}
		sb.WriteString("\n    " + ch)
	}
	sb.WriteString("]\n  [")
	for i, ov := range o.Overrides {
		if i > 0 {
			sb.WriteString(";")
		}
		sb.WriteString("\n    O " + ov.Cond + " (" + cdCoqEntry(ov.Entry) + ")")
	}
	sb.WriteString("].\n")
	*names = append(*names, cdIdent(o.Spec.Name))
	for _, s := range o.SubMirrors {
		emitMirror(sb, s, names)
	}
}

func genMirrors(repo string) (string, error) {
	outs, err := Mirrors(repo)
	if err != nil {
		return "", err
	}
	var sb strings.Builder
	sb.WriteString("(* GENERATED by zzv extract (harness/extract/mirrors.go) from the Go sources; do not edit. *)\n")
	sb.WriteString("From Coq Require Import String ZArith List.\nFrom DV Require Import Model.CodecVocab.\nImport ListNotations.\nOpen Scope Z_scope.\nOpen Scope string_scope.\n")
	// table order: a mirror refers only to mirrors further down
	var names []string
	var defs []string
	for i := len(outs) - 1; i >= 0; i-- {
		var one strings.Builder
		var ns []string
		emitMirror(&one, outs[i], &ns)
		defs = append(defs, one.String())
		names = append(names, ns...)
	}
	// definitions must precede their use in the table only; emit them all, then the table
	for _, d := range defs {
		sb.WriteString(d)
	}
	sb.WriteString("Definition mirrors : list mirror_def := [\n  " + strings.Join(names, ";\n  ") + "\n].\n")
	return sb.String(), nil
}

var _ = ast.NewIdent

// MirRoots lists the qualified names of the struct types that have mirrors of their own.
func MirRoots() map[string]bool { return mirRoots() }
