package extract

// Generator for coq/Gen/HashOrder.v (C17): the sequence of writes into the hasher performed by
// chain.Info.Hash, key.Group.Hash, key.Node.Hash and key.DistPublic.Hash, read off the function
// bodies as items of the closed vocabulary of coq/Model/HashVocab.v (endianness, width,
// conditional guards, sorting). Any statement outside the recognised shapes is a T-break.

import (
	"fmt"
	"go/ast"
	"go/token"
	"strings"
)

func init() { register("HashOrder.v", genHashOrder) }

// widths of the integer types that binary.Write may see here
var cdIntWidth = map[string]int{"int64": 8, "uint64": 8, "int32": 4, "uint32": 4, "uint16": 2, "int16": 2,
	"dkg.Index": 4 /* kyber share/dkg: type Index = uint32; cross-checked with reflect by the engine */}

type hashFn struct {
	pkg      *cdPkg
	recvType string
	recv     string
	hasher   string
	hashName string            // SHA256 | BLAKE2b256
	points   map[string]string // local ident -> field whose point encoding it holds
	sorted   map[string]string // field -> sort key
	items    []string
}

func (h *hashFn) fieldOfRecv(e ast.Expr) (string, bool) {
	r, ch, ok := cdSelChain(e)
	if ok && r == h.recv && len(ch) == 1 {
		return ch[0], true
	}
	return "", false
}

func (h *hashFn) fieldKind(f string) string {
	t, ok := h.pkg.fieldType(h.recvType, f)
	if !ok {
		return "?"
	}
	return h.pkg.resolveAlias(t)
}

// hasherCtor recognises `sha256.New()` and `hashFunc()` (package variable wrapping blake2b.New256).
func (h *hashFn) hasherCtor(e ast.Expr) (string, bool) {
	name, call, ok := cdCallName(e)
	if !ok || len(call.Args) != 0 {
		return "", false
	}
	switch name {
	case "sha256.New":
		return "SHA256", true
	default:
		v := h.pkg.vals[name]
		if v == nil {
			return "", false
		}
		src := cdSrc(h.pkg.fset, v)
		if src == "func() hash.Hash { h, _ := blake2b.New256(nil); return h }" {
			return "BLAKE2b256", true
		}
	}
	return "", false
}

// intItem recognises the value argument of binary.Write.
func (h *hashFn) intItem(endian string, e ast.Expr) (string, error) {
	// cast?
	if c, ok := e.(*ast.CallExpr); ok && len(c.Args) == 1 {
		if id, ok := c.Fun.(*ast.Ident); ok {
			w, known := cdIntWidth[id.Name]
			if !known {
				return "", h.pkg.breakf(e, "binary.Write of unsupported conversion %s", id.Name)
			}
			// uintNN(recv.F.Seconds())
			if inner, ok := c.Args[0].(*ast.CallExpr); ok {
				if sel, ok := inner.Fun.(*ast.SelectorExpr); ok && sel.Sel.Name == "Seconds" && len(inner.Args) == 0 {
					if f, ok := h.fieldOfRecv(sel.X); ok && h.fieldKind(f) == "time.Duration" {
						return fmt.Sprintf("WInt %s %d CSecs %s", endian, w, cdCoqString(f)), nil
					}
				}
				return "", h.pkg.breakf(e, "unrecognised integer expression %s", cdSrc(h.pkg.fset, e))
			}
			if f, ok := h.fieldOfRecv(c.Args[0]); ok {
				k := h.fieldKind(f)
				if _, isInt := cdIntWidth[k]; isInt || k == "int" {
					return fmt.Sprintf("WInt %s %d CRaw %s", endian, w, cdCoqString(f)), nil
				}
			}
			return "", h.pkg.breakf(e, "unrecognised integer expression %s", cdSrc(h.pkg.fset, e))
		}
	}
	if f, ok := h.fieldOfRecv(e); ok {
		k := h.fieldKind(f)
		if w, ok := cdIntWidth[k]; ok {
			return fmt.Sprintf("WInt %s %d CRaw %s", endian, w, cdCoqString(f)), nil
		}
		return "", h.pkg.breakf(e, "binary.Write of field %s with non fixed-width type %s", f, k)
	}
	return "", h.pkg.breakf(e, "unrecognised integer expression %s", cdSrc(h.pkg.fset, e))
}

// writeArg recognises the argument of h.Write(...).
func (h *hashFn) writeArg(e ast.Expr, loopVar, loopField string) (string, error) {
	// local holding a point encoding
	if id, ok := e.(*ast.Ident); ok {
		if f, ok := h.points[id.Name]; ok {
			if f == "@each" {
				return "@eachpoint", nil
			}
			return "WPoint " + cdCoqString(f), nil
		}
	}
	if f, ok := h.fieldOfRecv(e); ok {
		if h.fieldKind(f) == "[]byte" {
			return "WBytes " + cdCoqString(f), nil
		}
		return "", h.pkg.breakf(e, "Write of field %s of type %s", f, h.fieldKind(f))
	}
	if c, ok := e.(*ast.CallExpr); ok {
		// []byte(recv.F)
		if at, ok := c.Fun.(*ast.ArrayType); ok && at.Len == nil && len(c.Args) == 1 {
			if id, ok := at.Elt.(*ast.Ident); ok && id.Name == "byte" {
				if f, ok := h.fieldOfRecv(c.Args[0]); ok && h.fieldKind(f) == "string" {
					return "WString " + cdCoqString(f), nil
				}
			}
		}
		// x.Hash()
		if sel, ok := c.Fun.(*ast.SelectorExpr); ok && sel.Sel.Name == "Hash" && len(c.Args) == 0 {
			if id, ok := sel.X.(*ast.Ident); ok && loopVar != "" && id.Name == loopVar {
				et := strings.TrimPrefix(strings.TrimPrefix(h.fieldKind(loopField), "[]"), "*")
				return "@eachhash " + et, nil
			}
			if f, ok := h.fieldOfRecv(sel.X); ok {
				et := strings.TrimPrefix(h.fieldKind(f), "*")
				return fmt.Sprintf("WSubHash %s %s", cdCoqString(f), cdCoqString(et+".Hash")), nil
			}
		}
	}
	return "", h.pkg.breakf(e, "unrecognised Write argument %s", cdSrc(h.pkg.fset, e))
}

// isBlankAssign matches `_ = call` / `_, _ = call` and returns the call.
func cdBlankCall(s ast.Stmt) (*ast.CallExpr, bool) {
	as, ok := s.(*ast.AssignStmt)
	if !ok || as.Tok != token.ASSIGN || len(as.Rhs) != 1 {
		return nil, false
	}
	for _, l := range as.Lhs {
		if id, ok := l.(*ast.Ident); !ok || id.Name != "_" {
			return nil, false
		}
	}
	c, ok := as.Rhs[0].(*ast.CallExpr)
	return c, ok
}

// one statement -> zero or more items
func (h *hashFn) stmt(s ast.Stmt, loopVar, loopField string) ([]string, error) {
	p := h.pkg
	// writes
	if c, ok := cdBlankCall(s); ok {
		name, _, _ := cdCallName(c)
		switch {
		case name == "binary.Write" && len(c.Args) == 3:
			if id, ok := c.Args[0].(*ast.Ident); !ok || id.Name != h.hasher {
				return nil, p.breakf(s, "binary.Write into something else than the hasher")
			}
			en := cdSrc(p.fset, c.Args[1])
			endian := map[string]string{"binary.BigEndian": "BE", "binary.LittleEndian": "LE"}[en]
			if endian == "" {
				return nil, p.breakf(s, "unknown byte order %s", en)
			}
			it, err := h.intItem(endian, c.Args[2])
			if err != nil {
				return nil, err
			}
			return []string{it}, nil
		case name == h.hasher+".Write" && len(c.Args) == 1:
			it, err := h.writeArg(c.Args[0], loopVar, loopField)
			if err != nil {
				return nil, err
			}
			return []string{it}, nil
		}
		// recv.F.MarshalTo(h)
		if sel, ok := c.Fun.(*ast.SelectorExpr); ok && sel.Sel.Name == "MarshalTo" && len(c.Args) == 1 {
			if id, ok := c.Args[0].(*ast.Ident); ok && id.Name == h.hasher {
				if f, ok := h.fieldOfRecv(sel.X); ok && h.fieldKind(f) == "kyber.Point" {
					return []string{"WPoint " + cdCoqString(f)}, nil
				}
			}
		}
		return nil, p.breakf(s, "unrecognised statement %s", cdSrc(p.fset, s))
	}
	switch x := s.(type) {
	case *ast.AssignStmt:
		// buff, err := recv.F.MarshalBinary()   |   buff, _ := c.MarshalBinary()
		if x.Tok == token.DEFINE && len(x.Lhs) == 2 && len(x.Rhs) == 1 {
			if c, ok := x.Rhs[0].(*ast.CallExpr); ok && len(c.Args) == 0 {
				if sel, ok := c.Fun.(*ast.SelectorExpr); ok && sel.Sel.Name == "MarshalBinary" {
					lhs := x.Lhs[0].(*ast.Ident).Name
					if f, ok := h.fieldOfRecv(sel.X); ok && h.fieldKind(f) == "kyber.Point" {
						h.points[lhs] = f
						return nil, nil
					}
					if id, ok := sel.X.(*ast.Ident); ok && loopVar != "" && id.Name == loopVar && h.fieldKind(loopField) == "[]kyber.Point" {
						h.points[lhs] = "@each"
						return nil, nil
					}
				}
			}
		}
	case *ast.IfStmt:
		if x.Init != nil || x.Else != nil {
			return nil, p.breakf(s, "if with init/else in a hash function")
		}
		cond := cdSrc(p.fset, x.Cond)
		// error logging only: `if err != nil { log... }` must not write or return
		if cond == "err != nil" {
			for _, b := range x.Body.List {
				src := cdSrc(p.fset, b)
				if !strings.HasPrefix(src, "log.") {
					return nil, p.breakf(b, "error branch does more than logging: %s", src)
				}
			}
			return nil, nil
		}
		var guard string
		if u, ok := x.Cond.(*ast.UnaryExpr); ok && u.Op == token.NOT {
			if name, c, ok := cdCallName(u.X); ok && strings.HasSuffix(name, ".IsDefaultBeaconID") && len(c.Args) == 1 {
				if f, ok := h.fieldOfRecv(c.Args[0]); ok {
					guard = "GNotDefaultID " + cdCoqString(f)
				}
			}
		}
		if b, ok := x.Cond.(*ast.BinaryExpr); ok && b.Op == token.NEQ {
			if f, ok := h.fieldOfRecv(b.X); ok {
				switch cdSrc(p.fset, b.Y) {
				case "0":
					guard = "GNonZero " + cdCoqString(f)
				case "nil":
					guard = "GNotNil " + cdCoqString(f)
				}
			}
		}
		if guard == "" {
			return nil, p.breakf(s, "unrecognised guard %s", cond)
		}
		var inner []string
		for _, b := range x.Body.List {
			its, err := h.stmt(b, loopVar, loopField)
			if err != nil {
				return nil, err
			}
			inner = append(inner, its...)
		}
		var out []string
		for _, it := range inner {
			if strings.HasPrefix(it, "@") {
				return nil, p.breakf(s, "loop item under a guard")
			}
			out = append(out, fmt.Sprintf("WIf (%s) (%s)", guard, it))
		}
		return out, nil
	case *ast.ExprStmt:
		// sort.Slice(recv.F, func(i, j int) bool { return recv.F[i].K < recv.F[j].K })
		if name, c, ok := cdCallName(x.X); ok && name == "sort.Slice" && len(c.Args) == 2 {
			f, ok := h.fieldOfRecv(c.Args[0])
			fl, ok2 := c.Args[1].(*ast.FuncLit)
			if ok && ok2 && len(fl.Body.List) == 1 {
				want := func(k string) string {
					return fmt.Sprintf("return %s.%s[i].%s < %s.%s[j].%s", h.recv, f, k, h.recv, f, k)
				}
				src := cdSrc(p.fset, fl.Body.List[0])
				params := cdSrc(p.fset, fl.Type)
				if params == "func(i, j int) bool" && strings.HasPrefix(src, "return ") {
					// extract key
					rest := strings.TrimPrefix(src, fmt.Sprintf("return %s.%s[i].", h.recv, f))
					if i := strings.Index(rest, " "); i > 0 {
						k := rest[:i]
						if src == want(k) {
							h.sorted[f] = k
							return nil, nil
						}
					}
				}
			}
			return nil, p.breakf(s, "unrecognised sort %s", cdSrc(p.fset, s))
		}
	case *ast.RangeStmt:
		if loopVar != "" {
			return nil, p.breakf(s, "nested loop in a hash function")
		}
		f, ok := h.fieldOfRecv(x.X)
		v, ok2 := x.Value.(*ast.Ident)
		if k, isId := x.Key.(*ast.Ident); !ok || !ok2 || !isId || k.Name != "_" || x.Tok != token.DEFINE {
			return nil, p.breakf(s, "unrecognised range header")
		}
		var items []string
		for _, b := range x.Body.List {
			its, err := h.stmt(b, v.Name, f)
			if err != nil {
				return nil, err
			}
			items = append(items, its...)
		}
		if len(items) != 1 {
			return nil, p.breakf(s, "loop body does not consist of exactly one write")
		}
		switch {
		case items[0] == "@eachpoint":
			return []string{"WEachPoint " + cdCoqString(f)}, nil
		case strings.HasPrefix(items[0], "@eachhash "):
			so := "Listing"
			if k, ok := h.sorted[f]; ok {
				so = "(SortedAsc " + cdCoqString(k) + ")"
			}
			return []string{fmt.Sprintf("WEachHash %s %s %s", so, cdCoqString(f), cdCoqString(strings.TrimPrefix(items[0], "@eachhash ")+".Hash"))}, nil
		}
		return nil, p.breakf(s, "loop body writes something that does not depend on the element")
	}
	return nil, p.breakf(s, "unrecognised statement %s", cdSrc(p.fset, s))
}

func cdHashSpec(p *cdPkg, recvType string) (*hashFn, error) {
	fn := p.funcs[recvType+".Hash"]
	if fn == nil {
		return nil, fmt.Errorf("T-break: method %s.Hash not found in %s", recvType, p.dir)
	}
	if len(fn.Recv.List[0].Names) != 1 || fn.Type.Params.NumFields() != 0 {
		return nil, p.breakf(fn, "unexpected signature of %s.Hash", recvType)
	}
	h := &hashFn{pkg: p, recvType: recvType, recv: fn.Recv.List[0].Names[0].Name, points: map[string]string{}, sorted: map[string]string{}}
	body := fn.Body.List
	if len(body) < 2 {
		return nil, p.breakf(fn, "%s.Hash too short", recvType)
	}
	// first: h := ctor()
	as, ok := body[0].(*ast.AssignStmt)
	if !ok || as.Tok != token.DEFINE || len(as.Lhs) != 1 || len(as.Rhs) != 1 {
		return nil, p.breakf(body[0], "first statement does not create the hasher")
	}
	h.hasher = as.Lhs[0].(*ast.Ident).Name
	if h.hashName, ok = h.hasherCtor(as.Rhs[0]); !ok {
		return nil, p.breakf(body[0], "unknown hasher constructor %s", cdSrc(p.fset, as.Rhs[0]))
	}
	// last: return h.Sum(nil)
	last := body[len(body)-1]
	if cdSrc(p.fset, last) != "return "+h.hasher+".Sum(nil)" {
		return nil, p.breakf(last, "last statement is not `return %s.Sum(nil)`", h.hasher)
	}
	for _, s := range body[1 : len(body)-1] {
		its, err := h.stmt(s, "", "")
		if err != nil {
			return nil, err
		}
		for _, it := range its {
			if strings.HasPrefix(it, "@") {
				return nil, p.breakf(s, "element write outside a loop")
			}
		}
		h.items = append(h.items, its...)
	}
	// a sort that is never used by a loop would silently change nothing: reject
	for f := range h.sorted {
		used := false
		for _, it := range h.items {
			if strings.Contains(it, "SortedAsc") && strings.Contains(it, cdCoqString(f)) {
				used = true
			}
		}
		if !used {
			return nil, p.breakf(fn, "sort of %s is not followed by a loop over it", f)
		}
	}
	return h, nil
}

func genHashOrder(repo string) (string, error) {
	var sb strings.Builder
	sb.WriteString("(* GENERATED by zzv extract (harness/extract/hashorder.go) from the Go sources; do not edit. *)\n")
	sb.WriteString("From Coq Require Import ZArith List String.\nFrom DV Require Import Model.HashVocab.\nImport ListNotations.\nOpen Scope Z_scope.\nOpen Scope string_scope.\n")
	chainPkg, err := cdLoadPkg(repo, "common/chain")
	if err != nil {
		return "", err
	}
	keyPkg, err := cdLoadPkg(repo, "common/key")
	if err != nil {
		return "", err
	}
	for _, sp := range []struct {
		p        *cdPkg
		recv, nm string
	}{{chainPkg, "Info", "info_hash"}, {keyPkg, "Node", "node_hash"}, {keyPkg, "DistPublic", "distpublic_hash"}, {keyPkg, "Group", "group_hash"}} {
		h, err := cdHashSpec(sp.p, sp.recv)
		if err != nil {
			return "", err
		}
		fmt.Fprintf(&sb, "(* %s  %s.Hash *)\nDefinition %s_spec : hashspec := {| hs_fn := %s; hs_items := [\n", sp.p.pos(sp.p.funcs[sp.recv+".Hash"]), sp.recv, sp.nm, h.hashName)
		for i, it := range h.items {
			sep := ";"
			if i+1 == len(h.items) {
				sep = ""
			}
			fmt.Fprintf(&sb, "  %s%s\n", it, sep)
		}
		sb.WriteString("] |}.\n")
	}
	// beacon id conventions (common/beacon.go)
	common, err := cdLoadPkg(repo, "common")
	if err != nil {
		return "", err
	}
	defID, err := common.stringConst("DefaultBeaconID")
	if err != nil {
		return "", err
	}
	for name, want := range map[string]string{
		"IsDefaultBeaconID":    `return beaconID == DefaultBeaconID || beaconID == ""`,
		"GetCanonicalBeaconID": `if IsDefaultBeaconID(id) { return DefaultBeaconID }; return id`,
		"CompareBeaconIDs":     `if IsDefaultBeaconID(id1) && IsDefaultBeaconID(id2) { return true }; if id1 != id2 { return false }; return true`,
	} {
		fn := common.funcs[name]
		if fn == nil {
			return "", fmt.Errorf("T-break: common.%s not found", name)
		}
		var parts []string
		for _, s := range fn.Body.List {
			parts = append(parts, cdSrc(common.fset, s))
		}
		if got := strings.Join(parts, "; "); got != want {
			return "", common.breakf(fn, "common.%s has an unexpected body: %s", name, got)
		}
	}
	fmt.Fprintf(&sb, "(* common/beacon.go DefaultBeaconID; IsDefaultBeaconID / GetCanonicalBeaconID / CompareBeaconIDs have the recognised bodies *)\nDefinition default_beacon_id : list Z := %s.\n", cdCoqBytes(defID))
	names, def, err := cdSchemeNames(repo)
	if err != nil {
		return "", err
	}
	sb.WriteString("(* crypto/schemes.go SchemeFromName case labels; GetSchemeByID default for \"\" *)\nDefinition scheme_names : list (list Z) := [\n")
	for i, n := range names {
		sep := ";"
		if i+1 == len(names) {
			sep = ""
		}
		fmt.Fprintf(&sb, "  %s%s (* %s *)\n", cdCoqBytes(n), sep, n)
	}
	fmt.Fprintf(&sb, "].\nDefinition default_scheme_id : list Z := %s. (* %s *)\n", cdCoqBytes(def), def)
	return sb.String(), nil
}
