package extract

// Type registry of the mirror translator (mirrors.go): resolves struct types across the
// packages of the repository (and a small table of kyber structs), computes promoted fields and
// the "leaf paths" of a struct.

import (
	"fmt"
	"go/ast"
	"strconv"
	"strings"
)

const cdModule = "github.com/drand/drand/v2/"

// MirType describes a Go type as far as the translator needs it.
type MirType struct {
	Kind string   // "named" | "ptr" | "slice" | "anon"
	Elem *MirType // ptr, slice
	Name string   // named: qualified ("common/key.Group", "time.Duration", "int64", ...)
	anon *ast.StructType
	file *ast.File
	dir  string
}

func (t *MirType) String() string {
	if t == nil {
		return "?"
	}
	switch t.Kind {
	case "ptr":
		return "*" + t.Elem.String()
	case "slice":
		return "[]" + t.Elem.String()
	case "anon":
		return "struct{...}"
	}
	return t.Name
}

// Deref strips pointers.
func (t *MirType) Deref() *MirType {
	for t != nil && t.Kind == "ptr" {
		t = t.Elem
	}
	return t
}

// MirField is a field of a struct.
type MirField struct {
	Name     string
	Type     *MirType
	Embedded bool
	Tag      string
}

type mirWorld struct {
	repo string
	pkgs map[string]*cdPkg
}

func (w *mirWorld) pkg(dir string) (*cdPkg, error) {
	if p, ok := w.pkgs[dir]; ok {
		return p, nil
	}
	p, err := cdLoadPkg(w.repo, dir)
	if err != nil {
		return nil, err
	}
	w.pkgs[dir] = p
	return p, nil
}

// importsOf maps the local package names of a file to import paths.
func cdImportsOf(f *ast.File) map[string]string {
	m := map[string]string{}
	for _, im := range f.Imports {
		p, _ := strconv.Unquote(im.Path.Value)
		name := p[strings.LastIndex(p, "/")+1:]
		if im.Name != nil {
			name = im.Name.Name
		}
		m[name] = p
	}
	return m
}

var cdBuiltin = map[string]bool{"int": true, "int64": true, "int32": true, "uint32": true, "uint64": true, "string": true,
	"byte": true, "bool": true, "error": true, "uint": true, "uint8": true, "interface{}": true}

// typeOf turns a type expression of file f (package dir) into a MirType.
func (w *mirWorld) typeOf(e ast.Expr, dir string, f *ast.File) *MirType {
	switch x := e.(type) {
	case *ast.StarExpr:
		return &MirType{Kind: "ptr", Elem: w.typeOf(x.X, dir, f)}
	case *ast.ArrayType:
		return &MirType{Kind: "slice", Elem: w.typeOf(x.Elt, dir, f)}
	case *ast.Ident:
		if cdBuiltin[x.Name] {
			return &MirType{Kind: "named", Name: x.Name}
		}
		return &MirType{Kind: "named", Name: dir + "." + x.Name}
	case *ast.SelectorExpr:
		if id, ok := x.X.(*ast.Ident); ok {
			ip := cdImportsOf(f)[id.Name]
			if strings.HasPrefix(ip, cdModule) {
				return &MirType{Kind: "named", Name: strings.TrimPrefix(ip, cdModule) + "." + x.Sel.Name}
			}
			short := ip[strings.LastIndex(ip, "/")+1:]
			return &MirType{Kind: "named", Name: short + "." + x.Sel.Name}
		}
	case *ast.StructType:
		return &MirType{Kind: "anon", anon: x, file: f, dir: dir}
	case *ast.InterfaceType:
		return &MirType{Kind: "named", Name: "interface{}"}
	}
	return &MirType{Kind: "named", Name: "?"}
}

// structs of packages outside the repository that the mirrors reach into (kyber v1.3.2);
// the codec engine cross-checks them with reflect
var cdExternalStructs = map[string][][2]string{
	"dkg.DistKeyShare": {{"Commits", "[]kyber.Point"}, {"Share", "*share.PriShare"}},
	"share.PriShare":   {{"I", "int"}, {"V", "kyber.Scalar"}},
}

func cdParseExtType(s string) *MirType {
	if strings.HasPrefix(s, "*") {
		return &MirType{Kind: "ptr", Elem: cdParseExtType(s[1:])}
	}
	if strings.HasPrefix(s, "[]") {
		return &MirType{Kind: "slice", Elem: cdParseExtType(s[2:])}
	}
	return &MirType{Kind: "named", Name: s}
}

// resolve follows non-struct named types of the repository to their definition
// (type Index = dkg.Index, type HexBytes []byte, type Status uint32).
func (w *mirWorld) underlying(t *MirType) *MirType {
	for i := 0; i < 5 && t != nil && t.Kind == "named"; i++ {
		dot := strings.LastIndex(t.Name, ".")
		if dot < 0 {
			return t
		}
		dir, name := t.Name[:dot], t.Name[dot+1:]
		if !strings.Contains(dir, "/") && dir != "crypto" && dir != "common" {
			return t
		}
		p, err := w.pkg(dir)
		if err != nil {
			return t
		}
		ts := p.types[name]
		if ts == nil {
			return t
		}
		if _, ok := ts.Type.(*ast.StructType); ok {
			return t
		}
		t = w.typeOf(ts.Type, dir, p.tfile[name])
	}
	return t
}

// fields lists the exported fields of a struct type.
func (w *mirWorld) fields(t *MirType) ([]MirField, error) {
	t = t.Deref()
	var st *ast.StructType
	var f *ast.File
	var dir string
	switch t.Kind {
	case "anon":
		st, f, dir = t.anon, t.file, t.dir
	case "named":
		if ext, ok := cdExternalStructs[t.Name]; ok {
			var out []MirField
			for _, e := range ext {
				out = append(out, MirField{Name: e[0], Type: cdParseExtType(e[1])})
			}
			return out, nil
		}
		dot := strings.LastIndex(t.Name, ".")
		if dot < 0 {
			return nil, fmt.Errorf("T-break: %s is not a struct", t.Name)
		}
		dir = t.Name[:dot]
		p, err := w.pkg(dir)
		if err != nil {
			return nil, err
		}
		ts := p.types[t.Name[dot+1:]]
		if ts == nil {
			return nil, fmt.Errorf("T-break: type %s not found", t.Name)
		}
		var ok bool
		if st, ok = ts.Type.(*ast.StructType); !ok {
			return nil, fmt.Errorf("T-break: type %s is not a struct", t.Name)
		}
		f = p.tfile[t.Name[dot+1:]]
	default:
		return nil, fmt.Errorf("T-break: %s is not a struct", t)
	}
	var out []MirField
	for _, fl := range st.Fields.List {
		ft := w.typeOf(fl.Type, dir, f)
		tag := ""
		if fl.Tag != nil {
			tag, _ = strconv.Unquote(fl.Tag.Value)
		}
		if len(fl.Names) == 0 {
			n := ft.Deref().Name
			n = n[strings.LastIndex(n, ".")+1:]
			out = append(out, MirField{Name: n, Type: ft, Embedded: true, Tag: tag})
			continue
		}
		for _, id := range fl.Names {
			if !id.IsExported() {
				continue
			}
			out = append(out, MirField{Name: id.Name, Type: ft, Tag: tag})
		}
	}
	return out, nil
}

// isStruct tells whether fields() would succeed.
func (w *mirWorld) isStruct(t *MirType) bool {
	d := t.Deref()
	if d == nil {
		return false
	}
	if d.Kind == "anon" {
		return true
	}
	if d.Kind != "named" {
		return false
	}
	switch d.Name {
	case "time.Time", "crypto.Scheme":
		return false // leaves of the model
	}
	_, err := w.fields(d)
	return err == nil
}

// field resolves x.name on a value of type t, including fields promoted from embedded structs;
// returns the path of field names and the field's type.
func (w *mirWorld) field(t *MirType, name string) ([]string, *MirType, bool) {
	fs, err := w.fields(t)
	if err != nil {
		return nil, nil, false
	}
	for _, f := range fs {
		if f.Name == name {
			return []string{f.Name}, f.Type, true
		}
	}
	for _, f := range fs {
		if f.Embedded && w.isStruct(f.Type) {
			if p, ft, ok := w.field(f.Type, name); ok {
				return append([]string{f.Name}, p...), ft, true
			}
		}
	}
	return nil, nil, false
}

// leaves lists the leaf paths of a struct: its fields, descending into fields of struct type
// unless that type is one of the mirror root types (which are values of their own mirrors).
func (w *mirWorld) leaves(t *MirType, roots map[string]bool, depth int) ([][]string, error) {
	fs, err := w.fields(t)
	if err != nil {
		return nil, err
	}
	var out [][]string
	for _, f := range fs {
		d := f.Type.Deref()
		if depth < 4 && f.Type.Kind != "slice" && w.isStruct(f.Type) && !(d.Kind == "named" && roots[d.Name]) {
			sub, err := w.leaves(f.Type, roots, depth+1)
			if err != nil {
				return nil, err
			}
			for _, s := range sub {
				out = append(out, append([]string{f.Name}, s...))
			}
			continue
		}
		out = append(out, []string{f.Name})
	}
	return out, nil
}

// class is the coarse kind of a type used to select conversion primitives.
func (w *mirWorld) class(t *MirType) string {
	if t == nil {
		return "?"
	}
	s := t.String()
	switch s {
	case "time.Duration":
		return "dur"
	case "time.Time":
		return "time"
	case "kyber.Point":
		return "point"
	case "kyber.Scalar":
		return "scalar"
	case "*crypto.Scheme":
		return "scheme"
	case "[]kyber.Point":
		return "points"
	case "common.HexBytes":
		return "hexbytes"
	}
	u := w.underlying(t)
	switch u.String() {
	case "[]byte", "[]uint8":
		return "bytes"
	case "string":
		return "string"
	case "int", "int64", "int32", "uint32", "uint64", "uint":
		return "int"
	case "[][]byte":
		return "byteslist"
	case "[]string":
		return "strings"
	}
	if t.Kind == "slice" {
		return "list"
	}
	if w.isStruct(t) {
		return "struct"
	}
	return "?"
}
