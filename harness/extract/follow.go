package extract

// Translator for C10: reads the syntax trees of BeaconProcess.StartFollowChain
// (internal/core/drand_beacon_control.go) and SyncManager.tryNode
// (internal/chain/beacon/sync_manager.go) and emits coq/Gen/Follow.v: booleans saying whether the
// retry loop of follow is live (errChan made, failed attempts reported on it, the receiving branch
// continues), whether the operator's chain hash is tested before anything is stored, and whether
// tryNode verifies against the pinned key before every Put. Every shape that is not recognised is
// a T-break: the generator fails, it never guesses.

import (
	"fmt"
	"go/ast"
	"go/token"
	"strings"
)

func init() { register("Follow.v", genFollow) }

const followFile = "internal/core/drand_beacon_control.go"
const syncFile = "internal/chain/beacon/sync_manager.go"

func findMethod(pf *pkgFile, recv, name string) *ast.FuncDecl {
	for _, d := range pf.file.Decls {
		fd, ok := d.(*ast.FuncDecl)
		if !ok || fd.Name.Name != name || fd.Recv == nil || len(fd.Recv.List) != 1 {
			continue
		}
		t := fd.Recv.List[0].Type
		if st, ok := t.(*ast.StarExpr); ok {
			t = st.X
		}
		if id, ok := t.(*ast.Ident); ok && id.Name == recv {
			return fd
		}
	}
	return nil
}

func isIdent(e ast.Expr, name string) bool {
	id, ok := e.(*ast.Ident)
	return ok && id.Name == name
}

// selCall reports whether e is a call x.f(...) (x an identifier) and returns its arguments.
func selCall(e ast.Expr, x, f string) (*ast.CallExpr, bool) {
	c, ok := e.(*ast.CallExpr)
	if !ok {
		return nil, false
	}
	s, ok := c.Fun.(*ast.SelectorExpr)
	if !ok || s.Sel.Name != f {
		return nil, false
	}
	if x != "" && !isIdent(s.X, x) {
		return nil, false
	}
	return c, true
}

// containsCall: does the node contain a call whose function is a selector/identifier named f
// (receiver name recvName unless empty)?
func containsCall(n ast.Node, recvName, f string) bool {
	found := false
	ast.Inspect(n, func(x ast.Node) bool {
		c, ok := x.(*ast.CallExpr)
		if !ok {
			return true
		}
		switch fn := c.Fun.(type) {
		case *ast.SelectorExpr:
			if fn.Sel.Name == f && (recvName == "" || isIdent(fn.X, recvName)) {
				found = true
			}
		case *ast.Ident:
			if fn.Name == f && recvName == "" {
				found = true
			}
		}
		return true
	})
	return found
}

func containsJump(stmts []ast.Stmt) bool {
	found := false
	for _, s := range stmts {
		ast.Inspect(s, func(x ast.Node) bool {
			switch y := x.(type) {
			case *ast.FuncLit:
				return false
			case *ast.ReturnStmt:
				found = true
			case *ast.BranchStmt:
				if y.Tok == token.BREAK || y.Tok == token.GOTO {
					found = true
				}
			}
			return true
		})
	}
	return found
}

type followFacts struct {
	errChanMade, failedReported, retryContinues, hashPinned, usesPinnedInfo, hasAppend bool
	line                                                                               int
}

func breakf(format string, a ...interface{}) error {
	return fmt.Errorf("T-break: StartFollowChain: "+format, a...)
}

//nolint:gocyclo,funlen
func readFollow(pf *pkgFile) (*followFacts, error) {
	fd := findMethod(pf, "BeaconProcess", "StartFollowChain")
	if fd == nil || fd.Body == nil {
		return nil, breakf("method not found in %s", followFile)
	}
	ff := &followFacts{line: pf.fset.Position(fd.Pos()).Line}
	body := fd.Body.List

	// ---- errChan: made or nil ----
	defs := 0
	var loop *ast.ForStmt
	for _, s := range body {
		switch x := s.(type) {
		case *ast.AssignStmt:
			for i, l := range x.Lhs {
				if !isIdent(l, "errChan") {
					continue
				}
				defs++
				if x.Tok != token.DEFINE || i >= len(x.Rhs) {
					return nil, breakf("errChan is assigned in an unknown way (line %d)", pf.fset.Position(x.Pos()).Line)
				}
				c, ok := x.Rhs[i].(*ast.CallExpr)
				if !ok || !isIdent(c.Fun, "make") || len(c.Args) < 1 {
					return nil, breakf("errChan := <not a make call> (line %d)", pf.fset.Position(x.Pos()).Line)
				}
				if _, ok := c.Args[0].(*ast.ChanType); !ok {
					return nil, breakf("errChan := make(<not a channel type>)")
				}
				ff.errChanMade = true
			}
		case *ast.DeclStmt:
			gd, ok := x.Decl.(*ast.GenDecl)
			if !ok || gd.Tok != token.VAR {
				continue
			}
			for _, sp := range gd.Specs {
				vs := sp.(*ast.ValueSpec)
				for i, n := range vs.Names {
					if n.Name != "errChan" {
						continue
					}
					defs++
					if len(vs.Values) == 0 {
						ff.errChanMade = false // var errChan chan error: a nil channel
						continue
					}
					c, ok := vs.Values[i].(*ast.CallExpr)
					if !ok || !isIdent(c.Fun, "make") {
						return nil, breakf("var errChan = <not a make call>")
					}
					ff.errChanMade = true
				}
			}
		case *ast.ForStmt:
			if x.Cond == nil && x.Init == nil && x.Post == nil && containsCall(x, "syncer", "Sync") {
				if loop != nil {
					return nil, breakf("more than one retry loop")
				}
				loop = x
			}
		}
	}
	if defs != 1 {
		return nil, breakf("expected exactly one definition of errChan at the top level of the function, found %d", defs)
	}
	if loop == nil {
		return nil, breakf("the `for { ... syncer.Sync ... }` retry loop was not found")
	}

	// ---- the goroutine that runs Sync: does it report failures on errChan? ----
	var goBody []ast.Stmt
	var sel *ast.SelectStmt
	for _, s := range loop.Body.List {
		switch x := s.(type) {
		case *ast.GoStmt:
			fl, ok := x.Call.Fun.(*ast.FuncLit)
			if ok && containsCall(fl, "syncer", "Sync") {
				if goBody != nil {
					return nil, breakf("more than one goroutine calls syncer.Sync")
				}
				goBody = fl.Body.List
			}
		case *ast.SelectStmt:
			if sel != nil {
				return nil, breakf("more than one select in the retry loop")
			}
			sel = x
		}
	}
	if goBody == nil || sel == nil {
		return nil, breakf("retry loop without `go func() { ... syncer.Sync ... }()` or without select")
	}
	if len(goBody) != 1 {
		return nil, breakf("the Sync goroutine has %d statements, expected 1", len(goBody))
	}
	switch x := goBody[0].(type) {
	case *ast.SendStmt: // errChan <- syncer.Sync(...)
		if _, ok := selCall(x.Value, "syncer", "Sync"); !ok || !isIdent(x.Chan, "errChan") {
			return nil, breakf("unknown send statement in the Sync goroutine")
		}
		ff.failedReported = true
	case *ast.IfStmt: // if err := syncer.Sync(...); err != nil { errChan <- err }
		as, ok := x.Init.(*ast.AssignStmt)
		if !ok || len(as.Lhs) != 1 || len(as.Rhs) != 1 || !isIdent(as.Lhs[0], "err") {
			return nil, breakf("unknown if-statement in the Sync goroutine")
		}
		if _, ok := selCall(as.Rhs[0], "syncer", "Sync"); !ok {
			return nil, breakf("the if-statement of the Sync goroutine does not call syncer.Sync")
		}
		be, ok := x.Cond.(*ast.BinaryExpr)
		if !ok || be.Op != token.NEQ || !isIdent(be.X, "err") || !isIdent(be.Y, "nil") || x.Else != nil {
			return nil, breakf("the Sync goroutine tests something else than err != nil")
		}
		sent := false
		for _, s := range x.Body.List {
			if ss, ok := s.(*ast.SendStmt); ok && isIdent(ss.Chan, "errChan") && isIdent(ss.Value, "err") {
				sent = true
			}
		}
		if containsJump(x.Body.List) && !sent {
			return nil, breakf("the failure branch of the Sync goroutine leaves without reporting")
		}
		ff.failedReported = sent
	case *ast.ExprStmt: // syncer.Sync(...) with the result dropped
		if _, ok := selCall(x.X, "syncer", "Sync"); !ok {
			return nil, breakf("unknown statement in the Sync goroutine")
		}
		ff.failedReported = false
	case *ast.AssignStmt: // _ = syncer.Sync(...)
		if len(x.Lhs) == 1 && len(x.Rhs) == 1 && isIdent(x.Lhs[0], "_") {
			if _, ok := selCall(x.Rhs[0], "syncer", "Sync"); ok {
				ff.failedReported = false
				break
			}
		}
		return nil, breakf("unknown assignment in the Sync goroutine")
	default:
		return nil, breakf("unknown statement %T in the Sync goroutine", x)
	}

	// ---- case <-errChan: ... continue ----
	var errClause *ast.CommClause
	for _, s := range sel.Body.List {
		cc := s.(*ast.CommClause)
		var recv ast.Expr
		switch c := cc.Comm.(type) {
		case *ast.ExprStmt:
			recv = c.X
		case *ast.AssignStmt:
			if len(c.Rhs) == 1 {
				recv = c.Rhs[0]
			}
		}
		if u, ok := recv.(*ast.UnaryExpr); ok && u.Op == token.ARROW && isIdent(u.X, "errChan") {
			if errClause != nil {
				return nil, breakf("two select branches receive from errChan")
			}
			errClause = cc
		}
	}
	switch {
	case errClause == nil:
		ff.retryContinues = false // nothing listens to failures
	case len(errClause.Body) == 0:
		// falling out of the select goes round the for loop again only if nothing follows it
		if loop.Body.List[len(loop.Body.List)-1] != ast.Stmt(sel) {
			return nil, breakf("the errChan branch is empty and statements follow the select")
		}
		ff.retryContinues = true
	default:
		last := errClause.Body[len(errClause.Body)-1]
		br, isBranch := last.(*ast.BranchStmt)
		switch {
		case containsJump(errClause.Body):
			ff.retryContinues = false // returns or breaks on (some) failures
		case isBranch && br.Tok == token.CONTINUE && br.Label == nil:
			ff.retryContinues = true
		default:
			return nil, breakf("the errChan branch neither returns nor ends with continue")
		}
	}

	// ---- the operator's hash is tested against the fetched information before any store op ----
	pinAt, firstStore, infoAt, hashAt := -1, -1, -1, -1
	for i, s := range body {
		if as, ok := s.(*ast.AssignStmt); ok && len(as.Rhs) == 1 {
			if len(as.Lhs) >= 1 && isIdent(as.Lhs[0], "info") {
				if _, ok := selCall(as.Rhs[0], "bp", "chainInfoFromPeers"); !ok || infoAt >= 0 {
					return nil, breakf("info is assigned from something else than bp.chainInfoFromPeers (line %d)", pf.fset.Position(as.Pos()).Line)
				}
				infoAt = i
			}
			if len(as.Lhs) == 1 && isIdent(as.Lhs[0], "hash") {
				// req.GetMetadata().GetChainHash()
				c, ok := selCall(as.Rhs[0], "", "GetChainHash")
				if !ok || hashAt >= 0 {
					return nil, breakf("hash is not req.GetMetadata().GetChainHash()")
				}
				inner, ok := selCall(c.Fun.(*ast.SelectorExpr).X, "req", "GetMetadata")
				if !ok || inner == nil {
					return nil, breakf("hash is not read from the request metadata")
				}
				hashAt = i
			}
		}
		if is, ok := s.(*ast.IfStmt); ok && is.Init == nil && pinAt < 0 {
			if u, ok := is.Cond.(*ast.UnaryExpr); ok && u.Op == token.NOT {
				if c, ok := selCall(u.X, "bytes", "Equal"); ok && len(c.Args) == 2 {
					isInfoHash := func(e ast.Expr) bool { _, ok := selCall(e, "info", "Hash"); return ok }
					if (isInfoHash(c.Args[0]) && isIdent(c.Args[1], "hash")) || (isInfoHash(c.Args[1]) && isIdent(c.Args[0], "hash")) {
						n := len(is.Body.List)
						if n == 0 || is.Else != nil {
							return nil, breakf("the hash test does not return")
						}
						rs, ok := is.Body.List[n-1].(*ast.ReturnStmt)
						if !ok || len(rs.Results) != 1 || isIdent(rs.Results[0], "nil") {
							return nil, breakf("the hash test does not return an error")
						}
						pinAt = i
					}
				}
			}
		}
		if firstStore < 0 {
			for _, f := range []string{"createDBStore", "Put", "NewSyncManager", "NewSchemeStore", "NewCallbackStore"} {
				if containsCall(s, "", f) {
					firstStore = i
				}
			}
			if containsCall(s, "syncer", "Sync") {
				firstStore = i
			}
		}
	}
	if infoAt < 0 || hashAt < 0 {
		return nil, breakf("assignments of info / hash not found")
	}
	if firstStore < 0 {
		return nil, breakf("no store operation found at the top level of the function")
	}
	// info and hash must not be re-assigned after the test
	if pinAt >= 0 {
		for _, s := range body[pinAt+1:] {
			reassigned := false
			ast.Inspect(s, func(x ast.Node) bool {
				if as, ok := x.(*ast.AssignStmt); ok {
					for _, l := range as.Lhs {
						if isIdent(l, "info") || isIdent(l, "hash") {
							reassigned = true
						}
					}
				}
				return true
			})
			if reassigned {
				return nil, breakf("info or hash is re-assigned after the hash test")
			}
		}
	}
	ff.hashPinned = pinAt >= 0 && infoAt < pinAt && hashAt < pinAt && pinAt < firstStore

	// ---- the store stack: callback(append(scheme(base))) or callback(scheme(base)) ----
	schemeVar, appendVar, appendArg, cbArg := "", "", "", ""
	for _, s := range body {
		as, ok := s.(*ast.AssignStmt)
		if !ok || len(as.Rhs) != 1 || len(as.Lhs) < 1 {
			continue
		}
		lhs, _ := as.Lhs[0].(*ast.Ident)
		if c, ok := selCall(as.Rhs[0], "beacon", "NewSchemeStore"); ok && lhs != nil && len(c.Args) == 3 {
			if schemeVar != "" {
				return nil, breakf("two NewSchemeStore calls")
			}
			schemeVar = lhs.Name
		}
		if c, ok := selCall(as.Rhs[0], "beacon", "NewAppendStore"); ok && lhs != nil && len(c.Args) == 2 {
			id, isID := c.Args[1].(*ast.Ident)
			if appendVar != "" || !isID {
				return nil, breakf("unknown NewAppendStore call")
			}
			appendVar, appendArg = lhs.Name, id.Name
		}
		if c, ok := selCall(as.Rhs[0], "beacon", "NewCallbackStore"); ok && len(c.Args) == 2 {
			id, isID := c.Args[1].(*ast.Ident)
			if cbArg != "" || !isID {
				return nil, breakf("unknown NewCallbackStore call")
			}
			cbArg = id.Name
		}
	}
	switch {
	case schemeVar == "" || cbArg == "":
		return nil, breakf("NewSchemeStore / NewCallbackStore not found at the top level of the function")
	case appendVar != "" && appendArg == schemeVar && cbArg == appendVar:
		ff.hasAppend = true
	case appendVar == "" && cbArg == schemeVar:
		ff.hasAppend = false
	default:
		return nil, breakf("the store stack is neither callback(append(scheme(..))) nor callback(scheme(..))")
	}

	// ---- the SyncManager gets that very info ----
	found := false
	var bad error
	ast.Inspect(fd.Body, func(x ast.Node) bool {
		cl, ok := x.(*ast.CompositeLit)
		if !ok {
			return true
		}
		s, ok := cl.Type.(*ast.SelectorExpr)
		if !ok || s.Sel.Name != "SyncConfig" {
			return true
		}
		if found {
			bad = breakf("more than one SyncConfig literal")
		}
		found = true
		for _, e := range cl.Elts {
			kv, ok := e.(*ast.KeyValueExpr)
			if ok && isIdent(kv.Key, "Info") {
				ff.usesPinnedInfo = isIdent(kv.Value, "info")
			}
		}
		return true
	})
	if bad != nil {
		return nil, bad
	}
	if !found {
		return nil, breakf("beacon.SyncConfig literal not found")
	}
	return ff, nil
}

type tryNodeFacts struct {
	verifyPinnedKey, verifyBeforePut bool
	line                             int
}

// readTryNode: in tryNode's receive loop, s.scheme.VerifyBeacon(beacon, s.info.PublicKey) with a
// returning failure branch must textually precede every Put.
func readTryNode(pf *pkgFile) (*tryNodeFacts, error) {
	fd := findMethod(pf, "SyncManager", "tryNode")
	if fd == nil || fd.Body == nil {
		return nil, fmt.Errorf("T-break: tryNode: method not found in %s", syncFile)
	}
	tf := &tryNodeFacts{line: pf.fset.Position(fd.Pos()).Line}
	var verifyPos token.Pos
	nVerify := 0
	var puts []token.Pos
	var bad error
	ast.Inspect(fd.Body, func(x ast.Node) bool {
		switch y := x.(type) {
		case *ast.IfStmt:
			as, ok := y.Init.(*ast.AssignStmt)
			if !ok || len(as.Rhs) != 1 {
				return true
			}
			c, ok := selCall(as.Rhs[0], "", "VerifyBeacon")
			if !ok {
				return true
			}
			nVerify++
			verifyPos = y.Pos()
			if len(c.Args) != 2 {
				bad = fmt.Errorf("T-break: tryNode: VerifyBeacon with %d arguments", len(c.Args))
				return true
			}
			// s.info.PublicKey
			if s1, ok := c.Args[1].(*ast.SelectorExpr); ok && s1.Sel.Name == "PublicKey" {
				if s2, ok := s1.X.(*ast.SelectorExpr); ok && s2.Sel.Name == "info" && isIdent(s2.X, "s") {
					tf.verifyPinnedKey = true
				}
			}
			be, ok := y.Cond.(*ast.BinaryExpr)
			n := len(y.Body.List)
			if !ok || be.Op != token.NEQ || !isIdent(be.Y, "nil") || n == 0 {
				bad = fmt.Errorf("T-break: tryNode: the VerifyBeacon test is not `err != nil { ... return }`")
				return true
			}
			if rs, ok := y.Body.List[n-1].(*ast.ReturnStmt); !ok || len(rs.Results) != 1 || !isIdent(rs.Results[0], "false") {
				bad = fmt.Errorf("T-break: tryNode: a failed verification does not `return false`")
			}
		case *ast.CallExpr:
			if s, ok := y.Fun.(*ast.SelectorExpr); ok && s.Sel.Name == "Put" {
				puts = append(puts, y.Pos())
			}
		}
		return true
	})
	if bad != nil {
		return nil, bad
	}
	if nVerify > 1 {
		return nil, fmt.Errorf("T-break: tryNode: %d VerifyBeacon tests", nVerify)
	}
	if len(puts) == 0 {
		return nil, fmt.Errorf("T-break: tryNode: no Put call found")
	}
	tf.verifyBeforePut = nVerify == 1
	for _, p := range puts {
		if nVerify != 1 || p < verifyPos {
			tf.verifyBeforePut = false
		}
	}
	if nVerify == 0 {
		tf.verifyPinnedKey = false
	}
	return tf, nil
}

func coqBool(b bool) string {
	if b {
		return "true"
	}
	return "false"
}

func genFollow(repo string) (string, error) {
	pf, err := parseFile(repo, followFile)
	if err != nil {
		return "", err
	}
	ff, err := readFollow(pf)
	if err != nil {
		return "", err
	}
	ps, err := parseFile(repo, syncFile)
	if err != nil {
		return "", err
	}
	tf, err := readTryNode(ps)
	if err != nil {
		return "", err
	}
	var sb strings.Builder
	sb.WriteString("(* GENERATED by zzv extract from the Go sources; do not edit. *)\n")
	fmt.Fprintf(&sb, "(* %s:%d BeaconProcess.StartFollowChain *)\n", followFile, ff.line)
	fmt.Fprintf(&sb, "(* errChan is initialised by a make(chan ...) call (not a nil channel variable) *)\nDefinition err_chan_is_made : bool := %s.\n", coqBool(ff.errChanMade))
	fmt.Fprintf(&sb, "(* the goroutine running syncer.Sync sends on errChan when Sync returns a non-nil error *)\nDefinition failed_sync_is_reported : bool := %s.\n", coqBool(ff.failedReported))
	fmt.Fprintf(&sb, "(* the `case <-errChan` branch of the select ends with continue and never leaves the loop *)\nDefinition retry_branch_continues : bool := %s.\n", coqBool(ff.retryContinues))
	fmt.Fprintf(&sb, "(* `if !bytes.Equal(info.Hash(), hash) { return err }`, with info from chainInfoFromPeers and hash from the request metadata, precedes createDBStore / Put / NewSyncManager *)\nDefinition hash_pinned_before_store : bool := %s.\n", coqBool(ff.hashPinned))
	fmt.Fprintf(&sb, "(* the store given to the SyncManager is NewCallbackStore(NewAppendStore(NewSchemeStore(store))) *)\nDefinition follow_stack_has_append_store : bool := %s.\n", coqBool(ff.hasAppend))
	fmt.Fprintf(&sb, "(* the SyncManager of follow is configured with that same info *)\nDefinition sync_uses_pinned_info : bool := %s.\n", coqBool(ff.usesPinnedInfo))
	fmt.Fprintf(&sb, "(* %s:%d SyncManager.tryNode *)\n", syncFile, tf.line)
	fmt.Fprintf(&sb, "(* the one VerifyBeacon call takes s.info.PublicKey *)\nDefinition try_node_verifies_pinned_key : bool := %s.\n", coqBool(tf.verifyPinnedKey))
	fmt.Fprintf(&sb, "(* that test (failure => return false) textually precedes every Put call of tryNode *)\nDefinition try_node_verifies_before_put : bool := %s.\n", coqBool(tf.verifyBeforePut))
	return sb.String(), nil
}
