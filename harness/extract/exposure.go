package extract

// Exposure table for C15 (Gen/Exposure.v).
//
// For every output constructor in the handler files listed in `exposureFiles` — protobuf message
// literals (responses, packets), values returned by handlers, values passed to stream.Send,
// field assignments on such values, and every log call — this generator records, per field, the
// roots of the data that flows into it:
//
//	SPub path      public field of the node state (receiver / store containers)
//	SConst         literal, package-level constant, clock, fresh randomness
//	SReq path      a function input of public type (request, packet, ...)
//	SCrypto op a   result of sign / partial_sign / pk_of / commit over secrets
//	SSec path      rooted at a secret scalar / share, or a whole container that holds one
//
// It is a small syntactic taint analysis (go/parser only, no go/types): types of struct fields,
// parameters and results are read from the declarations of the parsed packages; calls into parsed
// packages are analysed through the callee's body; other calls propagate the roots of their
// arguments. Any shape it cannot classify is a T-break (the generator fails), never a guess.

import (
	"fmt"
	"go/ast"
	"go/parser"
	"go/token"
	"os"
	"path/filepath"
	"sort"
	"strings"
)

func init() { register("Exposure.v", genExposure) }

const xDrandMod = "github.com/drand/drand/v2/"

// packages parsed (directory relative to the repo root)
var exposurePkgs = []string{
	"internal/core", "internal/dkg", "internal/chain/beacon", "common/key", "crypto/vault",
}

// files whose outputs are tabulated
var exposureFiles = []string{
	"internal/core/drand_beacon.go",
	"internal/core/drand_beacon_control.go",
	"internal/core/drand_beacon_public.go",
	"internal/core/drand_daemon_dkg_proxy.go",
	"internal/dkg/actions_active.go",
	"internal/dkg/actions_passive.go",
	"internal/dkg/actions_signing.go",
	"internal/dkg/execution.go",
	"internal/dkg/broadcast.go",
	"internal/chain/beacon/node.go",
}

// value types that ARE secrets
var xSecretTypes = map[string]bool{
	"github.com/drand/kyber.Scalar":        true,
	"github.com/drand/kyber/share.PriPoly": true,
}

// external struct types that hold a secret, with their fields ("" = public)
var xExternalStructs = map[string]map[string]string{
	"github.com/drand/kyber/share.PriShare":         {"I": "", "V": "github.com/drand/kyber.Scalar"},
	"github.com/drand/kyber/share/dkg.DistKeyShare": {"Commits": "", "Share": "github.com/drand/kyber/share.PriShare"},
	// the configuration of a kyber DKG run: holds the node's long-term private key and, when
	// resharing, its current share
	"github.com/drand/kyber/share/dkg.Config": {"Longterm": "github.com/drand/kyber.Scalar", "Share": "github.com/drand/kyber/share/dkg.DistKeyShare",
		"Suite": "", "OldNodes": "", "PublicCoeffs": "", "NewNodes": "", "Threshold": "", "OldThreshold": "", "Reader": "",
		"UserReaderOnly": "", "FastSync": "", "Nonce": "", "Auth": "", "Log": ""},
}

// external functions that take a secret-holding container and whose results do not depend on the
// secrets in it (read in kyber v1.3.2: VerifyPacketSignature uses the node lists and the nonce only)
var xOpaqueSafe = map[string]bool{
	"github.com/drand/kyber/share/dkg.VerifyPacketSignature": true,
	// NewProtocol's results: the protocol object (its outputs are the encrypted deals / responses, kyber's
	// business) and configuration-validation errors that quote no key material
	"github.com/drand/kyber/share/dkg.NewProtocol": true,
}

// interface types through which secrets are reached, with the result type of their methods
// ("" = public result)
var xInterfaces = map[string]map[string]string{
	xDrandMod + "common/key.Store": {
		"LoadKeyPair": xDrandMod + "common/key.Pair", "LoadShare": xDrandMod + "common/key.Share",
		"LoadGroup": "", "SaveKeyPair": "", "SaveShare": "", "SaveGroup": "", "Reset": "", "TestWrite": "",
	},
	xDrandMod + "internal/dkg.Store": {
		"GetCurrent": xDrandMod + "internal/dkg.DBState", "GetFinished": xDrandMod + "internal/dkg.DBState",
		"SaveCurrent": "", "SaveFinished": "", "Close": "", "MigrateFromGroupfile": "",
	},
	xDrandMod + "internal/dkg.BeaconIdentifier": {
		"KeypairFor": xDrandMod + "common/key.Pair",
	},
}

var xLogNames = map[string]bool{
	"Debugw": true, "Infow": true, "Warnw": true, "Errorw": true, "Fatalw": true, "Panicw": true,
	"Debug": true, "Info": true, "Warn": true, "Error": true, "Fatal": true, "Panic": true,
}

var xBuiltins = map[string]bool{
	"len": true, "cap": true, "make": true, "new": true, "append": true, "copy": true, "min": true, "max": true,
	"string": true, "int": true, "int8": true, "int16": true, "int32": true, "int64": true, "uint": true, "uint8": true,
	"uint16": true, "uint32": true, "uint64": true, "float32": true, "float64": true, "byte": true, "rune": true,
	"bool": true, "panic": true, "recover": true, "close": true, "delete": true, "error": true, "any": true,
	"nil": true, "true": true, "false": true, "iota": true, "uintptr": true, "complex128": true,
}

type xroot struct {
	kind string // Pub Const Req Crypto Sec Unknown
	op   string
	path []string
	what string
}

func (r xroot) key() string {
	return r.kind + "|" + r.op + "|" + strings.Join(r.path, ".") + "|" + r.what
}

type xtv struct {
	typ   string // full type name when the value is of a secret / parsed-struct / interface type
	roots []xroot
	path  []string
}

type xfile struct {
	rel     string
	f       *ast.File
	imports map[string]string // alias -> import path
	pkg     *xpkg
}

type xstruct struct {
	file     *xfile
	fields   map[string]string // field -> normalised type ("" public)
	embedded []string          // normalised types of embedded fields
}

type xpkg struct {
	dir, ipath string
	files      []*xfile
	funcs      map[string]*ast.FuncDecl // "Name" or "Type.Name"
	funcFile   map[*ast.FuncDecl]*xfile
	structs    map[string]*xstruct
	top        map[string]bool
}

type xworld struct {
	fset    *token.FileSet
	pkgs    map[string]*xpkg // by import path
	tainted map[string]bool  // full struct type name -> holds a secret (transitively)
	depth   int
	stack   map[string]bool
	unknown []string
	unkSeen map[string]bool
	sumMemo map[string][]xtv
}

func xLastElem(p string) string {
	if i := strings.LastIndex(p, "/"); i >= 0 {
		return p[i+1:]
	}
	return p
}

func (w *xworld) load(repo string) error {
	w.fset = token.NewFileSet()
	w.pkgs = map[string]*xpkg{}
	for _, dir := range exposurePkgs {
		ents, err := os.ReadDir(filepath.Join(repo, dir))
		if err != nil {
			return fmt.Errorf("T-break: exposure: cannot read %s: %w", dir, err)
		}
		p := &xpkg{dir: dir, ipath: xDrandMod + dir, funcs: map[string]*ast.FuncDecl{}, funcFile: map[*ast.FuncDecl]*xfile{},
			structs: map[string]*xstruct{}, top: map[string]bool{}}
		for _, e := range ents {
			n := e.Name()
			if e.IsDir() || !strings.HasSuffix(n, ".go") || strings.HasSuffix(n, "_test.go") || strings.HasPrefix(n, "verif_export") {
				continue
			}
			f, err := parser.ParseFile(w.fset, filepath.Join(repo, dir, n), nil, 0)
			if err != nil {
				return fmt.Errorf("T-break: exposure: parse %s/%s: %w", dir, n, err)
			}
			xf := &xfile{rel: dir + "/" + n, f: f, imports: map[string]string{}, pkg: p}
			for _, im := range f.Imports {
				ip := strings.Trim(im.Path.Value, "\"")
				alias := xLastElem(ip)
				if strings.HasPrefix(alias, "v") && len(alias) <= 3 { // .../v2
					alias = xLastElem(strings.TrimSuffix(ip, "/"+alias))
				}
				if im.Name != nil {
					alias = im.Name.Name
				}
				xf.imports[alias] = ip
			}
			p.files = append(p.files, xf)
		}
		w.pkgs[p.ipath] = p
	}
	// declarations
	for _, p := range w.pkgs {
		for _, xf := range p.files {
			for _, d := range xf.f.Decls {
				switch x := d.(type) {
				case *ast.FuncDecl:
					name := x.Name.Name
					if x.Recv != nil && len(x.Recv.List) == 1 {
						name = xBaseTypeName(x.Recv.List[0].Type) + "." + name
					} else {
						p.top[name] = true
					}
					p.funcs[name] = x
					p.funcFile[x] = xf
				case *ast.GenDecl:
					for _, s := range x.Specs {
						switch sp := s.(type) {
						case *ast.TypeSpec:
							p.top[sp.Name.Name] = true
							if st, ok := sp.Type.(*ast.StructType); ok {
								xs := &xstruct{file: xf, fields: map[string]string{}}
								for _, fl := range st.Fields.List {
									t := w.normType(xf, fl.Type)
									if len(fl.Names) == 0 {
										xs.embedded = append(xs.embedded, t)
										xs.fields[xBaseTypeName(fl.Type)] = t
									}
									for _, n := range fl.Names {
										xs.fields[n.Name] = t
									}
								}
								p.structs[sp.Name.Name] = xs
							}
						case *ast.ValueSpec:
							for _, n := range sp.Names {
								p.top[n.Name] = true
							}
						}
					}
				}
			}
		}
	}
	// which structs hold a secret (fixpoint)
	w.tainted = map[string]bool{}
	for changed := true; changed; {
		changed = false
		for _, p := range w.pkgs {
			for name, xs := range p.structs {
				full := p.ipath + "." + name
				if w.tainted[full] {
					continue
				}
				for _, t := range xs.fields {
					if w.holdsSecret(t) {
						w.tainted[full] = true
						changed = true
						break
					}
				}
			}
		}
	}
	return nil
}

func xBaseTypeName(e ast.Expr) string {
	switch x := e.(type) {
	case *ast.StarExpr:
		return xBaseTypeName(x.X)
	case *ast.Ident:
		return x.Name
	case *ast.SelectorExpr:
		return x.Sel.Name
	case *ast.IndexExpr:
		return xBaseTypeName(x.X)
	case *ast.ParenExpr:
		return xBaseTypeName(x.X)
	}
	return ""
}

// normType gives the full name of the (element) type, or "" for types that cannot hold a secret
// as far as this analysis is concerned (basic types, funcs, external types not in the tables).
func (w *xworld) normType(xf *xfile, e ast.Expr) string {
	switch x := e.(type) {
	case nil:
		return ""
	case *ast.StarExpr:
		return w.normType(xf, x.X)
	case *ast.ParenExpr:
		return w.normType(xf, x.X)
	case *ast.ArrayType:
		return w.normType(xf, x.Elt)
	case *ast.Ellipsis:
		return w.normType(xf, x.Elt)
	case *ast.MapType:
		return w.normType(xf, x.Value)
	case *ast.ChanType:
		return w.normType(xf, x.Value)
	case *ast.IndexExpr: // generic instantiation: look at the argument
		return w.normType(xf, x.Index)
	case *ast.Ident:
		if xBuiltins[x.Name] {
			return ""
		}
		return xf.pkg.ipath + "." + x.Name
	case *ast.SelectorExpr:
		if id, ok := x.X.(*ast.Ident); ok {
			if ip, ok := xf.imports[id.Name]; ok {
				return ip + "." + x.Sel.Name
			}
		}
		return ""
	}
	return "" // func types, interface literals, struct literals
}

func (w *xworld) structOf(full string) *xstruct {
	i := strings.LastIndex(full, ".")
	if i < 0 {
		return nil
	}
	if p := w.pkgs[full[:i]]; p != nil {
		return p.structs[full[i+1:]]
	}
	return nil
}

// holdsSecret: a value of this type is, or may contain, a secret
func (w *xworld) holdsSecret(t string) bool {
	if t == "" {
		return false
	}
	if xSecretTypes[t] || xExternalStructs[t] != nil || xInterfaces[t] != nil {
		return true
	}
	return w.tainted[t]
}

// known: the analysis can look inside values of this type
func (w *xworld) knownType(t string) bool {
	return t != "" && (xSecretTypes[t] || xExternalStructs[t] != nil || xInterfaces[t] != nil || w.structOf(t) != nil)
}

// ---------------------------------------------------------------------------------------------

type xdef struct {
	expr ast.Expr
	idx  int    // result index for multi-value definitions
	kind string // "", "elem" (range value / receive / index), "typ" (declared type only)
	typ  string
}

type xenv struct {
	w        *xworld
	xf       *xfile
	fd       *ast.FuncDecl
	recvName string
	params   map[string]xtv
	defs     map[string][]xdef
	vals     map[string]xtv
	label    string
}

func xTvKey(t xtv) string {
	ks := make([]string, len(t.roots))
	for i, r := range t.roots {
		ks[i] = r.key()
	}
	sort.Strings(ks)
	return t.typ + "{" + strings.Join(t.path, ".") + "}[" + strings.Join(ks, ";") + "]"
}

func xJoinTV(a, b xtv) xtv {
	r := xtv{typ: a.typ, path: a.path}
	if r.typ == "" {
		r.typ = b.typ
		if len(r.path) == 0 {
			r.path = b.path
		}
	}
	seen := map[string]bool{}
	for _, x := range append(append([]xroot{}, a.roots...), b.roots...) {
		if !seen[x.key()] {
			seen[x.key()] = true
			r.roots = append(r.roots, x)
		}
	}
	return r
}

func (w *xworld) newEnv(xf *xfile, fd *ast.FuncDecl, symbolic bool) *xenv {
	env := &xenv{w: w, xf: xf, fd: fd, params: map[string]xtv{}, defs: map[string][]xdef{}}
	env.label = xLastElem(xf.pkg.dir) + "." + fd.Name.Name
	if fd.Recv != nil && len(fd.Recv.List) == 1 {
		rt := w.normType(xf, fd.Recv.List[0].Type)
		env.label = xLastElem(xf.pkg.dir) + "." + xBaseTypeName(fd.Recv.List[0].Type) + "." + fd.Name.Name
		if len(fd.Recv.List[0].Names) == 1 {
			env.recvName = fd.Recv.List[0].Names[0].Name
			tv := xtv{typ: rt, path: []string{env.recvName}}
			if !w.knownType(rt) {
				tv.typ = ""
			}
			if !w.holdsSecret(rt) {
				if symbolic {
					tv.roots = []xroot{{kind: "Arg", op: "recv"}}
				} else {
					tv.roots = []xroot{{kind: "Pub", path: []string{env.recvName}}}
				}
			}
			env.params[env.recvName] = tv
		}
	}
	i := 0
	if fd.Type.Params != nil {
		for _, f := range fd.Type.Params.List {
			t := w.normType(xf, f.Type)
			for _, n := range f.Names {
				tv := env.paramTV(n.Name, t, f.Type)
				if symbolic && !w.holdsSecret(t) {
					tv.roots = []xroot{{kind: "Arg", op: fmt.Sprint(i)}}
				}
				env.params[n.Name] = tv
				i++
			}
			if len(f.Names) == 0 {
				i++
			}
		}
	}
	if fd.Type.Results != nil {
		for _, f := range fd.Type.Results.List {
			for _, n := range f.Names {
				env.defs[n.Name] = append(env.defs[n.Name], xdef{kind: "typ", typ: w.normType(xf, f.Type)})
			}
		}
	}
	if fd.Body != nil {
		env.collect(fd.Body)
	}
	env.solve()
	return env
}

func (env *xenv) paramTV(name, t string, te ast.Expr) xtv {
	if env.w.knownType(t) {
		if env.w.holdsSecret(t) {
			return xtv{typ: t, path: []string{name}}
		}
		return xtv{typ: t, path: []string{name}, roots: []xroot{{kind: "Req", path: []string{name}}}}
	}
	if sel, ok := te.(*ast.SelectorExpr); ok && sel.Sel.Name == "Context" {
		return xtv{roots: []xroot{{kind: "Const"}}}
	}
	return xtv{roots: []xroot{{kind: "Req", path: []string{name}}}}
}

// collect gathers every definition of every local identifier (closures included; shadowing is
// ignored: the roots of all definitions of a name are joined)
func (env *xenv) collect(body ast.Node) {
	add := func(name string, d xdef) {
		if name == "_" || name == "" {
			return
		}
		env.defs[name] = append(env.defs[name], d)
	}
	ast.Inspect(body, func(n ast.Node) bool {
		switch x := n.(type) {
		case *ast.AssignStmt:
			if len(x.Rhs) == 1 && len(x.Lhs) > 1 {
				for i, l := range x.Lhs {
					if id, ok := l.(*ast.Ident); ok {
						add(id.Name, xdef{expr: x.Rhs[0], idx: i})
					} else if root := xRootIdent(l); root != "" {
						add(root, xdef{expr: x.Rhs[0], idx: i})
					}
				}
			} else {
				for i, l := range x.Lhs {
					if i >= len(x.Rhs) {
						break
					}
					if id, ok := l.(*ast.Ident); ok {
						add(id.Name, xdef{expr: x.Rhs[i]})
					} else if root := xRootIdent(l); root != "" && root != env.recvName {
						// x.F = e, x[i] = e: the value flows into x
						add(root, xdef{expr: x.Rhs[i]})
					}
				}
			}
		case *ast.ValueSpec:
			t := env.w.normType(env.xf, x.Type)
			for i, id := range x.Names {
				if len(x.Values) == len(x.Names) {
					add(id.Name, xdef{expr: x.Values[i]})
				} else if len(x.Values) == 1 {
					add(id.Name, xdef{expr: x.Values[0], idx: i})
				} else {
					add(id.Name, xdef{kind: "typ", typ: t})
				}
				if x.Type != nil && env.w.knownType(t) {
					add(id.Name, xdef{kind: "typ", typ: t})
				}
			}
		case *ast.RangeStmt:
			if id, ok := x.Key.(*ast.Ident); ok && x.Tok == token.DEFINE {
				add(id.Name, xdef{expr: x.X, kind: "key"})
			}
			if id, ok := x.Value.(*ast.Ident); ok && x.Tok == token.DEFINE {
				add(id.Name, xdef{expr: x.X, kind: "elem"})
			}
		case *ast.TypeSwitchStmt:
			if as, ok := x.Assign.(*ast.AssignStmt); ok && len(as.Lhs) == 1 && len(as.Rhs) == 1 {
				if id, ok := as.Lhs[0].(*ast.Ident); ok {
					if ta, ok := as.Rhs[0].(*ast.TypeAssertExpr); ok {
						add(id.Name, xdef{expr: ta.X})
					}
				}
			}
		case *ast.CallExpr:
			// writer-like calls put data into a local variable without an assignment:
			//   buf.Write(x), h.WriteString(s), enc.Encode(v)      args -> receiver
			//   binary.Write(h, order, x), fmt.Fprintf(w, ...), copy(dst, src)   other args -> first arg
			//   k.MarshalTo(h), x.WriteTo(w)                       receiver -> argument
			localIdent := func(a ast.Expr) string {
				if u, ok := a.(*ast.UnaryExpr); ok && u.Op == token.AND {
					a = u.X
				}
				if sl, ok := a.(*ast.SliceExpr); ok {
					a = sl.X
				}
				if id, ok := a.(*ast.Ident); ok && id.Name != env.recvName && !xBuiltins[id.Name] {
					if _, isPkg := env.xf.imports[id.Name]; !isPkg {
						return id.Name
					}
				}
				return ""
			}
			hasPrefix := func(s string, ps ...string) bool {
				for _, p := range ps {
					if strings.HasPrefix(s, p) {
						return true
					}
				}
				return false
			}
			switch f := x.Fun.(type) {
			case *ast.SelectorExpr:
				m := f.Sel.Name
				recvLocal := localIdent(f.X)
				_, recvIsPkg := f.X.(*ast.Ident)
				if recvIsPkg {
					_, recvIsPkg = env.xf.imports[f.X.(*ast.Ident).Name]
				}
				switch {
				case hasPrefix(m, "MarshalTo", "WriteTo", "EncodeTo") && len(x.Args) >= 1:
					if a := localIdent(x.Args[0]); a != "" {
						add(a, xdef{expr: f.X, kind: "flow"})
					}
				case recvIsPkg && hasPrefix(m, "Write", "Fprint", "Copy", "Encode", "Marshal", "Read") && len(x.Args) >= 2:
					if a := localIdent(x.Args[0]); a != "" {
						for _, o := range x.Args[1:] {
							add(a, xdef{expr: o, kind: "flow"})
						}
					}
				case recvLocal != "" && hasPrefix(m, "Write", "Add", "Set", "Put", "Append", "Push", "Encode", "Store", "Update", "Sum"):
					for _, o := range x.Args {
						add(recvLocal, xdef{expr: o, kind: "flow"})
					}
				}
			case *ast.Ident:
				if f.Name == "copy" && len(x.Args) == 2 {
					if a := localIdent(x.Args[0]); a != "" {
						add(a, xdef{expr: x.Args[1], kind: "flow"})
					}
				}
			}
		case *ast.FuncLit:
			// parameters of closures: typed inputs
			if x.Type.Params != nil {
				for _, f := range x.Type.Params.List {
					t := env.w.normType(env.xf, f.Type)
					for _, nm := range f.Names {
						if _, dup := env.params[nm.Name]; !dup {
							env.params[nm.Name] = env.paramTV(nm.Name, t, f.Type)
						}
					}
				}
			}
		}
		return true
	})
}

func xRootIdent(e ast.Expr) string {
	switch x := e.(type) {
	case *ast.Ident:
		return x.Name
	case *ast.SelectorExpr:
		return xRootIdent(x.X)
	case *ast.IndexExpr:
		return xRootIdent(x.X)
	case *ast.StarExpr:
		return xRootIdent(x.X)
	case *ast.ParenExpr:
		return xRootIdent(x.X)
	}
	return ""
}

func (env *xenv) unknown(what string, pos token.Pos) xtv {
	p := env.w.fset.Position(pos)
	msg := fmt.Sprintf("%s at %s:%d (in %s)", what, env.xf.rel, p.Line, env.label)
	if !env.w.unkSeen[msg] {
		env.w.unkSeen[msg] = true
		env.w.unknown = append(env.w.unknown, msg)
	}
	return xtv{roots: []xroot{{kind: "Unknown", what: msg}}}
}

var xConstTV = xtv{roots: []xroot{{kind: "Const"}}}

// use: the roots of a value used as data (put in a field, logged, passed to an opaque call)
func (env *xenv) use(tv xtv) []xroot {
	if env.w.holdsSecret(tv.typ) {
		p := tv.path
		if len(p) == 0 {
			p = []string{xLastElem(tv.typ)}
		}
		return []xroot{{kind: "Sec", path: p}}
	}
	if len(tv.roots) == 0 {
		return []xroot{{kind: "Const"}}
	}
	return tv.roots
}

func (env *xenv) taint(args []ast.Expr) xtv {
	r := xtv{}
	for _, a := range args {
		r = xJoinTV(r, xtv{roots: env.use(env.eval(a))})
	}
	r.typ = ""
	if len(r.roots) == 0 {
		return xConstTV
	}
	return r
}

func xExtendPath(roots []xroot, sel string) []xroot {
	out := make([]xroot, len(roots))
	for i, r := range roots {
		out[i] = r
		if (r.kind == "Pub" || r.kind == "Req") && len(r.path) < 4 {
			out[i].path = append(append([]string{}, r.path...), sel)
		}
	}
	return out
}

func (env *xenv) evalIdent(id *ast.Ident) xtv {
	name := id.Name
	_, isLocal := env.defs[name]
	_, isParam := env.params[name]
	if !isLocal && !isParam {
		if xBuiltins[name] || env.xf.pkg.top[name] {
			return xConstTV
		}
		if _, ok := env.xf.imports[name]; ok {
			return xConstTV
		}
		return env.unknown("unresolved identifier "+name, id.Pos())
	}
	return env.vals[name]
}

func xTvSize(t xtv) int {
	n := len(t.roots) * 2
	if t.typ != "" {
		n++
	}
	return n
}

// solve computes the roots of every local identifier as the least fixpoint of its definitions
func (env *xenv) solve() {
	env.vals = map[string]xtv{}
	for n, tv := range env.params {
		env.vals[n] = tv
	}
	names := make([]string, 0, len(env.defs))
	for n := range env.defs {
		names = append(names, n)
	}
	sort.Strings(names)
	for pass := 0; pass < 40; pass++ {
		changed := false
		for _, name := range names {
			res := env.vals[name]
			before := xTvSize(res)
			for _, d := range env.defs[name] {
				var tv xtv
				switch {
				case d.kind == "typ":
					if env.w.knownType(d.typ) {
						tv = xtv{typ: d.typ, path: []string{name}}
						if !env.w.holdsSecret(d.typ) {
							tv.roots = xConstTV.roots
						}
					} else {
						tv = xConstTV
					}
				case d.kind == "key":
					tv = xConstTV
				case d.kind == "flow":
					tv = xtv{roots: env.use(env.eval(d.expr))}
				default:
					tv = env.evalIdx(d.expr, d.idx)
				}
				if tv.typ != "" && len(tv.path) == 0 {
					tv.path = []string{name}
				}
				res = xJoinTV(res, tv)
			}
			if xTvSize(res) != before {
				changed = true
			}
			env.vals[name] = res
		}
		if !changed {
			return
		}
	}
	env.unknown("fixpoint did not converge", env.fd.Pos())
}

// evalIdx evaluates result #idx of an expression (idx>0 only for calls / comma-ok forms)
func (env *xenv) evalIdx(e ast.Expr, idx int) xtv {
	if call, ok := e.(*ast.CallExpr); ok {
		rs := env.evalCall(call)
		if idx < len(rs) {
			return rs[idx]
		}
		if len(rs) == 1 && idx > 0 { // opaque call: every result carries the same roots
			return xtv{roots: rs[0].roots}
		}
		return xConstTV
	}
	if idx > 0 { // v, ok := m[k] / x.(T) / <-ch
		return xConstTV
	}
	return env.eval(e)
}

func (env *xenv) eval(e ast.Expr) xtv {
	switch x := e.(type) {
	case nil:
		return xConstTV
	case *ast.BasicLit:
		return xConstTV
	case *ast.FuncLit:
		return xConstTV
	case *ast.Ident:
		return env.evalIdent(x)
	case *ast.ParenExpr:
		return env.eval(x.X)
	case *ast.StarExpr:
		return env.eval(x.X)
	case *ast.UnaryExpr:
		return env.eval(x.X)
	case *ast.TypeAssertExpr:
		tv := env.eval(x.X)
		if t := env.w.normType(env.xf, x.Type); env.w.knownType(t) {
			tv.typ = t
		}
		return tv
	case *ast.ArrayType, *ast.MapType, *ast.ChanType, *ast.FuncType, *ast.InterfaceType, *ast.StructType:
		return xConstTV
	case *ast.BinaryExpr:
		a, b := env.eval(x.X), env.eval(x.Y)
		return xtv{roots: xJoinTV(xtv{roots: env.use(a)}, xtv{roots: env.use(b)}).roots}
	case *ast.IndexExpr:
		a := env.eval(x.X)
		if a.typ != "" {
			return a
		}
		return xtv{roots: xJoinTV(a, xtv{roots: env.use(env.eval(x.Index))}).roots}
	case *ast.SliceExpr:
		return env.eval(x.X)
	case *ast.KeyValueExpr:
		return env.eval(x.Value)
	case *ast.CompositeLit:
		t := env.w.normType(env.xf, x.Type)
		r := xtv{}
		for _, el := range x.Elts {
			r = xJoinTV(r, xtv{roots: env.use(env.eval(el))})
		}
		if env.w.knownType(t) && env.w.holdsSecret(t) {
			return xtv{typ: t, path: []string{xLastElem(t)}}
		}
		r.typ = ""
		if env.w.knownType(t) {
			r.typ = t
		}
		if len(r.roots) == 0 {
			r.roots = xConstTV.roots
		}
		return r
	case *ast.SelectorExpr:
		return env.evalSelector(x)
	case *ast.CallExpr:
		rs := env.evalCall(x)
		if len(rs) == 0 {
			return xConstTV
		}
		return rs[0]
	}
	return env.unknown(fmt.Sprintf("unsupported expression %T", e), e.Pos())
}

// fieldType looks a field up in a known struct type, following embedded fields.
// ok=false: no such field.
func (w *xworld) fieldType(t, name string, depth int) (string, bool) {
	if depth > 3 {
		return "", false
	}
	if ext, ok := xExternalStructs[t]; ok {
		ft, ok := ext[name]
		return ft, ok
	}
	xs := w.structOf(t)
	if xs == nil {
		return "", false
	}
	if ft, ok := xs.fields[name]; ok {
		return ft, true
	}
	for _, et := range xs.embedded {
		if ft, ok := w.fieldType(et, name, depth+1); ok {
			return ft, true
		}
	}
	return "", false
}

func (w *xworld) hasOpaqueEmbedded(t string) bool {
	xs := w.structOf(t)
	if xs == nil {
		return false
	}
	for _, et := range xs.embedded {
		if !w.knownType(et) {
			return true
		}
	}
	return false
}

func (w *xworld) findMethod(t, name string, depth int) (*ast.FuncDecl, *xfile) {
	if depth > 3 {
		return nil, nil
	}
	i := strings.LastIndex(t, ".")
	if i < 0 {
		return nil, nil
	}
	p := w.pkgs[t[:i]]
	if p == nil {
		return nil, nil
	}
	if fd := p.funcs[t[i+1:]+"."+name]; fd != nil {
		return fd, p.funcFile[fd]
	}
	if xs := p.structs[t[i+1:]]; xs != nil {
		for _, et := range xs.embedded {
			if fd, xf := w.findMethod(et, name, depth+1); fd != nil {
				return fd, xf
			}
		}
	}
	return nil, nil
}

func (env *xenv) evalSelector(x *ast.SelectorExpr) xtv {
	if id, ok := x.X.(*ast.Ident); ok {
		if _, isPkg := env.xf.imports[id.Name]; isPkg {
			if _, shadow := env.defs[id.Name]; !shadow {
				if _, shadowP := env.params[id.Name]; !shadowP {
					return xConstTV // package-level name of another package
				}
			}
		}
	}
	xv := env.eval(x.X)
	sel := x.Sel.Name
	if xv.typ == "" {
		return xtv{roots: xExtendPath(xv.roots, sel)}
	}
	path := append(append([]string{}, xv.path...), sel)
	if xSecretTypes[xv.typ] {
		return xtv{roots: []xroot{{kind: "Sec", path: path}}}
	}
	if xInterfaces[xv.typ] != nil {
		return env.unknown("field/method value "+sel+" of interface "+xv.typ, x.Pos())
	}
	ft, ok := env.w.fieldType(xv.typ, sel, 0)
	if ok {
		if env.w.holdsSecret(ft) {
			return xtv{typ: ft, path: path}
		}
		r := xtv{path: path}
		if env.w.knownType(ft) {
			r.typ = ft
		}
		if env.w.holdsSecret(xv.typ) {
			// public field of a container that also holds secrets: public part of the node state
			r.roots = []xroot{{kind: "Pub", path: path}}
		} else {
			r.roots = xExtendPath(xv.roots, sel)
		}
		return r
	}
	if fd, _ := env.w.findMethod(xv.typ, sel, 0); fd != nil {
		return xConstTV // method value
	}
	if env.w.hasOpaqueEmbedded(xv.typ) || !env.w.holdsSecret(xv.typ) {
		// promoted field of an embedded external (public) type
		if env.w.holdsSecret(xv.typ) {
			return xtv{roots: []xroot{{kind: "Pub", path: path}}}
		}
		return xtv{roots: xExtendPath(xv.roots, sel)}
	}
	return env.unknown("no field "+sel+" in "+xv.typ, x.Pos())
}

func xSelectorChain(e ast.Expr) string {
	switch x := e.(type) {
	case *ast.Ident:
		return x.Name
	case *ast.SelectorExpr:
		return xSelectorChain(x.X) + "." + x.Sel.Name
	case *ast.CallExpr:
		return xSelectorChain(x.Fun) + "()"
	case *ast.ParenExpr:
		return xSelectorChain(x.X)
	case *ast.StarExpr:
		return xSelectorChain(x.X)
	case *ast.IndexExpr:
		return xSelectorChain(x.X)
	}
	return "?"
}

func (env *xenv) isTypeExpr(e ast.Expr) bool {
	switch x := e.(type) {
	case *ast.ArrayType, *ast.MapType, *ast.ChanType, *ast.FuncType, *ast.InterfaceType:
		return true
	case *ast.StarExpr:
		return env.isTypeExpr(x.X)
	case *ast.ParenExpr:
		return env.isTypeExpr(x.X)
	}
	return false
}

// baseSummary analyses a function of a parsed package once, with symbolic parameters: one xtv
// per declared result, whose roots may mention the receiver / the i-th argument ("Arg" roots)
func (w *xworld) baseSummary(fd *ast.FuncDecl, xf *xfile) ([]xtv, bool) {
	key := xf.pkg.ipath + "." + fd.Name.Name
	if fd.Recv != nil && len(fd.Recv.List) == 1 {
		key = xf.pkg.ipath + "." + xBaseTypeName(fd.Recv.List[0].Type) + "." + fd.Name.Name
	}
	if r, ok := w.sumMemo[key]; ok {
		return r, true
	}
	nres := 0
	var rtypes []string
	if fd.Type.Results != nil {
		for _, f := range fd.Type.Results.List {
			k := len(f.Names)
			if k == 0 {
				k = 1
			}
			for j := 0; j < k; j++ {
				rtypes = append(rtypes, w.normType(xf, f.Type))
				nres++
			}
		}
	}
	if fd.Body == nil || w.stack[key] {
		return nil, false
	}
	w.stack[key] = true
	env := w.newEnv(xf, fd, true)
	res := make([]xtv, nres)
	var walk func(n ast.Node) bool
	walk = func(n ast.Node) bool {
		switch x := n.(type) {
		case *ast.FuncLit:
			return false
		case *ast.ReturnStmt:
			if len(x.Results) == nres {
				for i, r := range x.Results {
					res[i] = xJoinTV(res[i], env.eval(r))
				}
			} else if len(x.Results) == 1 && nres > 1 {
				for i := 0; i < nres; i++ {
					res[i] = xJoinTV(res[i], env.evalIdx(x.Results[0], i))
				}
			} else if len(x.Results) == 0 && fd.Type.Results != nil {
				i := 0
				for _, f := range fd.Type.Results.List {
					for _, nm := range f.Names {
						res[i] = xJoinTV(res[i], env.evalIdent(nm))
						i++
					}
				}
			}
		}
		return true
	}
	ast.Inspect(fd.Body, walk)
	delete(w.stack, key)
	for i := range res {
		if w.knownType(rtypes[i]) {
			if res[i].typ == "" {
				res[i].typ = rtypes[i]
			}
			if len(res[i].path) == 0 {
				res[i].path = []string{xLastElem(rtypes[i])}
			}
		}
		if !w.holdsSecret(res[i].typ) && len(res[i].roots) == 0 {
			res[i].roots = xConstTV.roots
		}
	}
	w.sumMemo[key] = res
	return res, true
}

// summary instantiates the callee's summary at a call site
func (w *xworld) summary(fd *ast.FuncDecl, xf *xfile, recv *xtv, args []xtv, caller *xenv, pos token.Pos) []xtv {
	base, ok := w.baseSummary(fd, xf)
	if !ok {
		return []xtv{caller.unknown("cannot summarise call to "+fd.Name.Name+" (recursion / no body)", pos)}
	}
	nparams, variadic := 0, false
	if fd.Type.Params != nil {
		for _, f := range fd.Type.Params.List {
			k := len(f.Names)
			if k == 0 {
				k = 1
			}
			nparams += k
			_, variadic = f.Type.(*ast.Ellipsis)
		}
	}
	out := make([]xtv, len(base))
	for i, b := range base {
		r := xtv{typ: b.typ, path: b.path}
		for _, rt := range b.roots {
			if rt.kind != "Arg" {
				r = xJoinTV(r, xtv{roots: []xroot{rt}})
				continue
			}
			if rt.op == "recv" {
				if recv != nil {
					r = xJoinTV(r, xtv{roots: caller.use(*recv)})
				}
				continue
			}
			var k int
			fmt.Sscan(rt.op, &k)
			hi := k + 1
			if variadic && k == nparams-1 {
				hi = len(args)
			}
			for j := k; j < hi && j < len(args); j++ {
				r = xJoinTV(r, xtv{roots: caller.use(args[j])})
			}
		}
		r.typ, r.path = b.typ, b.path
		if !w.holdsSecret(r.typ) && len(r.roots) == 0 {
			r.roots = xConstTV.roots
		}
		out[i] = r
	}
	return out
}

func (env *xenv) evalCall(call *ast.CallExpr) []xtv {
	fun := call.Fun
	if ix, ok := fun.(*ast.IndexExpr); ok { // generic instantiation f[T](...)
		fun = ix.X
	}
	if p, ok := fun.(*ast.ParenExpr); ok {
		fun = p.X
	}
	if env.isTypeExpr(fun) {
		return []xtv{env.taint(call.Args)}
	}
	chain := xSelectorChain(fun)
	// cryptographic operations over secrets
	switch {
	case strings.HasSuffix(chain, ".AuthScheme.Sign"):
		return []xtv{{roots: []xroot{{kind: "Crypto", op: "CSign", path: []string{chain}}}}, xConstTV}
	case strings.HasSuffix(chain, ".ThresholdScheme.Sign"):
		return []xtv{{roots: []xroot{{kind: "Crypto", op: "CPartialSign", path: []string{chain}}}}, xConstTV}
	case strings.HasSuffix(chain, ".Point().Mul"):
		return []xtv{{roots: []xroot{{kind: "Crypto", op: "CPkOf", path: []string{chain}}}}}
	case strings.HasSuffix(chain, ".Commit") && len(call.Args) <= 1:
		if sel, ok := fun.(*ast.SelectorExpr); ok {
			if tv := env.eval(sel.X); tv.typ == "github.com/drand/kyber/share.PriPoly" {
				return []xtv{{roots: []xroot{{kind: "Crypto", op: "CCommit", path: []string{chain}}}}}
			}
		}
	}
	switch f := fun.(type) {
	case *ast.Ident:
		if _, local := env.defs[f.Name]; !local {
			if _, isParam := env.params[f.Name]; !isParam {
				if xBuiltins[f.Name] {
					return []xtv{env.taint(call.Args)}
				}
				if fd := env.xf.pkg.funcs[f.Name]; fd != nil {
					return env.w.summary(fd, env.xf.pkg.funcFile[fd], nil, env.evalArgs(call.Args), env, call.Pos())
				}
				if env.xf.pkg.top[f.Name] { // conversion to a named type of this package, or a func variable
					return []xtv{env.taint(call.Args)}
				}
				return []xtv{env.unknown("call of unresolved "+f.Name, call.Pos())}
			}
		}
		return []xtv{env.taint(call.Args)} // closure / func-typed variable
	case *ast.SelectorExpr:
		if id, ok := f.X.(*ast.Ident); ok {
			if ip, isPkg := env.xf.imports[id.Name]; isPkg {
				_, s1 := env.defs[id.Name]
				_, s2 := env.params[id.Name]
				if !s1 && !s2 {
					if p := env.w.pkgs[ip]; p != nil {
						if fd := p.funcs[f.Sel.Name]; fd != nil {
							return env.w.summary(fd, p.funcFile[fd], nil, env.evalArgs(call.Args), env, call.Pos())
						}
					}
					if xOpaqueSafe[ip+"."+f.Sel.Name] {
						return []xtv{xConstTV}
					}
					return []xtv{env.taint(call.Args)}
				}
			}
		}
		xv := env.eval(f.X)
		m := f.Sel.Name
		path := append(append([]string{}, xv.path...), m+"()")
		switch {
		case xv.typ == "":
			return []xtv{xJoinTV(xtv{roots: xv.roots}, env.taint(call.Args))}
		case xSecretTypes[xv.typ] || xExternalStructs[xv.typ] != nil:
			return []xtv{{roots: []xroot{{kind: "Sec", path: path}}}, xConstTV}
		case xInterfaces[xv.typ] != nil:
			rt, ok := xInterfaces[xv.typ][m]
			if !ok {
				return []xtv{env.unknown("method "+m+" of "+xv.typ+" not in the interface table", call.Pos())}
			}
			if rt != "" {
				return []xtv{{typ: rt, path: path}, xConstTV}
			}
			// public result of a store (e.g. LoadGroup): public part of the node state
			return []xtv{{roots: []xroot{{kind: "Pub", path: path}}}, xConstTV}
		default:
			if fd, xf := env.w.findMethod(xv.typ, m, 0); fd != nil {
				r := xv
				return env.w.summary(fd, xf, &r, env.evalArgs(call.Args), env, call.Pos())
			}
			if ft, ok := env.w.fieldType(xv.typ, m, 0); ok && !env.w.knownType(ft) {
				return []xtv{env.taint(call.Args)} // func-typed field
			}
			if env.w.hasOpaqueEmbedded(xv.typ) {
				// promoted method of an embedded external (public) type, e.g. Vault -> *crypto.Scheme
				return []xtv{xJoinTV(xtv{roots: []xroot{{kind: "Pub", path: path}}}, env.taint(call.Args))}
			}
			if !env.w.holdsSecret(xv.typ) {
				return []xtv{xJoinTV(xtv{roots: xv.roots}, env.taint(call.Args))}
			}
			// e.g. a generic container of T (FanOutChan[SharingOutput]).Listen(): the result is
			// conservatively still a value that holds T's secrets
			return []xtv{{typ: xv.typ, path: path}}
		}
	case *ast.FuncLit:
		return []xtv{env.taint(call.Args)}
	case *ast.CallExpr: // f(x)(y)
		return []xtv{xJoinTV(env.eval(f), env.taint(call.Args))}
	}
	return []xtv{env.unknown(fmt.Sprintf("unsupported call shape %T", call.Fun), call.Pos())}
}

func (env *xenv) evalArgs(args []ast.Expr) []xtv {
	out := make([]xtv, len(args))
	for i, a := range args {
		out[i] = env.eval(a)
	}
	return out
}

// ---------------------------------------------------------------------------------------------

type xfield struct {
	name  string
	roots []xroot
}
type xctor struct {
	name   string
	where  string
	fields []xfield
}

func (w *xworld) isProtoType(xf *xfile, e ast.Expr) (string, bool) {
	if st, ok := e.(*ast.StarExpr); ok {
		e = st.X
	}
	if u, ok := e.(*ast.UnaryExpr); ok {
		e = u.X
	}
	if sel, ok := e.(*ast.SelectorExpr); ok {
		if id, ok := sel.X.(*ast.Ident); ok {
			if ip, ok := xf.imports[id.Name]; ok && strings.Contains(ip, "/protobuf/") {
				return sel.Sel.Name, true
			}
		}
	}
	return "", false
}

func (w *xworld) outputsOf(xf *xfile, fd *ast.FuncDecl) []xctor {
	if fd.Body == nil {
		return nil
	}
	env := w.newEnv(xf, fd, false)
	var out []xctor
	counter := map[string]int{}
	mk := func(kind string, pos token.Pos) xctor {
		counter[kind]++
		p := w.fset.Position(pos)
		return xctor{name: fmt.Sprintf("%s:%s#%d", env.label, kind, counter[kind]), where: fmt.Sprintf("%s:%d", xf.rel, p.Line)}
	}
	returnsMsg := false
	if fd.Type.Results != nil && len(fd.Type.Results.List) > 0 {
		_, returnsMsg = w.isProtoType(xf, fd.Type.Results.List[0].Type)
	}
	inLit := 0
	var walk func(n ast.Node) bool
	walk = func(n ast.Node) bool {
		switch x := n.(type) {
		case *ast.FuncLit:
			inLit++
			ast.Inspect(x.Body, walk)
			inLit--
			return false
		case *ast.CompositeLit:
			if tn, ok := w.isProtoType(xf, x.Type); ok {
				c := mk(tn, x.Pos())
				for i, el := range x.Elts {
					if kv, ok := el.(*ast.KeyValueExpr); ok {
						c.fields = append(c.fields, xfield{xSelectorChain(kv.Key), env.use(env.eval(kv.Value))})
					} else {
						c.fields = append(c.fields, xfield{fmt.Sprintf("_%d", i), env.use(env.eval(el))})
					}
				}
				out = append(out, c)
			}
		case *ast.ReturnStmt:
			if returnsMsg && inLit == 0 && len(x.Results) >= 1 {
				isNil := func(e ast.Expr) bool {
					id, ok := e.(*ast.Ident)
					return ok && id.Name == "nil"
				}
				// the error a handler returns travels to the caller as well (gRPC status message)
				if len(x.Results) == 2 && !isNil(x.Results[1]) {
					c := mk("return-error", x.Pos())
					c.fields = []xfield{{"err", env.use(env.eval(x.Results[1]))}}
					out = append(out, c)
				} else if len(x.Results) == 1 && len(fd.Type.Results.List) == 2 {
					c := mk("return-error", x.Pos())
					c.fields = []xfield{{"err", env.use(env.evalIdx(x.Results[0], 1))}}
					out = append(out, c)
				}
				if isNil(x.Results[0]) {
					break
				}
				c := mk("return", x.Pos())
				c.fields = []xfield{{"ret", env.use(env.evalIdx(x.Results[0], 0))}}
				out = append(out, c)
			}
		case *ast.AssignStmt:
			if x.Tok == token.ASSIGN && len(x.Lhs) == len(x.Rhs) {
				for i, l := range x.Lhs {
					if sel, ok := l.(*ast.SelectorExpr); ok {
						root := xRootIdent(sel)
						if root == "" || root == env.recvName {
							continue
						}
						if _, isLocal := env.defs[root]; !isLocal {
							if _, isParam := env.params[root]; !isParam {
								continue
							}
						}
						// only values of public (message-like) types: assignments into known
						// containers are state updates, not outputs
						if tv := env.eval(sel.X); tv.typ != "" {
							continue
						}
						c := mk("set", x.Pos())
						c.fields = []xfield{{xSelectorChain(sel), env.use(env.eval(x.Rhs[i]))}}
						out = append(out, c)
					}
				}
			}
		case *ast.CallExpr:
			if sel, ok := x.Fun.(*ast.SelectorExpr); ok {
				isPkg := false
				if id, ok := sel.X.(*ast.Ident); ok {
					if _, ok := xf.imports[id.Name]; ok {
						_, s1 := env.defs[id.Name]
						_, s2 := env.params[id.Name]
						isPkg = !s1 && !s2
					}
				}
				if xLogNames[sel.Sel.Name] && !isPkg {
					c := mk("log", x.Pos())
					for i, a := range x.Args {
						c.fields = append(c.fields, xfield{fmt.Sprintf("a%d", i), env.use(env.eval(a))})
					}
					out = append(out, c)
				} else if sel.Sel.Name == "Send" && !isPkg && len(x.Args) == 1 {
					c := mk("send", x.Pos())
					c.fields = []xfield{{"arg", env.use(env.eval(x.Args[0]))}}
					out = append(out, c)
				}
			}
		}
		return true
	}
	ast.Inspect(fd.Body, walk)
	return out
}

func xCoqStr(s string) string { return "\"" + strings.ReplaceAll(s, "\"", "'") + "\"" }

func xCoqStrList(p []string) string {
	q := make([]string, len(p))
	for i, s := range p {
		q[i] = xCoqStr(s)
	}
	return "[" + strings.Join(q, "; ") + "]"
}

func (r xroot) coq() string {
	switch r.kind {
	case "Pub":
		return "SPub " + xCoqStrList(r.path)
	case "Req":
		return "SReq " + xCoqStrList(r.path)
	case "Const":
		return "SConst"
	case "Crypto":
		return "SCrypto " + r.op + " " + xCoqStrList(r.path)
	case "Sec":
		return "SSec " + xCoqStrList(r.path)
	}
	return "SUnknown " + xCoqStr(r.what)
}

func genExposure(repo string) (string, error) {
	w := &xworld{stack: map[string]bool{}, unkSeen: map[string]bool{}, sumMemo: map[string][]xtv{}}
	if err := w.load(repo); err != nil {
		return "", err
	}
	var ctors []xctor
	for _, rel := range exposureFiles {
		var xf *xfile
		for _, p := range w.pkgs {
			for _, f := range p.files {
				if f.rel == rel {
					xf = f
				}
			}
		}
		if xf == nil {
			return "", fmt.Errorf("T-break: exposure: file %s not found", rel)
		}
		for _, d := range xf.f.Decls {
			if fd, ok := d.(*ast.FuncDecl); ok {
				ctors = append(ctors, w.outputsOf(xf, fd)...)
			}
		}
	}
	if len(w.unknown) > 0 {
		sort.Strings(w.unknown)
		u := w.unknown
		if len(u) > 12 {
			u = u[:12]
		}
		return "", fmt.Errorf("T-break: exposure: %d unrecognised shapes: %s", len(w.unknown), strings.Join(u, "; "))
	}
	// the anchors of the property must be present
	need := map[string]bool{"core.BeaconProcess.PublicKey:PublicKeyResponse#1": false, "core.BeaconProcess.GetIdentity:IdentityResponse#1": false,
		"core.BeaconProcess.GroupFile:return#1": false, "core.BeaconProcess.ChainInfo:return#1": false, "core.BeaconProcess.Status:StatusResponse#1": false,
		"dkg.Process.DKGStatus:DKGStatusResponse#1": false, "dkg.Process.DKGStatus:DKGEntry#1": false, "dkg.Process.signMessage:GossipMetadata#1": false,
		"beacon.Handler.broadcastNextPartial:PartialBeaconPacket#1": false}
	for _, c := range ctors {
		if _, ok := need[c.name]; ok {
			need[c.name] = true
		}
	}
	var missing []string
	for k, v := range need {
		if !v {
			missing = append(missing, k)
		}
	}
	if len(missing) > 0 {
		sort.Strings(missing)
		return "", fmt.Errorf("T-break: exposure: anchored constructors not found: %s", strings.Join(missing, ", "))
	}
	var sb strings.Builder
	sb.WriteString("(* GENERATED by zzv extract (harness/extract/exposure.go) from the Go sources; do not edit.\n   One entry per output constructor (message literal, handler return, stream send, field\n   assignment, log call) of: " + strings.Join(exposureFiles, ", ") + " *)\n")
	sb.WriteString("From Coq Require Import ZArith List String.\nFrom DV Require Import Model.Secrecy.\nImport ListNotations.\nOpen Scope string_scope.\n")
	sb.WriteString("Definition exposure : list ctor := [\n")
	for i, c := range ctors {
		fmt.Fprintf(&sb, "  (* %s *)\n  (%s, [", c.where, xCoqStr(c.name))
		for j, f := range c.fields {
			rs := make([]string, len(f.roots))
			for k, r := range f.roots {
				rs[k] = r.coq()
			}
			if j > 0 {
				sb.WriteString(";\n     ")
			}
			fmt.Fprintf(&sb, "(%s, [%s])", xCoqStr(f.name), strings.Join(rs, "; "))
		}
		sb.WriteString("])")
		if i+1 < len(ctors) {
			sb.WriteString(";")
		}
		sb.WriteString("\n")
	}
	sb.WriteString("].\n")
	return sb.String(), nil
}
