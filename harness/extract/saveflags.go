package extract

// Gen/SaveFlags.v for C15: which key-store files are written through fs.CreateSecureFile
// (the `secure` argument of key.Save at each call site in common/key/store.go), plus shape checks
// of the three functions the file-mode model stands for: key.Save, fs.CreateSecureFile and
// dkg.NewDKGStore / boltdb's bolt.Open calls. Any other shape is a T-break.

import (
	"fmt"
	"go/ast"
	"go/token"
	"strings"
)

func init() { register("SaveFlags.v", genSaveFlags) }

func sfFindFunc(pf *pkgFile, recv, name string) *ast.FuncDecl {
	for _, d := range pf.file.Decls {
		fd, ok := d.(*ast.FuncDecl)
		if !ok || fd.Name.Name != name {
			continue
		}
		r := ""
		if fd.Recv != nil && len(fd.Recv.List) == 1 {
			t := fd.Recv.List[0].Type
			if st, ok := t.(*ast.StarExpr); ok {
				t = st.X
			}
			if id, ok := t.(*ast.Ident); ok {
				r = id.Name
			}
		}
		if r == recv {
			return fd
		}
	}
	return nil
}

func sfChain(e ast.Expr) string {
	switch x := e.(type) {
	case *ast.Ident:
		return x.Name
	case *ast.SelectorExpr:
		return sfChain(x.X) + "." + x.Sel.Name
	case *ast.CallExpr:
		return sfChain(x.Fun) + "()"
	}
	return "?"
}

// sfCalls lists the calls of a function body in source order as "callee(arg,arg,...)".
func sfCalls(fd *ast.FuncDecl) []*ast.CallExpr {
	var out []*ast.CallExpr
	ast.Inspect(fd.Body, func(n ast.Node) bool {
		if c, ok := n.(*ast.CallExpr); ok {
			out = append(out, c)
		}
		return true
	})
	return out
}

// sfWriterShape reads how one function of common/key/store.go gets the text onto disk. Two shapes are recognised:
//
//	in place:  fd := create(filePath); encode(fd)
//	replace:   tmpPath := filePath + <ext>; fd := create(tmpPath); encode(fd); fd.Sync(); fd.Close();
//	           os.Rename(tmpPath, filePath)          (in this order on the success path)
//
// where create is fs.CreateSecureFile / os.Create on the SAME path in both branches of `if secure`.
// secureOnWritten: the path given to fs.CreateSecureFile is the file the encoder writes into, and
// that file is what ends up at filePath (itself, or through the rename).
func sfWriterShape(ks *pkgFile, fname string) (inPlace, atomicRename, secureOnWritten bool, err error) {
	save := sfFindFunc(ks, "", fname)
	if save == nil {
		return false, false, false, fmt.Errorf("T-break: key.%s not found", fname)
	}
	if !sfSecureBranch(save) {
		return false, false, false, fmt.Errorf("T-break: key.%s is not `if secure { fs.CreateSecureFile } else { os.Create }`", fname)
	}
	var createArgs []string
	var posCreateMax, posEncode, posSync, posRename, posCloseAfterSync token.Pos
	var encodeInto, renameFrom, renameTo string
	nEncode, nRename := 0, 0
	for _, c := range sfCalls(save) {
		switch ch := sfChain(c.Fun); {
		case ch == "os.Create" || ch == "fs.CreateSecureFile":
			if len(c.Args) != 1 {
				return false, false, false, fmt.Errorf("T-break: key.Save: %s with %d arguments", ch, len(c.Args))
			}
			createArgs = append(createArgs, ch+"("+sfChain(c.Args[0])+")")
			if c.Pos() > posCreateMax {
				posCreateMax = c.Pos()
			}
		case strings.HasSuffix(ch, ".Encode"):
			nEncode++
			posEncode = c.Pos()
			// toml.NewEncoder(fd).Encode(...)
			if sel, ok := c.Fun.(*ast.SelectorExpr); ok {
				if ne, ok := sel.X.(*ast.CallExpr); ok && len(ne.Args) == 1 {
					encodeInto = sfChain(ne.Args[0])
				}
			}
		case ch == "fd.Sync":
			if posSync == 0 {
				posSync = c.Pos()
			}
		case ch == "fd.Close":
			if posSync != 0 && c.Pos() > posSync {
				// the first Close after the Sync call that is not inside the Sync's own error branch is
				// found below by position: keep the last one before the rename
				posCloseAfterSync = c.Pos()
			}
		case ch == "os.Rename":
			nRename++
			posRename = c.Pos()
			if len(c.Args) == 2 {
				renameFrom, renameTo = sfChain(c.Args[0]), sfChain(c.Args[1])
			}
		case strings.Contains(ch, "CreateTemp") || ch == "os.OpenFile" || ch == "os.WriteFile" || ch == "os.Link" || ch == "os.Symlink":
			return false, false, false, fmt.Errorf("T-break: key.Save: unexpected call %s", ch)
		}
	}
	if len(createArgs) != 2 || nEncode != 1 || encodeInto != "fd" {
		return false, false, false, fmt.Errorf("T-break: key.Save: unexpected shape (creates=%v encodes=%d into %q)", createArgs, nEncode, encodeInto)
	}
	var sec, plain string
	for _, a := range createArgs {
		if strings.HasPrefix(a, "fs.CreateSecureFile(") {
			sec = strings.TrimSuffix(strings.TrimPrefix(a, "fs.CreateSecureFile("), ")")
		} else {
			plain = strings.TrimSuffix(strings.TrimPrefix(a, "os.Create("), ")")
		}
	}
	if sec == "" || plain == "" || sec != plain {
		return false, false, false, fmt.Errorf("T-break: key.Save: the two branches create different paths (%v)", createArgs)
	}
	switch {
	case sec == "filePath" && nRename == 0:
		return true, false, true, nil
	case nRename == 1 && renameFrom == sec && renameTo == "filePath":
		// the temp path must be derived from the target and differ from it
		def := ks.findValue(sec)
		if def == nil || !strings.HasPrefix(sfChain2(def), "filePath+") {
			return false, false, false, fmt.Errorf("T-break: key.Save: %s is not `filePath + <extension>`", sec)
		}
		ordered := posCreateMax < posEncode && posEncode < posSync && posSync < posCloseAfterSync && posCloseAfterSync < posRename
		return false, ordered, true, nil
	}
	return false, false, false, fmt.Errorf("T-break: key.Save: creates %s, renames %q -> %q: neither the in-place nor the write-aside-and-rename shape", sec, renameFrom, renameTo)
}

// sfChain2 renders a binary + expression of identifiers ("filePath+tmpExtension").
func sfChain2(e ast.Expr) string {
	if b, ok := e.(*ast.BinaryExpr); ok && b.Op == token.ADD {
		return sfChain2(b.X) + "+" + sfChain2(b.Y)
	}
	return sfChain(e)
}

// sfSecureBranch: the function opens its file with `if secure { fs.CreateSecureFile } else { os.Create }`
func sfSecureBranch(fd *ast.FuncDecl) bool {
	ok := false
	ast.Inspect(fd.Body, func(n ast.Node) bool {
		if is, isIf := n.(*ast.IfStmt); isIf {
			if id, isID := is.Cond.(*ast.Ident); isID && id.Name == "secure" && is.Else != nil {
				th, el := "", ""
				ast.Inspect(is.Body, func(n ast.Node) bool {
					if c, ok := n.(*ast.CallExpr); ok {
						th += sfChain(c.Fun) + ";"
					}
					return true
				})
				ast.Inspect(is.Else, func(n ast.Node) bool {
					if c, ok := n.(*ast.CallExpr); ok {
						el += sfChain(c.Fun) + ";"
					}
					return true
				})
				if th == "fs.CreateSecureFile;" && el == "os.Create;" {
					ok = true
				}
			}
		}
		return true
	})
	return ok
}

// sfExpr renders a small boolean / call expression without spaces.
func sfExpr(e ast.Expr) string {
	switch x := e.(type) {
	case *ast.BinaryExpr:
		return sfExpr(x.X) + x.Op.String() + sfExpr(x.Y)
	case *ast.UnaryExpr:
		return x.Op.String() + sfExpr(x.X)
	case *ast.ParenExpr:
		return "(" + sfExpr(x.X) + ")"
	case *ast.CallExpr:
		args := make([]string, len(x.Args))
		for i, a := range x.Args {
			args[i] = sfExpr(a)
		}
		return sfExpr(x.Fun) + "(" + strings.Join(args, ",") + ")"
	case *ast.SelectorExpr:
		return sfExpr(x.X) + "." + x.Sel.Name
	case *ast.Ident:
		return x.Name
	}
	return "?"
}

// sfSaveShape reads key.Save. Either Save is itself one of the two writer shapes (sfWriterShape), or
// it is the dispatcher
//
//	if info, err := os.Lstat(filePath); err == nil && !info.Mode().IsRegular() {
//		return saveInPlace(filePath, t, secure)
//	}
//	return saveReplace(filePath, t, secure)
//
// over an in-place writer and a replace writer. inPlace / atomicRename describe what happens to a
// target that is ABSENT OR A REGULAR FILE (every file of the key store); inPlaceOnlyNonRegular says
// that the in-place writer is reachable only behind that Lstat guard.
func sfSaveShape(ks *pkgFile) (inPlace, atomicRename, secureOnWritten, inPlaceOnlyNonRegular bool, err error) {
	save := sfFindFunc(ks, "", "Save")
	if save == nil {
		return false, false, false, false, fmt.Errorf("T-break: key.Save not found")
	}
	rep, inp := sfFindFunc(ks, "", "saveReplace"), sfFindFunc(ks, "", "saveInPlace")
	if rep == nil && inp == nil {
		i, a, s, err := sfWriterShape(ks, "Save")
		return i, a, s, !i, err
	}
	if rep == nil || inp == nil {
		return false, false, false, false, fmt.Errorf("T-break: key.Save: only one of saveReplace / saveInPlace exists")
	}
	stmts := save.Body.List
	if len(stmts) != 2 {
		return false, false, false, false, fmt.Errorf("T-break: key.Save: the dispatcher has %d statements, expected the Lstat guard and the final return", len(stmts))
	}
	guard, ok := stmts[0].(*ast.IfStmt)
	if !ok || guard.Else != nil || guard.Init == nil || len(guard.Body.List) != 1 {
		return false, false, false, false, fmt.Errorf("T-break: key.Save: first statement is not the Lstat guard")
	}
	init, ok := guard.Init.(*ast.AssignStmt)
	if !ok || len(init.Lhs) != 2 || len(init.Rhs) != 1 || sfExpr(init.Lhs[0]) != "info" || sfExpr(init.Lhs[1]) != "err" || sfExpr(init.Rhs[0]) != "os.Lstat(filePath)" {
		return false, false, false, false, fmt.Errorf("T-break: key.Save: guard does not start with `info, err := os.Lstat(filePath)`")
	}
	if c := sfExpr(guard.Cond); c != "err==nil&&!info.Mode().IsRegular()" {
		return false, false, false, false, fmt.Errorf("T-break: key.Save: guard condition is %q, expected err==nil&&!info.Mode().IsRegular()", c)
	}
	retIn, ok1 := guard.Body.List[0].(*ast.ReturnStmt)
	retRep, ok2 := stmts[1].(*ast.ReturnStmt)
	if !ok1 || !ok2 || len(retIn.Results) != 1 || len(retRep.Results) != 1 ||
		sfExpr(retIn.Results[0]) != "saveInPlace(filePath,t,secure)" || sfExpr(retRep.Results[0]) != "saveReplace(filePath,t,secure)" {
		return false, false, false, false, fmt.Errorf("T-break: key.Save: the guard must return saveInPlace(filePath,t,secure) and everything else saveReplace(filePath,t,secure)")
	}
	// nobody else calls the in-place writer
	n := 0
	ast.Inspect(ks.file, func(nd ast.Node) bool {
		if c, ok := nd.(*ast.CallExpr); ok && sfChain(c.Fun) == "saveInPlace" {
			n++
		}
		return true
	})
	if n != 1 {
		return false, false, false, false, fmt.Errorf("T-break: saveInPlace is called %d times in common/key/store.go", n)
	}
	ri, ra, rs, err := sfWriterShape(ks, "saveReplace")
	if err != nil {
		return false, false, false, false, err
	}
	ii, _, is, err := sfWriterShape(ks, "saveInPlace")
	if err != nil {
		return false, false, false, false, err
	}
	if ri || !ii {
		return false, false, false, false, fmt.Errorf("T-break: saveReplace / saveInPlace do not have the replace / in-place shapes")
	}
	return false, ra, rs && is, true, nil
}

func genSaveFlags(repo string) (string, error) {
	ks, err := parseFile(repo, "common/key/store.go")
	if err != nil {
		return "", err
	}
	// (1) call sites of Save in the file store
	flags := map[string]string{}
	want := map[string]string{"privateKeyFile": "FKeyPrivate", "publicKeyFile": "FKeyPublic", "shareFile": "FShare", "groupFile": "FGroup"}
	for _, m := range []string{"SaveKeyPair", "SaveShare", "SaveGroup"} {
		fd := sfFindFunc(ks, "fileStore", m)
		if fd == nil {
			return "", fmt.Errorf("T-break: saveflags: method fileStore.%s not found in common/key/store.go", m)
		}
		for _, c := range sfCalls(fd) {
			if sfChain(c.Fun) != "Save" {
				continue
			}
			if len(c.Args) != 3 {
				return "", fmt.Errorf("T-break: saveflags: Save call in %s does not have 3 arguments", m)
			}
			p := sfChain(c.Args[0])
			if !strings.HasPrefix(p, "f.") || want[p[2:]] == "" {
				return "", fmt.Errorf("T-break: saveflags: Save call in %s writes to unrecognised path %s", m, p)
			}
			b := sfChain(c.Args[2])
			if b != "true" && b != "false" {
				return "", fmt.Errorf("T-break: saveflags: Save call in %s: secure argument %q is not a boolean literal", m, b)
			}
			if old, dup := flags[want[p[2:]]]; dup && old != b {
				return "", fmt.Errorf("T-break: saveflags: conflicting secure flags for %s", p)
			}
			flags[want[p[2:]]] = b
		}
	}
	for _, f := range want {
		if flags[f] == "" {
			return "", fmt.Errorf("T-break: saveflags: no Save call found for %s", f)
		}
	}
	// (2) the writers of key.Save: secure => fs.CreateSecureFile, else os.Create (checked by sfSaveShape below)
	// (3) fs.CreateSecureFile: os.Create; fd.Close; chmodFunc(file, rwFilePermission); os.OpenFile(file, os.O_RDWR, _)
	fsf, err := parseFile(repo, "internal/fs/fs.go")
	if err != nil {
		return "", err
	}
	csf := sfFindFunc(fsf, "", "CreateSecureFile")
	if csf == nil {
		return "", fmt.Errorf("T-break: saveflags: fs.CreateSecureFile not found")
	}
	var seq []string
	for _, c := range sfCalls(csf) {
		s := sfChain(c.Fun)
		if s == "fmt.Errorf" {
			continue
		}
		args := make([]string, len(c.Args))
		for i, a := range c.Args {
			args[i] = sfChain(a)
		}
		seq = append(seq, s+"("+strings.Join(args, ",")+")")
	}
	got := strings.Join(seq, " ")
	wantSeq := "os.Create(file) fd.Close() chmodFunc(file,rwFilePermission) os.OpenFile(file,os.O_RDWR,rwFilePermission)"
	if got != wantSeq {
		return "", fmt.Errorf("T-break: saveflags: fs.CreateSecureFile is %q, expected %q", got, wantSeq)
	}
	if v := fsf.findValue("chmodFunc"); v == nil || sfChain(v) != "os.Chmod" {
		return "", fmt.Errorf("T-break: saveflags: fs.chmodFunc is not os.Chmod")
	}
	// (4) the two bolt.Open calls take the named constants the model is parametric in
	for _, f := range []string{"internal/dkg/store.go", "internal/chain/boltdb/store.go", "internal/chain/boltdb/trimmed.go"} {
		pf, err := parseFile(repo, f)
		if err != nil {
			return "", err
		}
		n := 0
		var bad string
		ast.Inspect(pf.file, func(nd ast.Node) bool {
			if c, ok := nd.(*ast.CallExpr); ok && sfChain(c.Fun) == "bolt.Open" {
				n++
				if len(c.Args) != 3 || sfChain(c.Args[1]) != "BoltStoreOpenPerm" {
					bad = fmt.Sprintf("bolt.Open in %s does not pass BoltStoreOpenPerm", f)
				}
			}
			return true
		})
		if bad != "" {
			return "", fmt.Errorf("T-break: saveflags: %s", bad)
		}
		if n == 0 {
			return "", fmt.Errorf("T-break: saveflags: no bolt.Open call in %s", f)
		}
	}
	inPlace, atomicRename, secureOnWritten, onlyNonRegular, err := sfSaveShape(ks)
	if err != nil {
		return "", fmt.Errorf("T-break: saveflags: %w", err)
	}
	bb := func(x bool) string {
		if x {
			return "true"
		}
		return "false"
	}
	var sb strings.Builder
	sb.WriteString("(* GENERATED by zzv extract (harness/extract/saveflags.go) from common/key/store.go; do not edit.\n   The `secure` argument of key.Save at the call site that writes each key-store file. *)\n")
	sb.WriteString("From DV Require Import Model.Secrecy.\n")
	sb.WriteString("Definition save_secure (f : nfile) : bool :=\n  match f with\n")
	for _, f := range []string{"FKeyPrivate", "FKeyPublic", "FShare", "FGroup"} {
		fmt.Fprintf(&sb, "  | %s => %s\n", f, flags[f])
	}
	sb.WriteString("  | _ => false\n  end.\n")
	sb.WriteString("(* key.Save writes the text into a temporary file next to the target, Sync, Close, and only then\n   renames it over the target (false: it creates/truncates the target itself and writes it in place) *)\n")
	fmt.Fprintf(&sb, "Definition save_in_place : bool := %s.\nDefinition save_atomic_rename : bool := %s.\n", bb(inPlace), bb(atomicRename))
	sb.WriteString("(* the path handed to fs.CreateSecureFile is the file the encoder writes into and the file that ends\n   up at the target: the owner-only mode is on it before the first content byte and survives the rename *)\n")
	fmt.Fprintf(&sb, "Definition save_secure_on_written_file : bool := %s.\n", bb(secureOnWritten))
	sb.WriteString("(* the three flags above describe what happens to a target that is absent or a regular file (every file\n   of the key store). true: a writer that truncates its target in place is reachable only behind\n   `os.Lstat(target)` succeeding on something that is NOT a regular file (symlink, device, pipe) *)\n")
	fmt.Fprintf(&sb, "Definition save_in_place_only_non_regular : bool := %s.\n", bb(onlyNonRegular))
	return sb.String(), nil
}
