package extract

// Gen/SaveFlags.v for C15: which key-store files are written through fs.CreateSecureFile
// (the `secure` argument of key.Save at each call site in common/key/store.go), plus shape checks
// of the three functions the file-mode model stands for: key.Save, fs.CreateSecureFile and
// dkg.NewDKGStore / boltdb's bolt.Open calls. Any other shape is a T-break.

import (
	"fmt"
	"go/ast"
	"strings"
)

func init() { register("SaveFlags.v", genSaveFlags) }

func sfFindFunc(pf *pkgFile, recv, name string) *ast.FuncDecl {
	for _, d := range pf.file.Decls {
		fd, ok := d.(*ast.FuncDecl)
		if !ok || fd.Name.Name != name {
			continue
		}
		r := ""
		if fd.Recv != nil && len(fd.Recv.List) == 1 {
			t := fd.Recv.List[0].Type
			if st, ok := t.(*ast.StarExpr); ok {
				t = st.X
			}
			if id, ok := t.(*ast.Ident); ok {
				r = id.Name
			}
		}
		if r == recv {
			return fd
		}
	}
	return nil
}

func sfChain(e ast.Expr) string {
	switch x := e.(type) {
	case *ast.Ident:
		return x.Name
	case *ast.SelectorExpr:
		return sfChain(x.X) + "." + x.Sel.Name
	case *ast.CallExpr:
		return sfChain(x.Fun) + "()"
	}
	return "?"
}

// sfCalls lists the calls of a function body in source order as "callee(arg,arg,...)".
func sfCalls(fd *ast.FuncDecl) []*ast.CallExpr {
	var out []*ast.CallExpr
	ast.Inspect(fd.Body, func(n ast.Node) bool {
		if c, ok := n.(*ast.CallExpr); ok {
			out = append(out, c)
		}
		return true
	})
	return out
}

func genSaveFlags(repo string) (string, error) {
	ks, err := parseFile(repo, "common/key/store.go")
	if err != nil {
		return "", err
	}
	// (1) call sites of Save in the file store
	flags := map[string]string{}
	want := map[string]string{"privateKeyFile": "FKeyPrivate", "publicKeyFile": "FKeyPublic", "shareFile": "FShare", "groupFile": "FGroup"}
	for _, m := range []string{"SaveKeyPair", "SaveShare", "SaveGroup"} {
		fd := sfFindFunc(ks, "fileStore", m)
		if fd == nil {
			return "", fmt.Errorf("T-break: saveflags: method fileStore.%s not found in common/key/store.go", m)
		}
		for _, c := range sfCalls(fd) {
			if sfChain(c.Fun) != "Save" {
				continue
			}
			if len(c.Args) != 3 {
				return "", fmt.Errorf("T-break: saveflags: Save call in %s does not have 3 arguments", m)
			}
			p := sfChain(c.Args[0])
			if !strings.HasPrefix(p, "f.") || want[p[2:]] == "" {
				return "", fmt.Errorf("T-break: saveflags: Save call in %s writes to unrecognised path %s", m, p)
			}
			b := sfChain(c.Args[2])
			if b != "true" && b != "false" {
				return "", fmt.Errorf("T-break: saveflags: Save call in %s: secure argument %q is not a boolean literal", m, b)
			}
			if old, dup := flags[want[p[2:]]]; dup && old != b {
				return "", fmt.Errorf("T-break: saveflags: conflicting secure flags for %s", p)
			}
			flags[want[p[2:]]] = b
		}
	}
	for _, f := range want {
		if flags[f] == "" {
			return "", fmt.Errorf("T-break: saveflags: no Save call found for %s", f)
		}
	}
	// (2) key.Save: secure => fs.CreateSecureFile, else os.Create; nothing else opens the file
	save := sfFindFunc(ks, "", "Save")
	if save == nil {
		return "", fmt.Errorf("T-break: saveflags: func Save not found")
	}
	okSave := false
	ast.Inspect(save.Body, func(n ast.Node) bool {
		if is, ok := n.(*ast.IfStmt); ok {
			if id, ok := is.Cond.(*ast.Ident); ok && id.Name == "secure" && is.Else != nil {
				th, el := "", ""
				ast.Inspect(is.Body, func(n ast.Node) bool {
					if c, ok := n.(*ast.CallExpr); ok {
						th += sfChain(c.Fun) + ";"
					}
					return true
				})
				ast.Inspect(is.Else, func(n ast.Node) bool {
					if c, ok := n.(*ast.CallExpr); ok {
						el += sfChain(c.Fun) + ";"
					}
					return true
				})
				if th == "fs.CreateSecureFile;" && el == "os.Create;" {
					okSave = true
				}
			}
		}
		return true
	})
	if !okSave {
		return "", fmt.Errorf("T-break: saveflags: key.Save is not `if secure { fs.CreateSecureFile } else { os.Create }`")
	}
	// (3) fs.CreateSecureFile: os.Create; fd.Close; chmodFunc(file, rwFilePermission); os.OpenFile(file, os.O_RDWR, _)
	fsf, err := parseFile(repo, "internal/fs/fs.go")
	if err != nil {
		return "", err
	}
	csf := sfFindFunc(fsf, "", "CreateSecureFile")
	if csf == nil {
		return "", fmt.Errorf("T-break: saveflags: fs.CreateSecureFile not found")
	}
	var seq []string
	for _, c := range sfCalls(csf) {
		s := sfChain(c.Fun)
		if s == "fmt.Errorf" {
			continue
		}
		args := make([]string, len(c.Args))
		for i, a := range c.Args {
			args[i] = sfChain(a)
		}
		seq = append(seq, s+"("+strings.Join(args, ",")+")")
	}
	got := strings.Join(seq, " ")
	wantSeq := "os.Create(file) fd.Close() chmodFunc(file,rwFilePermission) os.OpenFile(file,os.O_RDWR,rwFilePermission)"
	if got != wantSeq {
		return "", fmt.Errorf("T-break: saveflags: fs.CreateSecureFile is %q, expected %q", got, wantSeq)
	}
	if v := fsf.findValue("chmodFunc"); v == nil || sfChain(v) != "os.Chmod" {
		return "", fmt.Errorf("T-break: saveflags: fs.chmodFunc is not os.Chmod")
	}
	// (4) the two bolt.Open calls take the named constants the model is parametric in
	for _, f := range []string{"internal/dkg/store.go", "internal/chain/boltdb/store.go", "internal/chain/boltdb/trimmed.go"} {
		pf, err := parseFile(repo, f)
		if err != nil {
			return "", err
		}
		n := 0
		var bad string
		ast.Inspect(pf.file, func(nd ast.Node) bool {
			if c, ok := nd.(*ast.CallExpr); ok && sfChain(c.Fun) == "bolt.Open" {
				n++
				if len(c.Args) != 3 || sfChain(c.Args[1]) != "BoltStoreOpenPerm" {
					bad = fmt.Sprintf("bolt.Open in %s does not pass BoltStoreOpenPerm", f)
				}
			}
			return true
		})
		if bad != "" {
			return "", fmt.Errorf("T-break: saveflags: %s", bad)
		}
		if n == 0 {
			return "", fmt.Errorf("T-break: saveflags: no bolt.Open call in %s", f)
		}
	}
	var sb strings.Builder
	sb.WriteString("(* GENERATED by zzv extract (harness/extract/saveflags.go) from common/key/store.go; do not edit.\n   The `secure` argument of key.Save at the call site that writes each key-store file. *)\n")
	sb.WriteString("From DV Require Import Model.Secrecy.\n")
	sb.WriteString("Definition save_secure (f : nfile) : bool :=\n  match f with\n")
	for _, f := range []string{"FKeyPrivate", "FKeyPublic", "FShare", "FGroup"} {
		fmt.Fprintf(&sb, "  | %s => %s\n", f, flags[f])
	}
	sb.WriteString("  | _ => false\n  end.\n")
	return sb.String(), nil
}
