package extract

// Shared AST helpers of the C17/C20 generators (hashorder.go, mirrors.go). All names carry the
// prefix cd to stay clear of the other generators of this package.

import (
	"bytes"
	"fmt"
	"go/ast"
	"go/parser"
	"go/printer"
	"go/token"
	"os"
	"path/filepath"
	"sort"
	"strconv"
	"strings"
)

// cdPkg is one parsed package directory (non-test files only; files with a build constraint
// line are skipped so that verif-only hook files never influence the tables).
type cdPkg struct {
	dir   string
	fset  *token.FileSet
	files map[string]*ast.File // rel path -> file
	types map[string]*ast.TypeSpec
	funcs map[string]*ast.FuncDecl // "Recv.Name" or "Name"
	where map[string]string        // func key -> rel file
	vals  map[string]ast.Expr      // package level const/var name -> value
	tfile map[string]*ast.File     // type name -> declaring file
	ffile map[string]*ast.File     // func key -> declaring file
}

func cdLoadPkg(repo, dir string) (*cdPkg, error) {
	p := &cdPkg{dir: dir, fset: token.NewFileSet(), files: map[string]*ast.File{}, types: map[string]*ast.TypeSpec{},
		funcs: map[string]*ast.FuncDecl{}, where: map[string]string{}, vals: map[string]ast.Expr{},
		tfile: map[string]*ast.File{}, ffile: map[string]*ast.File{}}
	ents, err := os.ReadDir(filepath.Join(repo, dir))
	if err != nil {
		return nil, fmt.Errorf("T-break: cannot read package %s: %w", dir, err)
	}
	var names []string
	for _, e := range ents {
		n := e.Name()
		if e.IsDir() || !strings.HasSuffix(n, ".go") || strings.HasSuffix(n, "_test.go") {
			continue
		}
		names = append(names, n)
	}
	sort.Strings(names)
	for _, n := range names {
		full := filepath.Join(repo, dir, n)
		src, err := os.ReadFile(full)
		if err != nil {
			return nil, err
		}
		if bytes.HasPrefix(src, []byte("//go:build")) {
			continue
		}
		f, err := parser.ParseFile(p.fset, full, src, parser.ParseComments)
		if err != nil {
			return nil, fmt.Errorf("T-break: parse %s/%s: %w", dir, n, err)
		}
		rel := dir + "/" + n
		p.files[rel] = f
		for _, d := range f.Decls {
			switch x := d.(type) {
			case *ast.GenDecl:
				for _, s := range x.Specs {
					switch sp := s.(type) {
					case *ast.TypeSpec:
						p.types[sp.Name.Name] = sp
						p.tfile[sp.Name.Name] = f
					case *ast.ValueSpec:
						for i, id := range sp.Names {
							if i < len(sp.Values) {
								p.vals[id.Name] = sp.Values[i]
							}
						}
					}
				}
			case *ast.FuncDecl:
				key := x.Name.Name
				if x.Recv != nil && len(x.Recv.List) == 1 {
					key = cdTypeName(x.Recv.List[0].Type) + "." + key
				}
				p.funcs[key] = x
				p.where[key] = rel
				p.ffile[key] = f
			}
		}
	}
	return p, nil
}

// cdTypeName strips pointers: *T -> T.
func cdTypeName(e ast.Expr) string {
	switch x := e.(type) {
	case *ast.StarExpr:
		return cdTypeName(x.X)
	case *ast.Ident:
		return x.Name
	case *ast.SelectorExpr:
		return cdTypeName(x.X) + "." + x.Sel.Name
	}
	return "?"
}

// cdSrc prints an expression or statement as source text (one line).
func cdSrc(fset *token.FileSet, n ast.Node) string {
	var b bytes.Buffer
	_ = printer.Fprint(&b, fset, n)
	s := strings.Join(strings.Fields(b.String()), " ")
	return s
}

func (p *cdPkg) pos(n ast.Node) string {
	ps := p.fset.Position(n.Pos())
	rel := ps.Filename
	if i := strings.Index(rel, p.dir); i >= 0 {
		rel = rel[i:]
	}
	return fmt.Sprintf("%s:%d", rel, ps.Line)
}

func (p *cdPkg) breakf(n ast.Node, format string, a ...interface{}) error {
	return fmt.Errorf("T-break: %s: %s", p.pos(n), fmt.Sprintf(format, a...))
}

// cdField is one field of a struct, with embedded structs of the same package flattened (as Go
// promotes them).
type cdField struct {
	Name string
	Type string // source text of the type
	Tag  string
}

// structFields lists the fields of a struct type of this package in declaration order.
func (p *cdPkg) structFields(name string) ([]cdField, error) {
	ts := p.types[name]
	if ts == nil {
		return nil, fmt.Errorf("T-break: struct %s not found in %s", name, p.dir)
	}
	return p.structTypeFields(ts.Type, name)
}

func (p *cdPkg) structTypeFields(t ast.Expr, name string) ([]cdField, error) {
	st, ok := t.(*ast.StructType)
	if !ok {
		return nil, fmt.Errorf("T-break: %s in %s is not a struct", name, p.dir)
	}
	var out []cdField
	for _, f := range st.Fields.List {
		tag := ""
		if f.Tag != nil {
			tag, _ = strconv.Unquote(f.Tag.Value)
		}
		ty := cdSrc(p.fset, f.Type)
		if len(f.Names) == 0 { // embedded
			en := cdTypeName(f.Type)
			if p.types[en] != nil {
				sub, err := p.structFields(en)
				if err != nil {
					return nil, err
				}
				out = append(out, sub...)
				continue
			}
			// embedded type of another package: the caller supplies its fields
			out = append(out, cdField{Name: "@" + en, Type: ty, Tag: tag})
			continue
		}
		for _, id := range f.Names {
			out = append(out, cdField{Name: id.Name, Type: ty, Tag: tag})
		}
	}
	return out, nil
}

// fieldType returns the declared type text of field f of struct name (promoted fields included).
func (p *cdPkg) fieldType(name, f string) (string, bool) {
	fs, err := p.structFields(name)
	if err != nil {
		return "", false
	}
	for _, x := range fs {
		if x.Name == f {
			return x.Type, true
		}
	}
	return "", false
}

// resolveAlias follows `type A = B` / `type A B` declarations inside the package.
func (p *cdPkg) resolveAlias(t string) string {
	for i := 0; i < 5; i++ {
		ts := p.types[t]
		if ts == nil {
			return t
		}
		if _, isStruct := ts.Type.(*ast.StructType); isStruct {
			return t
		}
		t = cdSrc(p.fset, ts.Type)
	}
	return t
}

// cdStringConst evaluates a package-level string constant (literal or another constant).
func (p *cdPkg) stringConst(name string) (string, error) {
	e := p.vals[name]
	for i := 0; i < 5 && e != nil; i++ {
		switch x := e.(type) {
		case *ast.BasicLit:
			if x.Kind == token.STRING {
				return strconv.Unquote(x.Value)
			}
		case *ast.Ident:
			e = p.vals[x.Name]
			continue
		}
		break
	}
	return "", fmt.Errorf("T-break: string constant %s not found in %s", name, p.dir)
}

func cdCoqString(s string) string { return "\"" + strings.ReplaceAll(s, "\"", "\"\"") + "\"" }

func cdCoqBytes(s string) string {
	parts := make([]string, len(s))
	for i := 0; i < len(s); i++ {
		parts[i] = strconv.Itoa(int(s[i]))
	}
	return "[" + strings.Join(parts, "; ") + "]"
}

func cdCoqStrList(xs []string) string {
	q := make([]string, len(xs))
	for i, x := range xs {
		q[i] = cdCoqString(x)
	}
	return "[" + strings.Join(q, "; ") + "]"
}

// cdSel matches X.Sel where X is the identifier root; returns the selector chain.
func cdSelChain(e ast.Expr) (root string, chain []string, ok bool) {
	switch x := e.(type) {
	case *ast.Ident:
		return x.Name, nil, true
	case *ast.SelectorExpr:
		r, c, ok := cdSelChain(x.X)
		if !ok {
			return "", nil, false
		}
		return r, append(c, x.Sel.Name), true
	case *ast.ParenExpr:
		return cdSelChain(x.X)
	}
	return "", nil, false
}

// cdCall matches f(args) where f is pkg.Name or Name; returns "pkg.Name".
func cdCallName(e ast.Expr) (string, *ast.CallExpr, bool) {
	c, ok := e.(*ast.CallExpr)
	if !ok {
		return "", nil, false
	}
	r, ch, ok := cdSelChain(c.Fun)
	if !ok {
		return "", c, false
	}
	return strings.Join(append([]string{r}, ch...), "."), c, true
}

// cdSchemeNames reads the scheme names accepted by crypto.SchemeFromName (the case labels of
// its switch, each a string constant) and the default used by GetSchemeByID for "".
func cdSchemeNames(repo string) (names []string, def string, err error) {
	p, err := cdLoadPkg(repo, "crypto")
	if err != nil {
		return nil, "", err
	}
	fn := p.funcs["SchemeFromName"]
	if fn == nil {
		return nil, "", fmt.Errorf("T-break: crypto.SchemeFromName not found")
	}
	var sw *ast.SwitchStmt
	for _, s := range fn.Body.List {
		if x, ok := s.(*ast.SwitchStmt); ok {
			sw = x
		}
	}
	if sw == nil || len(fn.Body.List) != 1 {
		return nil, "", p.breakf(fn, "SchemeFromName is not a single switch")
	}
	if id, ok := sw.Tag.(*ast.Ident); !ok || id.Name != fn.Type.Params.List[0].Names[0].Name {
		return nil, "", p.breakf(sw, "SchemeFromName does not switch on its argument")
	}
	sawDefault := false
	for _, c := range sw.Body.List {
		cc := c.(*ast.CaseClause)
		if cc.List == nil {
			sawDefault = true
			// the default branch must return an error
			if len(cc.Body) != 1 || !strings.Contains(cdSrc(p.fset, cc.Body[0]), "return nil,") {
				return nil, "", p.breakf(cc, "default branch of SchemeFromName does not return (nil, error)")
			}
			continue
		}
		for _, l := range cc.List {
			id, ok := l.(*ast.Ident)
			if !ok {
				return nil, "", p.breakf(l, "case label is not a constant identifier")
			}
			v, err := p.stringConst(id.Name)
			if err != nil {
				return nil, "", err
			}
			names = append(names, v)
		}
		if len(cc.Body) != 1 || !strings.HasSuffix(cdSrc(p.fset, cc.Body[0]), ", nil") {
			return nil, "", p.breakf(cc, "case of SchemeFromName does not return (scheme, nil)")
		}
	}
	if !sawDefault {
		return nil, "", p.breakf(sw, "SchemeFromName has no rejecting default branch")
	}
	// GetSchemeByID: if id == "" { id = DefaultSchemeID }; return SchemeFromName(id)
	g := p.funcs["GetSchemeByID"]
	if g == nil || len(g.Body.List) != 2 {
		return nil, "", fmt.Errorf("T-break: crypto.GetSchemeByID has an unexpected shape")
	}
	src0, src1 := cdSrc(p.fset, g.Body.List[0]), cdSrc(p.fset, g.Body.List[1])
	if src0 != `if id == "" { id = DefaultSchemeID }` || src1 != "return SchemeFromName(id)" {
		return nil, "", p.breakf(g, "GetSchemeByID has an unexpected shape: %s; %s", src0, src1)
	}
	def, err = p.stringConst("DefaultSchemeID")
	if err != nil {
		return nil, "", err
	}
	return names, def, nil
}
