package extract

// Statement interpreter of the mirror translator (see mirrors.go).

import (
	"fmt"
	"go/ast"
	"go/token"
	"strings"
)

func (c *mctx) stmts(list []ast.Stmt) error {
	for _, s := range list {
		if err := c.stmt(s); err != nil {
			return err
		}
	}
	return nil
}

func isReturnOnly(body *ast.BlockStmt) bool {
	if len(body.List) != 1 {
		return false
	}
	_, ok := body.List[0].(*ast.ReturnStmt)
	return ok
}

// adopt makes a freshly built value of the destination type the destination.
func (c *mctx) adopt(v *mv) {
	if v.k == "build" && c.dst == nil && strings.HasPrefix(c.spec.DstFrom, "ret") && c.dstT != nil &&
		v.b.typ.Deref().String() == c.dstT.String() {
		v.b.isDst = true
		c.dst = v.b
	}
}

func (c *mctx) declare(name string, typ ast.Expr, val ast.Expr) error {
	if typ != nil {
		if _, isAnon := typ.(*ast.StructType); isAnon {
			t := c.w.typeOf(typ, c.spec.Dir, c.file)
			switch {
			case c.spec.DstFrom == "local:"+name:
				c.dstT = t
				c.dst = &mbuild{typ: t, isDst: true}
				c.locals[name] = &mv{k: "build", b: c.dst, t: t}
				return nil
			case c.spec.SrcFrom == "local:"+name:
				c.srcT = t
				c.locals[name] = &mv{k: "src", t: t}
				return nil
			}
			return fmt.Errorf("T-break: %s: anonymous struct local %s is neither source nor destination", c.spec.Name, name)
		}
	}
	if val == nil {
		c.locals[name] = &mv{k: "nil", t: c.w.typeOf(typ, c.spec.Dir, c.file)}
		return nil
	}
	v := c.eval(val)
	c.adopt(v)
	c.locals[name] = v
	return nil
}

func (c *mctx) stmt(s ast.Stmt) error {
	switch x := s.(type) {
	case *ast.DeclStmt:
		gd := x.Decl.(*ast.GenDecl)
		if gd.Tok != token.VAR {
			return c.brk(s, "unsupported declaration")
		}
		for _, sp := range gd.Specs {
			vs := sp.(*ast.ValueSpec)
			for i, id := range vs.Names {
				var val ast.Expr
				if i < len(vs.Values) {
					val = vs.Values[i]
				}
				if err := c.declare(id.Name, vs.Type, val); err != nil {
					return err
				}
			}
		}
		return nil
	case *ast.AssignStmt:
		return c.assign(x)
	case *ast.IfStmt:
		return c.ifStmt(x)
	case *ast.RangeStmt:
		return c.rangeStmt(x)
	case *ast.ReturnStmt:
		return c.returnStmt(x)
	case *ast.ExprStmt:
		if call, ok := x.X.(*ast.CallExpr); ok {
			if ok, err := c.effect(call); ok || err != nil {
				return err
			}
		}
	}
	return c.brk(s, "unrecognised statement: %s", c.src(s))
}

func (c *mctx) assign(x *ast.AssignStmt) error {
	if len(x.Rhs) != 1 {
		return c.brk(x, "multi-value assignment: %s", c.src(x))
	}
	rhs := x.Rhs[0]
	// gt, ok := i.(*GroupTOML): alias of the source value
	if ta, ok := rhs.(*ast.TypeAssertExpr); ok {
		if id, ok := ta.X.(*ast.Ident); ok && id.Name == c.srcName && c.spec.SrcFrom == "param" {
			l := x.Lhs[0].(*ast.Ident).Name
			t := c.w.typeOf(ta.Type, c.spec.Dir, c.file)
			if t.Deref().String() != c.srcT.String() {
				return c.brk(x, "source asserted to %s, expected %s", t, c.srcT)
			}
			c.locals[l] = &mv{k: "src", t: t}
			return nil
		}
	}
	// legacy := a != "" && b == "": a local standing for a boolean condition
	if len(x.Lhs) == 1 && isBoolExpr(rhs) {
		if id, ok := x.Lhs[0].(*ast.Ident); ok && id.Name != "_" {
			c.locals[id.Name] = &mv{k: "cond", text: c.ccond(rhs), ast: rhs}
			return nil
		}
	}
	if call, ok := rhs.(*ast.CallExpr); ok {
		fun := c.src(call.Fun)
		if ok, err := c.effect(call); ok || err != nil {
			return err
		}
		switch {
		case fun == "json.Unmarshal" && strings.HasPrefix(c.spec.SrcFrom, "local:") && len(call.Args) == 2 &&
			c.src(call.Args[1]) == "&"+strings.TrimPrefix(c.spec.SrcFrom, "local:"):
			return nil // fills the source struct
		case fun == "net.SplitHostPort" && len(call.Args) == 1:
			v := c.eval(call.Args[0])
			if v.k == "src" && len(v.ops) == 0 {
				c.out.Checks = append(c.out.Checks, "ChkHostPort "+cdCoqPath(v.path))
				return nil
			}
		case fun == "append" && len(call.Args) == 2 && c.loop != nil && c.src(call.Args[0]) == c.src(x.Lhs[0]):
			c.loop.results = append(c.loop.results, bentry{nil, c.eval(call.Args[1])})
			c.loop.targets = append(c.loop.targets, x.Lhs[0])
			return nil
		}
	}
	if len(x.Lhs) > 2 {
		return c.brk(x, "unsupported assignment: %s", c.src(x))
	}
	if len(x.Lhs) == 2 {
		if id, ok := x.Lhs[1].(*ast.Ident); !ok || (id.Name != "err" && id.Name != "ok" && id.Name != "_") {
			return c.brk(x, "unsupported assignment: %s", c.src(x))
		}
	}
	l, err := c.lhs(x.Lhs[0])
	if err != nil {
		return err
	}
	v := c.eval(rhs)
	if l.kind == "local" {
		c.adopt(v)
	}
	if l.kind == "blank" && v.k == "unknown" {
		return c.brk(x, "unrecognised statement: %s", c.src(x))
	}
	return c.store(l, v, x)
}

func (c *mctx) cexpr(v *mv) string {
	pureCopy := func(ops []string) bool {
		for _, o := range ops {
			if o != "Copy" && !strings.HasPrefix(o, "Cast") {
				return false
			}
		}
		return true
	}
	lenOK := func(ops []string) bool {
		for _, o := range ops {
			if !strings.HasPrefix(o, "Map") {
				return false
			}
		}
		return true
	}
	switch v.k {
	case "src":
		if len(v.ops) == 1 && v.ops[0] == "HashStringOf" {
			return "CHashString"
		}
		if v.root == "" && pureCopy(v.ops) {
			return "(CField " + cdCoqPath(v.path) + ")"
		}
		// a duration compared with zero: OfSecs x == 0 <-> x == 0
		if v.root == "" && len(v.ops) == 1 && v.ops[0] == "OfSecs" {
			return "(CField " + cdCoqPath(v.path) + ")"
		}
	case "len":
		if v.text == "src" && v.root == "" && lenOK(v.ops) {
			return "(CLen " + cdCoqPath(v.path) + ")"
		}
	case "mint":
		if v.text == "len" && v.root == "" && lenOK(v.ops) {
			return "(CMinT (CLen " + cdCoqPath(v.path) + "))"
		}
	case "const":
		return "(CConst " + v.text + ")"
	case "dsthash":
		if v.text == "HashString" {
			return "CHashString"
		}
	}
	return "(CUnknown " + cdCoqString(c.render(v)) + ")"
}

func (c *mctx) wrapCheck(chk string) string {
	for i := len(c.guards) - 1; i >= 0; i-- {
		g := c.guards[i]
		switch g.kind {
		case "IfNonEmpty":
			chk = fmt.Sprintf("ChkIfNonEmpty %s (%s)", cdCoqPath(g.path), chk)
		case "LenPos":
			chk = fmt.Sprintf("ChkIfLenPos %s (%s)", cdCoqPath(g.path), chk)
		case "Cond":
			chk = fmt.Sprintf("ChkIf %s (%s)", g.text, chk)
		default:
			chk = fmt.Sprintf("ChkExternal %s", cdCoqString("guarded by "+g.kind+" "+strings.Join(g.path, ".")+": "+chk))
		}
	}
	return chk
}

// condCheck tries to read `a rel b` as a reject condition.
func (c *mctx) condCheck(cond ast.Expr) (string, bool) {
	b, ok := cond.(*ast.BinaryExpr)
	if !ok {
		return "", false
	}
	rel := map[token.Token]string{token.LSS: "RLt", token.GTR: "RGt", token.EQL: "REq", token.NEQ: "RNe"}[b.Op]
	if rel == "" {
		return "", false
	}
	// time.Duration(0) on the right
	l, r := c.eval(b.X), c.eval(b.Y)
	ls, rs := c.cexpr(l), c.cexpr(r)
	if strings.HasPrefix(ls, "(CUnknown") && strings.HasPrefix(rs, "(CUnknown") {
		return "", false
	}
	return fmt.Sprintf("ChkRejectIf %s %s %s", rel, ls, rs), true
}

func isBoolExpr(e ast.Expr) bool {
	switch x := e.(type) {
	case *ast.ParenExpr:
		return isBoolExpr(x.X)
	case *ast.UnaryExpr:
		return x.Op == token.NOT
	case *ast.BinaryExpr:
		switch x.Op {
		case token.LAND, token.LOR, token.EQL, token.NEQ, token.LSS, token.GTR, token.LEQ, token.GEQ:
			return true
		}
	}
	return false
}

// ccond reads a boolean expression over source fields (destination fields are traced back to the
// source field they were copied from) as a term of the closed vocabulary `ccond`.
func (c *mctx) ccond(e ast.Expr) string {
	switch x := e.(type) {
	case *ast.ParenExpr:
		return c.ccond(x.X)
	case *ast.Ident:
		if v := c.locals[x.Name]; v != nil && v.k == "cond" {
			return v.text
		}
	case *ast.UnaryExpr:
		if x.Op == token.NOT {
			return "(CNotC " + c.ccond(x.X) + ")"
		}
	case *ast.BinaryExpr:
		if x.Op == token.LAND {
			return "(CAndC " + c.ccond(x.X) + " " + c.ccond(x.Y) + ")"
		}
		if x.Op == token.NEQ || x.Op == token.EQL {
			v := c.eval(x.X)
			pure := v.k == "src" && v.root == ""
			for _, o := range v.ops {
				if o != "Copy" {
					pure = false
				}
			}
			if pure {
				switch rhs := c.src(x.Y); {
				case rhs == `""` && x.Op == token.NEQ:
					return "(CNonEmpty " + cdCoqPath(v.path) + ")"
				case rhs == `""` && x.Op == token.EQL:
					return "(CEmpty " + cdCoqPath(v.path) + ")"
				case rhs == "nil" && x.Op == token.NEQ:
					return "(CNonNil " + cdCoqPath(v.path) + ")"
				case rhs == "nil" && x.Op == token.EQL:
					return "(CNotC (CNonNil " + cdCoqPath(v.path) + "))"
				}
			}
		}
	}
	return "(CCondUnknown " + cdCoqString(c.src(e)) + ")"
}

// checksOnly tells whether a block consists of reject checks only (ifs that return or nest such ifs).
func checksOnly(b *ast.BlockStmt) bool {
	if len(b.List) == 0 {
		return false
	}
	for _, s := range b.List {
		is, ok := s.(*ast.IfStmt)
		if !ok || is.Init != nil || is.Else != nil {
			return false
		}
		if !isReturnOnly(is.Body) && !checksOnly(is.Body) {
			return false
		}
	}
	return true
}

func (c *mctx) ifStmt(x *ast.IfStmt) error {
	// a local boolean stands for its defining expression
	if id, ok := x.Cond.(*ast.Ident); ok {
		if v := c.locals[id.Name]; v != nil && v.k == "cond" && v.ast != nil {
			y := *x
			y.Cond = v.ast
			return c.ifStmt(&y)
		}
	}
	cond := c.src(x.Cond)
	if x.Init != nil {
		if err := c.stmt(x.Init); err != nil {
			return err
		}
		if cond == "err != nil" && isReturnOnly(x.Body) && x.Else == nil {
			return nil
		}
		return c.brk(x, "if with init in an unrecognised shape: %s", c.src(x))
	}
	if (cond == "err != nil" || cond == "!ok") && x.Else == nil {
		if isReturnOnly(x.Body) {
			return nil
		}
		return c.brk(x, "error branch does more than returning")
	}
	if b, ok := x.Cond.(*ast.BinaryExpr); ok && x.Else == nil && isReturnOnly(x.Body) {
		if id, ok := b.X.(*ast.Ident); ok && c.src(b.Y) == "nil" && b.Op == token.EQL {
			if id.Name == c.srcName {
				return nil // nil source: nothing to convert
			}
			if v := c.locals[id.Name]; v != nil && v.k == "ext" {
				c.out.Checks = append(c.out.Checks, "ChkExternal "+cdCoqString(cond))
				return nil
			}
		}
	}
	// comparisons on source / destination values
	if b, ok := x.Cond.(*ast.BinaryExpr); ok {
		rhs := c.src(b.Y)
		lv := c.eval(b.X)
		// (e) if DST.F == nil { DST.F = new(T) }
		if b.Op == token.EQL && rhs == "nil" && x.Else == nil && (lv.k == "buildfield" || lv.k == "build") && len(x.Body.List) == 1 {
			if as, ok := x.Body.List[0].(*ast.AssignStmt); ok && c.src(as.Lhs[0]) == c.src(b.X) && strings.HasPrefix(c.src(as.Rhs[0]), "new(") {
				if lv.k == "buildfield" {
					return c.stmt(as)
				}
				return nil
			}
		}
		// (a) if SRC == nil { x = "const" } else { x = SRC.Name }
		if b.Op == token.EQL && rhs == "nil" && lv.k == "src" && c.w.class(lv.t) == "scheme" && x.Else != nil && len(x.Body.List) == 1 {
			if eb, ok := x.Else.(*ast.BlockStmt); ok && len(eb.List) == 1 {
				a1, ok1 := x.Body.List[0].(*ast.AssignStmt)
				a2, ok2 := eb.List[0].(*ast.AssignStmt)
				if ok1 && ok2 && c.src(a1.Lhs[0]) == c.src(a2.Lhs[0]) && c.src(a2.Rhs[0]) == c.src(b.X)+".Name" {
					if _, isLit := a1.Rhs[0].(*ast.BasicLit); isLit {
						c.out.Presets = append(c.out.Presets, fmt.Sprintf("%s: nil scheme is written as %s", strings.Join(lv.path, "."), c.src(a1.Rhs[0])))
						return c.stmt(a2)
					}
				}
			}
		}
		// (d) if SRC == "" { D.F = 0 } else { D.F, err = time.ParseDuration(SRC); if err != nil { return err } }
		if b.Op == token.EQL && rhs == `""` && lv.k == "src" && len(lv.ops) == 0 && x.Else != nil && len(x.Body.List) == 1 {
			if eb, ok := x.Else.(*ast.BlockStmt); ok && len(eb.List) == 2 {
				a1, ok1 := x.Body.List[0].(*ast.AssignStmt)
				a2, ok2 := eb.List[0].(*ast.AssignStmt)
				if ok1 && ok2 && c.src(a1.Lhs[0]) == c.src(a2.Lhs[0]) && c.src(a1.Rhs[0]) == "0" &&
					c.src(a2.Rhs[0]) == "time.ParseDuration("+c.src(b.X)+")" {
					if err := c.stmt(eb.List[1]); err != nil {
						return err
					}
					l, err := c.lhs(a2.Lhs[0])
					if err != nil {
						return err
					}
					return c.store(l, withOp(lv, "ParseDurOrZero", named("time.Duration")), x)
				}
			}
		}
		// guards: if SRC != nil|0|"" { ... }
		if b.Op == token.NEQ && x.Else == nil && lv.k == "src" && len(lv.ops) == 0 && !isReturnOnly(x.Body) {
			kind := map[string]string{"nil": "IfNotNil", "0": "IfNonZero", `""`: "IfNonEmpty"}[rhs]
			if kind != "" {
				c.guards = append(c.guards, newGuard(kind, lv.root, lv.path))
				err := c.stmts(x.Body.List)
				c.guards = c.guards[:len(c.guards)-1]
				return err
			}
		}
		// if len(BUILD.F) > 0 { check; D.G = BUILD }
		if b.Op == token.GTR && rhs == "0" && lv.k == "len" && lv.text == "src" && x.Else == nil {
			c.guards = append(c.guards, newGuard("LenPos", lv.root, lv.path))
			c.wrapLen = lv
			err := c.stmts(x.Body.List)
			c.wrapLen = nil
			c.guards = c.guards[:len(c.guards)-1]
			return err
		}
	}
	// (b) Info.ToProto: caller-supplied metadata or a fresh one, beacon id set in both branches
	if id, ok := condIdentNotNil(x.Cond); ok && x.Else != nil {
		if v := c.locals[id]; v != nil && v.k == "ext" && len(x.Body.List) == 1 {
			if eb, ok := x.Else.(*ast.BlockStmt); ok && len(eb.List) == 1 {
				a1, ok1 := x.Body.List[0].(*ast.AssignStmt)
				a2, ok2 := eb.List[0].(*ast.AssignStmt)
				if ok1 && ok2 && strings.HasPrefix(c.src(a1.Lhs[0]), id+".") && c.src(a2.Lhs[0]) == id {
					f := strings.TrimPrefix(c.src(a1.Lhs[0]), id+".")
					nb := c.eval(a2.Rhs[0])
					val := c.eval(a1.Rhs[0])
					if nb.k == "build" && len(nb.b.entries) == 1 && cdPathEq(nb.b.entries[0].dst, []string{f}) &&
						c.render(nb.b.entries[0].v) == c.render(val) {
						c.locals[id] = nb
						return nil
					}
				}
			}
		}
	}
	// legacy override block of a decoder: if SRC.A != "" && DST.B == "" { DST.x = SRC.y ... }
	if ov, ok, err := c.override(x); ok || err != nil {
		if err == nil {
			c.out.Overrides = append(c.out.Overrides, ov...)
		}
		return err
	}
	// checks under a compound condition: if A && !B { if ... { return err } }
	if x.Else == nil && !isReturnOnly(x.Body) && checksOnly(x.Body) {
		g := newGuard("Cond", "", nil)
		g.text = c.ccond(x.Cond)
		c.guards = append(c.guards, g)
		err := c.stmts(x.Body.List)
		c.guards = c.guards[:len(c.guards)-1]
		return err
	}
	// reject conditions, possibly chained with else-if
	if isReturnOnly(x.Body) {
		chk, ok := c.condCheck(x.Cond)
		if !ok {
			chk = "ChkExternal " + cdCoqString(cond)
		}
		c.out.Checks = append(c.out.Checks, c.wrapCheck(chk))
		switch e := x.Else.(type) {
		case nil:
			return nil
		case *ast.IfStmt:
			return c.ifStmt(e)
		}
	}
	// nested guard on a destination-side expression used for checks: if SRC != "" { if ... { return } }
	return c.brk(x, "unrecognised if statement: %s", c.src(x))
}

func condIdentNotNil(e ast.Expr) (string, bool) {
	b, ok := e.(*ast.BinaryExpr)
	if !ok || b.Op != token.NEQ {
		return "", false
	}
	id, ok := b.X.(*ast.Ident)
	if !ok {
		return "", false
	}
	if y, ok := b.Y.(*ast.Ident); !ok || y.Name != "nil" {
		return "", false
	}
	return id.Name, true
}

// override recognises the backward-compatibility block of Info.UnmarshalJSON: under a condition
// on the source, destination fields are re-assigned from other source fields.
func (c *mctx) override(x *ast.IfStmt) ([]MirOverride, bool, error) {
	b, ok := x.Cond.(*ast.BinaryExpr)
	if !ok || b.Op != token.LAND || x.Else != nil {
		return nil, false, nil
	}
	l, ok := b.X.(*ast.BinaryExpr)
	if !ok || l.Op != token.NEQ || c.src(l.Y) != `""` {
		return nil, false, nil
	}
	g := c.eval(l.X)
	if g.k != "src" || g.root != "" || len(g.ops) != 0 {
		return nil, false, nil
	}
	var out []MirOverride
	var walk func(cond string, list []ast.Stmt) error
	walk = func(cond string, list []ast.Stmt) error {
		for _, s := range list {
			switch y := s.(type) {
			case *ast.AssignStmt:
				if len(y.Lhs) != 1 || len(y.Rhs) != 1 {
					return c.brk(s, "unsupported statement in override block")
				}
				lh, err := c.lhs(y.Lhs[0])
				if err != nil || lh.kind != "field" || !lh.b.isDst {
					return c.brk(s, "override block assigns to something else than the destination")
				}
				v := c.eval(y.Rhs[0])
				if v.k != "src" {
					return c.brk(s, "override block reads something else than the source")
				}
				ops := v.ops
				if c.w.class(v.t) == "hexbytes" && strings.HasPrefix(c.spec.SrcFrom, "local:") {
					ops = append([]string{"UnHex"}, ops...)
				}
				out = append(out, MirOverride{cond, MirEntry{lh.path, ops, v.path}})
			case *ast.IfStmt:
				if y.Else != nil || y.Init != nil {
					return c.brk(s, "unsupported if in override block")
				}
				if err := walk("(CAndC "+cond+" "+c.ccond(y.Cond)+")", y.Body.List); err != nil {
					return err
				}
			default:
				return c.brk(s, "unsupported statement in override block")
			}
		}
		return nil
	}
	// the condition is read before the block changes the destination
	cond := c.ccond(x.Cond)
	if err := walk(cond, x.Body.List); err != nil {
		return nil, true, err
	}
	return out, true, nil
}

func (c *mctx) rangeStmt(x *ast.RangeStmt) error {
	if c.loop != nil {
		return c.brk(x, "nested loop")
	}
	list := c.eval(x.X)
	if list.k != "src" || len(list.ops) != 0 || list.t == nil || list.t.Kind != "slice" {
		return c.brk(x, "loop over something else than a source slice: %s", c.src(x.X))
	}
	v, ok := x.Value.(*ast.Ident)
	if !ok || x.Tok != token.DEFINE {
		return c.brk(x, "unrecognised range header")
	}
	saved := map[string]*mv{}
	for k, val := range c.locals {
		saved[k] = val
	}
	c.loop = &mloop{v: v.Name, list: list, elemT: list.t.Elem}
	c.locals[v.Name] = &mv{k: "src", root: v.Name, t: list.t.Elem}
	if k, ok := x.Key.(*ast.Ident); ok && k.Name != "_" {
		c.locals[k.Name] = &mv{k: "index"}
	}
	err := c.stmts(x.Body.List)
	lp := c.loop
	c.loop = nil
	c.locals = saved
	if err != nil {
		return err
	}
	if len(lp.results) == 0 {
		return c.brk(x, "loop does not produce elements")
	}
	// the last write to each target wins
	done := map[string]bool{}
	for i := len(lp.results) - 1; i >= 0; i-- {
		key := c.src(lp.targets[i])
		if done[key] {
			continue
		}
		done[key] = true
		ev := lp.results[i].v
		var op string
		switch {
		case ev.k == "src" && ev.root == lp.v && len(ev.path) == 0 && len(ev.ops) == 1:
			switch o := ev.ops[0]; {
			case o == "PointStr" || o == "StrPoint" || o == "PointBytes" || o == "BytesPoint":
				op = "Map" + o
			case strings.HasPrefix(o, "Nested "):
				op = "Map" + o
			}
		case ev.k == "build":
			name := c.spec.Name + "#" + strings.TrimPrefix(key[strings.LastIndex(key, ".")+1:], "&")
			sub, err := c.subMirror(name, ev.b, lp.v, lp.elemT)
			if err != nil {
				return err
			}
			c.out.SubMirrors = append(c.out.SubMirrors, sub)
			op = "MapNested " + cdCoqString(name)
		}
		if op == "" {
			op = "Unknown " + cdCoqString("element: "+c.render(ev))
		}
		res := withOp(list, op, nil)
		l, err := c.lhs(lp.targets[i])
		if err != nil {
			return err
		}
		if l.kind == "elem" {
			return c.brk(x, "unsupported loop target")
		}
		if err := c.store(l, res, x); err != nil {
			return err
		}
	}
	return nil
}

func (c *mctx) returnStmt(x *ast.ReturnStmt) error {
	if len(x.Results) == 0 {
		return nil
	}
	r0 := x.Results[0]
	if call, ok := r0.(*ast.CallExpr); ok {
		if ok, err := c.effect(call); ok || err != nil {
			return err
		}
		if c.src(call.Fun) == "json.Marshal" && len(call.Args) == 1 && c.spec.DstFrom == "local:"+c.src(call.Args[0]) {
			return nil
		}
	}
	if id, ok := r0.(*ast.Ident); ok && (id.Name == "nil" || id.Name == "err") {
		return nil
	}
	v := c.eval(r0)
	if v.k == "build" {
		if c.spec.DstFrom == "ret" && v.b.typ.Deref().String() == c.dstT.String() {
			v.b.isDst = true
			c.dst = v.b
			return nil
		}
	}
	return c.brk(x, "unrecognised return: %s", c.src(x))
}

// subMirror turns a per-element composite literal into a named mirror whose source is the
// element. Inner composites of a root type whose sources share one root-typed prefix become
// nested mirrors of their own.
func (c *mctx) subMirror(name string, b *mbuild, elem string, elemT *MirType) (*MirOut, error) {
	out := &MirOut{Spec: MirSpec{Name: name, Dir: c.spec.Dir, Fn: c.spec.Fn}, SrcType: elemT.Deref(), DstType: b.typ.Deref(), Synthetic: true, Pos: c.out.Pos}
	var err error
	if out.SrcLeaves, err = c.w.leaves(elemT, c.roots, 0); err != nil {
		return nil, err
	}
	if out.DstLeaves, err = c.w.leaves(b.typ, c.roots, 0); err != nil {
		return nil, err
	}
	for _, be := range b.entries {
		v := be.v
		if v.k == "build" && c.roots[v.b.typ.Deref().String()] {
			// common prefix
			var pre []string
			okp := len(v.b.entries) > 0
			for _, ie := range v.b.entries {
				if ie.v.k != "src" || ie.v.root != elem || len(ie.v.path) < 2 {
					okp = false
					break
				}
				if pre == nil {
					pre = ie.v.path[:1]
				} else if pre[0] != ie.v.path[0] {
					okp = false
				}
			}
			if okp {
				_, pt, _ := c.w.field(elemT, pre[0])
				if pt != nil && c.roots[pt.Deref().String()] {
					inner := &mbuild{typ: v.b.typ}
					for _, ie := range v.b.entries {
						n := *ie.v
						n.path = ie.v.path[1:]
						inner.set(ie.dst, &n)
					}
					iname := name + "#" + strings.Join(be.dst, ".")
					sub, err := c.subMirror(iname, inner, elem, pt)
					if err != nil {
						return nil, err
					}
					out.SubMirrors = append(out.SubMirrors, sub)
					out.Entries = append(out.Entries, MirEntry{be.dst, []string{"Nested " + cdCoqString(iname)}, pre})
					continue
				}
			}
		}
		out.Entries = append(out.Entries, c.flatten(be.dst, v, elem)...)
	}
	c.normalise(out)
	return out, nil
}

// flatten turns one recorded destination assignment into entries.
func (c *mctx) flatten(dst []string, v *mv, root string) []MirEntry {
	switch v.k {
	case "src", "scheme":
		if v.root != root {
			return []MirEntry{{dst, []string{"Unknown " + cdCoqString(c.render(v))}, nil}}
		}
		return []MirEntry{{dst, append([]string{}, v.ops...), v.path}}
	case "ext":
		return []MirEntry{{dst, []string{"External " + cdCoqString(v.text)}, nil}}
	case "build":
		isRoot := c.roots[v.b.typ.Deref().String()]
		if isRoot && len(v.b.entries) == 1 && (v.b.entries[0].v.k == "src" || v.b.entries[0].v.k == "scheme") && len(v.b.entries[0].dst) == 1 {
			ie := v.b.entries[0]
			return []MirEntry{{dst, append(append([]string{}, ie.v.ops...), "WrapField "+cdCoqString(ie.dst[0])), ie.v.path}}
		}
		if isRoot {
			return []MirEntry{{dst, []string{"Unknown " + cdCoqString("inline construction of "+v.b.typ.String())}, nil}}
		}
		var out []MirEntry
		// later assignments to the same inner field win
		seen := map[string]bool{}
		for i := len(v.b.entries) - 1; i >= 0; i-- {
			ie := v.b.entries[i]
			k := strings.Join(ie.dst, ".")
			if seen[k] {
				continue
			}
			seen[k] = true
			out = append(c.flatten(append(append([]string{}, dst...), ie.dst...), ie.v, root), out...)
		}
		return out
	case "nil":
		return nil
	}
	return []MirEntry{{dst, []string{"Unknown " + cdCoqString(c.render(v)+" "+v.text)}, nil}}
}

// normalise rewrites source paths that run through a root-typed leaf into Field projections,
// adds the implicit hex layer of HexBytes-typed JSON fields, and replaces empty op lists by Copy.
func (c *mctx) normalise(out *MirOut) {
	isLeaf := func(ls [][]string, p []string) bool {
		for _, l := range ls {
			if cdPathEq(l, p) {
				return true
			}
		}
		return false
	}
	for i := range out.Entries {
		e := &out.Entries[i]
		if len(e.Src) > 0 && !isLeaf(out.SrcLeaves, e.Src) {
			fixed := false
			for k := len(e.Src) - 1; k >= 1; k-- {
				if isLeaf(out.SrcLeaves, e.Src[:k]) {
					var ops []string
					for _, f := range e.Src[k:] {
						ops = append(ops, "Field "+cdCoqString(f))
					}
					// an OptField right after replaces the first projection
					e.Ops = append(ops, e.Ops...)
					e.Src = e.Src[:k]
					fixed = true
					break
				}
			}
			if !fixed {
				e.Ops = append([]string{"Unknown " + cdCoqString("source path "+strings.Join(e.Src, ".")+" is not a leaf")}, e.Ops...)
			}
		}
		if len(e.Ops) == 0 {
			e.Ops = []string{"Copy"}
		}
	}
}

func cdCoqPath(p []string) string { return cdCoqStrList(p) }

func cdCoqEntry(e MirEntry) string {
	ops := e.Ops
	if len(ops) == 0 {
		ops = []string{"Copy"}
	}
	return fmt.Sprintf("E %s [%s] %s", cdCoqPath(e.Dst), strings.Join(ops, "; "), cdCoqPath(e.Src))
}
