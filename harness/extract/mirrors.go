package extract

// Generator for coq/Gen/Mirrors.v (C20, C17): for every hand-maintained conversion function
// between a value and its stored / transmitted mirror, the list `dst field <- ops(src field)`
// read off the function body by a small symbolic interpreter, the decode-side checks, and the
// leaf-field lists of the structs involved. Expressions outside the recognised vocabulary
// become `Unknown "<src>"` (which no checker accepts); statements outside the recognised
// shapes are a T-break.

import (
	"fmt"
	"go/ast"
	"go/token"
	"strings"
)

func init() { register("Mirrors.v", genMirrors) }

// MirSpec names one conversion function.
type MirSpec struct {
	Name    string // name of the mirror in Gen/Mirrors.v
	Dir     string // package directory
	Fn      string // "Recv.Method" or "Func"
	Src     string // qualified source struct type ("" = anonymous local struct SrcLocal)
	Dst     string // qualified destination struct type ("" = anonymous local struct DstLocal)
	SrcFrom string // "recv" | "param" (first parameter, possibly through a type assertion) | "local:<name>"
	DstFrom string // "ret" | "recv" | "local:<name>"
}

// MirEntry is one `dst <- ops(src)` line.
type MirEntry struct {
	Dst []string
	Ops []string
	Src []string
}

// MirOverride is one conditional re-assignment of a destination field in a decoder (legacy
// spellings): when Cond (a ccond term over source paths) holds, Entry replaces the plain entry.
type MirOverride struct {
	Cond  string
	Entry MirEntry
}

// MirOut is the translation of one conversion function.
type MirOut struct {
	Spec       MirSpec
	SrcType    *MirType
	DstType    *MirType
	SrcLeaves  [][]string
	DstLeaves  [][]string
	Entries    []MirEntry
	Checks     []string
	Overrides  []MirOverride
	Presets    []string
	Pos        string
	SrcFields  []MirField
	DstFields  []MirField
	Synthetic  bool
	SubMirrors []*MirOut
}

const (
	dKey   = "common/key"
	dChain = "common/chain"
	dDKG   = "internal/dkg"
	dBcn   = "internal/chain/beacon"
	dPB    = "protobuf/drand"
	dPBD   = "protobuf/dkg"
)

// MirSpecs is the list of conversion functions covered (order: leaves first).
var MirSpecs = []MirSpec{
	{"DistPublic.TOML", dKey, "DistPublic.TOML", dKey + ".DistPublic", dKey + ".DistPublicTOML", "recv", "ret"},
	{"DistPublic.FromTOML", dKey, "DistPublic.FromTOML", dKey + ".DistPublicTOML", dKey + ".DistPublic", "param", "recv"},
	{"Identity.TOML", dKey, "Identity.TOML", dKey + ".Identity", dKey + ".PublicTOML", "recv", "ret"},
	{"Identity.FromTOML", dKey, "Identity.FromTOML", dKey + ".PublicTOML", dKey + ".Identity", "param", "recv"},
	{"Identity.ToProto", dKey, "Identity.ToProto", dKey + ".Identity", dPB + ".Identity", "recv", "ret"},
	{"IdentityFromProto", dKey, "IdentityFromProto", dPB + ".Identity", dKey + ".Identity", "param", "ret"},
	{"Node.TOML", dKey, "Node.TOML", dKey + ".Node", dKey + ".NodeTOML", "recv", "ret"},
	{"Node.FromTOML", dKey, "Node.FromTOML", dKey + ".NodeTOML", dKey + ".Node", "param", "recv"},
	{"NodeFromProto", dKey, "NodeFromProto", dPB + ".Node", dKey + ".Node", "param", "ret"},
	{"Pair.TOML", dKey, "Pair.TOML", dKey + ".Pair", dKey + ".PairTOML", "recv", "ret"},
	{"Pair.FromTOML", dKey, "Pair.FromTOML", dKey + ".PairTOML", dKey + ".Pair", "param", "recv"},
	{"Share.TOML", dKey, "Share.TOML", dKey + ".Share", dKey + ".ShareTOML", "recv", "ret"},
	{"Share.FromTOML", dKey, "Share.FromTOML", dKey + ".ShareTOML", dKey + ".Share", "param", "recv"},
	{"Group.TOML", dKey, "Group.TOML", dKey + ".Group", dKey + ".GroupTOML", "recv", "ret"},
	{"Group.FromTOML", dKey, "Group.FromTOML", dKey + ".GroupTOML", dKey + ".Group", "param", "recv"},
	{"Group.ToProto", dKey, "Group.ToProto", dKey + ".Group", dPB + ".GroupPacket", "recv", "ret"},
	{"GroupFromProto", dKey, "GroupFromProto", dPB + ".GroupPacket", dKey + ".Group", "param", "ret"},
	{"DBState.TOML", dDKG, "DBState.TOML", dDKG + ".DBState", dDKG + ".DBStateTOML", "recv", "ret"},
	{"DBStateTOML.FromTOML", dDKG, "DBStateTOML.FromTOML", dDKG + ".DBStateTOML", dDKG + ".DBState", "recv", "ret"},
	{"Info.ToProto", dChain, "Info.ToProto", dChain + ".Info", dPB + ".ChainInfoPacket", "recv", "ret"},
	{"InfoFromProto", dChain, "InfoFromProto", dPB + ".ChainInfoPacket", dChain + ".Info", "param", "ret"},
	{"Info.MarshalJSON", dChain, "Info.MarshalJSON", dChain + ".Info", "", "recv", "local:v2Str"},
	{"Info.UnmarshalJSON", dChain, "Info.UnmarshalJSON", "", dChain + ".Info", "local:v2Str", "recv"},
	{"beaconToProto", dBcn, "beaconToProto", "common.Beacon", dPB + ".BeaconPacket", "param", "ret"},
	{"protoToBeacon", dBcn, "protoToBeacon", dPB + ".BeaconPacket", "common.Beacon", "param", "ret"},
}

// root types: values of these struct types are converted by mirrors of their own
func mirRoots() map[string]bool {
	r := map[string]bool{dPBD + ".Participant": true}
	for _, s := range MirSpecs {
		if s.Src != "" {
			r[s.Src] = true
		}
		if s.Dst != "" {
			r[s.Dst] = true
		}
	}
	return r
}

// ---------------------------------------------------------------- symbolic values

type mv struct {
	k    string // src | build | scheme | newpoint | ext | nil | zero | unknown | len | list
	root string // src: "" = the source value, otherwise the loop variable it is relative to
	path []string
	ops  []string
	t    *MirType
	b    *mbuild
	text string
	gs   []int    // guards already applied to this value
	ast  ast.Expr // k == "cond": the boolean expression a local stands for
}

type bentry struct {
	dst []string
	v   *mv
}

type mbuild struct {
	typ     *MirType
	entries []bentry
	isDst   bool
}

func (b *mbuild) get(path []string) *mv {
	for i := len(b.entries) - 1; i >= 0; i-- {
		if cdPathEq(b.entries[i].dst, path) {
			return b.entries[i].v
		}
	}
	return nil
}

func (b *mbuild) set(path []string, v *mv) {
	b.entries = append(b.entries, bentry{append([]string{}, path...), v})
}

func cdPathEq(a, b []string) bool {
	if len(a) != len(b) {
		return false
	}
	for i := range a {
		if a[i] != b[i] {
			return false
		}
	}
	return true
}

func cdHasPrefix(p, pre []string) bool { return len(p) >= len(pre) && cdPathEq(p[:len(pre)], pre) }

type mguard struct {
	kind string // IfNotNil | IfNonZero | IfNonEmpty | LenPos | Cond (path unused, text = ccond term)
	text string
	root string
	path []string
	id   int
}

var mguardSerial int

func newGuard(kind, root string, path []string) mguard {
	mguardSerial++
	return mguard{kind: kind, root: root, path: path, id: mguardSerial}
}

type mloop struct {
	v       string
	list    *mv
	elemT   *MirType
	results []bentry // target (as dst path with marker) <- element value
	targets []ast.Expr
}

type mctx struct {
	w       *mirWorld
	p       *cdPkg
	file    *ast.File
	fn      *ast.FuncDecl
	spec    MirSpec
	roots   map[string]bool
	srcT    *MirType
	dstT    *MirType
	srcName string // identifier denoting the source value ("" until known)
	locals  map[string]*mv
	dst     *mbuild
	guards  []mguard
	loop    *mloop
	wrapLen *mv // inside `if len(BUILD.F) > 0 { ... }`
	out     *MirOut
}

func (c *mctx) brk(n ast.Node, f string, a ...interface{}) error { return c.p.breakf(n, f, a...) }
func (c *mctx) src(n ast.Node) string                            { return cdSrc(c.p.fset, n) }

func (c *mctx) unknown(e ast.Expr) *mv { return &mv{k: "unknown", text: c.src(e)} }

func withOp(v *mv, op string, t *MirType) *mv {
	n := *v
	n.ops = append(append([]string{}, v.ops...), op)
	n.t = t
	return &n
}

func named(n string) *MirType { return &MirType{Kind: "named", Name: n} }

// ---------------------------------------------------------------- expressions

// sel evaluates x.name for a symbolic x.
func (c *mctx) sel(x *mv, name string, e ast.Expr) *mv {
	switch x.k {
	case "src":
		if len(x.ops) > 0 {
			// scheme name of a scheme-typed source field
			return c.unknown(e)
		}
		if c.w.class(x.t) == "scheme" && name == "Name" {
			return withOp(x, "SchemeName", named("string"))
		}
		p, ft, ok := c.w.field(x.t, name)
		if !ok {
			return c.unknown(e)
		}
		return &mv{k: "src", root: x.root, path: append(append([]string{}, x.path...), p...), t: ft}
	case "scheme":
		if name == "Name" {
			return &mv{k: "src", root: x.root, path: x.path, ops: append(append([]string{}, x.ops...), "SchemeName"), t: named("string")}
		}
		if name == "KeyGroup" {
			return &mv{k: "keygroup"}
		}
	case "ext":
		if name == "KeyGroup" {
			return &mv{k: "keygroup"}
		}
		return &mv{k: "ext", text: x.text + "." + name}
	case "build":
		p, ft, ok := c.w.field(x.b.typ, name)
		if !ok {
			return c.unknown(e)
		}
		if v := x.b.get(p); v != nil {
			return v
		}
		return &mv{k: "buildfield", b: x.b, path: p, t: ft}
	case "buildfield":
		p, ft, ok := c.w.field(x.t, name)
		if !ok {
			return c.unknown(e)
		}
		full := append(append([]string{}, x.path...), p...)
		if v := x.b.get(full); v != nil {
			return v
		}
		return &mv{k: "buildfield", b: x.b, path: full, t: ft}
	}
	return c.unknown(e)
}

var cdCasts = map[string]string{"uint32": "CastU32", "uint64": "CastU64", "int64": "CastI64", "int": "CastInt"}

func (c *mctx) eval(e ast.Expr) *mv {
	switch x := e.(type) {
	case *ast.ParenExpr:
		return c.eval(x.X)
	case *ast.Ident:
		if x.Name == "nil" {
			return &mv{k: "nil"}
		}
		if v, ok := c.locals[x.Name]; ok {
			return v
		}
		return c.unknown(e)
	case *ast.BasicLit:
		return &mv{k: "const", text: x.Value}
	case *ast.SelectorExpr:
		return c.sel(c.eval(x.X), x.Sel.Name, e)
	case *ast.TypeAssertExpr:
		return c.eval(x.X)
	case *ast.UnaryExpr:
		if x.Op == token.AND {
			return c.eval(x.X)
		}
	case *ast.CompositeLit:
		return c.composite(x)
	case *ast.BinaryExpr:
		// time.Duration(x) * time.Second
		if x.Op == token.MUL && c.src(x.Y) == "time.Second" {
			if call, ok := x.X.(*ast.CallExpr); ok && c.src(call.Fun) == "time.Duration" && len(call.Args) == 1 {
				v := c.eval(call.Args[0])
				if v.k == "src" {
					return withOp(v, "OfSecs", named("time.Duration"))
				}
			}
		}
	case *ast.IndexExpr:
		// X[i] inside a loop, as a value: the element under construction
		return c.unknown(e)
	case *ast.CallExpr:
		return c.call(x)
	}
	return c.unknown(e)
}

func (c *mctx) composite(x *ast.CompositeLit) *mv {
	t := c.w.typeOf(x.Type, c.spec.Dir, c.file)
	if !c.w.isStruct(t) {
		return c.unknown(x)
	}
	b := &mbuild{typ: t}
	fs, _ := c.w.fields(t)
	for i, el := range x.Elts {
		if kv, ok := el.(*ast.KeyValueExpr); ok {
			name := kv.Key.(*ast.Ident).Name
			p, _, ok := c.w.field(t, name)
			if !ok {
				b.set([]string{name}, c.unknown(kv.Value))
				continue
			}
			b.set(p, c.eval(kv.Value))
		} else if i < len(fs) {
			b.set([]string{fs[i].Name}, c.eval(el))
		}
	}
	return &mv{k: "build", b: b, t: t}
}

func (c *mctx) call(x *ast.CallExpr) *mv {
	fun := c.src(x.Fun)
	// conversions
	if op, ok := cdCasts[fun]; ok && len(x.Args) == 1 {
		// uintNN(d.Seconds())
		if inner, ok := x.Args[0].(*ast.CallExpr); ok {
			if s, ok := inner.Fun.(*ast.SelectorExpr); ok && s.Sel.Name == "Seconds" && len(inner.Args) == 0 {
				v := c.eval(s.X)
				if v.k == "src" && c.w.class(v.t) == "dur" {
					switch fun {
					case "uint32":
						return withOp(v, "Secs32", named("uint32"))
					case "uint64":
						return withOp(v, "Secs64", named("uint64"))
					}
				}
				return c.unknown(x)
			}
		}
		v := c.eval(x.Args[0])
		if v.k == "src" && c.w.class(v.t) == "int" {
			return withOp(v, op, named(fun))
		}
		return c.unknown(x)
	}
	if fun == "time.Duration" && len(x.Args) == 1 {
		if c.src(x.Args[0]) == "0" {
			return &mv{k: "const", text: "0"}
		}
		return c.unknown(x)
	}
	if fun == "len" && len(x.Args) == 1 {
		v := c.eval(x.Args[0])
		return &mv{k: "len", b: v.b, path: v.path, root: v.root, ops: v.ops, text: v.k}
	}
	if fun == "new" && len(x.Args) == 1 {
		t := c.w.typeOf(x.Args[0], c.spec.Dir, c.file)
		if c.w.isStruct(t) {
			return &mv{k: "build", b: &mbuild{typ: t}, t: &MirType{Kind: "ptr", Elem: t}}
		}
		return c.unknown(x)
	}
	if fun == "make" {
		return &mv{k: "list"}
	}
	unary := func(op string, wantClass string, rt *MirType, arg ast.Expr) *mv {
		v := c.eval(arg)
		if v.k != "src" {
			return c.unknown(x)
		}
		if wantClass != "" && !strings.Contains("|"+wantClass+"|", "|"+c.w.class(v.t)+"|") {
			return c.unknown(x)
		}
		return withOp(v, op, rt)
	}
	last := fun[strings.LastIndex(fun, ".")+1:]
	switch {
	case fun == "hex.EncodeToString" && len(x.Args) == 1:
		return unary("Hex", "bytes|hexbytes", named("string"), x.Args[0])
	case fun == "hex.DecodeString" && len(x.Args) == 1:
		return unary("UnHex", "string", cdParseExtType("[]byte"), x.Args[0])
	case fun == "time.ParseDuration" && len(x.Args) == 1:
		return unary("ParseDur", "string", named("time.Duration"), x.Args[0])
	case (fun == "PointToString" || fun == "key.PointToString") && len(x.Args) == 1:
		return unary("PointStr", "point", named("string"), x.Args[0])
	case (fun == "ScalarToString" || fun == "key.ScalarToString") && len(x.Args) == 1:
		return unary("ScalarStr", "scalar", named("string"), x.Args[0])
	case (fun == "StringToPoint" || fun == "key.StringToPoint") && len(x.Args) == 2 && c.eval(x.Args[0]).k == "keygroup":
		return unary("StrPoint", "string", named("kyber.Point"), x.Args[1])
	case (fun == "StringToScalar" || fun == "key.StringToScalar") && len(x.Args) == 2 && c.eval(x.Args[0]).k == "keygroup":
		return unary("StrScalar", "string", named("kyber.Scalar"), x.Args[1])
	case last == "GetCanonicalBeaconID" && strings.HasPrefix(fun, "common") && len(x.Args) == 1:
		return unary("Canon", "string", named("string"), x.Args[0])
	case (fun == "crypto.GetSchemeByID" || fun == "crypto.SchemeFromName") && len(x.Args) == 1:
		v := c.eval(x.Args[0])
		if v.k != "src" || c.w.class(v.t) != "string" {
			return c.unknown(x)
		}
		op := map[string]string{"crypto.GetSchemeByID": "SchemeByID", "crypto.SchemeFromName": "SchemeFromName"}[fun]
		n := withOp(v, op, cdParseExtType("*crypto.Scheme"))
		n.k = "scheme"
		// the argument may be a destination field that a legacy override re-assigns: the lookup then
		// sees the overriding source field
		base := fmt.Sprintf("ChkScheme %s %s", op, cdCoqPath(v.path))
		if l, err := c.lhs(x.Args[0]); err == nil && l != nil && l.kind == "field" && l.b.isDst {
			for _, ov := range c.out.Overrides {
				if cdPathEq(ov.Entry.Dst, l.path) && len(ov.Entry.Ops) == 0 {
					c.out.Checks = append(c.out.Checks, c.wrapCheck(fmt.Sprintf("ChkIf %s (ChkScheme %s %s)", ov.Cond, op, cdCoqPath(ov.Entry.Src))))
					base = fmt.Sprintf("ChkIf (CNotC %s) (%s)", ov.Cond, base)
				}
			}
		}
		c.out.Checks = append(c.out.Checks, c.wrapCheck(base))
		return n
	case fun == "NodeFromProto" || fun == "IdentityFromProto":
		if len(x.Args) == 2 {
			v := c.eval(x.Args[0])
			if v.k == "src" && len(v.ops) == 0 {
				rt := map[string]string{"NodeFromProto": dKey + ".Node", "IdentityFromProto": dKey + ".Identity"}[fun]
				return withOp(v, "Nested "+cdCoqString(fun), &MirType{Kind: "ptr", Elem: named(rt)})
			}
		}
		return c.unknown(x)
	case fun == "proto.NewMetadata" || fun == "drand.NewMetadata":
		b := &mbuild{typ: named(dPB + ".Metadata")}
		b.set([]string{"NodeVersion"}, &mv{k: "ext", text: c.src(x.Args[0])})
		return &mv{k: "build", b: b, t: &MirType{Kind: "ptr", Elem: b.typ}}
	case fun == "MinimumT" || fun == "dkg.MinimumT" || fun == "key.MinimumT":
		if len(x.Args) == 1 {
			v := c.eval(x.Args[0])
			return &mv{k: "mint", b: v.b, path: v.path, root: v.root, ops: v.ops, text: v.k}
		}
	}
	// methods
	if s, ok := x.Fun.(*ast.SelectorExpr); ok {
		recv := c.eval(s.X)
		m := s.Sel.Name
		// protobuf getters (and the protoIdentity interface): GetF() == field F
		if strings.HasPrefix(m, "Get") && len(x.Args) == 0 && recv.k == "src" && len(recv.ops) == 0 {
			d := recv.t.Deref()
			isPB := d != nil && d.Kind == "named" && (strings.HasPrefix(d.Name, "protobuf/"))
			if isPB {
				return c.sel(recv, m[3:], x)
			}
		}
		if recv.k == "keygroup" && m == "Point" && len(x.Args) == 0 {
			return &mv{k: "newpoint"}
		}
		if recv.k == "src" && len(x.Args) == 0 {
			cl := c.w.class(recv.t)
			switch {
			case m == "String" && cl == "dur" && len(recv.ops) == 0:
				return withOp(recv, "DurStr", named("string"))
			case m == "UTC" && cl == "time" && len(recv.ops) == 0:
				return withOp(recv, "UTC", recv.t)
			case m == "MarshalBinary" && cl == "point" && len(recv.ops) == 0:
				return withOp(recv, "PointBytes", cdParseExtType("[]byte"))
			case m == "Address" && len(recv.ops) == 0:
				// Identity.Address() returns i.Addr (body checked once in genMirrors)
				return c.sel(recv, "Addr", x)
			case m == "GetGenesisSeed" && len(recv.ops) == 0 && len(recv.path) == 0 && recv.t.Deref().Name == dKey+".Group":
				v := c.sel(recv, "GenesisSeed", x)
				return withOp(v, "SeedOrHash", v.t)
			case (m == "Hash" || m == "HashString") && len(recv.ops) == 0 && len(recv.path) == 0:
				return &mv{k: "src", root: recv.root, path: nil, ops: []string{map[string]string{"Hash": "HashOf", "HashString": "HashStringOf"}[m]}, t: named("derived")}
			case m == "TOML" && len(recv.ops) == 0 && c.w.isStruct(recv.t):
				tn := recv.t.Deref().Name
				return withOp(recv, "Nested "+cdCoqString(tn[strings.LastIndex(tn, ".")+1:]+".TOML"), named("toml"))
			}
		}
		if (m == "HashString" || m == "Hash") && len(x.Args) == 0 && recv.k == "build" && recv.b.isDst {
			return &mv{k: "dsthash", text: m}
		}
		// g.Len() on the destination group
		if m == "Len" && len(x.Args) == 0 && recv.k == "build" {
			p, _, ok := c.w.field(recv.b.typ, "Nodes")
			if ok {
				if v := recv.b.get(p); v != nil {
					return &mv{k: "len", path: v.path, root: v.root, ops: v.ops, text: v.k}
				}
			}
		}
	}
	return c.unknown(x)
}

// ---------------------------------------------------------------- recording

func (c *mctx) applyGuards(v *mv) *mv {
	if v.k != "src" && v.k != "scheme" {
		return v
	}
	for i := len(c.guards) - 1; i >= 0; i-- {
		g := c.guards[i]
		if g.kind == "Cond" {
			n := *v
			n.ops = append([]string{"Unknown " + cdCoqString("assignment under a compound condition")}, v.ops...)
			v = &n
			continue
		}
		if g.root != v.root || g.kind == "LenPos" {
			continue
		}
		applied := false
		for _, id := range v.gs {
			if id == g.id {
				applied = true
			}
		}
		if applied {
			continue
		}
		n := *v
		n.gs = append(append([]int{}, v.gs...), g.id)
		switch {
		case cdPathEq(g.path, v.path):
			if g.kind == "IfNotNil" && len(v.ops) == 1 && strings.HasPrefix(v.ops[0], "Nested ") {
				n.ops = []string{"Opt" + v.ops[0]}
			} else {
				n.ops = append([]string{g.kind}, v.ops...)
			}
		case g.kind == "IfNotNil" && cdHasPrefix(v.path, g.path):
			rest := v.path[len(g.path):]
			ops := []string{"OptField " + cdCoqString(rest[0])}
			for _, r := range rest[1:] {
				ops = append(ops, "Field "+cdCoqString(r))
			}
			n.ops = append(ops, v.ops...)
			n.path = g.path
		default:
			n.ops = append([]string{"Unknown " + cdCoqString("guard on "+strings.Join(g.path, "."))}, v.ops...)
		}
		v = &n
	}
	return v
}

// assign records `target = value` where target is a field of a build (dst or local).
func (c *mctx) assignField(b *mbuild, path []string, v *mv) {
	if v.k == "build" && c.wrapLen != nil && len(v.b.entries) == 1 && len(v.b.entries[0].dst) == 1 {
		ie := v.b.entries[0]
		if ie.v.k == "src" && cdPathEq(ie.v.path, c.wrapLen.path) && ie.v.root == c.wrapLen.root {
			b.set(path, withOp(ie.v, "WrapIfNonEmpty "+cdCoqString(ie.dst[0]), v.t))
			return
		}
	}
	b.set(path, c.applyGuards(v))
}

// lhs resolves an assignable expression: local identifier, field of a build, element of a list.
type mlhs struct {
	kind  string // local | field | elem | blank
	name  string
	b     *mbuild
	path  []string
	inner ast.Expr
}

func (c *mctx) lhs(e ast.Expr) (*mlhs, error) {
	switch x := e.(type) {
	case *ast.Ident:
		if x.Name == "_" || x.Name == "err" || x.Name == "ok" {
			return &mlhs{kind: "blank"}, nil
		}
		return &mlhs{kind: "local", name: x.Name}, nil
	case *ast.SelectorExpr:
		base := c.eval(x.X)
		switch base.k {
		case "build":
			p, _, ok := c.w.field(base.b.typ, x.Sel.Name)
			if !ok {
				return nil, c.brk(e, "unknown destination field %s", c.src(e))
			}
			return &mlhs{kind: "field", b: base.b, path: p}, nil
		case "buildfield":
			p, _, ok := c.w.field(base.t, x.Sel.Name)
			if !ok {
				return nil, c.brk(e, "unknown destination field %s", c.src(e))
			}
			return &mlhs{kind: "field", b: base.b, path: append(append([]string{}, base.path...), p...)}, nil
		}
		return nil, c.brk(e, "assignment to %s, which is not part of the destination", c.src(e))
	case *ast.IndexExpr:
		if c.loop == nil {
			return nil, c.brk(e, "indexed assignment outside a loop")
		}
		return &mlhs{kind: "elem", inner: x.X}, nil
	}
	return nil, c.brk(e, "unsupported assignment target %s", c.src(e))
}

func (c *mctx) store(l *mlhs, v *mv, at ast.Node) error {
	switch l.kind {
	case "blank":
		return nil
	case "local":
		if v.k == "src" || v.k == "scheme" {
			v = c.applyGuards(v)
		}
		c.locals[l.name] = v
	case "field":
		c.assignField(l.b, l.path, v)
	case "elem":
		c.loop.results = append(c.loop.results, bentry{nil, v})
		c.loop.targets = append(c.loop.targets, l.inner)
	}
	return nil
}

// effect handles calls that mutate their receiver: X.FromTOML(.., src), P.UnmarshalBinary(src).
// It returns true when the call was recognised.
func (c *mctx) effect(call *ast.CallExpr) (bool, error) {
	s, ok := call.Fun.(*ast.SelectorExpr)
	if !ok {
		return false, nil
	}
	switch s.Sel.Name {
	case "UnmarshalBinary":
		if len(call.Args) != 1 {
			return false, nil
		}
		id, ok := s.X.(*ast.Ident)
		if !ok || c.locals[id.Name] == nil || c.locals[id.Name].k != "newpoint" {
			return false, nil
		}
		v := c.eval(call.Args[0])
		if v.k != "src" {
			c.locals[id.Name] = c.unknown(call)
			return true, nil
		}
		cl := c.w.class(v.t)
		if cl == "hexbytes" {
			cl = "bytes"
		}
		if cl != "bytes" {
			c.locals[id.Name] = c.unknown(call)
			return true, nil
		}
		c.locals[id.Name] = withOp(v, "BytesPoint", named("kyber.Point"))
		return true, nil
	case "FromTOML":
		// target: local build, field of a build, or element X[i]
		var srcArg *mv
		for _, a := range call.Args {
			v := c.eval(a)
			if v.k == "src" {
				srcArg = v
			}
		}
		if srcArg == nil || len(srcArg.ops) != 0 {
			return false, nil
		}
		mk := func(t *MirType) *mv {
			tn := t.Deref().Name
			return withOp(srcArg, "Nested "+cdCoqString(tn[strings.LastIndex(tn, ".")+1:]+".FromTOML"), t)
		}
		switch x := s.X.(type) {
		case *ast.Ident:
			lv := c.locals[x.Name]
			if lv == nil || lv.k != "build" || lv.b.isDst {
				return false, nil
			}
			// presets on the nested object are kept as a note
			for _, be := range lv.b.entries {
				c.out.Presets = append(c.out.Presets, fmt.Sprintf("%s.%s <- %s", x.Name, strings.Join(be.dst, "."), c.render(be.v)))
			}
			c.locals[x.Name] = c.applyGuards(mk(lv.b.typ))
			return true, nil
		case *ast.SelectorExpr:
			l, err := c.lhs(x)
			if err != nil || l.kind != "field" {
				return false, err
			}
			cur := l.b.get(l.path)
			if cur == nil || cur.k != "build" {
				return false, nil
			}
			c.assignField(l.b, l.path, mk(cur.b.typ))
			return true, nil
		case *ast.IndexExpr:
			if c.loop == nil {
				return false, nil
			}
			// replace the pending `X[i] = new(T)` result
			for i := len(c.loop.results) - 1; i >= 0; i-- {
				if c.src(c.loop.targets[i]) == c.src(x.X) && c.loop.results[i].v.k == "build" {
					c.loop.results[i].v = mk(c.loop.results[i].v.b.typ)
					return true, nil
				}
			}
		}
	}
	return false, nil
}

func (c *mctx) render(v *mv) string {
	return fmt.Sprintf("%s %s[%s]", v.k, strings.Join(v.path, "."), strings.Join(v.ops, "; "))
}
