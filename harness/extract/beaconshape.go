package extract

// Generators for coq/Gen/AggWindow.v and coq/Gen/StreamCalls.v (properties C12, C11).
//
// AggWindow.v: the shape of the store window and of the flush in
// internal/chain/beacon/chainstore.go:runAggregator
//     isNotInPast := pRound > lastBeacon.Round
//     isNotTooFar := pRound <= lastBeacon.Round+partialCacheStoreLimit+1
//     shouldStore := isNotInPast && isNotTooFar
//     if !shouldStore { ...; break }            (before cache.Append(partial.p))
//     case lastBeacon = <-c.beaconStoredAgg: cache.FlushRounds(lastBeacon.Round)
// StreamCalls.v: PublicRandStream hands the beacon's callback store to beacon.SyncChain.
// Anything that is not exactly one of the recognised shapes is a T-break.

import (
	"fmt"
	"go/ast"
	"go/token"
	"strings"
)

func init() {
	register("AggWindow.v", genAggWindow)
	register("StreamCalls.v", genStreamCalls)
}

const bsChainstoreFile = "internal/chain/beacon/chainstore.go"
const bsPublicFile = "internal/core/drand_beacon_public.go"

func bsBreak(pf *pkgFile, n ast.Node, format string, a ...interface{}) error {
	pos := pf.fset.Position(n.Pos())
	return fmt.Errorf("T-break: %s:%d: %s", pf.path, pos.Line, fmt.Sprintf(format, a...))
}

func bsFindFunc(pf *pkgFile, name string) *ast.FuncDecl {
	for _, d := range pf.file.Decls {
		if fd, ok := d.(*ast.FuncDecl); ok && fd.Name.Name == name {
			return fd
		}
	}
	return nil
}

func bsFindMethod(pf *pkgFile, recv, name string) *ast.FuncDecl {
	for _, d := range pf.file.Decls {
		fd, ok := d.(*ast.FuncDecl)
		if !ok || fd.Name.Name != name || fd.Recv == nil || len(fd.Recv.List) != 1 || fd.Body == nil {
			continue
		}
		t := fd.Recv.List[0].Type
		if st, ok := t.(*ast.StarExpr); ok {
			t = st.X
		}
		if id, ok := t.(*ast.Ident); ok && id.Name == recv {
			return fd
		}
	}
	return nil
}

func bsIsSel(e ast.Expr, x, sel string) bool {
	s, ok := e.(*ast.SelectorExpr)
	if !ok || s.Sel.Name != sel {
		return false
	}
	id, ok := s.X.(*ast.Ident)
	return ok && id.Name == x
}

func bsIsIdent(e ast.Expr, name string) bool {
	id, ok := e.(*ast.Ident)
	return ok && id.Name == name
}

// bsSumTerms flattens a + b + c.
func bsSumTerms(e ast.Expr) ([]ast.Expr, bool) {
	switch x := e.(type) {
	case *ast.ParenExpr:
		return bsSumTerms(x.X)
	case *ast.BinaryExpr:
		if x.Op != token.ADD {
			return nil, false
		}
		a, ok1 := bsSumTerms(x.X)
		b, ok2 := bsSumTerms(x.Y)
		return append(a, b...), ok1 && ok2
	}
	return []ast.Expr{e}, true
}

func bsDefineIn(fd *ast.FuncDecl, name string) (*ast.AssignStmt, int) {
	var found *ast.AssignStmt
	n := 0
	ast.Inspect(fd, func(nd ast.Node) bool {
		if as, ok := nd.(*ast.AssignStmt); ok {
			for _, l := range as.Lhs {
				if bsIsIdent(l, name) {
					found = as
					n++
				}
			}
		}
		return true
	})
	return found, n
}

func genAggWindow(repo string) (string, error) {
	pf, err := parseFile(repo, bsChainstoreFile)
	if err != nil {
		return "", err
	}
	fd := bsFindFunc(pf, "runAggregator")
	if fd == nil {
		return "", fmt.Errorf("T-break: %s: func runAggregator not found", bsChainstoreFile)
	}
	one := func(name string) (*ast.AssignStmt, error) {
		as, n := bsDefineIn(fd, name)
		if as == nil || n != 1 || len(as.Lhs) != 1 || len(as.Rhs) != 1 || as.Tok != token.DEFINE {
			return nil, fmt.Errorf("T-break: %s: runAggregator: expected exactly one `%s := ...` (found %d)", bsChainstoreFile, name, n)
		}
		return as, nil
	}
	// pRound := partial.p.GetRound()
	pr, err := one("pRound")
	if err != nil {
		return "", err
	}
	if c, ok := pr.Rhs[0].(*ast.CallExpr); !ok || len(c.Args) != 0 {
		return "", bsBreak(pf, pr, "pRound is not partial.p.GetRound()")
	} else if s, ok := c.Fun.(*ast.SelectorExpr); !ok || s.Sel.Name != "GetRound" || !bsIsSel(s.X, "partial", "p") {
		return "", bsBreak(pf, pr, "pRound is not partial.p.GetRound()")
	}
	// isNotInPast := pRound > lastBeacon.Round
	lo, err := one("isNotInPast")
	if err != nil {
		return "", err
	}
	lb, ok := lo.Rhs[0].(*ast.BinaryExpr)
	if !ok {
		return "", bsBreak(pf, lo, "isNotInPast is not a comparison")
	}
	var lowerStrict bool
	switch {
	case lb.Op == token.GTR && bsIsIdent(lb.X, "pRound") && bsIsSel(lb.Y, "lastBeacon", "Round"):
		lowerStrict = true
	case lb.Op == token.LSS && bsIsIdent(lb.Y, "pRound") && bsIsSel(lb.X, "lastBeacon", "Round"):
		lowerStrict = true
	case lb.Op == token.GEQ && bsIsIdent(lb.X, "pRound") && bsIsSel(lb.Y, "lastBeacon", "Round"):
		lowerStrict = false
	case lb.Op == token.LEQ && bsIsIdent(lb.Y, "pRound") && bsIsSel(lb.X, "lastBeacon", "Round"):
		lowerStrict = false
	default:
		return "", bsBreak(pf, lo, "isNotInPast is not `pRound > lastBeacon.Round` (or >=)")
	}
	// isNotTooFar := pRound <= lastBeacon.Round+partialCacheStoreLimit+1
	up, err := one("isNotTooFar")
	if err != nil {
		return "", err
	}
	ub, ok := up.Rhs[0].(*ast.BinaryExpr)
	if !ok || !bsIsIdent(ub.X, "pRound") || (ub.Op != token.LEQ && ub.Op != token.LSS) {
		return "", bsBreak(pf, up, "isNotTooFar is not `pRound <= ...` (or <)")
	}
	terms, ok := bsSumTerms(ub.Y)
	if !ok {
		return "", bsBreak(pf, up, "upper bound of the store window is not a sum")
	}
	nHead, nLimit, extra := 0, 0, int64(0)
	for _, t := range terms {
		switch {
		case bsIsSel(t, "lastBeacon", "Round"):
			nHead++
		case bsIsIdent(t, "partialCacheStoreLimit"):
			nLimit++
		default:
			v, err := pf.eval(t, 0)
			if err != nil || !v.IsInt64() {
				return "", bsBreak(pf, up, "unrecognised term in the upper bound of the store window")
			}
			if _, isLit := t.(*ast.BasicLit); !isLit {
				return "", bsBreak(pf, up, "unrecognised term in the upper bound of the store window")
			}
			extra += v.Int64()
		}
	}
	if nHead != 1 || nLimit != 1 {
		return "", bsBreak(pf, up, "upper bound is not lastBeacon.Round + partialCacheStoreLimit + <literal>")
	}
	// shouldStore := isNotInPast && isNotTooFar
	ss, err := one("shouldStore")
	if err != nil {
		return "", err
	}
	sb, ok := ss.Rhs[0].(*ast.BinaryExpr)
	if !ok || sb.Op != token.LAND ||
		!((bsIsIdent(sb.X, "isNotInPast") && bsIsIdent(sb.Y, "isNotTooFar")) || (bsIsIdent(sb.Y, "isNotInPast") && bsIsIdent(sb.X, "isNotTooFar"))) {
		return "", bsBreak(pf, ss, "shouldStore is not isNotInPast && isNotTooFar")
	}
	// if !shouldStore { ...; break } must come before the only cache.Append call
	var guardPos, appendPos token.Pos
	nGuard, nAppend, nFlush := 0, 0, 0
	flushOK := false
	ast.Inspect(fd, func(nd ast.Node) bool {
		switch x := nd.(type) {
		case *ast.IfStmt:
			if u, ok := x.Cond.(*ast.UnaryExpr); ok && u.Op == token.NOT && bsIsIdent(u.X, "shouldStore") && x.Else == nil && len(x.Body.List) > 0 {
				if br, ok := x.Body.List[len(x.Body.List)-1].(*ast.BranchStmt); ok && br.Tok == token.BREAK && br.Label == nil {
					guardPos = x.Pos()
					nGuard++
				}
			}
		case *ast.CallExpr:
			if bsIsSel(x.Fun, "cache", "Append") {
				nAppend++
				appendPos = x.Pos()
				if len(x.Args) != 1 || !bsIsSel(x.Args[0], "partial", "p") {
					nAppend += 100
				}
			}
		case *ast.CommClause:
			// case lastBeacon = <-c.beaconStoredAgg:
			if as, ok := x.Comm.(*ast.AssignStmt); ok && as.Tok == token.ASSIGN && len(as.Lhs) == 1 && bsIsIdent(as.Lhs[0], "lastBeacon") && len(as.Rhs) == 1 {
				if u, ok := as.Rhs[0].(*ast.UnaryExpr); ok && u.Op == token.ARROW && bsIsSel(u.X, "c", "beaconStoredAgg") {
					nFlush++
					if len(x.Body) == 1 {
						if es, ok := x.Body[0].(*ast.ExprStmt); ok {
							if c, ok := es.X.(*ast.CallExpr); ok && bsIsSel(c.Fun, "cache", "FlushRounds") && len(c.Args) == 1 && bsIsSel(c.Args[0], "lastBeacon", "Round") {
								flushOK = true
							}
						}
					}
				}
			}
		}
		return true
	})
	if nGuard != 1 || nAppend != 1 || !(guardPos < appendPos) || !(ss.Pos() < guardPos) {
		return "", fmt.Errorf("T-break: %s: runAggregator: expected one `if !shouldStore {...; break}` before the only cache.Append(partial.p) (guards %d, appends %d)", bsChainstoreFile, nGuard, nAppend)
	}
	if nFlush != 1 {
		return "", fmt.Errorf("T-break: %s: runAggregator: expected exactly one `case lastBeacon = <-c.beaconStoredAgg` (found %d)", bsChainstoreFile, nFlush)
	}
	// lastBeacon is assigned three times: `lastBeacon, err = c.Last(ctx)` (initialisation), the
	// beaconStoredAgg case, and `if c.tryAppend(ctx, lastBeacon, newBeacon) { lastBeacon = newBeacon ...`
	// which must come after `cache.FlushRounds(partial.p.GetRound())`.
	nAssign := 0
	ast.Inspect(fd, func(nd ast.Node) bool {
		if as, ok := nd.(*ast.AssignStmt); ok {
			for _, l := range as.Lhs {
				if bsIsIdent(l, "lastBeacon") {
					nAssign++
				}
			}
		}
		return true
	})
	if nAssign != 3 {
		return "", fmt.Errorf("T-break: %s: runAggregator: lastBeacon assigned %d times (expected 3: c.Last, beaconStoredAgg, tryAppend)", bsChainstoreFile, nAssign)
	}
	var tryPos, flush2Pos token.Pos
	nTry, nFlushCalls, nFlush2 := 0, 0, 0
	ast.Inspect(fd, func(nd ast.Node) bool {
		switch x := nd.(type) {
		case *ast.IfStmt:
			if c, ok := x.Cond.(*ast.CallExpr); ok && bsIsSel(c.Fun, "c", "tryAppend") && len(c.Args) == 3 &&
				bsIsIdent(c.Args[1], "lastBeacon") && bsIsIdent(c.Args[2], "newBeacon") && x.Init == nil && len(x.Body.List) > 0 {
				if as, ok := x.Body.List[0].(*ast.AssignStmt); ok && as.Tok == token.ASSIGN && len(as.Lhs) == 1 && len(as.Rhs) == 1 &&
					bsIsIdent(as.Lhs[0], "lastBeacon") && bsIsIdent(as.Rhs[0], "newBeacon") {
					nTry++
					tryPos = x.Pos()
				}
			}
		case *ast.CallExpr:
			if bsIsSel(x.Fun, "cache", "FlushRounds") {
				nFlushCalls++
				if len(x.Args) == 1 {
					if c, ok := x.Args[0].(*ast.CallExpr); ok && len(c.Args) == 0 {
						if s, ok := c.Fun.(*ast.SelectorExpr); ok && s.Sel.Name == "GetRound" && bsIsSel(s.X, "partial", "p") {
							nFlush2++
							flush2Pos = x.Pos()
						}
					}
				}
			}
		}
		return true
	})
	if nTry != 1 || nFlushCalls != 2 || nFlush2 != 1 || !(appendPos < flush2Pos && flush2Pos < tryPos) {
		return "", fmt.Errorf("T-break: %s: runAggregator: expected cache.Append, then cache.FlushRounds(partial.p.GetRound()), then `if c.tryAppend(ctx, lastBeacon, newBeacon) { lastBeacon = newBeacon` (tryAppend %d, FlushRounds calls %d)", bsChainstoreFile, nTry, nFlushCalls)
	}
	// tryAppend refuses anything but last.Round+1 before calling Put
	ta := bsFindMethod(pf, "chainStore", "tryAppend")
	guardTA := false
	if ta != nil && len(ta.Type.Params.List) == 2 {
		var gPos, putPos token.Pos
		ast.Inspect(ta, func(nd ast.Node) bool {
			switch x := nd.(type) {
			case *ast.IfStmt:
				if b, ok := x.Cond.(*ast.BinaryExpr); ok && b.Op == token.NEQ && bsIsSel(b.Y, "newB", "Round") {
					if a, ok := b.X.(*ast.BinaryExpr); ok && a.Op == token.ADD && bsIsSel(a.X, "last", "Round") {
						if l, ok := a.Y.(*ast.BasicLit); ok && l.Value == "1" && len(x.Body.List) >= 1 {
							if r, ok := x.Body.List[len(x.Body.List)-1].(*ast.ReturnStmt); ok && len(r.Results) == 1 && bsIsIdent(r.Results[0], "false") {
								gPos = x.Pos()
							}
						}
					}
				}
			case *ast.CallExpr:
				if bsIsSel(x.Fun, "c", "Put") && putPos == 0 {
					putPos = x.Pos()
				}
			}
			return true
		})
		guardTA = gPos != 0 && putPos != 0 && gPos < putPos
	}
	if !guardTA {
		return "", fmt.Errorf("T-break: %s: tryAppend does not start with `if last.Round+1 != newB.Round { return false }` before c.Put", bsChainstoreFile)
	}
	var sbd strings.Builder
	sbd.WriteString("(* GENERATED by zzv extract from the Go sources; do not edit. *)\nFrom Coq Require Import ZArith Bool.\nOpen Scope Z_scope.\n")
	p := func(n ast.Node) int { return pf.fset.Position(n.Pos()).Line }
	fmt.Fprintf(&sbd, "(* %s:%d isNotInPast *)\nDefinition agg_window_lower_strict : bool := %v.\n", bsChainstoreFile, p(lo), lowerStrict)
	fmt.Fprintf(&sbd, "(* %s:%d isNotTooFar: pRound <= lastBeacon.Round + partialCacheStoreLimit + extra *)\nDefinition agg_window_upper_inclusive : bool := %v.\nDefinition agg_window_upper_extra : Z := %d.\n", bsChainstoreFile, p(up), ub.Op == token.LEQ, extra)
	fmt.Fprintf(&sbd, "(* %s:%d shouldStore := isNotInPast && isNotTooFar, checked before cache.Append *)\nDefinition agg_window_guards_append : bool := true.\n", bsChainstoreFile, p(ss))
	fmt.Fprintf(&sbd, "(* case lastBeacon = <-c.beaconStoredAgg: cache.FlushRounds(lastBeacon.Round) *)\nDefinition agg_flush_on_stored : bool := %v.\n", flushOK)
	// the aggregator's input channel: capacity and the blocking send of NewValidPartial
	bufE := pf.findValue("defaultPartialChanBuffer")
	if bufE == nil {
		return "", fmt.Errorf("T-break: %s: constant defaultPartialChanBuffer not found", bsChainstoreFile)
	}
	bufV, err := pf.eval(bufE, 0)
	if err != nil {
		return "", fmt.Errorf("T-break: %s: defaultPartialChanBuffer: %w", bsChainstoreFile, err)
	}
	nvp := bsFindMethod(pf, "chainStore", "NewValidPartial")
	if nvp == nil {
		return "", fmt.Errorf("T-break: %s: chainStore.NewValidPartial not found", bsChainstoreFile)
	}
	// the hand-over is one plain send statement `c.newPartials <- ...` at the top level of the body
	// (not a select with a default, not a goroutine): the caller waits when the channel is full
	blocking, nSends := false, 0
	ast.Inspect(nvp.Body, func(nd ast.Node) bool {
		if snd, ok := nd.(*ast.SendStmt); ok && bsIsSel(snd.Chan, "c", "newPartials") {
			nSends++
		}
		return true
	})
	for _, st := range nvp.Body.List {
		if snd, ok := st.(*ast.SendStmt); ok && bsIsSel(snd.Chan, "c", "newPartials") && nSends == 1 {
			blocking = true
		}
	}
	fmt.Fprintf(&sbd, "(* %s:%d defaultPartialChanBuffer: capacity of the aggregator's input channel newPartials *)\nDefinition default_partial_chan_buffer : Z := %s.\n", bsChainstoreFile, p(bufE), bigZ(bufV))
	fmt.Fprintf(&sbd, "(* chainStore.NewValidPartial hands a partial over with one plain (blocking) send on newPartials *)\nDefinition new_valid_partial_blocking_send : bool := %v.\n", blocking)
	fmt.Fprintf(&sbd, "(* cache.FlushRounds(partial.p.GetRound()) precedes `if c.tryAppend(ctx, lastBeacon, newBeacon) { lastBeacon = newBeacon`;\n   tryAppend returns false unless newB.Round = last.Round+1 *)\nDefinition agg_flush_before_head_advance : bool := true.\n")
	return sbd.String(), nil
}

func genStreamCalls(repo string) (string, error) {
	pf, err := parseFile(repo, bsPublicFile)
	if err != nil {
		return "", err
	}
	fd := bsFindFunc(pf, "PublicRandStream")
	if fd == nil {
		return "", fmt.Errorf("T-break: %s: func PublicRandStream not found", bsPublicFile)
	}
	// store := bp.beacon.Store() ... return beacon.SyncChain(<logger>, store, proxyReq, proxyStr)
	storeOK := false
	as, n := bsDefineIn(fd, "store")
	if as != nil && n == 1 && len(as.Rhs) == 1 {
		if c, ok := as.Rhs[0].(*ast.CallExpr); ok && len(c.Args) == 0 {
			if s, ok := c.Fun.(*ast.SelectorExpr); ok && s.Sel.Name == "Store" && bsIsSel(s.X, "bp", "beacon") {
				storeOK = true
			}
		}
	}
	if !storeOK {
		return "", fmt.Errorf("T-break: %s: PublicRandStream: `store := bp.beacon.Store()` not found", bsPublicFile)
	}
	nCall, nRet := 0, 0
	ast.Inspect(fd, func(nd ast.Node) bool {
		switch x := nd.(type) {
		case *ast.CallExpr:
			if bsIsSel(x.Fun, "beacon", "SyncChain") {
				if len(x.Args) == 4 && bsIsIdent(x.Args[1], "store") {
					nCall++
				} else {
					nCall += 100
				}
			}
		case *ast.ReturnStmt:
			if len(x.Results) == 1 {
				if c, ok := x.Results[0].(*ast.CallExpr); ok && bsIsSel(c.Fun, "beacon", "SyncChain") {
					nRet++
				}
			}
		}
		return true
	})
	if nCall != 1 || nRet != 1 {
		return "", fmt.Errorf("T-break: %s: PublicRandStream does not end with exactly one `return beacon.SyncChain(_, store, _, _)`", bsPublicFile)
	}
	// the request proxy must forward the client's round unchanged, the stream proxy the beacon's fields
	gm := bsFindMethod(pf, "proxyRequest", "GetFromRound")
	okG := false
	if gm != nil && len(gm.Body.List) == 1 {
		if r, ok := gm.Body.List[0].(*ast.ReturnStmt); ok && len(r.Results) == 1 {
			if c, ok := r.Results[0].(*ast.CallExpr); ok && len(c.Args) == 0 && bsIsSel(c.Fun, "p", "GetRound") {
				okG = true
			}
		}
	}
	if !okG {
		return "", fmt.Errorf("T-break: %s: proxyRequest.GetFromRound is not `return p.GetRound()`", bsPublicFile)
	}
	sm := bsFindMethod(pf, "proxyStream", "Send")
	copied := map[string]bool{}
	if sm != nil && len(sm.Type.Params.List) == 1 && len(sm.Type.Params.List[0].Names) == 1 {
		arg := sm.Type.Params.List[0].Names[0].Name
		ast.Inspect(sm, func(nd ast.Node) bool {
			if kv, ok := nd.(*ast.KeyValueExpr); ok {
				if k, ok := kv.Key.(*ast.Ident); ok {
					src := map[string]string{"Round": "Round", "Signature": "Signature", "PreviousSignature": "PreviousSignature"}[k.Name]
					if src != "" && bsIsSel(kv.Value, arg, src) {
						copied[k.Name] = true
					}
				}
			}
			return true
		})
	}
	if len(copied) != 3 {
		return "", fmt.Errorf("T-break: %s: proxyStream.Send does not copy Round, Signature and PreviousSignature of the beacon packet", bsPublicFile)
	}
	exitsOK, nExits, err := bsSyncChainExits(repo)
	if err != nil {
		return "", err
	}
	pos := pf.fset.Position(fd.Pos())
	var sbd strings.Builder
	sbd.WriteString("(* GENERATED by zzv extract from the Go sources; do not edit. *)\nFrom Coq Require Import Bool.\n")
	fmt.Fprintf(&sbd, "(* %s SyncChain: of the %d return statements that follow store.AddCallback (outside the callback itself), every one is\n   either directly preceded by store.RemoveCallback(id) or returns the error received from errChan (the callback\n   removed itself or was replaced) *)\nDefinition sync_chain_exits_unregister : bool := %v.\n", bsSyncFile, nExits, exitsOK)
	fmt.Fprintf(&sbd, "(* %s:%d PublicRandStream: store := bp.beacon.Store(); return beacon.SyncChain(log, store, proxyReq, proxyStr) *)\nDefinition public_rand_stream_calls_sync_chain : bool := true.\n", bsPublicFile, pos.Line)
	return sbd.String(), nil
}

const bsSyncFile = "internal/chain/beacon/sync_manager.go"

// bsSyncChainExits checks the exits of SyncChain after the registration of its callback.
func bsSyncChainExits(repo string) (ok bool, n int, err error) {
	pf, err := parseFile(repo, bsSyncFile)
	if err != nil {
		return false, 0, err
	}
	fd := bsFindFunc(pf, "SyncChain")
	if fd == nil || fd.Body == nil {
		return false, 0, fmt.Errorf("T-break: %s: func SyncChain not found", bsSyncFile)
	}
	// position of the (only) store.AddCallback call in SyncChain's own body
	var addPos token.Pos
	nAdd := 0
	ast.Inspect(fd.Body, func(nd ast.Node) bool {
		if _, isLit := nd.(*ast.FuncLit); isLit {
			// the callback passed to AddCallback is inspected as an argument below, other literals are skipped
			return true
		}
		if c, ok := nd.(*ast.CallExpr); ok && bsIsSel(c.Fun, "store", "AddCallback") {
			nAdd++
			addPos = c.Pos()
		}
		return true
	})
	if nAdd != 1 {
		return false, 0, fmt.Errorf("T-break: %s: SyncChain: expected exactly one store.AddCallback call (found %d)", bsSyncFile, nAdd)
	}
	isRemove := func(st ast.Stmt) bool {
		es, ok := st.(*ast.ExprStmt)
		if !ok {
			return false
		}
		c, ok := es.X.(*ast.CallExpr)
		return ok && bsIsSel(c.Fun, "store", "RemoveCallback") && len(c.Args) == 1 && bsIsIdent(c.Args[0], "id")
	}
	ok = true
	var visit func(list []ast.Stmt, fromErrChan bool)
	visitStmt := func(st ast.Stmt, fromErrChan bool) {}
	visit = func(list []ast.Stmt, fromErrChan bool) {
		for i, st := range list {
			if r, isRet := st.(*ast.ReturnStmt); isRet && r.Pos() > addPos {
				n++
				prevRemoves := i > 0 && isRemove(list[i-1])
				// also accepted: RemoveCallback two statements before with only a logging call in between
				if !prevRemoves && i > 1 && isRemove(list[i-2]) {
					if es, isExpr := list[i-1].(*ast.ExprStmt); isExpr {
						if _, isCall := es.X.(*ast.CallExpr); isCall {
							prevRemoves = true
						}
					}
				}
				if !prevRemoves && !fromErrChan {
					ok = false
				}
			}
			visitStmt(st, fromErrChan)
		}
	}
	visitStmt = func(st ast.Stmt, fromErrChan bool) {
		switch x := st.(type) {
		case *ast.BlockStmt:
			visit(x.List, fromErrChan)
		case *ast.IfStmt:
			visit(x.Body.List, fromErrChan)
			if x.Else != nil {
				visitStmt(x.Else, fromErrChan)
			}
		case *ast.ForStmt:
			visit(x.Body.List, fromErrChan)
		case *ast.RangeStmt:
			visit(x.Body.List, fromErrChan)
		case *ast.SwitchStmt:
			visit(x.Body.List, fromErrChan)
		case *ast.SelectStmt:
			visit(x.Body.List, fromErrChan)
		case *ast.CaseClause:
			visit(x.Body, fromErrChan)
		case *ast.CommClause:
			// case err := <-errChan: the error comes from the callback, which removed itself or was replaced
			recv := false
			if as, isAs := x.Comm.(*ast.AssignStmt); isAs && len(as.Rhs) == 1 {
				if u, isU := as.Rhs[0].(*ast.UnaryExpr); isU && u.Op == token.ARROW && bsIsIdent(u.X, "errChan") {
					recv = true
				}
			}
			visit(x.Body, fromErrChan || recv)
		case *ast.LabeledStmt:
			visitStmt(x.Stmt, fromErrChan)
		}
		// statements containing function literals (the callback, the cursor function) are not entered:
		// their returns do not leave SyncChain
	}
	visit(fd.Body.List, false)
	if n == 0 {
		return false, 0, fmt.Errorf("T-break: %s: SyncChain: no return statement after store.AddCallback", bsSyncFile)
	}
	return ok, n, nil
}
