package extract

// LockPaths.v: for the peer-facing / public handlers and everything they call inside the
// analysed packages, the tree of lock events of each function body (Lock / RLock / Unlock /
// RUnlock on mutexes resolved through receiver fields and embedded sync.Mutex, defer of
// those, calls of other analysed functions, blocking channel sends, panic-able dereferences of
// request parameters, branches, loops, returns). The obligation paths_ok (Model/Locks.v) is
// evaluated on these trees by the kernel on every run (C14).
//
// Deliberately shallow: go/parser + a small field-type resolver, no go/types. Anything that
// looks like a lock operation but cannot be resolved, labels the translator cannot place, or a
// deferred closure that does more than lock operations make it fail loudly (T-break).

import (
	"fmt"
	"go/ast"
	"go/parser"
	"go/token"
	"os"
	"path/filepath"
	"sort"
	"strings"
)

func init() { register("LockPaths.v", genLockPaths) }

// analysed packages: short name -> directory
var lpDirs = map[string]string{
	"dkg":    "internal/dkg",
	"beacon": "internal/chain/beacon",
	"core":   "internal/core",
	"http":   "handler/http",
}

// interface-typed fields / interface types and the implementation the daemon wires in.
// (pkg.Type.field) or (pkg.Interface) -> pkg.Struct ; "" = outside the analysed packages.
var lpBindings = map[string]string{
	"core.DKGProcess":               "dkg.Process",
	"dkg.Broadcast":                 "dkg.echoBroadcast",
	"dkg.Store":                     "dkg.BoltStore",
	"beacon.CallbackStore":          "beacon.callbackStore",
	"beacon.callbackStore.Store":    "beacon.appendStore",
	"beacon.appendStore.Store":      "beacon.schemeStore",
	"beacon.schemeStore.Store":      "beacon.discrepancyStore",
	"beacon.discrepancyStore.Store": "",
	"http.BeaconHandler.client":     "core.drandProxy",
	"core.drandProxy.r":             "core.BeaconProcess",
}

// entry points: handlers a remote party (or the public HTTP API) reaches
var lpEntries = []string{
	"dkg.Process.Packet", "dkg.Process.Command", "dkg.Process.BroadcastDKG", "dkg.Process.DKGStatus",
	"dkg.echoBroadcast.BroadcastDKG", "dkg.echoBroadcast.PushDeals", "dkg.echoBroadcast.PushResponses",
	"dkg.echoBroadcast.PushJustifications", "dkg.echoBroadcast.Stop",
	"beacon.callbackStore.Put", "beacon.callbackStore.AddCallback", "beacon.callbackStore.RemoveCallback",
	"beacon.appendStore.Put", "beacon.schemeStore.Put",
	"beacon.Handler.ProcessPartialBeacon",
	"core.DrandDaemon.PartialBeacon", "core.DrandDaemon.PublicRand", "core.DrandDaemon.PublicRandStream",
	"core.DrandDaemon.ChainInfo", "core.DrandDaemon.SyncChain", "core.DrandDaemon.GetIdentity",
	"core.DrandDaemon.Status", "core.DrandDaemon.DKGStatus", "core.DrandDaemon.Command",
	"core.DrandDaemon.Packet", "core.DrandDaemon.BroadcastDKG", "core.DrandDaemon.Metrics",
	"core.BeaconProcess.PartialBeacon", "core.BeaconProcess.PublicRand", "core.BeaconProcess.PublicRandStream",
	"core.BeaconProcess.ChainInfo", "core.BeaconProcess.SyncChain", "core.BeaconProcess.GetIdentity",
	"core.BeaconProcess.Status",
	"http.DrandHandler.LatestRand", "http.DrandHandler.PublicRand", "http.DrandHandler.ChainInfo",
	"http.DrandHandler.Health", "http.DrandHandler.ChainHashes",
	"http.DrandHandler.RegisterNewBeaconHandler", "http.DrandHandler.RegisterDefaultBeaconHandler",
	"http.DrandHandler.RemoveBeaconHandler",
}

type lpType struct {
	kind string // named | map | slice | chan | mutex | rwmutex | other
	ref  string // pkg.Type for named; the element class for chan
	elem *lpType
	key  *lpType // map key type
}

type lpStruct struct {
	pkg      string
	name     string
	fields   map[string]ast.Expr
	embedded []ast.Expr
	file     *ast.File
}

type lpFunc struct {
	key  string // pkg.Type.Method | pkg.func
	pkg  string
	recv string // receiver type name ("" for functions)
	decl *ast.FuncDecl
	lit  *ast.FuncLit // synthetic (immediately invoked literal)
	file *ast.File
	fset *token.FileSet
	env  map[string]*lpType // for synthetic literals: the enclosing environment
}

type lpProg struct {
	kind string // skip op defer call send panic seq alt loop block brk ret
	op   string // for op: OLock n ... ; for defer: list text
	n    int
	kids []*lpProg
}

type lpCtx struct {
	repo     string
	structs  map[string]*lpStruct // pkg.Type
	ifaces   map[string]bool      // pkg.Iface
	funcs    map[string]*lpFunc
	pkgMutex map[string]string // pkg.var -> kind
	imports  map[*ast.File]map[string]string
	mutexID  map[string]int
	mutexes  []string
	funcID   map[string]int
	funcList []string
	bodies   map[string]*lpProg
	sends    []string
	sendCls  []string // class (element type) of the channel of each send site, "" when unknown
	closes   []string
	closeCls []string
	labelN   int
	queue    []string
	err      error
}

func (c *lpCtx) fail(fset *token.FileSet, pos token.Pos, format string, a ...interface{}) {
	if c.err == nil {
		where := ""
		if fset != nil {
			p := fset.Position(pos)
			if rel, err := filepath.Rel(c.repo, p.Filename); err == nil {
				where = fmt.Sprintf("%s:%d: ", rel, p.Line)
			}
		}
		c.err = fmt.Errorf("T-break: lock paths: %s%s", where, fmt.Sprintf(format, a...))
	}
}

func genLockPaths(repo string) (string, error) {
	c := &lpCtx{repo: repo, structs: map[string]*lpStruct{}, ifaces: map[string]bool{}, funcs: map[string]*lpFunc{},
		pkgMutex: map[string]string{}, imports: map[*ast.File]map[string]string{}, mutexID: map[string]int{},
		funcID: map[string]int{}, bodies: map[string]*lpProg{}}
	pkgs := make([]string, 0, len(lpDirs))
	for p := range lpDirs {
		pkgs = append(pkgs, p)
	}
	sort.Strings(pkgs)
	for _, p := range pkgs {
		if err := c.load(p, filepath.Join(repo, lpDirs[p])); err != nil {
			return "", err
		}
	}
	if err := c.checkStoreStack(); err != nil {
		return "", err
	}
	for _, e := range lpEntries {
		if _, ok := c.funcs[e]; !ok {
			return "", fmt.Errorf("T-break: lock paths: entry point %s not found", e)
		}
		c.want(e)
	}
	for len(c.queue) > 0 {
		k := c.queue[0]
		c.queue = c.queue[1:]
		f := c.funcs[k]
		c.bodies[k] = c.translateFunc(f)
		if c.err != nil {
			return "", c.err
		}
	}
	c.prune()
	return c.render(), nil
}

// prune replaces calls of functions that (transitively) perform no lock event by PPanic (when
// they can panic) or PSkip, simplifies the trees, and drops the functions no longer referenced.
// A call of such a function returns or panics with the caller's locks unchanged, which is
// exactly what PSkip / PPanic mean.
func (c *lpCtx) prune() {
	lockEv := map[string]bool{}
	canPanic := map[string]bool{}
	var scan func(p *lpProg, k string) (bool, bool)
	scan = func(p *lpProg, k string) (ev bool, pn bool) {
		switch p.kind {
		case "op", "defer", "send", "close":
			return true, false
		case "panic":
			return false, true
		case "call":
			callee := c.funcList[p.n]
			return lockEv[callee], canPanic[callee]
		}
		for _, kid := range p.kids {
			e, q := scan(kid, k)
			ev, pn = ev || e, pn || q
		}
		return ev, pn
	}
	for changed := true; changed; {
		changed = false
		for _, k := range c.funcList {
			e, p := scan(c.bodies[k], k)
			if e != lockEv[k] || p != canPanic[k] {
				lockEv[k], canPanic[k] = e, p
				changed = true
			}
		}
	}
	var rewrite func(p *lpProg) *lpProg
	rewrite = func(p *lpProg) *lpProg {
		if p.kind == "call" {
			callee := c.funcList[p.n]
			if !lockEv[callee] {
				if canPanic[callee] {
					return &lpProg{kind: "panic"}
				}
				return &lpProg{kind: "skip"}
			}
			return p
		}
		if len(p.kids) == 0 {
			return p
		}
		var kids []*lpProg
		for _, k := range p.kids {
			kids = append(kids, rewrite(k))
		}
		switch p.kind {
		case "seq":
			// consecutive PPanic collapse into one
			q := seqOf(kids)
			if q.kind == "seq" {
				var out []*lpProg
				for _, k := range q.kids {
					if k.kind == "panic" && len(out) > 0 && out[len(out)-1].kind == "panic" {
						continue
					}
					out = append(out, k)
				}
				return seqOf(out)
			}
			return q
		case "alt":
			seen := map[string]bool{}
			var out []*lpProg
			for _, k := range kids {
				r := k.coq("")
				if !seen[r] {
					seen[r] = true
					out = append(out, k)
				}
			}
			if len(out) == 1 {
				return out[0]
			}
			return &lpProg{kind: "alt", kids: out}
		case "loop":
			if kids[0].kind == "skip" {
				return kids[0]
			}
			if kids[0].kind == "panic" {
				return kids[0]
			}
			return &lpProg{kind: "loop", kids: kids}
		case "block":
			if !mentionsBrk(kids[0], p.n) {
				return kids[0]
			}
			return &lpProg{kind: "block", n: p.n, kids: kids}
		}
		return &lpProg{kind: p.kind, op: p.op, n: p.n, kids: kids}
	}
	for _, k := range c.funcList {
		c.bodies[k] = rewrite(c.bodies[k])
	}
	// keep entries and whatever is still called, renumber
	keep := map[string]bool{}
	var mark func(k string)
	var markProg func(p *lpProg)
	markProg = func(p *lpProg) {
		if p.kind == "call" {
			mark(c.funcList[p.n])
		}
		for _, kid := range p.kids {
			markProg(kid)
		}
	}
	mark = func(k string) {
		if keep[k] {
			return
		}
		keep[k] = true
		markProg(c.bodies[k])
	}
	for _, e := range lpEntries {
		mark(e)
	}
	old := c.funcList
	newID := map[string]int{}
	var list []string
	for _, k := range old {
		if keep[k] {
			newID[k] = len(list)
			list = append(list, k)
		}
	}
	var renum func(p *lpProg)
	renum = func(p *lpProg) {
		if p.kind == "call" {
			p.n = newID[old[p.n]]
		}
		for _, kid := range p.kids {
			renum(kid)
		}
	}
	for _, k := range list {
		renum(c.bodies[k])
	}
	c.funcList, c.funcID = list, newID
}

// analysedClass: is the channel element a type of one of the analysed packages?
func analysedClass(cls string) bool {
	i := strings.Index(cls, ".")
	if i <= 0 {
		return false
	}
	_, ok := lpDirs[cls[:i]]
	return ok
}

func mentionsBrk(p *lpProg, l int) bool {
	if p.kind == "brk" && p.n == l {
		return true
	}
	for _, k := range p.kids {
		if mentionsBrk(k, l) {
			return true
		}
	}
	return false
}

func (c *lpCtx) want(key string) int {
	if id, ok := c.funcID[key]; ok {
		return id
	}
	id := len(c.funcList)
	c.funcID[key] = id
	c.funcList = append(c.funcList, key)
	c.queue = append(c.queue, key)
	return id
}

func (c *lpCtx) load(pkg, dir string) error {
	ents, err := os.ReadDir(dir)
	if err != nil {
		return fmt.Errorf("T-break: lock paths: %w", err)
	}
	for _, e := range ents {
		n := e.Name()
		if !strings.HasSuffix(n, ".go") || strings.HasSuffix(n, "_test.go") || strings.HasPrefix(n, "verif_export") {
			continue
		}
		fset := token.NewFileSet()
		f, err := parser.ParseFile(fset, filepath.Join(dir, n), nil, 0)
		if err != nil {
			return fmt.Errorf("T-break: lock paths: parse %s: %w", n, err)
		}
		im := map[string]string{}
		for _, s := range f.Imports {
			p := strings.Trim(s.Path.Value, `"`)
			short := ""
			for name, d := range lpDirs {
				if strings.HasSuffix(p, "/"+d) {
					short = name
				}
			}
			if p == "sync" {
				short = "sync"
			}
			if short == "" {
				continue
			}
			alias := p[strings.LastIndex(p, "/")+1:]
			if s.Name != nil {
				alias = s.Name.Name
			}
			im[alias] = short
		}
		c.imports[f] = im
		for _, d := range f.Decls {
			switch x := d.(type) {
			case *ast.GenDecl:
				for _, sp := range x.Specs {
					switch s := sp.(type) {
					case *ast.TypeSpec:
						switch t := s.Type.(type) {
						case *ast.StructType:
							st := &lpStruct{pkg: pkg, name: s.Name.Name, fields: map[string]ast.Expr{}, file: f}
							for _, fl := range t.Fields.List {
								if len(fl.Names) == 0 {
									st.embedded = append(st.embedded, fl.Type)
								}
								for _, nm := range fl.Names {
									st.fields[nm.Name] = fl.Type
								}
							}
							c.structs[pkg+"."+s.Name.Name] = st
						case *ast.InterfaceType:
							c.ifaces[pkg+"."+s.Name.Name] = true
						}
					case *ast.ValueSpec:
						if x.Tok == token.VAR && s.Type != nil {
							if sel, ok := s.Type.(*ast.SelectorExpr); ok {
								if id, ok := sel.X.(*ast.Ident); ok && im[id.Name] == "sync" {
									for _, nm := range s.Names {
										c.pkgMutex[pkg+"."+nm.Name] = sel.Sel.Name
									}
								}
							}
						}
					}
				}
			case *ast.FuncDecl:
				if x.Body == nil {
					continue
				}
				key, recv := pkg+"."+x.Name.Name, ""
				if x.Recv != nil && len(x.Recv.List) == 1 {
					t := x.Recv.List[0].Type
					if s, ok := t.(*ast.StarExpr); ok {
						t = s.X
					}
					if ix, ok := t.(*ast.IndexExpr); ok { // generic receiver
						t = ix.X
					}
					if id, ok := t.(*ast.Ident); ok {
						recv = id.Name
						key = pkg + "." + recv + "." + x.Name.Name
					}
				}
				c.funcs[key] = &lpFunc{key: key, pkg: pkg, recv: recv, decl: x, file: f, fset: fset}
			}
		}
	}
	return nil
}

// checkStoreStack confirms, from newChainStore, the order in which the store decorators wrap
// each other (the binding table above relies on it).
func (c *lpCtx) checkStoreStack() error {
	f := c.funcs["beacon.newChainStore"]
	if f == nil {
		return fmt.Errorf("T-break: lock paths: beacon.newChainStore not found")
	}
	made := map[string]string{} // variable -> constructor
	order := []string{}
	ast.Inspect(f.decl.Body, func(n ast.Node) bool {
		as, ok := n.(*ast.AssignStmt)
		if !ok || len(as.Rhs) != 1 || len(as.Lhs) == 0 {
			return true
		}
		call, ok := as.Rhs[0].(*ast.CallExpr)
		if !ok {
			return true
		}
		id, ok := call.Fun.(*ast.Ident)
		if !ok {
			return true
		}
		switch id.Name {
		case "newDiscrepancyStore", "NewSchemeStore", "newAppendStore", "NewCallbackStore":
			inner := ""
			for _, a := range call.Args {
				if ai, ok := a.(*ast.Ident); ok {
					if ctor, ok := made[ai.Name]; ok {
						inner = ctor
					}
				}
			}
			if l, ok := as.Lhs[0].(*ast.Ident); ok {
				made[l.Name] = id.Name
			}
			order = append(order, id.Name+"<-"+inner)
		}
		return true
	})
	want := "newDiscrepancyStore<-,NewSchemeStore<-newDiscrepancyStore,newAppendStore<-NewSchemeStore,NewCallbackStore<-newAppendStore"
	if got := strings.Join(order, ","); got != want {
		return fmt.Errorf("T-break: lock paths: store decorators are composed as %q, expected %q", got, want)
	}
	return nil
}

// ---------- types ----------

func (c *lpCtx) bind(key string) (*lpType, bool) {
	if impl, ok := lpBindings[key]; ok {
		if impl == "" {
			return &lpType{kind: "other"}, true
		}
		return &lpType{kind: "named", ref: impl}, true
	}
	return nil, false
}

func (c *lpCtx) typeExpr(pkg string, file *ast.File, e ast.Expr) *lpType {
	switch x := e.(type) {
	case *ast.StarExpr:
		return c.typeExpr(pkg, file, x.X)
	case *ast.ParenExpr:
		return c.typeExpr(pkg, file, x.X)
	case *ast.Ident:
		if _, ok := c.structs[pkg+"."+x.Name]; ok {
			return &lpType{kind: "named", ref: pkg + "." + x.Name}
		}
		if c.ifaces[pkg+"."+x.Name] {
			if t, ok := c.bind(pkg + "." + x.Name); ok {
				return t
			}
		}
	case *ast.SelectorExpr:
		if id, ok := x.X.(*ast.Ident); ok {
			p := c.imports[file][id.Name]
			if p == "sync" {
				switch x.Sel.Name {
				case "Mutex":
					return &lpType{kind: "mutex"}
				case "RWMutex":
					return &lpType{kind: "rwmutex"}
				}
				return &lpType{kind: "other"}
			}
			if p != "" {
				if _, ok := c.structs[p+"."+x.Sel.Name]; ok {
					return &lpType{kind: "named", ref: p + "." + x.Sel.Name}
				}
				if c.ifaces[p+"."+x.Sel.Name] {
					if t, ok := c.bind(p + "." + x.Sel.Name); ok {
						return t
					}
				}
			}
		}
	case *ast.MapType:
		return &lpType{kind: "map", elem: c.typeExpr(pkg, file, x.Value), key: c.typeExpr(pkg, file, x.Key)}
	case *ast.ChanType:
		return &lpType{kind: "chan", ref: c.chanClass(pkg, file, x.Value)}
	case *ast.ArrayType:
		return &lpType{kind: "slice", elem: c.typeExpr(pkg, file, x.Elt)}
	case *ast.IndexExpr: // generic instantiation T[X]
		return c.typeExpr(pkg, file, x.X)
	}
	return &lpType{kind: "other"}
}

// chanClass names the element type of a channel: pkg.Type for types of the analysed packages,
// the plain spelling otherwise (bool, error, []byte ...).
func (c *lpCtx) chanClass(pkg string, file *ast.File, e ast.Expr) string {
	switch x := e.(type) {
	case *ast.StarExpr:
		return c.chanClass(pkg, file, x.X)
	case *ast.Ident:
		if _, ok := c.structs[pkg+"."+x.Name]; ok || c.ifaces[pkg+"."+x.Name] {
			return pkg + "." + x.Name
		}
		return x.Name
	case *ast.SelectorExpr:
		if id, ok := x.X.(*ast.Ident); ok {
			if p := c.imports[file][id.Name]; p != "" {
				return p + "." + x.Sel.Name
			}
			return "~" + id.Name + "." + x.Sel.Name // a type of a package that is not analysed
		}
	}
	return exprString(e)
}

// fieldType finds field f of struct ref (promoted through embedded structs, one level).
func (c *lpCtx) fieldType(ref, f string) *lpType {
	st := c.structs[ref]
	if st == nil {
		return nil
	}
	if t, ok := c.bind(ref + "." + f); ok {
		return t
	}
	if te, ok := st.fields[f]; ok {
		return c.typeExpr(st.pkg, st.file, te)
	}
	for _, em := range st.embedded {
		if embeddedName(em) == f {
			return c.typeExpr(st.pkg, st.file, em)
		}
	}
	for _, em := range st.embedded {
		et := c.typeExpr(st.pkg, st.file, em)
		if et.kind == "named" {
			if t := c.fieldType(et.ref, f); t != nil {
				return t
			}
		}
	}
	return nil
}

func embeddedName(e ast.Expr) string {
	switch x := e.(type) {
	case *ast.StarExpr:
		return embeddedName(x.X)
	case *ast.Ident:
		return x.Name
	case *ast.SelectorExpr:
		return x.Sel.Name
	}
	return ""
}

// embeddedMutex returns the kind of the mutex a struct embeds directly, if any.
func (c *lpCtx) embeddedMutex(ref string) string {
	st := c.structs[ref]
	if st == nil {
		return ""
	}
	for _, em := range st.embedded {
		t := c.typeExpr(st.pkg, st.file, em)
		if t.kind == "mutex" {
			return "Mutex"
		}
		if t.kind == "rwmutex" {
			return "RWMutex"
		}
	}
	return ""
}

// method resolves ref.m through embedded fields (one level) and the binding of embedded
// interfaces.
func (c *lpCtx) method(ref, m string) *lpFunc {
	if f, ok := c.funcs[ref+"."+m]; ok {
		return f
	}
	st := c.structs[ref]
	if st == nil {
		return nil
	}
	for _, em := range st.embedded {
		var et *lpType
		if t, ok := c.bind(ref + "." + embeddedName(em)); ok {
			et = t
		} else {
			et = c.typeExpr(st.pkg, st.file, em)
		}
		if et.kind == "named" {
			if f, ok := c.funcs[et.ref+"."+m]; ok {
				return f
			}
		}
	}
	return nil
}

// ---------- translation of one function ----------

type lpFn struct {
	c        *lpCtx
	f        *lpFunc
	env      map[string]*lpType
	params   map[string]bool // non-receiver, non-context parameters (request controlled)
	localMu  map[string]string
	breakTo  []int // innermost breakable block label
	contTo   []int // innermost loop-body label
	labels   map[string][2]int // label -> (break label, continue label)
	nLit     int
	nSend    int
	nClose   int
}

func (c *lpCtx) translateFunc(f *lpFunc) *lpProg {
	t := &lpFn{c: c, f: f, env: map[string]*lpType{}, params: map[string]bool{}, localMu: map[string]string{}, labels: map[string][2]int{}}
	var body *ast.BlockStmt
	var ftype *ast.FuncType
	if f.lit != nil {
		body, ftype = f.lit.Body, f.lit.Type
		for k, v := range f.env {
			t.env[k] = v
		}
	} else {
		body, ftype = f.decl.Body, f.decl.Type
		if f.decl.Recv != nil && len(f.decl.Recv.List) == 1 && len(f.decl.Recv.List[0].Names) == 1 && f.recv != "" {
			t.env[f.decl.Recv.List[0].Names[0].Name] = &lpType{kind: "named", ref: f.pkg + "." + f.recv}
		}
	}
	if ftype.Params != nil {
		for _, p := range ftype.Params.List {
			pt := c.typeExpr(f.pkg, f.file, p.Type)
			isCtx := false
			if sel, ok := p.Type.(*ast.SelectorExpr); ok && sel.Sel.Name == "Context" {
				isCtx = true
			}
			for _, n := range p.Names {
				t.env[n.Name] = pt
				if !isCtx && n.Name != "_" && f.lit == nil {
					if _, isPtr := p.Type.(*ast.StarExpr); isPtr {
						t.params[n.Name] = true
					}
				}
			}
		}
	}
	return t.block(body.List)
}

func seqOf(ps []*lpProg) *lpProg {
	var out []*lpProg
	for _, p := range ps {
		if p == nil || p.kind == "skip" {
			continue
		}
		if p.kind == "seq" {
			out = append(out, p.kids...)
		} else {
			out = append(out, p)
		}
	}
	switch len(out) {
	case 0:
		return &lpProg{kind: "skip"}
	case 1:
		return out[0]
	}
	return &lpProg{kind: "seq", kids: out}
}

func (t *lpFn) block(stmts []ast.Stmt) *lpProg {
	var ps []*lpProg
	for _, s := range stmts {
		ps = append(ps, t.stmt(s))
	}
	return seqOf(ps)
}

func (t *lpFn) newLabel() int { t.c.labelN++; return t.c.labelN }

func (t *lpFn) typeOf(e ast.Expr) *lpType {
	c := t.c
	switch x := e.(type) {
	case *ast.Ident:
		if ty, ok := t.env[x.Name]; ok {
			return ty
		}
	case *ast.ParenExpr:
		return t.typeOf(x.X)
	case *ast.StarExpr:
		return t.typeOf(x.X)
	case *ast.UnaryExpr:
		if x.Op == token.AND {
			return t.typeOf(x.X)
		}
	case *ast.CompositeLit:
		if x.Type != nil {
			return c.typeExpr(t.f.pkg, t.f.file, x.Type)
		}
	case *ast.TypeAssertExpr:
		if x.Type != nil {
			return c.typeExpr(t.f.pkg, t.f.file, x.Type)
		}
	case *ast.SelectorExpr:
		tx := t.typeOf(x.X)
		if tx != nil && tx.kind == "named" {
			if ft := c.fieldType(tx.ref, x.Sel.Name); ft != nil {
				return ft
			}
		}
	case *ast.IndexExpr:
		tx := t.typeOf(x.X)
		if tx != nil && (tx.kind == "map" || tx.kind == "slice") {
			return tx.elem
		}
	case *ast.CallExpr:
		if id, ok := x.Fun.(*ast.Ident); ok && id.Name == "make" && len(x.Args) >= 1 {
			if _, shadow := t.env[id.Name]; !shadow {
				return c.typeExpr(t.f.pkg, t.f.file, x.Args[0])
			}
		}
		if f := t.callee(x); f != nil && f.decl != nil && f.decl.Type.Results != nil && len(f.decl.Type.Results.List) > 0 {
			return c.typeExpr(f.pkg, f.file, f.decl.Type.Results.List[0].Type)
		}
	}
	return nil
}

// callee resolves a call to a function of the analysed packages.
func (t *lpFn) callee(call *ast.CallExpr) *lpFunc {
	c := t.c
	switch fn := call.Fun.(type) {
	case *ast.Ident:
		if _, shadow := t.env[fn.Name]; shadow {
			return nil
		}
		if f, ok := c.funcs[t.f.pkg+"."+fn.Name]; ok {
			return f
		}
	case *ast.SelectorExpr:
		if id, ok := fn.X.(*ast.Ident); ok {
			if _, isVar := t.env[id.Name]; !isVar {
				if p := c.imports[t.f.file][id.Name]; p != "" && p != "sync" {
					if f, ok := c.funcs[p+"."+fn.Sel.Name]; ok {
						return f
					}
					return nil
				}
			}
		}
		tx := t.typeOf(fn.X)
		if tx != nil && tx.kind == "named" {
			return c.method(tx.ref, fn.Sel.Name)
		}
	}
	return nil
}

var lockMethods = map[string]string{"Lock": "OLock", "Unlock": "OUnlock", "RLock": "ORLock", "RUnlock": "ORUnlock"}

// lockOp recognises X.Lock() etc. and resolves the mutex; ok=false when the call is not a lock
// operation at all.
func (t *lpFn) lockOp(call *ast.CallExpr) (op string, ok bool) {
	c := t.c
	sel, isSel := call.Fun.(*ast.SelectorExpr)
	if !isSel || len(call.Args) != 0 {
		return "", false
	}
	opName, isLock := lockMethods[sel.Sel.Name]
	if !isLock {
		return "", false
	}
	name := ""
	switch x := sel.X.(type) {
	case *ast.Ident:
		if k, ok := t.localMu[x.Name]; ok {
			name = t.f.key + "$" + x.Name + ":" + k
		} else if ty, ok := t.env[x.Name]; ok {
			if ty != nil && ty.kind == "named" {
				if k := c.embeddedMutex(ty.ref); k != "" {
					name = ty.ref + "." + k
				}
			}
		} else if _, ok := c.pkgMutex[t.f.pkg+"."+x.Name]; ok {
			name = t.f.pkg + "." + x.Name
		}
	case *ast.SelectorExpr:
		tx := t.typeOf(x.X)
		if tx != nil && tx.kind == "named" {
			ft := c.fieldType(tx.ref, x.Sel.Name)
			if ft != nil && (ft.kind == "mutex" || ft.kind == "rwmutex") {
				name = tx.ref + "." + x.Sel.Name
			} else if ft != nil && ft.kind == "named" {
				if k := c.embeddedMutex(ft.ref); k != "" {
					name = ft.ref + "." + k
				}
			}
		}
	}
	if name == "" {
		// a method called Lock/Unlock on something that is not one of our mutexes: is it a
		// function of the analysed packages (e.g. a wrapper)? then it is an ordinary call.
		if t.callee(call) != nil {
			return "", false
		}
		c.fail(t.f.fset, call.Pos(), "%s: cannot resolve the mutex of %s()", t.f.key, exprString(call.Fun))
		return "", true
	}
	id, seen := c.mutexID[name]
	if !seen {
		id = len(c.mutexes)
		c.mutexID[name] = id
		c.mutexes = append(c.mutexes, name)
	}
	return fmt.Sprintf("%s %d", opName, id), true
}

func exprString(e ast.Expr) string {
	switch x := e.(type) {
	case *ast.Ident:
		return x.Name
	case *ast.SelectorExpr:
		return exprString(x.X) + "." + x.Sel.Name
	case *ast.CallExpr:
		return exprString(x.Fun) + "()"
	case *ast.IndexExpr:
		return exprString(x.X) + "[..]"
	case *ast.StarExpr:
		return "*" + exprString(x.X)
	case *ast.ArrayType:
		return "[]" + exprString(x.Elt)
	case *ast.MapType:
		return "map[" + exprString(x.Key) + "]" + exprString(x.Value)
	case *ast.ChanType:
		return "chan " + exprString(x.Value)
	case *ast.InterfaceType:
		return "interface{}"
	case *ast.StructType:
		return "struct{}"
	}
	return "?"
}

// derefsParam: does the expression select a field through a request parameter (p.F, p.F.G,
// p.F[i]) other than by a nil-safe getter call?
func (t *lpFn) derefsParam(n ast.Node) bool {
	found := false
	ast.Inspect(n, func(x ast.Node) bool {
		if found {
			return false
		}
		switch s := x.(type) {
		case *ast.FuncLit:
			return false
		case *ast.CallExpr:
			// method call on a parameter: getters are nil-safe; do not count the selector itself
			if sel, ok := s.Fun.(*ast.SelectorExpr); ok {
				if id, ok := sel.X.(*ast.Ident); ok && t.params[id.Name] {
					for _, a := range s.Args {
						if t.derefsParam(a) {
							found = true
						}
					}
					return false
				}
			}
			if id, ok := s.Fun.(*ast.Ident); ok && id.Name == "panic" {
				found = true
			}
		case *ast.SelectorExpr:
			if id, ok := s.X.(*ast.Ident); ok && t.params[id.Name] {
				found = true
			}
		case *ast.IndexExpr:
			if id, ok := s.X.(*ast.Ident); ok && t.params[id.Name] {
				found = true
			}
		}
		return true
	})
	return found
}

// exprEvents: the events of evaluating an expression (calls inside it, in source order).
func (t *lpFn) exprEvents(e ast.Node) []*lpProg {
	var ps []*lpProg
	if e == nil {
		return nil
	}
	ast.Inspect(e, func(n ast.Node) bool {
		switch x := n.(type) {
		case *ast.FuncLit:
			return false // not invoked here
		case *ast.CallExpr:
			// arguments and receiver first
			for _, a := range x.Args {
				ps = append(ps, t.exprEvents(a)...)
			}
			if id, ok := x.Fun.(*ast.Ident); ok && id.Name == "close" && len(x.Args) == 1 {
				if _, shadow := t.env[id.Name]; !shadow {
					ps = append(ps, t.closeEv(x))
					return false
				}
			}
			if lit, ok := x.Fun.(*ast.FuncLit); ok { // immediately invoked literal
				ps = append(ps, t.litCall(lit))
				return false
			}
			if sel, ok := x.Fun.(*ast.SelectorExpr); ok {
				ps = append(ps, t.exprEvents(sel.X)...)
			}
			if op, isLock := t.lockOp(x); isLock {
				if op != "" {
					ps = append(ps, &lpProg{kind: "op", op: op})
				}
				return false
			}
			if f := t.callee(x); f != nil {
				ps = append(ps, &lpProg{kind: "call", n: t.c.want(f.key)})
			}
			return false
		}
		return true
	})
	return ps
}

func (t *lpFn) litCall(lit *ast.FuncLit) *lpProg {
	t.nLit++
	key := fmt.Sprintf("%s$lit%d", t.f.key, t.nLit)
	env := map[string]*lpType{}
	for k, v := range t.env {
		env[k] = v
	}
	t.c.funcs[key] = &lpFunc{key: key, pkg: t.f.pkg, recv: t.f.recv, lit: lit, file: t.f.file, fset: t.f.fset, env: env}
	return &lpProg{kind: "call", n: t.c.want(key)}
}

func (t *lpFn) withPanic(n ast.Node, ps []*lpProg) *lpProg {
	if t.derefsParam(n) {
		ps = append([]*lpProg{{kind: "panic"}}, ps...)
	}
	return seqOf(ps)
}

func (t *lpFn) assignTypes(lhs []ast.Expr, rhs []ast.Expr) {
	for i, l := range lhs {
		id, ok := l.(*ast.Ident)
		if !ok || id.Name == "_" {
			continue
		}
		var ty *lpType
		if len(rhs) == len(lhs) {
			ty = t.typeOf(rhs[i])
		} else if len(rhs) == 1 {
			switch r := rhs[0].(type) {
			case *ast.CallExpr:
				if f := t.callee(r); f != nil && f.decl != nil && f.decl.Type.Results != nil {
					var res []ast.Expr
					for _, fl := range f.decl.Type.Results.List {
						k := len(fl.Names)
						if k == 0 {
							k = 1
						}
						for j := 0; j < k; j++ {
							res = append(res, fl.Type)
						}
					}
					if i < len(res) {
						ty = t.c.typeExpr(f.pkg, f.file, res[i])
					}
				}
			case *ast.IndexExpr, *ast.TypeAssertExpr:
				if i == 0 {
					ty = t.typeOf(r)
				}
			}
		}
		if ty != nil {
			t.env[id.Name] = ty
		} else {
			delete(t.env, id.Name)
			t.env[id.Name] = &lpType{kind: "other"}
		}
	}
}

func (t *lpFn) stmt(s ast.Stmt) *lpProg {
	c := t.c
	if c.err != nil || s == nil {
		return &lpProg{kind: "skip"}
	}
	switch x := s.(type) {
	case *ast.ExprStmt:
		return t.withPanic(x, t.exprEvents(x.X))
	case *ast.AssignStmt:
		var ps []*lpProg
		for _, r := range x.Rhs {
			ps = append(ps, t.exprEvents(r)...)
		}
		for _, l := range x.Lhs {
			if _, ok := l.(*ast.Ident); !ok {
				ps = append(ps, t.exprEvents(l)...)
			}
		}
		p := t.withPanic(x, ps)
		t.assignTypes(x.Lhs, x.Rhs)
		return p
	case *ast.DeclStmt:
		var ps []*lpProg
		if gd, ok := x.Decl.(*ast.GenDecl); ok {
			for _, sp := range gd.Specs {
				if vs, ok := sp.(*ast.ValueSpec); ok {
					for _, v := range vs.Values {
						ps = append(ps, t.exprEvents(v)...)
					}
					if vs.Type != nil {
						ty := c.typeExpr(t.f.pkg, t.f.file, vs.Type)
						for _, n := range vs.Names {
							if ty.kind == "mutex" || ty.kind == "rwmutex" {
								t.localMu[n.Name] = ty.kind
							} else {
								t.env[n.Name] = ty
							}
						}
					} else {
						var lhs []ast.Expr
						for _, n := range vs.Names {
							lhs = append(lhs, n)
						}
						t.assignTypes(lhs, vs.Values)
					}
				}
			}
		}
		return t.withPanic(x, ps)
	case *ast.ReturnStmt:
		var ps []*lpProg
		for _, r := range x.Results {
			ps = append(ps, t.exprEvents(r)...)
		}
		p := t.withPanic(x, ps)
		return seqOf([]*lpProg{p, {kind: "ret"}})
	case *ast.IncDecStmt, *ast.EmptyStmt:
		return &lpProg{kind: "skip"}
	case *ast.BlockStmt:
		return t.block(x.List)
	case *ast.IfStmt:
		init := t.stmt(x.Init)
		cond := t.withPanic(x.Cond, t.exprEvents(x.Cond))
		then := t.block(x.Body.List)
		els := &lpProg{kind: "skip"}
		if x.Else != nil {
			els = t.stmt(x.Else)
		}
		return seqOf([]*lpProg{init, cond, {kind: "alt", kids: []*lpProg{then, els}}})
	case *ast.SwitchStmt:
		init := t.stmt(x.Init)
		tag := t.withPanic(x.Tag, t.exprEvents(x.Tag))
		return seqOf([]*lpProg{init, tag, t.clauses(x.Body, false)})
	case *ast.TypeSwitchStmt:
		init := t.stmt(x.Init)
		var tag *lpProg
		switch a := x.Assign.(type) {
		case *ast.ExprStmt:
			tag = t.withPanic(a, t.exprEvents(a.X))
		case *ast.AssignStmt:
			var ps []*lpProg
			for _, r := range a.Rhs {
				ps = append(ps, t.exprEvents(r)...)
			}
			tag = t.withPanic(a, ps)
		}
		return seqOf([]*lpProg{init, tag, t.clauses(x.Body, false)})
	case *ast.SelectStmt:
		return t.clauses(x.Body, true)
	case *ast.ForStmt:
		return t.loop(x.Init, x.Cond, x.Post, nil, x.Body, "")
	case *ast.RangeStmt:
		return t.loop(nil, nil, nil, x, x.Body, "")
	case *ast.LabeledStmt:
		switch inner := x.Stmt.(type) {
		case *ast.ForStmt:
			return t.loop(inner.Init, inner.Cond, inner.Post, nil, inner.Body, x.Label.Name)
		case *ast.RangeStmt:
			return t.loop(nil, nil, nil, inner, inner.Body, x.Label.Name)
		case *ast.SwitchStmt, *ast.SelectStmt, *ast.TypeSwitchStmt:
			c.fail(t.f.fset, x.Pos(), "%s: labelled switch/select", t.f.key)
			return &lpProg{kind: "skip"}
		}
		return t.stmt(x.Stmt)
	case *ast.BranchStmt:
		switch x.Tok {
		case token.BREAK:
			if x.Label != nil {
				if l, ok := t.labels[x.Label.Name]; ok {
					return &lpProg{kind: "brk", n: l[0]}
				}
			} else if len(t.breakTo) > 0 {
				return &lpProg{kind: "brk", n: t.breakTo[len(t.breakTo)-1]}
			}
		case token.CONTINUE:
			if x.Label != nil {
				if l, ok := t.labels[x.Label.Name]; ok {
					return &lpProg{kind: "brk", n: l[1]}
				}
			} else if len(t.contTo) > 0 {
				return &lpProg{kind: "brk", n: t.contTo[len(t.contTo)-1]}
			}
		}
		c.fail(t.f.fset, x.Pos(), "%s: cannot place %s", t.f.key, x.Tok)
		return &lpProg{kind: "skip"}
	case *ast.SendStmt:
		ps := append(t.exprEvents(x.Chan), t.exprEvents(x.Value)...)
		ps = append(ps, t.send(x))
		return t.withPanic(x, ps)
	case *ast.GoStmt:
		// another goroutine: only the argument evaluation happens here
		var ps []*lpProg
		for _, a := range x.Call.Args {
			ps = append(ps, t.exprEvents(a)...)
		}
		return seqOf(ps)
	case *ast.DeferStmt:
		return t.deferStmt(x)
	}
	c.fail(t.f.fset, s.Pos(), "%s: statement %T not recognised", t.f.key, s)
	return &lpProg{kind: "skip"}
}

func (t *lpFn) send(x *ast.SendStmt) *lpProg {
	name := fmt.Sprintf("%s#%d", t.f.key, t.nSend)
	t.nSend++
	id := len(t.c.sends)
	t.c.sends = append(t.c.sends, name)
	// the class of the channel: its element type, else the type of the value sent
	cls := ""
	if ty := t.typeOf(x.Chan); ty != nil && ty.kind == "chan" {
		cls = ty.ref
	} else if ty := t.typeOf(x.Value); ty != nil && ty.kind == "named" {
		cls = ty.ref
	}
	t.c.sendCls = append(t.c.sendCls, cls)
	return &lpProg{kind: "send", n: id}
}

func (t *lpFn) closeEv(x *ast.CallExpr) *lpProg {
	name := fmt.Sprintf("%s@%d", t.f.key, t.nClose)
	t.nClose++
	id := len(t.c.closes)
	t.c.closes = append(t.c.closes, name)
	cls := ""
	if ty := t.typeOf(x.Args[0]); ty != nil && ty.kind == "chan" {
		cls = ty.ref
	}
	t.c.closeCls = append(t.c.closeCls, cls)
	return &lpProg{kind: "close", n: id}
}

// clauses: switch / select bodies: one of the clauses (or none, when there is no default).
func (t *lpFn) clauses(body *ast.BlockStmt, isSelect bool) *lpProg {
	lb := t.newLabel()
	t.breakTo = append(t.breakTo, lb)
	defer func() { t.breakTo = t.breakTo[:len(t.breakTo)-1] }()
	hasDefault := false
	for _, cl := range body.List {
		switch cc := cl.(type) {
		case *ast.CaseClause:
			if cc.List == nil {
				hasDefault = true
			}
		case *ast.CommClause:
			if cc.Comm == nil {
				hasDefault = true
			}
		}
	}
	var alts []*lpProg
	for _, cl := range body.List {
		saved := t.snapshotEnv()
		switch cc := cl.(type) {
		case *ast.CaseClause:
			var ps []*lpProg
			for _, e := range cc.List {
				ps = append(ps, t.exprEvents(e)...)
			}
			for _, st := range cc.Body {
				if br, ok := st.(*ast.BranchStmt); ok && br.Tok == token.FALLTHROUGH {
					t.c.fail(t.f.fset, br.Pos(), "%s: fallthrough", t.f.key)
				}
			}
			ps = append(ps, t.block(cc.Body))
			alts = append(alts, seqOf(ps))
		case *ast.CommClause:
			var ps []*lpProg
			switch cm := cc.Comm.(type) {
			case *ast.SendStmt:
				ps = append(ps, t.exprEvents(cm.Chan)...)
				ps = append(ps, t.exprEvents(cm.Value)...)
				if !hasDefault {
					ps = append(ps, t.send(cm))
				}
			case *ast.ExprStmt:
				ps = append(ps, t.exprEvents(cm.X)...)
			case *ast.AssignStmt:
				for _, r := range cm.Rhs {
					ps = append(ps, t.exprEvents(r)...)
				}
				t.assignTypes(cm.Lhs, cm.Rhs)
			}
			ps = append(ps, t.block(cc.Body))
			alts = append(alts, seqOf(ps))
		}
		t.env = saved
	}
	if !hasDefault && !isSelect {
		alts = append(alts, &lpProg{kind: "skip"}) // no case matches
	}
	if len(alts) == 0 {
		return &lpProg{kind: "skip"}
	}
	return &lpProg{kind: "block", n: lb, kids: []*lpProg{{kind: "alt", kids: alts}}}
}

func (t *lpFn) snapshotEnv() map[string]*lpType {
	m := map[string]*lpType{}
	for k, v := range t.env {
		m[k] = v
	}
	return m
}

func (t *lpFn) loop(init ast.Stmt, cond ast.Expr, post ast.Stmt, rng *ast.RangeStmt, body *ast.BlockStmt, label string) *lpProg {
	lb, lc := t.newLabel(), t.newLabel()
	if label != "" {
		t.labels[label] = [2]int{lb, lc}
	}
	var pre []*lpProg
	pre = append(pre, t.stmt(init))
	if rng != nil {
		pre = append(pre, t.withPanic(rng.X, t.exprEvents(rng.X)))
		// element types
		tx := t.typeOf(rng.X)
		if id, ok := rng.Key.(*ast.Ident); ok && id.Name != "_" {
			if tx != nil && tx.kind == "map" && tx.key != nil {
				t.env[id.Name] = tx.key
			} else {
				t.env[id.Name] = &lpType{kind: "other"}
			}
		}
		if id, ok := rng.Value.(*ast.Ident); ok && id.Name != "_" {
			if tx != nil && (tx.kind == "map" || tx.kind == "slice") && tx.elem != nil {
				t.env[id.Name] = tx.elem
			} else {
				t.env[id.Name] = &lpType{kind: "other"}
			}
		}
	}
	t.breakTo = append(t.breakTo, lb)
	t.contTo = append(t.contTo, lc)
	var condP *lpProg
	if cond != nil {
		condP = t.withPanic(cond, t.exprEvents(cond))
	}
	b := t.block(body.List)
	postP := t.stmt(post)
	t.breakTo = t.breakTo[:len(t.breakTo)-1]
	t.contTo = t.contTo[:len(t.contTo)-1]
	iter := seqOf([]*lpProg{condP, {kind: "block", n: lc, kids: []*lpProg{b}}, postP})
	pre = append(pre, &lpProg{kind: "block", n: lb, kids: []*lpProg{{kind: "loop", kids: []*lpProg{iter}}}})
	if cond != nil {
		pre = append(pre, condP) // the failing evaluation of the condition
	}
	return seqOf(pre)
}

func (t *lpFn) deferStmt(x *ast.DeferStmt) *lpProg {
	c := t.c
	var ps []*lpProg
	for _, a := range x.Call.Args {
		ps = append(ps, t.exprEvents(a)...)
	}
	if lit, ok := x.Call.Fun.(*ast.FuncLit); ok {
		sub := &lpFn{c: c, f: t.f, env: t.snapshotEnv(), params: t.params, localMu: t.localMu, labels: map[string][2]int{}}
		body := sub.block(lit.Body.List)
		ops, ok := flatOps(body)
		if !ok {
			c.fail(t.f.fset, x.Pos(), "%s: deferred closure does more than lock operations", t.f.key)
			return &lpProg{kind: "skip"}
		}
		if len(ops) > 0 {
			ps = append(ps, &lpProg{kind: "defer", op: strings.Join(ops, "; ")})
		}
		return seqOf(ps)
	}
	if op, isLock := t.lockOp(x.Call); isLock {
		if op != "" {
			ps = append(ps, &lpProg{kind: "defer", op: op})
		}
		return seqOf(ps)
	}
	if id, ok := x.Call.Fun.(*ast.Ident); ok && id.Name == "close" && len(x.Call.Args) == 1 {
		if ty := t.typeOf(x.Call.Args[0]); ty != nil && ty.kind == "chan" && analysedClass(ty.ref) {
			c.fail(t.f.fset, x.Pos(), "%s: deferred close of a channel of %s", t.f.key, ty.ref)
		}
		return seqOf(ps)
	}
	if f := t.callee(x.Call); f != nil {
		// a deferred call of an analysed function: only accepted when that function has no events
		sub := c.translateFunc(f)
		if _, ok := flatOps(sub); !ok || hasEvents(sub) {
			c.fail(t.f.fset, x.Pos(), "%s: deferred call of %s, which has lock events", t.f.key, f.key)
		}
	}
	return seqOf(ps)
}

func hasEvents(p *lpProg) bool {
	switch p.kind {
	case "skip", "ret", "panic":
		return false
	case "seq", "alt", "loop", "block":
		for _, k := range p.kids {
			if hasEvents(k) {
				return true
			}
		}
		return false
	}
	return true
}

// flatOps: a body that is only a sequence of lock operations (and event-free statements).
func flatOps(p *lpProg) ([]string, bool) {
	switch p.kind {
	case "skip", "panic", "ret":
		return nil, true
	case "op":
		return []string{p.op}, true
	case "seq":
		var ops []string
		for _, k := range p.kids {
			o, ok := flatOps(k)
			if !ok {
				return nil, false
			}
			ops = append(ops, o...)
		}
		return ops, true
	case "alt", "loop", "block":
		if !hasEvents(p) {
			return nil, true
		}
	}
	return nil, false
}

// ---------- rendering ----------

func (p *lpProg) coq(indent string) string {
	switch p.kind {
	case "skip":
		return "PSkip"
	case "op":
		return "POp (" + p.op + ")"
	case "defer":
		return "PDefer [" + p.op + "]"
	case "call":
		return fmt.Sprintf("PCall %d", p.n)
	case "send":
		return fmt.Sprintf("PSend %d", p.n)
	case "close":
		return fmt.Sprintf("PClose %d", p.n)
	case "panic":
		return "PPanic"
	case "ret":
		return "PRet"
	case "brk":
		return fmt.Sprintf("PBrk %d", p.n)
	case "loop":
		return "PLoop (" + p.kids[0].coq(indent+"  ") + ")"
	case "block":
		return fmt.Sprintf("PBlock %d (", p.n) + p.kids[0].coq(indent+"  ") + ")"
	case "seq", "alt":
		fn := "pseq"
		if p.kind == "alt" {
			fn = "palt"
		}
		parts := make([]string, len(p.kids))
		for i, k := range p.kids {
			parts[i] = k.coq(indent + "  ")
		}
		one := fn + " [" + strings.Join(parts, "; ") + "]"
		if len(one) < 100 {
			return one
		}
		return fn + " [\n" + indent + "  " + strings.Join(parts, ";\n"+indent+"  ") + "]"
	}
	return "PSkip"
}

func (c *lpCtx) render() string {
	var sb strings.Builder
	sb.WriteString("(* GENERATED by zzv extract from internal/dkg, internal/chain/beacon, internal/core, handler/http; do not edit. *)\n")
	sb.WriteString("From Coq Require Import ZArith List.\nFrom DV Require Import Model.Locks.\nImport ListNotations.\nOpen Scope Z_scope.\n\n")
	sb.WriteString("(* mutexes *)\n")
	for i, m := range c.mutexes {
		fmt.Fprintf(&sb, "(*   %d = %s *)\n", i, m)
	}
	sb.WriteString("Definition lock_mutexes : list (Z * list Z) := [\n")
	for i, m := range c.mutexes {
		fmt.Fprintf(&sb, "  (%d, %s)%s\n", i, coqStr(m), sepIf(i+1 < len(c.mutexes)))
	}
	sb.WriteString("].\n\n(* blocking channel sends: site id, function#ordinal *)\n")
	sb.WriteString("Definition send_sites : list (Z * list Z) := [\n")
	for i, s := range c.sends {
		fmt.Fprintf(&sb, "  (%d, %s) (* %s *)%s\n", i, coqStr(s), s, sepIf(i+1 < len(c.sends)))
	}
	sb.WriteString("].\n(* class of the channel of each send site: the element type (empty when unknown) *)\n")
	sb.WriteString("Definition send_classes : list (Z * list Z) := [\n")
	for i, s := range c.sendCls {
		fmt.Fprintf(&sb, "  (%d, %s) (* %s : chan %s *)%s\n", i, coqStr(s), c.sends[i], s, sepIf(i+1 < len(c.sendCls)))
	}
	sb.WriteString("].\n(* channel closes: site id, function@ordinal; and the class of the channel closed *)\n")
	sb.WriteString("Definition close_sites : list (Z * list Z) := [\n")
	for i, s := range c.closes {
		fmt.Fprintf(&sb, "  (%d, %s) (* %s *)%s\n", i, coqStr(s), s, sepIf(i+1 < len(c.closes)))
	}
	sb.WriteString("].\nDefinition close_classes : list (Z * list Z) := [\n")
	for i, s := range c.closeCls {
		fmt.Fprintf(&sb, "  (%d, %s) (* %s : chan %s *)%s\n", i, coqStr(s), c.closes[i], s, sepIf(i+1 < len(c.closeCls)))
	}
	sb.WriteString("].\n\n")
	sb.WriteString("Definition lock_funs : list (Z * prog) := [\n")
	for i, k := range c.funcList {
		f := c.funcs[k]
		pos := f.fset.Position(token.NoPos)
		if f.decl != nil {
			pos = f.fset.Position(f.decl.Pos())
		} else if f.lit != nil {
			pos = f.fset.Position(f.lit.Pos())
		}
		rel, _ := filepath.Rel(c.repo, pos.Filename)
		fmt.Fprintf(&sb, "  (* %d = %s  %s:%d *)\n  (%d, %s)%s\n", i, k, rel, pos.Line, i, c.bodies[k].coq("   "), sepIf(i+1 < len(c.funcList)))
	}
	sb.WriteString("].\n\n")
	var es []string
	for _, e := range lpEntries {
		es = append(es, fmt.Sprintf("%d", c.funcID[e]))
	}
	sb.WriteString("(* entry points: " + strings.Join(lpEntries, ", ") + " *)\n")
	sb.WriteString("Definition lock_entries : list Z := [" + strings.Join(es, "; ") + "].\n")
	sb.WriteString("Definition lock_fun_names : list (Z * list Z) := [\n")
	for i, k := range c.funcList {
		fmt.Fprintf(&sb, "  (%d, %s)%s\n", i, coqStr(k), sepIf(i+1 < len(c.funcList)))
	}
	sb.WriteString("].\n")
	return sb.String()
}

func sepIf(b bool) string {
	if b {
		return ";"
	}
	return ""
}
