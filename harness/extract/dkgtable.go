package extract

// Generator for coq/Gen/DKGTable.v: the DKG state-machine tables of
// internal/dkg/state_machine.go (Status iota block, isValidStateChange, terminalStates,
// isProposalPhase) and the list of scheme names accepted by crypto.SchemeFromName.
// Every shape that is not exactly the one recognised here is a T-break.

import (
	"fmt"
	"go/ast"
	"go/token"
	"strconv"
	"strings"
)

func init() { register("DKGTable.v", genDKGTable) }

const smFile = "internal/dkg/state_machine.go"
const schemesFile = "crypto/schemes.go"

func tbreak(pf *pkgFile, n ast.Node, format string, a ...interface{}) error {
	pos := pf.fset.Position(n.Pos())
	return fmt.Errorf("T-break: %s:%d: %s", pf.path, pos.Line, fmt.Sprintf(format, a...))
}

// statusConsts reads `const ( Fresh Status = iota; Proposed; ... )`.
func statusConsts(pf *pkgFile) ([]string, error) {
	// the type must be declared as `type Status uint32`
	okType := false
	for _, d := range pf.file.Decls {
		gd, ok := d.(*ast.GenDecl)
		if !ok || gd.Tok != token.TYPE {
			continue
		}
		for _, s := range gd.Specs {
			ts := s.(*ast.TypeSpec)
			if ts.Name.Name == "Status" {
				id, ok := ts.Type.(*ast.Ident)
				if !ok || id.Name != "uint32" {
					return nil, tbreak(pf, ts, "type Status is not declared as uint32")
				}
				okType = true
			}
		}
	}
	if !okType {
		return nil, fmt.Errorf("T-break: %s: type Status not found", pf.path)
	}
	var names []string
	found := false
	for _, d := range pf.file.Decls {
		gd, ok := d.(*ast.GenDecl)
		if !ok || gd.Tok != token.CONST || len(gd.Specs) == 0 {
			continue
		}
		first := gd.Specs[0].(*ast.ValueSpec)
		tid, ok := first.Type.(*ast.Ident)
		if !ok || tid.Name != "Status" {
			// any other const block must not define Status values
			for _, s := range gd.Specs {
				vs := s.(*ast.ValueSpec)
				if id, ok := vs.Type.(*ast.Ident); ok && id.Name == "Status" {
					return nil, tbreak(pf, vs, "Status constant outside the leading iota block")
				}
			}
			continue
		}
		if found {
			return nil, tbreak(pf, gd, "second const block of type Status")
		}
		found = true
		if len(first.Names) != 1 || len(first.Values) != 1 {
			return nil, tbreak(pf, first, "first Status constant is not `Name Status = iota`")
		}
		if id, ok := first.Values[0].(*ast.Ident); !ok || id.Name != "iota" {
			return nil, tbreak(pf, first, "first Status constant is not `= iota`")
		}
		names = append(names, first.Names[0].Name)
		for _, s := range gd.Specs[1:] {
			vs := s.(*ast.ValueSpec)
			if len(vs.Names) != 1 || vs.Type != nil || len(vs.Values) != 0 {
				return nil, tbreak(pf, vs, "Status constant with explicit type or value (expected bare iota continuation)")
			}
			names = append(names, vs.Names[0].Name)
		}
	}
	if !found || len(names) == 0 {
		return nil, fmt.Errorf("T-break: %s: Status iota block not found", pf.path)
	}
	seen := map[string]bool{}
	for _, n := range names {
		if seen[n] || n == "_" {
			return nil, fmt.Errorf("T-break: %s: duplicate or blank Status constant %q", pf.path, n)
		}
		seen[n] = true
	}
	return names, nil
}

func findFunc(pf *pkgFile, name string, recv bool) *ast.FuncDecl {
	for _, d := range pf.file.Decls {
		if fd, ok := d.(*ast.FuncDecl); ok && fd.Name.Name == name && (fd.Recv != nil) == recv {
			return fd
		}
	}
	return nil
}

// orOfEq reads `v == A || v == B || ...` and returns [A, B, ...].
func orOfEq(pf *pkgFile, e ast.Expr, v string, known map[string]bool) ([]string, error) {
	switch x := e.(type) {
	case *ast.ParenExpr:
		return orOfEq(pf, x.X, v, known)
	case *ast.BinaryExpr:
		if x.Op == token.LOR {
			a, err := orOfEq(pf, x.X, v, known)
			if err != nil {
				return nil, err
			}
			b, err := orOfEq(pf, x.Y, v, known)
			if err != nil {
				return nil, err
			}
			return append(a, b...), nil
		}
		if x.Op == token.EQL {
			l, lok := x.X.(*ast.Ident)
			r, rok := x.Y.(*ast.Ident)
			if lok && rok && l.Name == v && known[r.Name] {
				return []string{r.Name}, nil
			}
			if lok && rok && r.Name == v && known[l.Name] {
				return []string{l.Name}, nil
			}
		}
	case *ast.Ident:
		if x.Name == "false" {
			return nil, nil
		}
	}
	return nil, tbreak(pf, e, "expression is not a disjunction of `%s == <Status>`", v)
}

// validChangeTable reads isValidStateChange.
func validChangeTable(pf *pkgFile, statuses []string) (map[string][]string, error) {
	known := map[string]bool{}
	for _, s := range statuses {
		known[s] = true
	}
	fd := findFunc(pf, "isValidStateChange", false)
	if fd == nil {
		return nil, fmt.Errorf("T-break: %s: func isValidStateChange not found", pf.path)
	}
	ps := fd.Type.Params.List
	var pnames []string
	for _, f := range ps {
		id, ok := f.Type.(*ast.Ident)
		if !ok || id.Name != "Status" {
			return nil, tbreak(pf, f, "isValidStateChange parameter is not of type Status")
		}
		for _, n := range f.Names {
			pnames = append(pnames, n.Name)
		}
	}
	if len(pnames) != 2 || fd.Type.Results == nil || len(fd.Type.Results.List) != 1 {
		return nil, tbreak(pf, fd, "isValidStateChange is not func(Status, Status) bool")
	}
	if id, ok := fd.Type.Results.List[0].Type.(*ast.Ident); !ok || id.Name != "bool" {
		return nil, tbreak(pf, fd, "isValidStateChange does not return bool")
	}
	cur, next := pnames[0], pnames[1]
	if len(fd.Body.List) != 2 {
		return nil, tbreak(pf, fd.Body, "isValidStateChange body is not `switch {...}; return false`")
	}
	sw, ok := fd.Body.List[0].(*ast.SwitchStmt)
	if !ok || sw.Init != nil {
		return nil, tbreak(pf, fd.Body.List[0], "isValidStateChange: first statement is not a plain switch")
	}
	if id, ok := sw.Tag.(*ast.Ident); !ok || id.Name != cur {
		return nil, tbreak(pf, sw, "isValidStateChange: switch tag is not the first parameter")
	}
	ret, ok := fd.Body.List[1].(*ast.ReturnStmt)
	if !ok || len(ret.Results) != 1 {
		return nil, tbreak(pf, fd.Body.List[1], "isValidStateChange: trailing statement is not `return false`")
	}
	if id, ok := ret.Results[0].(*ast.Ident); !ok || id.Name != "false" {
		return nil, tbreak(pf, ret, "isValidStateChange: trailing statement is not `return false`")
	}
	table := map[string][]string{}
	for _, st := range sw.Body.List {
		cc := st.(*ast.CaseClause)
		if cc.List == nil {
			return nil, tbreak(pf, cc, "isValidStateChange: default clause not recognised")
		}
		if len(cc.Body) != 1 {
			return nil, tbreak(pf, cc, "isValidStateChange: case body is not a single return")
		}
		r, ok := cc.Body[0].(*ast.ReturnStmt)
		if !ok || len(r.Results) != 1 {
			return nil, tbreak(pf, cc, "isValidStateChange: case body is not a single return")
		}
		tos, err := orOfEq(pf, r.Results[0], next, known)
		if err != nil {
			return nil, err
		}
		for _, l := range cc.List {
			id, ok := l.(*ast.Ident)
			if !ok || !known[id.Name] {
				return nil, tbreak(pf, l, "isValidStateChange: case label is not a Status constant")
			}
			if _, dup := table[id.Name]; dup {
				return nil, tbreak(pf, l, "isValidStateChange: duplicate case label")
			}
			table[id.Name] = tos
		}
	}
	return table, nil
}

// statusListVar reads `var name = []Status{A, B, ...}`.
func statusListVar(pf *pkgFile, name string, known map[string]bool) ([]string, error) {
	for _, d := range pf.file.Decls {
		gd, ok := d.(*ast.GenDecl)
		if !ok || gd.Tok != token.VAR {
			continue
		}
		for _, s := range gd.Specs {
			vs := s.(*ast.ValueSpec)
			for i, n := range vs.Names {
				if n.Name != name {
					continue
				}
				if i >= len(vs.Values) {
					return nil, tbreak(pf, vs, "%s has no initialiser", name)
				}
				cl, ok := vs.Values[i].(*ast.CompositeLit)
				if !ok {
					return nil, tbreak(pf, vs, "%s is not a composite literal", name)
				}
				at, ok := cl.Type.(*ast.ArrayType)
				if !ok || at.Len != nil {
					return nil, tbreak(pf, cl, "%s is not a []Status literal", name)
				}
				if id, ok := at.Elt.(*ast.Ident); !ok || id.Name != "Status" {
					return nil, tbreak(pf, cl, "%s is not a []Status literal", name)
				}
				var out []string
				for _, e := range cl.Elts {
					id, ok := e.(*ast.Ident)
					if !ok || !known[id.Name] {
						return nil, tbreak(pf, e, "%s: element is not a Status constant", name)
					}
					out = append(out, id.Name)
				}
				return out, nil
			}
		}
	}
	return nil, fmt.Errorf("T-break: %s: var %s not found", pf.path, name)
}

// boolSwitchList reads a function `func f(d *DBState) bool { switch d.State { case A: return true ... default: return false } }`
// and returns the labels that return true.
func boolSwitchList(pf *pkgFile, fname string, known map[string]bool) ([]string, error) {
	fd := findFunc(pf, fname, false)
	if fd == nil {
		return nil, fmt.Errorf("T-break: %s: func %s not found", pf.path, fname)
	}
	if len(fd.Type.Params.List) != 1 || len(fd.Type.Params.List[0].Names) != 1 {
		return nil, tbreak(pf, fd, "%s: expected one parameter", fname)
	}
	param := fd.Type.Params.List[0].Names[0].Name
	if len(fd.Body.List) != 1 {
		return nil, tbreak(pf, fd.Body, "%s: body is not a single switch", fname)
	}
	sw, ok := fd.Body.List[0].(*ast.SwitchStmt)
	if !ok || sw.Init != nil {
		return nil, tbreak(pf, fd.Body, "%s: body is not a single switch", fname)
	}
	sel, ok := sw.Tag.(*ast.SelectorExpr)
	if !ok || sel.Sel.Name != "State" {
		return nil, tbreak(pf, sw, "%s: switch tag is not <param>.State", fname)
	}
	if id, ok := sel.X.(*ast.Ident); !ok || id.Name != param {
		return nil, tbreak(pf, sw, "%s: switch tag is not <param>.State", fname)
	}
	var out []string
	sawDefault := false
	retBool := func(cc *ast.CaseClause) (bool, error) {
		if len(cc.Body) != 1 {
			return false, tbreak(pf, cc, "%s: case body is not a single return", fname)
		}
		r, ok := cc.Body[0].(*ast.ReturnStmt)
		if !ok || len(r.Results) != 1 {
			return false, tbreak(pf, cc, "%s: case body is not a single return", fname)
		}
		id, ok := r.Results[0].(*ast.Ident)
		if !ok || (id.Name != "true" && id.Name != "false") {
			return false, tbreak(pf, cc, "%s: case does not return a boolean literal", fname)
		}
		return id.Name == "true", nil
	}
	for _, st := range sw.Body.List {
		cc := st.(*ast.CaseClause)
		b, err := retBool(cc)
		if err != nil {
			return nil, err
		}
		if cc.List == nil {
			if b {
				return nil, tbreak(pf, cc, "%s: default returns true", fname)
			}
			sawDefault = true
			continue
		}
		for _, l := range cc.List {
			id, ok := l.(*ast.Ident)
			if !ok || !known[id.Name] {
				return nil, tbreak(pf, l, "%s: case label is not a Status constant", fname)
			}
			if b {
				out = append(out, id.Name)
			}
		}
	}
	if !sawDefault {
		return nil, tbreak(pf, sw, "%s: no `default: return false`", fname)
	}
	return out, nil
}

// stringConst resolves a package-level string constant.
func stringConst(pf *pkgFile, name string) (string, error) {
	e := pf.findValue(name)
	if e == nil {
		return "", fmt.Errorf("T-break: %s: constant %s not found", pf.path, name)
	}
	bl, ok := e.(*ast.BasicLit)
	if !ok || bl.Kind != token.STRING {
		return "", tbreak(pf, e, "constant %s is not a string literal", name)
	}
	s, err := strconv.Unquote(bl.Value)
	if err != nil {
		return "", tbreak(pf, e, "constant %s: %v", name, err)
	}
	return s, nil
}

// schemeNames reads the case labels of crypto.SchemeFromName: each must be a string constant and
// return (<something>, nil); the default must return an error.
func schemeNames(pf *pkgFile) ([][2]string, error) {
	fd := findFunc(pf, "SchemeFromName", false)
	if fd == nil {
		return nil, fmt.Errorf("T-break: %s: func SchemeFromName not found", pf.path)
	}
	if len(fd.Type.Params.List) != 1 || len(fd.Type.Params.List[0].Names) != 1 || len(fd.Body.List) != 1 {
		return nil, tbreak(pf, fd, "SchemeFromName: expected one parameter and a single switch")
	}
	param := fd.Type.Params.List[0].Names[0].Name
	sw, ok := fd.Body.List[0].(*ast.SwitchStmt)
	if !ok || sw.Init != nil {
		return nil, tbreak(pf, fd.Body, "SchemeFromName: body is not a single switch")
	}
	if id, ok := sw.Tag.(*ast.Ident); !ok || id.Name != param {
		return nil, tbreak(pf, sw, "SchemeFromName: switch tag is not the parameter")
	}
	var out [][2]string
	sawDefault := false
	for _, st := range sw.Body.List {
		cc := st.(*ast.CaseClause)
		if len(cc.Body) != 1 {
			return nil, tbreak(pf, cc, "SchemeFromName: case body is not a single return")
		}
		r, ok := cc.Body[0].(*ast.ReturnStmt)
		if !ok || len(r.Results) != 2 {
			return nil, tbreak(pf, cc, "SchemeFromName: case body is not `return x, y`")
		}
		second, isIdent := r.Results[1].(*ast.Ident)
		if cc.List == nil {
			if first, ok := r.Results[0].(*ast.Ident); !ok || first.Name != "nil" || (isIdent && second.Name == "nil") {
				return nil, tbreak(pf, cc, "SchemeFromName: default does not return (nil, error)")
			}
			sawDefault = true
			continue
		}
		if !isIdent || second.Name != "nil" {
			return nil, tbreak(pf, cc, "SchemeFromName: named case does not return a nil error")
		}
		for _, l := range cc.List {
			switch x := l.(type) {
			case *ast.Ident:
				s, err := stringConst(pf, x.Name)
				if err != nil {
					return nil, err
				}
				out = append(out, [2]string{x.Name, s})
			case *ast.BasicLit:
				s, err := strconv.Unquote(x.Value)
				if err != nil || x.Kind != token.STRING {
					return nil, tbreak(pf, l, "SchemeFromName: case label is not a string")
				}
				out = append(out, [2]string{"(literal)", s})
			default:
				return nil, tbreak(pf, l, "SchemeFromName: case label is not a string constant")
			}
		}
	}
	if !sawDefault {
		return nil, tbreak(pf, sw, "SchemeFromName: no default clause returning an error")
	}
	return out, nil
}

func coqBytesOfString(s string) string {
	parts := make([]string, len(s))
	for i := 0; i < len(s); i++ {
		parts[i] = strconv.Itoa(int(s[i]))
	}
	return "[" + strings.Join(parts, "; ") + "]"
}

func coqStatusList(xs []string) string { return "[" + strings.Join(xs, "; ") + "]" }

func genDKGTable(repo string) (string, error) {
	pf, err := parseFile(repo, smFile)
	if err != nil {
		return "", err
	}
	statuses, err := statusConsts(pf)
	if err != nil {
		return "", err
	}
	known := map[string]bool{}
	for _, s := range statuses {
		known[s] = true
	}
	table, err := validChangeTable(pf, statuses)
	if err != nil {
		return "", err
	}
	terminal, err := statusListVar(pf, "terminalStates", known)
	if err != nil {
		return "", err
	}
	phase, err := boolSwitchList(pf, "isProposalPhase", known)
	if err != nil {
		return "", err
	}
	spf, err := parseFile(repo, schemesFile)
	if err != nil {
		return "", err
	}
	schemes, err := schemeNames(spf)
	if err != nil {
		return "", err
	}

	var sb strings.Builder
	sb.WriteString("(* GENERATED by zzv extract from " + smFile + " and " + schemesFile + "; do not edit. *)\n")
	sb.WriteString("From Coq Require Import ZArith List Bool.\nImport ListNotations.\nOpen Scope Z_scope.\n\n")
	sb.WriteString("(* type Status uint32: const block in iota order *)\n")
	sb.WriteString("Inductive status : Set :=\n")
	for _, s := range statuses {
		sb.WriteString("| " + s + "\n")
	}
	sb.WriteString(".\n\n")
	sb.WriteString("Definition all_statuses : list status := " + coqStatusList(statuses) + ".\n\n")
	sb.WriteString("Definition status_index (s : status) : Z :=\n  match s with\n")
	for i, s := range statuses {
		fmt.Fprintf(&sb, "  | %s => %d\n", s, i)
	}
	sb.WriteString("  end.\n\n")
	sb.WriteString("Definition status_eqb (a b : status) : bool := status_index a =? status_index b.\n\n")
	sb.WriteString("(* func isValidStateChange(current, next Status) bool *)\n")
	sb.WriteString("Definition valid_change (current next : status) : bool :=\n  match current with\n")
	nonDefault := 0
	for _, s := range statuses {
		tos, ok := table[s]
		if !ok {
			continue
		}
		nonDefault++
		if len(tos) == 0 {
			fmt.Fprintf(&sb, "  | %s => false\n", s)
			continue
		}
		// remove duplicates, keep order
		seen := map[string]bool{}
		var uniq []string
		for _, t := range tos {
			if !seen[t] {
				seen[t] = true
				uniq = append(uniq, t)
			}
		}
		if len(uniq) == len(statuses) {
			fmt.Fprintf(&sb, "  | %s => true\n", s)
			continue
		}
		fmt.Fprintf(&sb, "  | %s => match next with %s => true | _ => false end\n", s, strings.Join(uniq, " | "))
	}
	if nonDefault < len(statuses) {
		sb.WriteString("  | _ => false\n")
	}
	sb.WriteString("  end.\n\n")
	sb.WriteString("(* var terminalStates *)\n")
	sb.WriteString("Definition terminal_states : list status := " + coqStatusList(terminal) + ".\n\n")
	sb.WriteString("(* func isProposalPhase: the states for which it returns true *)\n")
	sb.WriteString("Definition proposal_phase_states : list status := " + coqStatusList(phase) + ".\n\n")
	sb.WriteString("(* crypto.SchemeFromName: accepted scheme names (as byte strings) *)\n")
	sb.WriteString("Definition known_schemes : list (list Z) := [\n")
	for i, s := range schemes {
		sep := ";"
		if i+1 == len(schemes) {
			sep = ""
		}
		fmt.Fprintf(&sb, "  (* %s = %q *) %s%s\n", s[0], s[1], coqBytesOfString(s[1]), sep)
	}
	sb.WriteString("].\n")
	return sb.String(), nil
}
