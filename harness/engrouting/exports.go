package engrouting

import (
	"github.com/drand/drand/v2/common/key"
	"github.com/drand/drand/v2/common/log"
	"github.com/drand/drand/v2/crypto"
)

// Helpers shared with the C14 engine (harness/engrobust).

// Interner names byte strings in the header of a case file.
type Interner = interner

// NewInterner returns an empty interner.
func NewInterner() *Interner { return newInterner() }

// Str returns the Coq name of a string constant.
func (in *interner) Str(s string) string { return in.str(s) }

// Bytes returns the Coq name of a byte-string constant.
func (in *interner) Bytes(b []byte) string { return in.bytes(b) }

// Defs returns the header definitions.
func (in *interner) Defs() []string { return in.defs }

// Chain is a one-node chain with real keys.
type Chain struct {
	ID    string
	Pair  *key.Pair
	Group *key.Group
	Share *key.Share
	Hash  []byte
	Sch   *crypto.Scheme
}

// MkChain makes a one-node chain (threshold 1) whose node can produce beacons on its own.
func MkChain(id string, sch *crypto.Scheme, genesis int64) (*Chain, error) {
	c, err := mkChain(id, sch, genesis)
	if err != nil {
		return nil, err
	}
	return &Chain{ID: id, Pair: c.pair, Group: c.group, Share: c.share, Hash: c.hash, Sch: sch}, nil
}

// DiscardLogger is a logger that writes nowhere.
func DiscardLogger() log.Logger { return discardLogger() }
