package engrouting

import (
	"encoding/json"
	"math"
	"math/big"
	"sync/atomic"
	"bytes"
	"context"
	"encoding/hex"
	"fmt"
	"io"
	"math/rand"
	"net/http"
	"net/http/httptest"
	"strings"
	"time"

	chain2 "github.com/drand/drand/v2/common/chain"
	"github.com/drand/drand/v2/common/client"
	"github.com/drand/drand/v2/common/log"
	"github.com/drand/drand/v2/crypto"
	dhttp "github.com/drand/drand/v2/handler/http"

	"github.com/drand/kyber"

	"github.com/drand/drand/v2/zzverif/emit"
)

// stubClient is a client.Client whose chain info carries a tag (in the genesis time).
type stubClient struct {
	tag  int
	info *chain2.Info
	gets atomic.Int64 // requests handed to the backend
}

func (s *stubClient) Get(context.Context, uint64) (client.Result, error) {
	s.gets.Add(1)
	return nil, fmt.Errorf("stub")
}
func (s *stubClient) Watch(context.Context) <-chan client.Result {
	c := make(chan client.Result)
	close(c)
	return c
}
func (s *stubClient) Info(context.Context) (*chain2.Info, error) { return s.info, nil }
func (s *stubClient) RoundAt(time.Time) uint64                   { return 0 }
func (s *stubClient) Close() error                               { return nil }

// runStub drives the real handler table of handler/http (New / RegisterNewBeaconHandler /
// RegisterDefaultBeaconHandler / RemoveBeaconHandler) with stub clients and queries it through
// the real mux.
func runStub(outDir string, seed int64, tier string, rep *emit.Report) error {
	rng := rand.New(rand.NewSource(seed ^ 0x5717b))
	in := newInterner()
	sch, err := crypto.GetSchemeByID(crypto.DefaultSchemeID)
	if err != nil {
		return err
	}
	point := sch.KeyGroup.Point().Base()
	nSeq, nOps := 12, 8
	if tier == "thorough" {
		nSeq, nOps = 120, 14
	}
	var cases, descr []string
	for q := 0; q < nSeq; q++ {
		ctx := log.ToContext(context.Background(), discardLogger())
		h, err := dhttp.New(ctx, "verif")
		if err != nil {
			return err
		}
		hashes := make([][]byte, 3)
		for i := range hashes {
			hashes[i] = make([]byte, []int{32, 32, 4}[i])
			rng.Read(hashes[i])
		}
		unknown := make([]byte, 32)
		rng.Read(unknown)
		handlers := map[string]*dhttp.BeaconHandler{}
		owner := map[string]int{} // engine's own view: key -> tag (for M)
		var ops []string
		tag := 0
		get := func(path string) (int, []byte) {
			rec := httptest.NewRecorder()
			h.GetHTTPHandler().ServeHTTP(rec, httptest.NewRequest(http.MethodGet, path, nil))
			body, _ := io.ReadAll(rec.Result().Body)
			return rec.Code, body
		}
		for step := 0; step <= nOps; step++ {
			if step > 0 {
				k := hex.EncodeToString(hashes[rng.Intn(len(hashes))])
				switch rng.Intn(5) {
				case 0, 1:
					tag++
					info := &chain2.Info{PublicKey: point, Period: time.Second, Scheme: sch.Name, GenesisTime: int64(1000 + tag), GenesisSeed: []byte("s")}
					handlers[k] = h.RegisterNewBeaconHandler(&stubClient{tag: tag, info: info}, k)
					owner[k] = tag
					ops = append(ops, fmt.Sprintf("HReg %s %s", in.str(k), in.str(fmt.Sprintf("t%d", tag))))
					rep.Count("stub/register")
				case 2:
					if bh := handlers[k]; bh != nil {
						h.RegisterDefaultBeaconHandler(bh)
						owner["default"] = owner[k]
						ops = append(ops, fmt.Sprintf("HReg default_str %s", in.str(fmt.Sprintf("t%d", owner[k]))))
						rep.Count("stub/register-default")
					}
				case 3:
					h.RemoveBeaconHandler(k)
					delete(handlers, k)
					delete(owner, k)
					ops = append(ops, fmt.Sprintf("HRem %s", in.str(k)))
					rep.Count("stub/remove")
				case 4:
					h.RemoveBeaconHandler("default")
					delete(owner, "default")
					ops = append(ops, "HRem default_str")
					rep.Count("stub/remove-default")
				}
			}
			segs := []string{"", hex.EncodeToString(hashes[0]), hex.EncodeToString(hashes[1]), hex.EncodeToString(hashes[2]),
				strings.ToUpper(hex.EncodeToString(hashes[0])), hex.EncodeToString(unknown), "default", "abc", "zz"}
			for _, s := range segs {
				path, coqPath := "/info", "None"
				if s != "" {
					path, coqPath = "/"+s+"/info", "(Some "+in.str(s)+")"
				}
				code, body := get(path)
				rep.Evaluations++
				if s != "" {
					rep.DistinctNontrivial++
				}
				obs := "HBad"
				key := strings.ToLower(s)
				if s == "" {
					key = "default"
				}
				want, registered := owner[key]
				if s == "default" || s == "abc" || s == "zz" {
					registered = false
				}
				switch code {
				case http.StatusNotFound:
					obs = "HNotFound"
					rep.Count("stub/404")
					if registered {
						rep.Fail("C19-http-running-chain-unreachable", "registered handler is not served", path)
					}
				case http.StatusBadRequest:
					rep.Count("stub/400")
				case http.StatusOK:
					rep.Count("stub/200")
					got := -1
					if info, err := chain2.InfoFromJSON(bytes.NewReader(body)); err == nil {
						got = int(info.GenesisTime - 1000)
					}
					obs = "(HServe " + in.str(fmt.Sprintf("t%d", got)) + ")"
					if !registered {
						rep.Fail("C19-http-stale-after-removal", fmt.Sprintf("path served by handler t%d although nothing is registered for it", got), path)
					} else if got != want {
						rep.Fail("C19-http-wrong-chain", fmt.Sprintf("path served by handler t%d, registered is t%d", got, want), path)
					}
				default:
					rep.Fail("C19-http-unexpected-status", fmt.Sprintf("status %d", code), path)
				}
				cases = append(cases, fmt.Sprintf("RStub %s %s %s", emit.List(ops), coqPath, obs))
				descr = append(descr, fmt.Sprintf("stub sequence %d after %d ops: GET %s", q, len(ops), path))
			}
		}
	}
	runSched(rng, rep, sch.Name, point, &cases, &descr)
	runHealth(rng, rep, sch.Name, point)
	req := append([]string{"From DV Require Import Model.Routing Corr.RoutingCorr.", "Open Scope Z_scope."}, in.defs...)
	return rep.Shard(outDir, "cases_routing_stub", req, "rcase", "mismatches", cases, descr, 1500)
}

// runSched: /{hash}/public/{round} for boundary and huge rounds on chains of several periods. A
// round that cannot be scheduled (common.TimeOfRound yields its documented error value: the round
// is beyond the guard MaxUint64 >> (floor(log2(period+1))+2), or its time lands in the reserved
// buffer below MaxInt64) lies in the future for ever: it must be answered 404 and never be handed
// to the backend. K: forwarded iff the model's time of the round has come (Model/Time.v).
func runSched(rng *rand.Rand, rep *emit.Report, schName string, point kyber.Point, cases, descr *[]string) {
	ctx := log.ToContext(context.Background(), discardLogger())
	errVal := new(big.Int).Sub(big.NewInt(math.MaxInt64), new(big.Int).Lsh(big.NewInt(1), 36))
	for _, p := range []int64{1, 3, 30, 3600, 1<<20 + 7} {
		h, err := dhttp.New(ctx, "verif")
		if err != nil {
			rep.Fail("C16-engine", err.Error(), nil)
			return
		}
		// genesis far enough back that the rounds around "now" are unambiguous, on a period boundary + half
		now0 := time.Now().Unix()
		g := now0 - 1000*p - p/2
		if g < 0 {
			g = 0
		}
		hash := make([]byte, 32)
		rng.Read(hash)
		hx := hex.EncodeToString(hash)
		sc := &stubClient{tag: 1, info: &chain2.Info{PublicKey: point, Period: time.Duration(p) * time.Second, Scheme: schName, GenesisTime: g, GenesisSeed: []byte("s")}}
		h.RegisterNewBeaconHandler(sc, hx)
		bits := int(math.Log2(float64(p) + 1))
		guard := uint64(math.MaxUint64) >> (bits + 2)
		cur := uint64((now0-g)/p) + 1
		rb := new(big.Int).Div(new(big.Int).Sub(errVal, big.NewInt(g)), big.NewInt(p)).Uint64()
		rounds := []uint64{1, 2, cur - 3, cur + 6, cur + 1000, guard - 1, guard, guard + 1, 1<<61 - 1, 1<<58 - 1, 1<<63 - 1, 1 << 63, math.MaxUint64 - 1, math.MaxUint64,
			rb - 1, rb, rb + 1, rb + 2, rb + 3, rng.Uint64() | 1<<62, rng.Uint64()>>uint(rng.Intn(20)) | 1<<40}
		for _, r := range rounds {
			before := sc.gets.Load()
			now := time.Now().Unix()
			rec := httptest.NewRecorder()
			req := httptest.NewRequest(http.MethodGet, fmt.Sprintf("/%s/public/%d", hx, r), nil)
			rctx, cancel := context.WithTimeout(context.Background(), 5*time.Second)
			h.GetHTTPHandler().ServeHTTP(rec, req.WithContext(rctx))
			cancel()
			forwarded := sc.gets.Load() != before
			rep.Evaluations++
			rep.DistinctNontrivial++
			// the property's own predicate, in exact arithmetic
			ideal := new(big.Int).Add(big.NewInt(g), new(big.Int).Mul(new(big.Int).SetUint64(r-1), big.NewInt(p)))
			unschedulable := r >= guard || ideal.Cmp(errVal) > 0
			name := fmt.Sprintf("GET /<hash>/public/%d period=%ds genesis=%d now=%d -> %d forwarded=%v", r, p, g, now, rec.Code, forwarded)
			if unschedulable {
				rep.Count("sched/unschedulable")
				if forwarded || rec.Code != http.StatusNotFound {
					rep.Fail("C16-unschedulable-round-treated-as-past", "a round that can never be scheduled on this chain was not answered as a future round (404, backend not asked)", name)
				}
			} else if ideal.Cmp(big.NewInt(now+p+2)) > 0 {
				rep.Count("sched/future")
				if forwarded {
					rep.Fail("C16-future-round-forwarded", "a round whose time has not come was handed to the backend", name)
				}
			} else {
				rep.Count("sched/past")
			}
			*cases = append(*cases, fmt.Sprintf("RSched %d %d %s %d %s", p, g, emit.U(r), now, emit.Bool(forwarded)))
			*descr = append(*descr, name)
		}
	}
}

// runHealth: /{hash}/health and /health on a table holding several chains with DIFFERENT periods
// and genesis times, one of them also registered as the default entry; then the default entry is
// removed / moved to another chain. The status a health path reports (the expected round) must be
// computed from the schedule of the chain the path names, never from another chain's (monitor only).
func runHealth(rng *rand.Rand, rep *emit.Report, schName string, point kyber.Point) {
	ctx, cancel := context.WithCancel(log.ToContext(context.Background(), discardLogger()))
	defer cancel()
	h, err := dhttp.New(ctx, "verif")
	if err != nil {
		rep.Fail("C19-engine", err.Error(), nil)
		return
	}
	now0 := time.Now().Unix()
	type hc struct {
		name   string
		hx     string
		period int64
		g      int64
		bh     *dhttp.BeaconHandler
	}
	chains := []*hc{{name: "A", period: 3, g: now0 - 300 - 1}, {name: "B", period: 10, g: now0 - 10000 - 5}, {name: "C", period: 1, g: now0 - 77}, {name: "D", period: 30, g: now0 + 3600}}
	for _, c := range chains {
		hash := make([]byte, 32)
		rng.Read(hash)
		c.hx = hex.EncodeToString(hash)
		info := &chain2.Info{PublicKey: point, Period: time.Duration(c.period) * time.Second, Scheme: schName, GenesisTime: c.g, GenesisSeed: []byte("s" + c.name)}
		c.bh = h.RegisterNewBeaconHandler(&stubClient{tag: 1, info: info}, c.hx)
	}
	cur := func(c *hc, now int64) uint64 {
		if now < c.g {
			return 0
		}
		return uint64((now-c.g)/c.period) + 1
	}
	var hist []string
	probe := func(def *hc) {
		for _, c := range append([]*hc{nil}, chains...) {
			path, named := "/health", def
			if c != nil {
				path, named = "/"+c.hx+"/health", c
			}
			before := time.Now().Unix()
			rec := httptest.NewRecorder()
			rctx, rcancel := context.WithTimeout(context.Background(), 5*time.Second)
			h.GetHTTPHandler().ServeHTTP(rec, httptest.NewRequest(http.MethodGet, path, nil).WithContext(rctx))
			rcancel()
			after := time.Now().Unix()
			rep.Evaluations++
			rep.DistinctNontrivial++
			label := path
			if c != nil {
				label = "/<hash of " + c.name + ">/health"
			}
			what := fmt.Sprintf("%s; GET %s", strings.Join(hist, "; "), label)
			if named == nil {
				rep.Count("health/no-default")
				if rec.Code != http.StatusNotFound {
					rep.Fail("C19-http-stale-after-removal", fmt.Sprintf("/health answered %d although no default chain is registered", rec.Code), what)
				}
				continue
			}
			var body map[string]uint64
			raw, _ := io.ReadAll(rec.Result().Body)
			if rec.Code == http.StatusNotFound || json.Unmarshal(raw, &body) != nil {
				rep.Fail("C19-http-running-chain-unreachable", fmt.Sprintf("health of registered chain %s answered %d", named.name, rec.Code), what)
				continue
			}
			rep.Count("health/chain-" + named.name)
			lo, hi := cur(named, before), cur(named, after)
			// common.CurrentRound answers 1 before genesis (round 0 only for the schedule above)
			if lo == 0 {
				lo, hi = 0, 1
			}
			if e := body["expected"]; e < lo || e > hi {
				other := ""
				for _, o := range chains {
					if o != named && e >= cur(o, before) && e <= cur(o, after) && cur(o, before) > 0 {
						other = " (it is the current round of chain " + o.name + ")"
					}
				}
				rep.Fail("C19-http-health-of-another-chain", fmt.Sprintf("health under the hash of chain %s (period %ds) reports expected round %d, that chain's current round is %d..%d%s", named.name, named.period, e, lo, hi, other), what)
			}
		}
	}
	hist = append(hist, "register A(3s) B(10s) C(1s) D(30s, genesis in the future) by hash")
	probe(nil)
	h.RegisterDefaultBeaconHandler(chains[0].bh)
	hist = append(hist, "A also registered as default")
	probe(chains[0])
	h.RemoveBeaconHandler("default")
	hist = append(hist, "default entry removed")
	probe(nil)
	h.RegisterDefaultBeaconHandler(chains[1].bh)
	hist = append(hist, "B registered as default")
	probe(chains[1])
}
