// Package engrouting is the correspondence engine for C19 (requests reach only the beacon
// chain they name). It drives REAL DrandDaemon objects (core.NewDrandDaemon; real LoadBeacon /
// Shutdown control calls, real key stores on disk, real one-node chains that produce real
// randomness, the real dkgCallback through BeaconProcess.storeDKGOutput) through seeded
// load / stop / reload / DKG-completion histories, crosses ids x hashes on the routing helper
// and on the endpoints after every event, attributes every answer to a chain by the key
// material in it (monitor M), and emits the observations for Model/Routing.v (K).
package engrouting

import (
	"bytes"
	"context"
	"encoding/hex"
	"encoding/json"
	"errors"
	"fmt"
	"io"
	"math/rand"
	"net/http"
	"net/http/httptest"
	"os"
	"sort"
	"strings"
	"sync"
	"time"

	"go.uber.org/zap/zapcore"
	"google.golang.org/protobuf/proto"

	"github.com/drand/drand/v2/common"
	chain2 "github.com/drand/drand/v2/common/chain"
	"github.com/drand/drand/v2/common/key"
	"github.com/drand/drand/v2/common/log"
	"github.com/drand/drand/v2/crypto"
	"github.com/drand/drand/v2/internal/chain"
	"github.com/drand/drand/v2/internal/core"
	"github.com/drand/drand/v2/internal/test"
	pdkg "github.com/drand/drand/v2/protobuf/dkg"
	"github.com/drand/drand/v2/protobuf/drand"
	"github.com/drand/kyber/share"
	dkg "github.com/drand/kyber/share/dkg"
	"github.com/drand/kyber/util/random"

	"github.com/drand/drand/v2/zzverif/emit"
)

// ---------- Coq rendering ----------

type interner struct {
	names map[string]string
	defs  []string
}

func newInterner() *interner { return &interner{names: map[string]string{}} }

// name returns a Coq identifier bound (in the case file header) to the byte list of s.
func (in *interner) name(prefix string, s []byte) string {
	if len(s) == 0 {
		return "[]"
	}
	k := prefix + ":" + string(s)
	if n, ok := in.names[k]; ok {
		return n
	}
	n := fmt.Sprintf("%s%d", prefix, len(in.names))
	in.names[k] = n
	in.defs = append(in.defs, fmt.Sprintf("Definition %s : list Z := %s.", n, emit.Bytes(s)))
	return n
}
func (in *interner) str(s string) string   { return in.name("s", []byte(s)) }
func (in *interner) bytes(b []byte) string { return in.name("b", b) }

func coqMeta(in *interner, m *drand.Metadata) string {
	if m == nil {
		return "None"
	}
	return fmt.Sprintf("(Some (mkM %s %s))", in.str(m.BeaconID), in.bytes(m.ChainHash))
}
func coqGroup(in *interner, h []byte) string {
	if h == nil {
		return "None"
	}
	return "(Some " + in.bytes(h) + ")"
}

// ---------- chains ----------

type chainT struct {
	id     string
	pair   *key.Pair
	group  *key.Group
	share  *key.Share
	hash   []byte
	sch    *crypto.Scheme
	idKey  []byte // identity public key
	dist   []byte // distributed public key
	onDisk int    // 0 no store, 1 key pair only, 2 key pair + group + share
}

func mkChain(id string, sch *crypto.Scheme, genesis int64) (*chainT, error) {
	pair, err := key.NewKeyPair("127.0.0.1:1", sch)
	if err != nil {
		return nil, err
	}
	poly := share.NewPriPoly(sch.KeyGroup, 1, nil, random.New())
	pub := poly.Commit(sch.KeyGroup.Point().Base())
	_, commits := pub.Info()
	g := &key.Group{
		Threshold: 1, Period: time.Second, Scheme: sch, ID: id, CatchupPeriod: 100 * time.Millisecond,
		Nodes:       []*key.Node{{Identity: pair.Public, Index: 0}},
		GenesisTime: genesis, GenesisSeed: []byte("seed-" + id),
		PublicKey: &key.DistPublic{Coefficients: commits},
	}
	sh := &key.Share{DistKeyShare: dkg.DistKeyShare{Commits: commits, Share: poly.Shares(1)[0]}, Scheme: sch}
	c := &chainT{id: id, pair: pair, group: g, share: sh, sch: sch}
	c.hash = chain2.NewChainInfo(g).Hash()
	c.idKey, _ = pair.Public.Key.MarshalBinary()
	c.dist, _ = commits[0].MarshalBinary()
	return c, nil
}

// ---------- one history ----------

type evT struct {
	kind string // startup | load | shutdown | dkg
	meta *drand.Metadata
	id   string
}

type history struct {
	idx    int
	rng    *rand.Rand
	dir    string
	dd     *core.DrandDaemon
	chains map[string]*chainT
	ids    []string // universe with stores
	in     *interner
	dk     string   // Coq term of the initial disk
	evs    []string // Coq terms of the events so far
	cases  []string
	descr  []string
	fails  []emit.MonitorFailure
	counts map[string]int
	evals  int
	nontrv map[string]bool
	// engine's own bookkeeping for M (independent of the model): chains it believes running
	running  map[string]bool // id -> registered
	hasGroup map[string]bool // id -> has a group
	started  map[*core.BeaconProcess]bool
	stopped  bool
	unknown  []byte
	badlen   []byte
	samples  []string
}

func (h *history) fail(class, what string, input interface{}) {
	if len(h.fails) < 20 {
		h.fails = append(h.fails, emit.MonitorFailure{Class: class, What: what, Input: input})
	}
}
func (h *history) add(c, d string) {
	h.cases = append(h.cases, c)
	h.descr = append(h.descr, fmt.Sprintf("history %d after %d events: %s", h.idx, len(h.evs), d))
}
func (h *history) prefix() string { return h.dk + " " + emit.List(h.evs) }

func groupHash(g *key.Group) []byte {
	if g == nil {
		return nil
	}
	return chain2.NewChainInfo(g).Hash()
}

var reqIDs = []string{"", "default", "alpha", "beta", "ghost", "Default"}

func (h *history) reqHashes() [][]byte {
	return [][]byte{nil, h.chains["default"].hash, h.chains["alpha"].hash, h.chains["beta"].hash, h.unknown, h.badlen}
}

func describeReq(m *drand.Metadata) string {
	if m == nil {
		return "metadata=nil"
	}
	return fmt.Sprintf("id=%q hash=%x", m.BeaconID, m.ChainHash)
}

// chainByKey attributes key material to a chain of this history.
func (h *history) chainByKey(idKey, dist []byte) string {
	for _, c := range h.chains {
		if idKey != nil && bytes.Equal(idKey, c.idKey) {
			return c.id
		}
		if dist != nil && bytes.Equal(dist, c.dist) {
			return c.id
		}
	}
	return "?"
}

// namedOK is the property's predicate: may a request m be answered by chain x?
func (h *history) namedOK(m *drand.Metadata, x string, viaGroupKey bool) bool {
	if h.chains[x] == nil {
		return false // answered with key material of no chain of this daemon
	}
	id, hash := m.GetBeaconID(), m.GetChainHash()
	if id != "" && common.GetCanonicalBeaconID(id) != x {
		return false
	}
	if len(hash) != 0 && !bytes.Equal(hash, h.chains[x].hash) {
		// only a chain without group may answer under a foreign hash, and then not with group material
		if h.hasGroup[x] || viaGroupKey {
			return false
		}
	}
	if id == "" && len(hash) == 0 && x != "default" {
		return false
	}
	return h.running[x]
}

// sweep crosses ids x hashes on the routing helper (K) and the endpoints (M).
func (h *history) sweep(ctx context.Context, withRand bool) {
	var metas []*drand.Metadata
	metas = append(metas, nil)
	for _, id := range reqIDs {
		for _, hs := range h.reqHashes() {
			metas = append(metas, &drand.Metadata{BeaconID: id, ChainHash: hs})
		}
	}
	for _, m := range metas {
		h.evals++
		h.nontrv[fmt.Sprintf("%d|%d|%s", h.idx, len(h.evs), describeReq(m))] = m != nil && (m.BeaconID != "" || len(m.ChainHash) != 0)
		clone := func() *drand.Metadata {
			if m == nil {
				return nil
			}
			return proto.Clone(m).(*drand.Metadata)
		}
		// --- K: the helper, staged to obtain the error class without reading messages
		var obs string
		var servedBy *core.BeaconProcess
		m1 := clone()
		id1, err1 := h.dd.VerifRoutingReadBeaconID(m1)
		switch {
		case err1 != nil && errors.Is(err1, common.ErrUnknownChainhash):
			obs = "(ORefuse 1)"
			h.counts["route/unknown-hash"]++
		case err1 != nil:
			obs = "(ORefuse 0)"
			h.counts["route/invalid-pair"]++
		default:
			bp, err2 := h.dd.VerifRoutingProcessByID(id1)
			if err2 != nil {
				obs = "(ORefuse 2)"
				h.counts["route/not-running"]++
			} else {
				servedBy = bp
				obs = fmt.Sprintf("(OServe %s %s)", h.in.str(bp.VerifRoutingBeaconID()), coqGroup(h.in, groupHash(bp.VerifRoutingGroup())))
				h.counts["route/served"]++
			}
		}
		m2 := clone()
		bp2, err := h.dd.VerifRoutingProcessFromRequest(m2)
		if (err == nil) != (servedBy != nil) || (err == nil && bp2 != servedBy) {
			h.fail("C19-helper-inconsistent", "getBeaconProcessFromRequest disagrees with readBeaconID+getBeaconProcessByID", describeReq(m))
		}
		idAfter := ""
		if m2 != nil {
			idAfter = m2.BeaconID
		}
		c := fmt.Sprintf("RRoute %s %s %s %s", h.prefix(), coqMeta(h.in, m), obs, h.in.str(idAfter))
		h.add(c, "route "+describeReq(m))
		if len(h.samples) < 3 && servedBy != nil && m != nil && len(m.ChainHash) > 0 {
			h.samples = append(h.samples, fmt.Sprintf("history %d after %d events: %s -> %s", h.idx, len(h.evs), describeReq(m), servedBy.VerifRoutingBeaconID()))
		}
		// --- M: who answers on the endpoints
		mm := m
		if mm == nil {
			mm = &drand.Metadata{}
		}
		answered := map[string]string{}
		if r, err := h.dd.ChainInfo(ctx, &drand.ChainInfoRequest{Metadata: clone()}); err == nil {
			answered["ChainInfo"] = h.chainByKey(nil, r.GetPublicKey())
			if x := answered["ChainInfo"]; !h.namedOK(mm, x, true) {
				h.fail("C19-served-by-unnamed-chain", "ChainInfo answered with the chain info of "+x, describeReq(m))
			}
		}
		if r, err := h.dd.GetIdentity(ctx, &drand.IdentityRequest{Metadata: clone()}); err == nil {
			answered["GetIdentity"] = h.chainByKey(r.GetKey(), nil)
			if x := answered["GetIdentity"]; !h.namedOK(mm, x, false) {
				h.fail("C19-served-by-unnamed-chain", "GetIdentity answered with the identity of "+x, describeReq(m))
			}
		}
		if r, err := h.dd.GroupFile(ctx, &drand.GroupRequest{Metadata: clone()}); err == nil && len(r.GetDistKey()) > 0 {
			answered["GroupFile"] = h.chainByKey(nil, r.GetDistKey()[0])
			if x := answered["GroupFile"]; !h.namedOK(mm, x, true) {
				h.fail("C19-served-by-unnamed-chain", "GroupFile answered with the group of "+x, describeReq(m))
			}
		}
		if r, err := h.dd.PublicKey(ctx, &drand.PublicKeyRequest{Metadata: clone()}); err == nil {
			answered["PublicKey"] = h.chainByKey(r.GetPubKey(), nil)
			if x := answered["PublicKey"]; !h.namedOK(mm, x, false) {
				h.fail("C19-served-by-unnamed-chain", "PublicKey answered with the key of "+x, describeReq(m))
			}
		}
		if withRand {
			// (round 0 is the genesis beacon: its "signature" is the genesis seed, nothing to verify)
			if r, err := h.dd.PublicRand(ctx, &drand.PublicRandRequest{Metadata: clone()}); err == nil && r.GetRound() > 0 {
				x := h.chainBySignature(r.GetRound(), r.GetSignature(), r.GetPreviousSignature())
				answered["PublicRand"] = x
				h.counts["rand/answered"]++
				if !h.namedOK(mm, x, true) {
					h.fail("C19-served-by-unnamed-chain", "PublicRand answered with randomness that verifies under the key of "+x, describeReq(m))
				}
			}
		}
		// endpoints must agree with the helper
		for ep, x := range answered {
			if servedBy == nil || servedBy.VerifRoutingBeaconID() != x {
				h.fail("C19-endpoint-bypasses-routing", ep+" answered for "+x+" but the routing helper says otherwise", describeReq(m))
			}
		}
		// positive clauses of the property
		id, hash := mm.GetBeaconID(), mm.GetChainHash()
		for _, x := range h.ids {
			cx := h.chains[x]
			if !(h.running[x] && h.hasGroup[x]) || !bytes.Equal(hash, cx.hash) {
				continue
			}
			own := id == "" || common.GetCanonicalBeaconID(id) == x
			if own && (servedBy == nil || servedBy.VerifRoutingBeaconID() != x) {
				h.fail("C19-known-hash-not-selected", "hash of running chain "+x+" (alone or with its own id) is not served by it", describeReq(m))
			}
			if !own && servedBy != nil {
				h.fail("C19-mismatch-accepted", "hash of "+x+" with another id was served by "+servedBy.VerifRoutingBeaconID(), describeReq(m))
			}
		}
		if id == "" && len(hash) == 0 {
			if h.running["default"] != (servedBy != nil) || (servedBy != nil && servedBy.VerifRoutingBeaconID() != "default") {
				h.fail("C19-neither-not-default", "request with neither id nor hash is not handled by exactly the default chain", describeReq(m))
			}
		}
		if len(hash) == 0 && id != "" {
			x := common.GetCanonicalBeaconID(id)
			if h.running[x] && (servedBy == nil || servedBy.VerifRoutingBeaconID() != x) {
				h.fail("C19-other-chain-lost", "running chain "+x+" no longer resolves by id", describeReq(m))
			}
		}
		if servedBy != nil && !h.running[servedBy.VerifRoutingBeaconID()] {
			h.fail("C19-stopped-chain-still-resolves", "request reached "+servedBy.VerifRoutingBeaconID()+", which was stopped / never loaded", describeReq(m))
		}
	}
}

func (h *history) chainBySignature(round uint64, sig, prev []byte) string {
	for _, c := range h.chains {
		b := &common.Beacon{Round: round, Signature: sig}
		if c.sch.Name == crypto.DefaultSchemeID {
			b.PreviousSig = prev
		}
		if err := c.sch.VerifyBeacon(b, c.group.PublicKey.Key()); err == nil {
			return c.id
		}
	}
	return "?"
}

// snapshot emits the tables (K) and the HTTP / DKG-proxy sweeps.
func (h *history) snapshot(ctx context.Context, withRand bool) {
	ids, procs := h.dd.VerifRoutingProcs()
	var ps []string
	for i, id := range ids {
		ps = append(ps, fmt.Sprintf("(%s, %s)", h.in.str(id), coqGroup(h.in, groupHash(procs[i].VerifRoutingGroup()))))
		if procs[i].VerifRoutingBeaconID() != id {
			h.fail("C19-table-id-mismatch", "process registered under "+id+" has beacon id "+procs[i].VerifRoutingBeaconID(), nil)
		}
	}
	ks, vs := h.dd.VerifRoutingHashes()
	var hs []string
	for i := range ks {
		hs = append(hs, fmt.Sprintf("(%s, %s)", h.in.str(ks[i]), h.in.str(vs[i])))
	}
	handler := h.dd.VerifRoutingHTTPHandler().GetHTTPHandler()
	get := func(path string) (int, []byte) {
		rec := httptest.NewRecorder()
		req := httptest.NewRequest(http.MethodGet, path, nil)
		rctx, cancel := context.WithTimeout(ctx, 5*time.Second)
		defer cancel()
		handler.ServeHTTP(rec, req.WithContext(rctx))
		body, _ := io.ReadAll(rec.Result().Body)
		return rec.Code, body
	}
	_, body := get("/chains")
	var chains []string
	_ = json.Unmarshal(body, &chains)
	sort.Strings(chains)
	var ws []string
	for _, k := range chains {
		ws = append(ws, h.in.str(k))
	}
	codeDef, _ := get("/info")
	h.add(fmt.Sprintf("RSnap %s %s %s %s %s", h.prefix(), emit.List(ps), emit.List(hs), emit.List(ws), emit.Bool(codeDef == http.StatusOK)),
		fmt.Sprintf("tables procs=%v hashes=%v->%v http=%v default=%v", ids, ks, vs, chains, codeDef == http.StatusOK))
	h.evals++
	// HTTP sweep on /{segment}/info
	up := strings.ToUpper(hex.EncodeToString(h.chains["alpha"].hash))
	segs := []string{"", hex.EncodeToString(h.chains["default"].hash), hex.EncodeToString(h.chains["alpha"].hash),
		hex.EncodeToString(h.chains["beta"].hash), hex.EncodeToString(h.unknown), up, "default", "abc", "zz", hex.EncodeToString(h.badlen)}
	for _, s := range segs {
		path := "/info"
		coqPath := "None"
		if s != "" {
			path = "/" + s + "/info"
			coqPath = "(Some " + h.in.str(s) + ")"
		}
		code, body := get(path)
		h.evals++
		var obs string
		switch code {
		case http.StatusBadRequest:
			obs = "HBad"
			h.counts["http/400"]++
		case http.StatusNotFound:
			obs = "HNotFound"
			h.counts["http/404"]++
		case http.StatusOK:
			info, err := chain2.InfoFromJSON(bytes.NewReader(body))
			x := "?"
			if err == nil {
				pk, _ := info.PublicKey.MarshalBinary()
				x = h.chainByKey(nil, pk)
			}
			obs = "(HServe " + h.in.str(x) + ")"
			h.counts["http/200"]++
			// M: the path names x
			if s == "" {
				if x != "default" {
					h.fail("C19-http-wrong-chain", "un-prefixed path served chain "+x, path)
				}
			} else if !strings.EqualFold(s, hex.EncodeToString(h.chains[safe(x, h)].hash)) {
				h.fail("C19-http-wrong-chain", "path under "+s+" served chain "+x, path)
			}
			if !h.running[x] {
				h.fail("C19-http-stale-after-removal", "HTTP path still serves stopped chain "+x, path)
			}
		default:
			obs = "HBad"
			h.fail("C19-http-unexpected-status", fmt.Sprintf("status %d", code), path)
		}
		h.add(fmt.Sprintf("RHttp %s %s %s", h.prefix(), coqPath, obs), "GET "+path)
		// M: the hash-less paths serve the default chain as long as it runs
		if s == "" && h.running["default"] && h.hasGroup["default"] && code != http.StatusOK {
			h.fail("C19-http-default-chain-not-served", "the default chain is running but the path without chain hash is not served", path)
		}
		// M: running chains with a group are reachable under their hash
		for _, x := range h.ids {
			if h.running[x] && h.hasGroup[x] && s == hex.EncodeToString(h.chains[x].hash) && code != http.StatusOK {
				h.fail("C19-http-running-chain-unreachable", "path under the hash of running chain "+x+" is not served", path)
			}
		}
		// M (final state): randomness under a hash path verifies under that chain's key
		if withRand && code == http.StatusOK {
			rpath := "/public/latest"
			if s != "" {
				rpath = "/" + s + "/public/latest"
			}
			if c2, b2 := get(rpath); c2 == http.StatusOK {
				var r struct {
					Round     uint64          `json:"round"`
					Signature common.HexBytes `json:"signature"`
					Previous  common.HexBytes `json:"previous_signature"`
				}
				if json.Unmarshal(b2, &r) == nil && len(r.Signature) > 0 && r.Round > 0 {
					x := h.chainBySignature(r.Round, r.Signature, r.Previous)
					h.counts["http/rand-verified"]++
					want := "default"
					if s != "" {
						want = "?"
						for _, c := range h.chains {
							if strings.EqualFold(s, hex.EncodeToString(c.hash)) {
								want = c.id
							}
						}
					}
					if x != want {
						h.fail("C19-http-wrong-chain", "randomness under "+rpath+" verifies under the key of "+x, rpath)
					}
				}
			}
		}
	}
	// DKG proxy sweep
	for _, id := range []string{"", "default", "alpha", "beta", "ghost"} {
		h.evals++
		exists := h.dd.VerifRoutingBeaconExists(id)
		obs := "DUnknown"
		if exists {
			obs = "(DServe " + h.in.str(id) + ")"
		}
		if h.stopped {
			// the whole daemon was stopped: the DKG store is closed, only the table is compared
			h.add(fmt.Sprintf("RDkg %s (Some %s) %s", h.prefix(), h.in.str(id), obs), "dkg proxy id="+id)
			continue
		}
		r, err := h.dd.DKGStatus(ctx, &pdkg.DKGStatusRequest{BeaconID: id})
		if (err == nil) != exists {
			h.fail("C19-dkg-proxy-inconsistent", "DKGStatus answered although beaconExists says otherwise (or vice versa)", id)
		}
		if err == nil {
			h.counts["dkg/served"]++
			if got := r.GetCurrent().GetBeaconID(); got != id {
				h.fail("C19-dkg-proxy-wrong-id", "DKGStatus for "+id+" answered with the state of "+got, id)
			}
			if !h.running[id] {
				h.fail("C19-stopped-chain-still-resolves", "DKG proxy still serves "+id, id)
			}
		} else {
			h.counts["dkg/refused"]++
		}
		h.add(fmt.Sprintf("RDkg %s (Some %s) %s", h.prefix(), h.in.str(id), obs), "dkg proxy id="+id)
	}
	if _, err := h.dd.Command(ctx, &pdkg.DKGCommand{}); err == nil {
		h.fail("C19-dkg-proxy-inconsistent", "Command without metadata was not refused", nil)
	}
	h.add(fmt.Sprintf("RDkg %s None DNoMeta", h.prefix()), "dkg proxy no metadata")
}

func safe(x string, h *history) string {
	if _, ok := h.chains[x]; ok {
		return x
	}
	return "default"
}

func errClass(err error) int {
	switch {
	case err == nil:
		return 0
	case errors.Is(err, common.ErrUnknownChainhash):
		return 1
	default:
		return 2
	}
}

// apply runs one event on the real daemon, emits its outcome class, updates M's bookkeeping.
func (h *history) apply(ctx context.Context, e evT) {
	var coq string
	class := 0
	switch e.kind {
	case "startup":
		coq = "EStartup"
		err := h.dd.LoadBeaconsFromDisk(ctx, "", false, "")
		anyKey := false
		for _, id := range h.ids {
			anyKey = anyKey || h.chains[id].onDisk >= 1
		}
		// with no key store at all the real code looks for a "default" store, finds no key pair and
		// gives up without touching the tables (the model: start-up over an empty disk)
		if err != nil && anyKey {
			h.fail("C19-engine", "LoadBeaconsFromDisk failed: "+err.Error(), nil)
		}
		for _, id := range h.ids {
			if h.chains[id].onDisk >= 1 {
				h.running[id] = true
				h.hasGroup[id] = h.chains[id].onDisk == 2
			}
		}
		h.counts["ev/startup"]++
	case "load":
		coq = "ELoad " + coqMeta(h.in, e.meta)
		// what the request names, for M's bookkeeping (before the call)
		before, _ := h.dd.VerifRoutingProcs()
		_, err := h.dd.LoadBeacon(ctx, &drand.LoadBeaconRequest{Metadata: proto.Clone(e.meta).(*drand.Metadata)})
		class = errClass(err)
		after, _ := h.dd.VerifRoutingProcs()
		if err == nil {
			for _, id := range after {
				if !contains(before, id) {
					h.running[id] = true
					h.hasGroup[id] = h.chains[id] != nil && h.chains[id].onDisk == 2
					if !h.namedBy(e.meta, id) {
						h.fail("C19-load-wrong-chain", "LoadBeacon loaded "+id, describeReq(e.meta))
					}
				}
			}
		}
		h.counts[fmt.Sprintf("ev/load/%d", class)]++
	case "shutdown":
		coq = "EShutdown " + coqMeta(h.in, e.meta)
		before, _ := h.dd.VerifRoutingProcs()
		sctx, cancel := context.WithTimeout(ctx, 10*time.Second)
		_, err := h.dd.Shutdown(sctx, &drand.ShutdownRequest{Metadata: proto.Clone(e.meta).(*drand.Metadata)})
		cancel()
		class = errClass(err)
		if e.meta.GetBeaconID() == "" {
			h.stopped = true
		}
		after, _ := h.dd.VerifRoutingProcs()
		for _, id := range before {
			if !contains(after, id) {
				h.running[id] = false
				if !h.namedBy(e.meta, id) {
					h.fail("C19-shutdown-wrong-chain", "Shutdown removed "+id, describeReq(e.meta))
				}
			}
		}
		h.counts[fmt.Sprintf("ev/shutdown/%d", class)]++
	case "dkg":
		c := h.chains[e.id]
		coq = fmt.Sprintf("EDkgDone %s %s", h.in.str(e.id), h.in.bytes(c.hash))
		bp, err := h.dd.VerifRoutingProcessByID(e.id)
		if err == nil {
			if err := bp.VerifRoutingStoreDKGOutput(ctx, c.group, c.share); err != nil {
				h.fail("C19-engine", "storeDKGOutput failed: "+err.Error(), e.id)
			}
			c.onDisk = 2
			if !h.hasGroup[e.id] && !h.started[bp] {
				h.started[bp] = true
				_ = bp.StartBeacon(ctx, true)
			}
			h.hasGroup[e.id] = true
			h.counts["ev/dkg/applied"]++
		} else {
			h.counts["ev/dkg/no-process"]++
		}
	}
	h.add(fmt.Sprintf("RStep %s (%s) %d", h.prefix(), coq, class), "event "+coq)
	h.evals++
	h.evs = append(h.evs, coq)
}

// namedBy: may a control request m act on chain x (id absent only for shutdown-all)?
func (h *history) namedBy(m *drand.Metadata, x string) bool {
	id, hash := m.GetBeaconID(), m.GetChainHash()
	if id != "" && common.GetCanonicalBeaconID(id) != x {
		return false
	}
	if len(hash) != 0 && h.chains[x] != nil && !bytes.Equal(hash, h.chains[x].hash) && h.hasGroup[x] {
		return false
	}
	return true
}

func contains(l []string, s string) bool {
	for _, x := range l {
		if x == s {
			return true
		}
	}
	return false
}

func (h *history) genEvent(first bool, last bool) evT {
	r := h.rng
	if first && r.Intn(10) < 6 {
		return evT{kind: "startup"}
	}
	pickHash := func() []byte {
		switch r.Intn(10) {
		case 0:
			return h.unknown
		case 1:
			return h.badlen
		case 2, 3:
			return h.chains[h.ids[r.Intn(len(h.ids))]].hash
		default:
			return nil
		}
	}
	// bias towards operations that take effect: load what is not running, stop what is
	var runningIDs, idle []string
	for _, id := range h.ids {
		if h.running[id] {
			runningIDs = append(runningIDs, id)
		} else {
			idle = append(idle, id)
		}
	}
	pick := func(pref, all []string) string {
		if len(pref) > 0 && r.Intn(10) < 7 {
			return pref[r.Intn(len(pref))]
		}
		return all[r.Intn(len(all))]
	}
	switch k := r.Intn(10); {
	case k < 4:
		id := pick(idle, []string{"", "default", "alpha", "beta", "ghost"})
		var hs []byte
		switch r.Intn(10) {
		case 0:
			hs = pickHash()
		case 1:
			hs = h.chains[safe(common.GetCanonicalBeaconID(id), h)].hash // own hash
		}
		return evT{kind: "load", meta: &drand.Metadata{BeaconID: id, ChainHash: hs}}
	case k < 7:
		id := pick(runningIDs, []string{"default", "alpha", "beta", "ghost"})
		var hs []byte
		switch r.Intn(10) {
		case 0, 1:
			hs = pickHash()
		case 2, 3:
			hs = h.chains[safe(id, h)].hash
		}
		if last && r.Intn(3) == 0 {
			id = "" // stop the whole daemon
		}
		return evT{kind: "shutdown", meta: &drand.Metadata{BeaconID: id, ChainHash: hs}}
	default:
		return evT{kind: "dkg", id: pick(runningIDs, h.ids)}
	}
}

func discardLogger() log.Logger {
	return log.New(zapcore.AddSync(io.Discard), log.ErrorLevel, false)
}

func newHistory(ctx context.Context, idx int, seed int64) (*history, error) {
	h := &history{idx: idx, rng: rand.New(rand.NewSource(seed*1000 + int64(idx))), in: newInterner(),
		chains: map[string]*chainT{}, counts: map[string]int{}, nontrv: map[string]bool{},
		running: map[string]bool{}, hasGroup: map[string]bool{}, started: map[*core.BeaconProcess]bool{}}
	dir, err := os.MkdirTemp("", "zzv-routing")
	if err != nil {
		return nil, err
	}
	h.dir = dir
	l := discardLogger()
	cfg := core.NewConfig(l, core.WithConfigFolder(dir), core.WithPrivateListenAddress("127.0.0.1:0"),
		core.WithControlPort(test.FreePort()), core.WithDBStorageEngine(chain.BoltDB))
	h.dd, err = core.NewDrandDaemon(ctx, cfg)
	if err != nil {
		return nil, err
	}
	// the multibeacon folder exists on a real node (created with the first key pair)
	if err := os.MkdirAll(cfg.ConfigFolderMB(), 0o700); err != nil {
		return nil, err
	}
	genesis := time.Now().Unix() + 2
	schemes := []string{crypto.DefaultSchemeID, crypto.UnchainedSchemeID, crypto.ShortSigSchemeID}
	h.ids = []string{"default", "alpha", "beta"}
	var dk []string
	for i, id := range h.ids {
		sch, err := crypto.GetSchemeByID(schemes[(i+idx)%len(schemes)])
		if err != nil {
			return nil, err
		}
		c, err := mkChain(id, sch, genesis)
		if err != nil {
			return nil, err
		}
		c.onDisk = h.rng.Intn(3)
		if idx == 0 {
			c.onDisk = 2 // the first history always starts with all three chains complete
		}
		if idx == 1 {
			// corpus history: a running default chain next to beacons that only have a key pair (no DKG yet)
			c.onDisk = 1
			if id == "default" {
				c.onDisk = 2
			}
		}
		h.chains[id] = c
		if c.onDisk >= 1 {
			st := key.NewFileStore(cfg.ConfigFolderMB(), id)
			if err := st.SaveKeyPair(c.pair); err != nil {
				return nil, err
			}
			if c.onDisk == 2 {
				if err := st.SaveGroup(c.group); err != nil {
					return nil, err
				}
				if err := st.SaveShare(c.share); err != nil {
					return nil, err
				}
				dk = append(dk, fmt.Sprintf("(%s, %s)", h.in.str(id), coqGroup(h.in, c.hash)))
			} else {
				dk = append(dk, fmt.Sprintf("(%s, None)", h.in.str(id)))
			}
		}
	}
	h.dk = emit.List(dk)
	h.unknown = make([]byte, 32)
	h.rng.Read(h.unknown)
	h.badlen = make([]byte, []int{5, 40}[h.rng.Intn(2)])
	h.rng.Read(h.badlen)
	return h, nil
}

func (h *history) run(ctx context.Context, nEvents int) {
	defer os.RemoveAll(h.dir)
	h.snapshot(ctx, false)
	h.sweep(ctx, false)
	for i := 0; i < nEvents && !h.stopped; i++ {
		e := h.genEvent(i == 0, i == nEvents-1)
		if h.idx == 1 {
			// scripted: group-less beacons are stopped, loaded again and complete their DKG next to the running default chain
			script := []evT{{kind: "startup"}, {kind: "shutdown", meta: &drand.Metadata{BeaconID: "beta"}},
				{kind: "load", meta: &drand.Metadata{BeaconID: "beta"}}, {kind: "shutdown", meta: &drand.Metadata{BeaconID: "alpha"}},
				{kind: "dkg", id: "beta"}, {kind: "shutdown", meta: &drand.Metadata{BeaconID: "beta"}}}
			if i < len(script) {
				e = script[i]
			}
		}
		h.apply(ctx, e)
		last := i == nEvents-1 || h.stopped
		if last && !h.stopped {
			// let the running chains produce a few rounds so that randomness can be attributed
			if d := time.Until(time.Unix(h.chains["default"].group.GenesisTime, 0).Add(2500 * time.Millisecond)); d > 0 {
				time.Sleep(d)
			}
		}
		h.snapshot(ctx, last && !h.stopped)
		h.sweep(ctx, last && !h.stopped)
	}
	if !h.stopped {
		sctx, cancel := context.WithTimeout(ctx, 10*time.Second)
		h.dd.Stop(sctx)
		cancel()
	}
}

// ---------- stand-alone HTTP handler table with stub clients ----------
// (appended by stub.go)

// Run is the engine entry point.
func Run(outDir string, seed int64, tier string) error {
	// library code prints key-store messages on stdout
	if devnull, err := os.OpenFile(os.DevNull, os.O_WRONLY, 0); err == nil {
		os.Stdout = devnull
	}
	ctx := context.Background()
	rep := emit.NewReport("routing", seed, tier)
	nHist, nEvents := 8, 6
	if tier == "thorough" {
		nHist, nEvents = 24, 10
	}
	var hs []*history
	for i := 0; i < nHist; i++ {
		h, err := newHistory(ctx, i, seed)
		if err != nil {
			return fmt.Errorf("history %d: %w", i, err)
		}
		hs = append(hs, h)
	}
	var wg sync.WaitGroup
	sem := make(chan struct{}, 16)
	for _, h := range hs {
		wg.Add(1)
		go func(h *history) {
			defer wg.Done()
			sem <- struct{}{}
			defer func() { <-sem }()
			h.run(ctx, nEvents)
		}(h)
	}
	wg.Wait()
	// one shard per history (its own header of named constants)
	for _, h := range hs {
		rep.Evaluations += h.evals
		for k, v := range h.counts {
			rep.Distribution[k] += v
		}
		for _, nt := range h.nontrv {
			if nt {
				rep.DistinctNontrivial++
			}
		}
		for _, f := range h.fails {
			rep.Fail(f.Class, f.What, f.Input)
		}
		for _, s := range h.samples {
			rep.Sample(s, 8)
		}
		req := append([]string{"From DV Require Import Model.Routing Corr.RoutingCorr.", "Open Scope Z_scope."}, h.in.defs...)
		if err := rep.Shard(outDir, fmt.Sprintf("cases_routing_h%02d", h.idx), req, "rcase", "mismatches", h.cases, h.descr, 1500); err != nil {
			return err
		}
	}
	if err := runStub(outDir, seed, tier, rep); err != nil {
		return err
	}
	rep.Rule = "real DrandDaemon histories (start-up / LoadBeacon / Shutdown / DKG completion, seeded) x full cross product ids {absent,default,alpha,beta,unknown,case-variant} x hashes {absent, each chain's, unknown, malformed length} after every event, plus HTTP paths and DKG-proxy ids, plus a stand-alone handler table with stub clients; distinct = distinct (history, state, request); non-trivial = request names an id or a hash"
	return rep.Write(outDir)
}
