// Command dev_node: development binary for the node engine.
package main

import (
	"github.com/drand/drand/v2/zzverif/cli"
	"github.com/drand/drand/v2/zzverif/enghttp"
	"github.com/drand/drand/v2/zzverif/engnode"
	"github.com/drand/drand/v2/zzverif/extract"
)

func main() {
	cli.Main(map[string]cli.RunFn{
		"extract":   func(out string, _ int64, _ string) error { return extract.Run(cli.Repo, out) },
		"smoke":     engnode.Smoke,
		"node":      engnode.Run,
		"reshare":   engnode.RunReshare,
		"serve":     engnode.RunServe,
		"bootstrap": engnode.RunBootstrap,
		"httpwait":  enghttp.Run,
	})
}
