// Command dev_cache is the development harness binary for C12/C11 (cache, cbstore, stream engines).
package main

import (
	"github.com/drand/drand/v2/zzverif/cli"
	"github.com/drand/drand/v2/zzverif/engcache"
	"github.com/drand/drand/v2/zzverif/engcbstore"
	"github.com/drand/drand/v2/zzverif/engstream"
	"github.com/drand/drand/v2/zzverif/engtime"
	"github.com/drand/drand/v2/zzverif/extract"
)

func main() {
	cli.Main(map[string]cli.RunFn{
		"extract": func(out string, _ int64, _ string) error { return extract.Run(cli.Repo, out) },
		"time":    engtime.Run,
		"cache":   engcache.Run,
		"cbstore": engcbstore.Run,
		"stream":  engstream.Run,
	})
}
