// Command dev_secrecy is the development harness binary for C15 / C13 (translator + engines
// "secrecy" and "crash").
package main

import (
	"github.com/drand/drand/v2/zzverif/cli"
	"github.com/drand/drand/v2/zzverif/engcrash"
	"github.com/drand/drand/v2/zzverif/engsecrecy"
	"github.com/drand/drand/v2/zzverif/extract"
)

func main() {
	cli.Main(map[string]cli.RunFn{
		"extract": func(out string, _ int64, _ string) error { return extract.Run(cli.Repo, out) },
		"secrecy": engsecrecy.Run,
		"crash":   engcrash.Run,
	})
}
