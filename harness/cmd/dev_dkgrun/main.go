// Command dev_dkgrun is the development harness binary of the DKG execution work package (C06):
// translator (extract) and the dkgrun engine.
package main

import (
	"github.com/drand/drand/v2/zzverif/cli"
	"github.com/drand/drand/v2/zzverif/engdkgrun"
	"github.com/drand/drand/v2/zzverif/extract"
)

func main() {
	cli.Main(map[string]cli.RunFn{
		"extract": func(out string, _ int64, _ string) error { return extract.Run(cli.Repo, out) },
		"dkgrun":  engdkgrun.Run,
	})
}
