// Command dev_codec is the development harness binary of the C17/C20 work package:
// translator (extract) plus the hash and codec engines.
package main

import (
	"github.com/drand/drand/v2/zzverif/cli"
	"github.com/drand/drand/v2/zzverif/engcodec"
	"github.com/drand/drand/v2/zzverif/engtime"
	"github.com/drand/drand/v2/zzverif/extract"
)

func main() {
	cli.Main(map[string]cli.RunFn{
		"extract":  func(out string, _ int64, _ string) error { return extract.Run(cli.Repo, out) },
		"time":     engtime.Run,
		"hash":     engcodec.RunHash,
		"codec":    engcodec.RunCodec,
		"infojson": engcodec.RunInfoJSON,
	})
}
