// Command dev_routing is the development harness binary for C19/C14 (translator + engines).
package main

import (
	"github.com/drand/drand/v2/zzverif/cli"
	"github.com/drand/drand/v2/zzverif/engrobust"
	"github.com/drand/drand/v2/zzverif/engrouting"
	"github.com/drand/drand/v2/zzverif/extract"
)

func main() {
	cli.Main(map[string]cli.RunFn{
		"extract": func(out string, _ int64, _ string) error { return extract.Run(cli.Repo, out) },
		"routing": engrouting.Run,
		"robust":  engrobust.Run,
	})
}
