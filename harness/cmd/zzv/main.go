// Command zzv is the harness binary: translator (extract) and correspondence engines.
package main

import (
	"github.com/drand/drand/v2/zzverif/cli"
	"github.com/drand/drand/v2/zzverif/engcache"
	"github.com/drand/drand/v2/zzverif/engcbstore"
	"github.com/drand/drand/v2/zzverif/engcodec"
	"github.com/drand/drand/v2/zzverif/engcrash"
	"github.com/drand/drand/v2/zzverif/engdkg"
	"github.com/drand/drand/v2/zzverif/engdkgrun"
	"github.com/drand/drand/v2/zzverif/enghttp"
	"github.com/drand/drand/v2/zzverif/engnode"
	"github.com/drand/drand/v2/zzverif/engrobust"
	"github.com/drand/drand/v2/zzverif/engrouting"
	"github.com/drand/drand/v2/zzverif/engsecrecy"
	"github.com/drand/drand/v2/zzverif/engstore"
	"github.com/drand/drand/v2/zzverif/engstream"
	"github.com/drand/drand/v2/zzverif/engsync"
	"github.com/drand/drand/v2/zzverif/engtime"
	"github.com/drand/drand/v2/zzverif/extract"
)

func main() {
	cli.Main(map[string]cli.RunFn{
		"extract":      func(out string, _ int64, _ string) error { return extract.Run(cli.Repo, out) },
		"time":         engtime.Run,
		"node":         engnode.Run,
		"pending":      engnode.RunPending,
		"net":          engnode.RunNet,
		"ticker":       engnode.RunTicker,
		"reshare":      engnode.RunReshare,
		"reshareapply": engnode.RunReshareApply,
		"serve":        engnode.RunServe,
		"bootstrap":    engnode.RunBootstrap,
		"httpwait":     enghttp.Run,
		"cache":        engcache.Run,
		"cbstore":      engcbstore.Run,
		"stream":       engstream.Run,
		"sync":         engsync.Run,
		"dkgrun":       engdkgrun.Run,
		"dkgsm":        engdkg.Run("dkgsm", "C08"),
		"dkgsig":       engdkg.Run("dkgsig", "C09"),
		"secrecy":      engsecrecy.Run,
		"crash":        engcrash.Run,
		"store":        engstore.RunStore,
		"stack":        engstore.RunStack,
		"routing":      engrouting.Run,
		"hash":         engcodec.RunHash,
		"codec":        engcodec.RunCodec,
		"infojson":     engcodec.RunInfoJSON,
		"robust":       engrobust.Run,
	})
}
