// Command zzv is the harness binary: translator (extract) and correspondence engines.
package main

import (
	"flag"
	"fmt"
	"os"

	"github.com/drand/drand/v2/zzverif/engtime"
	"github.com/drand/drand/v2/zzverif/extract"
)

func main() {
	if len(os.Args) < 2 {
		fmt.Fprintln(os.Stderr, "usage: zzv <engine> [flags]")
		os.Exit(2)
	}
	fs := flag.NewFlagSet(os.Args[1], flag.ExitOnError)
	out := fs.String("out", ".", "output directory")
	seed := fs.Int64("seed", 1, "PRNG seed")
	tier := fs.String("tier", "quick", "quick|thorough")
	repo := fs.String("repo", "/repo", "repository root")
	_ = fs.Parse(os.Args[2:])
	var err error
	switch os.Args[1] {
	case "extract":
		err = extract.Run(*repo, *out)
	case "time":
		err = engtime.Run(*out, *seed, *tier)
	default:
		err = fmt.Errorf("unknown engine %q", os.Args[1])
	}
	if err != nil {
		fmt.Fprintln(os.Stderr, "zzv:", err)
		os.Exit(3)
	}
}
