// Command dev_store is the development harness binary of the store/stack work package
// (C18, C02): translator (extract) plus the engines "store" and "stack".
package main

import (
	"github.com/drand/drand/v2/zzverif/cli"
	"github.com/drand/drand/v2/zzverif/engstore"
	"github.com/drand/drand/v2/zzverif/extract"
)

func main() {
	cli.Main(map[string]cli.RunFn{
		"extract": func(out string, _ int64, _ string) error { return extract.Run(cli.Repo, out) },
		"store":   engstore.RunStore,
		"stack":   engstore.RunStack,
	})
}
