// Command dev_dkg is the development harness binary of the DKG state-machine work package
// (C08, C09): translator (extract) and the dkgsm / dkgsig engines.
package main

import (
	"github.com/drand/drand/v2/zzverif/cli"
	"github.com/drand/drand/v2/zzverif/engdkg"
	"github.com/drand/drand/v2/zzverif/extract"
)

func main() {
	cli.Main(map[string]cli.RunFn{
		"extract": func(out string, _ int64, _ string) error { return extract.Run(cli.Repo, out) },
		"dkgsm":   engdkg.Run("dkgsm", "C08"),
		"dkgsig":  engdkg.Run("dkgsig", "C09"),
	})
}
