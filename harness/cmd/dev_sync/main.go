// Command dev_sync is the development harness binary of the C10 work package: translator
// (extract) and the sync engine.
package main

import (
	"github.com/drand/drand/v2/zzverif/cli"
	"github.com/drand/drand/v2/zzverif/engsync"
	"github.com/drand/drand/v2/zzverif/extract"
)

func main() {
	cli.Main(map[string]cli.RunFn{
		"extract": func(out string, _ int64, _ string) error { return extract.Run(cli.Repo, out) },
		"sync":    engsync.Run,
	})
}
