package engrobust

// A pending PublicRand request for the round right after the last stored one, while the node stores
// two beacons back to back (a node that catches up / syncs on a busy host): the waiter's callback
// is then queued twice on its callbackStore worker. The request must be answered and the process
// must survive -- the callback runs on a worker goroutine that no interceptor covers, so a panic
// there kills the daemon. The scenario runs the REAL DrandDaemon / BeaconProcess.PublicRand / beacon
// handler store stack (memdb back-end) in a child process (this binary re-executed), with one
// scheduler thread so that the goroutine storing the two beacons is not interleaved with the
// worker; the parent reports the child's death as a monitor failure.

import (
	"bytes"
	"context"
	"errors"
	"fmt"
	"os"
	"os/exec"
	"runtime"
	"strings"
	"sync/atomic"
	"time"

	"github.com/drand/drand/v2/common"
	"github.com/drand/drand/v2/common/key"
	"github.com/drand/drand/v2/crypto"
	"github.com/drand/drand/v2/internal/chain"
	"github.com/drand/drand/v2/internal/core"
	"github.com/drand/drand/v2/internal/test"
	"github.com/drand/drand/v2/protobuf/drand"

	"github.com/drand/drand/v2/zzverif/emit"
	"github.com/drand/drand/v2/zzverif/engrouting"
)

const childEnv = "ZZV_ROBUST_CHILD"

// exit codes of the child
const (
	childOK         = 0
	childUnanswered = 41
	childProbe      = 42
	childSetup      = 43
	childWedged     = 44
)

// runPendingParent re-executes this binary for the scenario and turns its fate into monitor results.
func runPendingParent(rep *emit.Report, seed int64, tier string) {
	exe, err := os.Executable()
	if err != nil {
		rep.Fail("C14-engine", "cannot find the harness binary: "+err.Error(), nil)
		return
	}
	tmp, err := os.MkdirTemp("", "zzv-robust-child")
	if err != nil {
		rep.Fail("C14-engine", err.Error(), nil)
		return
	}
	defer os.RemoveAll(tmp)
	ctx, cancel := context.WithTimeout(context.Background(), 90*time.Second)
	defer cancel()
	cmd := exec.CommandContext(ctx, exe, "robust", "-out", tmp, "-seed", fmt.Sprint(seed), "-tier", tier)
	cmd.Env = append(os.Environ(), childEnv+"=pending")
	var out bytes.Buffer
	cmd.Stdout, cmd.Stderr = &out, &out
	err = cmd.Run()
	rep.Evaluations += pendingIterations(tier)
	rep.DistinctNontrivial += pendingIterations(tier)
	for _, l := range strings.Split(out.String(), "\n") {
		var n int
		if _, e := fmt.Sscanf(l, "CONCURRENT completed=%d", &n); e == nil {
			rep.Evaluations++ // one scenario; the number of requests it completed goes to the distribution
			rep.Distribution["concurrent/requests-completed"] += n
		}
	}
	for _, l := range strings.Split(out.String(), "\n") {
		switch {
		case strings.HasPrefix(l, "ANOTHER-ROUND"):
			rep.Fail("C01-answer-for-another-round", "a request for round r (= head+1, round r stored between the request's reading of the head and the registration of its callback) was answered successfully with another round: "+l,
				map[string]string{"scenario": "raw store wrapper: Last() reads head r-1, then round r is stored, then the head read is returned; PublicRand(r) registers its callback; round r+1 is stored", "observed": l})
		case strings.HasPrefix(l, "STALE-UNRETURNED"):
			rep.Fail("C14-call-timeout", "PublicRand for the next round did not return: "+l, l)
		case strings.HasPrefix(l, "STALEHEAD"):
			var sc string
			var n, ex, rf int
			if _, e := fmt.Sscanf(l, "STALEHEAD scheme=%s requests=%d exact=%d refused=%d", &sc, &n, &ex, &rf); e == nil {
				rep.Evaluations += n
				rep.DistinctNontrivial += n
				rep.Distribution["stalehead/exact"] += ex
				rep.Distribution["stalehead/refused"] += rf
			}
		}
	}
	scenario := "PublicRand(round last+1) pending, then Store().Put(last+1); Store().Put(last+2) back to back (one scheduler thread), on a real DrandDaemon with the memdb back-end"
	code := 0
	var ee *exec.ExitError
	if errors.As(err, &ee) {
		code = ee.ExitCode()
	} else if err != nil {
		code = -1
	}
	tail := out.String()
	line := ""
	for _, l := range strings.Split(tail, "\n") {
		if strings.HasPrefix(l, "panic:") || strings.HasPrefix(l, "fatal error:") {
			line = l
			break
		}
	}
	if len(tail) > 1200 {
		tail = tail[:1200]
	}
	switch {
	case err == nil:
		rep.Count("pending/survived")
	case code == childUnanswered:
		rep.Fail("C14-pending-round-unanswered", "the pending request for the next round was not answered with that round", map[string]string{"scenario": scenario, "output": tail})
	case code == childProbe:
		rep.Fail("C14-probe-unanswered", "after serving the pending request the node no longer answers", map[string]string{"scenario": scenario, "output": tail})
	case code == childWedged || ctx.Err() != nil:
		rep.Count("concurrent/wedged")
		what := "requests carrying an unknown chain hash, issued concurrently with updates of the daemon's process table, stopped completing: " + wedgeLine(out.String())
		if ctx.Err() != nil {
			what = "the child process did not finish and was killed by the watchdog (no request completing)"
		}
		rep.Fail("C14-daemon-wedged-by-concurrent-requests", what, map[string]string{
			"scenario": "8 goroutines calling GetIdentity / ChainInfo / Status / PublicRand with {id: fresh chain, hash: unknown 32 bytes} on a real DrandDaemon while another goroutine runs RemoveBeaconProcess / InstantiateBeaconProcess", "output": tail})
	case code == childSetup:
		rep.Fail("C14-engine", "child set-up failed", map[string]string{"output": tail})
	default:
		rep.Count("pending/died")
		rep.Fail("C14-process-died-serving-pending-round",
			"the node process died while a request for the next round was pending and two beacons were stored back to back: "+line,
			map[string]string{"scenario": scenario, "exit": fmt.Sprint(code), "output": tail})
	}
}

func wedgeLine(out string) string {
	for _, l := range strings.Split(out, "\n") {
		if strings.HasPrefix(l, "WEDGED") {
			return l
		}
	}
	return ""
}

func pendingIterations(tier string) int {
	if tier == "thorough" {
		return 200
	}
	return 25
}

func childFail(code int, format string, a ...interface{}) {
	fmt.Fprintf(os.Stderr, format+"\n", a...)
	os.Exit(code)
}

// runPendingChild is the scenario itself; it only returns by exiting.
func runPendingChild(tier string) {
	ctx := context.Background()
	dir, err := os.MkdirTemp("", "zzv-robust-pending")
	if err != nil {
		childFail(childSetup, "%v", err)
	}
	defer os.RemoveAll(dir)
	l := engrouting.DiscardLogger() // quiet: no write system calls in the middle of the scenario
	cfg := core.NewConfig(l, core.WithConfigFolder(dir), core.WithPrivateListenAddress("127.0.0.1:0"),
		core.WithControlPort(test.FreePort()), core.WithDBStorageEngine(chain.MemDB), core.WithMemDBSize(2000))
	sch, err := crypto.GetSchemeByID(crypto.DefaultSchemeID)
	if err != nil {
		childFail(childSetup, "%v", err)
	}
	// genesis far away: the node itself stores nothing, the harness plays the part of catch-up / sync
	c, err := engrouting.MkChain("default", sch, time.Now().Unix()+7200)
	if err != nil {
		childFail(childSetup, "%v", err)
	}
	c.Group.Period = time.Hour
	st := key.NewFileStore(cfg.ConfigFolderMB(), "default")
	if err := st.SaveKeyPair(c.Pair); err != nil {
		childFail(childSetup, "%v", err)
	}
	if err := st.SaveGroup(c.Group); err != nil {
		childFail(childSetup, "%v", err)
	}
	if err := st.SaveShare(c.Share); err != nil {
		childFail(childSetup, "%v", err)
	}
	dd, err := core.NewDrandDaemon(ctx, cfg)
	if err != nil {
		childFail(childSetup, "daemon: %v", err)
	}
	if _, err := dd.LoadBeacon(ctx, &drand.LoadBeaconRequest{Metadata: &drand.Metadata{BeaconID: "default"}}); err != nil {
		childFail(childSetup, "load: %v", err)
	}
	bp, err := dd.VerifRoutingProcessByID("default")
	if err != nil {
		childFail(childSetup, "%v", err)
	}
	store := bp.VerifBeaconHandler().Store()

	runConcurrent(ctx, dd, cfg, sch, tier)
	runStaleHead(ctx, tier)

	// one scheduler thread from here on: both beacons are dispatched before the waiter's worker runs
	defer runtime.GOMAXPROCS(runtime.GOMAXPROCS(1))
	md := func() *drand.Metadata { return &drand.Metadata{BeaconID: "default"} }
	for i := 0; i < pendingIterations(tier); i++ {
		last, err := store.Last(ctx)
		if err != nil {
			childFail(childSetup, "last: %v", err)
		}
		wanted := last.Round + 1
		type reply struct {
			r   *drand.PublicRandResponse
			err error
		}
		done := make(chan reply, 1)
		go func() {
			rctx, cancel := context.WithTimeout(ctx, 20*time.Second)
			defer cancel()
			r, err := dd.PublicRand(rctx, &drand.PublicRandRequest{Round: wanted, Metadata: md()})
			done <- reply{r, err}
		}()
		// let the request register its callback and wait
		time.Sleep(30 * time.Millisecond)
		b1 := &common.Beacon{Round: wanted, PreviousSig: last.Signature, Signature: []byte(fmt.Sprintf("signature-of-round-%d", wanted))}
		b2 := &common.Beacon{Round: wanted + 1, PreviousSig: b1.Signature, Signature: []byte(fmt.Sprintf("signature-of-round-%d", wanted+1))}
		if err := store.Put(ctx, b1); err != nil {
			childFail(childSetup, "put %d: %v", wanted, err)
		}
		if err := store.Put(ctx, b2); err != nil {
			childFail(childSetup, "put %d: %v", wanted+1, err)
		}
		select {
		case rp := <-done:
			if rp.err != nil || rp.r.GetRound() != wanted {
				childFail(childUnanswered, "iteration %d: PublicRand(%d) -> round %d, err %v", i, wanted, rp.r.GetRound(), rp.err)
			}
		case <-time.After(10 * time.Second):
			childFail(childUnanswered, "iteration %d: PublicRand(%d) did not return", i, wanted)
		}
		// the node still serves: another endpoint and the same one
		if _, err := dd.ChainInfo(ctx, &drand.ChainInfoRequest{Metadata: md()}); err != nil {
			childFail(childProbe, "iteration %d: ChainInfo: %v", i, err)
		}
		if r, err := dd.PublicRand(ctx, &drand.PublicRandRequest{Round: wanted + 1, Metadata: md()}); err != nil || r.GetRound() != wanted+1 {
			childFail(childProbe, "iteration %d: PublicRand(%d): %v", i, wanted+1, err)
		}
	}
	os.Exit(childOK)
}

// runConcurrent: requests that take the "unknown chain hash, process still without group" branch
// of readBeaconID, issued from several goroutines through the real endpoints, while another
// goroutine updates the daemon's process table the way InstantiateBeaconProcess /
// RemoveBeaconProcess do. Requests must keep completing; if none completes for a while the daemon
// is wedged (a lock is held for ever) and the child exits at once, after trying one plain request.
func runConcurrent(ctx context.Context, dd *core.DrandDaemon, cfg *core.Config, sch *crypto.Scheme, tier string) {
	// a fresh chain (key pair only, no group): "alpha"; and key stores for the writer's own ids
	mkStore := func(id string) key.Store {
		pair, err := key.NewKeyPair("127.0.0.1:1", sch)
		if err != nil {
			childFail(childSetup, "%v", err)
		}
		st := key.NewFileStore(cfg.ConfigFolderMB(), id)
		if err := st.SaveKeyPair(pair); err != nil {
			childFail(childSetup, "%v", err)
		}
		return st
	}
	mkStore("alpha")
	if _, err := dd.LoadBeacon(ctx, &drand.LoadBeaconRequest{Metadata: &drand.Metadata{BeaconID: "alpha"}}); err != nil {
		childFail(childSetup, "load alpha: %v", err)
	}
	alpha, err := dd.VerifRoutingProcessByID("alpha")
	if err != nil {
		childFail(childSetup, "%v", err)
	}
	wstore := mkStore("writer")
	unknown := bytes.Repeat([]byte{0xab}, 32)
	var completed, writes atomic.Int64
	var stop atomic.Bool
	md := func() *drand.Metadata { return &drand.Metadata{BeaconID: "alpha", ChainHash: unknown} }
	const nReaders = 8
	for g := 0; g < nReaders; g++ {
		g := g
		go func() {
			for i := 0; !stop.Load(); i++ {
				switch (i + g) % 4 {
				case 0:
					_, _ = dd.GetIdentity(ctx, &drand.IdentityRequest{Metadata: md()})
				case 1:
					_, _ = dd.ChainInfo(ctx, &drand.ChainInfoRequest{Metadata: md()})
				case 2:
					_, _ = dd.Status(ctx, &drand.StatusRequest{Metadata: md()})
				default:
					_, _ = dd.PublicRand(ctx, &drand.PublicRandRequest{Metadata: md()})
				}
				completed.Add(1)
			}
		}()
	}
	go func() {
		for i := 0; !stop.Load(); i++ {
			// the table update of a beacon that is being removed (an id that is not loaded: nothing changes)
			dd.RemoveBeaconProcess(ctx, "nobody", alpha)
			if i%64 == 0 {
				// and of a beacon that is being loaded, then removed again
				if wp, err := dd.InstantiateBeaconProcess(ctx, "writer", wstore); err == nil {
					dd.RemoveBeaconProcess(ctx, "writer", wp)
				}
			}
			writes.Add(1)
			time.Sleep(50 * time.Microsecond)
		}
	}()
	dur := 2 * time.Second
	if tier == "thorough" {
		dur = 15 * time.Second
	}
	const stall = 5 * time.Second
	wedged := func(lastN int64) {
		// is a plain valid request still served?
		served := make(chan error, 1)
		go func() {
			_, err := dd.ChainInfo(ctx, &drand.ChainInfoRequest{Metadata: &drand.Metadata{BeaconID: "default"}})
			served <- err
		}()
		plain := "a plain ChainInfo request for the default chain is not served either"
		select {
		case err := <-served:
			plain = fmt.Sprintf("a plain ChainInfo request for the default chain still returns (err=%v)", err)
		case <-time.After(3 * time.Second):
		}
		fmt.Fprintf(os.Stderr, "WEDGED no request completed for %s after %d requests and %d table updates; %s\n", stall, lastN, writes.Load(), plain)
		os.Exit(childWedged)
	}
	start, lastProgress, lastN := time.Now(), time.Now(), int64(0)
	// run for dur, and never stop while the requests are stalled: a stall either ends or is a wedge
	for time.Since(start) < dur || time.Since(lastProgress) > 200*time.Millisecond {
		time.Sleep(50 * time.Millisecond)
		if n := completed.Load(); n != lastN {
			lastN, lastProgress = n, time.Now()
		} else if time.Since(lastProgress) > stall {
			wedged(lastN)
		}
	}
	stop.Store(true)
	time.Sleep(20 * time.Millisecond)
	fmt.Fprintf(os.Stderr, "CONCURRENT completed=%d writes=%d\n", completed.Load(), writes.Load())
	// afterwards the plain request is served
	after := make(chan error, 1)
	go func() {
		_, err := dd.ChainInfo(ctx, &drand.ChainInfoRequest{Metadata: &drand.Metadata{BeaconID: "default"}})
		after <- err
	}()
	select {
	case err := <-after:
		if err != nil {
			childFail(childProbe, "after the concurrent phase: ChainInfo: %v", err)
		}
	case <-time.After(stall):
		wedged(completed.Load())
	}
}
