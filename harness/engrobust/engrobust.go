// Package engrobust is the validation / correspondence engine for C14 (no message from the
// network can crash or wedge a node). It calls the peer-facing and public endpoints of REAL
// service objects directly -- a real DrandDaemon (with a running one-node chain, a fresh chain and
// chains whose DKG records are in chosen states), a real dkg.Process with a real echoBroadcast
// installed, the real HTTP handler -- with generated requests: every oneof variant, nil / empty
// nested messages, short / oversize byte fields, unknown ids and hashes, in sequences. Every call
// runs under a deadline with panics recovered the way the gRPC recovery interceptor would; after
// every call probes on the same and on other endpoints must return and the locks must be free.
// The observed class (answered / rejected / panicked / timeout) is compared with Model/Robust.v.
package engrobust

import (
	"context"
	"encoding/hex"
	"errors"
	"fmt"
	"io"
	"math/rand"
	"net/http"
	"net/http/httptest"
	"os"
	"strings"
	"time"

	"google.golang.org/grpc/codes"
	"google.golang.org/grpc/metadata"
	"google.golang.org/grpc/status"
	"google.golang.org/protobuf/proto"
	"google.golang.org/protobuf/types/known/timestamppb"

	chain2 "github.com/drand/drand/v2/common/chain"
	"github.com/drand/drand/v2/common/key"
	"github.com/drand/drand/v2/crypto"
	"github.com/drand/drand/v2/internal/chain"
	"github.com/drand/drand/v2/internal/core"
	"github.com/drand/drand/v2/internal/dkg"
	dnet "github.com/drand/drand/v2/internal/net"
	"github.com/drand/drand/v2/internal/test"
	"github.com/drand/drand/v2/internal/util"
	pdkg "github.com/drand/drand/v2/protobuf/dkg"
	"github.com/drand/drand/v2/protobuf/drand"
	kdkg "github.com/drand/kyber/share/dkg"

	"github.com/drand/drand/v2/zzverif/emit"
	"github.com/drand/drand/v2/zzverif/engrouting"
)

const deadline = 3 * time.Second

const (
	clsAnswered = 0
	clsRejected = 1
	clsPanic    = 2
	clsTimeout  = 3
)

var clsName = []string{"answered", "rejected", "panic", "timeout"}

// call runs fn under the deadline, recovering a panic the way grpcrecovery would.
func call(fn func() error) int {
	ch := make(chan int, 1)
	go func() {
		defer func() {
			if r := recover(); r != nil {
				ch <- clsPanic
			}
		}()
		if err := fn(); err != nil {
			ch <- clsRejected
		} else {
			ch <- clsAnswered
		}
	}()
	select {
	case c := <-ch:
		return c
	case <-time.After(deadline):
		return clsTimeout
	}
}

type identifier struct{ pairs map[string]*key.Pair }

func (i *identifier) KeypairFor(id string) (*key.Pair, error) {
	if p, ok := i.pairs[id]; ok {
		return p, nil
	}
	return nil, fmt.Errorf("no beacon found for ID %s", id)
}

type env struct {
	rng     *rand.Rand
	rep     *emit.Report
	in      *engrouting.Interner
	dir     string
	dd      *core.DrandDaemon
	proc    *dkg.Process
	sch     *crypto.Scheme
	chains  map[string]*engrouting.Chain
	me      map[string]*pdkg.Participant
	leader  *pdkg.Participant
	t0      time.Time
	seed0   []byte
	cases   []string
	descr   []string
	wedged  map[int]bool // target -> a call did not return: stop using it
	dk      string
	ddIDs   []string
	procIDs []string
}

func (e *env) add(c, d string) { e.cases = append(e.cases, c); e.descr = append(e.descr, d) }

// by-construction facts about the DKG record of each id
type dkgFacts struct {
	status    uint32
	leaderSet bool
	fgSet     bool
	epoch     uint32
	genesis   time.Time
	seed      []byte
	timedOut  bool // hasTimedOut(record)
	meLeaving bool // this node is in the record's Leaving list
	meMember  bool // this node is in the record's Remaining or Joining list
}

func (e *env) facts(id string) dkgFacts {
	switch id {
	case "left":
		return dkgFacts{uint32(dkg.Left), true, false, 2, e.t0, e.seed0, false, true, false}
	case "leftnl":
		return dkgFacts{uint32(dkg.Left), false, false, 2, e.t0, e.seed0, false, true, false}
	case "prop":
		return dkgFacts{uint32(dkg.Proposed), true, false, 1, e.t0, nil, false, false, true}
	case "propnl": // a proposed record that names no leader and lists this node as leaving (synthetic)
		return dkgFacts{uint32(dkg.Proposed), false, false, 1, e.t0, nil, false, true, false}
	case "joinnl": // a joined record without leader, this node joining (synthetic)
		return dkgFacts{uint32(dkg.Joined), false, false, 1, e.t0, nil, false, false, true}
	case "exec":
		return dkgFacts{uint32(dkg.Executing), true, false, 1, e.t0, nil, false, false, true}
	case "default":
		// migrated from the group file: complete; Complete admits neither Left nor Executing nor
		// Aborted, so the membership / timeout bits do not matter
		c := e.chains["default"]
		return dkgFacts{uint32(dkg.Complete), true, true, 1, time.Unix(c.Group.GenesisTime, 0), c.Group.GetGenesisSeed(), true, false, true}
	}
	return dkgFacts{uint32(dkg.Fresh), false, false, 0, time.Unix(0, 0), nil, true, false, false}
}

func (e *env) dkgStates() map[string]*dkg.DBState {
	future := time.Now().Add(time.Hour)
	mk := func(id string, st dkg.Status, epoch uint32, leader *pdkg.Participant, seed []byte, joining, remaining, leaving []*pdkg.Participant) *dkg.DBState {
		return &dkg.DBState{BeaconID: id, Epoch: epoch, State: st, Threshold: 1, Timeout: future, SchemeID: e.sch.Name,
			GenesisTime: e.t0, GenesisSeed: seed, CatchupPeriod: time.Second, BeaconPeriod: 3 * time.Second,
			Leader: leader, Joining: joining, Remaining: remaining, Leaving: leaving}
	}
	return map[string]*dkg.DBState{
		"left":   mk("left", dkg.Left, 2, e.leader, e.seed0, nil, []*pdkg.Participant{e.leader}, []*pdkg.Participant{e.me["left"]}),
		"leftnl": mk("leftnl", dkg.Left, 2, nil, e.seed0, nil, []*pdkg.Participant{e.leader}, []*pdkg.Participant{e.me["leftnl"]}),
		"prop":   mk("prop", dkg.Proposed, 1, e.leader, nil, []*pdkg.Participant{e.leader, e.me["prop"]}, nil, nil),
		"propnl": mk("propnl", dkg.Proposed, 1, nil, nil, []*pdkg.Participant{e.leader}, nil, []*pdkg.Participant{e.me["propnl"]}),
		"joinnl": mk("joinnl", dkg.Joined, 1, nil, nil, []*pdkg.Participant{e.leader, e.me["joinnl"]}, nil, nil),
		"exec":   mk("exec", dkg.Executing, 1, e.leader, nil, []*pdkg.Participant{e.leader, e.me["exec"]}, nil, nil),
	}
}

var errSlowHost = errors.New("the running chain did not produce round 1 (started after its genesis)")

// setup builds the environment; the running chain's genesis is offset seconds away.
func setup(seed int64, rep *emit.Report, offset int64) (*env, error) {
	ctx := context.Background()
	e := &env{rng: rand.New(rand.NewSource(seed)), rep: rep, in: engrouting.NewInterner(), chains: map[string]*engrouting.Chain{},
		me: map[string]*pdkg.Participant{}, wedged: map[int]bool{}}
	var err error
	if e.dir, err = os.MkdirTemp("", "zzv-robust"); err != nil {
		return nil, err
	}
	if e.sch, err = crypto.GetSchemeByID(crypto.DefaultSchemeID); err != nil {
		return nil, err
	}
	e.t0 = time.Unix(time.Now().Unix()-1000, 0).UTC()
	e.seed0 = []byte("robust-genesis-seed")
	l := engrouting.DiscardLogger()
	cfg := core.NewConfig(l, core.WithConfigFolder(e.dir), core.WithPrivateListenAddress("127.0.0.1:0"),
		core.WithControlPort(test.FreePort()), core.WithDBStorageEngine(chain.BoltDB))
	// chains: "default" complete and running (period one hour, genesis in two seconds: round 1 is
	// produced then, round 2 is far away); the others have a key pair only
	ids := []string{"default", "alpha", "left", "leftnl", "prop", "propnl", "joinnl", "exec"}
	var dk []string
	pairs := map[string]*key.Pair{}
	for _, id := range ids {
		c, err := engrouting.MkChain(id, e.sch, time.Now().Unix()+offset)
		if err != nil {
			return nil, err
		}
		c.Group.Period = time.Hour
		c.Group.CatchupPeriod = 100 * time.Millisecond
		e.chains[id] = c
		pairs[id] = c.Pair
		if e.me[id], err = util.PublicKeyAsParticipant(c.Pair.Public); err != nil {
			return nil, err
		}
		if id == "exec" {
			continue // known to the stand-alone process only
		}
		st := key.NewFileStore(cfg.ConfigFolderMB(), id)
		if err := st.SaveKeyPair(c.Pair); err != nil {
			return nil, err
		}
		if id == "default" {
			if err := st.SaveGroup(c.Group); err != nil {
				return nil, err
			}
			if err := st.SaveShare(c.Share); err != nil {
				return nil, err
			}
			// the chain hash must be recomputed after changing the period
			c.Hash = groupHash(c.Group)
			dk = append(dk, fmt.Sprintf("(%s, Some %s)", e.in.Str(id), e.in.Bytes(c.Hash)))
		} else {
			dk = append(dk, fmt.Sprintf("(%s, None)", e.in.Str(id)))
		}
		e.ddIDs = append(e.ddIDs, id)
	}
	e.dk = emit.List(dk)
	lp, err := key.NewKeyPair("127.0.0.1:9", e.sch)
	if err != nil {
		return nil, err
	}
	if e.leader, err = util.PublicKeyAsParticipant(lp.Public); err != nil {
		return nil, err
	}
	// DKG records, written with the real store before the daemon opens it
	st1, err := dkg.NewDKGStore(e.dir)
	if err != nil {
		return nil, err
	}
	for id, s := range e.dkgStates() {
		if id == "exec" {
			continue
		}
		if err := st1.SaveCurrent(id, s); err != nil {
			return nil, err
		}
	}
	if err := st1.Close(); err != nil {
		return nil, err
	}
	if e.dd, err = core.NewDrandDaemon(ctx, cfg); err != nil {
		return nil, err
	}
	if err := e.dd.LoadBeaconsFromDisk(ctx, "", false, ""); err != nil {
		return nil, err
	}
	// the stand-alone dkg.Process, built the way NewDrandDaemon does, with its own store
	dir2 := e.dir + "/proc"
	st2, err := dkg.NewDKGStore(dir2)
	if err != nil {
		return nil, err
	}
	for id, s := range e.dkgStates() {
		if err := st2.SaveCurrent(id, s); err != nil {
			return nil, err
		}
	}
	client := dnet.NewGrpcClient(l)
	e.proc = dkg.NewDKGProcess(st2, &identifier{pairs}, util.NewFanOutChan[dkg.SharingOutput](), client, client,
		dkg.Config{TimeBetweenDKGPhases: time.Second, KickoffGracePeriod: time.Second}, l)
	for id := range pairs {
		e.procIDs = append(e.procIDs, id)
	}
	suite, ok := e.sch.KeyGroup.(kdkg.Suite)
	if !ok {
		return nil, errors.New("scheme key group is not a dkg suite")
	}
	kc := &kdkg.Config{Suite: suite, NewNodes: []kdkg.Node{{Index: 0, Public: lp.Public.Key}}, Auth: e.sch.AuthScheme, Threshold: 1}
	eb, err := dkg.VerifRobustNewEchoBroadcast(ctx, client, l, "exec", e.me["exec"].Address,
		[]*pdkg.Participant{e.leader, e.me["exec"]}, e.sch, kc)
	if err != nil {
		return nil, err
	}
	e.proc.Executions["exec"] = eb
	// wait for round 1 of the running chain
	for i := int64(0); i < (offset+8)*20; i++ {
		if r, err := e.dd.PublicRand(ctx, &drand.PublicRandRequest{Metadata: &drand.Metadata{BeaconID: "default"}}); err == nil && r.GetRound() >= 1 {
			return e, nil
		}
		time.Sleep(50 * time.Millisecond)
	}
	// on a loaded host the beacon may have started after its genesis: the caller retries with a later one
	sctx, cancel := context.WithTimeout(ctx, 5*time.Second)
	e.dd.Stop(sctx)
	cancel()
	os.RemoveAll(e.dir)
	return nil, errSlowHost
}

func groupHash(g *key.Group) []byte { return chain2.NewChainInfo(g).Hash() }

// ---------- gossip shapes ----------

type gshape struct {
	name   string
	coqVar string // Coq term of the variant
	wire   bool
	build  func(e *env, id string) *pdkg.GossipPacket // without metadata
}

func (e *env) terms(id string, mut func(*pdkg.ProposalTerms)) *pdkg.ProposalTerms {
	f := e.facts(id)
	t := &pdkg.ProposalTerms{BeaconID: id, Epoch: f.epoch + 1, Leader: e.leader, Threshold: 1,
		Timeout: timestamppb.New(time.Now().Add(time.Hour)), CatchupPeriodSeconds: 1, BeaconPeriodSeconds: 3,
		SchemeID: e.sch.Name, GenesisTime: timestamppb.New(f.genesis), GenesisSeed: f.seed,
		Remaining: []*pdkg.Participant{e.leader}}
	if t.Epoch < 2 {
		t.Epoch = 3
	}
	if mut != nil {
		mut(t)
	}
	return t
}

func (e *env) point() []byte {
	b, _ := e.sch.KeyGroup.Point().Base().MarshalBinary()
	return b
}
func (e *env) scalar() []byte {
	b, _ := e.sch.KeyGroup.Scalar().One().MarshalBinary()
	return b
}

type bshape struct {
	name string
	coq  string
	mk   func(e *env) *pdkg.Packet // bundle set, metadata not
}

func bundles() []bshape {
	return []bshape{
		{"none", "BNone", func(e *env) *pdkg.Packet { return &pdkg.Packet{} }},
		{"deal-nil-inner", "(BDeal true true false)", func(e *env) *pdkg.Packet { return &pdkg.Packet{Bundle: &pdkg.Packet_Deal{}} }},
		{"deal-bad-commit", "(BDeal false false false)", func(e *env) *pdkg.Packet {
			return &pdkg.Packet{Bundle: &pdkg.Packet_Deal{Deal: &pdkg.DealBundle{Commits: [][]byte{{1, 2, 3}}, Deals: []*pdkg.Deal{{ShareIndex: 1, EncryptedShare: []byte{9}}}}}}
		}},
		{"deal-nil-element", "(BDeal false true true)", func(e *env) *pdkg.Packet {
			return &pdkg.Packet{Bundle: &pdkg.Packet_Deal{Deal: &pdkg.DealBundle{Commits: [][]byte{e.point()}, Deals: []*pdkg.Deal{nil}}}}
		}},
		{"deal-garbage-sig", "(BDeal false true false)", func(e *env) *pdkg.Packet {
			return &pdkg.Packet{Bundle: &pdkg.Packet_Deal{Deal: &pdkg.DealBundle{DealerIndex: 0, Commits: [][]byte{e.point()},
				Deals: []*pdkg.Deal{{ShareIndex: 1, EncryptedShare: make([]byte, 5000)}}, SessionId: []byte{1}, Signature: []byte{1, 2, 3}}}}
		}},
		{"deal-empty", "(BDeal false true false)", func(e *env) *pdkg.Packet {
			return &pdkg.Packet{Bundle: &pdkg.Packet_Deal{Deal: &pdkg.DealBundle{DealerIndex: 77}}}
		}},
		{"resp-nil-inner", "(BResp true false)", func(e *env) *pdkg.Packet { return &pdkg.Packet{Bundle: &pdkg.Packet_Response{}} }},
		{"resp-nil-element", "(BResp false true)", func(e *env) *pdkg.Packet {
			return &pdkg.Packet{Bundle: &pdkg.Packet_Response{Response: &pdkg.ResponseBundle{Responses: []*pdkg.Response{nil}}}}
		}},
		{"resp-garbage-sig", "(BResp false false)", func(e *env) *pdkg.Packet {
			return &pdkg.Packet{Bundle: &pdkg.Packet_Response{Response: &pdkg.ResponseBundle{ShareIndex: 0, Responses: []*pdkg.Response{{DealerIndex: 1, Status: true}}, Signature: []byte{7}}}}
		}},
		{"just-nil-inner", "(BJust true false true)", func(e *env) *pdkg.Packet { return &pdkg.Packet{Bundle: &pdkg.Packet_Justification{}} }},
		{"just-nil-element", "(BJust false true true)", func(e *env) *pdkg.Packet {
			return &pdkg.Packet{Bundle: &pdkg.Packet_Justification{Justification: &pdkg.JustificationBundle{Justifications: []*pdkg.Justification{nil}}}}
		}},
		{"just-bad-share", "(BJust false false false)", func(e *env) *pdkg.Packet {
			return &pdkg.Packet{Bundle: &pdkg.Packet_Justification{Justification: &pdkg.JustificationBundle{Justifications: []*pdkg.Justification{{ShareIndex: 1, Share: []byte{1, 2}}}}}}
		}},
		{"just-garbage-sig", "(BJust false false true)", func(e *env) *pdkg.Packet {
			return &pdkg.Packet{Bundle: &pdkg.Packet_Justification{Justification: &pdkg.JustificationBundle{DealerIndex: 0, Justifications: []*pdkg.Justification{{ShareIndex: 1, Share: e.scalar()}}, Signature: []byte{1}}}}
		}},
	}
}

type dshape struct {
	name string
	coq  func(e *env) string
	mk   func(e *env) *pdkg.DKGPacket
}

// dkgShapes: every way a *DKGPacket can look; inner ids: the broadcast names innerID.
func dkgShapes(innerID string) []dshape {
	out := []dshape{
		{"outer-nil", func(*env) string { return "DOuterNil" }, func(*env) *pdkg.DKGPacket { return nil }},
		{"inner-nil", func(*env) string { return "DInnerNil" }, func(*env) *pdkg.DKGPacket { return &pdkg.DKGPacket{} }},
	}
	for _, b := range bundles() {
		b := b
		out = append(out, dshape{"meta-nil/" + b.name, func(*env) string { return "(DMetaNil " + b.coq + ")" },
			func(e *env) *pdkg.DKGPacket { return &pdkg.DKGPacket{Dkg: b.mk(e)} }})
		out = append(out, dshape{"full/" + b.name, func(e *env) string { return "(DFull " + e.in.Str(innerID) + " " + b.coq + ")" },
			func(e *env) *pdkg.DKGPacket {
				p := b.mk(e)
				p.Metadata = &drand.Metadata{BeaconID: innerID}
				return &pdkg.DKGPacket{Dkg: p}
			}})
	}
	return out
}

func gossipShapes(innerID string) []gshape {
	gs := []gshape{
		{"none", "VNone", true, func(e *env, id string) *pdkg.GossipPacket { return &pdkg.GossipPacket{} }},
		{"proposal-nil-terms", "(VProposal TNil)", false, func(e *env, id string) *pdkg.GossipPacket {
			return &pdkg.GossipPacket{Packet: &pdkg.GossipPacket_Proposal{}}
		}},
		{"proposal-nil-leader", "(VProposal TNilLeader)", true, func(e *env, id string) *pdkg.GossipPacket {
			return &pdkg.GossipPacket{Packet: &pdkg.GossipPacket_Proposal{Proposal: e.terms(id, func(t *pdkg.ProposalTerms) { t.Leader = nil })}}
		}},
		{"proposal-empty", "(VProposal TNilLeader)", true, func(e *env, id string) *pdkg.GossipPacket {
			return &pdkg.GossipPacket{Packet: &pdkg.GossipPacket_Proposal{Proposal: &pdkg.ProposalTerms{}}}
		}},
		{"proposal-sender-mismatch", "(VProposal TSenderMismatch)", true, func(e *env, id string) *pdkg.GossipPacket {
			return &pdkg.GossipPacket{Packet: &pdkg.GossipPacket_Proposal{Proposal: e.terms(id, func(t *pdkg.ProposalTerms) {
				t.Leader = &pdkg.Participant{Address: "somebody-else:1", Key: t.Leader.Key, Signature: t.Leader.Signature}
			})}}
		}},
		{"proposal-bad-scheme", "(VProposal TInvalidEarly)", true, func(e *env, id string) *pdkg.GossipPacket {
			return &pdkg.GossipPacket{Packet: &pdkg.GossipPacket_Proposal{Proposal: e.terms(id, func(t *pdkg.ProposalTerms) { t.SchemeID = "no-such-scheme" })}}
		}},
		{"proposal-huge-lists", "(VProposal TInvalidEarly)", true, func(e *env, id string) *pdkg.GossipPacket {
			return &pdkg.GossipPacket{Packet: &pdkg.GossipPacket_Proposal{Proposal: e.terms(id, func(t *pdkg.ProposalTerms) {
				for i := 0; i < 2000; i++ {
					t.Joining = append(t.Joining, &pdkg.Participant{Address: fmt.Sprintf("j%d:1", i), Key: make([]byte, 48), Signature: make([]byte, 96)})
				}
			})}}
		}},
		{"proposal-reaches-final-group", "(VProposal TReachesFinalGroup)", true, func(e *env, id string) *pdkg.GossipPacket {
			return &pdkg.GossipPacket{Packet: &pdkg.GossipPacket_Proposal{Proposal: e.terms(id, nil)}}
		}},
		{"accept-nil-inner", "(VAccept true)", false, func(e *env, id string) *pdkg.GossipPacket {
			return &pdkg.GossipPacket{Packet: &pdkg.GossipPacket_Accept{}}
		}},
		{"accept-nil-acceptor", "(VAccept false)", true, func(e *env, id string) *pdkg.GossipPacket {
			return &pdkg.GossipPacket{Packet: &pdkg.GossipPacket_Accept{Accept: &pdkg.AcceptProposal{}}}
		}},
		{"accept-leader", "(VAccept false)", true, func(e *env, id string) *pdkg.GossipPacket {
			return &pdkg.GossipPacket{Packet: &pdkg.GossipPacket_Accept{Accept: &pdkg.AcceptProposal{Acceptor: e.leader}}}
		}},
		{"reject-nil-inner", "(VReject true)", false, func(e *env, id string) *pdkg.GossipPacket {
			return &pdkg.GossipPacket{Packet: &pdkg.GossipPacket_Reject{}}
		}},
		{"reject-nil-rejector", "(VReject false)", true, func(e *env, id string) *pdkg.GossipPacket {
			return &pdkg.GossipPacket{Packet: &pdkg.GossipPacket_Reject{Reject: &pdkg.RejectProposal{}}}
		}},
		{"abort-nil-inner", "VAbort", true, func(e *env, id string) *pdkg.GossipPacket {
			return &pdkg.GossipPacket{Packet: &pdkg.GossipPacket_Abort{}}
		}},
		{"abort", "VAbort", true, func(e *env, id string) *pdkg.GossipPacket {
			return &pdkg.GossipPacket{Packet: &pdkg.GossipPacket_Abort{Abort: &pdkg.AbortDKG{Reason: strings.Repeat("x", 100000)}}}
		}},
		{"execute-nil-inner", "VExecute", true, func(e *env, id string) *pdkg.GossipPacket {
			return &pdkg.GossipPacket{Packet: &pdkg.GossipPacket_Execute{}}
		}},
		{"execute", "VExecute", true, func(e *env, id string) *pdkg.GossipPacket {
			return &pdkg.GossipPacket{Packet: &pdkg.GossipPacket_Execute{Execute: &pdkg.StartExecution{Time: timestamppb.Now()}}}
		}},
	}
	for _, d := range dkgShapes(innerID) {
		d := d
		wire := d.name != "outer-nil" && !strings.Contains(d.name, "nil-inner") && !strings.Contains(d.name, "nil-element")
		if d.name == "inner-nil" {
			wire = true
		}
		gs = append(gs, gshape{"dkg/" + d.name, "", wire, func(e *env, id string) *pdkg.GossipPacket {
			return &pdkg.GossipPacket{Packet: &pdkg.GossipPacket_Dkg{Dkg: d.mk(e)}}
		}})
		gs[len(gs)-1].coqVar = "@" + d.name // resolved at use (needs the interner)
	}
	return gs
}

// ---------- probes ----------

func (e *env) probeProcess(after string) bool {
	ctx := context.Background()
	ok := true
	if c := call(func() error { _, err := e.proc.Packet(ctx, &pdkg.GossipPacket{}); return err }); c != clsRejected {
		e.rep.Fail("C14-probe-unanswered", "dkg.Process.Packet probe: "+clsName[c], after)
		ok = false
	}
	if c := call(func() error {
		_, err := e.proc.Command(ctx, &pdkg.DKGCommand{Metadata: &pdkg.CommandMetadata{BeaconID: "ghost"}})
		return err
	}); c != clsRejected {
		e.rep.Fail("C14-probe-unanswered", "dkg.Process.Command probe: "+clsName[c], after)
		ok = false
	}
	if c := call(func() error { _, err := e.proc.DKGStatus(ctx, &pdkg.DKGStatusRequest{BeaconID: "alpha"}); return err }); c != clsAnswered {
		e.rep.Fail("C14-probe-unanswered", "dkg.Process.DKGStatus probe: "+clsName[c], after)
		ok = false
	}
	if !e.proc.VerifRobustTryLock() {
		e.rep.Fail("C14-lock-left-held", "dkg.Process lock is held after the call returned", after)
		ok = false
	}
	return ok
}

func (e *env) probeDaemon(after string) bool {
	ctx := context.Background()
	ok := true
	// same endpoint family: a gossip packet that reaches Process.Packet (takes the DKG lock) and is rejected
	if c := call(func() error {
		_, err := e.dd.Packet(ctx, &pdkg.GossipPacket{Metadata: &pdkg.GossipMetadata{BeaconID: "alpha", Address: "p:1", Signature: []byte{1}}})
		return err
	}); c != clsRejected {
		e.rep.Fail("C14-probe-unanswered", "DrandDaemon.Packet probe: "+clsName[c], after)
		ok = false
	}
	if c := call(func() error {
		_, err := e.dd.Command(ctx, &pdkg.DKGCommand{Metadata: &pdkg.CommandMetadata{BeaconID: "alpha"}})
		return err
	}); c != clsRejected {
		e.rep.Fail("C14-probe-unanswered", "DrandDaemon.Command probe: "+clsName[c], after)
		ok = false
	}
	// other endpoints: valid requests must be answered
	if c := call(func() error {
		_, err := e.dd.ChainInfo(ctx, &drand.ChainInfoRequest{Metadata: &drand.Metadata{BeaconID: "default"}})
		return err
	}); c != clsAnswered {
		e.rep.Fail("C14-probe-unanswered", "DrandDaemon.ChainInfo probe: "+clsName[c], after)
		ok = false
	}
	if c := call(func() error {
		_, err := e.dd.PublicRand(ctx, &drand.PublicRandRequest{Metadata: &drand.Metadata{ChainHash: e.chains["default"].Hash}})
		return err
	}); c != clsAnswered {
		e.rep.Fail("C14-probe-unanswered", "DrandDaemon.PublicRand probe: "+clsName[c], after)
		ok = false
	}
	if !e.dd.VerifRobustStateTryRLock() {
		e.rep.Fail("C14-lock-left-held", "DrandDaemon state lock is held after the call returned", after)
		ok = false
	}
	return ok
}

// dkgStatusOf reads (state, epoch) of the current DKG record through the real status endpoint.
func (e *env) dkgStatusOf(target int, id string) (uint32, uint32, bool, bool) {
	ctx := context.Background()
	var r *pdkg.DKGStatusResponse
	var err error
	if target == 0 {
		r, err = e.dd.DKGStatus(ctx, &pdkg.DKGStatusRequest{BeaconID: id})
	} else {
		r, err = e.proc.DKGStatus(ctx, &pdkg.DKGStatusRequest{BeaconID: id})
	}
	if err != nil || r.GetCurrent() == nil {
		return 0, 0, false, false
	}
	return r.Current.State, r.Current.Epoch, r.Current.Leader != nil, true
}

func coqBool(b bool) string { return emit.Bool(b) }

// ---------- the DKG endpoints ----------

func (e *env) runDKG(tier string) {
	ctx := context.Background()
	targets := []int{0, 1}
	idsFor := map[int][]string{0: {"alpha", "left", "leftnl", "prop", "propnl", "joinnl", "default", "ghost"}, 1: {"alpha", "left", "leftnl", "prop", "propnl", "joinnl", "exec", "ghost"}}
	execIDs := map[int][]string{0: {}, 1: {"exec"}}
	type job struct {
		target int
		id     string
		g      gshape
		meta   string // ok | nil | short
		inner  string
	}
	var jobs []job
	for _, t := range targets {
		for _, id := range idsFor[t] {
			inner := id
			if t == 1 && e.rng.Intn(2) == 0 {
				inner = "exec"
			}
			for _, g := range gossipShapes(inner) {
				jobs = append(jobs, job{t, id, g, "ok", inner})
			}
			// metadata variants on a few shapes
			gs := gossipShapes(inner)
			jobs = append(jobs, job{t, id, gs[0], "nil", inner}, job{t, id, gs[2], "nil", inner}, job{t, id, gs[2], "short", inner},
				job{t, id, gs[len(gs)-1], "short", inner})
		}
	}
	// the F2 regression witness first (corpus), then a seeded shuffle so that sequences vary
	e.rng.Shuffle(len(jobs), func(i, j int) { jobs[i], jobs[j] = jobs[j], jobs[i] })
	front := func(pos int, pred func(job) bool) {
		for i, j := range jobs {
			if i >= pos && pred(j) {
				jobs[pos], jobs[i] = jobs[i], jobs[pos]
				return
			}
		}
	}
	// corpus: a plain packet first (any wedge here is not about the Dkg variant), then the F2 witness
	front(0, func(j job) bool { return j.target == 0 && j.id == "alpha" && j.g.name == "accept-leader" && j.meta == "ok" })
	front(1, func(j job) bool { return j.target == 0 && j.id == "alpha" && strings.HasPrefix(j.g.name, "dkg/full/") && j.meta == "ok" })
	front(2, func(j job) bool { return j.target == 1 && j.id == "alpha" && j.g.name == "accept-leader" && j.meta == "ok" })
	front(3, func(j job) bool {
		return j.target == 1 && j.id == "exec" && strings.HasPrefix(j.g.name, "dkg/full/deal-garbage") && j.meta == "ok"
	})
	if tier != "thorough" && len(jobs) > 420 {
		jobs = jobs[:420]
	}
	for _, j := range jobs {
		if e.wedged[j.target] {
			continue
		}
		p := j.g.build(e, j.id)
		sigLen := 0
		var coqMeta string
		switch j.meta {
		case "nil":
			coqMeta = "None"
		case "short":
			sigLen = 3
		default:
			sigLen = 8 + e.rng.Intn(90)
		}
		if j.meta != "nil" {
			sig := make([]byte, sigLen)
			e.rng.Read(sig)
			p.Metadata = &pdkg.GossipMetadata{BeaconID: j.id, Address: e.leader.Address, Signature: sig}
			coqMeta = fmt.Sprintf("(Some (mkGM %s %d))", e.in.Str(j.id), sigLen)
		}
		coqVar := j.g.coqVar
		if strings.HasPrefix(coqVar, "@") {
			for _, d := range dkgShapes(j.inner) {
				if "@"+d.name == coqVar {
					coqVar = "(VDkg " + d.coq(e) + ")"
				}
			}
		}
		f := e.facts(j.id)
		exists := j.id != "ghost"
		st0, ep0, ld0, have0 := e.dkgStatusOf(j.target, j.id)
		if exists && have0 && (st0 != f.status || ld0 != f.leaderSet) {
			e.rep.Fail("C14-engine-state", fmt.Sprintf("DKG record of %s is (state %d, leader %v), expected (%d, %v)", j.id, st0, ld0, f.status, f.leaderSet), j.id)
		}
		name := fmt.Sprintf("%s id=%s meta=%s %s", []string{"DrandDaemon.Packet", "dkg.Process.Packet"}[j.target], j.id, j.meta, j.g.name)
		cls := call(func() error {
			var err error
			if j.target == 0 {
				_, err = e.dd.Packet(ctx, p)
			} else {
				_, err = e.proc.Packet(ctx, p)
			}
			return err
		})
		e.rep.Evaluations++
		e.rep.DistinctNontrivial++
		e.rep.Count("packet/" + clsName[cls])
		if cls == clsPanic {
			e.rep.Count("packet/panic-contained/" + j.g.name)
		}
		e.add(fmt.Sprintf("KPacket %d (mkG false %s false %s false) %s %d %s %s %s %s %s %s %d", j.target, coqMeta, coqVar,
			coqBool(exists), f.status, coqBool(f.leaderSet), coqBool(f.fgSet), coqBool(f.timedOut), coqBool(f.meLeaving), coqBool(f.meMember),
			idList(e.in, execIDs[j.target]), cls), name+" -> "+clsName[cls])
		// regression witnesses of repaired panics (fix 1b94cdfe, fix 4d77f863): refusals now
		if cls == clsPanic && (j.g.name == "proposal-nil-leader" || j.g.name == "proposal-empty" || j.g.name == "proposal-reaches-final-group") {
			e.rep.Fail("C14-repaired-panic-is-back", "a proposal shape that is refused since the fix panics again", name)
		}
		e.rep.Sample(name+" -> "+clsName[cls], 6)
		// M
		if cls == clsTimeout {
			class := "C14-packet-wedges"
			if strings.HasPrefix(j.g.name, "dkg/") {
				class = "C14-packet-dkg-variant-wedges"
			}
			e.rep.Fail(class, "the call did not return within the deadline", name)
			e.wedged[j.target] = true
		}
		if cls == clsPanic && j.g.wire && j.meta == "ok" {
			// contained (the frame is under the recovery interceptor in production); counted, not a failure
			e.rep.Count("packet/wire-reachable-contained-panic")
		}
		var ok bool
		if j.target == 0 {
			ok = e.probeDaemon(name)
		} else {
			ok = e.probeProcess(name)
		}
		if !ok {
			if cls != clsTimeout {
				class := "C14-packet-wedges"
				if strings.HasPrefix(j.g.name, "dkg/") {
					class = "C14-packet-dkg-variant-wedges"
				}
				e.rep.Fail(class, "after the gossip packet the probes are not answered", name)
			}
			e.wedged[j.target] = true
			continue
		}
		if st1, ep1, _, have1 := e.dkgStatusOf(j.target, j.id); cls != clsAnswered && have0 && have1 && (st1 != st0 || ep1 != ep0) {
			e.rep.Fail("C14-state-changed-on-reject", fmt.Sprintf("DKG record of %s changed (%d,%d) -> (%d,%d) although the packet was %s", j.id, st0, ep0, st1, ep1, clsName[cls]), name)
		}
	}
	// BroadcastDKG directly
	for _, t := range targets {
		for _, inner := range []string{"alpha", "exec", "ghost", "default"} {
			for _, d := range dkgShapes(inner) {
				if e.wedged[t] {
					continue
				}
				p := d.mk(e)
				name := fmt.Sprintf("%s inner=%s %s", []string{"DrandDaemon.BroadcastDKG", "dkg.Process.BroadcastDKG"}[t], inner, d.name)
				cls := call(func() error {
					var err error
					if t == 0 {
						_, err = e.dd.BroadcastDKG(ctx, p)
					} else {
						_, err = e.proc.BroadcastDKG(ctx, p)
					}
					return err
				})
				e.rep.Evaluations++
				e.rep.DistinctNontrivial++
				e.rep.Count("broadcast/" + clsName[cls])
				e.add(fmt.Sprintf("KBcast %d %s %s %s false %d", t, d.coq(e), idList(e.in, e.ddIDs), idList(e.in, execIDs[t]), cls), name+" -> "+clsName[cls])
				if cls == clsTimeout {
					e.rep.Fail("C14-call-timeout", "the call did not return within the deadline", name)
					e.wedged[t] = true
				}
				if cls == clsPanic && t == 0 {
					e.rep.Fail("C14-daemon-broadcast-panics", "DrandDaemon.BroadcastDKG panicked", name)
				}
				if t == 0 {
					e.probeDaemon(name)
				} else {
					e.probeProcess(name)
				}
			}
		}
	}
}

func idList(in *engrouting.Interner, ids []string) string {
	var s []string
	for _, id := range ids {
		s = append(s, in.Str(id))
	}
	return emit.List(s)
}

// ---------- partial beacons ----------

func (e *env) runPartials() {
	ctx := context.Background()
	c := e.chains["default"]
	sigLen := c.Sch.SigGroup.PointLen() + 2
	last := uint64(0)
	if r, err := e.dd.PublicRand(ctx, &drand.PublicRandRequest{Metadata: &drand.Metadata{BeaconID: "default"}}); err == nil {
		last = r.GetRound()
	}
	next := last + 1 // period one hour: the next round is the one after the last stored
	mk := func(idx uint16, n int) []byte {
		b := make([]byte, n)
		e.rng.Read(b)
		if n >= 2 {
			b[0], b[1] = byte(idx>>8), byte(idx)
		}
		return b
	}
	type pc struct {
		round uint64
		sig   []byte
		idx   int // -1: unknown
		meta  *drand.Metadata
		tag   string
	}
	var cs []pc
	def := &drand.Metadata{BeaconID: "default"}
	for _, r := range []uint64{0, last, next, next + 1, next + 1000, ^uint64(0)} {
		for _, n := range []int{0, 1, 2, sigLen - 1, sigLen, sigLen + 1, 4 * sigLen, 70000} {
			for _, idx := range []uint16{0, 1, 65535} {
				cs = append(cs, pc{r, mk(idx, n), int(idx), def, "len"})
			}
		}
	}
	cs = append(cs, pc{next, nil, -1, def, "nil-sig"}, pc{next, mk(0, sigLen), 0, &drand.Metadata{BeaconID: "alpha"}, "fresh-chain"},
		pc{next, mk(0, sigLen), 0, nil, "nil-metadata"})
	for _, x := range cs {
		req := &drand.PartialBeaconPacket{Round: x.round, PartialSig: x.sig, PreviousSignature: []byte{1, 2, 3}, Metadata: x.meta}
		name := fmt.Sprintf("PartialBeacon round=%d siglen=%d idx=%d %s", x.round, len(x.sig), x.idx, x.tag)
		cls := call(func() error { _, err := e.dd.PartialBeacon(ctx, req); return err })
		e.rep.Evaluations++
		e.rep.DistinctNontrivial++
		e.rep.Count("partial/" + clsName[cls])
		started := x.meta.GetBeaconID() != "alpha"
		inGroup := x.idx == 0 && len(x.sig) >= 2
		e.add(fmt.Sprintf("KPartial (mkP %s %d %s %s %s false) (mkB %s %d %d %d) %d", emit.U(x.round), len(x.sig), coqBool(inGroup),
			coqBool(inGroup), coqBool(inGroup), coqBool(started), next, last, sigLen, cls), name+" -> "+clsName[cls])
		if cls == clsPanic || cls == clsTimeout {
			e.rep.Fail("C14-partial-"+clsName[cls], "PartialBeacon did not answer or reject", name)
		}
		if !e.probeDaemon(name) {
			return
		}
	}
}

// ---------- routed endpoints with every kind of metadata ----------

type syncStream struct {
	ctx    context.Context
	cancel context.CancelFunc
	sent   int
}

func (s *syncStream) Send(*drand.BeaconPacket) error { s.sent++; s.cancel(); return nil }
func (s *syncStream) SetHeader(metadata.MD) error    { return nil }
func (s *syncStream) SendHeader(metadata.MD) error   { return nil }
func (s *syncStream) SetTrailer(metadata.MD)         {}
func (s *syncStream) Context() context.Context       { return s.ctx }
func (s *syncStream) SendMsg(interface{}) error      { return nil }
func (s *syncStream) RecvMsg(interface{}) error      { return nil }

func (e *env) runRouted() {
	ctx := context.Background()
	h := e.chains["default"].Hash
	unknown := make([]byte, 32)
	e.rng.Read(unknown)
	metas := []*drand.Metadata{nil, {}, {BeaconID: "default"}, {BeaconID: "alpha"}, {BeaconID: "ghost"}, {ChainHash: h},
		{ChainHash: unknown}, {ChainHash: []byte{1, 2, 3, 4, 5}}, {BeaconID: "alpha", ChainHash: h}, {BeaconID: "default", ChainHash: h},
		{BeaconID: strings.Repeat("z", 1500)}, {ChainHash: make([]byte, 1500)}, {BeaconID: "alpha", ChainHash: unknown}}
	all := []string{"default", "alpha", "left", "leftnl", "prop", "propnl", "joinnl"}
	type ep struct {
		name   string
		serves []string
		fn     func(m *drand.Metadata) error
	}
	eps := []ep{
		{"ChainInfo", []string{"default"}, func(m *drand.Metadata) error { _, err := e.dd.ChainInfo(ctx, &drand.ChainInfoRequest{Metadata: m}); return err }},
		{"GetIdentity", all, func(m *drand.Metadata) error { _, err := e.dd.GetIdentity(ctx, &drand.IdentityRequest{Metadata: m}); return err }},
		{"PublicRand", []string{"default"}, func(m *drand.Metadata) error { _, err := e.dd.PublicRand(ctx, &drand.PublicRandRequest{Metadata: m}); return err }},
		{"Status", all, func(m *drand.Metadata) error { _, err := e.dd.Status(ctx, &drand.StatusRequest{Metadata: m}); return err }},
		{"SyncChain", []string{"default"}, func(m *drand.Metadata) error {
			sctx, cancel := context.WithTimeout(ctx, 15*time.Second) // cancelled by the first Send; generous for a loaded host
			defer cancel()
			st := &syncStream{ctx: sctx, cancel: cancel}
			err := e.dd.SyncChain(&drand.SyncRequest{FromRound: 1, Metadata: m}, st)
			if st.sent > 0 {
				return nil
			}
			if err == nil {
				return errors.New("nothing sent")
			}
			return err
		}},
	}
	for _, x := range eps {
		for _, m := range metas {
			var mc *drand.Metadata
			coqM := "None"
			if m != nil {
				mc = proto.Clone(m).(*drand.Metadata)
				coqM = fmt.Sprintf("(Some (mkM %s %s))", e.in.Str(m.BeaconID), e.in.Bytes(m.ChainHash))
			}
			name := fmt.Sprintf("%s metadata=%s", x.name, short(m))
			cls := call(func() error { return x.fn(mc) })
			e.rep.Evaluations++
			if m != nil {
				e.rep.DistinctNontrivial++
			}
			e.rep.Count("routed/" + clsName[cls])
			e.add(fmt.Sprintf("KRouted %s [EStartup] %s %s %d", e.dk, coqM, idList(e.in, x.serves), cls), name+" -> "+clsName[cls])
			if cls == clsPanic || cls == clsTimeout {
				e.rep.Fail("C14-routed-"+clsName[cls], x.name+" did not answer or reject", name)
			}
			if !e.probeDaemon(name) {
				return
			}
		}
	}
}

func short(m *drand.Metadata) string {
	if m == nil {
		return "nil"
	}
	id, h := m.BeaconID, hex.EncodeToString(m.ChainHash)
	if len(id) > 12 {
		id = fmt.Sprintf("%s..(%d)", id[:6], len(id))
	}
	if len(h) > 12 {
		h = fmt.Sprintf("%s..(%d)", h[:6], len(m.ChainHash))
	}
	return fmt.Sprintf("{id=%q hash=%s}", id, h)
}

// ---------- HTTP parameter parsing ----------

func (e *env) runHTTP() {
	handler := e.dd.VerifRoutingHTTPHandler().GetHTTPHandler()
	hx := hex.EncodeToString(e.chains["default"].Hash)
	unknown := make([]byte, 32)
	e.rng.Read(unknown)
	table := fmt.Sprintf("[(%s, %s); (default_str, %s)]", e.in.Str(hx), e.in.Str("default"), e.in.Str("default"))
	segs := []string{"", hx, strings.ToUpper(hx), hex.EncodeToString(unknown), "zz", "abc", "default", strings.Repeat("ab", 700)}
	rounds := []string{"0", "1", "2", "00001", "18446744073709551615", "18446744073709551616", "99999999999999999999999", "-1", "+1", "abc", "1e3", "1.0", "0x10", "1_000", "%20", "٣"}
	for _, s := range segs {
		for _, r := range rounds {
			path, coqSeg := "/public/"+r, "None"
			if s != "" {
				path, coqSeg = "/"+s+"/public/"+r, "(Some "+e.in.Str(s)+")"
			}
			var code int
			var cc string
			cls := call(func() error {
				rec := httptest.NewRecorder()
				req, err := http.NewRequest(http.MethodGet, path, nil)
				if err != nil {
					code = -1
					return nil
				}
				rctx, cancel := context.WithTimeout(context.Background(), 2*time.Second)
				defer cancel()
				handler.ServeHTTP(rec, req.WithContext(rctx))
				_, _ = io.ReadAll(rec.Result().Body)
				code, cc = rec.Code, rec.Header().Get("Cache-Control")
				return nil
			})
			if code == -1 {
				continue // not a valid URL: cannot be sent
			}
			e.rep.Evaluations++
			e.rep.DistinctNontrivial++
			name := fmt.Sprintf("GET %s", trunc(path))
			if cls != clsAnswered {
				e.rep.Fail("C14-http-"+clsName[cls], "the HTTP handler panicked or did not return", name)
				continue
			}
			obs := 2
			switch {
			case code == http.StatusBadRequest:
				obs = 0
			case code == http.StatusNotFound && cc == "":
				obs = 1
			}
			e.rep.Count(fmt.Sprintf("http/%d", code))
			// the round as chi hands it to the handler: percent-decoded path segment
			rr := r
			if r == "%20" {
				rr = " "
			}
			e.add(fmt.Sprintf("KHttp %s %s %s %d", table, coqSeg, e.in.Str(rr), obs), name+fmt.Sprintf(" -> %d", code))
		}
	}
	e.probeDaemon("http sweep")
}

func trunc(s string) string {
	if len(s) > 80 {
		return s[:40] + "..." + s[len(s)-30:]
	}
	return s
}

// ---------- loopback gRPC: the panics really are contained by the interceptor ----------

func (e *env) runLoopback() {
	addr := e.dd.VerifRobustPrivateAddr()
	client := dnet.NewGrpcClient(engrouting.DiscardLogger())
	peer := dnet.CreatePeer(addr)
	ctx, cancel := context.WithTimeout(context.Background(), 10*time.Second)
	defer cancel()
	send := func(name string, p *pdkg.GossipPacket, expectErr bool, panicExpected bool) {
		var code codes.Code
		cls := call(func() error { _, err := client.Packet(ctx, peer, p); code = status.Code(err); return err })
		// grpcrecovery reports a recovered panic as codes.Internal; a refusal by the handler is codes.Unknown
		if code == codes.Internal {
			e.rep.Count("grpc/panic-contained")
			if !panicExpected {
				e.rep.Fail("C14-repaired-panic-is-back", "the handler panicked (contained) on a request that is refused since the fix", name)
			}
		}
		e.rep.Evaluations++
		e.rep.Count("grpc/" + clsName[cls])
		if cls == clsTimeout || cls == clsPanic {
			e.rep.Fail("C14-grpc-"+clsName[cls], "gRPC call did not complete", name)
		}
		if expectErr && cls == clsAnswered {
			e.rep.Fail("C14-grpc-unexpected-answer", "malformed packet was answered over gRPC", name)
		}
		// the process must have survived and still serve over the same listener
		if c := call(func() error {
			_, err := client.ChainInfo(ctx, peer, &drand.ChainInfoRequest{Metadata: &drand.Metadata{BeaconID: "default"}})
			return err
		}); c != clsAnswered {
			e.rep.Fail("C14-uncontained-panic", "after the request the node no longer answers ChainInfo over gRPC", name)
		}
		e.probeDaemon("grpc " + name)
	}
	sig := []byte{1, 2, 3, 4, 5, 6, 7, 8}
	md := func(id string) *pdkg.GossipMetadata {
		e.rng.Read(sig)
		return &pdkg.GossipMetadata{BeaconID: id, Address: e.leader.Address, Signature: append([]byte{}, sig...)}
	}
	send("F2 witness: gossip packet carrying the Dkg variant", &pdkg.GossipPacket{Metadata: md("alpha"),
		Packet: &pdkg.GossipPacket_Dkg{Dkg: &pdkg.DKGPacket{Dkg: &pdkg.Packet{Metadata: &drand.Metadata{BeaconID: "alpha"}}}}}, true, false)
	send("proposal without leader on a fresh node (repaired)", &pdkg.GossipPacket{Metadata: md("alpha"),
		Packet: &pdkg.GossipPacket_Proposal{Proposal: &pdkg.ProposalTerms{BeaconID: "alpha"}}}, true, false)
	send("Dkg variant without inner packet", &pdkg.GossipPacket{Metadata: md("alpha"), Packet: &pdkg.GossipPacket_Dkg{Dkg: &pdkg.DKGPacket{}}}, true, true)
	send("F13b (repaired): reshare proposal on a Left state", &pdkg.GossipPacket{Metadata: md("left"),
		Packet: &pdkg.GossipPacket_Proposal{Proposal: e.terms("left", nil)}}, true, false)
	send("abort on a state without leader", &pdkg.GossipPacket{Metadata: md("leftnl"), Packet: &pdkg.GossipPacket_Abort{Abort: &pdkg.AbortDKG{}}}, true, true)
	send("execute signal on a proposed state without leader", &pdkg.GossipPacket{Metadata: md("propnl"),
		Packet: &pdkg.GossipPacket_Execute{Execute: &pdkg.StartExecution{Time: timestamppb.Now()}}}, true, true)
}

// runLockLeft: sync requests to processes that have no beacon handler yet (fresh, mid-DKG) are
// rejected; a rejected request must not leave the process's state lock held: afterwards a writer of
// that lock (StopBeacon, what the end of a DKG / a shutdown does) must get through, and so must the
// readers behind it.
func (e *env) runLockLeft() {
	ctx := context.Background()
	for _, id := range []string{"alpha", "prop"} {
		bp, err := e.dd.VerifRoutingProcessByID(id)
		if err != nil {
			continue
		}
		for i := 0; i < 3; i++ {
			sctx, cancel := context.WithTimeout(ctx, 2*time.Second)
			st := &syncStream{ctx: sctx, cancel: cancel}
			cls := call(func() error { return e.dd.SyncChain(&drand.SyncRequest{FromRound: uint64(i), Metadata: &drand.Metadata{BeaconID: id}}, st) })
			cancel()
			e.rep.Evaluations++
			e.rep.Count("lockleft/sync-" + clsName[cls])
		}
		name := "SyncChain x3 to " + id + " (no beacon handler yet), then StopBeacon"
		if cls := call(func() error { bp.StopBeacon(ctx); return nil }); cls != clsAnswered {
			e.rep.Fail("C14-lock-left-held-by-rejected-request", "after rejected sync requests a writer of the process's state lock ("+clsName[cls]+": StopBeacon) does not get through", name)
			// the readers queued behind the pending writer
			if c := call(func() error {
				_, err := e.dd.ChainInfo(ctx, &drand.ChainInfoRequest{Metadata: &drand.Metadata{BeaconID: id}})
				return err
			}); c == clsTimeout {
				e.rep.Fail("C14-probe-unanswered", "ChainInfo for "+id+" no longer returns", name)
			}
			e.wedged[0] = true // dd.Stop would wait for this process
			return
		}
		e.rep.Count("lockleft/writer-through")
		if c := call(func() error {
			_, err := e.dd.ChainInfo(ctx, &drand.ChainInfoRequest{Metadata: &drand.Metadata{BeaconID: id}})
			return err
		}); c == clsTimeout || c == clsPanic {
			e.rep.Fail("C14-probe-unanswered", "ChainInfo for "+id+": "+clsName[c], name)
		}
	}
	e.probeDaemon("lock-left scenario")
}

// Run is the engine entry point.
func Run(outDir string, seed int64, tier string) error {
	if devnull, err := os.OpenFile(os.DevNull, os.O_WRONLY, 0); err == nil {
		os.Stdout = devnull
	}
	if os.Getenv(childEnv) == "pending" {
		runPendingChild(tier) // exits
	}
	rep := emit.NewReport("robust", seed, tier)
	var e *env
	var err error
	for _, offset := range []int64{2, 8, 20} {
		if e, err = setup(seed, rep, offset); !errors.Is(err, errSlowHost) {
			break
		}
	}
	if err != nil {
		return err
	}
	defer os.RemoveAll(e.dir)
	e.runDKG(tier)
	if !e.wedged[0] {
		e.runPartials()
		e.runRouted()
		e.runHTTP()
		e.runLoopback()
		e.runLockLeft()
	}
	sctx, cancel := context.WithTimeout(context.Background(), 5*time.Second)
	if !e.wedged[0] {
		e.dd.Stop(sctx)
	}
	cancel()
	runPendingParent(rep, seed, tier)
	rep.Rule = "every oneof variant of GossipPacket / DKGPacket bundles with nil, empty, short and oversize fields x DKG record states {fresh, proposed, executing, left, left / proposed / joined without leader, complete, unknown id} on DrandDaemon.Packet and dkg.Process.Packet (seeded order, probes after every call), BroadcastDKG shapes, partial beacons (rounds x lengths x indices), routed endpoints x metadata kinds (nil, empty, ids, hashes, oversize), HTTP hash / round parameters, loopback gRPC witnesses, and (in a child process, one scheduler thread) a pending PublicRand for the next round while two beacons are stored back to back; distinct = distinct (endpoint, state, shape); non-trivial = the request carries at least one field"
	req := append([]string{"From DV Require Import Model.Routing Model.Robust Corr.RobustCorr.", "Open Scope Z_scope."}, e.in.Defs()...)
	if err := rep.Shard(outDir, "cases_robust", req, "kcase", "mismatches", e.cases, e.descr, 250); err != nil {
		return err
	}
	return rep.Write(outDir)
}
