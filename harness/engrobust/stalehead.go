package engrobust

// A request for round r = head+1 whose reading of the head races with the arrival of round r:
// PublicRand reads Last() (head r-1) and registers its store callback afterwards; if round r is
// stored in between, the first notification the callback sees is round r+1. A successful answer to
// a request for round r must contain round r (C01); refusing is fine. The interleaving is chosen
// by the harness: the raw store under the real handler's store stack is wrapped so that, once
// armed, the next Last() reads the head, then lets the harness store round r, then returns the
// head it had read. Runs in the child process, on the real beacon.Handler store stack and the real
// BeaconProcess.PublicRand.

import (
	"context"
	"fmt"
	"os"
	"sync"
	"time"

	clock "github.com/jonboulle/clockwork"

	"github.com/drand/drand/v2/common"
	"github.com/drand/drand/v2/crypto"
	"github.com/drand/drand/v2/internal/chain"
	"github.com/drand/drand/v2/internal/chain/beacon"
	"github.com/drand/drand/v2/internal/chain/memdb"
	"github.com/drand/drand/v2/internal/core"
	dnet "github.com/drand/drand/v2/internal/net"
	"github.com/drand/drand/v2/protobuf/drand"

	"github.com/drand/drand/v2/zzverif/engrouting"
)

type hookStore struct {
	chain.Store
	mu   sync.Mutex
	hook func()
}

func (s *hookStore) arm(f func()) { s.mu.Lock(); s.hook = f; s.mu.Unlock() }

func (s *hookStore) Last(ctx context.Context) (*common.Beacon, error) {
	b, err := s.Store.Last(ctx)
	s.mu.Lock()
	h := s.hook
	s.hook = nil
	s.mu.Unlock()
	if h != nil {
		h()
	}
	return b, err
}

// runStaleHead prints one line per wrong answer ("ANOTHER-ROUND wanted=.. got=..") and a summary.
func runStaleHead(ctx context.Context, tier string) {
	l := engrouting.DiscardLogger()
	n := 6
	if tier == "thorough" {
		n = 60
	}
	for _, schName := range []string{crypto.DefaultSchemeID, crypto.UnchainedSchemeID} {
		sch, err := crypto.GetSchemeByID(schName)
		if err != nil {
			childFail(childSetup, "%v", err)
		}
		c, err := engrouting.MkChain("default", sch, time.Now().Unix()+7200)
		if err != nil {
			childFail(childSetup, "%v", err)
		}
		c.Group.Period = 30 * time.Second
		raw := &hookStore{Store: memdb.NewStore(2000)}
		conf := &beacon.Config{Public: c.Group.Nodes[0], Group: c.Group, Share: c.Share, Clock: clock.NewRealClock()}
		h, err := beacon.NewHandler(ctx, dnet.NewGrpcClient(l), raw, conf, l, common.GetAppVersion())
		if err != nil {
			childFail(childSetup, "handler: %v", err)
		}
		bp := core.VerifServingProcess("default", c.Hash, c.Group, h, l)
		store := h.Store()
		chained := sch.Name == crypto.DefaultSchemeID
		mk := func(prev *common.Beacon) *common.Beacon {
			b := &common.Beacon{Round: prev.Round + 1, Signature: []byte(fmt.Sprintf("signature-of-round-%d", prev.Round+1))}
			if chained {
				b.PreviousSig = prev.Signature
			}
			return b
		}
		answered, refused := 0, 0
		for i := 0; i < n; i++ {
			head, err := store.Last(ctx)
			if err != nil {
				childFail(childSetup, "last: %v", err)
			}
			wanted := head.Round + 1
			br := mk(head)
			// round r arrives right after the request has read the head
			raw.arm(func() {
				if err := store.Put(ctx, br); err != nil {
					childFail(childSetup, "put %d: %v", br.Round, err)
				}
			})
			type reply struct {
				r   *drand.PublicRandResponse
				err error
			}
			done := make(chan reply, 1)
			go func() {
				rctx, cancel := context.WithTimeout(ctx, 20*time.Second)
				defer cancel()
				r, err := bp.PublicRand(rctx, &drand.PublicRandRequest{Round: wanted})
				done <- reply{r, err}
			}()
			time.Sleep(30 * time.Millisecond) // the request is now waiting on its callback
			if err := store.Put(ctx, mk(br)); err != nil { // round r+1: the first beacon the callback sees
				childFail(childSetup, "put %d: %v", br.Round+1, err)
			}
			select {
			case rp := <-done:
				switch {
				case rp.err != nil:
					refused++
				case rp.r.GetRound() != wanted:
					fmt.Fprintf(os.Stderr, "ANOTHER-ROUND scheme=%s wanted=%d got=%d\n", sch.Name, wanted, rp.r.GetRound())
				default:
					answered++
				}
			case <-time.After(10 * time.Second):
				fmt.Fprintf(os.Stderr, "STALE-UNRETURNED scheme=%s wanted=%d\n", sch.Name, wanted)
			}
			// a plain request for the same round is served exactly
			if r, err := bp.PublicRand(ctx, &drand.PublicRandRequest{Round: wanted}); err != nil || r.GetRound() != wanted {
				fmt.Fprintf(os.Stderr, "ANOTHER-ROUND scheme=%s wanted=%d got=%d (plain request, err=%v)\n", sch.Name, wanted, r.GetRound(), err)
			}
		}
		fmt.Fprintf(os.Stderr, "STALEHEAD scheme=%s requests=%d exact=%d refused=%d\n", sch.Name, n, answered, refused)
		h.Stop(ctx)
	}
}
