package engsecrecy

import (
	"fmt"
	"os"
	"sort"
	"strings"
	"sync"
	"time"

	"github.com/drand/drand/v2/crypto"
	"github.com/drand/drand/v2/zzverif/emit"
)

type modeRun struct {
	umask int
	prior string
	obs   []fileObs
	err   error
}

// Run is the engine entry point ("secrecy"). When the hidden child variable is set it runs the
// file-creation sub-mode instead (re-executed by the parent under each umask).
func Run(outDir string, seed int64, tier string) error {
	if os.Getenv(childEnv) != "" {
		return childModes()
	}
	rep := emit.NewReport("secrecy", seed, tier)
	t0 := time.Now()

	// ---------------- (a) file modes ----------------
	umasks := []int{0o000, 0o002, 0o022, 0o027, 0o077}
	priors := []string{"", "666"}
	if tier == "thorough" {
		umasks = nil
		for u := 0; u <= 0o77; u++ { // every group/other umask (owner bits would lock the harness out)
			umasks = append(umasks, u)
		}
		priors = []string{"", "666", "644", "660", "640", "600"}
		rep.Exhaustive = true
	}
	var runs []*modeRun
	for _, u := range umasks {
		for _, p := range priors {
			runs = append(runs, &modeRun{umask: u, prior: p})
		}
	}
	// the operator scenario (generate-keypair, self-sign migration, dkg nuke on a folder without dkg.db,
	// then the daemon's SaveFinished), under the umasks an operator's shell usually has
	for _, u := range []int{0o000, 0o002, 0o022, 0o027, 0o077} {
		runs = append(runs, &modeRun{umask: u, prior: scenarioCLI})
	}
	sem := make(chan struct{}, 8)
	var wg sync.WaitGroup
	for _, r := range runs {
		wg.Add(1)
		go func(r *modeRun) {
			defer wg.Done()
			sem <- struct{}{}
			defer func() { <-sem }()
			r.obs, r.err = runChild(r.umask, r.prior, seed)
		}(r)
	}
	wg.Wait()
	var lines, descr []string
	seen := map[string]bool{}
	for _, r := range runs {
		if r.err != nil {
			return r.err
		}
		foundDkg, foundKey, foundShare := false, false, false
		cliRun := r.prior == scenarioCLI
		if cliRun {
			r.prior = ""      // every file of this scenario is created fresh
			foundShare = true // no share FILE in this scenario: the share is in dkg.db
		}
		for _, o := range r.obs {
			rep.Evaluations++
			if o.Transient != "" {
				// seen by a concurrent reader while the real code was saving: secret bytes in a file whose
				// mode, taken after the read, still had group/other bits
				rep.Count("modes/transient-wide-secret")
				rep.Fail("C15-secret-in-file-wider-than-owner-only",
					fmt.Sprintf("%s held secret bytes with mode %04o under umask %04o, %s", o.Path, o.Mode, r.umask, o.Transient),
					map[string]interface{}{"file": o.Path, "mode": fmt.Sprintf("%04o", o.Mode), "umask": fmt.Sprintf("%04o", r.umask), "preexisting_mode": r.prior, "crash_point": o.Transient,
						"how": "a concurrent reader opened the file, found the node's private scalar in it, and fstat on the same descriptor then still showed group/other permission bits: a process death there leaves the secret in a group/other-readable file"})
				continue
			}
			coq, dk, ok := classify(o)
			in := map[string]interface{}{"file": o.Path, "umask": fmt.Sprintf("%04o", r.umask), "mode": fmt.Sprintf("%04o", o.Mode), "preexisting_mode": r.prior, "holds_secret_bytes": o.HasSecret}
			if strings.Contains(o.Path, "/linked") || strings.HasPrefix(o.Path, "vault") {
				// the symbolic-link scenario (second beacon, secret files are links into vault/): monitor only,
				// the pre-existing-mode parameter of the K cases does not apply to these files
				rep.Count("modes/symlink-scenario")
				if !o.Dir && o.HasSecret {
					rep.Count("modes/symlink-scenario-secret-file")
					if o.Mode&0o077 != 0 {
						in["how"] = "drand_id.private / dist_key.private of beacon 'linked' are symbolic links into vault/ (one dangling, one to an existing 0644 file); SaveKeyPair / SaveShare wrote through them"
						rep.Fail("C15-secret-file-group-or-other-readable",
							fmt.Sprintf("%s (written through a symbolic link) holds secret bytes and has mode %04o under umask %04o", o.Path, o.Mode, r.umask), in)
					}
				}
				continue
			}
			if cliRun {
				in["created_by"] = "operator commands on a folder that did not exist: drand generate-keypair; start-up self-sign migration; drand dkg nuke (creates dkg.db when there is none); then the daemon's NewDKGStore + SaveFinished wrote the share into it"
			}
			if !ok {
				rep.Count("modes/unclassified-file")
				if o.HasSecret && o.Mode&0o077 != 0 {
					rep.Fail("C15-secret-file-group-or-other-readable", "a file the model does not know holds secret bytes and is group/other accessible", in)
				}
				continue
			}
			var l string
			if o.Dir {
				if r.prior != "" || cliRun {
					continue // directories already exist in the pre-existing scenario / are all made by the key store in the operator scenario
				}
				l = fmt.Sprintf("DirMode %d %d %d", dk, r.umask, o.Mode)
				rep.Count("modes/dir")
			} else {
				prior := "None"
				if r.prior != "" {
					var pv int
					fmt.Sscanf(r.prior, "%o", &pv)
					prior = fmt.Sprintf("(Some %d)", pv)
				}
				l = fmt.Sprintf("FileMode %s %d %s %d %s", coq, r.umask, prior, o.Mode, emit.Bool(o.HasSecret))
				rep.Count("modes/" + coq)
				switch coq {
				case "FDkgDb":
					foundDkg = o.HasSecret
				case "FKeyPrivate":
					foundKey = o.HasSecret
				case "FShare":
					foundShare = o.HasSecret
				}
				// ---- monitor M: a file that holds the key or a share has no group/other bit ----
				if o.HasSecret && o.Mode&0o077 != 0 {
					if r.prior != "" && (coq == "FDkgDb") {
						// bolt.Open leaves the mode of an existing file alone; the property is about
						// creation (C15_dkgdb_existing_file_keeps_mode states the limit)
						rep.Count("modes/preexisting-db-keeps-its-mode")
					} else {
						rep.Fail("C15-secret-file-group-or-other-readable",
							fmt.Sprintf("%s holds secret bytes and has mode %04o under umask %04o", o.Path, o.Mode, r.umask), in)
					}
				}
				if coq == "FDkgDb" && r.prior == "" && r.umask == 0 && o.Mode != 0o600 {
					rep.Fail("C15-secret-file-group-or-other-readable", fmt.Sprintf("regression: fresh dkg.db under umask 0 has mode %04o, not 0600", o.Mode), in)
				}
			}
			lines = append(lines, l)
			scen := ""
			if cliRun {
				scen = " operator-commands"
			}
			descr = append(descr, fmt.Sprintf("%s (* %s umask %04o prior %q%s *)", l, o.Path, r.umask, r.prior, scen))
			if !seen[l] {
				seen[l] = true
				rep.DistinctNontrivial++
			}
			rep.Sample(descr[len(descr)-1], 6)
		}
		if !(foundDkg && foundKey && foundShare) {
			return fmt.Errorf("scanner sanity: the secret files of the child (umask %o, operator scenario %v) do not contain the secrets (dkg.db %v key %v share %v)", r.umask, cliRun, foundDkg, foundKey, foundShare)
		}
	}
	tModes := time.Since(t0)

	// ---------------- (b) byte scan of outputs ----------------
	t1 := time.Now()
	tmpRoot, err := os.MkdirTemp("", "zzv-secrecy-scan-")
	if err != nil {
		return err
	}
	defer os.RemoveAll(tmpRoot)
	type res struct {
		w    *schemeWorld
		errs []string
		err  error
	}
	ids := crypto.ListSchemes()
	results := make([]*res, len(ids))
	for i, id := range ids {
		wg.Add(1)
		go func(i int, id string) {
			defer wg.Done()
			r := &res{}
			results[i] = r
			sch, err := crypto.GetSchemeByID(id)
			if err != nil {
				r.err = err
				return
			}
			w, err := newSchemeWorld(sch, seed*131+int64(i), 3, 2, 3*time.Second, 1700000000)
			if err != nil {
				r.err = err
				return
			}
			r.w = w
			tmp := fmt.Sprintf("%s/s%d", tmpRoot, i)
			_ = os.MkdirAll(tmp, 0o700)
			var pw sync.WaitGroup
			var mu sync.Mutex
			part := func(name string, fatal bool, f func() error) {
				pw.Add(1)
				go func() {
					defer pw.Done()
					tp := time.Now()
					defer func() { w.note("part %s took %.1fs", name, time.Since(tp).Seconds()) }()
					if err := f(); err != nil {
						mu.Lock()
						if fatal {
							r.err = fmt.Errorf("%s/%s: %w", id, name, err)
						} else {
							r.errs = append(r.errs, fmt.Sprintf("%s/%s: %v", id, name, err))
						}
						mu.Unlock()
					}
				}()
			}
			part("daemon", true, func() error { return w.daemonPart(tmp) })
			part("handlers", true, func() error { return w.handlerPart(4) })
			part("keystore-faults", true, func() error { return w.faultPart(tmp) })
			part("dkg", false, func() error { return w.dkgPart(tmp, tier == "thorough" || id == crypto.DefaultSchemeID) })
			pw.Wait()
			w.cap.add("log/debug-json", w.sink.Bytes())
			w.cap.add("log/debug-console", w.sinkC.Bytes())
		}(i, id)
	}
	wg.Wait()
	notes := []string{}
	kindsSeen := map[string]bool{}
	for i, r := range results {
		if r.err != nil {
			return r.err
		}
		w := r.w
		notes = append(notes, r.errs...)
		for _, n := range w.notes {
			notes = append(notes, ids[i]+": "+n)
		}
		for _, e := range r.errs {
			rep.Count("scan/part-did-not-complete")
			_ = e
		}
		// scanner sanity: the forms searched for are the forms the real encoders produce
		for _, chk := range []struct{ kind, sec string }{{"secretfile/drand_id.private", "node0-longterm-key"}, {"secretfile/dist_key.private", "node0-share"}, {"secretfile/dkg.db", "node0-share"}} {
			ok := false
			for _, s := range w.secrets {
				if s.Name == chk.sec {
					for _, b := range w.cap.outs[chk.kind] {
						if len(s.hits(b)) > 0 {
							ok = true
						}
					}
				}
			}
			if !ok {
				return fmt.Errorf("scanner sanity (%s): %s does not contain %s in any searched form", ids[i], chk.kind, chk.sec)
			}
		}
		for _, kind := range w.cap.kinds() {
			blobs := w.cap.outs[kind]
			base := kind
			if j := strings.Index(kind, "@"); j >= 0 {
				base = kind[:j] + kind[strings.LastIndex(kind, "/"):]
			}
			rep.Count("scan/" + base)
			if !kindsSeen[ids[i]+"|"+kind] {
				kindsSeen[ids[i]+"|"+kind] = true
				rep.DistinctNontrivial++
			}
			if strings.HasPrefix(kind, "secretfile/") {
				continue
			}
			for _, b := range blobs {
				rep.Evaluations++
				for _, s := range w.secrets {
					if h := s.hits(b); len(h) > 0 {
						class := "C15-secret-bytes-in-output"
						if strings.HasPrefix(kind, "publicfile/") {
							class = "C15-secret-bytes-in-public-file"
						}
						if strings.HasSuffix(kind, "/response-error") || strings.HasSuffix(kind, "/response") {
							// what a network-facing endpoint returned to the caller of a packet it refused
							class = "C15-secret-bytes-in-response"
						}
						rep.Fail(class, fmt.Sprintf("%s of scheme %s contains %s (%s)", kind, ids[i], s.Name, strings.Join(h, ",")),
							map[string]interface{}{"output": kind, "scheme": ids[i], "secret": s.Name, "forms": h, "size": len(b), "excerpt": excerpt(b, s)})
					}
				}
			}
		}
		rep.Sample(fmt.Sprintf("%s: scanned %d output kinds for %d secrets: %s", ids[i], len(w.cap.kinds()), len(w.secrets), strings.Join(w.cap.kinds(), " ")), 12)
	}
	sort.Strings(notes)
	rep.Extra["notes"] = notes
	rep.Extra["wall_modes_s"] = tModes.Seconds()
	rep.Extra["wall_scan_s"] = time.Since(t1).Seconds()
	rep.Rule = "modes: every file and directory the real key store / DKG store / chain store create under a fresh config folder (and over pre-existing files) in a re-executed child per umask; distinct = distinct (file kind, umask, prior mode, observed mode). scan: every response / packet / stream item / HTTP body / stored beacon / public file / debug log obtained from a real daemon, three real beacon handlers and three real dkg.Process objects per scheme, searched for each node's long-term scalar and share (dealt and DKG-produced) in raw, reversed, hex, base64 (3 alignments, std+url), decimal and 16-byte prefix/suffix forms; distinct = distinct (scheme, output kind) with non-empty content"
	if err := rep.Shard(outDir, "cases_secrecy", []string{"From DV Require Import Model.Secrecy Corr.SecrecyCorr."}, "scase", "mismatches", lines, descr, 1500); err != nil {
		return err
	}
	return rep.Write(outDir)
}

// excerpt locates the hit: the beginning of the line it is on (for a log line: level, time, caller
// file:line and message) and the text just before the secret, never the secret itself.
func excerpt(b []byte, s secret) string {
	for _, f := range s.forms {
		if i := strings.Index(string(b), string(f.b)); i >= 0 {
			ls := strings.LastIndex(string(b[:i]), "\n") + 1
			le := ls + 260
			if le > i {
				le = i
			}
			lo := i - 60
			if lo < ls {
				lo = ls
			}
			return fmt.Sprintf("line starts %q ... %q[%s: %d bytes elided]", string(b[ls:le]), string(b[lo:i]), f.name, len(f.b))
		}
	}
	return ""
}
