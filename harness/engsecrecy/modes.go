package engsecrecy

import (
	"context"
	"encoding/json"
	"fmt"
	"io"
	"io/fs"
	"math/rand"
	"os"
	"os/exec"
	"path/filepath"
	"sort"
	"strconv"
	"strings"
	"sync/atomic"
	"syscall"
	"time"

	bolt "go.etcd.io/bbolt"

	"github.com/drand/drand/v2/common"
	"github.com/drand/drand/v2/common/key"
	"github.com/drand/drand/v2/common/log"
	"github.com/drand/drand/v2/crypto"
	"github.com/drand/drand/v2/internal/chain/boltdb"
	"github.com/drand/drand/v2/internal/dkg"
	drandcli "github.com/drand/drand/v2/internal/drand-cli"
	dfs "github.com/drand/drand/v2/internal/fs"
	"github.com/drand/drand/v2/zzverif/engkeys"
)

var (
	newPair = engkeys.NewPair
	deal    = engkeys.Deal
	mkGroup = engkeys.MkGroup
)

type rngStream = engkeys.RngStream
type logSink = engkeys.LogSink

type fileObs struct {
	Path      string `json:"path"`
	Mode      uint32 `json:"mode"`
	Dir       bool   `json:"dir"`
	HasSecret bool   `json:"has_secret"`
	// Transient: not the state at rest but something a concurrent reader saw WHILE the real code was
	// saving (which call, which repetition); Mode is the mode the file had right after the reader
	// had found the secret bytes in it
	Transient string `json:"transient,omitempty"`
}

// watchSecrets reads, as fast as it can, every file of the given folders until stop is closed, the
// way another local user (or a backup job) could: whenever a file holds one of the secrets, its
// mode is taken (fstat on the same descriptor, after the read) and kept if it is wider than
// owner-only. A file is looked at again only when its inode / size / mtime / mode changed.
func watchSecrets(base string, dirs []string, secrets []secret, phase *atomic.Value, stop <-chan struct{}, done chan<- []fileObs) {
	type stamp struct {
		ino  uint64
		size int64
		mt   int64
		mode uint32
	}
	seen := map[string]stamp{}
	found := map[string]fileObs{}
	for {
		select {
		case <-stop:
			var out []fileObs
			for _, o := range found {
				out = append(out, o)
			}
			sort.Slice(out, func(i, j int) bool { return out[i].Path+out[i].Transient < out[j].Path+out[j].Transient })
			done <- out
			return
		default:
		}
		for _, d := range dirs {
			ents, err := os.ReadDir(d)
			if err != nil {
				continue
			}
			for _, e := range ents {
				if e.IsDir() {
					continue
				}
				p := filepath.Join(d, e.Name())
				f, err := os.Open(p)
				if err != nil {
					continue
				}
				fi, err := f.Stat()
				if err != nil || fi.Mode().Perm()&0o077 == 0 || fi.Size() == 0 {
					_ = f.Close()
					continue
				}
				st := stamp{size: fi.Size(), mt: fi.ModTime().UnixNano(), mode: uint32(fi.Mode().Perm())}
				if sys, ok := fi.Sys().(*syscall.Stat_t); ok {
					st.ino = sys.Ino
				}
				if seen[p] == st {
					_ = f.Close()
					continue
				}
				seen[p] = st
				b, _ := io.ReadAll(f)
				hit := false
				for _, s := range secrets {
					if len(s.hits(b)) > 0 {
						hit = true
					}
				}
				if hit {
					// the mode AFTER the secret was read from this very file
					if fi2, err := f.Stat(); err == nil && fi2.Mode().Perm()&0o077 != 0 {
						rel, _ := filepath.Rel(base, p)
						ph, _ := phase.Load().(string)
						key := rel + "|" + fi2.Mode().Perm().String()
						if _, dup := found[key]; !dup {
							found[key] = fileObs{Path: rel, Mode: uint32(fi2.Mode().Perm()), HasSecret: true, Transient: ph}
						}
					}
				}
				_ = f.Close()
			}
		}
	}
}

const childEnv = "ZZV_SECRECY_CHILD"

// childModes runs in a re-executed copy of the harness under the umask given in the
// environment: it lets the REAL code create every file of a node's config folder and reports
// what stat says.
func childModes() error {
	um, err := strconv.ParseInt(os.Getenv("ZZV_UMASK"), 8, 32)
	if err != nil {
		return err
	}
	base := os.Getenv("ZZV_DIR")
	if os.Getenv("ZZV_PRIOR") == scenarioCLI {
		return childCLI(int(um), base)
	}
	if os.Getenv("ZZV_PRIOR") == scenarioCLI+"-nuke" {
		// one operator command in its own process (it keeps dkg.db open and locked until it exits)
		syscall.Umask(int(um))
		return drandcli.CLI().Run([]string{"drand", "dkg", "nuke", "--folder", base, "--id", common.DefaultBeaconID})
	}
	var prior os.FileMode
	hasPrior := false
	if p := os.Getenv("ZZV_PRIOR"); p != "" {
		v, err := strconv.ParseInt(p, 8, 32)
		if err != nil {
			return err
		}
		prior, hasPrior = os.FileMode(v), true
	}
	seed, _ := strconv.ParseInt(os.Getenv("ZZV_SEED"), 10, 64)
	rng := rand.New(rand.NewSource(seed))
	sch, err := crypto.GetSchemeByID(crypto.DefaultSchemeID)
	if err != nil {
		return err
	}
	ctx := context.Background()
	l := log.New(&logSink{}, log.ErrorLevel, true)
	beaconID := common.DefaultBeaconID
	pairs := make([]*key.Pair, 3)
	for i := range pairs {
		if pairs[i], err = newPair(rng, fmt.Sprintf("127.0.0.1:%d", 9100+i), sch); err != nil {
			return err
		}
	}
	shares, commits := deal(rng, sch, sch.KeyGroup.Scalar().Pick(rngStream{R: rng}), 3, 2)
	group := mkGroup(sch, pairs, commits, 2, 1700000000, 3*time.Second, beaconID)
	kb, _ := pairs[0].Key.MarshalBinary()
	sb, _ := shares[0].Share.V.MarshalBinary()
	secrets := []secret{newSecret("key", kb), newSecret("share", sb)}

	mb := filepath.Join(base, common.MultiBeaconFolder)
	dbFolder := filepath.Join(mb, beaconID, "db")
	if hasPrior {
		// files left behind by an earlier run, with an arbitrary mode: create them with the real
		// code under umask 0, then chmod
		old := syscall.Umask(0)
		st0 := key.NewFileStore(mb, beaconID)
		if err := st0.SaveKeyPair(pairs[1]); err != nil {
			return err
		}
		if err := st0.SaveGroup(group); err != nil {
			return err
		}
		if err := st0.SaveShare(shares[1]); err != nil {
			return err
		}
		d0, err := dkg.NewDKGStore(base)
		if err != nil {
			return err
		}
		_ = d0.Close()
		dfs.CreateSecureFolder(dbFolder)
		c0, err := boltdb.NewBoltStore(ctx, l, dbFolder)
		if err != nil {
			return err
		}
		if err := c0.Put(ctx, &common.Beacon{Round: 0, Signature: group.GenesisSeed}); err != nil {
			return err
		}
		_ = c0.Close()
		// and the temporary files a Save that died half-way would have left next to them
		for _, f := range []string{
			filepath.Join(mb, beaconID, key.FolderName, "drand_id.private"), filepath.Join(mb, beaconID, key.FolderName, "drand_id.public"),
			filepath.Join(mb, beaconID, key.GroupFolderName, "dist_key.private"), filepath.Join(mb, beaconID, key.GroupFolderName, "drand_group.toml"),
		} {
			if err := os.WriteFile(f+".tmp", []byte("Thr"), 0o666); err != nil {
				return err
			}
		}
		err = filepath.WalkDir(base, func(p string, d fs.DirEntry, err error) error {
			if err == nil && !d.IsDir() {
				return os.Chmod(p, prior)
			}
			return err
		})
		if err != nil {
			return err
		}
		syscall.Umask(old)
	}
	syscall.Umask(int(um))
	// the order of the daemon: DKG database first (DrandDaemon.init), then the key store
	// (LoadBeaconsFromDisk / generate-keypair), then the chain database (createDBStore)
	dst, err := dkg.NewDKGStore(base)
	if err != nil {
		return fmt.Errorf("NewDKGStore: %w", err)
	}
	fin := dkg.NewFreshState(beaconID)
	fin.Epoch, fin.State, fin.Threshold, fin.SchemeID = 1, dkg.Complete, 2, sch.Name
	fin.GenesisTime, fin.Timeout = time.Unix(group.GenesisTime, 0).UTC(), time.Unix(group.GenesisTime, 0).UTC()
	fin.GenesisSeed, fin.BeaconPeriod, fin.CatchupPeriod = group.GenesisSeed, group.Period, group.CatchupPeriod
	fin.FinalGroup, fin.KeyShare = group, shares[0]
	if err := dst.SaveFinished(beaconID, fin); err != nil {
		return fmt.Errorf("SaveFinished: %w", err)
	}
	if err := dst.Close(); err != nil {
		return err
	}
	st := key.NewFileStore(mb, beaconID)
	if err := st.SaveKeyPair(pairs[0]); err != nil {
		return fmt.Errorf("SaveKeyPair: %w", err)
	}
	if err := st.SaveGroup(group); err != nil {
		return fmt.Errorf("SaveGroup: %w", err)
	}
	if err := st.SaveShare(shares[0]); err != nil {
		return fmt.Errorf("SaveShare: %w", err)
	}
	dfs.CreateSecureFolder(dbFolder)
	cst, err := boltdb.NewBoltStore(ctx, l, dbFolder)
	if err != nil {
		return fmt.Errorf("NewBoltStore: %w", err)
	}
	if err := cst.Put(ctx, &common.Beacon{Round: 1, Signature: []byte("0123456789abcdef0123456789abcdef0123456789abcdef"), PreviousSig: group.GenesisSeed}); err != nil {
		return err
	}
	if err := cst.Close(); err != nil {
		return err
	}
	// an operator who keeps the secret files on another volume: drand_id.private and dist_key.private of a
	// second beacon are symbolic links into a vault folder, one dangling (the target is created by the
	// save), one to a file the operator created beforehand with an ordinary mode
	vault := dfs.CreateSecureFolder(filepath.Join(base, "vault"))
	lst := key.NewFileStore(mb, "linked")
	if err := os.Symlink(filepath.Join(vault, "id.secret"), filepath.Join(mb, "linked", key.FolderName, "drand_id.private")); err != nil {
		return err
	}
	if err := os.WriteFile(filepath.Join(vault, "share.secret"), nil, 0o644); err != nil {
		return err
	}
	if err := os.Symlink(filepath.Join(vault, "share.secret"), filepath.Join(mb, "linked", key.GroupFolderName, "dist_key.private")); err != nil {
		return err
	}
	if err := lst.SaveKeyPair(pairs[0]); err != nil {
		return fmt.Errorf("SaveKeyPair through a symbolic link: %w", err)
	}
	if err := lst.SaveShare(shares[0]); err != nil {
		return fmt.Errorf("SaveShare through a symbolic link: %w", err)
	}
	obs, err := observe(base, secrets)
	if err != nil {
		return err
	}
	// ---- while the secrets are being written: what can a concurrent reader get at, and with which mode? ----
	var phase atomic.Value
	phase.Store("")
	stop, done := make(chan struct{}), make(chan []fileObs, 1)
	go watchSecrets(base, []string{filepath.Join(mb, beaconID, key.FolderName), filepath.Join(mb, beaconID, key.GroupFolderName)}, secrets, &phase, stop, done)
	const reps = 6
	for i := 1; i <= reps; i++ {
		phase.Store(fmt.Sprintf("inside SaveShare (repetition %d of %d), before the file reached its final name", i, reps))
		if err := st.SaveShare(shares[0]); err != nil {
			return fmt.Errorf("SaveShare (repetition %d): %w", i, err)
		}
		phase.Store(fmt.Sprintf("inside SaveKeyPair (repetition %d of %d), before the file reached its final name", i, reps))
		if err := st.SaveKeyPair(pairs[0]); err != nil {
			return fmt.Errorf("SaveKeyPair (repetition %d): %w", i, err)
		}
	}
	close(stop)
	obs = append(obs, <-done...)
	b, _ := json.Marshal(obs)
	return os.WriteFile(os.Getenv("ZZV_OUTFILE"), b, 0o600)
}

// observe stats every file and folder under base and says which files hold one of the secrets.
func observe(base string, secrets []secret) ([]fileObs, error) {
	var obs []fileObs
	err := filepath.WalkDir(base, func(p string, d fs.DirEntry, err error) error {
		if err != nil {
			return err
		}
		fi, err := os.Lstat(p)
		if err != nil {
			return err
		}
		if fi.Mode()&os.ModeSymlink != 0 {
			return nil // the file it points to is observed under its own path
		}
		rel, _ := filepath.Rel(base, p)
		o := fileObs{Path: rel, Mode: uint32(fi.Mode().Perm()), Dir: d.IsDir()}
		if !d.IsDir() {
			b, err := os.ReadFile(p)
			if err != nil {
				return err
			}
			for _, s := range secrets {
				if len(s.hits(b)) > 0 {
					o.HasSecret = true
				}
			}
		}
		obs = append(obs, o)
		return nil
	})
	return obs, err
}

// scenarioCLI (passed in the place of the pre-existing mode) selects the operator scenario.
const scenarioCLI = "cli"

// childCLI: the files that hold secrets can also be created by the OPERATOR's commands, before or
// between runs of the daemon. Under the given umask, on a folder that does not exist yet:
//
//	drand generate-keypair          creates the key folder and drand_id.private
//	(start-up migration) SelfSignAll re-saves the key pair when its self-signature does not verify
//	drand dkg nuke                   opens (and so creates) dkg.db when there is none yet
//	daemon: NewDKGStore + SaveFinished  then writes the share into that dkg.db
//
// and every file is stat-ed and searched for the node's secrets afterwards.
func childCLI(um int, base string) error {
	syscall.Umask(um)
	beaconID := common.DefaultBeaconID
	mb := filepath.Join(base, common.MultiBeaconFolder)
	run := func(args ...string) error { return drandcli.CLI().Run(append([]string{"drand"}, args...)) }
	if err := run("generate-keypair", "--folder", base, "--id", beaconID, "127.0.0.1:9190"); err != nil {
		return fmt.Errorf("generate-keypair: %w", err)
	}
	st := key.NewFileStore(mb, beaconID)
	pair, err := st.LoadKeyPair()
	if err != nil {
		return fmt.Errorf("generate-keypair left no loadable key pair: %w", err)
	}
	// a key pair whose self-signature does not verify (v1 keys): the start-up migration signs and saves it again
	pubFile := filepath.Join(mb, beaconID, key.FolderName, "drand_id.public")
	if b, err := os.ReadFile(pubFile); err == nil {
		sig := fmt.Sprintf("%x", pair.Public.Signature)
		b2 := []byte(strings.Replace(string(b), sig, strings.Repeat("0", len(sig)), 1))
		fi, _ := os.Stat(pubFile)
		if err := os.WriteFile(pubFile, b2, fi.Mode().Perm()); err != nil {
			return err
		}
	}
	if err := key.SelfSignAll(log.New(&logSink{}, log.ErrorLevel, true), mb); err != nil {
		return fmt.Errorf("SelfSignAll: %w", err)
	}
	// drand dkg nuke asks for confirmation on the standard input; it runs in a process of its own, as it
	// does for the operator: the command never closes dkg.db, the lock goes away with the process
	nuke := exec.Command(os.Args[0], "secrecy")
	nuke.Env = append(os.Environ(), "ZZV_PRIOR="+scenarioCLI+"-nuke")
	nuke.Stdin = strings.NewReader("y\n")
	if out, err := nuke.CombinedOutput(); err != nil {
		return fmt.Errorf("dkg nuke: %v: %s", err, tail(string(out), 400))
	}
	// the daemon then completes a DKG and records it
	rng := rand.New(rand.NewSource(int64(um) + 77))
	sch := pair.Scheme()
	pairs := []*key.Pair{pair}
	for i := 1; i < 3; i++ {
		p, err := newPair(rng, fmt.Sprintf("127.0.0.1:%d", 9190+i), sch)
		if err != nil {
			return err
		}
		pairs = append(pairs, p)
	}
	shares, commits := deal(rng, sch, sch.KeyGroup.Scalar().Pick(rngStream{R: rng}), 3, 2)
	group := mkGroup(sch, pairs, commits, 2, 1700000000, 3*time.Second, beaconID)
	dst, err := dkg.NewDKGStore(base)
	if err != nil {
		return fmt.Errorf("NewDKGStore: %w", err)
	}
	fin := dkg.NewFreshState(beaconID)
	fin.Epoch, fin.State, fin.Threshold, fin.SchemeID = 1, dkg.Complete, 2, sch.Name
	fin.GenesisTime, fin.Timeout = time.Unix(group.GenesisTime, 0).UTC(), time.Unix(group.GenesisTime, 0).UTC()
	fin.GenesisSeed, fin.BeaconPeriod, fin.CatchupPeriod = group.GenesisSeed, group.Period, group.CatchupPeriod
	fin.FinalGroup, fin.KeyShare = group, shares[0]
	if err := dst.SaveFinished(beaconID, fin); err != nil {
		return fmt.Errorf("SaveFinished: %w", err)
	}
	if err := dst.Close(); err != nil {
		return err
	}
	kb, _ := pair.Key.MarshalBinary()
	sb, _ := shares[0].Share.V.MarshalBinary()
	obs, err := observe(base, []secret{newSecret("key", kb), newSecret("share", sb)})
	if err != nil {
		return err
	}
	b, _ := json.Marshal(obs)
	return os.WriteFile(os.Getenv("ZZV_OUTFILE"), b, 0o600)
}

// runChild re-executes this binary in the hidden sub-mode under the given umask.
func runChild(umask int, prior string, seed int64) ([]fileObs, error) {
	tmp, err := os.MkdirTemp("", "zzv-secrecy-")
	if err != nil {
		return nil, err
	}
	defer func() {
		_ = filepath.WalkDir(tmp, func(p string, d fs.DirEntry, err error) error {
			if err == nil && d.IsDir() {
				_ = os.Chmod(p, 0o700)
			}
			return nil
		})
		_ = os.RemoveAll(tmp)
	}()
	outFile := filepath.Join(tmp, "obs.json")
	cmd := exec.Command(os.Args[0], "secrecy")
	cmd.Env = append(os.Environ(), childEnv+"=modes", fmt.Sprintf("ZZV_UMASK=%o", umask), "ZZV_DIR="+filepath.Join(tmp, "cfg"),
		"ZZV_PRIOR="+prior, "ZZV_OUTFILE="+outFile, fmt.Sprintf("ZZV_SEED=%d", seed))
	out, err := cmd.CombinedOutput()
	if err != nil {
		return nil, fmt.Errorf("child (umask %o prior %q): %v: %s", umask, prior, err, tail(string(out), 600))
	}
	b, err := os.ReadFile(outFile)
	if err != nil {
		return nil, err
	}
	var obs []fileObs
	return obs, json.Unmarshal(b, &obs)
}

func tail(s string, n int) string {
	if len(s) > n {
		return s[len(s)-n:]
	}
	return s
}

// classify maps a path under the config folder to the model's file / directory kinds.
func classify(o fileObs) (coq string, dirKind int, ok bool) {
	bn := filepath.Base(o.Path)
	if o.Dir {
		if o.Path == "." {
			return "", 1, true // created by dkg.NewDKGStore (DirPerm)
		}
		return "", 0, true // created by fs.CreateSecureFolder
	}
	switch {
	case bn == "drand_id.private":
		return "FKeyPrivate", 0, true
	case bn == "drand_id.public":
		return "FKeyPublic", 0, true
	case bn == "dist_key.private":
		return "FShare", 0, true
	case bn == "drand_group.toml":
		return "FGroup", 0, true
	case bn == dkg.BoltFileName && !strings.Contains(o.Path, "/"):
		return "FDkgDb", 0, true
	case bn == boltdb.BoltFileName:
		return "FChainDb", 0, true
	}
	return "", 0, false
}

var _ = bolt.Open
