package engsecrecy

import (
	"bytes"
	"context"
	"errors"
	"fmt"
	"io"
	"math/rand"
	"net"
	"net/http"
	"os"
	"path/filepath"
	"strings"
	"sync"
	"time"

	"github.com/BurntSushi/toml"
	clock "github.com/jonboulle/clockwork"
	bolt "go.etcd.io/bbolt"
	"google.golang.org/grpc"
	"google.golang.org/protobuf/encoding/protojson"
	"google.golang.org/protobuf/encoding/prototext"
	"google.golang.org/protobuf/proto"
	"google.golang.org/protobuf/types/known/timestamppb"

	"github.com/drand/drand/v2/common"
	"github.com/drand/drand/v2/common/key"
	"github.com/drand/drand/v2/common/log"
	"github.com/drand/drand/v2/crypto"
	"github.com/drand/drand/v2/internal/chain"
	"github.com/drand/drand/v2/internal/chain/beacon"
	"github.com/drand/drand/v2/internal/chain/memdb"
	"github.com/drand/drand/v2/internal/core"
	"github.com/drand/drand/v2/internal/dkg"
	dnet "github.com/drand/drand/v2/internal/net"
	"github.com/drand/drand/v2/internal/util"
	pdkg "github.com/drand/drand/v2/protobuf/dkg"
	pb "github.com/drand/drand/v2/protobuf/drand"
)

// recMsg records one protobuf message in the three forms an observer could see it in.
func (c *capture) recMsg(kind string, m proto.Message) {
	if m == nil {
		return
	}
	if b, err := proto.Marshal(m); err == nil {
		c.add(kind+"/wire", b)
	}
	if b, err := protojson.Marshal(m); err == nil {
		c.add(kind+"/json", b)
	}
	c.add(kind+"/text", []byte(prototext.Format(m)))
}

func freeAddr() string {
	l, err := net.Listen("tcp", "127.0.0.1:0")
	if err != nil {
		return "127.0.0.1:0"
	}
	defer l.Close()
	return l.Addr().String()
}

func portOf(addr string) string {
	_, p, _ := net.SplitHostPort(addr)
	return p
}

// schemeWorld is one network of n nodes of one scheme with directly dealt shares.
type schemeWorld struct {
	sch     *crypto.Scheme
	rng     *rand.Rand
	pairs   []*key.Pair
	shares  []*key.Share
	group   *key.Group
	cap     *capture
	sink    *logSink
	logger  log.Logger
	sinkC   *logSink // the same, console format
	loggerC log.Logger
	secrets []secret
	notes   []string
	mu      sync.Mutex
}

func (w *schemeWorld) note(f string, a ...interface{}) {
	w.mu.Lock()
	w.notes = append(w.notes, fmt.Sprintf(f, a...))
	w.mu.Unlock()
}

func (w *schemeWorld) addSecret(name string, s interface{ MarshalBinary() ([]byte, error) }) {
	b, err := s.MarshalBinary()
	if err == nil {
		w.mu.Lock()
		w.secrets = append(w.secrets, newSecret(name, b))
		w.mu.Unlock()
	}
}

func newSchemeWorld(sch *crypto.Scheme, seed int64, n, thr int, period time.Duration, genesis int64) (*schemeWorld, error) {
	w := &schemeWorld{sch: sch, rng: rand.New(rand.NewSource(seed)), cap: newCapture(), sink: &logSink{}}
	w.logger = log.New(w.sink, log.DebugLevel, true)
	w.sinkC = &logSink{}
	w.loggerC = log.New(w.sinkC, log.DebugLevel, false)
	for i := 0; i < n; i++ {
		p, err := newPair(w.rng, freeAddr(), sch)
		if err != nil {
			return nil, err
		}
		w.pairs = append(w.pairs, p)
		w.addSecret(fmt.Sprintf("node%d-longterm-key", i), p.Key)
	}
	var commits = []interface{}{}
	_ = commits
	shares, cm := deal(w.rng, sch, sch.KeyGroup.Scalar().Pick(rngStream{R: w.rng}), n, thr)
	w.shares = shares
	for i, s := range shares {
		w.addSecret(fmt.Sprintf("node%d-share", i), s.Share.V)
	}
	w.group = mkGroup(sch, w.pairs, cm, thr, genesis, period, common.DefaultBeaconID)
	return w, nil
}

// ---------------------------------------------------------------------------------------------
// (1) a real daemon for node 0: key store on disk, migration into dkg.db, Load, StartBeacon, and
// every control / public response it can be asked for, plus the HTTP bodies.

func (w *schemeWorld) daemonPart(tmp string) error {
	ctx, cancel := context.WithTimeout(context.Background(), 40*time.Second)
	defer cancel()
	dir := filepath.Join(tmp, "node0")
	beaconID := common.DefaultBeaconID
	pubAddr := freeAddr()
	conf := core.NewConfig(w.logger,
		core.WithConfigFolder(dir),
		core.WithPrivateListenAddress(w.pairs[0].Public.Addr),
		core.WithPublicListenAddress(pubAddr),
		core.WithControlPort(portOf(freeAddr())),
		core.WithDBStorageEngine(chain.BoltDB),
		core.WithDkgKickoffGracePeriod(time.Second),
		core.WithDkgPhaseTimeout(2*time.Second),
	)
	dd, err := core.NewDrandDaemon(ctx, conf)
	if err != nil {
		return fmt.Errorf("NewDrandDaemon: %w", err)
	}
	defer func() {
		sctx, c := context.WithTimeout(context.Background(), 8*time.Second)
		defer c()
		dd.Stop(sctx)
	}()
	store := key.NewFileStore(conf.ConfigFolderMB(), beaconID)
	if err := store.SaveKeyPair(w.pairs[0]); err != nil {
		return err
	}
	if err := store.SaveGroup(w.group); err != nil {
		return err
	}
	if err := store.SaveShare(w.shares[0]); err != nil {
		return err
	}
	// restart path: no DKG record yet, group file present => migration into dkg.db, Load, StartBeacon
	bp, err := dd.LoadBeaconFromStore(ctx, beaconID, store)
	if err != nil {
		return fmt.Errorf("LoadBeaconFromStore: %w", err)
	}
	md := &pb.Metadata{BeaconID: beaconID}
	rec := func(kind string, m proto.Message, err error) {
		if err != nil {
			w.cap.add(kind+"/error", []byte(err.Error()))
			return
		}
		w.cap.recMsg(kind, m)
	}
	{
		r, err := dd.PublicKey(ctx, &pb.PublicKeyRequest{Metadata: md})
		rec("control.PublicKey", r, err)
	}
	{
		r, err := dd.GroupFile(ctx, &pb.GroupRequest{Metadata: md})
		rec("control.GroupFile", r, err)
	}
	{
		r, err := dd.ChainInfo(ctx, &pb.ChainInfoRequest{Metadata: md})
		rec("public.ChainInfo", r, err)
	}
	{
		r, err := dd.GetIdentity(ctx, &pb.IdentityRequest{Metadata: md})
		rec("protocol.GetIdentity", r, err)
	}
	{
		r, err := dd.Status(ctx, &pb.StatusRequest{Metadata: md, CheckConn: []*pb.Address{{Address: w.pairs[0].Public.Addr}}})
		rec("control.Status", r, err)
	}
	{
		r, err := dd.PingPong(ctx, &pb.Ping{Metadata: md})
		rec("control.PingPong", r, err)
	}
	{
		r, err := dd.ListSchemes(ctx, &pb.ListSchemesRequest{})
		rec("control.ListSchemes", r, err)
	}
	{
		r, err := dd.ListBeaconIDs(ctx, &pb.ListBeaconIDsRequest{})
		rec("control.ListBeaconIDs", r, err)
	}
	{
		r, err := dd.DKGStatus(ctx, &pdkg.DKGStatusRequest{BeaconID: beaconID})
		rec("dkg.DKGStatus", r, err)
		if err == nil && r.GetComplete() == nil {
			w.note("daemon: DKGStatus has no completed entry after migration")
		}
	}
	{
		r, err := dd.PublicRand(ctx, &pb.PublicRandRequest{Round: 0, Metadata: md})
		rec("public.PublicRand", r, err)
	}
	{
		r, err := bp.RemoteStatus(ctx, &pb.RemoteStatusRequest{Metadata: md, Addresses: []*pb.Address{{Address: w.pairs[0].Public.Addr}}})
		rec("control.RemoteStatus", r, err)
	}
	{
		bk := filepath.Join(tmp, "backup.db")
		r, err := dd.BackupDatabase(ctx, &pb.BackupDBRequest{Metadata: md, OutputFile: bk})
		rec("control.BackupDatabase", r, err)
		if b, err := os.ReadFile(bk); err == nil {
			w.cap.add("control.BackupDatabase/file", b)
		}
	}
	{
		r, err := dd.Metrics(ctx, &pb.MetricsRequest{})
		rec("control.Metrics", r, err)
	}
	// HTTP bodies served by the daemon's REST gateway
	hc := &http.Client{Timeout: 3 * time.Second}
	for _, p := range []string{"/chains", "/info", "/health", "/public/latest", "/public/0", "/public/1"} {
		resp, err := hc.Get("http://" + pubAddr + p)
		if err != nil {
			w.cap.add("http"+p+"/error", []byte(err.Error()))
			continue
		}
		b, _ := io.ReadAll(resp.Body)
		resp.Body.Close()
		hdr := new(bytes.Buffer)
		_ = resp.Header.Write(hdr)
		w.cap.add("http"+p+"/body", append(hdr.Bytes(), b...))
	}
	// files the node keeps that are NOT supposed to hold secrets, and (sanity) those that are
	_ = filepath.Walk(dir, func(p string, fi os.FileInfo, err error) error {
		if err != nil || fi.IsDir() {
			return nil
		}
		b, err := os.ReadFile(p)
		if err != nil {
			return nil
		}
		bn := filepath.Base(p)
		switch bn {
		case "drand_id.private", "dist_key.private", "dkg.db":
			w.cap.add("secretfile/"+bn, b)
		default:
			w.cap.add("publicfile/"+bn, b)
		}
		return nil
	})
	return nil
}

// ---------------------------------------------------------------------------------------------
// (2) three real beacon handlers on an in-memory network with fake clocks: partial beacon
// packets, sync streams, stored beacons, debug logs.

type memProto struct {
	w        *schemeWorld
	mu       sync.Mutex
	handlers map[string]*beacon.Handler
}

func (c *memProto) PartialBeacon(ctx context.Context, p dnet.Peer, in *pb.PartialBeaconPacket, _ ...dnet.CallOption) error {
	c.w.cap.recMsg("protocol.PartialBeaconPacket", in)
	c.mu.Lock()
	h := c.handlers[p.Address()]
	c.mu.Unlock()
	if h == nil {
		return errors.New("no such peer")
	}
	_, err := h.ProcessPartialBeacon(ctx, proto.Clone(in).(*pb.PartialBeaconPacket))
	return err
}

func (c *memProto) SyncChain(context.Context, dnet.Peer, *pb.SyncRequest, ...dnet.CallOption) (chan *pb.BeaconPacket, error) {
	return nil, errors.New("sync not available in this network")
}
func (c *memProto) GetIdentity(context.Context, dnet.Peer, *pb.IdentityRequest, ...dnet.CallOption) (*pb.IdentityResponse, error) {
	return nil, errors.New("not available")
}
func (c *memProto) Status(context.Context, dnet.Peer, *pb.StatusRequest, ...grpc.CallOption) (*pb.StatusResponse, error) {
	return nil, errors.New("not available")
}
func (c *memProto) Check(context.Context, dnet.Peer) error { return nil }

type syncStream struct {
	grpc.ServerStream
	ctx context.Context
	w   *schemeWorld
	n   int
}

func (s *syncStream) Context() context.Context { return s.ctx }
func (s *syncStream) Send(b *pb.BeaconPacket) error {
	s.w.cap.recMsg("protocol.SyncChain.BeaconPacket", b)
	s.n++
	return nil
}

func (w *schemeWorld) handlerPart(rounds int) error {
	ctx, cancel := context.WithCancel(context.Background())
	defer cancel()
	n := len(w.pairs)
	period := w.group.Period
	clk := clock.NewFakeClockAt(time.Unix(w.group.GenesisTime-2, 0))
	cl := &memProto{w: w, handlers: map[string]*beacon.Handler{}}
	stores := make([]chain.Store, n)
	hs := make([]*beacon.Handler, n)
	for i := 0; i < n; i++ {
		stores[i] = memdb.NewStore(1000)
		conf := &beacon.Config{Group: w.group, Public: w.group.Nodes[i], Share: w.shares[i], Clock: clk}
		h, err := beacon.NewHandler(ctx, cl, stores[i], conf, w.logger.Named(fmt.Sprintf("h%d", i)), common.GetAppVersion())
		if err != nil {
			return fmt.Errorf("NewHandler %d: %w", i, err)
		}
		hs[i] = h
		cl.mu.Lock()
		cl.handlers[w.pairs[i].Public.Addr] = h
		cl.mu.Unlock()
	}
	for i, h := range hs {
		if err := h.Start(ctx); err != nil {
			return fmt.Errorf("Start %d: %w", i, err)
		}
	}
	defer func() {
		for _, h := range hs {
			h.Stop(context.Background())
		}
	}()
	last := func(i int) uint64 {
		b, err := stores[i].Last(ctx)
		if err != nil || b == nil {
			return 0
		}
		return b.Round
	}
	time.Sleep(50 * time.Millisecond)
	clk.Advance(2 * time.Second) // genesis
	for r := 1; r <= rounds; r++ {
		deadline := time.Now().Add(1500 * time.Millisecond)
		for time.Now().Before(deadline) {
			have := 0
			for i := 0; i < n; i++ {
				if last(i) >= uint64(r) {
					have++
				}
			}
			if have >= w.group.Threshold {
				break
			}
			time.Sleep(5 * time.Millisecond)
		}
		clk.Advance(period)
		time.Sleep(20 * time.Millisecond)
	}
	got := last(0)
	if got < 1 {
		w.note("handlers: no beacon was produced (last=%d)", got)
	}
	// serve a sync request from node 0's store, the way Protocol.SyncChain does
	st := &syncStream{ctx: ctx, w: w}
	sctx, scancel := context.WithTimeout(ctx, 500*time.Millisecond)
	st.ctx = sctx
	go func() {
		_ = beacon.SyncChain(w.logger.Named("sync"), hs[0].Store(), &pb.SyncRequest{FromRound: 1, Metadata: &pb.Metadata{BeaconID: w.group.ID}}, st)
	}()
	<-sctx.Done()
	scancel()
	// the stored beacons themselves
	_ = stores[0].Cursor(ctx, func(ctx context.Context, c chain.Cursor) error {
		for b, err := c.First(ctx); err == nil && b != nil; b, err = c.Next(ctx) {
			if mb, err := b.Marshal(); err == nil {
				w.cap.add("store.Beacon/json", mb)
			}
			w.cap.add("store.Beacon/raw", append(append([]byte{}, b.Signature...), b.PreviousSig...))
		}
		return nil
	})
	w.note("handlers: head after %d periods = %d, sync stream sent %d", rounds, got, st.n)
	return nil
}

// ---------------------------------------------------------------------------------------------
// (3) three real dkg.Process objects on an in-memory recording DKGClient: proposal, accept,
// execute gossip and the kyber deal / response / justification bundles of a first DKG and of a
// resharing; the resulting real shares are added to the secrets scanned for.

type ident struct{ kp *key.Pair }

func (i ident) KeypairFor(string) (*key.Pair, error) { return i.kp, nil }

type dnode struct {
	kp    *key.Pair
	part  *pdkg.Participant
	store *dkg.BoltStore
	proc  *dkg.Process
	done  chan dkg.SharingOutput
}

type recBus struct {
	w        *schemeWorld
	lastDeal *pdkg.DKGPacket // the latest genuine deal bundle seen on the network
	mu       sync.Mutex
	nodes    map[string]*dnode
	wg       sync.WaitGroup
	off      bool
}

func (b *recBus) get(a string) *dnode {
	b.mu.Lock()
	defer b.mu.Unlock()
	if b.off {
		return nil
	}
	return b.nodes[a]
}

func (b *recBus) Packet(_ context.Context, p dnet.Peer, packet *pdkg.GossipPacket, _ ...grpc.CallOption) (*pdkg.EmptyDKGResponse, error) {
	b.w.cap.recMsg("dkg.GossipPacket", packet)
	n := b.get(p.Address())
	if n == nil {
		return nil, errors.New("no such address")
	}
	// what anyone can send to the node's DKG Packet endpoint: just BEFORE the genuine packet arrives
	// (so in exactly the state in which that kind of packet passes the state checks) the same packet
	// with a signature that does not verify, and packets of the other kinds forged from its public
	// content. Whatever the endpoint answers - the gRPC response or error - is an output.
	for _, f := range missigned(packet) {
		resp, err := n.proc.Packet(context.Background(), f)
		kind := "dkg.Packet.missigned." + gossipKind(f)
		if err != nil {
			b.w.cap.add(kind+"/response-error", []byte(err.Error()))
		} else {
			b.w.cap.recMsg(kind+"/response", resp)
			b.w.note("dkg: a mis-signed %s packet was ACCEPTED", gossipKind(f))
		}
	}
	return n.proc.Packet(context.Background(), proto.Clone(packet).(*pdkg.GossipPacket))
}

func gossipKind(p *pdkg.GossipPacket) string {
	switch p.Packet.(type) {
	case *pdkg.GossipPacket_Proposal:
		return "Proposal"
	case *pdkg.GossipPacket_Accept:
		return "Accept"
	case *pdkg.GossipPacket_Reject:
		return "Reject"
	case *pdkg.GossipPacket_Abort:
		return "Abort"
	case *pdkg.GossipPacket_Execute:
		return "Execute"
	case *pdkg.GossipPacket_Dkg:
		return "DKG"
	}
	return "Unknown"
}

// missigned: variants of a genuine gossip packet that cannot verify. They differ from it (and from
// each other) in the signature, so the duplicate filter does not drop them.
func missigned(p *pdkg.GossipPacket) []*pdkg.GossipPacket {
	if p.GetMetadata() == nil || len(p.GetMetadata().GetSignature()) == 0 {
		return nil
	}
	var out []*pdkg.GossipPacket
	sigVariant := func(k byte) []byte {
		s := append([]byte{}, p.Metadata.Signature...)
		s[len(s)/2] ^= k
		s[0] ^= k
		return s
	}
	// the same packet, signature damaged
	c := proto.Clone(p).(*pdkg.GossipPacket)
	c.Metadata.Signature = sigVariant(0x01)
	out = append(out, c)
	// the other kinds, claiming to come from the same sender
	sender := &pdkg.Participant{Address: p.Metadata.Address}
	mk := func(k byte, set func(g *pdkg.GossipPacket)) {
		g := &pdkg.GossipPacket{Metadata: proto.Clone(p.Metadata).(*pdkg.GossipMetadata)}
		g.Metadata.Signature = sigVariant(k)
		set(g)
		out = append(out, g)
	}
	if p.GetAccept() == nil {
		mk(0x02, func(g *pdkg.GossipPacket) {
			g.Packet = &pdkg.GossipPacket_Accept{Accept: &pdkg.AcceptProposal{Acceptor: sender}}
		})
	}
	mk(0x04, func(g *pdkg.GossipPacket) {
		g.Packet = &pdkg.GossipPacket_Reject{Reject: &pdkg.RejectProposal{Rejector: sender}}
	})
	mk(0x08, func(g *pdkg.GossipPacket) { g.Packet = &pdkg.GossipPacket_Abort{Abort: &pdkg.AbortDKG{Reason: "none"}} })
	if p.GetExecute() == nil {
		mk(0x10, func(g *pdkg.GossipPacket) {
			g.Packet = &pdkg.GossipPacket_Execute{Execute: &pdkg.StartExecution{Time: timestamppb.New(time.Now().Add(time.Hour))}}
		})
	}
	return out
}

func (b *recBus) BroadcastDKG(_ context.Context, p dnet.Peer, in *pdkg.DKGPacket, _ ...grpc.CallOption) (*pdkg.EmptyDKGResponse, error) {
	b.w.cap.recMsg("dkg.DKGPacket", in)
	if in.GetDkg().GetDeal() != nil {
		b.mu.Lock()
		b.lastDeal = proto.Clone(in).(*pdkg.DKGPacket)
		b.mu.Unlock()
	}
	n := b.get(p.Address())
	if n == nil {
		return nil, errors.New("no such address")
	}
	return n.proc.BroadcastDKG(context.Background(), proto.Clone(in).(*pdkg.DKGPacket))
}

// nodeLogger: even nodes log JSON, odd nodes the console format (both captured and scanned)
func (w *schemeWorld) nodeLogger(i int) log.Logger {
	if i%2 == 1 {
		return w.loggerC
	}
	return w.logger
}

// forged returns variants of a genuine deal bundle that cannot verify: another session, a dealer
// index nobody has, a session and signature of garbage. (A bundle with only its signature changed
// hashes like the original and is dropped as a duplicate before any check.)
func forged(p *pdkg.DKGPacket) []*pdkg.DKGPacket {
	var out []*pdkg.DKGPacket
	for mode := 0; mode < 3; mode++ {
		c := proto.Clone(p).(*pdkg.DKGPacket)
		d := c.GetDkg().GetDeal()
		if d == nil {
			return nil
		}
		switch mode {
		case 0:
			d.SessionId = append([]byte{}, d.SessionId...)
			if len(d.SessionId) == 0 {
				d.SessionId = []byte{1}
			}
			d.SessionId[0] ^= 0x55
		case 1:
			d.DealerIndex = 97
		case 2:
			d.SessionId = []byte("another-session-0123456789abcdef")
			d.Signature = []byte("not-a-signature-not-a-signature-not-a-signature-not-a-signature.")
		}
		out = append(out, c)
	}
	return out
}

// unreadableRecord copies node n's real finished record (it holds the node's share) into a DKG
// database of its own, rewrites the stored TOML of both buckets with bbolt so that it names a scheme
// this binary does not know, and asks a real dkg.Process over that database for its status and to
// handle a gossip packet: the errors it returns to the caller, and what it logs, are outputs.
func (w *schemeWorld) unreadableRecord(dir string, n *dnode, id, tag string) error {
	fin, err := n.store.GetFinished(id)
	if err != nil || fin == nil {
		return fmt.Errorf("no finished record to copy: %v", err)
	}
	st, err := dkg.NewDKGStore(dir)
	if err != nil {
		return err
	}
	if err := st.SaveFinished(id, fin); err != nil {
		return err
	}
	if err := st.Close(); err != nil {
		return err
	}
	db, err := bolt.Open(filepath.Join(dir, dkg.BoltFileName), 0o600, &bolt.Options{Timeout: 2 * time.Second})
	if err != nil {
		return err
	}
	rewritten := 0
	err = db.Update(func(tx *bolt.Tx) error {
		for _, bn := range []string{"dkg", "dkg_finished"} {
			b := tx.Bucket([]byte(bn))
			if b == nil {
				continue
			}
			v := b.Get([]byte(id))
			if v == nil {
				continue
			}
			nv := strings.ReplaceAll(string(v), "\""+fin.SchemeID+"\"", "\"bls-unchained-future-scheme\"")
			if nv != string(v) {
				rewritten++
			}
			if err := b.Put([]byte(id), []byte(nv)); err != nil {
				return err
			}
		}
		return nil
	})
	_ = db.Close()
	if err != nil {
		return err
	}
	if rewritten == 0 {
		return errors.New("the stored record does not name the scheme")
	}
	st2, err := dkg.NewDKGStore(dir)
	if err != nil {
		return err
	}
	for fmtI, lg := range []log.Logger{w.logger, w.loggerC} {
		_ = fmtI
		proc := dkg.NewDKGProcess(st2, ident{n.kp}, util.NewFanOutChan[dkg.SharingOutput](), &recBus{w: w, nodes: map[string]*dnode{}}, nil,
			dkg.Config{Timeout: time.Minute, TimeBetweenDKGPhases: time.Second, KickoffGracePeriod: time.Second}, lg.Named("dkg-unreadable"))
		// control port: dkg status
		resp, err := proc.DKGStatus(context.Background(), &pdkg.DKGStatusRequest{BeaconID: id})
		if err != nil {
			w.cap.add("dkg.DKGStatus.unreadable-record@"+tag+"/response-error", []byte(err.Error()))
			lg.Errorw("dkg status failed", "err", err) // what the daemon's caller (CLI) prints / the interceptors log
		} else {
			w.cap.recMsg("dkg.DKGStatus.unreadable-record@"+tag+"/response", resp)
		}
		// private port: any gossip packet makes the node read its current record
		gp := &pdkg.GossipPacket{Packet: &pdkg.GossipPacket_Abort{Abort: &pdkg.AbortDKG{Reason: "none"}},
			Metadata: &pdkg.GossipMetadata{BeaconID: id, Address: n.kp.Public.Addr, Signature: []byte("not-a-signature-not-a-signature-not-a-signature-not-a-signature.")}}
		gresp, err := proc.Packet(context.Background(), gp)
		if err != nil {
			w.cap.add("dkg.Packet.unreadable-record@"+tag+"/response-error", []byte(err.Error()))
			lg.Errorw("dkg packet failed", "err", err)
		} else {
			w.cap.recMsg("dkg.Packet.unreadable-record@"+tag+"/response", gresp)
		}
		// and a command from the operator
		_, err = proc.Command(context.Background(), &pdkg.DKGCommand{Metadata: &pdkg.CommandMetadata{BeaconID: id}, Command: &pdkg.DKGCommand_Abort{Abort: &pdkg.AbortOptions{}}})
		if err != nil {
			w.cap.add("dkg.Command.unreadable-record@"+tag+"/response-error", []byte(err.Error()))
		}
	}
	return st2.Close()
}

func (w *schemeWorld) dkgPart(tmp string, reshare bool) error {
	id := common.DefaultBeaconID
	bus := &recBus{w: w, nodes: map[string]*dnode{}}
	var nodes []*dnode
	phase := 1500 * time.Millisecond
	for i, kp := range w.pairs {
		dir := filepath.Join(tmp, fmt.Sprintf("dkg%d", i))
		st, err := dkg.NewDKGStore(dir)
		if err != nil {
			return err
		}
		part, err := util.PublicKeyAsParticipant(kp.Public)
		if err != nil {
			return err
		}
		out := util.NewFanOutChan[dkg.SharingOutput]()
		n := &dnode{kp: kp, part: part, store: st}
		n.proc = dkg.NewDKGProcess(st, ident{kp}, out, bus, nil,
			dkg.Config{Timeout: time.Minute, TimeBetweenDKGPhases: phase, KickoffGracePeriod: 600 * time.Millisecond},
			w.nodeLogger(i).Named(fmt.Sprintf("dkg%d", i)))
		n.done = out.Listen()
		bus.nodes[kp.Public.Addr] = n
		nodes = append(nodes, n)
	}
	defer func() {
		bus.mu.Lock()
		bus.off = true
		bus.mu.Unlock()
		for _, n := range nodes {
			func() {
				defer func() { _ = recover() }()
				n.proc.Close()
			}()
		}
	}()
	cmd := func(n *dnode, c *pdkg.DKGCommand) error {
		c.Metadata = &pdkg.CommandMetadata{BeaconID: id}
		_, err := n.proc.Command(context.Background(), c)
		return err
	}
	waitState := func(n *dnode, want dkg.Status, epoch uint32) error {
		deadline := time.Now().Add(8 * time.Second)
		for time.Now().Before(deadline) {
			cur, err := n.store.GetCurrent(id)
			if err == nil && cur.State == want && cur.Epoch == epoch {
				return nil
			}
			time.Sleep(10 * time.Millisecond)
		}
		return fmt.Errorf("node %s did not reach %s/%d", n.kp.Public.Addr, want.String(), epoch)
	}
	status := func(tag string) {
		for i, n := range nodes {
			r, err := n.proc.DKGStatus(context.Background(), &pdkg.DKGStatusRequest{BeaconID: id})
			if err == nil {
				w.cap.recMsg(fmt.Sprintf("dkg.DKGStatus@%s", tag), r)
			}
			_ = i
		}
	}
	collect := func(epoch uint32, wait time.Duration) error {
		deadline := time.Now().Add(wait)
		for i, n := range nodes {
			got := false
			for !got {
				select {
				case so := <-n.done:
					if so.New.Epoch == epoch {
						got = true
					}
				case <-time.After(time.Until(deadline)):
					return fmt.Errorf("dkg node %d did not complete epoch %d", i, epoch)
				}
			}
			fin, err := n.store.GetFinished(id)
			if err != nil || fin == nil || fin.KeyShare == nil {
				return fmt.Errorf("dkg node %d: no finished record", i)
			}
			w.addSecret(fmt.Sprintf("dkg-node%d-epoch%d-share", i, epoch), fin.KeyShare.Share.V)
		}
		return nil
	}
	parts := make([]*pdkg.Participant, len(nodes))
	for i, n := range nodes {
		parts[i] = n.part
	}
	start := time.Now()
	err := cmd(nodes[0], &pdkg.DKGCommand{Command: &pdkg.DKGCommand_Initial{Initial: &pdkg.FirstProposalOptions{
		Timeout: timestamppb.New(start.Add(40 * time.Second)), Threshold: uint32(w.group.Threshold), PeriodSeconds: 3, Scheme: w.sch.Name,
		CatchupPeriodSeconds: 1, GenesisTime: timestamppb.New(start.Add(30 * time.Second)), Joining: parts}}})
	if err != nil {
		return fmt.Errorf("initial proposal: %w", err)
	}
	for _, n := range nodes[1:] {
		if err := waitState(n, dkg.Proposed, 1); err != nil {
			return err
		}
		if err := cmd(n, &pdkg.DKGCommand{Command: &pdkg.DKGCommand_Join{Join: &pdkg.JoinOptions{}}}); err != nil {
			return fmt.Errorf("join: %w", err)
		}
	}
	status("proposed")
	if err := cmd(nodes[0], &pdkg.DKGCommand{Command: &pdkg.DKGCommand_Execute{Execute: &pdkg.ExecutionOptions{}}}); err != nil {
		return fmt.Errorf("execute: %w", err)
	}
	if err := collect(1, 4*phase+12*time.Second); err != nil {
		return err
	}
	status("epoch1")
	w.note("dkg: first DKG completed in %.1fs", time.Since(start).Seconds())
	badPackets := func(tag string) {
		bus.mu.Lock()
		ld := bus.lastDeal
		bus.mu.Unlock()
		if ld == nil {
			w.note("dkg: no deal bundle seen, no forged packet sent (%s)", tag)
			return
		}
		sent, refused := 0, 0
		for i, n := range nodes {
			for _, f := range forged(ld) {
				// what anyone can send to the node's private port while its broadcast board is registered
				_, err := n.proc.BroadcastDKG(context.Background(), f)
				sent++
				if err != nil {
					refused++
					w.cap.add(fmt.Sprintf("dkg.BroadcastDKG.forged@%s/response-error", tag), []byte(err.Error()))
				}
				// and the same bundle wrapped as a gossip packet (the Packet endpoint forwards it)
				gp := &pdkg.GossipPacket{Packet: &pdkg.GossipPacket_Dkg{Dkg: f}, Metadata: &pdkg.GossipMetadata{BeaconID: id, Address: n.kp.Public.Addr, Signature: []byte("not-a-signature-not-a-signature-not-a-signature-not-a-signature.")}}
				if _, err := n.proc.Packet(context.Background(), gp); err != nil {
					w.cap.add(fmt.Sprintf("dkg.Packet.missigned.DKG@%s/response-error", tag), []byte(err.Error()))
				}
			}
			_ = i
		}
		w.note("dkg: %d forged deal bundles sent after %s, %d refused", sent, tag, refused)
	}
	badPackets("epoch1")
	// a stored record that still decodes as TOML but that this binary rejects (written by a newer
	// version: a scheme it does not know): what do DKGStatus and the Packet endpoint answer then?
	unreadable := func(tag string) {
		if err := w.unreadableRecord(filepath.Join(tmp, "dkg-unreadable-"+tag), nodes[0], id, tag); err != nil {
			w.note("dkg: unreadable-record scenario (%s) did not run: %v", tag, err)
		}
	}
	unreadable("epoch1")
	if !reshare {
		return nil
	}
	time.Sleep(300 * time.Millisecond)
	start2 := time.Now()
	fin0, _ := nodes[0].store.GetFinished(id)
	var gb bytes.Buffer
	_ = toml.NewEncoder(&gb).Encode(fin0.FinalGroup.TOML())
	err = cmd(nodes[0], &pdkg.DKGCommand{Command: &pdkg.DKGCommand_Resharing{Resharing: &pdkg.ProposalOptions{
		Timeout: timestamppb.New(start2.Add(40 * time.Second)), Threshold: uint32(w.group.Threshold), CatchupPeriodSeconds: 1,
		Remaining: parts}}})
	if err != nil {
		return fmt.Errorf("reshare proposal: %w", err)
	}
	for _, n := range nodes[1:] {
		if err := waitState(n, dkg.Proposed, 2); err != nil {
			return err
		}
		if err := cmd(n, &pdkg.DKGCommand{Command: &pdkg.DKGCommand_Accept{Accept: &pdkg.AcceptOptions{}}}); err != nil {
			return fmt.Errorf("accept: %w", err)
		}
	}
	if err := cmd(nodes[0], &pdkg.DKGCommand{Command: &pdkg.DKGCommand_Execute{Execute: &pdkg.ExecutionOptions{}}}); err != nil {
		return fmt.Errorf("execute reshare: %w", err)
	}
	if err := collect(2, 4*phase+12*time.Second); err != nil {
		return err
	}
	status("epoch2")
	w.note("dkg: resharing completed in %.1fs", time.Since(start2).Seconds())
	badPackets("epoch2")
	unreadable("epoch2")
	return nil
}
