package engsecrecy

import (
	"os"
	"path/filepath"

	"github.com/drand/drand/v2/common"
	"github.com/drand/drand/v2/common/key"
)

// faultPart exercises the FAILURE paths of the key store: saving and loading the private key,
// the share and the group when the target folders have vanished, are read-only, or a path
// component is a regular file. Whatever the store returns as an error is what its callers log
// (e.g. BeaconProcess.onDKGCompleted logs the SaveShare error verbatim) or print (key generation
// CLI), so every error text is recorded as an output and also written through the node's
// logger; both are scanned for the secrets like any other output.
func (w *schemeWorld) faultPart(tmp string) error {
	type fault struct {
		name  string
		break_ func(dir string)
	}
	faults := []fault{
		{"folders-removed", func(dir string) { _ = os.RemoveAll(dir); _ = os.WriteFile(dir, []byte("x"), 0o600) }},
		{"read-only", func(dir string) {
			_ = filepath.Walk(dir, func(p string, info os.FileInfo, err error) error {
				if err == nil && info.IsDir() {
					_ = os.Chmod(p, 0o500)
				}
				return nil
			})
		}},
		{"targets-are-directories", func(dir string) {
			_ = filepath.Walk(dir, func(p string, info os.FileInfo, err error) error {
				if err == nil && !info.IsDir() {
					_ = os.Remove(p)
					_ = os.Mkdir(p, 0o700)
				}
				return nil
			})
		}},
	}
	for _, f := range faults {
		dir := filepath.Join(tmp, "faulty-"+f.name)
		store := key.NewFileStore(dir, common.DefaultBeaconID)
		// a first successful save creates the files (needed by the "targets are directories" fault)
		_ = store.SaveKeyPair(w.pairs[0])
		_ = store.SaveShare(w.shares[0])
		_ = store.SaveGroup(w.group)
		f.break_(dir)
		rec := func(op string, err error) {
			if err == nil {
				return
			}
			w.cap.add("keystore."+f.name+"."+op+"/error", []byte(err.Error()))
			w.logger.Errorw("key store operation failed", "op", op, "err", err)
		}
		rec("SaveKeyPair", store.SaveKeyPair(w.pairs[0]))
		rec("SaveShare", store.SaveShare(w.shares[0]))
		rec("SaveGroup", store.SaveGroup(w.group))
		_, err := store.LoadKeyPair()
		rec("LoadKeyPair", err)
		_, err = store.LoadShare()
		rec("LoadShare", err)
		_, err = store.LoadGroup()
		rec("LoadGroup", err)
		rec("Reset", store.Reset())
		// restore permissions so that the temp dir can be removed
		_ = filepath.Walk(filepath.Dir(dir), func(p string, info os.FileInfo, err error) error {
			if err == nil && info.IsDir() {
				_ = os.Chmod(p, 0o700)
			}
			return nil
		})
	}
	return nil
}
