// Package engsecrecy is the validation engine for C15: file modes of everything the real code
// creates under a config folder for several umasks (K against Model/Secrecy.v, M: no group/other
// bit on a file that holds a secret), and a byte scan of every output the harness can obtain
// from the real service objects for the nodes' secret scalars (M).
package engsecrecy

import (
	"bytes"
	"encoding/base64"
	"encoding/hex"
	"math/big"
	"sort"
	"strconv"
	"strings"
	"sync"
)

// secret is one scalar that must never appear in an output, with the byte forms searched for.
type secret struct {
	Name  string
	forms []form
}

type form struct {
	name string
	b    []byte
}

func rev(b []byte) []byte {
	o := make([]byte, len(b))
	for i := range b {
		o[len(b)-1-i] = b[i]
	}
	return o
}

// b64Aligned returns, for each of the three alignments of raw inside a longer byte string, the
// base64 characters that are determined by raw alone.
func b64Aligned(enc *base64.Encoding, raw []byte) [][]byte {
	var out [][]byte
	for s := 0; s < 3; s++ {
		buf := append(make([]byte, s), raw...)
		buf = append(buf, 0, 0, 0)
		e := enc.EncodeToString(buf)
		lo := (8*s + 5) / 6
		hi := (8 * (s + len(raw))) / 6
		if hi > len(e) {
			hi = len(e)
		}
		out = append(out, []byte(e[lo:hi]))
	}
	return out
}

func newSecret(name string, raw []byte) secret {
	s := secret{Name: name}
	add := func(n string, b []byte) {
		if len(b) >= 16 {
			s.forms = append(s.forms, form{n, b})
		}
	}
	add("raw", raw)
	add("raw-le", rev(raw))
	h := hex.EncodeToString(raw)
	add("hex", []byte(h))
	add("HEX", []byte(strings.ToUpper(h)))
	add("hex-le", []byte(hex.EncodeToString(rev(raw))))
	for i, b := range b64Aligned(base64.StdEncoding, raw) {
		add("base64/"+string(rune('0'+i)), b)
	}
	for i, b := range b64Aligned(base64.URLEncoding, raw) {
		add("base64url/"+string(rune('0'+i)), b)
	}
	// decimal big integers: what encoding/json (zap's reflection encoder) prints for the big.Int inside a
	// kyber scalar, for the big-endian and the little-endian reading of the scalar's bytes
	add("decimal", []byte(new(big.Int).SetBytes(raw).String()))
	add("decimal-le", []byte(new(big.Int).SetBytes(rev(raw)).String()))
	// the bytes as a list of numbers: JSON array / Go %v of a byte slice or array
	for _, v := range []struct {
		n string
		b []byte
	}{{"bytes", raw}, {"bytes-le", rev(raw)}} {
		for _, sep := range []struct{ n, s string }{{"json-array", ","}, {"json-array-sp", ", "}, {"go-v", " "}} {
			parts := make([]string, len(v.b))
			for i, x := range v.b {
				parts[i] = strconv.Itoa(int(x))
			}
			add(v.n+"/"+sep.n, []byte(strings.Join(parts, sep.s)))
		}
	}
	if len(raw) >= 32 {
		add("raw-prefix16", raw[:16])
		add("raw-suffix16", raw[len(raw)-16:])
		add("hex-prefix16", []byte(h[:32]))
		add("hex-suffix16", []byte(h[len(h)-32:]))
	}
	return s
}

// hits returns the names of the forms of s found in blob.
func (s secret) hits(blob []byte) []string {
	var out []string
	for _, f := range s.forms {
		if bytes.Contains(blob, f.b) {
			out = append(out, f.name)
		}
	}
	return out
}

// capture collects named outputs.
type capture struct {
	mu   sync.Mutex
	outs map[string][][]byte
}

func newCapture() *capture { return &capture{outs: map[string][][]byte{}} }

func (c *capture) add(kind string, blob []byte) {
	if len(blob) == 0 {
		return
	}
	c.mu.Lock()
	c.outs[kind] = append(c.outs[kind], append([]byte{}, blob...))
	c.mu.Unlock()
}

func (c *capture) kinds() []string {
	c.mu.Lock()
	defer c.mu.Unlock()
	var ks []string
	for k := range c.outs {
		ks = append(ks, k)
	}
	sort.Strings(ks)
	return ks
}
