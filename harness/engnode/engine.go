package engnode

import (
	"fmt"
	"math/rand"
	"os"
	"sort"
	"strings"
	"time"

	"github.com/drand/drand/v2/common"
	"github.com/drand/drand/v2/crypto"
	"github.com/drand/drand/v2/zzverif/emit"
)

// ids maps byte strings to the abstract identifiers used by the Coq model:
// empty -> -1, signature of reference round r -> r (the genesis seed is round 0), anything else
// -> a fresh id >= 1000000 in order of first appearance.
type ids struct {
	w     *World
	m     map[string]int64
	bytes map[int64][]byte
	next  int64
}

func newIDs(w *World) *ids {
	return &ids{w: w, m: map[string]int64{}, bytes: map[int64][]byte{-1: nil}, next: 1000000}
}

func (t *ids) id(b []byte) int64 {
	if len(b) == 0 {
		return -1
	}
	if v, ok := t.m[string(b)]; ok {
		return v
	}
	for r, rb := range t.w.ref {
		if string(rb.Signature) == string(b) {
			t.m[string(b)] = int64(r)
			t.bytes[int64(r)] = b
			return int64(r)
		}
	}
	t.next++
	t.m[string(b)] = t.next
	t.bytes[t.next] = append([]byte{}, b...)
	return t.next
}

// scenario: harness events plus, for each, the model events they correspond to
type step struct {
	ev           Event
	obs          Obs
	tickingAfter bool // the handler was running (ticker live) when the event ended
	syncOnAfter  bool // peers were answering sync requests
	// filled by the generator right before the event is executed: admissible orders of the
	// model events this harness event stands for
	model [][]string
}

type caseRun struct {
	w         *World
	r         *runner
	t         *ids
	steps     []step
	parts     map[[3]int64]bool // (round, prev id, psig id) seen in part events
	rp        map[[2]int64]bool // (round, prev id) combos that need sigtab / own entries
	maxR      uint64
	syncOn    bool
	desc      string
	ticksSeen int // ticks handled since the handler was (re)started
	ownCopies int // directed own-copy scenarios after a resharing that moved the node's index
}

func grpTerm(poly int, ep *Epoch, me int) string {
	mem := make([]string, len(ep.Members))
	for i, m := range ep.Members {
		mem[i] = fmt.Sprint(m)
	}
	meIdx := me
	if me >= ep.N {
		meIdx = -5
	}
	return fmt.Sprintf("(mkG %d %d %s %s)", poly, ep.Thr, emit.List(mem), emit.Z(int64(meIdx)))
}

func beaconTerm(r uint64, prev, sig int64) string {
	return fmt.Sprintf("(mkB %d %s %s)", r, emit.Z(prev), emit.Z(sig))
}

// syncList is what an honest peer streams at this moment: reference beacons head+1 .. current round.
func (c *caseRun) syncTerm() string {
	if !c.syncOn {
		return "None"
	}
	head, cur := c.w.Head(), c.w.CurrentRound()
	var bs []string
	for r := head + 1; r <= cur; r++ {
		b := c.w.RefBeacon(r)
		bs = append(bs, beaconTerm(r, c.t.id(b.PreviousSig), c.t.id(b.Signature)))
		if r > c.maxR {
			c.maxR = r
		}
	}
	return "(Some " + emit.List(bs) + ")"
}

// do runs one harness event, computing the corresponding model events first (they depend on the
// state before the event: clock and head).
func (c *caseRun) do(ev Event) Obs {
	w := c.w
	var model []string
	var alts [][]string
	switch ev.Kind {
	case "start":
	case "adv":
		old, nw := w.Now(), w.Now()+ev.D
		model = append(model, fmt.Sprintf("EAdv %d", ev.D))
		// ticks happen at genesis + k*period
		if nw >= w.Genesis {
			k := (nw - w.Genesis) / w.Period
			tt := w.Genesis + k*w.Period
			if tt > old && c.r.ticking && !c.r.holding {
				c.ticksSeen++
				st := c.syncTermAt(nw)
				tick := fmt.Sprintf("ETick %d %s", k+1, st)
				model = append(model, tick)
				// the ticker and a catch-up sleeper woken by the same advance run concurrently
				alts = append(alts, []string{fmt.Sprintf("EClock %d", ev.D), tick, "EFire"})
				if st != "None" {
					// so do the sync manager and the aggregator
					tsf := fmt.Sprintf("ETickSF %d %s", k+1, st)
					alts = append(alts, []string{fmt.Sprintf("EAdv %d", ev.D), tsf}, []string{fmt.Sprintf("EClock %d", ev.D), tsf, "EFire"})
				}
			}
		}
	case "part":
		prev := c.r.prevBytes(ev.Prev, ev.Round)
		_ = prev
	case "stop":
		model = append(model, "EStop")
		c.r.ticking = false
	case "restart":
		model = append(model, "ERestart "+c.syncTerm())
		c.r.ticking = true
		c.ticksSeen = 0 // the first tick of a fresh ticker does not come from its time.Ticker
	case "syncmode":
		c.syncOn = ev.Sync == "honest"
	case "transition":
	case "hold":
	}
	stBefore := "None"
	if ev.Kind == "release" || ev.Kind == "part" {
		stBefore = c.syncTerm()
	}
	o := c.r.Do(ev)
	if ev.Kind == "release" && c.r.lastStale > 0 {
		// the pending tick is consumed now, carrying the round of the instant it was generated
		tick := fmt.Sprintf("ETick %d %s", c.r.lastStale, stBefore)
		model = append(model, tick)
		if stBefore != "None" {
			alts = append(alts, []string{fmt.Sprintf("ETickSF %d %s", c.r.lastStale, stBefore)})
		}
	}
	if ev.Kind == "part" {
		pid, sid := c.t.id(c.r.lastPrev), c.t.id(c.r.lastSig)
		model = append(model, fmt.Sprintf("EPart %d %s %s", ev.Round, emit.Z(pid), emit.Z(sid)))
		if len(o.Syncs) > 0 && strings.HasPrefix(stBefore, "(Some ") {
			// the aggregator recovered a beacon that is not the head's successor and asked the sync
			// manager for the rounds up to it; the peers answered
			model = append(model, fmt.Sprintf("ESynced %d %s", ev.Round, strings.TrimSuffix(strings.TrimPrefix(stBefore, "(Some "), ")")))
		}
		c.parts[[3]int64{int64(ev.Round), pid, sid}] = true
		c.rp[[2]int64{int64(ev.Round), pid}] = true
		if ev.Round > c.maxR {
			c.maxR = ev.Round
		}
	}
	if ev.Kind == "transition" {
		ep := w.cur()
		model = append(model, fmt.Sprintf("ETransition %d %s", c.r.lastTarget, grpTerm(len(w.Epochs)-1, ep, ep.Me)))
	}
	ms := append([][]string{model}, alts...)
	c.steps = append(c.steps, step{ev: ev, obs: o, model: ms, tickingAfter: c.r.ticking, syncOnAfter: c.syncOn})
	return o
}

// syncTermAt: the honest stream as of clock value nw (the tick is handled after the advance).
func (c *caseRun) syncTermAt(nw int64) string {
	if !c.syncOn {
		return "None"
	}
	head := c.w.Head()
	cur := common.CurrentRound(nw, time.Duration(c.w.Period)*time.Second, c.w.Genesis)
	var bs []string
	for r := head + 1; r <= cur; r++ {
		b := c.w.RefBeacon(r)
		bs = append(bs, beaconTerm(r, c.t.id(b.PreviousSig), c.t.id(b.Signature)))
		if r > c.maxR {
			c.maxR = r
		}
	}
	return "(Some " + emit.List(bs) + ")"
}

// term renders the whole case as a Coq ncase.
func (c *caseRun) term() string {
	w := c.w
	t := c.t
	// own partials and signature table for every (round, prev) that can matter
	for r := uint64(1); r <= c.maxR+2; r++ {
		c.rp[[2]int64{int64(r), int64(r) - 1}] = true
		c.rp[[2]int64{int64(r), -1}] = true
		_ = w.RefBeacon(r)
	}
	// make sure ids of reference signatures are registered
	for r := uint64(0); r <= c.maxR+2; r++ {
		t.id(w.RefBeacon(r).Signature)
	}
	var idxT, vpartT, sigT, vrecT, ownT []string
	seenIdx := map[int64]bool{}
	addIdx := func(sid int64) {
		if seenIdx[sid] {
			return
		}
		seenIdx[sid] = true
		i, err := w.Sch.ThresholdScheme.IndexOf(t.bytes[sid])
		if err != nil {
			i = -1
		}
		idxT = append(idxT, fmt.Sprintf("(%s, %s)", emit.Z(sid), emit.Z(int64(i))))
	}
	rps := make([][2]int64, 0, len(c.rp))
	for k := range c.rp {
		rps = append(rps, k)
	}
	sort.Slice(rps, func(i, j int) bool { return rps[i][0] < rps[j][0] || (rps[i][0] == rps[j][0] && rps[i][1] < rps[j][1]) })
	for _, k := range rps {
		r, pid := uint64(k[0]), k[1]
		prev := t.bytes[pid]
		// own partials per epoch
		for e, ep := range w.Epochs {
			if ep.Me < ep.N {
				ps := w.Partial(e, ep.Me, r, prev)
				sid := t.id(ps)
				addIdx(sid)
				ownT = append(ownT, fmt.Sprintf("(%d, %d, %s, %s)", e, r, emit.Z(pid), emit.Z(sid)))
				for e2, ep2 := range w.Epochs {
					if w.Sch.ThresholdScheme.VerifyPartial(ep2.PubPoly, w.Digest(r, prev), ps) == nil {
						vpartT = append(vpartT, fmt.Sprintf("(%d, %d, %s, %s)", e2, r, emit.Z(pid), emit.Z(sid)))
					}
				}
			}
		}
		// the unique signature on (round, prev), recovered independently from thr honest partials
		ep := w.Epochs[0]
		msg := w.Digest(r, prev)
		var parts [][]byte
		for i := 0; i < ep.Thr; i++ {
			s, _ := w.Sch.ThresholdScheme.Sign(ep.Shares[i].PrivateShare(), msg)
			parts = append(parts, s)
		}
		sig, err := w.Sch.ThresholdScheme.Recover(ep.PubPoly, msg, parts, ep.Thr, ep.N)
		if err == nil {
			sid := t.id(sig)
			sigT = append(sigT, fmt.Sprintf("(%d, %s, %s)", r, emit.Z(pid), emit.Z(sid)))
			if w.Sch.VerifyBeacon(&common.Beacon{Round: r, PreviousSig: prev, Signature: sig}, ep.PubPoly.Commit()) == nil {
				vrecT = append(vrecT, fmt.Sprintf("(%d, %s, %s)", r, emit.Z(pid), emit.Z(sid)))
			}
		}
	}
	// partial events: index and validity under every epoch polynomial
	pk := make([][3]int64, 0, len(c.parts))
	for k := range c.parts {
		pk = append(pk, k)
	}
	sort.Slice(pk, func(i, j int) bool {
		for x := 0; x < 3; x++ {
			if pk[i][x] != pk[j][x] {
				return pk[i][x] < pk[j][x]
			}
		}
		return false
	})
	for _, k := range pk {
		r, pid, sid := uint64(k[0]), k[1], k[2]
		addIdx(sid)
		for e, ep := range w.Epochs {
			if w.Sch.ThresholdScheme.VerifyPartial(ep.PubPoly, w.Digest(r, t.bytes[pid]), t.bytes[sid]) == nil {
				vpartT = append(vpartT, fmt.Sprintf("(%d, %d, %s, %s)", e, r, emit.Z(pid), emit.Z(sid)))
			}
		}
	}
	// events and observations
	var evs, obs []string
	for _, s := range c.steps {
		var alts []string
		for _, m := range s.model {
			alts = append(alts, emit.List(m))
		}
		evs = append(evs, emit.List(alts))
		var puts, emits []string
		for _, p := range s.obs.Puts {
			puts = append(puts, beaconTerm(p.Round, p.Prev, p.Sig))
		}
		em := append([]EmitObs{}, s.obs.Emits...)
		sort.Slice(em, func(i, j int) bool {
			if em[i].Round != em[j].Round {
				return em[i].Round < em[j].Round
			}
			if em[i].Prev != em[j].Prev {
				return em[i].Prev < em[j].Prev
			}
			return em[i].Clock < em[j].Clock
		})
		for _, e := range em {
			emits = append(emits, fmt.Sprintf("(%d, %s, %s, %d)", e.Round, emit.Z(e.Prev), emit.Z(e.SigID), e.Clock))
		}
		obs = append(obs, fmt.Sprintf("(%s, %s, %s)", emit.Bool(s.obs.Rejected), emit.List(puts), emit.List(emits)))
	}
	ep0 := w.Epochs[0]
	return fmt.Sprintf("mkNC %s %d %d %d %d %s %s\n    %s\n    %s\n    %s\n    %s\n    %s\n    %s\n    %s",
		emit.Bool(w.Chained()), w.Period, w.Genesis, w.Catchup, c.r.now0, emit.Z(0), grpTerm(0, ep0, ep0.Me),
		emit.List(idxT), emit.List(vpartT), emit.List(sigT), emit.List(vrecT), emit.List(ownT),
		emit.List(evs), emit.List(obs))
}

func newCase(sch *crypto.Scheme, n, thr, me int, period, genesis, now int64, store, desc string, maxRounds int, vacant ...int) (*caseRun, error) {
	w, err := NewWorld(sch, n, thr, me, period, genesis, now, store, vacant...)
	if err != nil {
		return nil, err
	}
	c := &caseRun{w: w, t: newIDs(w), parts: map[[3]int64]bool{}, rp: map[[2]int64]bool{}, desc: desc}
	c.r = &runner{w: w, settleMs: 25, t: c.t, now0: now, ticking: true}
	// the reference chain is computed up front so that its signatures get their round as id
	for r := uint64(0); r <= uint64(maxRounds); r++ {
		c.t.id(w.RefBeacon(r).Signature)
	}
	return c, nil
}

// ---------------------------------------------------------------------------------------------

var mutations = []string{"", "", "", "flip", "trunc", "short", "wrongmsg", "msgcur", "msgm1"}

// advance moves the node's clock by d seconds (at most up to the next round boundary) so that a
// woken catch-up sleeper and a tick never fall into the same clock advance: the node never rests
// at the offset from which a sleeper would be due exactly at a boundary, and a boundary is
// reached by a separate one-second step.
func (c *caseRun) advance(d int64) {
	w := c.w
	if d <= 0 {
		return
	}
	off := func(t int64) int64 { return ((t-w.Genesis)%w.Period + w.Period) % w.Period }
	forbidden := (w.Period - w.Catchup%w.Period) % w.Period
	target := w.Now() + d
	if off(target) == forbidden && off(target) != 0 {
		target++ // still inside the round or exactly the boundary
	}
	if off(target) == 0 && target-1 > w.Now() {
		c.do(Event{Kind: "adv", D: target - 1 - w.Now()})
	}
	if target > w.Now() {
		c.do(Event{Kind: "adv", D: target - w.Now()})
	}
}

// pickVacant chooses the share indices that no member holds in a group of `members` members
// containing index me: half of the groups have none (contiguous indices 0..n-1), the others one or
// two gaps as left by participants that did not make it into QUAL.
func pickVacant(rng *rand.Rand, members, me int) []int {
	g := []int{0, 0, 1, 2}[rng.Intn(4)]
	if members+g <= me { // me must be one of the dealt indices
		g = 0
	}
	var out []int
	for len(out) < g {
		v := rng.Intn(members + g)
		dup := v == me
		for _, o := range out {
			dup = dup || o == v
		}
		if !dup {
			out = append(out, v)
		}
	}
	return out
}

// genScenario drives a random scenario through the node under test.
func genScenario(c *caseRun, rng *rand.Rand, steps int) {
	w := c.w
	n := w.Epochs[0].N
	c.do(Event{Kind: "start"})
	// before genesis no round has started: only round 1 is "one round ahead of the clock"
	if rng.Intn(2) == 0 {
		for k := 0; k < 1+rng.Intn(3); k++ {
			from := rng.Intn(n)
			c.do(Event{Kind: "part", From: from, Claim: from, Round: uint64(1 + rng.Intn(3)), Prev: "ref", Ep: 0})
		}
	}
	// reach genesis
	c.advance(w.Genesis - w.Now())
	// the round after the stored head is not signed yet (its time has not come): a copy of the
	// node's OWN partial for it (index of the live epoch -- after a resharing often not the index
	// the node started with) plus threshold-1 partials of other members must NOT make a beacon
	ownCopy := func(live int, round uint64) bool {
		ep := w.Epochs[live]
		me := ep.Me
		if me >= ep.N || ep.Thr < 2 {
			return false
		}
		c.do(Event{Kind: "part", From: me, Claim: me, Round: round, Prev: "ref", Ep: live})
		cnt := 0
		for j := 0; j < ep.N && cnt < ep.Thr-1; j++ {
			if j == me || !ep.IsMember(j) {
				continue
			}
			c.do(Event{Kind: "part", From: j, Claim: j, Round: round, Prev: "ref", Ep: live})
			cnt++
		}
		return true
	}
	transitioned := false
	wantTransition := rng.Intn(2) == 0
	for i := 0; i < steps; i++ {
		cur := w.CurrentRound()
		head := w.Head()
		// the epoch whose shares count at the node right now
		live := 0
		for i, e := range w.Epochs {
			if e.Group == w.H.VerifLiveGroup() {
				live = i
			}
		}
		n = w.Epochs[live].N
		ep := live
		if transitioned && rng.Intn(5) == 0 {
			ep = rng.Intn(len(w.Epochs)) // sometimes a share of the other epoch
		}
		if wantTransition && !transitioned && i > steps/3 && c.r.ticking {
			// reshare: new polynomial for the same secret, possibly another size / threshold
			shapes := [][2]int{{3, 2}, {4, 3}, {5, 3}, {4, 2}, {5, 4}}
			sh := shapes[rng.Intn(len(shapes))]
			// drand assigns indices by the order of the participants' keys: with leavers and joiners
			// the node often holds ANOTHER index in the new group
			meNew := w.Me
			if rng.Intn(2) == 0 {
				meNew = rng.Intn(sh[0])
			}
			if sh[0] <= meNew {
				sh = [2]int{meNew + 1, meNew/2 + 1}
				if sh[1] < 2 && sh[0] > 1 {
					sh[1] = 2
				}
			}
			// the new group takes over at a round that is not stored yet (the head may be one ahead of the clock)
			first := cur
			if head > first {
				first = head
			}
			firstNew := first + 2 + uint64(rng.Intn(2))
			c.do(Event{Kind: "transition", From: sh[0], Claim: sh[1], Round: firstNew, Vacant: pickVacant(rng, sh[0], meNew), MeIdx: meNew + 1})
			transitioned = true
			moved := meNew != w.Epochs[live].Me
			if moved && c.syncOn {
				c.do(Event{Kind: "syncmode", Sync: "off"})
			}
			if (moved || rng.Intn(2) == 0) && !c.syncOn {
				// drive the chain across the switch, one partial of the live group at a time: the rounds
				// before the switch need the OLD threshold, the rounds after it the NEW one (of the new
				// polynomial), not one partial less
				for guard := 0; w.Head() < firstNew+1 && guard < 8; guard++ {
					if w.CurrentRound() < w.Head()+1 {
						c.advance(w.Genesis + int64(w.CurrentRound())*w.Period - w.Now())
					}
					lv := 0
					for i, e := range w.Epochs {
						if e.Group == w.H.VerifLiveGroup() {
							lv = i
						}
					}
					want := w.Head() + 1
					for j := 0; j < w.Epochs[lv].N && w.Head() < want; j++ {
						if j == w.Epochs[lv].Me || !w.Epochs[lv].IsMember(j) {
							continue
						}
						c.do(Event{Kind: "part", From: j, Claim: j, Round: want, Prev: "ref", Ep: lv})
					}
				}
				// the new group is live: the own-index guard must follow the node's NEW index
				if w.Head() >= firstNew && w.Head() == w.CurrentRound() && c.r.ticking {
					for i, e := range w.Epochs {
						if e.Group == w.H.VerifLiveGroup() && i > 0 {
							c.ownCopies++
							ownCopy(i, w.Head()+1)
						}
					}
				}
			}
			continue
		}
		if head == cur && cur >= 1 && c.r.ticking && !c.syncOn && c.ticksSeen >= 1 && rng.Intn(9) == 0 {
			// a stall longer than a period: ticks are generated but not consumed (the ticker keeps the
			// first pending one), the clock moves on by two rounds, the peers' partials -- sent in time --
			// are aggregated when the process resumes, and only then the run loop consumes the stale tick
			others := 0
			for j := 0; j < n; j++ {
				if j != w.Epochs[live].Me && w.Epochs[live].IsMember(j) {
					others++
				}
			}
			if others >= w.Epochs[live].Thr {
				c.do(Event{Kind: "hold"})
				for k := 0; k < 2; k++ {
					c.advance(w.Genesis + int64(w.CurrentRound())*w.Period - w.Now())
					cnt := 0
					for j := 0; j < n && cnt < w.Epochs[live].Thr; j++ {
						if j == w.Epochs[live].Me || !w.Epochs[live].IsMember(j) {
							continue
						}
						c.do(Event{Kind: "part", From: j, Claim: j, Round: w.Head() + 1, Prev: "ref", Ep: live})
						cnt++
					}
				}
				if pend, _ := w.CClock.counts(); pend == 0 && rng.Intn(2) == 0 {
					// ... and the process resumes in the last half second before the next round's time
					// (clocks are not on whole seconds in real life)
					c.advance(w.Period - 1)
					c.do(Event{Kind: "fadv", D: 600})
					c.do(Event{Kind: "release"})
					c.advance(1) // back onto a whole second (the next round's boundary)
					continue
				}
				c.do(Event{Kind: "release"})
				continue
			}
		}
		if head == cur && cur >= 1 && c.r.ticking && !c.syncOn && rng.Intn(9) == 0 && ownCopy(live, cur+1) {
			continue
		}
		if head == cur && cur >= 1 && c.r.ticking && rng.Intn(7) == 0 {
			// fast peers: a threshold of other members already signs the NEXT round (accepted: one round
			// of tolerance); the node stores it ahead of its clock and the tick of that round then
			// finds the round already stored (re-sign branch of broadcastNextPartial)
			cnt := 0
			for j := 0; j < n && cnt < w.Epochs[live].Thr; j++ {
				if j == w.Epochs[live].Me || !w.Epochs[live].IsMember(j) {
					continue
				}
				c.do(Event{Kind: "part", From: j, Claim: j, Round: cur + 1, Prev: "ref", Ep: live})
				cnt++
			}
			c.advance(w.Genesis + int64(cur)*w.Period - w.Now())
			continue
		}
		switch x := rng.Intn(100); {
		case x < 22: // move the clock, never across more than one round boundary
			toNext := w.Genesis + int64(cur)*w.Period - w.Now()
			if rng.Intn(3) == 0 && toNext > 1 {
				c.advance(1 + rng.Int63n(toNext-1))
			} else {
				c.advance(toNext)
			}
		case x < 70: // a well-formed partial for the round being aggregated (or around it)
			from := rng.Intn(n)
			round := head + 1
			switch rng.Intn(10) {
			case 0:
				round = cur + 1
			case 1:
				round = cur + 2
			case 2:
				if head > 0 {
					round = head
				}
			case 3:
				round = head + 2
			}
			if from >= w.Epochs[ep].N {
				from = rng.Intn(w.Epochs[ep].N)
			}
			c.do(Event{Kind: "part", From: from, Claim: from, Round: round, Prev: "ref", Ep: ep})
		case x < 88: // forged / malformed partials
			from := rng.Intn(n)
			claim := from
			prev := "ref"
			mut := mutations[rng.Intn(len(mutations))]
			switch rng.Intn(5) {
			case 0:
				claim = rng.Intn(n + 2) // another member's index, or a non-member index
			case 3:
				prev = "refx"
			case 1:
				prev = "junk"
			case 2:
				prev = "empty"
			}
			round := head + 1
			if rng.Intn(4) == 0 {
				round = cur + uint64(rng.Intn(3))
			}
			if round == 0 {
				round = 1
			}
			if from >= w.Epochs[ep].N {
				from = rng.Intn(w.Epochs[ep].N)
			}
			c.do(Event{Kind: "part", From: from, Claim: claim, Round: round, Prev: prev, Mut: mut, Ep: ep})
		case x < 92:
			c.do(Event{Kind: "syncmode", Sync: []string{"off", "honest"}[rng.Intn(2)]})
		case x < 96:
			if c.r.ticking {
				c.do(Event{Kind: "stop"})
				// while stopped only the clock moves
				toNext := w.Genesis + int64(w.CurrentRound())*w.Period - w.Now()
				c.advance(toNext)
				long := !c.syncOn && rng.Intn(2) == 0
				if long {
					// a long outage: the head lags the clock by more than the aggregator's window
					for k := 0; k < 6; k++ {
						c.advance(w.Genesis + int64(w.CurrentRound())*w.Period - w.Now())
					}
				}
				c.do(Event{Kind: "restart"})
				if long && w.CurrentRound() > w.Head()+5 {
					// valid partials of a threshold of members for the round the clock is in: far outside
					// (head, head+4], they are neither cached nor aggregated nor a reason to sync
					far := w.CurrentRound()
					cnt := 0
					for j := 0; j < n && cnt < w.Epochs[live].Thr; j++ {
						if j == w.Epochs[live].Me || !w.Epochs[live].IsMember(j) {
							continue
						}
						c.do(Event{Kind: "part", From: j, Claim: j, Round: far, Prev: "ref", Ep: live})
						cnt++
					}
				}
			}
		default:
			// complete the round honestly: thr-1 other members deliver valid partials -- sometimes
			// preceded by a member's partial over the previous signature plus one byte (valid for THAT
			// message, which is another one: it must not count, nor get in the way)
			if rng.Intn(4) == 0 {
				for j := 0; j < n; j++ {
					if j != w.Epochs[live].Me && w.Epochs[live].IsMember(j) {
						c.do(Event{Kind: "part", From: j, Claim: j, Round: w.Head() + 1, Prev: "refx", Ep: live})
						break
					}
				}
			}
			cnt := 0
			for j := 0; j < n && cnt < w.Epochs[live].Thr; j++ {
				if j == w.Epochs[live].Me || !w.Epochs[live].IsMember(j) {
					continue
				}
				c.do(Event{Kind: "part", From: j, Claim: j, Round: w.Head() + 1, Prev: "ref", Ep: live})
				cnt++
			}
		}
	}
}

// Run is the engine entry point.
func Run(out string, seed int64, tier string) error {
	if os.Getenv("VERIF_NODE_TIMES") != "" {
		dbgTimes = map[string]time.Duration{}
		defer func() {
			for k, v := range dbgTimes {
				fmt.Fprintf(os.Stderr, "TIME %-24s n=%4d total=%8.2fs avg=%6.1fms\n", k, dbgCount[k], v.Seconds(), v.Seconds()*1000/float64(dbgCount[k]))
			}
		}()
	}
	rep := emit.NewReport("node", seed, tier)
	rng := rand.New(rand.NewSource(seed))
	ncases, steps := 12, 40
	schemes := []string{crypto.DefaultSchemeID, crypto.UnchainedSchemeID}
	if tier == "thorough" {
		ncases, steps = 60, 60
		schemes = crypto.ListSchemes()
	}
	shapes := [][2]int{{3, 2}, {4, 3}, {5, 3}, {2, 2}, {7, 4}}
	var lines, descr []string
	for i := 0; i < ncases; i++ {
		sch, _ := crypto.SchemeFromName(schemes[i%len(schemes)])
		sh := shapes[rng.Intn(len(shapes))]
		vac := pickVacant(rng, sh[0], 0)
		me := rng.Intn(sh[0] + len(vac))
		for bad := true; bad; {
			bad = false
			for _, v := range vac {
				if v == me {
					me, bad = (me+1)%(sh[0]+len(vac)), true
				}
			}
		}
		store := []string{"memdb", "bolt"}[rng.Intn(2)]
		period := int64(3 + rng.Intn(4))
		desc := fmt.Sprintf("scheme=%s n=%d thr=%d me=%d vacant=%v store=%s period=%d", sch.Name, sh[0], sh[1], me, vac, store, period)
		c, err := newCase(sch, sh[0], sh[1], me, period, 1000, 1000-int64(1+rng.Intn(5)), store, desc, steps+8, vac...)
		if err != nil {
			return err
		}
		genScenario(c, rng, steps)
		monitor(rep, c)
		lines = append(lines, c.term())
		descr = append(descr, desc+" events="+fmt.Sprint(len(c.steps)))
		rep.Evaluations += len(c.steps)
		kinds := map[string]bool{}
		for _, s := range c.steps {
			k := s.ev.Kind
			if k == "part" {
				k = "part/" + s.ev.Prev + "/" + s.ev.Mut
				if s.ev.Claim != s.ev.From {
					k += "/forgedidx"
				}
				if s.ev.Ep < len(c.w.Epochs) && !c.w.Epochs[s.ev.Ep].IsMember(s.ev.Claim) {
					k += "/vacantidx"
				}
				if s.obs.Rejected {
					k += "/rejected"
				}
			}
			rep.Count(k)
			if len(s.obs.Puts) > 0 {
				rep.Count("beacon-stored")
			}
			if len(s.obs.Emits) > 0 {
				rep.Count("emission")
			}
			kinds[fmt.Sprintf("%s|%d|%s|%s|%d|%d|%v", s.ev.Kind, s.ev.Round-c.w.Head(), s.ev.Prev, s.ev.Mut, s.ev.From, s.ev.Claim, s.obs.Rejected)] = true
		}
		for k := 0; k < c.ownCopies; k++ {
			rep.Count("own-copy-after-index-moved")
		}
		rep.DistinctNontrivial += len(kinds)
		if i < 2 {
			var ss []string
			for _, s := range c.steps[:12] {
				ss = append(ss, strings.Join(s.model[0], "; "))
			}
			rep.Sample(map[string]interface{}{"case": desc, "first_model_events": ss}, 4)
		}
		c.w.Close()
	}
	rep.Rule = "random scenarios on one real beacon.Handler inside a simulated group (real threshold BLS): clock advances (<= one round boundary each), well-formed partials around head/current round, forged partials (bit-flip, truncated, too short, signed for another message, forged or non-member index, VALID partials of share holders that are not group members (vacant indices inside the index range, as left by a DKG that excluded a participant from QUAL), junk/empty previous signature), honest completion of rounds, sync on/off, stop/restart; distinct = distinct (event kind, round offset, prev kind, mutation, signer, claimed index, outcome) per case; every counted event has an observable outcome compared with the model"
	if err := rep.Shard(out, "cases_node", []string{"From DV Require Import Model.Node Corr.NodeCorr."}, "ncase", "mismatches", lines, descr, 40); err != nil {
		return err
	}
	return rep.Write(out)
}
