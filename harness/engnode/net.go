package engnode

import (
	"context"
	"fmt"
	"math/rand"
	"sort"
	"strings"
	"time"

	clock "github.com/jonboulle/clockwork"

	"github.com/drand/drand/v2/common"
	"github.com/drand/drand/v2/crypto"
	"github.com/drand/drand/v2/internal/chain"
	"github.com/drand/drand/v2/internal/chain/boltdb"
	"github.com/drand/drand/v2/internal/chain/memdb"
	proto "github.com/drand/drand/v2/protobuf/drand"
	"github.com/drand/drand/v2/zzverif/emit"
)

// The system engine: several REAL beacon.Handlers of one group run side by side, each on its own
// store and (accurate) clock. The harness is the network and the adversary: every partial a node
// broadcasts is put on the wire; the harness decides which wire message reaches which node and
// when (replays, drops, reorders), injects partials of its own (valid ones signed with the shares
// of the adversarial indices F, forgeries in the name of honest indices, junk), stops and restarts
// nodes. The same global event list is run through Model/Net.v (Corr/NetCorr.v) and compared node
// by node; independent monitors check the system-level statements of C02/C03/C04/C05 on the real
// observations.

// newWorldShared creates one more node of base's group: same scheme, shares, identities and
// reference chain, its own store, network client and clock.
func newWorldShared(base *World, me int, storeKind string) (*World, error) {
	w := &World{FixedMe: true, Sch: base.Sch, Period: base.Period, Genesis: base.Genesis, Catchup: base.Catchup, Secret: base.Secret,
		Privs: base.Privs, Epochs: base.Epochs, Me: me, ref: base.ref, Log: base.Log}
	w.Clock = clock.NewFakeClockAt(base.Clock.Now())
	w.CClock = &countingClock{FakeClock: w.Clock}
	switch storeKind {
	case "bolt":
		dir, err := mkTemp()
		if err != nil {
			return nil, err
		}
		w.dir = dir
		bctx := context.Background()
		if w.Chained() {
			bctx = chain.SetPreviousRequiredOnContext(bctx)
		}
		st, err := boltdb.NewBoltStore(bctx, w.Log, dir)
		if err != nil {
			return nil, err
		}
		w.Base = st
	default:
		w.Base = memdb.NewStore(2000)
	}
	w.Rec = &recStore{Store: w.Base}
	w.Client = &memClient{w: w}
	return w, w.newHandler()
}

type wireMsg struct {
	Round     uint64
	Prev, Sig []byte
	From      string // "node <idx>" | "adversary <kind>"
}

type netNode struct {
	w *World
	r *runner
}

type netStep struct {
	what  string
	model [][]string    // admissible orders of the gevents this step stands for
	obs   map[int]Obs   // acting node (position) -> observation
	ev    map[int]Event // what was done to it
	time  int64
	heads []uint64
}

type netRun struct {
	nodes    []*netNode
	t        *ids
	F        []int   // adversarial share indices of epoch 0
	Fs       [][]int // adversarial share indices per epoch
	thr      int
	syncOn   bool // the peers answer sync requests (from the longest running chain)
	pool     []wireMsg
	poolStep []int // step during which pool[k] came into existence
	steps    []netStep
	desc     string
	maxR     uint64
}

func (n *netRun) base() *World { return n.nodes[0].w }

// liveEpoch: the epoch whose group node j currently uses.
func (n *netRun) liveEpoch(j int) int {
	w := n.nodes[j].w
	g := w.H.VerifLiveGroup()
	for i, e := range w.Epochs {
		if e.Group == g {
			return i
		}
	}
	return 0
}

// transition: the resharing completes; every node is handed the same new epoch (same group key,
// new polynomial, possibly another threshold, its own adversarial indices) taking over at round `first`.
func (n *netRun) transition(rng *rand.Rand, first uint64) {
	b := n.base()
	old := b.Epochs[len(b.Epochs)-1]
	members := old.N
	thr := []int{2, 3, members/2 + 1}[rng.Intn(3)]
	if thr > len(n.nodes) {
		thr = len(n.nodes)
	}
	if thr < 2 {
		thr = 2
	}
	// adversarial indices of the new sharing: among those that are not real nodes, fewer than thr
	var F2 []int
	for _, f := range n.F {
		if len(F2) < thr-1 && rng.Intn(3) > 0 {
			F2 = append(F2, f)
		}
	}
	tt := b.Genesis + int64(first-1)*b.Period
	ep, err := b.newEpoch(members, thr, tt, nil, -1)
	if err != nil {
		panic(err)
	}
	n.Fs = append(n.Fs, F2)
	model := []string{}
	obs, evs := map[int]Obs{}, map[int]Event{}
	for j, nd := range n.nodes {
		ev := Event{Kind: "transition", Round: first, Given: ep}
		o := nd.r.Do(ev)
		obs[j], evs[j] = o, ev
		n.collect(j, o)
		model = append(model, fmt.Sprintf("GNode %d (ETransition %d %s)", j, first-1, grpTerm(len(nd.w.Epochs)-1, ep, nd.w.Me)))
	}
	n.record("transition", model, obs, evs)
}

func (n *netRun) wireTerm(m wireMsg) string {
	return fmt.Sprintf("(%d, %s, %s)", m.Round, emit.Z(n.t.id(m.Prev)), emit.Z(n.t.id(m.Sig)))
}

func (n *netRun) heads() []uint64 {
	h := make([]uint64, len(n.nodes))
	for i, nd := range n.nodes {
		h[i] = nd.w.Head()
	}
	return h
}

// after an event on node j: what it broadcast is on the wire
func (n *netRun) collect(j int, o Obs) {
	for _, e := range o.Emits {
		n.pool = append(n.pool, wireMsg{Round: e.Round, Prev: n.t.bytes[e.Prev], Sig: n.t.bytes[e.SigID], From: fmt.Sprintf("node %d", n.nodes[j].w.Me)})
		n.poolStep = append(n.poolStep, len(n.steps))
		if e.Round > n.maxR {
			n.maxR = e.Round
		}
	}
}

func (n *netRun) record(what string, model []string, obs map[int]Obs, ev map[int]Event) {
	n.recordAlts(what, [][]string{model}, obs, ev)
}

func (n *netRun) recordAlts(what string, alts [][]string, obs map[int]Obs, ev map[int]Event) {
	n.steps = append(n.steps, netStep{what: what, model: alts, obs: obs, ev: ev, time: n.base().Now(), heads: n.heads()})
}

// donor: the running node other than j that holds the longest chain (it answers j's sync requests).
func (n *netRun) donor(j int) int {
	best, bh := -1, uint64(0)
	for k, nd := range n.nodes {
		if k == j || !nd.r.ticking {
			continue
		}
		if h := nd.w.Head(); best < 0 || h > bh {
			best, bh = k, h
		}
	}
	return best
}

// streamTerm: what the peers serve node j right now (None: nobody answers).
func (n *netRun) streamTerm(j int) string {
	if !n.syncOn {
		return "None"
	}
	d := n.donor(j)
	if d < 0 {
		return "None"
	}
	var bs []string
	for r := n.nodes[j].w.Head() + 1; r <= n.nodes[d].w.Head(); r++ {
		b, err := n.nodes[d].w.Base.Get(context.Background(), r)
		if err != nil {
			break
		}
		bs = append(bs, beaconTerm(r, n.t.id(b.PreviousSig), n.t.id(b.Signature)))
	}
	return "(Some " + emit.List(bs) + ")"
}

// setSync switches the peers' answers to sync requests on or off for every node.
func (n *netRun) setSync(on bool) {
	n.syncOn = on
	for j, nd := range n.nodes {
		j, nd := j, nd
		nd.w.Client.mu.Lock()
		if on {
			nd.w.Client.syncAnswer = func(peer string, from uint64) ([]*proto.BeaconPacket, bool) {
				d := n.donor(j)
				if d < 0 {
					return nil, false
				}
				var out []*proto.BeaconPacket
				for r := from; r <= n.nodes[d].w.Head(); r++ {
					b, err := n.nodes[d].w.Base.Get(context.Background(), r)
					if err != nil {
						break
					}
					out = append(out, &proto.BeaconPacket{Round: b.Round, PreviousSignature: b.PreviousSig, Signature: b.Signature, Metadata: &proto.Metadata{BeaconID: "default"}})
				}
				return out, true
			}
			nd.r.syncGoal = func() uint64 {
				g := nd.w.CurrentRound()
				if d := n.donor(j); d >= 0 && n.nodes[d].w.Head() < g {
					g = n.nodes[d].w.Head()
				}
				return g
			}
		} else {
			nd.w.Client.syncAnswer = nil
			nd.r.syncGoal = nil
		}
		nd.w.Client.mu.Unlock()
	}
	n.record("syncmode", []string{}, map[int]Obs{}, map[int]Event{})
}

// clock advances real time: every honest clock moves by d; ticks and woken sleepers react.
func (n *netRun) clockStep(d int64) {
	if d <= 0 {
		return
	}
	b := n.base()
	old, nw := b.Now(), b.Now()+d
	tick := int64(0)
	if nw >= b.Genesis {
		k := (nw - b.Genesis) / b.Period
		if tt := b.Genesis + k*b.Period; tt > old {
			tick = k + 1
		}
	}
	// real time passes for everybody at once; the nodes then react one after the other (they do not
	// interact within the step: nothing is delivered in between)
	n.recordAlts("clock", [][]string{{fmt.Sprintf("GClock %d", d)}}, map[int]Obs{}, map[int]Event{})
	for j, nd := range n.nodes {
		fire := fmt.Sprintf("GNode %d EFire", j)
		alts := [][]string{{fire}}
		if tick > 0 && nd.r.ticking {
			st := n.streamTerm(j)
			alts = [][]string{{fire, fmt.Sprintf("GNode %d (ETick %d %s)", j, tick, st)}}
			if st != "None" {
				// the sync manager and the aggregator of one node run concurrently
				alts = append(alts, []string{fire, fmt.Sprintf("GNode %d (ETickSF %d %s)", j, tick, st)})
			}
		}
		ev := Event{Kind: "adv", D: d}
		o := nd.r.Do(ev)
		n.collect(j, o)
		n.recordAlts("react", alts, map[int]Obs{j: o}, map[int]Event{j: ev})
	}
}

// advance splits a clock movement as the node engine does: a boundary is reached by a separate
// one-second step and the clock never rests where a sleeper would be due exactly at a boundary.
func (n *netRun) advance(d int64) {
	w := n.base()
	if d <= 0 {
		return
	}
	off := func(t int64) int64 { return ((t-w.Genesis)%w.Period + w.Period) % w.Period }
	forbidden := (w.Period - w.Catchup%w.Period) % w.Period
	target := w.Now() + d
	if off(target) == forbidden && off(target) != 0 {
		target++
	}
	if off(target) == 0 && target-1 > w.Now() {
		n.clockStep(target - 1 - w.Now())
	}
	if target > w.Now() {
		n.clockStep(target - w.Now())
	}
}

func (n *netRun) deliver(j int, m wireMsg) Obs {
	ev := Event{Kind: "part", Raw: true, Round: m.Round, RawPrev: m.Prev, RawSig: m.Sig, Note: m.From}
	st := n.streamTerm(j)
	o := n.nodes[j].r.Do(ev)
	n.collect(j, o)
	model := []string{fmt.Sprintf("GDeliver %d %s", j, n.wireTerm(m))}
	if len(o.Syncs) > 0 && strings.HasPrefix(st, "(Some ") {
		// the aggregator asked the sync manager for the rounds up to the recovered one; the peers answered
		model = append(model, fmt.Sprintf("GNode %d (ESynced %d %s)", j, m.Round, strings.TrimSuffix(strings.TrimPrefix(st, "(Some "), ")")))
	}
	n.record("deliver", model, map[int]Obs{j: o}, map[int]Event{j: ev})
	return o
}

func (n *netRun) inject(m wireMsg) {
	n.pool = append(n.pool, m)
	n.poolStep = append(n.poolStep, len(n.steps))
	if m.Round > n.maxR && m.Round < 1<<40 {
		n.maxR = m.Round
	}
	n.record("inject "+m.From, []string{"GAdvPartial " + n.wireTerm(m)}, map[int]Obs{}, map[int]Event{})
}

func (n *netRun) stop(j int) {
	nd := n.nodes[j]
	ev := Event{Kind: "stop"}
	o := nd.r.Do(ev)
	nd.r.ticking = false
	n.record("stop", []string{fmt.Sprintf("GNode %d EStop", j)}, map[int]Obs{j: o}, map[int]Event{j: ev})
}

func (n *netRun) restart(j int) {
	nd := n.nodes[j]
	ev := Event{Kind: "restart"}
	st := n.streamTerm(j)
	o := nd.r.Do(ev)
	nd.r.ticking = true
	n.collect(j, o)
	n.record("restart", []string{fmt.Sprintf("GNode %d (ERestart %s)", j, st)}, map[int]Obs{j: o}, map[int]Event{j: ev})
}

func newNet(sch *crypto.Scheme, members, thr int, F []int, period int64, stores []string, desc string, maxRounds int) (*netRun, error) {
	isF := map[int]bool{}
	for _, f := range F {
		isF[f] = true
	}
	var honest []int
	for i := 0; i < members; i++ {
		if !isF[i] {
			honest = append(honest, i)
		}
	}
	genesis := int64(1000)
	now := genesis - 2
	base, err := NewWorld(sch, members, thr, honest[0], period, genesis, now, stores[0])
	if err != nil {
		return nil, err
	}
	n := &netRun{F: F, Fs: [][]int{F}, thr: thr, desc: desc}
	n.t = newIDs(base)
	for r := uint64(0); r <= uint64(maxRounds); r++ {
		n.t.id(base.RefBeacon(r).Signature)
	}
	for k, me := range honest {
		w := base
		if k > 0 {
			if w, err = newWorldShared(base, me, stores[k%len(stores)]); err != nil {
				return nil, err
			}
		}
		n.nodes = append(n.nodes, &netNode{w: w, r: &runner{w: w, settleMs: 25, t: n.t, now0: now, ticking: true}})
	}
	return n, nil
}

func (n *netRun) close() {
	for _, nd := range n.nodes {
		nd.w.Close()
	}
}

// genNet drives a random adversarial schedule.
func genNet(n *netRun, rng *rand.Rand, steps int) {
	b := n.base()
	ep := b.Epochs[0]
	for j, nd := range n.nodes {
		ev := Event{Kind: "start"}
		o := nd.r.Do(ev)
		_ = o
		_ = j
	}
	n.advance(b.Genesis - b.Now())
	wantTransition, transitioned := rng.Intn(2) == 0, false
	for i := 0; i < steps; i++ {
		cur := b.CurrentRound()
		if wantTransition && !transitioned && i > steps/3 {
			allUp := true
			for _, nd := range n.nodes {
				allUp = allUp && nd.r.ticking
			}
			if allUp {
				n.transition(rng, cur+2+uint64(rng.Intn(2)))
				transitioned = true
				continue
			}
		}
		heads := n.heads()
		minH, maxH := heads[0], heads[0]
		for _, h := range heads {
			if h < minH {
				minH = h
			}
			if h > maxH {
				maxH = h
			}
		}
		j := rng.Intn(len(n.nodes))
		switch x := rng.Intn(100); {
		case x < 18: // real time passes
			toNext := b.Genesis + int64(cur)*b.Period - b.Now()
			if rng.Intn(3) == 0 && toNext > 1 {
				n.advance(1 + rng.Int63n(toNext-1))
			} else {
				n.advance(toNext)
			}
		case x < 55: // the network hands some wire message to some node (recent ones preferred: replays and stale ones too)
			if len(n.pool) == 0 {
				continue
			}
			var cand []wireMsg
			for _, m := range n.pool {
				if m.Round > heads[j] && m.Round <= heads[j]+2 {
					cand = append(cand, m)
				}
			}
			if len(cand) == 0 || rng.Intn(6) == 0 {
				cand = n.pool
			}
			n.deliver(j, cand[rng.Intn(len(cand))])
		case x < 72: // the adversary makes a partial
			round := heads[j] + 1
			switch rng.Intn(6) {
			case 0:
				round = cur + 1
			case 1:
				round = cur + 2
			case 2:
				round = maxH + 1
			}
			prev := b.RefBeacon(round - 1).Signature
			var m wireMsg
			e := rng.Intn(len(n.nodes[0].w.Epochs)) // shares of any epoch, stale ones included
			advF := n.Fs[e]
			switch k := rng.Intn(10); {
			case k < 5 && len(advF) > 0: // a valid partial signed with an adversarial share
				f := advF[rng.Intn(len(advF))]
				m = wireMsg{Round: round, Prev: prev, Sig: n.nodes[0].w.Partial(e, f, round, prev), From: fmt.Sprintf("adversary share %d epoch %d", f, e)}
			case k < 8: // a forgery in the name of an honest index: an honest partial with a flipped bit or for another message
				h := n.nodes[rng.Intn(len(n.nodes))].w.Me
				// (never the genuine partial: that one the adversary cannot make)
				other := uint64(rng.Intn(2)) * 1000
				sig := append([]byte{}, n.nodes[0].w.Partial(e, h, round+other, prev)...)
				if other == 0 || rng.Intn(2) == 0 {
					sig[len(sig)-1] ^= 1
				}
				m = wireMsg{Round: round, Prev: prev, Sig: sig, From: fmt.Sprintf("adversary forging %d", h)}
			case k < 9 && len(advF) > 0: // adversarial share, junk previous signature
				f := advF[rng.Intn(len(advF))]
				junk := []byte("junk-previous-signature-junk-previous-signature!")
				m = wireMsg{Round: round, Prev: junk, Sig: n.nodes[0].w.Partial(e, f, round, junk), From: fmt.Sprintf("adversary share %d epoch %d junk prev", f, e)}
			default:
				m = wireMsg{Round: round, Prev: prev, Sig: []byte{0, byte(rng.Intn(ep.N)), 1, 2, 3}, From: "adversary junk"}
			}
			n.inject(m)
			if rng.Intn(3) > 0 {
				n.deliver(j, m)
			}
		case x < 74:
			n.setSync(!n.syncOn)
		case x < 79:
			if n.nodes[j].r.ticking {
				n.stop(j)
				if rng.Intn(2) == 0 {
					toNext := b.Genesis + int64(b.CurrentRound())*b.Period - b.Now()
					n.advance(toNext)
				}
				n.restart(j)
			}
		default: // the network delivers to node j everything on the wire for the round it is waiting for
			want := heads[j] + 1
			for _, m := range append([]wireMsg{}, n.pool...) {
				if m.Round == want {
					n.deliver(j, m)
					if n.nodes[j].w.Head() >= want {
						break
					}
				}
			}
		}
	}
	// finally: full exchange, so that the liveness monitor has something to say
	for pass, progress := 0, true; progress && pass < 40; pass++ {
		progress = false
		for j := range n.nodes {
			h0 := n.nodes[j].w.Head()
			want := n.nodes[j].w.Head() + 1
			for _, m := range append([]wireMsg{}, n.pool...) {
				if m.Round == want && n.nodes[j].w.Head() < want {
					n.deliver(j, m)
				}
			}
			if n.nodes[j].w.Head() > h0 {
				progress = true
			}
		}
	}
}

// ---- Coq term ----

func (n *netRun) term() string {
	b := n.nodes[0].w
	t := n.t
	ep := b.Epochs[0]
	epochs := b.Epochs
	// (round, prev) combinations that can matter
	rp := map[[2]int64]bool{}
	for r := uint64(1); r <= n.maxR+2; r++ {
		rp[[2]int64{int64(r), int64(r) - 1}] = true
		rp[[2]int64{int64(r), -1}] = true
		t.id(b.RefBeacon(r).Signature)
	}
	wires := map[[3]int64]bool{}
	for _, m := range n.pool {
		if m.Round >= 1<<40 {
			continue
		}
		pid, sid := t.id(m.Prev), t.id(m.Sig)
		wires[[3]int64{int64(m.Round), pid, sid}] = true
		rp[[2]int64{int64(m.Round), pid}] = true
	}
	var idxT, vpartT, sigT, vrecT, ownT []string
	seen := map[int64]bool{}
	addIdx := func(sid int64) {
		if seen[sid] {
			return
		}
		seen[sid] = true
		i, err := b.Sch.ThresholdScheme.IndexOf(t.bytes[sid])
		if err != nil {
			i = -1
		}
		idxT = append(idxT, fmt.Sprintf("(%s, %s)", emit.Z(sid), emit.Z(int64(i))))
	}
	rps := make([][2]int64, 0, len(rp))
	for k := range rp {
		rps = append(rps, k)
	}
	sort.Slice(rps, func(i, j int) bool { return rps[i][0] < rps[j][0] || (rps[i][0] == rps[j][0] && rps[i][1] < rps[j][1]) })
	for _, k := range rps {
		r, pid := uint64(k[0]), k[1]
		prev := t.bytes[pid]
		msg := b.Digest(r, prev)
		for _, nd := range n.nodes {
			for e := range epochs {
				ps := b.Partial(e, nd.w.Me, r, prev)
				sid := t.id(ps)
				addIdx(sid)
				ownT = append(ownT, fmt.Sprintf("(%d, (%d, %d, %s, %s))", nd.w.Me, e, r, emit.Z(pid), emit.Z(sid)))
				for e2, ep2 := range epochs {
					if b.Sch.ThresholdScheme.VerifyPartial(ep2.PubPoly, msg, ps) == nil {
						vpartT = append(vpartT, fmt.Sprintf("(%d, %d, %s, %s)", e2, r, emit.Z(pid), emit.Z(sid)))
					}
				}
			}
		}
		var parts [][]byte
		for i := 0; i < ep.Thr; i++ {
			s, _ := b.Sch.ThresholdScheme.Sign(ep.Shares[i].PrivateShare(), msg)
			parts = append(parts, s)
		}
		if sig, err := b.Sch.ThresholdScheme.Recover(ep.PubPoly, msg, parts, ep.Thr, ep.N); err == nil {
			sid := t.id(sig)
			sigT = append(sigT, fmt.Sprintf("(%d, %s, %s)", r, emit.Z(pid), emit.Z(sid)))
			if b.Sch.VerifyBeacon(&common.Beacon{Round: r, PreviousSig: prev, Signature: sig}, ep.PubPoly.Commit()) == nil {
				vrecT = append(vrecT, fmt.Sprintf("(%d, %s, %s)", r, emit.Z(pid), emit.Z(sid)))
			}
		}
	}
	wk := make([][3]int64, 0, len(wires))
	for k := range wires {
		wk = append(wk, k)
	}
	sort.Slice(wk, func(i, j int) bool {
		for x := 0; x < 3; x++ {
			if wk[i][x] != wk[j][x] {
				return wk[i][x] < wk[j][x]
			}
		}
		return false
	})
	for _, k := range wk {
		r, pid, sid := uint64(k[0]), k[1], k[2]
		addIdx(sid)
		for e2, ep2 := range epochs {
			if b.Sch.ThresholdScheme.VerifyPartial(ep2.PubPoly, b.Digest(r, t.bytes[pid]), t.bytes[sid]) == nil {
				vpartT = append(vpartT, fmt.Sprintf("(%d, %d, %s, %s)", e2, r, emit.Z(pid), emit.Z(sid)))
			}
		}
	}
	var groups []string
	for _, nd := range n.nodes {
		groups = append(groups, grpTerm(0, ep, nd.w.Me))
	}
	var fT, thrT []string
	for e, epo := range epochs {
		var fs []string
		for _, f := range n.Fs[e] {
			fs = append(fs, fmt.Sprint(f))
		}
		fT = append(fT, fmt.Sprintf("(%d, %s)", e, emit.List(fs)))
		thrT = append(thrT, fmt.Sprintf("(%d, %d)", e, epo.Thr))
	}
	var steps []string
	for _, s := range n.steps {
		var obs []string
		js := make([]int, 0, len(s.obs))
		for j := range s.obs {
			js = append(js, j)
		}
		sort.Ints(js)
		for _, j := range js {
			o := s.obs[j]
			var puts, emits []string
			for _, p := range o.Puts {
				puts = append(puts, beaconTerm(p.Round, p.Prev, p.Sig))
			}
			em := append([]EmitObs{}, o.Emits...)
			sort.Slice(em, func(a, c int) bool {
				if em[a].Round != em[c].Round {
					return em[a].Round < em[c].Round
				}
				if em[a].Prev != em[c].Prev {
					return em[a].Prev < em[c].Prev
				}
				return em[a].Clock < em[c].Clock
			})
			for _, e := range em {
				emits = append(emits, fmt.Sprintf("(%d, %s, %s, %d)", e.Round, emit.Z(e.Prev), emit.Z(e.SigID), e.Clock))
			}
			obs = append(obs, fmt.Sprintf("(%d%%nat, (%s, %s, %s))", j, emit.Bool(o.Rejected), emit.List(puts), emit.List(emits)))
		}
		var alts []string
		for _, a := range s.model {
			alts = append(alts, emit.List(a))
		}
		steps = append(steps, fmt.Sprintf("(%s, %s)", emit.List(alts), emit.List(obs)))
	}
	return fmt.Sprintf("mkNetC %s %d %d %d %d %s %s %s\n    %s\n    %s\n    %s\n    %s\n    %s\n    %s\n    %s",
		emit.Bool(b.Chained()), b.Period, b.Genesis, b.Catchup, n.nodes[0].r.now0, emit.Z(0), emit.List(thrT), emit.List(fT),
		emit.List(groups), emit.List(idxT), emit.List(vpartT), emit.List(sigT), emit.List(vrecT), emit.List(ownT),
		emit.List(steps))
}

// ---- monitors: the system-level statements on the real observations ----

func netMonitor(rep *emit.Report, n *netRun) {
	b := n.base()
	per := time.Duration(b.Period) * time.Second
	stored := map[uint64]map[int]PutObs{} // round -> node -> what it stored
	// distinct valid indices on the wire for (round), computed from the pool prefix
	// has some ONE sharing a threshold of valid distinct indices on the wire for round r (one previous signature)?
	validIdx := func(upto int, r uint64) (int, int) {
		bestK, bestThr := 0, n.thr
		for _, epo := range n.nodes[0].w.Epochs {
			byPrev := map[string]map[int]bool{}
			for _, m := range n.pool[:upto] {
				if m.Round != r {
					continue
				}
				if b.Sch.ThresholdScheme.VerifyPartial(epo.PubPoly, b.Digest(m.Round, m.Prev), m.Sig) != nil {
					continue
				}
				i, err := b.Sch.ThresholdScheme.IndexOf(m.Sig)
				if err != nil {
					continue
				}
				if byPrev[string(m.Prev)] == nil {
					byPrev[string(m.Prev)] = map[int]bool{}
				}
				byPrev[string(m.Prev)][i] = true
			}
			for _, s := range byPrev {
				if len(s) >= epo.Thr {
					return len(s), epo.Thr
				}
				if len(s) > bestK {
					bestK, bestThr = len(s), epo.Thr
				}
			}
		}
		return bestK, bestThr
	}
	// the pool grows along the steps: replay its growth
	poolAt := 0
	for si, s := range n.steps {
		// wire messages that exist after this step: those collected up to it
		for poolAt < len(n.pool) && poolAtStep(n, poolAt) <= si {
			poolAt++
		}
		cur := common.CurrentRound(s.time, per, b.Genesis)
		for j, o := range s.obs {
			in := map[string]interface{}{"case": n.desc, "step": si, "what": s.what, "node": n.nodes[j].w.Me, "event": s.ev[j], "obs": o, "time": s.time, "heads": s.heads}
			for _, e := range o.Emits {
				if common.TimeOfRound(per, b.Genesis, e.Round) > e.Clock {
					rep.Fail("C04-early-emission", "an honest node released a partial before the round's time", in)
				}
			}
			for _, p := range o.Puts {
				if !p.Verifies {
					rep.Fail("C01-unverifiable-beacon-stored", "a stored beacon does not verify under the group key", in)
				}
				if p.Round > cur {
					rep.Fail("C04-future-beacon-exists", fmt.Sprintf("a beacon of round %d exists at an honest node while the current round of real time is %d", p.Round, cur), in)
				}
				if k, thr := validIdx(poolAt, p.Round); k < thr {
					rep.Fail("C03-beacon-without-threshold-on-the-wire", fmt.Sprintf("round %d was stored although no sharing had valid partials of a threshold of distinct indices for it on the wire (best: %d of %d)", p.Round, k, thr), in)
					rep.Fail("C07-beacon-without-threshold-of-one-sharing", fmt.Sprintf("round %d was stored without a threshold of valid partials of one sharing (best: %d of %d)", p.Round, k, thr), in)
				}
				if stored[p.Round] == nil {
					stored[p.Round] = map[int]PutObs{}
				}
				for j2, q := range stored[p.Round] {
					if q.Sig != p.Sig || q.Prev != p.Prev {
						rep.Fail("C02-honest-nodes-disagree", fmt.Sprintf("nodes %d and %d hold different beacons for round %d", n.nodes[j2].w.Me, n.nodes[j].w.Me, p.Round), in)
					}
				}
				if _, dup := stored[p.Round][j]; dup {
					rep.Fail("C02-gap-or-rewrite", fmt.Sprintf("node %d stored round %d twice", n.nodes[j].w.Me, p.Round), in)
				}
				stored[p.Round][j] = p
			}
		}
	}
	// C05: after the final full exchange every running node holds every round for which valid
	// partials of a threshold of distinct indices, built on the reference chain, are on the wire
	for j, nd := range n.nodes {
		if !nd.r.ticking {
			continue
		}
		h := nd.w.Head()
		k := 0
		byIdx := map[int]bool{}
		live := nd.w.Epochs[n.liveEpoch(j)]
		for _, m := range n.pool {
			if m.Round == h+1 && string(m.Prev) == string(b.RefBeacon(h).Signature) &&
				b.Sch.ThresholdScheme.VerifyPartial(live.PubPoly, b.Digest(m.Round, m.Prev), m.Sig) == nil {
				if i, err := b.Sch.ThresholdScheme.IndexOf(m.Sig); err != nil || !live.IsMember(i) {
					continue
				}
				if i, err := b.Sch.ThresholdScheme.IndexOf(m.Sig); err == nil && i != nd.w.Me {
					byIdx[i] = true
				}
			}
		}
		k = len(byIdx)
		// (the node's own partial is not counted: its cache does not survive a restart)
		if k >= live.Thr && h+1 <= b.CurrentRound()+1 {
			rep.Fail("C05-threshold-connected-but-round-missing", fmt.Sprintf("node %d holds round %d only, although valid partials of %d distinct live members (threshold %d) for round %d were delivered to it", nd.w.Me, h, k, live.Thr, h+1),
				map[string]interface{}{"case": n.desc, "node": nd.w.Me, "j": j, "head": h, "last_steps_of_node": n.tailOf(j, 14)})
		}
	}
}

// tailOf: the last k steps that touched node j (for failure reports).
func (n *netRun) tailOf(j, k int) []string {
	var out []string
	for _, s := range n.steps {
		if o, ok := s.obs[j]; ok {
			out = append(out, fmt.Sprintf("%s %v rejected=%v puts=%d emits=%d head=%d now=%d", s.what, s.model, o.Rejected, len(o.Puts), len(o.Emits), o.Head, o.Now))
		}
	}
	if len(out) > k {
		out = out[len(out)-k:]
	}
	return out
}

// poolAtStep: index of the step during which pool message k came into existence.
func poolAtStep(n *netRun, k int) int {
	if k < len(n.poolStep) {
		return n.poolStep[k]
	}
	return len(n.steps)
}

// RunNet is the engine entry point.
func RunNet(out string, seed int64, tier string) error {
	rep := emit.NewReport("net", seed, tier)
	rng := rand.New(rand.NewSource(seed))
	ncases, steps := 4, 55
	schemes := []string{crypto.DefaultSchemeID, crypto.UnchainedSchemeID}
	if tier == "thorough" {
		ncases, steps = 30, 90
		schemes = crypto.ListSchemes()
	}
	// (members, threshold, number of adversarial indices)
	shapes := [][3]int{{4, 3, 1}, {3, 2, 0}, {3, 2, 1}, {5, 3, 2}, {4, 2, 1}, {5, 4, 1}, {4, 3, 0}}
	var lines, descr []string
	for i := 0; i < ncases; i++ {
		sch, _ := crypto.SchemeFromName(schemes[i%len(schemes)])
		sh := shapes[rng.Intn(len(shapes))]
		perm := rng.Perm(sh[0])
		F := append([]int{}, perm[:sh[2]]...)
		sort.Ints(F)
		period := int64(3 + rng.Intn(3))
		stores := []string{"memdb", "bolt"}
		if rng.Intn(2) == 0 {
			stores = []string{"memdb"}
		}
		desc := fmt.Sprintf("scheme=%s members=%d thr=%d adversarial=%v period=%d stores=%v", sch.Name, sh[0], sh[1], F, period, stores)
		n, err := newNet(sch, sh[0], sh[1], F, period, stores, desc, steps/3+12)
		if err != nil {
			return err
		}
		genNet(n, rng, steps)
		netMonitor(rep, n)
		lines = append(lines, n.term())
		descr = append(descr, desc+" steps="+fmt.Sprint(len(n.steps)))
		rep.Evaluations += len(n.steps)
		kinds := map[string]bool{}
		for _, s := range n.steps {
			rep.Count(s.what)
			for j, o := range s.obs {
				if len(o.Puts) > 0 {
					rep.Count("beacon-stored")
				}
				if s.what == "deliver" {
					k := "deliver/accepted"
					if o.Rejected {
						k = "deliver/rejected"
					}
					rep.Count(k)
				}
				kinds[fmt.Sprintf("%s|%d|%v|%d|%d", s.what, j, o.Rejected, len(o.Puts), len(o.Emits))] = true
			}
		}
		rep.DistinctNontrivial += len(kinds)
		if i < 2 {
			var ss []string
			for _, s := range n.steps[:minInt(10, len(n.steps))] {
				ss = append(ss, fmt.Sprint(s.model))
			}
			rep.Sample(map[string]interface{}{"case": desc, "first_model_events": ss, "final_heads": n.heads()}, 4)
		}
		n.close()
	}
	rep.Rule = "random adversarial schedules over several REAL beacon.Handlers of one group (own stores and clocks, real threshold BLS): real time passes, the harness delivers / replays / withholds wire messages, injects valid partials of the adversarial indices (any round), forgeries in the name of honest indices and junk, stops and restarts nodes; every global event list is replayed through Model/Net.v with each event checked admissible; distinct = distinct (step kind, node, outcome) per case"
	if err := rep.Shard(out, "cases_net", []string{"From DV Require Import Model.Node Model.Net Corr.NodeCorr Corr.NetCorr."}, "netcase", "NetCorr.mismatches", lines, descr, 10); err != nil {
		return err
	}
	return rep.Write(out)
}

func minInt(a, b int) int {
	if a < b {
		return a
	}
	return b
}
