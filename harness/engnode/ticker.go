package engnode

import (
	"fmt"
	"math/rand"
	"time"

	clock "github.com/jonboulle/clockwork"

	"github.com/drand/drand/v2/common"
	"github.com/drand/drand/v2/internal/chain/beacon"
	"github.com/drand/drand/v2/zzverif/emit"
)

// RunTicker drives the REAL beacon ticker (ticker.go, through the hook VerifTicker) on a fake
// clock through arbitrary clock-advance patterns -- steps inside a round, exact boundaries, bursts
// over several periods, stalls during which ticks are generated but not consumed (the wrapper of
// clockwrap.go) -- and records every (round, time) pair it announces. C16: a tick carries the
// round that IS the current round at the tick's time. Every pair is checked against the float
// model of CurrentRound in Coq (Corr/TimeCorr.v, case TK) and by an independent monitor.
func RunTicker(out string, seed int64, tier string) error {
	rep := emit.NewReport("ticker", seed, tier)
	rng := rand.New(rand.NewSource(seed))
	ncases, steps := 12, 30
	if tier == "thorough" {
		ncases, steps = 120, 60
	}
	var lines, descr []string
	for ci := 0; ci < ncases; ci++ {
		period := int64(1 + rng.Intn(7))
		genesis := int64(1700000000 + rng.Intn(1000))
		start := genesis - int64(rng.Intn(3*int(period)+1)) + int64(rng.Intn(2))*int64(rng.Intn(500))
		fc := clock.NewFakeClockAt(time.Unix(start, 0))
		cc := &countingClock{FakeClock: fc}
		next, stop := beacon.VerifTicker(cc, time.Duration(period)*time.Second, genesis)
		time.Sleep(3 * time.Millisecond)
		per := time.Duration(period) * time.Second
		drain := func(what string) {
			// the ticker's goroutines need a moment; its channel holds one tick at a time
			for k := 0; k < 6; k++ {
				time.Sleep(2 * time.Millisecond)
				for {
					r, t, ok := next()
					if !ok {
						break
					}
					cur := common.CurrentRound(t, per, genesis)
					lines = append(lines, fmt.Sprintf("TK %d %d %d %d", period, genesis, t, r))
					descr = append(descr, fmt.Sprintf("period=%d genesis=%d tick(time=%d, round=%d) after %s", period, genesis, t, r, what))
					rep.Evaluations++
					rep.Count("tick/after-" + what)
					if r != cur || common.TimeOfRound(per, genesis, r) > t || common.TimeOfRound(per, genesis, r+1) <= t {
						rep.Fail("C16-tick-round-is-not-the-round-of-its-time", fmt.Sprintf("the ticker announced round %d at time %d, but the round whose scheduled time is at or before that instant with the next round's time after it is %d", r, t, cur),
							map[string]interface{}{"period_s": period, "genesis": genesis, "tick_time": t, "tick_round": r, "after": what})
					}
				}
			}
		}
		holding := false
		for i := 0; i < steps; i++ {
			now := fc.Now().Unix()
			toNext := period
			if now >= genesis {
				toNext = period - (now-genesis)%period
			} else {
				toNext = genesis - now
			}
			switch x := rng.Intn(10); {
			case x < 4: // exactly to the next boundary
				fc.Advance(time.Duration(toNext) * time.Second)
				drain("boundary")
			case x < 6: // inside the round
				if toNext > 1 {
					fc.Advance(time.Duration(1+rng.Int63n(toNext-1)) * time.Second)
				}
				drain("inside")
			case x < 8: // a burst over several periods
				fc.Advance(time.Duration(toNext+int64(1+rng.Intn(4))*period+int64(rng.Intn(int(period)))) * time.Second)
				drain("burst")
			default: // a stall: ticks are generated but not consumed for a while
				if !holding {
					cc.setHold(true)
					holding = true
					fc.Advance(time.Duration(toNext) * time.Second)
					time.Sleep(2 * time.Millisecond)
					fc.Advance(time.Duration(int64(1+rng.Intn(3))*period) * time.Second)
					time.Sleep(2 * time.Millisecond)
				} else {
					cc.release()
					holding = false
					drain("stall")
				}
			}
		}
		if holding {
			cc.release()
			drain("stall")
		}
		rep.DistinctNontrivial += steps
		stop()
	}
	rep.Rule = "the real beacon ticker on a fake clock: advances to boundaries, inside rounds, bursts over several periods, stalls (ticks generated but not consumed); every announced (round, time) pair is one case; distinct = clock events"
	if err := rep.Shard(out, "cases_ticker", []string{"From DV Require Import Corr.TimeCorr."}, "tcase", "mismatches", lines, descr, 800); err != nil {
		return err
	}
	return rep.Write(out)
}
