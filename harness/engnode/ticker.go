package engnode

import (
	"fmt"
	"math/rand"
	"time"

	clock "github.com/jonboulle/clockwork"

	"github.com/drand/drand/v2/common"
	"github.com/drand/drand/v2/internal/chain/beacon"
	"github.com/drand/drand/v2/zzverif/emit"
)

// RunTicker drives the REAL beacon ticker (ticker.go, through the hook VerifTicker) on a fake
// clock through arbitrary clock-advance patterns -- steps inside a round, exact boundaries, bursts
// over several periods, stalls during which ticks are generated but not consumed (the wrapper of
// clockwrap.go) -- and records every (round, time) pair it announces. C16: a tick carries the
// round that IS the current round at the tick's time. Every pair is checked against the float
// model of CurrentRound in Coq (Corr/TimeCorr.v, case TK) and by an independent monitor.
func RunTicker(out string, seed int64, tier string) error {
	rep := emit.NewReport("ticker", seed, tier)
	rng := rand.New(rand.NewSource(seed))
	ncases, steps := 12, 30
	if tier == "thorough" {
		ncases, steps = 120, 60
	}
	var lines, descr []string
	for ci := 0; ci < ncases; ci++ {
		period := int64(1 + rng.Intn(7))
		genesis := int64(1700000000 + rng.Intn(1000))
		start := genesis - int64(rng.Intn(3*int(period)+1)) + int64(rng.Intn(2))*int64(rng.Intn(500))
		fc := clock.NewFakeClockAt(time.Unix(start, 0))
		cc := &countingClock{FakeClock: fc}
		per := time.Duration(period) * time.Second
		// the channel is registered as the beacon handler does: at genesis (Start) or at the time of the
		// next round (Catchup of a restarted node)
		startAt := genesis
		mode := "start"
		if start >= genesis && rng.Intn(2) == 0 {
			_, startAt = common.NextRound(start, per, genesis)
			mode = "catchup"
		}
		next, stop := beacon.VerifTickerAt(cc, per, genesis, startAt)
		emit.Quiesce(10 * time.Second)
		drain := func(what string) {
			// the ticker's goroutines run until they block; its channel holds one tick at a time
			for k := 0; k < 3; k++ {
				emit.Quiesce(10 * time.Second)
				for {
					r, t, ok := next()
					if !ok {
						break
					}
					wall := cc.Now().Unix()
					cur := common.CurrentRound(t, per, genesis)
					lines = append(lines, fmt.Sprintf("TK2 %d %d %d %d %d %d", period, genesis, startAt, wall, t, r))
					descr = append(descr, fmt.Sprintf("period=%d genesis=%d %s(startAt=%d) tick(time=%d, round=%d) delivered at clock %d after %s", period, genesis, mode, startAt, t, r, wall, what))
					rep.Evaluations++
					rep.Count("tick/after-" + what)
					in := map[string]interface{}{"period_s": period, "genesis": genesis, "channel_start": startAt, "mode": mode, "tick_time": t, "tick_round": r, "clock_at_delivery": wall, "after": what}
					if r != cur || common.TimeOfRound(per, genesis, r) > t || common.TimeOfRound(per, genesis, r+1) <= t {
						rep.Fail("C16-tick-round-is-not-the-round-of-its-time", fmt.Sprintf("the ticker announced round %d at time %d, but the round whose scheduled time is at or before that instant with the next round's time after it is %d", r, t, cur), in)
					}
					// C04: whatever the clock did (stalls, jumps forward), a tick handed to the handler is for a
					// round whose time has come on the node's own clock, and never comes before genesis
					if t < startAt || t > wall {
						rep.Fail("C16-tick-time-is-not-a-past-clock-reading", fmt.Sprintf("the tick carries time %d; its channel starts at %d and the clock reads %d when it is delivered", t, startAt, wall), in)
					}
					if common.TimeOfRound(per, genesis, r) > wall || wall < genesis {
						rep.Fail("C04-tick-for-a-round-before-its-time-on-the-clock", fmt.Sprintf("the handler was handed a tick for round %d (scheduled time %d) while its own clock reads %d (genesis %d)", r, common.TimeOfRound(per, genesis, r), wall, genesis), in)
					}
				}
			}
		}
		if start < genesis && rng.Intn(2) == 0 {
			// the timer armed for genesis fires while the node's own clock, stalled, still reads before genesis
			cc.stallWall(time.Duration(genesis-start) * time.Second)
			drain("wallstall-before-genesis")
		}
		holding := false
		for i := 0; i < steps; i++ {
			now := cc.Now().Unix()
			toNext := period
			if now >= genesis {
				toNext = period - (now-genesis)%period
			} else {
				toNext = genesis - now
			}
			switch x := rng.Intn(11); {
			case x == 10: // the wall clock stalls (or is slewed back) while the timers keep running
				cc.stallWall(time.Duration(1+rng.Int63n(period)) * time.Second)
				drain("wallstall")
			case x < 4: // exactly to the next boundary
				fc.Advance(time.Duration(toNext) * time.Second)
				drain("boundary")
			case x < 6: // inside the round
				if toNext > 1 {
					fc.Advance(time.Duration(1+rng.Int63n(toNext-1)) * time.Second)
				}
				drain("inside")
			case x < 8: // a burst over several periods
				fc.Advance(time.Duration(toNext+int64(1+rng.Intn(4))*period+int64(rng.Intn(int(period)))) * time.Second)
				drain("burst")
			default: // a stall: ticks are generated but not consumed for a while
				if !holding {
					cc.setHold(true)
					holding = true
					fc.Advance(time.Duration(toNext) * time.Second)
					emit.Quiesce(10 * time.Second)
					fc.Advance(time.Duration(int64(1+rng.Intn(3))*period) * time.Second)
					emit.Quiesce(10 * time.Second)
				} else {
					cc.release()
					holding = false
					drain("stall")
				}
			}
		}
		if holding {
			cc.release()
			drain("stall")
		}
		rep.DistinctNontrivial += steps
		stop()
	}
	rep.Rule = "the real beacon ticker on a fake clock, its channel registered as the handler does (ChannelAt genesis / next round): advances to boundaries, inside rounds, bursts over several periods, process stalls (ticks generated but not consumed), wall-clock stalls (timers run, Now stands still); every delivered (round, time) with the clock reading at delivery is one case; distinct = clock events"
	if err := rep.Shard(out, "cases_ticker", []string{"From DV Require Import Corr.TimeCorr."}, "tcase", "mismatches", lines, descr, 800); err != nil {
		return err
	}
	return rep.Write(out)
}
