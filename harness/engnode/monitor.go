package engnode

import (
	"fmt"
	"time"

	"github.com/drand/drand/v2/common"
	"github.com/drand/drand/v2/zzverif/emit"
)

// monitor evaluates the properties' own predicates on the implementation's observations,
// independently of the Coq model.
func monitor(rep *emit.Report, c *caseRun) {
	w := c.w
	per := time.Duration(w.Period) * time.Second
	lastRound := int64(0)
	genesisSig := "" // the signature of round 0 as first written
	genesisSeen := false
	// valid contributors seen so far per (round, prev id): independent count for C03
	// (the first accepted partial of an index for a (round, prev) occupies that index's slot, as in the
	// node's cache; whether it counts is decided under the polynomial that is live when the count is made)
	contrib := map[[2]int64]map[int][]byte{}
	prevOf := map[int64][]byte{}
	prevsOfRound := map[int64]map[int64]bool{} // accepted partials: round -> previous signatures they were signed over
	thr := w.Epochs[0].Thr
	epoch := 0
	pendingTarget := int64(-1)
	transitionTarget := int64(-1)
	nEp := 1 // epochs that exist at the current step
	expectPut := int64(-1)
	reached := map[int64]bool{} // rounds for which a threshold of valid partials of distinct live indices was counted
	// C05 catch-up: a beacon appended by the aggregator while the node is behind the round of its
	// last tick makes the node sign the next round after the catch-up period, without waiting for
	// the next tick
	type catchExp struct {
		round uint64
		due   int64
		step  int
	}
	var pendingCatch []catchExp
	lastTick := uint64(0)         // round of the last tick the running handler has seen (0: none yet)
	emitted := map[uint64]int64{} // round -> latest clock at which the node released a partial for it
	addContrib := func(headBefore uint64, round int64, prev int64, idx int, sig, prevBytes []byte) {
		// only rounds in the aggregator's window are cached
		if round <= int64(headBefore) || round > int64(headBefore)+4 {
			return
		}
		k := [2]int64{round, prev}
		if contrib[k] == nil {
			contrib[k] = map[int][]byte{}
		}
		if _, taken := contrib[k][idx]; !taken {
			contrib[k][idx] = sig
		}
		prevOf[prev] = prevBytes
		if prevsOfRound[round] == nil {
			prevsOfRound[round] = map[int64]bool{}
		}
		prevsOfRound[round][prev] = true
		valid := 0
		for _, sg := range contrib[k] {
			if w.Sch.ThresholdScheme.VerifyPartial(w.Epochs[epoch].PubPoly, w.Digest(uint64(round), prevBytes), sg) == nil {
				valid++
			}
		}
		if valid >= thr {
			reached[round] = true
			// the aggregator recovers, flushes every cached round up to this one, and appends the
			// beacon if it is the successor of the head (built on the head's signature)
			if round == int64(headBefore)+1 && prev == int64(headBefore) {
				expectPut = round
			}
			for kk := range contrib {
				if kk[0] <= round {
					delete(contrib, kk)
				}
			}
		}
	}
	for i, s := range c.steps {
		expectPut = -1
		in := map[string]interface{}{"case": c.desc, "step": i, "event": s.ev, "obs": s.obs}
		if s.ev.Kind == "transition" {
			pendingTarget = c.r.lastTarget
			transitionTarget = c.r.lastTarget
			nEp++
		}
		if s.ev.Kind == "stop" || s.ev.Kind == "restart" {
			pendingCatch, lastTick = nil, 0         // sleepers die with the handler; the new one has seen no tick
			contrib = map[[2]int64]map[int][]byte{} // the partial cache does not survive a restart
			if s.ev.Kind == "restart" {
				// the restarted process loads the latest group
				epoch = nEp - 1
				thr = w.Epochs[epoch].Thr
				pendingTarget = -1
			}
		}
		if s.ev.Kind == "adv" && c.r != nil {
			// a tick happened if the advance reached a round boundary while the handler was ticking
			old, nw := s.obs.Now-s.ev.D, s.obs.Now
			if nw >= w.Genesis && s.tickingAfter {
				k := (nw - w.Genesis) / w.Period
				if tt := w.Genesis + k*w.Period; tt > old {
					lastTick = uint64(k + 1)
				}
			}
		}
		for _, e := range s.obs.Emits {
			if e.Clock > emitted[e.Round] {
				emitted[e.Round] = e.Clock
			}
		}
		if s.ev.Kind == "part" && !s.syncOnAfter {
			for _, p := range s.obs.Puts {
				if p.Round < lastTick {
					pendingCatch = append(pendingCatch, catchExp{round: p.Round + 1, due: s.obs.Now + w.Catchup, step: i})
				}
			}
		}
		var still []catchExp
		for _, ce := range pendingCatch {
			if s.obs.Now < ce.due {
				still = append(still, ce)
				continue
			}
			if at, ok := emitted[ce.round]; !ok || at < c.steps[ce.step].obs.Now {
				rep.Fail("C05-no-catchup-partial-after-late-round", fmt.Sprintf("round %d was appended at step %d while the node was behind its last tick (%d), but no partial for round %d was released within the catch-up period", ce.round-1, ce.step, lastTick, ce.round), in)
			}
		}
		pendingCatch = still
		// C04: no emission for a round before its time on the node's own clock
		for _, e := range s.obs.Emits {
			if common.TimeOfRound(per, w.Genesis, e.Round) > e.Clock {
				rep.Fail("C04-early-emission", "partial released before the round's time on the node's own clock", in)
			}
			if !e.Valid {
				rep.Fail("C04-emission-invalid", "emitted partial does not verify under the node's own share", in)
			}
			if e.Valid {
				own := w.Me
				if i, err := w.Sch.ThresholdScheme.IndexOf(c.t.bytes[e.SigID]); err == nil {
					own = i
				}
				addContrib(s.obs.HeadBefore, int64(e.Round), e.Prev, own, c.t.bytes[e.SigID], c.t.bytes[e.Prev])
			}
		}
		// C07 / C03: once the last pre-transition round is stored only shares of the new group count:
		// a partial that does not verify against the NEW group's polynomial must be refused
		if s.ev.Kind == "part" && transitionTarget >= 0 && int64(s.obs.HeadBefore) >= transitionTarget && s.ev.Round > s.obs.HeadBefore {
			newEp := w.Epochs[nEp-1]
			okNew := w.Sch.ThresholdScheme.VerifyPartial(newEp.PubPoly, w.Digest(s.ev.Round, s.obs.PrevBytes), s.obs.SigBytes) == nil
			cur := common.CurrentRound(s.obs.Now, per, w.Genesis)
			if !okNew && !s.obs.Rejected && s.ev.Round <= cur+1 {
				rep.Fail("C07-stale-share-partial-accepted-after-switch", "after the last pre-transition round was stored, a partial that does not verify under the new group's polynomial was not refused", in)
				rep.Fail("C03-stale-share-partial-accepted-after-switch", "a partial that is not valid for the live (new) group was accepted and can count towards the threshold", in)
			}
		}
		// C04: partial for a round beyond clock+1 must be refused
		if s.ev.Kind == "part" {
			// the round after the one the clock is in (before genesis no round has started: that is round 1)
			next, _ := common.NextRound(s.obs.Now, per, w.Genesis)
			if s.ev.Round > next && !s.obs.Rejected {
				rep.Fail("C04-future-partial-accepted", "partial more than one round ahead of the clock was not refused", in)
			}
			// C03: a partial whose index no member holds, in any group the node has ever been given,
			// never counts - however valid the share behind it is
			// (a packet for a round that is already stored is dropped without being looked at)
			if !s.obs.Rejected && s.ev.Round > s.obs.HeadBefore {
				if idx, err := w.Sch.ThresholdScheme.IndexOf(s.obs.SigBytes); err == nil {
					member := false
					for _, e := range w.Epochs[:nEp] {
						member = member || e.IsMember(idx)
					}
					if !member {
						rep.Fail("C03-nonmember-index-partial-accepted", fmt.Sprintf("a partial carrying index %d, which no group member holds, was not refused", idx), in)
					}
				}
			}
			// C12 / C03: a partial for a round outside the aggregator's window (head, head+4] is dropped:
			// it is not cached, cannot be aggregated and triggers nothing
			if s.ev.Round > s.obs.HeadBefore+4 && (len(s.obs.Puts) > 0 || len(s.obs.Syncs) > 0) {
				rep.Fail("C12-partial-outside-window-not-ignored", fmt.Sprintf("a partial for round %d arrived while the head was %d (window ends at %d): %d beacons stored, %d sync requests made while handling it", s.ev.Round, s.obs.HeadBefore, s.obs.HeadBefore+4, len(s.obs.Puts), len(s.obs.Syncs)), in)
				rep.Fail("C03-partial-outside-window-not-ignored", fmt.Sprintf("a partial for round %d (head %d, window ends at %d) was aggregated or triggered a sync", s.ev.Round, s.obs.HeadBefore, s.obs.HeadBefore+4), in)
			}
			// C05 / C07: a valid partial of another member of the LIVE group (after a resharing: the new
			// one, whatever index the member holds in it), for a round in the window, is never refused
			if s.obs.Rejected && s.obs.Valid && s.tickingAfter && s.obs.LiveBefore >= 0 && s.obs.LiveBefore == s.obs.LiveAfter && s.ev.Round > s.obs.HeadBefore {
				lg := w.Epochs[s.obs.LiveBefore]
				next, _ := common.NextRound(s.obs.Now, per, w.Genesis)
				if idx, err := w.Sch.ThresholdScheme.IndexOf(s.obs.SigBytes); err == nil && s.ev.Round <= next && lg.IsMember(idx) && idx != w.meIn(lg) {
					rep.Fail("C05-valid-partial-of-live-member-refused", fmt.Sprintf("a valid partial for round %d of member index %d of the live group (epoch %d) was refused", s.ev.Round, idx, s.obs.LiveBefore), in)
					if s.obs.LiveBefore > 0 {
						rep.Fail("C03-partial-not-checked-against-the-live-polynomial", fmt.Sprintf("after the resharing a partial for round %d that is valid under the live group's public polynomial (member index %d) was refused: partials are not verified against the polynomial of the live group", s.ev.Round, idx), in)
						rep.Fail("C07-valid-partial-of-new-group-member-refused", fmt.Sprintf("after the transition a valid partial for round %d of member index %d of the new group was refused", s.ev.Round, idx), in)
					}
				}
			}
			// C03: a partial that does not verify for exactly the (round, previous signature) it is
			// labelled with, under the polynomial the node uses, is refused (never cached, never counted)
			if !s.obs.Rejected && !s.obs.Valid && s.ev.Round > s.obs.HeadBefore {
				rep.Fail("C03-invalid-partial-accepted", fmt.Sprintf("a partial that does not verify for round %d and the previous signature it carries (mutation %q) was not refused", s.ev.Round, s.ev.Mut), in)
			}
			if !s.obs.Rejected && s.obs.Valid && w.Epochs[epoch].IsMember(s.ev.Claim) && s.ev.Claim != w.Epochs[epoch].Me {
				addContrib(s.obs.HeadBefore, int64(s.ev.Round), c.t.id(s.obs.PrevBytes), s.ev.Claim, s.obs.SigBytes, s.obs.PrevBytes)
			}
		}
		// C05 / C07: the node syncs with the group it is a member of NOW: every peer it asks is a member
		// of the live group (after a resharing: the new one -- leavers may be gone for good), and when
		// every peer fails all the other members have been asked
		if len(s.obs.Syncs) > 0 && s.obs.LiveBefore >= 0 && s.obs.LiveBefore == s.obs.LiveAfter {
			lg := w.Epochs[s.obs.LiveBefore]
			own := ""
			if n := lg.node(w.meIn(lg)); n != nil {
				own = n.Address()
			}
			members := map[string]bool{}
			for _, n := range lg.Group.Nodes {
				if n.Address() != own {
					members[n.Address()] = true
				}
			}
			asked := map[string]bool{}
			for _, sc := range s.obs.Syncs {
				asked[sc.Peer] = true
				if !members[sc.Peer] {
					rep.Fail("C05-sync-asks-a-peer-outside-the-live-group", fmt.Sprintf("sync request sent to %s, which is not a member of the group the node is in (epoch %d)", sc.Peer, s.obs.LiveBefore), in)
					rep.Fail("C07-sync-asks-a-peer-outside-the-live-group", fmt.Sprintf("after the transition a sync request went to %s, not a member of the live group (epoch %d)", sc.Peer, s.obs.LiveBefore), in)
					break
				}
			}
			if !s.syncOnAfter && !c.steps[max(i-1, 0)].syncOnAfter {
				for m := range members {
					if !asked[m] {
						rep.Fail("C05-sync-skips-a-live-member", fmt.Sprintf("every peer refused, yet member %s of the live group (epoch %d) was never asked", m, s.obs.LiveBefore), in)
						rep.Fail("C07-sync-skips-a-live-member", fmt.Sprintf("every peer refused, yet member %s of the live group (epoch %d) was never asked", m, s.obs.LiveBefore), in)
						break
					}
				}
			}
		}
		// C02: round 0 is written once; what a handler start re-inserts is the same genesis beacon (a
		// resharing keeps the genesis seed: another value changes the chain under every node that restarts)
		for _, g := range s.obs.Genesis {
			if !genesisSeen {
				genesisSeen, genesisSig = true, g
			} else if g != genesisSig {
				rep.Fail("C02-genesis-replaced-by-another-value", "a handler start wrote round 0 again with a value that differs from the genesis beacon the chain started with", in)
			}
		}
		for _, p := range s.obs.Puts {
			// C01: every stored beacon verifies
			if !p.Verifies {
				rep.Fail("C01-unverifiable-beacon-stored", "a stored beacon does not verify under the group key", in)
			}
			// C03: what the aggregator builds while handling a partial is the group's signature: Recover
			// was given at least the live threshold of valid partials (with fewer it interpolates another value)
			if s.ev.Kind == "part" && len(s.obs.Syncs) == 0 && p.Round > 0 && !p.Verifies {
				rep.Fail("C03-aggregated-beacon-does-not-verify", fmt.Sprintf("round %d was stored while handling a partial and its signature is not the group's: it was interpolated from fewer than the live threshold (%d) of valid partials", p.Round, thr), in)
			}
			// C03: a beacon the aggregator appends while handling a partial (no sync stream involved) was
			// recovered from valid partials of at least a threshold of distinct indices of the live group,
			// the node's own released partial included -- copies of it coming back from the network do not count
			noSync := !s.syncOnAfter && (i == 0 || !c.steps[i-1].syncOnAfter) // no peer answers sync requests: every Put comes from the aggregator
			if (s.ev.Kind == "part" && !s.syncOnAfter && len(s.obs.Syncs) == 0 || s.ev.Kind != "part" && s.ev.Kind != "syncmode" && noSync) && p.Round > 0 && !reached[int64(p.Round)] {
				rep.Fail("C03-beacon-from-fewer-than-threshold", fmt.Sprintf("round %d was stored (event %s, no sync stream involved) although fewer than the threshold (%d) of distinct live members had contributed a valid partial for it", p.Round, s.ev.Kind, thr), in)
			}
			// C02: gap-free, written once
			if int64(p.Round) != lastRound+1 && !(p.Round == 0 && lastRound >= 0) {
				rep.Fail("C02-gap-or-rewrite", fmt.Sprintf("Put of round %d after round %d", p.Round, lastRound), in)
			}
			if int64(p.Round) > lastRound {
				lastRound = int64(p.Round)
			}
			for kk := range contrib { // every stored round flushes the cache up to it
				if kk[0] <= int64(p.Round) {
					delete(contrib, kk)
				}
			}
			if pendingTarget >= 0 && int64(p.Round) >= pendingTarget {
				epoch = nEp - 1
				thr = w.Epochs[epoch].Thr
				pendingTarget = -1
				// (cached partials verified under the old polynomial stay in their slots but no longer count)
			}
		}
		// C05: once valid partials of a threshold of distinct live members (the node's own included)
		// for the round after its head, on top of its head, have reached the node, it has stored that round
		if expectPut >= 0 && int64(s.obs.Head) < expectPut && s.ev.Kind != "stop" {
			var tail []string
			for k := i - 16; k <= i; k++ {
				if k >= 0 {
					tail = append(tail, fmt.Sprintf("%d %s from=%d claim=%d r=%d ep=%d mut=%s prev=%s d=%d rej=%v valid=%v puts=%d emits=%d head=%d now=%d", k, c.steps[k].ev.Kind, c.steps[k].ev.From, c.steps[k].ev.Claim, c.steps[k].ev.Round, c.steps[k].ev.Ep, c.steps[k].ev.Mut, c.steps[k].ev.Prev, c.steps[k].ev.D, c.steps[k].obs.Rejected, c.steps[k].obs.Valid, len(c.steps[k].obs.Puts), len(c.steps[k].obs.Emits), c.steps[k].obs.Head, c.steps[k].obs.Now))
				}
			}
			in["last_steps"] = tail
			if len(prevsOfRound[expectPut]) > 1 {
				// C03: partials signed for another previous signature never count -- nor get in the way
				rep.Fail("C03-partial-for-another-previous-signature-interferes", fmt.Sprintf("round %d: a threshold (%d) of valid partials over the head's signature reached the node, yet no beacon: accepted partials over %d different previous signatures share one slot", expectPut, thr, len(prevsOfRound[expectPut])), in)
			}
			rep.Fail("C05-threshold-of-partials-but-no-beacon", fmt.Sprintf("valid partials of a threshold (%d) of distinct live members for round %d on top of the head reached the node but the round was not stored", thr, expectPut), in)
			if epoch > 0 {
				rep.Fail("C07-new-group-threshold-but-round-halted", fmt.Sprintf("after the transition, valid partials of a threshold (%d) of the NEW group for round %d reached the node but the round was not produced", thr, expectPut), in)
			}
		}
		_ = thr
	}
}
