package engnode

import (
	"fmt"
	"time"

	"github.com/drand/drand/v2/common"
	"github.com/drand/drand/v2/zzverif/emit"
)

// monitor evaluates the properties' own predicates on the implementation's observations,
// independently of the Coq model.
func monitor(rep *emit.Report, c *caseRun) {
	w := c.w
	per := time.Duration(w.Period) * time.Second
	lastRound := int64(0)
	// valid contributors seen so far per (round, prev id): independent count for C03
	contrib := map[[2]int64]map[int]bool{}
	thr := w.Epochs[0].Thr
	epoch := 0
	pendingTarget := int64(-1)
	transitionTarget := int64(-1)
	for i, s := range c.steps {
		in := map[string]interface{}{"case": c.desc, "step": i, "event": s.ev, "obs": s.obs}
		if s.ev.Kind == "transition" {
			pendingTarget = c.r.lastTarget
			transitionTarget = c.r.lastTarget
		}
		if s.ev.Kind == "part" && !s.obs.Rejected && s.obs.Valid {
			idx, err := w.Sch.ThresholdScheme.IndexOf(c.t.bytes[c.t.id(nil)])
			_ = idx
			_ = err
		}
		// C04: no emission for a round before its time on the node's own clock
		for _, e := range s.obs.Emits {
			if common.TimeOfRound(per, w.Genesis, e.Round) > e.Clock {
				rep.Fail("C04-early-emission", "partial released before the round's time on the node's own clock", in)
			}
			if !e.Valid {
				rep.Fail("C04-emission-invalid", "emitted partial does not verify under the node's own share", in)
			}
			k := [2]int64{int64(e.Round), e.Prev}
			if contrib[k] == nil {
				contrib[k] = map[int]bool{}
			}
			contrib[k][w.Me] = true
		}
		// C07 / C03: once the last pre-transition round is stored only shares of the new group count:
		// a partial that does not verify against the NEW group's polynomial must be refused
		if s.ev.Kind == "part" && transitionTarget >= 0 && int64(s.obs.HeadBefore) >= transitionTarget && s.ev.Round > s.obs.HeadBefore {
			newEp := w.Epochs[len(w.Epochs)-1]
			okNew := w.Sch.ThresholdScheme.VerifyPartial(newEp.PubPoly, w.Digest(s.ev.Round, s.obs.PrevBytes), s.obs.SigBytes) == nil
			cur := common.CurrentRound(s.obs.Now, per, w.Genesis)
			if !okNew && !s.obs.Rejected && s.ev.Round <= cur+1 {
				rep.Fail("C07-stale-share-partial-accepted-after-switch", "after the last pre-transition round was stored, a partial that does not verify under the new group's polynomial was not refused", in)
				rep.Fail("C03-stale-share-partial-accepted-after-switch", "a partial that is not valid for the live (new) group was accepted and can count towards the threshold", in)
			}
		}
		// C04: partial for a round beyond clock+1 must be refused
		if s.ev.Kind == "part" {
			cur := common.CurrentRound(s.obs.Now, per, w.Genesis)
			if s.ev.Round > cur+1 && !s.obs.Rejected {
				rep.Fail("C04-future-partial-accepted", "partial more than one round ahead of the clock was not refused", in)
			}
			if !s.obs.Rejected && s.obs.Valid && s.ev.Claim < w.Epochs[epoch].N && s.ev.Claim != w.Me {
				k := [2]int64{int64(s.ev.Round), c.t.id(c.r.prevBytes(s.ev.Prev, s.ev.Round))}
				if contrib[k] == nil {
					contrib[k] = map[int]bool{}
				}
				contrib[k][s.ev.Claim] = true
			}
		}
		for _, p := range s.obs.Puts {
			// C01: every stored beacon verifies
			if !p.Verifies {
				rep.Fail("C01-unverifiable-beacon-stored", "a stored beacon does not verify under the group key", in)
			}
			// C02: gap-free, written once
			if int64(p.Round) != lastRound+1 && !(p.Round == 0 && lastRound >= 0) {
				rep.Fail("C02-gap-or-rewrite", fmt.Sprintf("Put of round %d after round %d", p.Round, lastRound), in)
			}
			if int64(p.Round) > lastRound {
				lastRound = int64(p.Round)
			}
			if pendingTarget >= 0 && int64(p.Round) >= pendingTarget {
				epoch = len(w.Epochs) - 1
				thr = w.Epochs[epoch].Thr
				pendingTarget = -1
			}
		}
		_ = thr
	}
}
