package engnode

import (
	"bytes"
	"context"
	"crypto/sha256"
	"errors"
	"fmt"
	"math/rand"
	"os"
	"sync"
	"time"

	"google.golang.org/grpc/metadata"
	pbproto "google.golang.org/protobuf/proto"

	"github.com/drand/drand/v2/common"
	"github.com/drand/drand/v2/common/key"
	"github.com/drand/drand/v2/common/log"
	"github.com/drand/drand/v2/crypto"
	"github.com/drand/drand/v2/internal/chain"
	"github.com/drand/drand/v2/internal/core"
	"github.com/drand/drand/v2/internal/dkg"
	"github.com/drand/drand/v2/internal/net"
	"github.com/drand/drand/v2/internal/util"
	proto "github.com/drand/drand/v2/protobuf/drand"
	"github.com/drand/drand/v2/zzverif/emit"
)

// memKeyStore is an in-memory key.Store.
type memKeyStore struct {
	pair  *key.Pair
	group *key.Group
	share *key.Share
}

func (m *memKeyStore) SaveKeyPair(p *key.Pair) error   { m.pair = p; return nil }
func (m *memKeyStore) LoadKeyPair() (*key.Pair, error) { return m.pair, nil }
func (m *memKeyStore) SaveShare(s *key.Share) error    { m.share = s; return nil }
func (m *memKeyStore) LoadShare() (*key.Share, error) {
	if m.share == nil {
		return nil, errors.New("no share")
	}
	return m.share, nil
}
func (m *memKeyStore) SaveGroup(g *key.Group) error { m.group = g; return nil }
func (m *memKeyStore) LoadGroup() (*key.Group, error) {
	if m.group == nil {
		return nil, errors.New("no group")
	}
	return m.group, nil
}
func (m *memKeyStore) Reset() error     { return nil }
func (m *memKeyStore) TestWrite() error { return nil }

type nullPublic struct{}

func (nullPublic) PublicRandStream(context.Context, net.Peer, *proto.PublicRandRequest, ...net.CallOption) (chan *proto.PublicRandResponse, error) {
	return nil, errors.New("not served")
}
func (nullPublic) PublicRand(context.Context, net.Peer, *proto.PublicRandRequest) (*proto.PublicRandResponse, error) {
	return nil, errors.New("not served")
}
func (nullPublic) ChainInfo(context.Context, net.Peer, *proto.ChainInfoRequest) (*proto.ChainInfoPacket, error) {
	return nil, errors.New("not served")
}
func (nullPublic) ListBeaconIDs(context.Context, net.Peer) (*proto.ListBeaconIDsResponse, error) {
	return nil, errors.New("not served")
}

// randStream collects what PublicRandStream sends.
type randStream struct {
	ctx context.Context
	mu  sync.Mutex
	got []*proto.PublicRandResponse
}

func (s *randStream) Send(r *proto.PublicRandResponse) error {
	s.mu.Lock()
	// gRPC serialises inside Send; the trimmed bolt cursor hands out slices that are only valid
	// inside its read transaction, so the in-memory stream must copy as the wire would
	r = pbproto.Clone(r).(*proto.PublicRandResponse)
	s.got = append(s.got, r)
	s.mu.Unlock()
	return nil
}
func (s *randStream) Context() context.Context     { return s.ctx }
func (s *randStream) SetHeader(metadata.MD) error  { return nil }
func (s *randStream) SendHeader(metadata.MD) error { return nil }
func (s *randStream) SetTrailer(metadata.MD)       {}
func (s *randStream) SendMsg(interface{}) error    { return nil }
func (s *randStream) RecvMsg(interface{}) error    { return nil }
func (s *randStream) n() int {
	s.mu.Lock()
	defer s.mu.Unlock()
	return len(s.got)
}

// RunServe is the engine for the serving side of C01: a REAL core.BeaconProcess (Load, StartBeacon)
// whose store is filled through the handler's own store stack, queried through PublicRand
// (exact round, round 0, the wait-for-next-round path, unknown rounds), the proxy client used by
// the HTTP relay (core.Proxy Get) and PublicRandStream.
func RunServe(out string, seed int64, tier string) error {
	rep := emit.NewReport("serve", seed, tier)
	rng := rand.New(rand.NewSource(seed))
	schemes := []string{crypto.DefaultSchemeID, crypto.UnchainedSchemeID}
	ncases := 4
	if tier == "thorough" {
		schemes = crypto.ListSchemes()
		ncases = 20
	}
	var lines, descr []string
	for ci := 0; ci < ncases; ci++ {
		sch, _ := crypto.SchemeFromName(schemes[ci%len(schemes)])
		store := []chain.StorageType{chain.BoltDB, chain.MemDB}[rng.Intn(2)]
		// a world only to deal shares and compute the reference chain
		w, err := NewWorld(sch, 3, 2, 0, 3, time.Now().Unix()+100000, time.Now().Unix(), "memdb")
		if err != nil {
			return err
		}
		ids := newIDs(w)
		head := uint64(4 + rng.Intn(6))
		for r := uint64(0); r <= head+3; r++ {
			ids.id(w.RefBeacon(r).Signature)
		}
		dir, err := os.MkdirTemp("", "zzv-serve-")
		if err != nil {
			return err
		}
		lg := log.New(discardSync{}, log.ErrorLevel, false)
		cfg := core.NewConfig(lg, core.WithConfigFolder(dir), core.WithDBStorageEngine(store), core.WithMemDBSize(2000))
		ks := &memKeyStore{pair: w.Privs[0], group: w.Epochs[0].Group, share: w.Epochs[0].Shares[0]}
		ctx, cancel := context.WithCancel(context.Background())
		bp, err := core.NewBeaconProcess(ctx, lg, ks, util.NewFanOutChan[dkg.SharingOutput](), "default", cfg,
			&net.PrivateGateway{ProtocolClient: w.Client, PublicClient: nullPublic{}})
		if err != nil {
			cancel()
			return err
		}
		if err := bp.Load(ctx); err != nil {
			cancel()
			return err
		}
		if err := bp.StartBeacon(ctx, false); err != nil {
			cancel()
			return err
		}
		h := bp.VerifBeaconHandler()
		put := func(r uint64) error {
			b := w.RefBeacon(r)
			return h.Store().Put(ctx, &common.Beacon{Round: b.Round, Signature: b.Signature, PreviousSig: b.PreviousSig})
		}
		for r := uint64(1); r <= head; r++ {
			if err := put(r); err != nil {
				cancel()
				return fmt.Errorf("put %d: %w", r, err)
			}
		}
		chainTerm := func(hd uint64) string {
			var bs []string
			for r := int64(hd); r >= 0; r-- {
				b := w.RefBeacon(uint64(r))
				prev := b.PreviousSig
				if !w.Chained() {
					prev = nil
				}
				bs = append(bs, beaconTerm(uint64(r), ids.id(prev), ids.id(b.Signature)))
			}
			return emit.List(bs)
		}
		respTerm := func(r *proto.PublicRandResponse, err error) string {
			if err != nil || r == nil {
				return "None"
			}
			return fmt.Sprintf("(Some %s)", beaconTerm(r.Round, ids.id(r.PreviousSignature), ids.id(r.Signature)))
		}
		check := func(kind string, asked uint64, r *proto.PublicRandResponse, err error, hd uint64) {
			in := map[string]interface{}{"scheme": sch.Name, "store": string(store), "kind": kind, "asked": asked, "head": hd}
			rep.Evaluations++
			rep.DistinctNontrivial++
			rep.Count(kind)
			if err != nil || r == nil {
				if asked <= hd {
					rep.Fail("C01-stored-round-not-served", "a stored round could not be served", in)
				}
				return
			}
			if asked != 0 && r.Round != asked {
				rep.Fail("C01-served-other-round", fmt.Sprintf("a request for round %d was answered with round %d", asked, r.Round), in)
			}
			if asked == 0 && r.Round != hd {
				rep.Fail("C01-latest-is-not-head", fmt.Sprintf("round 0 answered with round %d, head is %d", r.Round, hd), in)
			}
			ref := w.RefBeacon(r.Round)
			if !bytes.Equal(r.Signature, ref.Signature) {
				rep.Fail("C01-served-beacon-differs-from-stored", "the served signature is not the stored one", in)
			}
			if w.Sch.VerifyBeacon(&common.Beacon{Round: r.Round, Signature: r.Signature, PreviousSig: r.PreviousSignature}, w.Epochs[0].PubPoly.Commit()) != nil {
				rep.Fail("C01-served-beacon-does-not-verify", "the served beacon does not verify under the group key", in)
			}
			if kind != "PublicRand" && kind != "PublicRand-wait" { // randomness is attached at the proxy / stream exits
				sum := sha256.Sum256(r.Signature)
				if !bytes.Equal(r.Randomness, sum[:]) {
					rep.Fail("C01-randomness-not-sha256-of-signature", "published randomness is not SHA-256 of the signature", in)
				}
			}
		}
		var reqs []string
		ask := []uint64{0, 1, head, head / 2, head + 5, head + 2, uint64(1 + rng.Intn(int(head)))}
		for _, a := range ask {
			r, err := bp.PublicRand(ctx, &proto.PublicRandRequest{Round: a})
			check("PublicRand", a, r, err, head)
			reqs = append(reqs, fmt.Sprintf("(%d, %s)", a, respTerm(r, err)))
			// the proxy client used by the HTTP relay
			pr, perr := core.Proxy(bp).Get(ctx, a)
			var pres *proto.PublicRandResponse
			if perr == nil {
				pres, _ = pr.(*proto.PublicRandResponse)
			}
			check("Proxy.Get", a, pres, perr, head)
			reqs = append(reqs, fmt.Sprintf("(%d, %s)", a, respTerm(pres, perr)))
		}
		lines = append(lines, fmt.Sprintf("SGet %s %s", chainTerm(head), emit.List(reqs)))
		descr = append(descr, fmt.Sprintf("get scheme=%s store=%s head=%d", sch.Name, store, head))
		// wait-for-next-round path: the request arrives first, the beacon is stored 30 ms later
		done := make(chan struct{})
		var wr *proto.PublicRandResponse
		var werr error
		go func() {
			wr, werr = bp.PublicRand(ctx, &proto.PublicRandRequest{Round: head + 1})
			close(done)
		}()
		time.Sleep(30 * time.Millisecond)
		if err := put(head + 1); err != nil {
			cancel()
			return err
		}
		<-done
		check("PublicRand-wait", head+1, wr, werr, head+1)
		lines = append(lines, fmt.Sprintf("SGet %s %s", chainTerm(head+1), emit.List([]string{fmt.Sprintf("(%d, %s)", head+1, respTerm(wr, werr))})))
		descr = append(descr, fmt.Sprintf("wait scheme=%s store=%s head=%d", sch.Name, store, head))
		head++
		// stream from a stored round, then two live rounds
		from := uint64(1 + rng.Intn(int(head)))
		sctx, scancel := context.WithCancel(ctx)
		st := &randStream{ctx: sctx}
		sdone := make(chan struct{})
		go func() {
			_ = bp.PublicRandStream(&proto.PublicRandRequest{Round: from}, st)
			close(sdone)
		}()
		waitFor(func() bool { return st.n() >= int(head-from+1) }, 3*time.Second)
		time.Sleep(20 * time.Millisecond) // let the stream register its live callback
		for k := uint64(1); k <= 2; k++ {
			if err := put(head + k); err != nil {
				cancel()
				return err
			}
		}
		waitFor(func() bool { return st.n() >= int(head+2-from+1) }, 3*time.Second)
		scancel()
		<-sdone
		var items []string
		st.mu.Lock()
		for i, r := range st.got {
			check("PublicRandStream", from+uint64(i), r, nil, head+2)
			items = append(items, beaconTerm(r.Round, ids.id(r.PreviousSignature), ids.id(r.Signature)))
		}
		st.mu.Unlock()
		lines = append(lines, fmt.Sprintf("SStream %s %d %s", chainTerm(head+2), from, emit.List(items)))
		descr = append(descr, fmt.Sprintf("stream scheme=%s store=%s from=%d head=%d", sch.Name, store, from, head+2))
		rep.Sample(descr[len(descr)-1], 4)
		bp.Stop(ctx)
		cancel()
		w.Close()
		_ = os.RemoveAll(dir)
	}
	rep.Rule = "a real core.BeaconProcess filled through its handler's store stack with a verified chain; PublicRand / core.Proxy Get for round 0, stored rounds, unknown rounds and the wait-for-next-round path; PublicRandStream from a stored round followed by live rounds; every answer is one evaluation"
	if err := rep.Shard(out, "cases_serve", []string{"From DV Require Import Model.Node Model.Serve Corr.ServeCorr."}, "scase", "mismatches", lines, descr, 300); err != nil {
		return err
	}
	return rep.Write(out)
}
