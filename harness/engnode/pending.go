package engnode

// Engine "pending" (property C12): how many partials of ONE member a real beacon.Handler takes as
// pending while its aggregator is stalled. The aggregator is stalled the way the unchanged tree
// stalls it: a stream consumer (SyncChain on the handler's own callback store) has stopped reading,
// its 100-slot queue is full, and the aggregator's next Put is held in callbackStore.Put. Then one
// other member sends a run of valid partials for the next round over different previous signatures,
// call after call through ProcessPartialBeacon, as the gRPC handler does. NewValidPartial is a
// blocking send on the aggregator's input channel: the sender must be held back once that channel
// is full. Model: np_run in Model/Cache.v (pending = min(sent, capacity)).

import (
	"context"
	"crypto/sha256"
	"encoding/binary"
	"fmt"
	"runtime"
	"sync"
	"sync/atomic"
	"time"

	"github.com/drand/drand/v2/common"
	"github.com/drand/drand/v2/crypto"
	"github.com/drand/drand/v2/internal/chain/beacon"
	proto "github.com/drand/drand/v2/protobuf/drand"
	"github.com/drand/drand/v2/zzverif/emit"
)

type stalledStream struct {
	ctx      context.Context
	entered  chan struct{}
	once     sync.Once
	released chan struct{}
}

func (s *stalledStream) Context() context.Context { return s.ctx }
func (s *stalledStream) Send(*proto.BeaconPacket) error {
	s.once.Do(func() { close(s.entered) })
	select {
	case <-s.released:
		return nil
	case <-s.ctx.Done():
		return s.ctx.Err()
	}
}

// announcingStore tells the harness when SyncChain has registered its callback.
type announcingStore struct {
	beacon.CallbackStore
	added chan struct{}
}

func (a *announcingStore) AddCallback(id string, fn beacon.CallbackFunc) {
	a.CallbackStore.AddCallback(id, fn)
	a.added <- struct{}{}
}

type pendReq struct{}

func (pendReq) GetFromRound() uint64         { return 0 }
func (pendReq) GetMetadata() *proto.Metadata { return &proto.Metadata{BeaconID: "default"} }

func pendFakeSig(round uint64) []byte {
	var b [8]byte
	binary.BigEndian.PutUint64(b[:], round)
	h := sha256.Sum256(b[:])
	return append(h[:], h[:]...)
}

func pendWaitFor(d time.Duration, cond func() bool) bool {
	deadline := time.Now().Add(d)
	for !cond() {
		if time.Now().After(deadline) {
			return false
		}
		time.Sleep(5 * time.Millisecond)
	}
	return true
}

type pendOutcome struct {
	sent, returned, extraGoroutines int
	stalled                         bool // the aggregator really was held in Put when the flood started
	note                            string
}

// pendingFlood runs the scenario with a flood of the given length.
func pendingFlood(flood int) (pendOutcome, error) {
	const (
		n, thr, me, flooder = 5, 3, 0, 4
		period              = int64(10)
		genesis             = int64(1_700_000_000)
	)
	out := pendOutcome{sent: flood}
	synced := uint64(beacon.CallbackWorkerQueue + 1)
	aggRound := synced + 1
	floodRound := aggRound + 1
	sch, err := crypto.SchemeFromName(crypto.DefaultSchemeID)
	if err != nil {
		return out, err
	}
	now := common.TimeOfRound(time.Duration(period)*time.Second, genesis, aggRound) + 1
	w, err := NewWorld(sch, n, thr, me, period, genesis, now, "mem")
	if err != nil {
		return out, err
	}
	ctx := context.Background()
	store := w.H.Store()
	sctx, scancel := context.WithCancel(ctx)
	st := &stalledStream{ctx: sctx, entered: make(chan struct{}), released: make(chan struct{})}
	syncDone := make(chan error, 1)
	as := &announcingStore{CallbackStore: store, added: make(chan struct{}, 1)}
	go func() { syncDone <- beacon.SyncChain(w.Log, as, pendReq{}, st) }()
	var release sync.Once
	unstall := func() { release.Do(func() { close(st.released) }) }
	defer func() {
		unstall()
		scancel()
		select {
		case <-syncDone:
		case <-time.After(5 * time.Second):
		}
		w.Close()
	}()

	select {
	case <-as.added:
	case <-time.After(5 * time.Second):
		out.note = "SyncChain did not register its callback"
		return out, nil
	}
	// 1. the chain grows by CallbackWorkerQueue+1 beacons while the consumer does not read
	last, err := store.Last(ctx)
	if err != nil {
		return out, err
	}
	for r := uint64(1); r <= synced; r++ {
		b := &common.Beacon{Round: r, PreviousSig: last.Signature, Signature: pendFakeSig(r)}
		if err := store.Put(ctx, b); err != nil {
			return out, fmt.Errorf("put %d: %w", r, err)
		}
		last = b
		if r == 1 {
			select {
			case <-st.entered:
			case <-time.After(5 * time.Second):
				out.note = "the stream consumer never got the first beacon"
				return out, nil
			}
		}
	}
	// the aggregator has been told about every stored beacon; only the consumer's queue is loaded
	if !pendWaitFor(5*time.Second, func() bool {
		p, s, c := w.H.VerifQueueLens()
		return p == 0 && s == 0 && c == beacon.CallbackWorkerQueue
	}) {
		out.note = "the consumer's queue did not fill as expected"
		return out, nil
	}
	time.Sleep(50 * time.Millisecond)

	partial := func(idx int, round uint64, prev []byte) *proto.PartialBeaconPacket {
		return &proto.PartialBeaconPacket{Round: round, PreviousSignature: prev, PartialSig: w.Partial(0, idx, round, prev)}
	}
	// 2. a threshold of members signs the next round: the aggregator stores it and is held in
	// callbackStore.Put by the full queue
	for idx := 1; idx <= thr; idx++ {
		if _, err := w.H.ProcessPartialBeacon(ctx, partial(idx, aggRound, last.Signature)); err != nil {
			return out, fmt.Errorf("partial of member %d for round %d refused: %w", idx, aggRound, err)
		}
	}
	if !pendWaitFor(10*time.Second, func() bool { return w.Head() == aggRound }) {
		out.note = "the aggregated round was not stored"
		return out, nil
	}
	time.Sleep(150 * time.Millisecond)
	if p, _, _ := w.H.VerifQueueLens(); p != 0 {
		out.note = "the aggregator had not taken every partial before stalling"
		return out, nil
	}
	out.stalled = true

	// 3. the flood of one member
	packets := make([]*proto.PartialBeaconPacket, flood)
	for i := range packets {
		packets[i] = partial(flooder, floodRound, pendFakeSig(uint64(1_000_000+i)))
	}
	before := runtime.NumGoroutine()
	var returned atomic.Int64
	floodDone := make(chan struct{})
	go func() {
		defer close(floodDone)
		for _, p := range packets {
			if _, err := w.H.ProcessPartialBeacon(ctx, p); err != nil {
				return
			}
			returned.Add(1)
		}
	}()
	// until the sender is through or has made no progress for a while
	lastSeen, lastChange := int64(-1), time.Now()
	finished := false
	for !finished && time.Since(lastChange) < 1500*time.Millisecond {
		select {
		case <-floodDone:
			finished = true
		default:
		}
		if a := returned.Load(); a != lastSeen {
			lastSeen, lastChange = a, time.Now()
		}
		time.Sleep(10 * time.Millisecond)
	}
	out.returned = int(returned.Load())
	out.extraGoroutines = runtime.NumGoroutine() - before
	if !finished {
		out.extraGoroutines-- // the sender itself, held in its call
	}
	if head := w.Head(); head != aggRound {
		out.stalled = false
		out.note = "the aggregator moved during the flood"
	}
	// let everything go: the consumer reads again, the aggregator resumes, the sender finishes
	unstall()
	select {
	case <-floodDone:
	case <-time.After(20 * time.Second):
		out.note = "the flood did not finish after the consumer was released"
	}
	return out, nil
}

// RunPending is the engine entry point.
func RunPending(outDir string, seed int64, tier string) error {
	rep := emit.NewReport("pending", seed, tier)
	floods := []int{4, 10, 11, 40}
	if tier == "thorough" {
		floods = []int{1, 4, 9, 10, 11, 12, 40, 150}
	}
	var cases, descr []string
	for _, n := range floods {
		o, err := pendingFlood(n)
		if err != nil {
			return err
		}
		rep.Evaluations += n
		rep.DistinctNontrivial++
		rep.Count(fmt.Sprintf("pending/flood=%d/returned=%d", n, o.returned))
		d := fmt.Sprintf("QCase: %d partials of one member sent while the aggregator is stalled: %d calls returned, %d extra goroutines (stalled=%v %s)", o.sent, o.returned, o.extraGoroutines, o.stalled, o.note)
		rep.Sample(d, 8)
		if !o.stalled {
			rep.Fail("C12-pending-scenario-not-reached", "the aggregator could not be brought to the stalled state: "+o.note, map[string]interface{}{"flood": n})
			continue
		}
		cases = append(cases, fmt.Sprintf("QCase %d %d", o.sent, o.returned))
		descr = append(descr, d)
		// M: the sender is held back: with a long flood not every call returns, and the partials that
		// were not taken do not sit in goroutines of their own
		if n >= 40 && (o.returned >= n || o.extraGoroutines > n/4) {
			rep.Fail("C12-pending-partials-unbounded-while-aggregator-stalled",
				fmt.Sprintf("while the aggregator was held in Put by a stream consumer %d beacons behind, %d of %d ProcessPartialBeacon calls carrying valid partials of the single member 4 (round %d, distinct previous signatures) returned and %d goroutines were left holding them: the sender is never held back, the node's pending partials of one member grow with what that member sends", beacon.CallbackWorkerQueue+1, o.returned, n, beacon.CallbackWorkerQueue+3, o.extraGoroutines),
				map[string]interface{}{"partials_sent": n, "calls_returned": o.returned, "extra_goroutines": o.extraGoroutines, "member": 4, "scheme": crypto.DefaultSchemeID})
		}
	}
	rep.Rule = "one real beacon.Handler (memdb, real chain store, aggregator and callback store): a SyncChain consumer that stopped reading, CallbackWorkerQueue+1 beacons stored, a threshold of partials for the next round so that the aggregator is held in callbackStore.Put, then floods of 4/10/11/40 valid partials of one other member through ProcessPartialBeacon; an evaluation = one partial of the flood; distinct = flood lengths"
	if err := rep.Shard(outDir, "cases_pending", []string{"From DV Require Import Model.Cache Corr.CacheCorr."}, "ccase", "mismatches", cases, descr, 50); err != nil {
		return err
	}
	return rep.Write(outDir)
}
