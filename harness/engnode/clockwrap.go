package engnode

import (
	"runtime"
	"strings"
	"sync"
	"time"

	clock "github.com/jonboulle/clockwork"
)

// countingClock wraps the fake clock handed to the node so that the harness knows which
// catch-up goroutines (Handler.run's sleepers) are asleep and when they have woken up. It does
// not change any behaviour: every call is forwarded.
type countingClock struct {
	*clock.FakeClock
	mu      sync.Mutex
	pending []time.Time // wake times of sleeping catch-up goroutines
	woken   int
	hold    bool       // ticks are being held back (the process is stalled as far as its ticker goes)
	held    *time.Time // the one pending tick
	heldOut chan time.Time
	skew    time.Duration // how far the node's wall clock (Now) lags the time base of its timers (0 unless the wall clock was stalled)
}

// The node reads the time of day (Now) and sleeps on timers; the two are not the same time base
// (NTP slews and steps the wall clock, a VM clock may be held back). stallWall lets the timers
// run for d while the wall clock stands still; Now, Until and Since answer in wall time and the
// stamps of ticker ticks are wall-clock readings, exactly as with the real clock.
func (c *countingClock) stallWall(d time.Duration) {
	c.mu.Lock()
	c.skew += d
	c.mu.Unlock()
	c.FakeClock.Advance(d)
}

func (c *countingClock) wallSkew() time.Duration {
	c.mu.Lock()
	defer c.mu.Unlock()
	return c.skew
}

func (c *countingClock) Now() time.Time                  { return c.FakeClock.Now().Add(-c.wallSkew()) }
func (c *countingClock) Until(t time.Time) time.Duration { return t.Sub(c.Now()) }
func (c *countingClock) Since(t time.Time) time.Duration { return c.Now().Sub(t) }

func (c *countingClock) Sleep(d time.Duration) {
	isCatchup := false
	pcs := make([]uintptr, 8)
	n := runtime.Callers(2, pcs)
	frames := runtime.CallersFrames(pcs[:n])
	for {
		f, more := frames.Next()
		if strings.Contains(f.Function, "beacon.(*Handler).run") {
			isCatchup = true
		}
		if !more {
			break
		}
	}
	if !isCatchup {
		c.FakeClock.Sleep(d)
		return
	}
	wake := c.FakeClock.Now().Add(d)
	c.mu.Lock()
	c.pending = append(c.pending, wake)
	c.mu.Unlock()
	c.FakeClock.Sleep(d)
	c.mu.Lock()
	for i, w := range c.pending {
		if w.Equal(wake) {
			c.pending = append(c.pending[:i], c.pending[i+1:]...)
			break
		}
	}
	c.woken++
	c.mu.Unlock()
}

// dueBy returns how many sleeping catch-up goroutines wake at or before t.
func (c *countingClock) dueBy(t time.Time) int {
	c.mu.Lock()
	defer c.mu.Unlock()
	k := 0
	for _, w := range c.pending {
		if !w.After(t) {
			k++
		}
	}
	return k
}

func (c *countingClock) counts() (pending, woken int) {
	c.mu.Lock()
	defer c.mu.Unlock()
	return len(c.pending), c.woken
}

// ---- a process stall, as the ticker sees it ----
// Go's tickers (and the fake one) keep at most one pending tick, stamped with the time it was
// generated, and drop the ones that follow until it is consumed. After a stall of the process the
// consumer therefore receives a tick whose time stamp lies in the past. The wrapper reproduces
// exactly that: while `hold` is set the first generated tick is kept and the later ones are
// dropped; release hands the kept (stale) tick over.

type heldTicker struct {
	inner clock.Ticker
	out   chan time.Time
	c     *countingClock
}

func (h *heldTicker) Chan() <-chan time.Time { return h.out }
func (h *heldTicker) Reset(d time.Duration)  { h.inner.Reset(d) }
func (h *heldTicker) Stop()                  { h.inner.Stop() }

func (h *heldTicker) pump() {
	for nt := range h.inner.Chan() {
		h.c.mu.Lock()
		nt = nt.Add(-h.c.skew) // a tick is stamped with the wall clock
		if h.c.hold {
			if h.c.held == nil {
				t := nt
				h.c.held, h.c.heldOut = &t, h.out
			}
			h.c.mu.Unlock()
			continue
		}
		h.c.mu.Unlock()
		select {
		case h.out <- nt:
		default:
		}
	}
}

// NewTicker wraps the fake ticker so that ticks can be held back.
func (c *countingClock) NewTicker(d time.Duration) clock.Ticker {
	h := &heldTicker{inner: c.FakeClock.NewTicker(d), out: make(chan time.Time, 1), c: c}
	go h.pump()
	return h
}

// setHold starts (or ends) holding ticks back.
func (c *countingClock) setHold(on bool) {
	c.mu.Lock()
	c.hold = on
	if on {
		c.held = nil
	}
	c.mu.Unlock()
}

// release ends the stall: the kept tick, if any, is delivered with its original time stamp.
// It returns that time stamp (zero if no tick was pending).
func (c *countingClock) release() time.Time {
	c.mu.Lock()
	c.hold = false
	t, out := c.held, c.heldOut
	c.held = nil
	c.mu.Unlock()
	if t == nil {
		return time.Time{}
	}
	select {
	case out <- *t:
	default:
	}
	return *t
}
