package engnode

import (
	"runtime"
	"strings"
	"sync"
	"time"

	clock "github.com/jonboulle/clockwork"
)

// countingClock wraps the fake clock handed to the node so that the harness knows which
// catch-up goroutines (Handler.run's sleepers) are asleep and when they have woken up. It does
// not change any behaviour: every call is forwarded.
type countingClock struct {
	*clock.FakeClock
	mu      sync.Mutex
	pending []time.Time // wake times of sleeping catch-up goroutines
	woken   int
}

func (c *countingClock) Sleep(d time.Duration) {
	isCatchup := false
	pcs := make([]uintptr, 8)
	n := runtime.Callers(2, pcs)
	frames := runtime.CallersFrames(pcs[:n])
	for {
		f, more := frames.Next()
		if strings.Contains(f.Function, "beacon.(*Handler).run") {
			isCatchup = true
		}
		if !more {
			break
		}
	}
	if !isCatchup {
		c.FakeClock.Sleep(d)
		return
	}
	wake := c.FakeClock.Now().Add(d)
	c.mu.Lock()
	c.pending = append(c.pending, wake)
	c.mu.Unlock()
	c.FakeClock.Sleep(d)
	c.mu.Lock()
	for i, w := range c.pending {
		if w.Equal(wake) {
			c.pending = append(c.pending[:i], c.pending[i+1:]...)
			break
		}
	}
	c.woken++
	c.mu.Unlock()
}

// dueBy returns how many sleeping catch-up goroutines wake at or before t.
func (c *countingClock) dueBy(t time.Time) int {
	c.mu.Lock()
	defer c.mu.Unlock()
	k := 0
	for _, w := range c.pending {
		if !w.After(t) {
			k++
		}
	}
	return k
}

func (c *countingClock) counts() (pending, woken int) {
	c.mu.Lock()
	defer c.mu.Unlock()
	return len(c.pending), c.woken
}
