// Package engnode drives one REAL beacon.Handler (the node under test) inside a simulated
// group: the harness owns the shares of all other members (real threshold BLS), the network
// (an in-memory net.ProtocolClient) and the node's clock (clockwork fake clock). It feeds the
// node event lists (clock advances, partial packets well-formed and forged, sync answers,
// stop/restart, group transition) and records projected observables: the result class of every
// ProcessPartialBeacon call, every Put on the node's base store and every partial the node
// emits together with the node's clock reading at that moment.
package engnode

import (
	"bytes"
	"context"
	"errors"
	"fmt"
	"sync"
	"sync/atomic"
	"time"

	clock "github.com/jonboulle/clockwork"
	"google.golang.org/grpc"

	"github.com/drand/drand/v2/common"
	"github.com/drand/drand/v2/common/key"
	"github.com/drand/drand/v2/common/log"
	"github.com/drand/drand/v2/crypto"
	"github.com/drand/drand/v2/internal/chain"
	"github.com/drand/drand/v2/internal/chain/beacon"
	"github.com/drand/drand/v2/internal/chain/boltdb"
	"github.com/drand/drand/v2/internal/chain/memdb"
	"github.com/drand/drand/v2/internal/net"
	proto "github.com/drand/drand/v2/protobuf/drand"
	"github.com/drand/kyber"
	"github.com/drand/kyber/share"
	"github.com/drand/kyber/share/dkg"
	"github.com/drand/kyber/util/random"
)

// Epoch is one sharing of the group secret.
type Epoch struct {
	N, Thr  int          // N = number of dealt share indices 0..N-1 (members and vacant ones)
	Me      int          // the index the node under test holds in this epoch (a resharing may change it)
	Members []int        // the indices held by group members, ascending; the others are vacant
	Shares  []*key.Share // by share index (the holders of vacant indices have valid shares too:
	// they are the participants a DKG left out of QUAL)
	Group   *key.Group
	PubPoly *share.PubPoly
}

// World is the simulated group around the node under test.
type World struct {
	Sch     *crypto.Scheme
	Period  int64
	Genesis int64
	Catchup int64
	Secret  kyber.Scalar
	Privs   []*key.Pair // identities, position = group index (epoch 0); later epochs may extend
	Epochs  []*Epoch
	Me      int  // group index of the node under test (epoch 0) and position of its identity in Privs
	FixedMe bool // system engine: epochs are shared between the nodes' worlds, every node keeps its index

	Clock  *clock.FakeClock
	CClock *countingClock
	Base   chain.Store
	Rec    *recStore
	Client *memClient
	H      *beacon.Handler
	Log    log.Logger

	declines int64 // signatures the node declined because the round's time had not come (read atomically)

	ref map[uint64]*common.Beacon // the reference chain (BLS is deterministic)
	dir string
}

// declineSink counts the "not signing a round ahead of the clock" warnings of the node under test.
type declineSink struct{ w *World }

func (d *declineSink) Write(p []byte) (int, error) {
	if bytes.Contains(p, []byte("not signing a round ahead of the clock")) {
		atomic.AddInt64(&d.w.declines, 1)
	}
	return len(p), nil
}
func (d *declineSink) Sync() error { return nil }

type discardSync struct{}

func (discardSync) Write(p []byte) (int, error) { return len(p), nil }
func (discardSync) Sync() error                 { return nil }

// recStore wraps the base chain.Store handed to NewHandler and records every Put.
type recStore struct {
	chain.Store
	mu   sync.Mutex
	puts []common.Beacon
}

func (r *recStore) Put(ctx context.Context, b *common.Beacon) error {
	err := r.Store.Put(ctx, b)
	if err == nil {
		r.mu.Lock()
		r.puts = append(r.puts, common.Beacon{Round: b.Round, Signature: append([]byte{}, b.Signature...), PreviousSig: append([]byte{}, b.PreviousSig...)})
		r.mu.Unlock()
	}
	return err
}

func (r *recStore) snapshot() []common.Beacon {
	r.mu.Lock()
	defer r.mu.Unlock()
	return append([]common.Beacon{}, r.puts...)
}

// Emission is one partial the node sent out.
type Emission struct {
	Round uint64
	Prev  []byte
	Sig   []byte
	Clock int64 // the node's clock when the packet left
	Sends int
	Per   map[string]int // sends per destination: identical packets are distinguished by multiplicity
}

// Mult is the number of times this identical packet was broadcast.
func (e *Emission) Mult() int {
	m := 0
	for _, v := range e.Per {
		if v > m {
			m = v
		}
	}
	return m
}

// SyncCall is one SyncChain request the node made.
type SyncCall struct {
	Peer string
	From uint64
}

// memClient is the in-memory network.
type memClient struct {
	w         *World
	mu        sync.Mutex
	emissions []*Emission
	syncCalls []SyncCall
	// syncAnswer decides what a peer streams back; nil = every peer refuses
	syncAnswer func(peer string, from uint64) ([]*proto.BeaconPacket, bool)
}

func (c *memClient) PartialBeacon(_ context.Context, p net.Peer, in *proto.PartialBeaconPacket, _ ...net.CallOption) error {
	c.mu.Lock()
	defer c.mu.Unlock()
	now := c.w.Clock.Now().Unix()
	for _, e := range c.emissions {
		if e.Round == in.Round && string(e.Prev) == string(in.PreviousSignature) && string(e.Sig) == string(in.PartialSig) && e.Clock == now {
			e.Sends++
			e.Per[p.Address()]++
			return nil
		}
	}
	c.emissions = append(c.emissions, &Emission{Round: in.Round, Prev: append([]byte{}, in.PreviousSignature...), Sig: append([]byte{}, in.PartialSig...), Clock: now, Sends: 1, Per: map[string]int{p.Address(): 1}})
	return nil
}

func (c *memClient) SyncChain(ctx context.Context, p net.Peer, in *proto.SyncRequest, _ ...net.CallOption) (chan *proto.BeaconPacket, error) {
	c.mu.Lock()
	c.syncCalls = append(c.syncCalls, SyncCall{Peer: p.Address(), From: in.GetFromRound()})
	ans := c.syncAnswer
	c.mu.Unlock()
	if ans == nil {
		return nil, errors.New("peer unreachable")
	}
	pkts, ok := ans(p.Address(), in.GetFromRound())
	if !ok {
		return nil, errors.New("peer unreachable")
	}
	ch := make(chan *proto.BeaconPacket, len(pkts)+1)
	for _, b := range pkts {
		ch <- b
	}
	close(ch)
	return ch, nil
}

func (c *memClient) GetIdentity(context.Context, net.Peer, *proto.IdentityRequest, ...net.CallOption) (*proto.IdentityResponse, error) {
	return nil, errors.New("not served")
}
func (c *memClient) Status(context.Context, net.Peer, *proto.StatusRequest, ...grpc.CallOption) (*proto.StatusResponse, error) {
	return nil, errors.New("not served")
}
func (c *memClient) Check(context.Context, net.Peer) error { return nil }

func (c *memClient) snapshot() ([]Emission, []SyncCall) {
	c.mu.Lock()
	defer c.mu.Unlock()
	es := make([]Emission, len(c.emissions))
	for i, e := range c.emissions {
		es[i] = *e
		es[i].Per = map[string]int{}
		for k, v := range e.Per {
			es[i].Per[k] = v
		}
	}
	return es, append([]SyncCall{}, c.syncCalls...)
}

func deal(sch *crypto.Scheme, secret kyber.Scalar, n, thr int) ([]*key.Share, *share.PubPoly, []kyber.Point) {
	pri := share.NewPriPoly(sch.KeyGroup, thr, secret, random.New())
	pub := pri.Commit(sch.KeyGroup.Point().Base())
	_, commits := pub.Info()
	shares := pri.Shares(n)
	out := make([]*key.Share, n)
	for i := 0; i < n; i++ {
		out[i] = &key.Share{DistKeyShare: dkg.DistKeyShare{Share: shares[i], Commits: commits}, Scheme: sch}
	}
	return out, pub, commits
}

// NewWorld builds the group (epoch 0) and the node under test, not yet started.
// storeKind: "memdb" | "bolt".
// vacant: share indices of epoch 0 that no group member holds (n members + len(vacant) dealt indices).
func NewWorld(sch *crypto.Scheme, n, thr, me int, period, genesis, now int64, storeKind string, vacant ...int) (*World, error) {
	w := &World{Sch: sch, Period: period, Genesis: genesis, Me: me, ref: map[uint64]*common.Beacon{}}
	// warnings are read, not kept: the guard of broadcastNextPartial announces a declined signature
	// there, which is the only trace a tick handled without a broadcast leaves
	w.Log = log.New(&declineSink{w: w}, log.WarnLevel, false)
	w.Secret = sch.KeyGroup.Scalar().Pick(random.New())
	w.Me = me
	ep, err := w.newEpoch(n, thr, 0, vacant, -1)
	if err != nil {
		return nil, err
	}
	w.Epochs = append(w.Epochs, ep)
	// the catch-up sleep is (c-1).5 s: with whole-second clock advances a sleeper registered at
	// second t is due from second t+c on, and never exactly at the instant of a tick
	w.Catchup = 2
	if period >= 6 {
		w.Catchup = 3
	}
	ep.Group.CatchupPeriod = time.Duration(w.Catchup-1)*time.Second + 500*time.Millisecond
	w.Clock = clock.NewFakeClockAt(time.Unix(now, 0))
	w.CClock = &countingClock{FakeClock: w.Clock}
	switch storeKind {
	case "bolt":
		dir, err := mkTemp()
		if err != nil {
			return nil, err
		}
		w.dir = dir
		bctx := context.Background()
		if w.Chained() { // as core.createDBStore does for chained schemes
			bctx = chain.SetPreviousRequiredOnContext(bctx)
		}
		st, err := boltdb.NewBoltStore(bctx, w.Log, dir)
		if err != nil {
			return nil, err
		}
		w.Base = st
	default:
		w.Base = memdb.NewStore(2000)
	}
	w.Rec = &recStore{Store: w.Base}
	w.Client = &memClient{w: w}
	w.ref[0] = chain.GenesisBeacon(ep.Group.GenesisSeed)
	return w, w.newHandler()
}

// meIdx: the index the node under test holds in the new epoch (-1: the one of its identity, w.Me).
// Identities keep their position as index except that the node under test swaps places with the
// holder of meIdx (drand assigns indices by the sort order of the participants' keys: a leaver or
// joiner shifts the remaining nodes).
func (w *World) newEpoch(members, thr int, transition int64, vacant []int, meIdx int) (*Epoch, error) {
	n := members + len(vacant)
	if meIdx < 0 {
		meIdx = w.Me
	}
	if meIdx >= n {
		return nil, fmt.Errorf("bad own index %d", meIdx)
	}
	isVacant := map[int]bool{}
	for _, v := range vacant {
		if v < 0 || v >= n || v == meIdx {
			return nil, fmt.Errorf("bad vacant index %d", v)
		}
		isVacant[v] = true
	}
	shares, pub, commits := deal(w.Sch, w.Secret, n, thr)
	for len(w.Privs) < n || len(w.Privs) <= w.Me {
		p, err := key.NewKeyPair(fmt.Sprintf("127.0.0.1:%d", 7000+len(w.Privs)), w.Sch)
		if err != nil {
			return nil, err
		}
		w.Privs = append(w.Privs, p)
	}
	var nodes []*key.Node
	var mem []int
	for i := 0; i < n; i++ {
		if isVacant[i] {
			continue
		}
		mem = append(mem, i)
		id := i
		if i == meIdx {
			id = w.Me
		} else if i == w.Me {
			id = meIdx
		}
		nodes = append(nodes, &key.Node{Index: uint32(i), Identity: w.Privs[id].Public})
	}
	g := key.LoadGroup(nodes, w.Genesis, &key.DistPublic{Coefficients: commits}, time.Duration(w.Period)*time.Second, 0, w.Sch, "default")
	g.Threshold = thr
	g.GenesisSeed = []byte("verif-genesis-seed-0123456789abcdef")
	if len(w.Epochs) > 0 {
		g.CatchupPeriod = w.Epochs[0].Group.CatchupPeriod
		g.GenesisSeed = w.Epochs[0].Group.GenesisSeed
		g.TransitionTime = transition
	}
	return &Epoch{N: n, Thr: thr, Me: meIdx, Members: mem, Shares: shares, Group: g, PubPoly: pub}, nil
}

// IsMember reports whether share index i is held by a member of this epoch's group.
func (e *Epoch) IsMember(i int) bool {
	for _, m := range e.Members {
		if m == i {
			return true
		}
	}
	return false
}

func (e *Epoch) node(i int) *key.Node {
	for _, n := range e.Group.Nodes {
		if int(n.Index) == i {
			return n
		}
	}
	return nil
}

func (w *World) cur() *Epoch { return w.Epochs[len(w.Epochs)-1] }

// newHandler (re)creates the node under test on the same base store (restart).
func (w *World) newHandler() error {
	ep := w.Epochs[0]
	// after a reshare the node restarts with its latest group/share
	ep = w.cur()
	me := w.meIn(ep)
	conf := &beacon.Config{Group: ep.Group, Public: ep.node(me), Share: ep.Shares[me], Clock: w.CClock}
	h, err := beacon.NewHandler(context.Background(), w.Client, w.Rec, conf, w.Log, common.GetAppVersion())
	if err != nil {
		return err
	}
	w.H = h
	return nil
}

// Close stops the node and removes temp files.
func (w *World) Close() {
	if w.H != nil {
		w.H.Stop(context.Background())
	}
	if w.dir != "" {
		rmTemp(w.dir)
	}
}

// Digest of (round, prev) for this scheme.
func (w *World) Digest(round uint64, prev []byte) []byte {
	return w.Sch.DigestBeacon(&common.Beacon{Round: round, PreviousSig: prev})
}

// Partial signs (round, prev) with member idx's share of epoch e.
func (w *World) Partial(e, idx int, round uint64, prev []byte) []byte {
	s, err := w.Sch.ThresholdScheme.Sign(w.Epochs[e].Shares[idx].PrivateShare(), w.Digest(round, prev))
	if err != nil {
		panic(err)
	}
	return s
}

// RefBeacon returns round r of the reference chain (computing it on demand from the shares).
func (w *World) RefBeacon(r uint64) *common.Beacon {
	if b, ok := w.ref[r]; ok {
		return b
	}
	prevB := w.RefBeacon(r - 1)
	var prev []byte
	if w.Sch.Name == crypto.DefaultSchemeID {
		prev = prevB.Signature
	}
	ep := w.Epochs[0]
	msg := w.Digest(r, prev)
	var parts [][]byte
	for i := 0; i < ep.Thr; i++ {
		s, _ := w.Sch.ThresholdScheme.Sign(ep.Shares[i].PrivateShare(), msg)
		parts = append(parts, s)
	}
	sig, err := w.Sch.ThresholdScheme.Recover(ep.PubPoly, msg, parts, ep.Thr, ep.N)
	if err != nil {
		panic(err)
	}
	b := &common.Beacon{Round: r, PreviousSig: prev, Signature: sig}
	w.ref[r] = b
	return b
}

// Chained reports whether the scheme signs the previous signature.
func (w *World) Chained() bool { return w.Sch.Name == crypto.DefaultSchemeID }

// Now is the node's clock.
func (w *World) Now() int64 { return w.Clock.Now().Unix() }

// CurrentRound at the node's clock.
func (w *World) CurrentRound() uint64 {
	return common.CurrentRound(w.Now(), time.Duration(w.Period)*time.Second, w.Genesis)
}

// Head is the node's stored head.
func (w *World) Head() uint64 {
	b, err := w.Base.Last(context.Background())
	if err != nil {
		return 0
	}
	return b.Round
}

// Close on the wrapper is a no-op: the base store must survive a handler stop (restart cases).
func (r *recStore) Close() error { return nil }

// isOwnIndex: does the node under test hold index i in one of its epochs?
func (w *World) isOwnIndex(i int) bool {
	for _, e := range w.Epochs {
		if w.meIn(e) == i {
			return true
		}
	}
	return false
}

// meIn: the index the node under test holds in epoch ep.
func (w *World) meIn(ep *Epoch) int {
	if w.FixedMe {
		return w.Me
	}
	return ep.Me
}

// liveEpoch: index of the epoch whose group the node's vault holds right now (-1: no handler).
func (w *World) liveEpoch() int {
	if w.H == nil {
		return -1
	}
	g := w.H.VerifLiveGroup()
	for i, e := range w.Epochs {
		if e.Group == g {
			return i
		}
	}
	return -1
}
