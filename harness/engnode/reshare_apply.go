package engnode

import (
	"context"
	"fmt"
	"math/rand"
	"os"
	"time"

	"github.com/drand/drand/v2/common/key"
	"github.com/drand/drand/v2/common/log"
	"github.com/drand/drand/v2/crypto"
	"github.com/drand/drand/v2/internal/chain"
	"github.com/drand/drand/v2/internal/core"
	"github.com/drand/drand/v2/internal/dkg"
	"github.com/drand/drand/v2/internal/net"
	"github.com/drand/drand/v2/internal/util"
	"github.com/drand/drand/v2/zzverif/emit"
)

// RunReshareApply hands histories of resharing outputs to a REAL BeaconProcess through
// onDKGCompleted (hook VerifOnDKGCompleted), exactly as the DKG process does when a resharing
// completes, and observes after each one the group the process holds in memory, the group and
// share in its key store and the chain hash it answers with. Model: Model/Reshare.v
// reshare_step (an output replaces the group only if it passes validateGroupTransition).
// Monitor: a refused output -- a failed resharing for this node -- leaves no trace.
func RunReshareApply(out string, seed int64, tier string) error {
	rep := emit.NewReport("reshareapply", seed, tier)
	rng := rand.New(rand.NewSource(seed))
	ncases := 10
	if tier == "thorough" {
		ncases = 80
	}
	schemes := []string{crypto.DefaultSchemeID, crypto.UnchainedSchemeID}
	idTok := map[string]int64{"": 0, "default": 1, "other": 2}
	seedTok := func(b []byte) int64 {
		switch string(b) {
		case "verif-genesis-seed-0123456789abcdef":
			return 0
		case "another-genesis-seed":
			return 1
		}
		return 2
	}
	var lines, descr []string
	for ci := 0; ci < ncases; ci++ {
		sch, _ := crypto.SchemeFromName(schemes[ci%len(schemes)])
		schTok := int64(ci % len(schemes))
		now := time.Now().Unix()
		w, err := NewWorld(sch, 3, 2, 0, 3, now+100000, now, "memdb")
		if err != nil {
			return err
		}
		dir, err := os.MkdirTemp("", "zzv-reshareapply-")
		if err != nil {
			return err
		}
		lg := log.New(discardSync{}, log.ErrorLevel, false)
		cfg := core.NewConfig(lg, core.WithConfigFolder(dir), core.WithDBStorageEngine(chain.MemDB), core.WithMemDBSize(2000))
		ks := &memKeyStore{pair: w.Privs[0], group: w.Epochs[0].Group, share: w.Epochs[0].Shares[0]}
		ctx, cancel := context.WithCancel(context.Background())
		bp, err := core.NewBeaconProcess(ctx, lg, ks, util.NewFanOutChan[dkg.SharingOutput](), "default", cfg,
			&net.PrivateGateway{ProtocolClient: w.Client, PublicClient: nullPublic{}})
		if err != nil {
			cancel()
			return err
		}
		if err := bp.Load(ctx); err != nil {
			cancel()
			return err
		}
		if err := bp.StartBeacon(ctx, false); err != nil {
			cancel()
			return err
		}
		term := func(g *key.Group) string {
			var nodes []string
			for _, n := range g.Nodes {
				nodes = append(nodes, fmt.Sprint(n.Index))
			}
			return fmt.Sprintf("(mkGI %d %d %d %d 7 %d %d %d %s)", g.GenesisTime, int64(g.Period/time.Second), idTok[g.ID], seedTok(g.GenesisSeed),
				schTok, g.TransitionTime, g.Threshold, emit.List(nodes))
		}
		cur := bp.VerifRoutingGroup()
		curTerm := term(cur)
		var evs, obs []string
		desc := fmt.Sprintf("scheme=%s", sch.Name)
		nev := 1 + rng.Intn(3)
		for e := 0; e < nev; e++ {
			// a resharing completes: same key, new polynomial, possibly other size / threshold
			shapes := [][2]int{{3, 2}, {4, 3}, {5, 3}, {4, 2}}
			sh := shapes[rng.Intn(len(shapes))]
			tt := w.Genesis + int64(3+rng.Intn(5))*w.Period
			ep, err := w.newEpoch(sh[0], sh[1], tt, nil, -1)
			if err != nil {
				cancel()
				return err
			}
			ng := ep.Group
			kind := "valid"
			switch rng.Intn(7) {
			case 0:
				ng.Period += time.Second
				kind = "period"
			case 1:
				ng.GenesisTime++
				kind = "genesis"
			case 2:
				ng.ID = "other"
				kind = "id"
			case 3:
				ng.GenesisSeed = []byte("another-genesis-seed")
				kind = "seed"
			case 4:
				ng.TransitionTime = time.Now().Unix() - 1 - int64(rng.Intn(50))
				kind = "pasttransition"
			}
			before := bp.VerifRoutingGroup()
			ksG, ksS := ks.group, ks.share
			hashBefore := bp.VerifChainHash()
			evNow := time.Now().Unix()
			so := &dkg.SharingOutput{BeaconID: "default", Old: &dkg.DBState{FinalGroup: before}, New: dkg.DBState{Epoch: uint32(2 + e), FinalGroup: ng, KeyShare: ep.Shares[w.Me]}}
			aerr := bp.VerifOnDKGCompleted(ctx, so)
			after := bp.VerifRoutingGroup()
			evs = append(evs, fmt.Sprintf("ROutput %s %d", term(ng), evNow))
			obs = append(obs, term(after))
			desc += fmt.Sprintf(" %s(refused=%v)", kind, aerr != nil)
			rep.Evaluations++
			rep.Count(fmt.Sprintf("%s/refused=%v", kind, aerr != nil))
			in := map[string]interface{}{"case": desc, "event": e, "kind": kind, "error": fmt.Sprint(aerr)}
			if aerr != nil {
				// a refused output is a failed resharing for this node: nothing of it may stay behind
				if after != before {
					rep.Fail("C07-refused-reshare-left-a-trace", "the process holds the group of a resharing output it refused", in)
				}
				if ks.group != ksG || ks.share != ksS {
					rep.Fail("C07-refused-reshare-left-a-trace", "the key store holds the group / share of a resharing output the node refused (a restart would load it)", in)
				}
				if string(bp.VerifChainHash()) != string(hashBefore) {
					rep.Fail("C07-refused-reshare-left-a-trace", "the chain hash the node answers with changed after a refused resharing", in)
				}
			} else {
				if after != ng || ks.group != ng || ks.share != ep.Shares[w.Me] {
					rep.Fail("C07-accepted-reshare-not-stored", "an accepted resharing output is not what the process / key store hold", in)
				}
				if string(bp.VerifChainHash()) != string(hashBefore) {
					rep.Fail("C07-transition-changes-chain-identity", "the chain hash changed across an accepted resharing", in)
				}
			}
		}
		lines = append(lines, fmt.Sprintf("mkRA %s %s %s", curTerm, emit.List(evs), emit.List(obs)))
		descr = append(descr, desc)
		rep.DistinctNontrivial += nev
		rep.Sample(map[string]interface{}{"case": desc}, 6)
		bp.Stop(ctx)
		cancel()
		w.Close()
		os.RemoveAll(dir)
	}
	// ---- joiners: a FRESH process (key pair only, never in a group) is handed the output of an epoch
	// in which it is a member: after the initial key generation (epoch 1) the beacon starts from
	// scratch, which is refused once genesis has passed; after a resharing (epoch >= 2) the chain is
	// running and the joiner must come up in catch-up mode, whenever the output arrives
	var jlines, jdescr []string
	njoin := 6
	if tier == "thorough" {
		njoin = 30
	}
	for ci := 0; ci < njoin; ci++ {
		sch, _ := crypto.SchemeFromName(schemes[ci%len(schemes)])
		now := time.Now().Unix()
		epoch := []int{2, 3, 1, 2, 1, 5}[ci%6]
		genesis := now - int64(50+rng.Intn(50))*3 // a running chain
		if ci%6 == 4 || (ci%6 == 3 && rng.Intn(2) == 0) {
			genesis = now + 100000 // not started yet
		}
		w, err := NewWorld(sch, 3, 2, 0, 3, genesis, now, "memdb")
		if err != nil {
			return err
		}
		dir, err := os.MkdirTemp("", "zzv-reshareapply-")
		if err != nil {
			return err
		}
		lg := log.New(discardSync{}, log.ErrorLevel, false)
		cfg := core.NewConfig(lg, core.WithConfigFolder(dir), core.WithDBStorageEngine(chain.MemDB), core.WithMemDBSize(2000))
		ks := &memKeyStore{pair: w.Privs[0]} // no group, no share: the node has never been in a group
		ctx, cancel := context.WithCancel(context.Background())
		bp, err := core.NewBeaconProcess(ctx, lg, ks, util.NewFanOutChan[dkg.SharingOutput](), "default", cfg,
			&net.PrivateGateway{ProtocolClient: w.Client, PublicClient: nullPublic{}})
		if err != nil {
			cancel()
			return err
		}
		ng := w.Epochs[0].Group
		if epoch > 1 && genesis < now {
			ng.TransitionTime = now + 5
		}
		so := &dkg.SharingOutput{BeaconID: "default", Old: nil, New: dkg.DBState{Epoch: uint32(epoch), FinalGroup: ng, KeyShare: w.Epochs[0].Shares[0]}}
		evNow := time.Now().Unix()
		var aerr error
		done := make(chan struct{})
		go func() { defer close(done); aerr = bp.VerifOnDKGCompleted(ctx, so) }()
		select {
		case <-done:
		case <-time.After(60 * time.Second):
			aerr = fmt.Errorf("onDKGCompleted did not return")
		}
		ran := aerr == nil && bp.VerifRoutingGroup() == ng
		desc := fmt.Sprintf("joiner scheme=%s epoch=%d genesis=now%+d: err=%v", sch.Name, epoch, genesis-evNow, aerr)
		jlines = append(jlines, fmt.Sprintf("mkJN %d %d %d %s", epoch, genesis, evNow, emit.Bool(ran)))
		jdescr = append(jdescr, desc)
		rep.Evaluations++
		rep.Count(fmt.Sprintf("joiner/epoch>1=%v/genesis-passed=%v/ran=%v", epoch > 1, genesis < evNow, ran))
		in := map[string]interface{}{"case": desc, "epoch": epoch, "genesis": genesis, "now": evNow, "error": fmt.Sprint(aerr)}
		if epoch >= 2 && !ran {
			// C07: no halted round as long as a threshold of the new group is up -- the joiners' shares count
			rep.Fail("C07-joiner-of-a-resharing-does-not-start", "a node that joins through a resharing was handed the completed output and did not come up (no beacon loop: its share of the new group is never used)", in)
		}
		if ran && (ks.group != ng || ks.share != w.Epochs[0].Shares[0]) {
			rep.Fail("C07-accepted-reshare-not-stored", "the joiner runs but its key store does not hold the group / share of the output", in)
		}
		rep.DistinctNontrivial++
		bp.Stop(ctx)
		cancel()
		w.Close()
		os.RemoveAll(dir)
	}
	if err := rep.Shard(out, "cases_reshareapplyjoin", []string{"From DV Require Import Model.Reshare Corr.ReshareCorr."}, "jncase", "mismatches_join", jlines, jdescr, 200); err != nil {
		return err
	}
	rep.Rule = "histories of 1-3 resharing outputs (real epochs of the same key: other sizes / thresholds; perturbed period, genesis time, id, seed, transition time in the past) handed to a real BeaconProcess through onDKGCompleted; after each: group in memory, group and share in the key store, chain hash; fresh processes handed the output of an epoch in which they are members (epoch 1 / >= 2, genesis passed / not): does the beacon come up; distinct = events"
	if err := rep.Shard(out, "cases_reshareapply", []string{"From DV Require Import Model.Reshare Corr.ReshareCorr."}, "racase", "mismatches_apply", lines, descr, 200); err != nil {
		return err
	}
	return rep.Write(out)
}
