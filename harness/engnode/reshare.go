package engnode

import (
	"fmt"
	"math/rand"
	"time"

	"github.com/drand/drand/v2/common/key"
	"github.com/drand/drand/v2/common/log"
	"github.com/drand/drand/v2/crypto"
	"github.com/drand/drand/v2/internal/core"
	"github.com/drand/drand/v2/zzverif/emit"
)

// RunReshare is the correspondence engine for validateGroupTransition (C07): generated pairs of
// (current group, resharing output) with single-field and multi-field perturbations.
func RunReshare(out string, seed int64, tier string) error {
	rep := emit.NewReport("reshare", seed, tier)
	rng := rand.New(rand.NewSource(seed))
	l := log.New(discardSync{}, log.ErrorLevel, false)
	n := 400
	if tier == "thorough" {
		n = 6000
	}
	ids := []string{"", "default", "other", "third"}
	idTok := map[string]int64{"": 0, "default": 1, "other": 2, "third": 3}
	seeds := [][]byte{[]byte("seed-A"), []byte("seed-B"), {}}
	schemes := []string{crypto.DefaultSchemeID, crypto.UnchainedSchemeID}
	mk := func(genesis int64, period time.Duration, id string, seedIdx int, scheme string, tt int64, thr int) *key.Group {
		sch, _ := crypto.SchemeFromName(scheme)
		return &key.Group{GenesisTime: genesis, Period: period, ID: id, GenesisSeed: seeds[seedIdx], Scheme: sch, TransitionTime: tt, Threshold: thr}
	}
	term := func(g *key.Group, seedIdx, schemeIdx int) string {
		if g == nil {
			return "None"
		}
		return fmt.Sprintf("(Some (mkGI %d %d %d %d 7 %d %d %d []))", g.GenesisTime, int64(g.Period/time.Second), idTok[g.ID], seedIdx, schemeIdx, g.TransitionTime, g.Threshold)
	}
	var lines, descr []string
	seen := map[string]bool{}
	for i := 0; i < n; i++ {
		genesis := int64(1000 + rng.Intn(3))
		period := time.Duration(3+rng.Intn(3)) * time.Second
		idI, sI, schI := rng.Intn(len(ids)), rng.Intn(2), rng.Intn(2)
		now := int64(2000 + rng.Intn(100))
		old := mk(genesis, period, ids[idI], sI, schemes[schI], 0, 2)
		// the new group: a copy with 0..2 perturbed fields
		g2, p2, id2, s2, sch2 := genesis, period, idI, sI, schI
		tt := now + int64(rng.Intn(60)) - 10
		kind := "same"
		for k := rng.Intn(3); k > 0; k-- {
			switch rng.Intn(6) {
			case 0:
				g2 += int64(1 + rng.Intn(3))
				kind = "genesis"
			case 1:
				p2 += time.Duration(1+rng.Intn(2)) * time.Second
				kind = "period"
			case 2:
				id2 = rng.Intn(len(ids))
				kind = "id"
			case 3:
				s2 = rng.Intn(3)
				kind = "seed"
			case 4:
				sch2 = 1 - sch2
				kind = "scheme"
			case 5:
				tt = now - int64(1+rng.Intn(50))
				kind = "pasttransition"
			}
		}
		nw := mk(g2, p2, ids[id2], s2, schemes[sch2], tt, 2+rng.Intn(3))
		var oldArg *key.Group = old
		if rng.Intn(25) == 0 {
			oldArg = nil
			kind = "nil-old"
		}
		err := core.VerifValidateGroupTransition(l, now, oldArg, nw)
		acc := err == nil
		oldT := term(oldArg, sI, schI)
		line := fmt.Sprintf("mkRC %s %s %d %s", oldT, term(nw, s2, sch2), now, emit.Bool(acc))
		lines = append(lines, line)
		descr = append(descr, line+" (* "+kind+" *)")
		rep.Evaluations++
		rep.Count(fmt.Sprintf("%s/accepted=%v", kind, acc))
		if !seen[line] {
			seen[line] = true
			rep.DistinctNontrivial++
		}
		rep.Sample(line+" (* "+kind+" *)", 6)
		// monitor (independent of the model): an accepted output keeps what clients pinned
		if acc && oldArg != nil {
			if nw.GenesisTime != old.GenesisTime || nw.Period != old.Period || string(nw.GenesisSeed) != string(old.GenesisSeed) {
				rep.Fail("C07-transition-changes-chain-identity", "validateGroupTransition accepted a group with another genesis time, period or seed", descr[len(descr)-1])
			}
			canon := func(s string) string {
				if s == "" {
					return "default"
				}
				return s
			}
			if canon(nw.ID) != canon(old.ID) {
				rep.Fail("C07-transition-changes-chain-identity", "validateGroupTransition accepted a group with another beacon id", descr[len(descr)-1])
			}
			if nw.TransitionTime < now {
				rep.Fail("C07-transition-in-the-past-accepted", "accepted a transition time in the past", descr[len(descr)-1])
			}
		}
	}
	rep.Rule = "pairs (current group, resharing output) with 0-2 perturbed fields among genesis time, period, id (incl. \"\" vs \"default\"), seed, scheme, transition time; nil old group; distinct = distinct case term"
	if err := rep.Shard(out, "cases_reshare", []string{"From DV Require Import Model.Reshare Corr.ReshareCorr."}, "rcase", "mismatches", lines, descr, 1500); err != nil {
		return err
	}
	return rep.Write(out)
}
