package engnode

import (
	"fmt"

	"github.com/drand/drand/v2/crypto"
)

// Smoke prints the trace of a small scripted scenario (development aid).
func Smoke(out string, seed int64, tier string) error {
	for _, name := range []string{crypto.DefaultSchemeID, crypto.UnchainedSchemeID} {
		sch, _ := crypto.SchemeFromName(name)
		w, err := NewWorld(sch, 4, 3, 0, 4, 1000, 990, "memdb")
		if err != nil {
			return err
		}
		r := &runner{w: w, settleMs: 30}
		evs := []Event{{Kind: "start"}, {Kind: "adv", D: 9}, {Kind: "adv", D: 1},
			{Kind: "part", From: 1, Claim: 1, Round: 1, Prev: "ref"},
			{Kind: "part", From: 1, Claim: 1, Round: 1, Prev: "ref"},
			{Kind: "part", From: 2, Claim: 2, Round: 1, Prev: "ref", Mut: "flip"},
			{Kind: "part", From: 2, Claim: 2, Round: 1, Prev: "ref"},
			{Kind: "adv", D: 4},
			{Kind: "part", From: 1, Claim: 1, Round: 2, Prev: "ref"},
			{Kind: "part", From: 3, Claim: 3, Round: 2, Prev: "ref"},
			{Kind: "part", From: 3, Claim: 3, Round: 4, Prev: "ref"},
			{Kind: "adv", D: 4}, {Kind: "adv", D: 4}, {Kind: "adv", D: 4},
			{Kind: "part", From: 1, Claim: 1, Round: 3, Prev: "ref"},
			{Kind: "part", From: 2, Claim: 2, Round: 3, Prev: "ref"},
			{Kind: "adv", D: 2},
		}
		for _, ev := range evs {
			o := r.Do(ev)
			fmt.Printf("%s %+v\n   -> %+v\n", name, ev, o)
		}
		w.Close()
	}
	return nil
}
