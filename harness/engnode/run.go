package engnode

import (
	"context"
	"github.com/drand/drand/v2/zzverif/emit"
	"sync/atomic"
	"time"

	"github.com/drand/drand/v2/common"

	proto "github.com/drand/drand/v2/protobuf/drand"
)

// Event is one step fed to the node under test.
type Event struct {
	Kind string // start | adv | fadv (D ms) | part | stop | restart | syncmode | transition | hold | release
	D    int64  // adv: seconds

	// part
	From  int    // signer whose share signs
	Claim int    // index written into the partial (normally = From)
	Round uint64 // round signed / claimed
	Prev  string // "ref" (signature of round-1 of the reference chain) | "junk" | "empty" | "own" (prev of head)
	Mut   string // "" | flip | trunc | short | wrongmsg
	Ep    int    // epoch whose share signs

	Vacant []int // transition: share indices of the new epoch that no member holds
	MeIdx  int   // transition: 1 + the index the node holds in the new epoch (0: unchanged)

	Given *Epoch `json:"-"` // transition: the new epoch, already dealt (system engine: the same for every node)

	// part, raw mode (system engine): these very bytes are delivered
	Raw     bool
	RawPrev []byte `json:"-"`
	RawSig  []byte `json:"-"`

	Sync string // syncmode: "off" | "honest"
	Note string
}

// Obs is what was observed after the event, once the node was quiescent.
type Obs struct {
	SigBytes   []byte `json:"-"` // part: the partial signature that was delivered
	PrevBytes  []byte `json:"-"`
	HeadBefore uint64 // stored head before the event
	Rejected   bool   // part: ProcessPartialBeacon returned an error
	Valid      bool   // part: oracle bit (independent VerifyPartial against the epoch polynomial the node currently uses)
	Puts       []PutObs
	Emits      []EmitObs
	Syncs      []SyncCall
	Genesis    []string `json:"-"` // signatures of the round-0 beacons written during the event (handler starts)
	LiveBefore int // index of the epoch whose group the vault held before / after the event (-1: none)
	LiveAfter  int
	Now        int64
	Head       uint64
}

// PutObs is a projected Put on the base store.
type PutObs struct {
	Round     uint64
	Prev, Sig int64 // abstract ids
	Verifies  bool  // independent VerifyBeacon under the group key (with the previous signature of round-1 when chained)
}

// EmitObs is a projected emission.
type EmitObs struct {
	Round uint64
	Prev  int64
	SigID int64
	Clock int64
	Sends int
	Valid bool // the partial verifies for (round, prev) under the node's own index
}

var dbgTimes map[string]time.Duration
var dbgCount = map[string]int{}

type runner struct {
	emitMult    map[int]int // multiplicity of emission i already reported
	w           *World
	t           *ids
	now0        int64
	ticking     bool
	nPuts       int
	nEmits      int
	nSyncs      int
	settleMs    int
	stopped     bool
	tickRound   uint64        // round of the last tick delivered to the run loop
	syncGoal    func() uint64 // how far a sync can get (nil: the current round)
	holding     bool          // ticks are held back
	expDeclines int           // ticks of this event that will be handled without a broadcast
	declines0   int64
	lastStale   int64 // round of the stale tick delivered by the last release (0: none)

	lastPrev, lastSig []byte
	lastTarget        int64
}

// tickTarget: the round a tick of round tr makes the node sign on its current head.
func (r *runner) tickTarget(tr uint64) uint64 {
	h := r.w.Head()
	if h == tr {
		return tr
	}
	return h + 1
}

// totals returns (#puts, total emission sends, #sync calls).
func (r *runner) totals() (int, int, int) {
	p := len(r.w.Rec.snapshot())
	es, sc := r.w.Client.snapshot()
	tot := 0
	for _, e := range es {
		tot += e.Sends
	}
	return p, tot, len(sc)
}

// waitFor waits for cond. The node runs on a fake clock, so every wake-up is caused by the
// harness: once no goroutine of the process is running or runnable (emit.Quiesce) and cond still
// does not hold, it never will. The time limit only bounds pathological cases; it is generous
// because on a loaded machine a runnable goroutine can wait for seconds before it is scheduled.
func waitFor(cond func() bool, max time.Duration) bool {
	deadline := time.Now().Add(10 * max)
	fast := time.Now().Add(25 * time.Millisecond) // the usual case: a matter of a millisecond
	for {
		if cond() {
			return true
		}
		if time.Now().After(deadline) {
			return false
		}
		if time.Now().Before(fast) {
			time.Sleep(300 * time.Microsecond)
			continue
		}
		if emit.Quiesce(time.Until(deadline)) {
			return cond()
		}
	}
}

// drain waits until the node's internal pipelines are empty: two barrier partials through the
// aggregator's FIFO input (so everything enqueued before them has been fully processed), the
// callback worker queues and the aggregator's stored-beacon channel.
func (r *runner) drain() {
	h := r.w.H
	for round := 0; round < 3; round++ {
		h.VerifAggBarrier()
		h.VerifAggBarrier()
		waitFor(func() bool { p, s, c := h.VerifQueueLens(); return p == 0 && s == 0 && c == 0 }, 3*time.Second)
	}
}

// settle waits until the effects of the last event have been observed. expEmits is the number
// of broadcasts the event must produce (ticks, woken catch-up sleepers), expSync whether a
// sync with the peers is expected.
func (r *runner) settle(expEmits int, expSync bool, sends0, syncs0 int) {
	peers := r.w.H.VerifGroupLen() - 1
	if r.stopped {
		emit.Quiesce(30 * time.Second)
		return
	}
	if r.expDeclines > 0 {
		// a tick whose target round is ahead of the clock is handled without a broadcast: the guard's
		// warning is the trace
		want := r.declines0 + int64(r.expDeclines)
		waitFor(func() bool { return atomic.LoadInt64(&r.w.declines) >= want }, 4*time.Second)
		r.expDeclines = 0
	}
	if expEmits > 0 && peers > 0 {
		waitFor(func() bool { _, tot, _ := r.totals(); return tot >= sends0+expEmits*peers }, 4*time.Second)
	}
	r.drain()
	if expSync {
		waitFor(func() bool { _, _, sc := r.totals(); return sc > syncs0 }, 2*time.Second)
		r.w.Client.mu.Lock()
		honest := r.w.Client.syncAnswer != nil
		r.w.Client.mu.Unlock()
		if honest { // the peers serve the chain up to the current round (or up to what they hold)
			goal := r.w.CurrentRound()
			if r.syncGoal != nil {
				goal = r.syncGoal()
			}
			waitFor(func() bool { return r.w.Head() >= goal }, 4*time.Second)
		}
	}
	// whatever the hints above do not cover (the sync manager's peer loop, a restarted handler's
	// catch-up): wait until every goroutine has finished or blocked, and the counters stand still
	win := 4 * time.Millisecond
	if expSync {
		win = 20 * time.Millisecond
	}
	for k := 0; k < 50; k++ {
		lp, le, ls := r.totals()
		time.Sleep(win)
		emit.Quiesce(30 * time.Second)
		if p, e, s := r.totals(); p == lp && e == le && s == ls {
			break
		}
	}
	r.drain()
}

func (r *runner) prevBytes(kind string, round uint64) []byte {
	switch kind {
	case "ref": // what honest nodes send: the signature of the previous round (also on unchained schemes)
		if round == 0 {
			return nil
		}
		return r.w.RefBeacon(round - 1).Signature
	case "refx": // the genuine previous signature followed by one more byte: another message, another cache entry
		if round == 0 {
			return nil
		}
		return append(append([]byte{}, r.w.RefBeacon(round-1).Signature...), 0)
	case "junk":
		return []byte("junk-previous-signature-junk-previous-signature!")
	case "empty":
		return nil
	}
	return nil
}

// Do applies one event and returns the observation.
func (r *runner) Do(ev Event) Obs {
	w := r.w
	var o Obs
	ctx := context.Background()
	_, sends0, syncs0 := r.totals()
	expEmits, expSync := 0, false
	r.declines0 = atomic.LoadInt64(&w.declines)
	o.HeadBefore = w.Head()
	o.LiveBefore = w.liveEpoch()
	switch ev.Kind {
	case "start":
		_ = w.H.Start(ctx)
	case "catchup":
		w.H.Catchup(ctx)
	case "adv":
		old, nw := w.Now(), w.Now()+ev.D
		if !r.stopped {
			expEmits = w.CClock.dueBy(time.Unix(nw, 0))
			if nw >= w.Genesis && r.ticking && !r.holding {
				k := (nw - w.Genesis) / w.Period
				if tt := w.Genesis + k*w.Period; tt > old {
					// the tick signs head+1 (or re-signs the ticked round) unless that round is ahead of the clock
					if r.tickTarget(uint64(k+1)) <= uint64(k+1) {
						expEmits++
					} else {
						r.expDeclines++
					}
					if w.Head()+1 < uint64(k+1) {
						expSync = true
					}
				}
			}
		}
		// (a clock left between two seconds by a fractional advance is brought back onto a whole second)
		w.Clock.Advance(time.Duration(ev.D)*time.Second - time.Duration(w.Clock.Now().Nanosecond()))
	case "fadv": // a fraction of a second passes: no tick, no sleeper due (the generator sees to that)
		w.Clock.Advance(time.Duration(ev.D) * time.Millisecond)
	case "hold": // the process stalls as far as its ticker goes: ticks are generated but not consumed
		w.CClock.setHold(true)
		r.holding = true
	case "release": // the stall ends: the one pending tick is consumed, with its old time stamp
		r.holding = false
		if t := w.CClock.release(); !t.IsZero() {
			r.lastStale = int64(common.CurrentRound(t.Unix(), time.Duration(w.Period)*time.Second, w.Genesis))
			if r.tickTarget(uint64(r.lastStale)) <= w.CurrentRound() {
				expEmits = 1
			} else {
				r.expDeclines++
			}
			if w.Head()+1 < uint64(r.lastStale) {
				expSync = true
			}
		} else {
			r.lastStale = 0
		}
	case "stop":
		w.H.Stop(ctx)
		r.stopped = true
	case "restart":
		if err := w.newHandler(); err != nil {
			panic(err)
		}
		r.stopped = false
		expSync = true
		w.H.Catchup(ctx)
	case "transition":
		// reshare: same secret, new polynomial; ev.Round = first round of the new group
		tt := w.Genesis + int64(ev.Round-1)*w.Period
		ep := ev.Given
		if ep == nil {
			var err error
			if ep, err = w.newEpoch(ev.From, ev.Claim, tt, ev.Vacant, ev.MeIdx-1); err != nil {
				panic(err)
			}
		}
		w.Epochs = append(w.Epochs, ep)
		r.lastTarget = int64(ev.Round) - 1
		w.H.TransitionNewGroup(ctx, ep.Shares[w.meIn(ep)], ep.Group)
	case "syncmode":
		w.Client.mu.Lock()
		if ev.Sync == "honest" {
			w.Client.syncAnswer = func(peer string, from uint64) ([]*proto.BeaconPacket, bool) {
				cur := w.CurrentRound()
				var out []*proto.BeaconPacket
				for rr := from; rr <= cur; rr++ {
					b := w.RefBeacon(rr)
					out = append(out, &proto.BeaconPacket{Round: b.Round, PreviousSignature: b.PreviousSig, Signature: b.Signature, Metadata: &proto.Metadata{BeaconID: "default"}})
				}
				return out, true
			}
		} else {
			w.Client.syncAnswer = nil
		}
		w.Client.mu.Unlock()
	case "part":
		prev := r.prevBytes(ev.Prev, ev.Round)
		msgPrev := prev
		var sig []byte
		if ev.Raw {
			prev, sig = ev.RawPrev, ev.RawSig
		} else {
			sig = w.Partial(ev.Ep, ev.From, ev.Round, msgPrev)
		}
		if ev.Raw {
			// delivered as is
		} else if ev.Mut == "wrongmsg" {
			sig = w.Partial(ev.Ep, ev.From, ev.Round+1000, msgPrev)
		} else if ev.Mut == "msgcur" {
			// the member's genuine partial for the round the clock is in, relabelled as another round
			sig = w.Partial(ev.Ep, ev.From, w.CurrentRound(), msgPrev)
		} else if ev.Mut == "msgm1" && ev.Round > 1 {
			sig = w.Partial(ev.Ep, ev.From, ev.Round-1, msgPrev)
		}
		if !ev.Raw && ev.Claim != ev.From && len(sig) >= 2 {
			sig = append([]byte{}, sig...)
			sig[0], sig[1] = byte(ev.Claim>>8), byte(ev.Claim)
		}
		mut := ev.Mut
		if ev.Raw {
			mut = ""
		}
		switch mut {
		case "flip":
			sig = append([]byte{}, sig...)
			sig[len(sig)-1] ^= 1
		case "trunc":
			sig = sig[:len(sig)-3]
		case "short":
			sig = sig[:1]
		}
		// oracle bit: independent verification against the polynomial of the epoch the node is in
		// (the polynomial of the epoch whose group the vault holds, as the HARNESS dealt it -- not the
		// one the node's vault hands out, which is part of what is under test)
		oraclePoly := w.H.VerifPubPoly()
		if o.LiveBefore >= 0 {
			oraclePoly = w.Epochs[o.LiveBefore].PubPoly
		}
		o.Valid = w.Sch.ThresholdScheme.VerifyPartial(oraclePoly, w.Digest(ev.Round, prev), sig) == nil
		r.lastPrev, r.lastSig = prev, sig
		o.SigBytes, o.PrevBytes = sig, prev
		pkt := &proto.PartialBeaconPacket{Round: ev.Round, PreviousSignature: prev, PartialSig: sig, Metadata: &proto.Metadata{BeaconID: "default"}}
		_, err := w.H.ProcessPartialBeacon(ctx, pkt)
		o.Rejected = err != nil
	}
	t0dbg := time.Now()
	r.settle(expEmits, expSync, sends0, syncs0)
	if dbgTimes != nil {
		k := ev.Kind
		if expSync {
			k += "+sync"
		}
		if expEmits > 0 {
			k += "+emit"
		}
		dbgTimes[k] += time.Since(t0dbg)
		dbgCount[k]++
	}
	puts := w.Rec.snapshot()
	for _, p := range puts[r.nPuts:] {
		p := p
		if p.Round == 0 { // the genesis beacon inserted by NewHandler is not an observation of the model's step
			o.Genesis = append(o.Genesis, string(p.Signature))
			continue
		}
		ver := p.Round == 0 || w.Sch.VerifyBeacon(&p, w.Epochs[0].PubPoly.Commit()) == nil
		o.Puts = append(o.Puts, PutObs{Round: p.Round, Prev: r.t.id(p.PreviousSig), Sig: r.t.id(p.Signature), Verifies: ver})
	}
	r.nPuts = len(puts)
	es, sc := w.Client.snapshot()
	if r.emitMult == nil {
		r.emitMult = map[int]int{}
	}
	for i, e := range es {
		e := e
		m := e.Mult()
		if m <= r.emitMult[i] {
			continue
		}
		reps := m - r.emitMult[i]
		r.emitMult[i] = m
		valid := false
		for _, ep := range w.Epochs { // the share of whichever epoch was live when it was signed
			if w.Sch.ThresholdScheme.VerifyPartial(ep.PubPoly, w.Digest(e.Round, e.Prev), e.Sig) == nil {
				valid = true
			}
		}
		if idx, err := w.Sch.ThresholdScheme.IndexOf(e.Sig); err != nil || !w.isOwnIndex(idx) {
			valid = false
		}
		for k := 0; k < reps; k++ {
			o.Emits = append(o.Emits, EmitObs{Round: e.Round, Prev: r.t.id(e.Prev), SigID: r.t.id(e.Sig), Clock: e.Clock, Sends: e.Sends, Valid: valid})
		}
	}
	r.nEmits = len(es)
	o.Syncs = append(o.Syncs, sc[r.nSyncs:]...)
	r.nSyncs = len(sc)
	o.Now = w.Now()
	o.Head = w.Head()
	o.LiveAfter = w.liveEpoch()
	return o
}
