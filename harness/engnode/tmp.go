package engnode

import "os"

func mkTemp() (string, error) { return os.MkdirTemp("", "zzv-node-") }
func rmTemp(d string)         { _ = os.RemoveAll(d) }
