package engnode

import (
	"bytes"
	"context"
	"errors"
	"fmt"
	"math/rand"
	"os"
	"sync"
	"sync/atomic"
	"time"

	"github.com/drand/drand/v2/common"
	"github.com/drand/drand/v2/common/log"
	"github.com/drand/drand/v2/crypto"
	"github.com/drand/drand/v2/internal/chain"
	"github.com/drand/drand/v2/internal/chain/memdb"
	"github.com/drand/drand/v2/internal/core"
	"github.com/drand/drand/v2/internal/dkg"
	"github.com/drand/drand/v2/internal/net"
	"github.com/drand/drand/v2/internal/util"
	proto "github.com/drand/drand/v2/protobuf/drand"
	"github.com/drand/drand/v2/zzverif/emit"
)

// scriptedPublic answers PublicRand per (peer, requested round) after a delay.
type scriptedPublic struct {
	nullPublic
	mu      sync.Mutex
	answers map[string]map[uint64]pubAnswer // peer address -> requested round -> answer
	skipped *int64                          // answers loadBeaconFromPeers has skipped so far (from the process's log)
}

type pubAnswer struct {
	first *firstAnswer   // shared by the two peers' answers to one request; nil: no ordering
	slot  int            // 0: answers at once; 1: answers after the caller has taken in slot 0's answer
	b     *common.Beacon // nil = error
}

// firstAnswer orders the two answers to one request by construction, not by delay: the second
// peer's answer leaves only after the first one has been given AND, if it was an error, after
// loadBeaconFromPeers has logged that it skipped it (it then waits for the next answer). A first
// answer that is not an error ends loadBeaconFromPeers, so the second one no longer matters.
type firstAnswer struct {
	given chan struct{}
	once  sync.Once
	need  int64 // value the skipped-answer counter must reach before the second answer leaves
}

// bootSink counts the answers loadBeaconFromPeers skipped ("failed to get rand value from peer").
type bootSink struct{ n *int64 }

func (b bootSink) Write(p []byte) (int, error) {
	if bytes.Contains(p, []byte("failed to get rand value from peer")) {
		atomic.AddInt64(b.n, 1)
	}
	return len(p), nil
}
func (bootSink) Sync() error { return nil }

func (s *scriptedPublic) PublicRand(ctx context.Context, p net.Peer, in *proto.PublicRandRequest) (*proto.PublicRandResponse, error) {
	s.mu.Lock()
	a, ok := s.answers[p.Address()][in.GetRound()]
	s.mu.Unlock()
	if !ok {
		return nil, errors.New("no such round")
	}
	if a.first != nil && a.slot == 1 {
		select {
		case <-a.first.given:
			deadline := time.Now().Add(9 * time.Second)
			for atomic.LoadInt64(s.skipped) < atomic.LoadInt64(&a.first.need) && time.Now().Before(deadline) && ctx.Err() == nil {
				time.Sleep(100 * time.Microsecond)
			}
		case <-ctx.Done():
			return nil, ctx.Err()
		}
	}
	if a.first != nil && a.slot == 0 {
		if a.b == nil {
			atomic.StoreInt64(&a.first.need, atomic.LoadInt64(s.skipped)+1)
		}
		defer a.first.once.Do(func() { close(a.first.given) })
	}
	if a.b == nil {
		return nil, errors.New("peer error")
	}
	return &proto.PublicRandResponse{Round: a.b.Round, Signature: a.b.Signature, PreviousSignature: a.b.PreviousSig}, nil
}

// RunBootstrap is the engine for the in-memory store's bootstrap from the peers (C01 mechanism
// "memdb bootstrap beacon verified before Put"): the real storeCurrentFromPeerNetwork of a loaded
// BeaconProcess against scripted peers (honest, erring, answering with another round, a forged
// signature, a beacon of another chain's key, round 0).
func RunBootstrap(out string, seed int64, tier string) error {
	rep := emit.NewReport("bootstrap", seed, tier)
	rng := rand.New(rand.NewSource(seed))
	n := 24
	if tier == "thorough" {
		n = 200
	}
	schemes := []string{crypto.DefaultSchemeID, crypto.UnchainedSchemeID}
	var lines, descr []string
	var w, wOther *World
	for ci := 0; ci < n; ci++ {
		if ci%8 == 0 {
			sch, _ := crypto.SchemeFromName(schemes[(ci/8)%len(schemes)])
			var err error
			if w != nil {
				w.Close()
				wOther.Close()
			}
			period := int64(1000)
			target := int64(2 + rng.Intn(6))
			genesis := time.Now().Unix() - (target-1)*period - period/2
			if w, err = NewWorld(sch, 3, 2, 0, period, genesis, time.Now().Unix(), "memdb"); err != nil {
				return err
			}
			if wOther, err = NewWorld(sch, 3, 2, 0, period, genesis, time.Now().Unix(), "memdb"); err != nil {
				return err
			}
		}
		target := uint64(common.CurrentRound(time.Now().Unix(), time.Duration(w.Period)*time.Second, w.Genesis))
		if rng.Intn(10) == 0 { // fresh chain: nothing to bootstrap
			// handled by a separate world whose genesis is in the future
		}
		ids := newIDs(w)
		for r := uint64(0); r <= target+2; r++ {
			ids.id(w.RefBeacon(r).Signature)
		}
		dir, err := os.MkdirTemp("", "zzv-boot-")
		if err != nil {
			return err
		}
		var skipped int64
		lg := log.New(bootSink{&skipped}, log.ErrorLevel, false)
		cfg := core.NewConfig(lg, core.WithConfigFolder(dir), core.WithDBStorageEngine(chain.MemDB))
		ks := &memKeyStore{pair: w.Privs[0], group: w.Epochs[0].Group, share: w.Epochs[0].Shares[0]}
		sp := &scriptedPublic{answers: map[string]map[uint64]pubAnswer{}, skipped: &skipped}
		ctx, cancel := context.WithCancel(context.Background())
		bp, err := core.NewBeaconProcess(ctx, lg, ks, util.NewFanOutChan[dkg.SharingOutput](), "default", cfg,
			&net.PrivateGateway{ProtocolClient: w.Client, PublicClient: sp})
		if err != nil {
			cancel()
			return err
		}
		if err := bp.Load(ctx); err != nil {
			cancel()
			return err
		}
		// what each of the two peers answers to the request for the target round and for round 0
		mk := func(kind string, asked uint64) *common.Beacon {
			switch kind {
			case "honest":
				r := asked
				if r == 0 {
					r = target - uint64(rng.Intn(2))
				}
				b := w.RefBeacon(r)
				return &common.Beacon{Round: b.Round, Signature: b.Signature, PreviousSig: b.PreviousSig}
			case "other-round": // a valid beacon of another round
				b := w.RefBeacon(1 + uint64(rng.Intn(int(target))))
				return &common.Beacon{Round: b.Round, Signature: b.Signature, PreviousSig: b.PreviousSig}
			case "forged": // right round, flipped signature
				b := w.RefBeacon(target)
				sig := append([]byte{}, b.Signature...)
				sig[len(sig)-1] ^= 1
				return &common.Beacon{Round: b.Round, Signature: sig, PreviousSig: b.PreviousSig}
			case "other-chain": // valid under another group key
				b := wOther.RefBeacon(target)
				return &common.Beacon{Round: b.Round, Signature: b.Signature, PreviousSig: b.PreviousSig}
			case "mislabelled": // valid signature of another round, labelled with the target
				b := w.RefBeacon(1)
				return &common.Beacon{Round: target, Signature: b.Signature, PreviousSig: b.PreviousSig}
			case "round0":
				return &common.Beacon{Round: 0, Signature: []byte("whatever")}
			}
			return nil // error
		}
		kinds := []string{"honest", "honest", "error", "error", "other-round", "forged", "other-chain", "mislabelled", "round0"}
		peers := []string{w.Privs[1].Public.Address(), w.Privs[2].Public.Address()}
		order := rng.Perm(2)
		var ansT, ansL []*common.Beacon
		var kdesc []string
		firstT, firstL := &firstAnswer{given: make(chan struct{})}, &firstAnswer{given: make(chan struct{})}
		for slot, pi := range order {
			kt, kl := kinds[rng.Intn(len(kinds))], kinds[rng.Intn(len(kinds))]
			bt, bl := mk(kt, target), mk(kl, 0)
			sp.answers[peers[pi]] = map[uint64]pubAnswer{target: {first: firstT, slot: slot, b: bt}, 0: {first: firstL, slot: slot, b: bl}}
			ansT, ansL = append(ansT, bt), append(ansL, bl)
			kdesc = append(kdesc, kt+"/"+kl)
		}
		rec := &recStore{Store: memdb.NewStore(10)}
		err = bp.VerifStoreCurrentFromPeerNetwork(ctx, rec)
		puts := rec.snapshot()
		// observation
		obs := "BNothing"
		if err != nil {
			obs = "BErr"
		}
		if len(puts) > 0 {
			p := puts[len(puts)-1]
			obs = fmt.Sprintf("(BPut %s)", beaconTerm(p.Round, ids.id(p.PreviousSig), ids.id(p.Signature)))
			if p.Round == 0 {
				obs = "(BPut (mkB 0 (-1) 0))"
			}
			// monitor: whatever is stored verifies under the group key
			if p.Round > 0 && w.Sch.VerifyBeacon(&p, w.Epochs[0].PubPoly.Commit()) != nil {
				rep.Fail("C01-bootstrap-stored-unverifiable-beacon", "the in-memory store was bootstrapped with a beacon that does not verify under the group key", map[string]interface{}{"answers": kdesc, "target": target, "scheme": w.Sch.Name})
			}
		}
		// the table of beacons that verify, computed independently
		var valid []string
		ansTerm := func(bs []*common.Beacon) string {
			var t []string
			for _, b := range bs {
				if b == nil {
					t = append(t, "None")
					continue
				}
				pid, sid := ids.id(b.PreviousSig), ids.id(b.Signature)
				t = append(t, "(Some "+beaconTerm(b.Round, pid, sid)+")")
				if b.Round > 0 && w.Sch.VerifyBeacon(b, w.Epochs[0].PubPoly.Commit()) == nil {
					valid = append(valid, fmt.Sprintf("(%d, %s, %s)", b.Round, emit.Z(pid), emit.Z(sid)))
				}
			}
			return emit.List(t)
		}
		tT, tL := ansTerm(ansT), ansTerm(ansL)
		lines = append(lines, fmt.Sprintf("mkBC %s %d %s %s %s", emit.List(valid), target, tT, tL, obs))
		d := fmt.Sprintf("scheme=%s target=%d answers(arrival order)=%v -> %s", w.Sch.Name, target, kdesc, obs)
		descr = append(descr, d)
		rep.Evaluations++
		rep.DistinctNontrivial++
		for _, k := range kdesc {
			rep.Count("answer/" + k)
		}
		rep.Count("outcome/" + obs[:4])
		rep.Sample(d, 5)
		bp.Stop(ctx)
		cancel()
		_ = os.RemoveAll(dir)
	}
	if w != nil {
		w.Close()
		wOther.Close()
	}
	rep.Rule = "the real storeCurrentFromPeerNetwork against two scripted peers whose answers to the request for the current round and for the latest round are drawn from {honest, error, valid beacon of another round, forged signature, beacon of another chain, mislabelled round, round 0}, in both arrival orders; every case has an observable outcome (nothing / error / the beacon put)"
	if err := rep.Shard(out, "cases_bootstrap", []string{"From DV Require Import Model.Node Model.Bootstrap Corr.BootstrapCorr."}, "bcase", "mismatches", lines, descr, 400); err != nil {
		return err
	}
	return rep.Write(out)
}
