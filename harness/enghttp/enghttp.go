// Package enghttp is the correspondence engine for the HTTP relay's waiter logic
// (handler/http/server.go getRand / watchWithTimeout), part of C01: a successful answer to a
// request for round r must contain the beacon of round r.
package enghttp

import (
	"context"
	"encoding/hex"
	"encoding/json"
	"fmt"
	"io"
	"math/rand"
	"net/http"
	"net/http/httptest"
	"sort"
	"strings"
	"sync"
	"time"

	chain2 "github.com/drand/drand/v2/common/chain"
	"github.com/drand/drand/v2/common/client"
	"github.com/drand/drand/v2/common/log"
	"github.com/drand/drand/v2/crypto"
	dhttp "github.com/drand/drand/v2/handler/http"

	"github.com/drand/drand/v2/zzverif/emit"
)

var debugHTTP = false

type discard struct{}

func (discard) Write(p []byte) (int, error) { return len(p), nil }
func (discard) Sync() error                 { return nil }

type result struct {
	Round      uint64 `json:"round"`
	Randomness []byte `json:"randomness"`
	Signature  []byte `json:"signature"`
}

func (r *result) GetRound() uint64      { return r.Round }
func (r *result) GetRandomness() []byte { return r.Randomness }
func (r *result) GetSignature() []byte  { return r.Signature }

func mkResult(round uint64) *result {
	sig := []byte(fmt.Sprintf("signature-of-round-%d", round))
	return &result{Round: round, Signature: sig, Randomness: crypto.RandomnessFromSignature(sig)}
}

// scripted client: the harness owns the watch channels
type scripted struct {
	info    *chain2.Info
	mu      sync.Mutex
	streams []chan client.Result
	head    uint64
}

func (s *scripted) Get(_ context.Context, round uint64) (client.Result, error) {
	s.mu.Lock()
	defer s.mu.Unlock()
	if round == 0 {
		round = s.head
	}
	if round > s.head {
		return nil, fmt.Errorf("round %d not yet produced", round)
	}
	return mkResult(round), nil
}
func (s *scripted) Watch(context.Context) <-chan client.Result {
	s.mu.Lock()
	defer s.mu.Unlock()
	c := make(chan client.Result)
	s.streams = append(s.streams, c)
	return c
}
func (s *scripted) nStreams() int {
	s.mu.Lock()
	defer s.mu.Unlock()
	return len(s.streams)
}
func (s *scripted) cur() chan client.Result {
	s.mu.Lock()
	defer s.mu.Unlock()
	return s.streams[len(s.streams)-1]
}
func (s *scripted) Info(context.Context) (*chain2.Info, error) { return s.info, nil }
func (s *scripted) RoundAt(time.Time) uint64                   { return 0 }
func (s *scripted) Close() error                               { return nil }

type answer struct {
	asked uint64
	kind  string // beacon | empty | notfound
	got   uint64
}

func (a answer) term() string {
	switch a.kind {
	case "beacon":
		return fmt.Sprintf("ABeacon %d %d", a.asked, a.got)
	case "empty":
		return fmt.Sprintf("AEmpty %d", a.asked)
	}
	return fmt.Sprintf("ANotFound %d", a.asked)
}

type ev struct {
	kind  string // req | watch | fail | abandon
	r     uint64
	known bool
}

func (e ev) term() string {
	switch e.kind {
	case "req":
		return fmt.Sprintf("HReq %d %s", e.r, emit.Bool(e.known))
	case "watch":
		return fmt.Sprintf("HWatch %d", e.r)
	case "abandon":
		return fmt.Sprintf("HAbandon %d", e.r)
	}
	return "HFail"
}

// runCase drives one event list through a fresh real handler and returns the answers observed
// after each event.
func runCase(evs []ev) ([][]answer, error) {
	ctx, cancel := context.WithCancel(log.ToContext(context.Background(), log.New(discard{}, log.ErrorLevel, false)))
	defer cancel()
	h, err := dhttp.New(ctx, "verif")
	if err != nil {
		return nil, err
	}
	sch, _ := crypto.GetSchemeByID(crypto.DefaultSchemeID)
	info := &chain2.Info{PublicKey: sch.KeyGroup.Point().Base(), ID: "default", Period: time.Second,
		Scheme: sch.Name, GenesisTime: time.Now().Unix() - 100000, GenesisSeed: []byte("seed")}
	cl := &scripted{info: info, head: 0}
	hash := hex.EncodeToString(info.Hash())
	h.RegisterNewBeaconHandler(cl, hash)
	var mu sync.Mutex
	var done []answer
	var wg sync.WaitGroup
	reqCtx, reqCancel := context.WithCancel(context.Background())
	request := func(r uint64) {
		wg.Add(1)
		go func() {
			defer wg.Done()
			rec := httptest.NewRecorder()
			req := httptest.NewRequest(http.MethodGet, fmt.Sprintf("/%s/public/%d", hash, r), nil).WithContext(reqCtx)
			h.GetHTTPHandler().ServeHTTP(rec, req)
			body, _ := io.ReadAll(rec.Result().Body)
			a := answer{asked: r, kind: "notfound"}
			if debugHTTP {
				fmt.Println("DBG", r, rec.Code, string(body))
			}
			if rec.Code == http.StatusOK {
				if len(strings.TrimSpace(string(body))) == 0 {
					a.kind = "empty"
				} else {
					var res struct {
						Round uint64 `json:"round"`
					}
					if json.Unmarshal(body, &res) == nil {
						a.kind, a.got = "beacon", res.Round
					}
				}
			}
			if reqCtx.Err() != nil {
				return
			}
			mu.Lock()
			done = append(done, a)
			mu.Unlock()
		}()
	}
	collect := func() []answer {
		// every request goroutine has either answered or parked, the watch loop waits for its stream
		emit.Quiesce(20 * time.Second)
		mu.Lock()
		defer mu.Unlock()
		out := done
		done = nil
		sort.Slice(out, func(i, j int) bool { return out[i].asked < out[j].asked })
		return out
	}
	// the first getRand call starts the watch loop: prime it with a request that is answered at once
	cl.head = 1
	request(1)
	for i := 0; i < 200 && cl.nStreams() == 0; i++ {
		time.Sleep(2 * time.Millisecond)
	}
	_ = collect()
	var obs [][]answer
	for _, e := range evs {
		switch e.kind {
		case "req":
			request(e.r)
		case "watch":
			cl.mu.Lock()
			if e.r > cl.head {
				cl.head = e.r
			}
			cl.mu.Unlock()
			select {
			case cl.cur() <- mkResult(e.r):
			case <-time.After(30 * time.Second):
				reqCancel()
				return nil, fmt.Errorf("watch item not consumed")
			}
		case "abandon":
			// the request parks (it asks for latest+1), then its client goes away
			actx, acancel := context.WithCancel(context.Background())
			adone := make(chan struct{})
			go func() {
				defer close(adone)
				rec := httptest.NewRecorder()
				req := httptest.NewRequest(http.MethodGet, fmt.Sprintf("/%s/public/%d", hash, e.r), nil).WithContext(actx)
				h.GetHTTPHandler().ServeHTTP(rec, req)
			}()
			emit.Quiesce(20 * time.Second) // the request is parked
			acancel()
			select {
			case <-adone:
			case <-time.After(30 * time.Second):
				reqCancel()
				return nil, fmt.Errorf("abandoned request did not return")
			}
		case "fail":
			n := cl.nStreams()
			close(cl.cur())
			for i := 0; i < 1000 && cl.nStreams() == n; i++ {
				time.Sleep(2 * time.Millisecond)
			}
		}
		obs = append(obs, collect())
	}
	reqCancel()
	cancel()
	wg.Wait()
	return obs, nil
}

// Run is the engine entry point.
func Run(out string, seed int64, tier string) error {
	rep := emit.NewReport("httpwait", seed, tier)
	rng := rand.New(rand.NewSource(seed))
	ncases, nev := 10, 14
	if tier == "thorough" {
		ncases, nev = 80, 24
	}
	// corpus first: the stream fails while a waiter is registered and resumes at a later round
	corpus := [][]ev{
		{{kind: "watch", r: 5}, {kind: "req", r: 6, known: true}, {kind: "fail"}, {kind: "watch", r: 8}},
		{{kind: "watch", r: 5}, {kind: "req", r: 6, known: true}, {kind: "watch", r: 7}},
		{{kind: "watch", r: 5}, {kind: "req", r: 6, known: true}, {kind: "req", r: 3, known: true}, {kind: "watch", r: 6}},
		// a parked request whose client goes away, alone and next to another waiter, then the round arrives
		{{kind: "watch", r: 5}, {kind: "abandon", r: 6}, {kind: "watch", r: 6}, {kind: "req", r: 7, known: true}, {kind: "watch", r: 7}},
		{{kind: "watch", r: 5}, {kind: "req", r: 6, known: true}, {kind: "abandon", r: 6}, {kind: "req", r: 6, known: true}, {kind: "watch", r: 6}, {kind: "abandon", r: 7}, {kind: "watch", r: 7}},
	}
	var lines, descr []string
	total := ncases + len(corpus)
	for c := 0; c < total; c++ {
		var evs []ev
		if c < len(corpus) {
			evs = corpus[c]
		} else {
			latest := uint64(0)
			head := uint64(1)
			failures := 0
			missed := uint64(0)
			for i := 0; i < nev; i++ {
				switch x := rng.Intn(10); {
				case x < 4:
					nr := head + 1 + missed
					missed = 0
					if latest != 0 && rng.Intn(6) == 0 {
						nr = head + 2 // the stream skips a round
					}
					evs = append(evs, ev{kind: "watch", r: nr})
					latest, head = nr, nr
				case x < 5 && latest != 0:
					evs = append(evs, ev{kind: "abandon", r: latest + 1})
				case x < 9:
					r := latest + 1
					known := false
					if latest == 0 || rng.Intn(3) == 0 {
						r = 1 + uint64(rng.Intn(int(head)))
						known = true
					}
					if r <= head {
						known = true
					}
					evs = append(evs, ev{kind: "req", r: r, known: known})
				default:
					if failures < 2 {
						failures++
						evs = append(evs, ev{kind: "fail"})
						latest = 0
						missed = uint64(rng.Intn(3)) // rounds produced while the relay is disconnected
					}
				}
			}
		}
		obs, err := runCase(evs)
		if err != nil {
			return err
		}
		var et, ot []string
		for i, e := range evs {
			et = append(et, e.term())
			var as []string
			for _, a := range obs[i] {
				as = append(as, a.term())
				rep.Count("answer/" + a.kind)
				if a.kind == "beacon" && a.got != a.asked {
					rep.Fail("C01-http-waiter-served-other-round", "a request for round r was answered 200 with the beacon of another round (waiter kept across a watch-stream failure)", map[string]interface{}{"events": et, "asked": a.asked, "got": a.got})
				}
				if a.kind == "empty" {
					rep.Fail("C01-http-waiter-empty-200", "a request for round r was answered 200 with an empty body (watch stream skipped a round)", map[string]interface{}{"events": et, "asked": a.asked})
				}
			}
			ot = append(ot, emit.List(as))
			rep.Count("event/" + e.kind)
		}
		rep.Evaluations += len(evs)
		rep.DistinctNontrivial += len(evs)
		line := fmt.Sprintf("(%s, %s)", emit.List(et), emit.List(ot))
		lines = append(lines, line)
		descr = append(descr, strings.Join(et, "; "))
		rep.Sample(strings.Join(et, "; "), 4)
	}
	rep.Rule = "event lists (requests for latest+1 / older rounds, watch items consecutive or skipping, stream failures with rounds produced meanwhile) on the real handler/http relay with a scripted client; every event's answers are compared with the model; non-trivial = every event (each has an observable answer set)"
	if err := rep.Shard(out, "cases_httpwait", []string{"From DV Require Import Model.HttpWait Corr.HttpWaitCorr."}, "hcase", "mismatches", lines, descr, 200); err != nil {
		return err
	}
	return rep.Write(out)
}
