// Package engcache is the correspondence engine "cache" for C12: it drives the REAL
// beacon.partialCache (through the add-only hook verif_export_cache.go) with generated floods,
// records sizes / presence / error classes, writes case files for Corr/CacheCorr.v and evaluates
// the property monitor M on the implementation's own state.
package engcache

import (
	"crypto/cipher"
	"encoding/binary"
	"fmt"
	"math/rand"
	"sort"
	"strings"

	"github.com/drand/kyber/share"
	"github.com/drand/kyber/util/random"

	"github.com/drand/drand/v2/common"
	"github.com/drand/drand/v2/common/log"
	"github.com/drand/drand/v2/crypto"
	"github.com/drand/drand/v2/internal/chain/beacon"
	"github.com/drand/drand/v2/protobuf/drand"
	"github.com/drand/drand/v2/zzverif/emit"
)

const capN = beacon.MaxPartialsPerNode

type op struct {
	kind  string // A append, B bad append, F flush
	idx   int
	round uint64
	prev  []byte
}

type obs struct{ code, nr, nk, nl int }

type scenario struct {
	name   string
	shared bool // some round cache is used by more than one signer index
	ops    []op
}

// at most two witnesses per class, so that a frequent class cannot crowd out a new one
var classCount = map[string]int{}

func failOnce(rep *emit.Report, class, what string, in interface{}) {
	if classCount[class] >= 2 {
		return
	}
	classCount[class]++
	rep.Fail(class, what, in)
}

func quiet() log.Logger { return log.New(nil, log.PanicLevel, false) }

// sigLen is the length of a partial signature of the scheme (2 bytes of index + one point).
func sigLen(sch *crypto.Scheme) int { return sch.SigGroup.PointLen() + 2 }

// synthetic partial: big-endian index followed by filler bytes; IndexOf only looks at the length
// and at the first two bytes, the cache never verifies.
func synthPartial(sch *crypto.Scheme, idx int, salt byte) []byte {
	b := make([]byte, sigLen(sch))
	binary.BigEndian.PutUint16(b, uint16(idx))
	for i := 2; i < len(b); i++ {
		b[i] = salt
	}
	return b
}

func cidStr(round uint64, prev []byte) string {
	return fmt.Sprintf("(%d, %s)", round, emit.Bytes(prev))
}

func idKey(round uint64, prev []byte) string { return beacon.VerifCacheRoundID(round, prev) }

// decodeID inverts roundID: 8 bytes of round then prev.
func decodeID(id string) (uint64, []byte) {
	b := []byte(id)
	return binary.BigEndian.Uint64(b[:8]), b[8:]
}

func dump(c *beacon.VerifCache) (string, string) {
	var fr, fk []string
	for _, r := range c.Rounds() {
		s := make([]string, len(r.Signers))
		for i, x := range r.Signers {
			s[i] = fmt.Sprintf("%d", x)
		}
		fr = append(fr, fmt.Sprintf("(%s, %s)", cidStr(r.Round, r.Prev), emit.List(s)))
	}
	for _, k := range c.RcvdKeys() {
		var l []string
		for _, id := range c.Rcvd(k) {
			r, p := decodeID(id)
			l = append(l, cidStr(r, p))
		}
		fk = append(fk, fmt.Sprintf("(%d, %s)", k, emit.List(l)))
	}
	return emit.List(fr), emit.List(fk)
}

type liveSet map[[2]string]bool // (idx, id) present

func snapshot(c *beacon.VerifCache) liveSet {
	s := liveSet{}
	for _, r := range c.Rounds() {
		for _, i := range r.Signers {
			s[[2]string{fmt.Sprint(i), r.ID}] = true
		}
	}
	return s
}

// runScenario executes the operations on a fresh real cache; returns the Coq case and evaluates M.
func runScenario(rep *emit.Report, sch *crypto.Scheme, sc scenario) (string, string) {
	c := beacon.VerifCacheNew(quiet(), sch)
	var opsS, obsS []string
	signers := map[int]bool{}
	maxLive, maxRcvd, maxRounds := 0, 0, 0
	refusals := 0
	failed := map[string]bool{}
	fail := func(class, what string, extra map[string]interface{}) {
		if failed[class] {
			return
		}
		failed[class] = true
		in := map[string]interface{}{"scenario": sc.name, "ops": len(sc.ops), "cap": capN}
		for k, v := range extra {
			in[k] = v
		}
		failOnce(rep, class, what, in)
	}
	for n, o := range sc.ops {
		var ob obs
		switch o.kind {
		case "A", "B":
			var ps []byte
			if o.kind == "A" {
				ps = synthPartial(sch, o.idx, byte(n))
				signers[o.idx] = true
			} else {
				ps = synthPartial(sch, o.idx, 7)[:sigLen(sch)-1-(n%3)] // wrong length: IndexOf fails
			}
			_, ierr := sch.ThresholdScheme.IndexOf(ps)
			before := snapshot(c)
			err := c.Append(&drand.PartialBeaconPacket{Round: o.round, PreviousSignature: o.prev, PartialSig: ps})
			switch {
			case err == nil:
				ob.code = 0
			case ierr != nil:
				ob.code = 1
			default: // the only other error path of Append: evicted round missing from cache
				ob.code = 2
				refusals++
			}
			if o.kind == "A" {
				opsS = append(opsS, fmt.Sprintf("CAppend %d %s", o.idx, cidStr(o.round, o.prev)))
				ob.nl = c.RcvdLen(o.idx)
				// M (isolation by index): an Append on behalf of o.idx removes nothing of another index
				after := snapshot(c)
				for k := range before {
					if !after[k] && k[0] != fmt.Sprint(o.idx) {
						fail("C12-append-evicts-other-signer", "an Append on behalf of one signer index removed the cached partial of another index",
							map[string]interface{}{"op": n, "signer": o.idx, "removed_index": k[0]})
					}
				}
			} else {
				opsS = append(opsS, fmt.Sprintf("CAppendBad %s", cidStr(o.round, o.prev)))
			}
		case "F":
			c.FlushRounds(o.round)
			opsS = append(opsS, fmt.Sprintf("CFlush %d", o.round))
			checkRecorded(c, fail, n)
			// M: nothing at or below the flushed round survives
			for _, r := range c.Rounds() {
				if r.Round <= o.round {
					fail("C12-flush-leaves-round", "FlushRounds(r) left a round cache with round <= r", map[string]interface{}{"op": n, "round": r.Round})
				}
			}
		}
		ob.nr, ob.nk = c.NumRounds(), c.NumRcvd()
		obsS = append(obsS, fmt.Sprintf("(%d, %d, %d, %d)", ob.code, ob.nr, ob.nk, ob.nl))
		// M (bounds of the property, on the implementation's own state)
		live := map[int]int{}
		for _, r := range c.Rounds() {
			for _, i := range r.Signers {
				live[i]++
			}
		}
		for i, l := range live {
			if l > maxLive {
				maxLive = l
			}
			if l > capN {
				cl := "C12-per-signer-cap-exceeded"
				if sc.shared {
					cl = "C12-shared-round-bypasses-cap"
				}
				fail(cl, fmt.Sprintf("signer index %d holds partials in %d round caches (MaxPartialsPerNode = %d)", i, l, capN),
					map[string]interface{}{"op": n, "index": i, "live": l})
			}
		}
		for _, k := range c.RcvdKeys() {
			if l := c.RcvdLen(k); l > maxRcvd {
				maxRcvd = l
			}
			if l := c.RcvdLen(k); l > capN {
				fail("C12-rcvd-exceeds-bound", "len(rcvd[idx]) exceeds MaxPartialsPerNode", map[string]interface{}{"op": n, "index": k, "len": l})
			}
		}
		if ob.nr > maxRounds {
			maxRounds = ob.nr
		}
		if ob.nr > capN*len(signers) {
			fail("C12-rounds-exceed-bound", "number of round caches exceeds MaxPartialsPerNode x signers", map[string]interface{}{"op": n, "rounds": ob.nr, "signers": len(signers)})
		}
	}
	fr, fk := dump(c)
	rep.Count(fmt.Sprintf("cache/%s", strings.SplitN(sc.name, ":", 2)[0]))
	checkRecorded(c, fail, len(sc.ops))
	if refusals > 0 {
		rep.Count("cache/with-evict-missing-refusal")
	}
	if maxLive >= capN {
		rep.Count("cache/reached-cap")
	}
	ex := rep.Extra
	if v, ok := ex["max_rcvd_len"].(int); !ok || maxRcvd > v {
		ex["max_rcvd_len"] = maxRcvd
	}
	if v, ok := ex["max_rounds"].(int); !ok || maxRounds > v {
		ex["max_rounds"] = maxRounds
	}
	return fmt.Sprintf("CCase %s %s %s %s", emit.List(opsS), emit.List(obsS), fr, fk),
		fmt.Sprintf("CCase %s (%d ops, shared=%v, max live %d, max rcvd %d, max rounds %d, refusals %d)", sc.name, len(sc.ops), sc.shared, maxLive, maxRcvd, maxRounds, refusals)
}

// checkRecorded (M): the ids recorded for a signer index, rcvd[idx], are exactly the round caches that
// hold a partial of that index, each once: this is what the per-signer limit counts.
func checkRecorded(c *beacon.VerifCache, fail func(class, what string, extra map[string]interface{}), n int) {
	holds := map[int]map[string]bool{}
	for _, r := range c.Rounds() {
		for _, i := range r.Signers {
			if holds[i] == nil {
				holds[i] = map[string]bool{}
			}
			holds[i][r.ID] = true
		}
	}
	keys := map[int]bool{}
	for _, k := range c.RcvdKeys() {
		keys[k] = true
	}
	for i := range holds {
		keys[i] = true
	}
	for k := range keys {
		rec := c.Rcvd(k)
		seen := map[string]bool{}
		bad := len(rec) != len(holds[k])
		for _, id := range rec {
			if seen[id] || !holds[k][id] {
				bad = true
			}
			seen[id] = true
		}
		if bad {
			fail("C12-recorded-ids-differ-from-round-caches",
				fmt.Sprintf("signer index %d is recorded with %d ids but holds partials in %d round caches: the per-signer limit no longer counts what the signer occupies", k, len(rec), len(holds[k])),
				map[string]interface{}{"op": n, "index": k, "recorded": len(rec), "round_caches_holding_it": len(holds[k])})
			return
		}
	}
}

func prevOf(k int) []byte { return []byte{byte(k >> 8), byte(k), 0xAB} }

// ---- scenario generators ----

func corpus() []scenario {
	var out []scenario
	// F6a: one signer, 2*cap+2 distinct ids: the last is refused, rcvd stays at 2*cap+1
	var ops []op
	for k := 0; k < 2*capN+3; k++ {
		ops = append(ops, op{kind: "A", idx: 1, round: 5, prev: prevOf(k)})
	}
	out = append(out, scenario{name: "corpus:single-signer-2cap+3-ids", ops: ops})
	// then a flush does not repair the signer (stale head id has no round cache)
	ops2 := append([]op{}, ops...)
	ops2 = append(ops2, op{kind: "F", round: 5})
	for k := 0; k < 3; k++ {
		ops2 = append(ops2, op{kind: "A", idx: 1, round: 6, prev: prevOf(1000 + k)})
	}
	out = append(out, scenario{name: "corpus:stale-head-survives-flush", ops: ops2})
	// two signers sharing every id: B joins the caches A creates and is never checked against the cap
	var ops3 []op
	for k := 0; k < 2*capN+1; k++ {
		ops3 = append(ops3, op{kind: "A", idx: 1, round: 5, prev: prevOf(k)}, op{kind: "A", idx: 2, round: 5, prev: prevOf(k)})
	}
	out = append(out, scenario{name: "corpus:two-signers-share-every-id", shared: true, ops: ops3})
	// the arrival order of a member racing ahead: its partial for the round being aggregated first,
	// then many partials for later rounds of the window, then the beacon of that round is stored
	// (FlushRounds); repeated for a few beacons. The ids recorded after the flushed one must survive.
	var ops4 []op
	for h := uint64(10); h < 15; h++ {
		ops4 = append(ops4, op{kind: "A", idx: 1, round: h + 1, prev: prevOf(int(h))})
		for k := 0; k < capN-1; k++ {
			ops4 = append(ops4, op{kind: "A", idx: 1, round: h + 4, prev: []byte{byte(h), byte(k >> 8), byte(k), 0xCD}})
		}
		ops4 = append(ops4, op{kind: "F", round: h + 1})
	}
	out = append(out, scenario{name: "corpus:flush-after-partials-for-later-rounds", ops: ops4})
	return out
}

func randomScenario(rng *rand.Rand, n int, kind string) scenario {
	sc := scenario{name: "random:" + kind}
	nsign := 1 + rng.Intn(4)
	fresh := 0
	var ops []op
	head := uint64(10)
	usedBy := map[string]int{}
	for len(ops) < n {
		x := rng.Intn(100)
		switch {
		case x < 4 && kind != "noflush":
			r := head - 1 + uint64(rng.Intn(4))
			ops = append(ops, op{kind: "F", round: r})
			if rng.Intn(2) == 0 {
				head++
			}
		case x < 6:
			ops = append(ops, op{kind: "B", idx: rng.Intn(5), round: head + 1, prev: prevOf(rng.Intn(4))})
		default:
			idx := 1 + rng.Intn(nsign)
			var round uint64
			var prev []byte
			round = head + uint64(rng.Intn(5))
			switch kind {
			case "private", "noflush":
				// ids are private to their signer: prev encodes the signer
				if rng.Intn(6) == 0 && fresh > 0 {
					prev = []byte{byte(idx), byte(rng.Intn(fresh) >> 8), byte(rng.Intn(fresh))}
				} else {
					fresh++
					prev = []byte{byte(idx), byte(fresh >> 8), byte(fresh)}
				}
			case "shared":
				if rng.Intn(3) == 0 {
					prev = prevOf(rng.Intn(6)) // small alphabet: shared between signers
				} else {
					fresh++
					prev = prevOf(100 + fresh)
				}
			case "recycle":
				// few ids, heavy reuse: exercises stale ids becoming live again
				prev = []byte{byte(idx), byte(rng.Intn(capN + 20))}
				round = head + 1
			}
			if rng.Intn(40) == 0 {
				prev = nil
			}
			k := idKey(round, prev)
			if o, ok := usedBy[k]; ok && o != idx {
				sc.shared = true
			}
			usedBy[k] = idx
			ops = append(ops, op{kind: "A", idx: idx, round: round, prev: prev})
		}
	}
	sc.ops = ops
	return sc
}

func floodScenario(rng *rand.Rand, signers int, perSigner int, flushEvery int) scenario {
	sc := scenario{name: fmt.Sprintf("flood:%d-signers", signers)}
	var ops []op
	cnt := 0
	for k := 0; k < perSigner; k++ {
		for s := 1; s <= signers; s++ {
			ops = append(ops, op{kind: "A", idx: s, round: 20 + uint64(rng.Intn(4)), prev: []byte{byte(s), byte(k >> 8), byte(k)}})
			cnt++
			if flushEvery > 0 && cnt%flushEvery == 0 {
				ops = append(ops, op{kind: "F", round: 19 + uint64(rng.Intn(4))})
			}
		}
	}
	sc.ops = ops
	return sc
}

// boundary sweep around cap and 2*cap+1 for one signer with a second signer keeping k caches alive
func boundaryScenario(n int, helper int) scenario {
	sc := scenario{name: fmt.Sprintf("boundary:n=%d,helper=%d", n, helper), shared: helper > 0}
	var ops []op
	for k := 0; k < n; k++ {
		ops = append(ops, op{kind: "A", idx: 1, round: 7, prev: prevOf(k)})
		if k < helper {
			ops = append(ops, op{kind: "A", idx: 2, round: 7, prev: prevOf(k)})
		}
	}
	sc.ops = ops
	return sc
}

// ---- packet level with real threshold BLS ----

func newStream(seed int64) cipher.Stream { return random.New(rand.New(rand.NewSource(seed))) }

type blsWorld struct {
	sch    *crypto.Scheme
	pub    *share.PubPoly
	shares []*share.PriShare
}

func newBLS(sch *crypto.Scheme, seed int64) *blsWorld {
	pri := share.NewPriPoly(sch.KeyGroup, 2, nil, newStream(seed))
	return &blsWorld{sch: sch, pub: pri.Commit(sch.KeyGroup.Point().Base()), shares: pri.Shares(3)}
}

func (w *blsWorld) digest(round uint64, prev []byte) []byte {
	return w.sch.DigestBeacon(&common.Beacon{Round: round, PreviousSig: prev})
}
func (w *blsWorld) sign(i int, round uint64, prev []byte) []byte {
	s, err := w.sch.ThresholdScheme.Sign(w.shares[i], w.digest(round, prev))
	if err != nil {
		panic(err)
	}
	return s
}
func (w *blsWorld) valid(sig []byte, round uint64, prev []byte) bool {
	return w.sch.ThresholdScheme.VerifyPartial(w.pub, w.digest(round, prev), sig) == nil
}

func optPrev(chained bool, prev []byte) string {
	if !chained {
		return "None"
	}
	return "(Some " + emit.Bytes(prev) + ")"
}

// replayFlood: member M replays victim V's genuine partial for (round, prevHonest) under n junk
// previous signatures. Every packet is accepted exactly when the real VerifyPartial accepts it.
func replayFlood(rep *emit.Report, w *blsWorld, chained bool, n int, cases, descr *[]string) {
	c := beacon.VerifCacheNew(quiet(), w.sch)
	const round = 12
	prevHonest := []byte{0x11, 0x22, 0x33}
	victim := 1 // share index of V
	vsig := w.sign(victim, round, prevHonest)
	vidx, _ := w.sch.ThresholdScheme.IndexOf(vsig)
	other := w.sign(2, round, prevHonest)
	var evs []string
	pkt := func(sig []byte, signer int, sr uint64, sprev []byte, r uint64, prev []byte) bool {
		evs = append(evs, fmt.Sprintf("NPacket (mkPkt %d %s (mkPS %d %d %s))", r, emit.Bytes(prev), signer, sr, optPrev(chained, sprev)))
		if !w.valid(sig, r, prev) { // what ProcessPartialBeacon checks before NewValidPartial
			return false
		}
		_ = c.Append(&drand.PartialBeaconPacket{Round: r, PreviousSignature: prev, PartialSig: sig})
		return true
	}
	oidx, _ := w.sch.ThresholdScheme.IndexOf(other)
	pkt(vsig, vidx, round, prevHonest, round, prevHonest)
	pkt(other, oidx, round, prevHonest, round, prevHonest)
	had := c.Has(round, prevHonest, vidx)
	accepted := 0
	for k := 0; k < n; k++ {
		if pkt(vsig, vidx, round, prevHonest, round, []byte{0xEE, byte(k >> 8), byte(k)}) {
			accepted++
		}
	}
	has := c.Has(round, prevHonest, vidx)
	rep.Count(fmt.Sprintf("replay/%s/accepted=%d/%d", w.sch.Name, accepted, n))
	if had && !has {
		failOnce(rep, "C12-unchained-prev-flood-evicts-victim",
			fmt.Sprintf("scheme %s: the victim's valid partial for round %d, replayed by another party under %d junk previous signatures, was accepted %d times (previous signature is not signed) and evicted the victim's genuine cache entry", w.sch.Name, round, n, accepted),
			map[string]interface{}{"scheme": w.sch.Name, "round": round, "replays": n, "accepted": accepted, "victim_index": vidx, "victim_entry_before": had, "victim_entry_after": has})
	}
	if chained && accepted != 0 {
		failOnce(rep, "C12-chained-replay-accepted", "a replayed partial verified under a different previous signature on the chained scheme", map[string]interface{}{"accepted": accepted})
	}
	fr, fk := dump(c)
	*cases = append(*cases, fmt.Sprintf("PCase %s %s %s %s", emit.Bool(chained), emit.List(evs), fr, fk))
	*descr = append(*descr, fmt.Sprintf("PCase replay flood scheme=%s n=%d accepted=%d victim entry before/after=%v/%v", w.sch.Name, n, accepted, had, has))
}

func validityCases(rep *emit.Report, w *blsWorld, chained bool, cases, descr *[]string) {
	prevs := [][]byte{nil, {1, 2, 3}, {1, 2, 4}, {9}}
	for _, r := range []uint64{1, 2, 300} {
		for pi, p := range prevs {
			sig := w.sign(0, r, p)
			idx, _ := w.sch.ThresholdScheme.IndexOf(sig)
			for _, r2 := range []uint64{r, r + 1} {
				for pj, p2 := range prevs {
					if pi != 1 && pj > 1 && r2 != r { // thin out
						continue
					}
					v := w.valid(sig, r2, p2)
					*cases = append(*cases, fmt.Sprintf("VCase %s %d %d %s %d %s %s", emit.Bool(chained), idx, r, emit.Bytes(p), r2, emit.Bytes(p2), emit.Bool(v)))
					*descr = append(*descr, fmt.Sprintf("VCase scheme=%s signed(%d,%x) checked(%d,%x) valid=%v", w.sch.Name, r, p, r2, p2, v))
					rep.Count(fmt.Sprintf("validity/%s/%v", w.sch.Name, v))
					rep.Evaluations++
				}
			}
		}
	}
}

// Run is the engine entry point.
func Run(outDir string, seed int64, tier string) error {
	rep := emit.NewReport("cache", seed, tier)
	classCount = map[string]int{}
	rng := rand.New(rand.NewSource(seed))
	sch := crypto.NewPedersenBLSChained()
	var scs []scenario
	scs = append(scs, corpus()...)
	for _, n := range []int{capN - 1, capN, capN + 1, 2 * capN, 2*capN + 1, 2*capN + 2} {
		scs = append(scs, boundaryScenario(n, 0))
	}
	scs = append(scs, boundaryScenario(2*capN+4, 1), boundaryScenario(2*capN+4, 3), boundaryScenario(capN+5, capN+5))
	nrand, nflood := 40, 6
	if tier == "thorough" {
		nrand, nflood = 600, 60
	}
	kinds := []string{"private", "shared", "recycle", "noflush"}
	for i := 0; i < nrand; i++ {
		scs = append(scs, randomScenario(rng, 60+rng.Intn(500), kinds[i%len(kinds)]))
	}
	for i := 0; i < nflood; i++ {
		scs = append(scs, floodScenario(rng, 1+rng.Intn(3), capN+rng.Intn(capN+30), []int{0, 37, 150}[i%3]))
	}
	var cases, descr []string
	distinct := map[string]bool{}
	for _, sc := range scs {
		c, d := runScenario(rep, sch, sc)
		cases = append(cases, c)
		descr = append(descr, d)
		rep.Evaluations += len(sc.ops)
		for _, o := range sc.ops {
			distinct[fmt.Sprintf("%s|%d|%s", o.kind, o.idx, idKey(o.round, o.prev))] = true
		}
		rep.Sample(d, 6)
	}
	rep.DistinctNontrivial = len(distinct)
	// packet level with real threshold BLS: validity oracle and the replay flood, both scheme families
	for _, s := range []*crypto.Scheme{crypto.NewPedersenBLSChained(), crypto.NewPedersenBLSUnchained(), crypto.NewPedersenBLSUnchainedSwapped()} {
		chained := s.Name == crypto.DefaultSchemeID
		w := newBLS(s, seed)
		validityCases(rep, w, chained, &cases, &descr)
		replayFlood(rep, w, chained, capN, &cases, &descr)
		if tier == "thorough" {
			replayFlood(rep, w, chained, capN-1, &cases, &descr)
			replayFlood(rep, w, chained, 2*capN+5, &cases, &descr)
		}
	}
	keys := make([]string, 0, len(rep.Distribution))
	for k := range rep.Distribution {
		keys = append(keys, k)
	}
	sort.Strings(keys)
	rep.Rule = "real partialCache driven through the hook: corpus of known witnesses (2cap+3 ids of one signer; stale head after flush; two signers sharing every id), boundary sweeps at cap-1..2cap+2, random operation lists (private ids / shared ids / heavy reuse / no flush; malformed partials; flushes), multi-signer floods; packet level with real threshold-BLS partials on chained and unchained schemes (validity matrix and the replay flood); distinct = distinct (kind, signer, id); an evaluation = one cache operation or one VerifyPartial"
	if err := rep.Shard(outDir, "cases_cache", []string{"From DV Require Import Model.Cache Corr.CacheCorr."}, "ccase", "mismatches", cases, descr, 8); err != nil {
		return err
	}
	return rep.Write(outDir)
}
