// Package cli is the shared command-line front end of the harness binaries.
package cli

import (
	"flag"
	"fmt"
	"os"
	"sort"
)

// RunFn is an engine entry point.
type RunFn func(outDir string, seed int64, tier string) error

// Repo is the repository root the engines read sources from (translator) .
var Repo = "/repo"

// Main dispatches os.Args[1] to the engine of that name.
func Main(engines map[string]RunFn) {
	if len(os.Args) < 2 {
		names := []string{}
		for n := range engines {
			names = append(names, n)
		}
		sort.Strings(names)
		fmt.Fprintln(os.Stderr, "usage: zzv <engine> [-out dir] [-seed n] [-tier quick|thorough] [-repo /repo]; engines:", names)
		os.Exit(2)
	}
	fs := flag.NewFlagSet(os.Args[1], flag.ExitOnError)
	out := fs.String("out", ".", "output directory")
	seed := fs.Int64("seed", 1, "PRNG seed")
	tier := fs.String("tier", "quick", "quick|thorough")
	repo := fs.String("repo", "/repo", "repository root")
	_ = fs.Parse(os.Args[2:])
	Repo = *repo
	fn, ok := engines[os.Args[1]]
	if !ok {
		fmt.Fprintf(os.Stderr, "zzv: unknown engine %q\n", os.Args[1])
		os.Exit(2)
	}
	if err := os.MkdirAll(*out, 0o755); err != nil {
		fmt.Fprintln(os.Stderr, "zzv:", err)
		os.Exit(3)
	}
	if err := fn(*out, *seed, *tier); err != nil {
		fmt.Fprintln(os.Stderr, "zzv:", err)
		os.Exit(3)
	}
}
