package engcrash

import (
	"context"
	"errors"
	"fmt"
	"net"
	"os"
	"path/filepath"
	"time"

	"github.com/drand/drand/v2/common/key"
	"github.com/drand/drand/v2/internal/chain"
	"github.com/drand/drand/v2/internal/core"
)

func freeAddr() string {
	l, err := net.Listen("tcp", "127.0.0.1:0")
	if err != nil {
		return "127.0.0.1:0"
	}
	defer l.Close()
	return l.Addr().String()
}

// daemonOutcome is what a REAL DrandDaemon does with one beacon id at start-up.
type daemonOutcome struct {
	Class string // fresh (waits for a DKG) | running | refused (LoadBeaconFromStore returns an error: `drand start` exits)
	GE    int    // running: epoch of the loaded group / share
	SE    int
	Err   string // refused: error class
}

func (d daemonOutcome) coq() string {
	switch d.Class {
	case "fresh":
		return "0 0 0"
	case "running":
		return fmt.Sprintf("1 %d %d", d.GE, d.SE)
	}
	return "2 0 0"
}

// daemonRestart starts a real daemon on a private copy of the snapshot (NewDrandDaemon opens
// dkg.db, the gRPC listeners come up on loopback ports) and calls the real
// DrandDaemon.LoadBeaconFromStore for the beacon id, exactly what LoadBeaconsFromDisk does for each
// key store it finds at `drand start`.
func (w *world) daemonRestart(s *snapshot, root string) (out daemonOutcome, err error) {
	work, err := copyTree(root, s.dir, "daemon-"+filepath.Base(s.dir))
	if err != nil {
		return out, err
	}
	defer os.RemoveAll(work)
	ctx, cancel := context.WithTimeout(context.Background(), 30*time.Second)
	defer cancel()
	// the ports are probed, released and then taken by the daemon: another process may grab one in
	// between (several checks run side by side), so a failed start is retried with fresh ports
	var conf *core.Config
	var dd *core.DrandDaemon
	for attempt := 0; ; attempt++ {
		_, port, _ := net.SplitHostPort(freeAddr())
		conf = core.NewConfig(w.log,
			core.WithConfigFolder(work),
			core.WithPrivateListenAddress(freeAddr()),
			core.WithControlPort(port),
			core.WithDBStorageEngine(chain.BoltDB),
		)
		dd, err = core.NewDrandDaemon(ctx, conf)
		if err == nil {
			break
		}
		if attempt >= 5 {
			return out, fmt.Errorf("NewDrandDaemon: %w", err)
		}
		time.Sleep(50 * time.Millisecond)
	}
	defer func() {
		sctx, c := context.WithTimeout(context.Background(), 8*time.Second)
		defer c()
		guard(func() { dd.Stop(sctx) })
	}()
	store := key.NewFileStore(conf.ConfigFolderMB(), beaconID)
	var bp *core.BeaconProcess
	var lerr error
	if guard(func() { bp, lerr = dd.LoadBeaconFromStore(ctx, beaconID, store) }) {
		return daemonOutcome{Class: "refused", Err: "panic"}, nil
	}
	if lerr != nil {
		ec := "other"
		if errors.Is(lerr, core.ErrDKGNotStarted) {
			ec = "ErrDKGNotStarted"
		}
		return daemonOutcome{Class: "refused", Err: ec}, nil
	}
	g, sh := bp.VerifCrashLoaded()
	if g == nil {
		return daemonOutcome{Class: "fresh"}, nil
	}
	return daemonOutcome{Class: "running", GE: w.groupEpoch(g), SE: w.shareEpoch(sh)}, nil
}
