package engcrash

import (
	"bytes"
	"fmt"
	"os"
	"path/filepath"
	"syscall"

	"github.com/BurntSushi/toml"

	"github.com/drand/drand/v2/common/key"
	"github.com/drand/drand/v2/zzverif/emit"
)

// specialTargets calls the real key.Save on targets that are not regular files - what the CLI's
// `--out` may be given: a symlink, a symlink to a character device, a named pipe - and checks that
// they are still written THROUGH (the text arrives where the target points, the target keeps its
// kind, nothing is left next to it), while a regular or absent target is replaced by a rename.
func specialTargets(rep *emit.Report, w *world, root string) error {
	dir := filepath.Join(root, "special-targets")
	if err := os.MkdirAll(dir, 0o700); err != nil {
		return err
	}
	g := w.groups[1]
	var want bytes.Buffer
	if err := toml.NewEncoder(&want).Encode(g.TOML()); err != nil {
		return err
	}
	fail := func(target, what string) {
		rep.Fail("C13-save-to-non-regular-target-not-written-through", fmt.Sprintf("key.Save to %s: %s", target, what),
			map[string]interface{}{"target": target, "scheme": w.sch.Name})
	}
	leftover := func(target, p string) {
		if _, err := os.Lstat(p + ".tmp"); err == nil {
			fail(target, "a temporary file was left next to the target")
			_ = os.Remove(p + ".tmp")
		}
	}
	// (1) symlink to a regular file
	realFile := filepath.Join(dir, "real_group.toml")
	link := filepath.Join(dir, "link_group.toml")
	if err := os.WriteFile(realFile, []byte("old"), 0o644); err != nil {
		return err
	}
	if err := os.Symlink(realFile, link); err != nil {
		return err
	}
	rep.Count("special-target/symlink")
	rep.Evaluations++
	if err := key.Save(link, g, false); err != nil {
		fail("a symlink to a regular file", "error "+err.Error())
	} else {
		if fi, err := os.Lstat(link); err != nil || fi.Mode()&os.ModeSymlink == 0 {
			fail("a symlink to a regular file", "the symlink was replaced by something else")
		}
		if b, _ := os.ReadFile(realFile); !bytes.Equal(b, want.Bytes()) {
			fail("a symlink to a regular file", "the file the link points to does not hold the text")
		}
		leftover("a symlink to a regular file", link)
	}
	// the same with a secret: the file the link points to ends owner-only
	realShare := filepath.Join(dir, "real_share.toml")
	linkShare := filepath.Join(dir, "link_share.toml")
	if err := os.WriteFile(realShare, []byte("old"), 0o644); err != nil {
		return err
	}
	if err := os.Symlink(realShare, linkShare); err != nil {
		return err
	}
	rep.Count("special-target/symlink-secure")
	rep.Evaluations++
	if err := key.Save(linkShare, w.shares[1], true); err != nil {
		fail("a symlink to a regular file (secure)", "error "+err.Error())
	} else {
		if fi, err := os.Stat(realShare); err != nil || fi.Mode().Perm()&0o077 != 0 {
			fail("a symlink to a regular file (secure)", "the file holding the share is not owner-only")
		}
		if s, err := loadShareFile(realShare); err != nil || w.shareEpoch(s) != 1 {
			fail("a symlink to a regular file (secure)", "the file the link points to does not hold the share")
		}
		leftover("a symlink to a regular file (secure)", linkShare)
	}
	// (2) symlink to a character device (what /dev/stdout is), kept inside the temp folder
	devLink := filepath.Join(dir, "to_dev_null")
	if err := os.Symlink("/dev/null", devLink); err != nil {
		return err
	}
	rep.Count("special-target/symlink-to-device")
	rep.Evaluations++
	if err := key.Save(devLink, g, false); err != nil {
		fail("a symlink to a character device", "error "+err.Error())
	} else {
		if fi, err := os.Lstat(devLink); err != nil || fi.Mode()&os.ModeSymlink == 0 {
			fail("a symlink to a character device", "the symlink was replaced by something else")
		}
		leftover("a symlink to a character device", devLink)
	}
	// (3) named pipe with a reader on the other end
	pipe := filepath.Join(dir, "group.fifo")
	if err := syscall.Mkfifo(pipe, 0o600); err != nil {
		return err
	}
	// the reading end is opened BEFORE Save runs (non-blocking open of a FIFO for reading succeeds
	// without a writer), so whatever Save writes stays in the pipe until it is read here: no
	// goroutine, no deadline
	rfd, err := syscall.Open(pipe, syscall.O_RDONLY|syscall.O_NONBLOCK, 0)
	if err != nil {
		return err
	}
	rep.Count("special-target/fifo")
	rep.Evaluations++
	saveErr := key.Save(pipe, g, false)
	var gotBytes []byte
	buf := make([]byte, 64*1024)
	for {
		k, rerr := syscall.Read(rfd, buf)
		if k > 0 {
			gotBytes = append(gotBytes, buf[:k]...)
			continue
		}
		_ = rerr // 0 = end of file (the writer closed), EAGAIN = nothing was written
		break
	}
	_ = syscall.Close(rfd)
	if saveErr != nil {
		fail("a named pipe", "error "+saveErr.Error())
	} else if !bytes.Equal(gotBytes, want.Bytes()) {
		fail("a named pipe", "the reader of the pipe did not receive the text")
	}
	if fi, err := os.Lstat(pipe); err != nil || fi.Mode()&os.ModeNamedPipe == 0 {
		fail("a named pipe", "the pipe was replaced by something else")
	}
	leftover("a named pipe", pipe)
	// (4) and the contrast: a regular target is replaced (new inode), an absent one created, no leftovers
	reg := filepath.Join(dir, "regular_group.toml")
	if err := os.WriteFile(reg, []byte("old"), 0o644); err != nil {
		return err
	}
	before, _ := os.Stat(reg)
	rep.Count("special-target/regular")
	rep.Evaluations++
	if err := key.Save(reg, g, false); err != nil {
		return fmt.Errorf("Save to a regular file: %w", err)
	}
	after, _ := os.Stat(reg)
	rep.Extra["regular_target_replaced_by_rename"] = !os.SameFile(before, after)
	leftover("a regular file", reg)
	return nil
}

func loadShareFile(p string) (*key.Share, error) {
	s := new(key.Share)
	return s, key.Load(p, s)
}
