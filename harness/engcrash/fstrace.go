package engcrash

import (
	"bytes"
	"encoding/binary"
	"fmt"
	"syscall"
)

// fsEvent is one change the kernel reported for a watched folder (inotify).
type fsEvent struct {
	Kind   string // create | modify | close-write | moved-from | moved-to | delete
	Name   string
	Cookie uint32 // pairs moved-from with moved-to
}

// fsTrace watches one folder while the real code runs, so that the engine OBSERVES how a file got
// onto the disk (written in place, or written aside and renamed) and in which order files were
// removed, instead of assuming it.
type fsTrace struct {
	fd int
}

func traceDir(dir string) (*fsTrace, error) {
	fd, err := syscall.InotifyInit1(syscall.IN_NONBLOCK | syscall.IN_CLOEXEC)
	if err != nil {
		return nil, fmt.Errorf("inotify: %w", err)
	}
	mask := uint32(syscall.IN_CREATE | syscall.IN_MODIFY | syscall.IN_CLOSE_WRITE | syscall.IN_MOVED_FROM | syscall.IN_MOVED_TO | syscall.IN_DELETE)
	if _, err := syscall.InotifyAddWatch(fd, dir, mask); err != nil {
		_ = syscall.Close(fd)
		return nil, fmt.Errorf("inotify watch %s: %w", dir, err)
	}
	return &fsTrace{fd: fd}, nil
}

// stop returns the events queued since traceDir, in kernel order.
func (t *fsTrace) stop() []fsEvent {
	defer syscall.Close(t.fd)
	var out []fsEvent
	buf := make([]byte, 64*1024)
	for {
		n, err := syscall.Read(t.fd, buf)
		if n <= 0 || err != nil {
			return out
		}
		for off := 0; off+syscall.SizeofInotifyEvent <= n; {
			var ev syscall.InotifyEvent
			_ = binary.Read(bytes.NewReader(buf[off:off+syscall.SizeofInotifyEvent]), binary.LittleEndian, &ev)
			name := string(bytes.TrimRight(buf[off+syscall.SizeofInotifyEvent:off+syscall.SizeofInotifyEvent+int(ev.Len)], "\x00"))
			off += syscall.SizeofInotifyEvent + int(ev.Len)
			for _, k := range []struct {
				bit  uint32
				kind string
			}{{syscall.IN_CREATE, "create"}, {syscall.IN_MODIFY, "modify"}, {syscall.IN_CLOSE_WRITE, "close-write"},
				{syscall.IN_MOVED_FROM, "moved-from"}, {syscall.IN_MOVED_TO, "moved-to"}, {syscall.IN_DELETE, "delete"}} {
				if ev.Mask&k.bit != 0 {
					out = append(out, fsEvent{k.kind, name, ev.Cookie})
				}
			}
		}
	}
}
