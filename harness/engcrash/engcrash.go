// Package engcrash is the correspondence / validation engine for C13: it drives the REAL
// persistence code paths of a node (dkg.BoltStore.SaveCurrent/SaveFinished, the beacon process's
// storeDKGOutput on a real file key store, fileStore.Reset, appendStore/schemeStore over the
// real bolt chain store) in a temp folder, copies the folder after each persistence call
// (crash-after) and synthesises the before / empty / torn variants of every file save, reloads
// each snapshot with fresh objects and compares what they load with the model's
// [recover (crash cp run)] (K), and evaluates the property's own consistency predicate on the
// reloaded state (M).
package engcrash

import (
	"context"
	"errors"
	"fmt"
	iofs "io/fs"
	"math/rand"
	"os"
	"path/filepath"
	"sort"
	"strings"
	"sync"
	"time"

	"github.com/drand/drand/v2/common"
	"github.com/drand/drand/v2/common/key"
	"github.com/drand/drand/v2/common/log"
	"github.com/drand/drand/v2/crypto"
	"github.com/drand/drand/v2/internal/chain"
	"github.com/drand/drand/v2/internal/chain/beacon"
	"github.com/drand/drand/v2/internal/chain/boltdb"
	"github.com/drand/drand/v2/internal/core"
	"github.com/drand/drand/v2/internal/dkg"
	dfs "github.com/drand/drand/v2/internal/fs"
	"github.com/drand/drand/v2/internal/util"
	pdkg "github.com/drand/drand/v2/protobuf/dkg"
	"github.com/drand/drand/v2/zzverif/emit"
	"github.com/drand/drand/v2/zzverif/engkeys"
)

const beaconID = common.DefaultBeaconID

// world is one node's material: its key pair and, per epoch, the group and this node's share.
type world struct {
	sch    *crypto.Scheme
	rng    *rand.Rand
	pairs  []*key.Pair
	groups map[int]*key.Group // epoch -> group
	shares map[int]*key.Share // epoch -> share of node 0
	log    log.Logger
	sigs   map[string]int64 // signature bytes -> id used in the Coq terms
}

func newWorld(sch *crypto.Scheme, seed int64) (*world, error) {
	w := &world{sch: sch, rng: rand.New(rand.NewSource(seed)), groups: map[int]*key.Group{}, shares: map[int]*key.Share{}, sigs: map[string]int64{}}
	w.log = log.New(&engkeys.LogSink{}, log.ErrorLevel, true)
	for i := 0; i < 3; i++ {
		p, err := engkeys.NewPair(w.rng, fmt.Sprintf("127.0.0.1:%d", 9300+i), sch)
		if err != nil {
			return nil, err
		}
		w.pairs = append(w.pairs, p)
	}
	secret := sch.KeyGroup.Scalar().Pick(engkeys.RngStream{R: w.rng})
	for e := 1; e <= 3; e++ {
		shares, commits := engkeys.Deal(w.rng, sch, secret, 3, 2) // resharing: same secret, new polynomial
		g := engkeys.MkGroup(sch, w.pairs, commits, 2, 1700000000, 3*time.Second, beaconID)
		if e > 1 {
			g.GenesisSeed = w.groups[1].GenesisSeed
			g.TransitionTime = 1700000000 + int64(e)*3000
		}
		w.groups[e], w.shares[e] = g, shares[0]
	}
	return w, nil
}

func (w *world) sigID(b []byte) int64 {
	if len(b) == 0 {
		return 0
	}
	if id, ok := w.sigs[string(b)]; ok {
		return id
	}
	id := int64(len(w.sigs) + 1)
	w.sigs[string(b)] = id
	return id
}

func (w *world) groupEpoch(g *key.Group) int {
	if g == nil {
		return 0
	}
	for e, x := range w.groups {
		if g.Equal(x) && g.PublicKey != nil && g.PublicKey.Equal(x.PublicKey) && g.TransitionTime == x.TransitionTime {
			return e
		}
	}
	return -1
}

func (w *world) shareEpoch(s *key.Share) int {
	if s == nil || s.Share == nil || s.Share.V == nil {
		return 0
	}
	for e, x := range w.shares {
		if s.Share.V.Equal(x.Share.V) && s.Share.I == x.Share.I && len(s.Commits) == len(x.Commits) {
			same := s.Scheme != nil && s.Scheme.Name == x.Scheme.Name
			for i := range s.Commits {
				if !s.Commits[i].Equal(x.Commits[i]) {
					same = false
				}
			}
			if same {
				return e
			}
		}
	}
	return -1
}

func (w *world) state(epoch uint32, st dkg.Status, groupEpoch, shareEpoch int) *dkg.DBState {
	s := dkg.NewFreshState(beaconID)
	s.Epoch, s.State, s.Threshold, s.SchemeID = epoch, st, 2, w.sch.Name
	s.GenesisTime, s.Timeout = time.Unix(1700000000, 0).UTC(), time.Unix(1800000000, 0).UTC()
	s.BeaconPeriod, s.CatchupPeriod = 3*time.Second, 1500*time.Millisecond
	for _, p := range w.pairs {
		part, _ := util.PublicKeyAsParticipant(p.Public)
		if epoch == 1 {
			s.Joining = append(s.Joining, part)
		} else {
			s.Remaining = append(s.Remaining, part)
		}
		s.Acceptors = append(s.Acceptors, part)
	}
	s.Leader = s.Acceptors[0]
	if groupEpoch > 0 {
		s.FinalGroup = w.groups[groupEpoch]
		s.GenesisSeed = w.groups[groupEpoch].GenesisSeed
	}
	if shareEpoch > 0 {
		s.KeyShare = w.shares[shareEpoch]
	}
	return s
}

// ---------------------------------------------------------------------------------------------
// Coq terms

type drec struct {
	epoch, status, group, share int
}

func (d drec) coq() string {
	return fmt.Sprintf("(mkD %d %d %s %s)", d.epoch, d.status, emit.Z(int64(d.group)), emit.Z(int64(d.share)))
}

func optDrec(d *drec) string {
	if d == nil {
		return "None"
	}
	return "(Some " + d.coq() + ")"
}

type fload struct {
	class string // ok err panic other
	epoch int
}

func (f fload) coq() string {
	if f.class == "ok" {
		return fmt.Sprintf("(LOk %d)", f.epoch)
	}
	return "LErr"
}

// obs is what fresh objects load from one snapshot.
type obs struct {
	rounds   []uint64
	sigOf    map[uint64]int64 // round -> signature id of the reloaded beacon
	resumed  bool             // a fresh append store accepted round last+1
	fin, cur *drec
	finWhole bool
	group    fload
	share    fload
	match    string // "ok" | "mismatch" | "n/a": g^share vs the group's polynomial at the share index
	restart  string // Coq term
	gPresent bool
	sPresent bool
}

func (o obs) coqTail() string {
	rs := make([]string, len(o.rounds))
	for i, r := range o.rounds {
		rs[i] = emit.U(r)
	}
	return fmt.Sprintf("%s %s %s %s %s %s", emit.List(rs), optDrec(o.fin), optDrec(o.cur), o.group.coq(), o.share.coq(), o.restart)
}

// ---------------------------------------------------------------------------------------------
// the node under test: real stores, with a recording wrapper around the key store

type node struct {
	w      *world
	dir    string // config folder
	dst    *dkg.BoltStore
	fstore key.Store
	ks     *recStore
	bp     *core.BeaconProcess
	raw    chain.Store
	app    chain.Store
	ops    []string // model operations issued so far (Coq terms)
	snaps  []*snapshot
	snapN  int
	root   string
	stored []uint64 // rounds whose Put returned nil
	last   *common.Beacon
	// the current lifetime of the append store: head at its creation, beacons offered, rounds stored
	attHead     string
	attOffered  []string
	attAccepted []string
	// what left the node: beacons the callback registered on the real callback store received
	mu              sync.Mutex
	servedLog       []servedRec
	events          []string // committed writes and hand-overs in the order they happened (Coq cbev terms)
	putLog          []string // human-readable list of the Puts offered so far, with their outcome
	injectErr       bool     // the next write of the underlying store fails
	failedPutServed []string
	hadPair         bool              // storeDKGOutput has completed at least once
	blockedSaves    []string          // Saves that failed because of a leftover temporary file
	saveMode        map[string]string // per key file: how the last Save put it on disk ("rename" | "in-place")
	resetOrder      []string          // the order in which Reset removed the two files
}

type servedRec struct {
	Round uint64 `json:"round"`
	Sig   int64  `json:"signature_id"`
}

var errInjected = errors.New("injected write failure")

// cpStore sits between the scheme store and the bolt store: its Put entry is the crash point
// INSIDE callbackStore.Put / appendStore.Put, before the bolt transaction of the beacon.
type cpStore struct {
	chain.Store
	n *node
}

func (c *cpStore) Put(ctx context.Context, b *common.Beacon) error {
	n := c.n
	// a hand-over made before this write reaches the callback's worker within this time
	n.waitServed(n.servedCount()+1, 150*time.Millisecond)
	n.snap(fmt.Sprintf("inside-put-%d", b.Round), "inside-put", "")
	if n.injectErr {
		n.injectErr = false
		return errInjected
	}
	err := c.Store.Put(ctx, b)
	if err == nil {
		n.mu.Lock()
		n.events = append(n.events, fmt.Sprintf("CWrite (mkB %d %d 0)", b.Round, n.w.sigID(b.Signature)))
		n.mu.Unlock()
	}
	return err
}

func (n *node) servedCount() int {
	n.mu.Lock()
	defer n.mu.Unlock()
	return len(n.servedLog)
}

// waitServed waits until the callback has received at least k beacons, or the time is over.
func (n *node) waitServed(k int, d time.Duration) bool {
	deadline := time.Now().Add(d)
	for n.servedCount() < k {
		if time.Now().After(deadline) {
			return false
		}
		time.Sleep(time.Millisecond)
	}
	return true
}

type snapshot struct {
	name   string
	dir    string
	run    []string
	cp     string      // Coq crash point
	kind   string      // after | before-write | torn | half-reset
	expect string      // class the model predicts for this point ("" = consistent)
	served []servedRec // what the callback had received when the snapshot was taken
	puts   []string    // the Puts offered up to then
	// a complete (group, share) pair of an earlier epoch had been written before this point
	hadPair bool
}

// recStore wraps the real file key store; every mutating call is followed by a snapshot.
type recStore struct {
	key.Store
	n *node
}

func (r *recStore) SaveGroup(g *key.Group) error {
	e := r.n.w.groupEpoch(g)
	return r.n.fileSave("KGroup", e, key.GroupFilePath(r.Store), func() error { return r.Store.SaveGroup(g) })
}

func (r *recStore) SaveShare(s *key.Share) error {
	e := r.n.w.shareEpoch(s)
	p := filepath.Join(filepath.Dir(key.GroupFilePath(r.Store)), "dist_key.private")
	return r.n.fileSave("KShare", e, p, func() error { return r.Store.SaveShare(s) })
}

func (r *recStore) Reset() error {
	n := r.n
	before := n.snap("before-reset", "after", "")
	gp := key.GroupFilePath(r.Store)
	sp := filepath.Join(filepath.Dir(gp), "dist_key.private")
	tr, err := traceDir(filepath.Dir(gp))
	if err != nil {
		return err
	}
	err = r.Store.Reset()
	evs := tr.stop()
	if err != nil {
		return err
	}
	_, gErr := os.Stat(gp)
	_, sErr := os.Stat(sp)
	if gErr == nil || sErr == nil {
		return fmt.Errorf("Reset left a file behind")
	}
	// the order of the two removals, as the kernel saw them (when the files did not exist there is
	// nothing to see and the order does not matter)
	order := []string{"KGroup", "KShare"}
	for _, e := range evs {
		if e.Kind == "delete" && (e.Name == filepath.Base(gp) || e.Name == filepath.Base(sp)) {
			if e.Name == filepath.Base(sp) {
				order = []string{"KShare", "KGroup"}
			}
			break
		}
	}
	n.resetOrder = order
	first := gp
	if order[0] == "KShare" {
		first = sp
	}
	// the intermediate state: the first removal done, the second not. Built from the snapshot taken
	// before the call.
	half, err := copyTree(n.root, before.dir, fmt.Sprintf("%03d-half-reset", n.snapN))
	if err != nil {
		return err
	}
	n.snapN++
	rel, _ := filepath.Rel(n.dir, first)
	if err := os.Remove(filepath.Join(half, rel)); err != nil && !errors.Is(err, iofs.ErrNotExist) {
		return err
	}
	n.ops = append(n.ops, "PFileRemove "+order[0])
	n.snaps = append(n.snaps, &snapshot{name: "reset/first-file-removed(" + order[0] + ")", dir: half, run: append([]string{}, n.ops...), cp: fmt.Sprintf("(CAfter %d)", len(n.ops)), kind: "half-reset", hadPair: n.hadPair})
	n.ops = append(n.ops, "PFileRemove "+order[1])
	n.snap("reset/done", "after", "")
	return nil
}

// fileSave runs one real Save of a key-store file and records the crash points around it.
func (n *node) fileSave(kf string, epoch int, path string, do func() error) error {
	before := n.snaps[len(n.snaps)-1]
	// what a Save that died half-way through an earlier attempt leaves behind: a cut temporary file.
	// It must be harmless: ignored by every loader, taken over by the next Save.
	stale := path + ".tmp"
	if err := os.WriteFile(stale, []byte("Thr"), 0o666); err != nil {
		return err
	}
	tr, err := traceDir(filepath.Dir(path))
	if err != nil {
		return err
	}
	err = do()
	evs := tr.stop()
	if err != nil {
		if _, e := os.Lstat(stale); e != nil {
			return err
		}
		// the leftover of an earlier crashed Save made this Save fail: that is the finding; take the
		// operator's part (remove it) and go on, so that the rest of the history is still examined
		n.blockedSaves = append(n.blockedSaves, fmt.Sprintf("Save of %s (epoch %d) with a cut %s left by an earlier crash: %s", filepath.Base(path), epoch, filepath.Base(stale), errClass(err)))
		_ = os.Remove(stale)
		tr, err = traceDir(filepath.Dir(path))
		if err != nil {
			return err
		}
		err = do()
		evs = tr.stop()
		if err != nil {
			return err
		}
	}
	content, err := os.ReadFile(path)
	if err != nil {
		return err
	}
	base := filepath.Base(path)
	// how did the text get there? renamed into place from a file written aside, or written in place
	tmpName := ""
	for _, e := range evs {
		if e.Kind == "moved-to" && e.Name == base {
			for _, f := range evs {
				if f.Kind == "moved-from" && f.Cookie == e.Cookie {
					tmpName = f.Name
				}
			}
		}
	}
	if _, err := os.Stat(stale); err == nil {
		if tmpName == base+".tmp" {
			return fmt.Errorf("Save renamed %s into place but it is still there", stale)
		}
		_ = os.Remove(stale) // not used by this Save: not part of the next snapshots
	}
	rel, _ := filepath.Rel(n.dir, path)
	mk := func(tag, kind, cp, fileRel string, data []byte) error {
		d, err := copyTree(n.root, before.dir, fmt.Sprintf("%03d-%s", n.snapN, tag))
		if err != nil {
			return err
		}
		n.snapN++
		if err := os.MkdirAll(filepath.Dir(filepath.Join(d, fileRel)), 0o700); err != nil {
			return err
		}
		if err := os.WriteFile(filepath.Join(d, fileRel), data, 0o600); err != nil {
			return err
		}
		n.snaps = append(n.snaps, &snapshot{name: tag, dir: d, run: append([]string{}, n.ops...), cp: cp, kind: kind, hadPair: n.hadPair})
		return nil
	}
	tag := fmt.Sprintf("save-%s-e%d", kf, epoch)
	if tmpName != "" {
		// written aside, then renamed: the crash points are on the temporary file, the target keeps its
		// previous content until the rename
		n.saveMode[kf] = "rename"
		tmpRel := filepath.Join(filepath.Dir(rel), tmpName)
		n.ops = append(n.ops, "PTmpCreate "+kf)
		if err := mk(tag+"/temp-created-empty", "temp-before-write", fmt.Sprintf("(CAfter %d)", len(n.ops)), tmpRel, nil); err != nil {
			return err
		}
		n.ops = append(n.ops, fmt.Sprintf("PTmpWrite %s %d", kf, epoch))
		if err := mk(tag+"/temp-torn-3-bytes", "temp-torn", fmt.Sprintf("(CTorn %d)", len(n.ops)-1), tmpRel, content[:3]); err != nil {
			return err
		}
		if err := mk(tag+"/temp-torn-half", "temp-torn", fmt.Sprintf("(CTorn %d)", len(n.ops)-1), tmpRel, content[:len(content)/2]); err != nil {
			return err
		}
		if err := mk(tag+"/temp-complete-not-renamed", "temp-complete", fmt.Sprintf("(CAfter %d)", len(n.ops)), tmpRel, content); err != nil {
			return err
		}
		n.ops = append(n.ops, fmt.Sprintf("PFileRename %s %d", kf, epoch))
		n.snap(tag+"/renamed", "after", "")
		return nil
	}
	// written in place: os.Create (create or truncate), then the encoder's write
	n.saveMode[kf] = "in-place"
	n.ops = append(n.ops, "PFileCreate "+kf)
	if err := mk(tag+"/created-empty", "before-write", fmt.Sprintf("(CAfter %d)", len(n.ops)), rel, nil); err != nil {
		return err
	}
	// torn write: the text cut inside its first token
	n.ops = append(n.ops, fmt.Sprintf("PFileWrite %s %d", kf, epoch))
	if err := mk(tag+"/torn-3-bytes", "torn", fmt.Sprintf("(CTorn %d)", len(n.ops)-1), rel, content[:3]); err != nil {
		return err
	}
	n.snap(tag+"/written", "after", "")
	return nil
}

// filesAheadHistory is run only when the real DKG showed that executeAndFinishDKG hands the output
// over BEFORE it commits the epoch to dkg.db. It plays that order on the real stores - staged
// Executing, the beacon process's storeDKGOutput, and only then SaveFinished - for a first DKG and
// for a resharing, and examines the crash point in between: "output delivered and stored by the
// beacon process, SaveFinished not yet committed" (the key files are AHEAD of the database; the
// listed finding is the opposite, the database ahead of the files).
func filesAheadHistory(rep *emit.Report, w *world, root string, add func(l, d string, nontrivial bool)) error {
	n, err := newNode(w, root)
	if err != nil {
		return err
	}
	defer n.close()
	ctx := context.Background()
	var tx []int64
	n.snap("fresh", "after", "")
	gen := chain.GenesisBeacon(w.groups[1].GenesisSeed)
	if err := n.raw.Put(ctx, gen); err != nil {
		return err
	}
	n.ops = append(n.ops, fmt.Sprintf("PBeaconTx (mkB 0 %d 0)", w.sigID(gen.Signature)))
	var points []*snapshot
	for e := 1; e <= 2; e++ {
		if err := n.saveCurrent(w.state(uint32(e), dkg.Executing, e-1, e-1), drec{e, int(dkg.Executing), e - 1, e - 1}, &tx); err != nil {
			return err
		}
		if err := n.bp.VerifCrashStoreDKGOutput(ctx, w.groups[e], w.shares[e]); err != nil {
			return err
		}
		n.hadPair = true
		s := n.snaps[len(n.snaps)-1]
		s.name = fmt.Sprintf("epoch-%d/output-stored-by-the-beacon-process,SaveFinished-not-yet-committed", e)
		points = append(points, s)
		if err := n.saveFinished(w.state(uint32(e), dkg.Complete, e, e), drec{e, int(dkg.Complete), e, e}, &tx); err != nil {
			return err
		}
	}
	for _, s := range points {
		o, err := w.reload(s, root)
		if err != nil {
			return err
		}
		out, err := w.daemonRestart(s, root)
		if err != nil {
			return err
		}
		add(fmt.Sprintf("Snap %s %s %s", emit.List(s.run), s.cp, o.coqTail()), w.sch.Name+" "+s.name, true)
		rep.Count("files-ahead/" + out.Class)
		finEpoch := 0
		if o.fin != nil {
			finEpoch = o.fin.epoch
		}
		if o.group.class == "ok" && o.group.epoch > finEpoch {
			what := fmt.Sprintf("process died at %q: group file and share are epoch %d, dkg.db records epoch %d as completed (staged: %s); a real daemon started there: %s", s.name, o.group.epoch, finEpoch, optDrec(o.cur), out.Class)
			if o.fin == nil {
				what += " - with no completed record at all the start-up takes the v1 MIGRATION path (group file without DKG record) and writes an epoch-1 record of its own"
			}
			rep.Fail("C13-key-files-ahead-of-dkg-database", what,
				map[string]interface{}{"scheme": w.sch.Name, "crash_point": s.name, "dkg_db_finished": optDrec(o.fin), "dkg_db_current": optDrec(o.cur),
					"group_file": o.group, "share_file": o.share, "restart_decision": o.restart, "real_daemon_LoadBeaconFromStore": out})
		}
	}
	return nil
}

// joinerSnapshot builds, with the real DKG store, the folder of a node that was invited into a
// resharing (epoch 2), recorded Joined, and died: key pair, dkg.db with a staged record only.
func (n *node) joinerSnapshot() error {
	var fresh *snapshot
	for _, s := range n.snaps {
		if s.name == "fresh" {
			fresh = s
		}
	}
	if fresh == nil {
		return errors.New("snapshot of the fresh node not found")
	}
	d, err := copyTree(n.root, fresh.dir, fmt.Sprintf("%03d-joiner-of-resharing", n.snapN))
	if err != nil {
		return err
	}
	n.snapN++
	st, err := dkg.NewDKGStore(d)
	if err != nil {
		return err
	}
	if err := st.SaveCurrent(beaconID, n.w.state(2, dkg.Joined, 1, 0)); err != nil {
		return err
	}
	if err := st.Close(); err != nil {
		return err
	}
	run := append(append([]string{}, fresh.run...), fmt.Sprintf("PDkgTx [(BCurrent, %s)]", drec{2, int(dkg.Joined), 1, 0}.coq()))
	n.snaps = append(n.snaps, &snapshot{name: "joiner-of-resharing/joined-recorded", dir: d, run: run, cp: fmt.Sprintf("(CAfter %d)", len(run)), kind: "after"})
	return nil
}

// daemonRestarts starts a real daemon on the snapshots of the first key generation (before it, at
// each staged state, right after the database commit, after the files are written) and on the
// joiner's: what `drand start` does there is compared with the model, and a node that never
// completed a DKG and has no key files must come up waiting for one, not be refused.
func daemonRestarts(rep *emit.Report, w *world, n *node, root string, add func(l, d string, nontrivial bool)) error {
	want := map[string]bool{"fresh": true, "dkg-save-current-e1-s1": true, "dkg-save-current-e1-s9": true, "dkg-save-current-e1-s6": true,
		"dkg-save-finished-e1": true, "save-KShare-e1/renamed": true, "save-KShare-e1/written": true, "joiner-of-resharing/joined-recorded": true}
	type res struct {
		s   *snapshot
		out daemonOutcome
		o   obs
		err error
	}
	var sel []*res
	for _, s := range n.snaps {
		if want[s.name] {
			sel = append(sel, &res{s: s})
		}
	}
	if len(sel) < 6 {
		return fmt.Errorf("daemon restarts: only %d of the expected snapshots exist", len(sel))
	}
	var wg sync.WaitGroup
	for _, r := range sel {
		wg.Add(1)
		go func(r *res) {
			defer wg.Done()
			if r.o, r.err = w.reload(r.s, root+"/dr"); r.err != nil {
				return
			}
			r.out, r.err = w.daemonRestart(r.s, root)
		}(r)
	}
	wg.Wait()
	for _, r := range sel {
		if r.err != nil {
			return fmt.Errorf("daemon restart on %s: %w", r.s.name, r.err)
		}
		add(fmt.Sprintf("DaemonRestart %s %s %s", emit.List(r.s.run), r.s.cp, r.out.coq()), fmt.Sprintf("%s real daemon started on %s", w.sch.Name, r.s.name), true)
		rep.Count("daemon-restart/" + r.out.Class)
		if r.o.fin == nil && !r.o.gPresent && !r.o.sPresent && r.out.Class != "fresh" {
			rep.Fail("C13-restart-refused-after-crash-in-first-dkg",
				fmt.Sprintf("process died at %q (dkg.db: no completed record, staged record %s; no group file, no share): a real daemon started on that folder does not come up waiting for a DKG: LoadBeaconFromStore -> %s (%s), so `drand start` exits on every restart",
					r.s.name, optDrec(r.o.cur), r.out.Class, r.out.Err),
				map[string]interface{}{"scheme": w.sch.Name, "crash_point": r.s.name, "dkg_db_current": optDrec(r.o.cur), "dkg_db_finished": optDrec(r.o.fin),
					"group_file_present": r.o.gPresent, "share_file_present": r.o.sPresent, "LoadBeaconFromStore": r.out})
		}
	}
	return nil
}

// errClass projects an error of the key store on what matters here (never its text).
func errClass(err error) string {
	switch {
	case err == nil:
		return "ok"
	case errors.Is(err, iofs.ErrExist):
		return "error: file exists"
	case errors.Is(err, iofs.ErrNotExist):
		return "error: no such file"
	case errors.Is(err, iofs.ErrPermission):
		return "error: permission"
	}
	return "error: other"
}

// laterSave: the process died at this snapshot and was restarted; later the NEXT DKG output is
// stored in the same key folder by a fresh key store (what storeDKGOutput does) and read back.
func (w *world) laterSave(s *snapshot, root string, epoch int) (g, sh fload, gErr, sErr error, leftovers []string, err error) {
	work, err := copyTree(root, s.dir, "later-"+filepath.Base(s.dir))
	if err != nil {
		return g, sh, nil, nil, nil, err
	}
	defer os.RemoveAll(work)
	mb := filepath.Join(work, common.MultiBeaconFolder)
	_ = filepath.WalkDir(mb, func(p string, d iofs.DirEntry, e error) error {
		if e == nil && !d.IsDir() && strings.Contains(d.Name(), ".tmp") {
			leftovers = append(leftovers, d.Name())
		}
		return nil
	})
	store := key.NewFileStore(mb, beaconID)
	if guard(func() { gErr = store.SaveGroup(w.groups[epoch]) }) {
		gErr = errors.New("panic")
	}
	if guard(func() { sErr = store.SaveShare(w.shares[epoch]) }) {
		sErr = errors.New("panic")
	}
	g, _ = w.loadGroup(mb)
	sh, _ = w.loadShare(mb)
	return g, sh, gErr, sErr, leftovers, nil
}

func copyTree(root, src, name string) (string, error) {
	dst := filepath.Join(root, "snap", strings.ReplaceAll(name, "/", "_"))
	err := filepath.WalkDir(src, func(p string, d iofs.DirEntry, err error) error {
		if err != nil {
			return err
		}
		rel, _ := filepath.Rel(src, p)
		if d.IsDir() {
			return os.MkdirAll(filepath.Join(dst, rel), 0o740)
		}
		b, err := os.ReadFile(p)
		if err != nil {
			return err
		}
		return os.WriteFile(filepath.Join(dst, rel), b, 0o600)
	})
	return dst, err
}

// snap copies the config folder as it is now (crash after the last persistence call).
func (n *node) snap(name, kind, expect string) *snapshot {
	d, err := copyTree(n.root, n.dir, fmt.Sprintf("%03d-%s", n.snapN, name))
	n.snapN++
	if err != nil {
		panic(err)
	}
	s := &snapshot{name: name, dir: d, run: append([]string{}, n.ops...), cp: fmt.Sprintf("(CAfter %d)", len(n.ops)), kind: kind, expect: expect, hadPair: n.hadPair}
	n.mu.Lock()
	s.served = append([]servedRec{}, n.servedLog...)
	s.puts = append([]string{}, n.putLog...)
	n.mu.Unlock()
	n.snaps = append(n.snaps, s)
	return s
}

func newNode(w *world, root string) (*node, error) {
	n := &node{w: w, root: root, dir: filepath.Join(root, "live"), saveMode: map[string]string{}}
	ctx := context.Background()
	var err error
	if n.dst, err = dkg.NewDKGStore(n.dir); err != nil {
		return nil, err
	}
	mb := filepath.Join(n.dir, common.MultiBeaconFolder)
	n.fstore = key.NewFileStore(mb, beaconID)
	if err := n.fstore.SaveKeyPair(w.pairs[0]); err != nil {
		return nil, err
	}
	n.ks = &recStore{Store: n.fstore, n: n}
	n.bp, err = core.NewBeaconProcess(ctx, w.log, n.ks, util.NewFanOutChan[dkg.SharingOutput](), beaconID,
		core.NewConfig(w.log, core.WithConfigFolder(n.dir)), nil)
	if err != nil {
		return nil, err
	}
	dbFolder := filepath.Join(mb, beaconID, "db")
	dfs.CreateSecureFolder(dbFolder)
	if n.raw, err = boltdb.NewBoltStore(ctx, w.log, dbFolder); err != nil {
		return nil, err
	}
	return n, nil
}

func (n *node) close() {
	if n.raw != nil {
		_ = n.raw.Close()
	}
	if n.dst != nil {
		_ = n.dst.Close()
	}
}

func drecOf(w *world, s *dkg.DBState) *drec {
	if s == nil || (s.State == dkg.Fresh && s.Epoch == 0) {
		return nil
	}
	return &drec{epoch: int(s.Epoch), status: int(s.State), group: w.groupEpoch(s.FinalGroup), share: w.shareEpoch(s.KeyShare)}
}

// ---------------------------------------------------------------------------------------------
// reload of one snapshot with fresh objects

type ident struct{ kp *key.Pair }

func (i ident) KeypairFor(string) (*key.Pair, error) { return i.kp, nil }

func guard(f func()) (panicked bool) {
	defer func() {
		if r := recover(); r != nil {
			panicked = true
		}
	}()
	f()
	return false
}

func (w *world) loadGroup(mb string) (fload, *key.Group) {
	var g *key.Group
	var err error
	if guard(func() { g, err = key.NewFileStore(mb, beaconID).LoadGroup() }) {
		return fload{class: "panic"}, nil
	}
	if err != nil || g == nil {
		return fload{class: "err"}, nil
	}
	if e := w.groupEpoch(g); e > 0 {
		return fload{class: "ok", epoch: e}, g
	}
	return fload{class: "other"}, g
}

func (w *world) loadShare(mb string) (fload, *key.Share) {
	var s *key.Share
	var err error
	if guard(func() { s, err = key.NewFileStore(mb, beaconID).LoadShare() }) {
		return fload{class: "panic"}, nil
	}
	if err != nil || s == nil || s.Share == nil {
		return fload{class: "err"}, nil
	}
	if e := w.shareEpoch(s); e > 0 {
		return fload{class: "ok", epoch: e}, s
	}
	return fload{class: "other"}, s
}

// reload opens a private copy of the snapshot the way a restarted daemon does.
func (w *world) reload(s *snapshot, root string) (obs, error) {
	var o obs
	ctx := context.Background()
	work, err := copyTree(root, s.dir, "work-"+filepath.Base(s.dir))
	if err != nil {
		return o, err
	}
	defer os.RemoveAll(work)
	mb := filepath.Join(work, common.MultiBeaconFolder)
	// chain database: cursor scan, Last through a fresh append store, and the next round
	dbFolder := filepath.Join(mb, beaconID, "db")
	st, err := boltdb.NewBoltStore(ctx, w.log, dbFolder)
	if err != nil {
		return o, fmt.Errorf("reopen chain db: %w", err)
	}
	var lastB *common.Beacon
	err = st.Cursor(ctx, func(ctx context.Context, c chain.Cursor) error {
		for b, err := c.First(ctx); err == nil && b != nil; b, err = c.Next(ctx) {
			o.rounds = append(o.rounds, b.Round)
			if o.sigOf == nil {
				o.sigOf = map[uint64]int64{}
			}
			o.sigOf[b.Round] = w.sigID(b.Signature)
			lastB = b
		}
		return nil
	})
	if err != nil {
		return o, err
	}
	if lastB != nil {
		ss, err := beacon.NewSchemeStore(ctx, st, w.sch)
		if err == nil {
			as, err := beacon.VerifCrashNewAppendStore(ctx, ss)
			if err == nil {
				nb := &common.Beacon{Round: lastB.Round + 1, Signature: []byte(fmt.Sprintf("resume-%d-%s", lastB.Round+1, strings.Repeat("x", 40))), PreviousSig: lastB.Signature}
				o.resumed = as.Put(ctx, nb) == nil
			}
		}
	}
	_ = st.Close()
	// DKG database
	dst, err := dkg.NewDKGStore(work)
	if err != nil {
		return o, fmt.Errorf("reopen dkg db: %w", err)
	}
	fin, err := dst.GetFinished(beaconID)
	if err != nil {
		return o, err
	}
	cur, err := dst.GetCurrent(beaconID)
	if err != nil {
		return o, err
	}
	o.fin, o.cur = drecOf(w, fin), drecOf(w, cur)
	if fin != nil {
		o.finWhole = fin.State == dkg.Complete && fin.FinalGroup != nil && fin.KeyShare != nil &&
			fin.FinalGroup.PublicKey != nil && fin.FinalGroup.PublicKey.Equal(fin.KeyShare.Public()) &&
			w.groupEpoch(fin.FinalGroup) == int(fin.Epoch) && w.shareEpoch(fin.KeyShare) == int(fin.Epoch)
	}
	// key store files
	gp := filepath.Join(mb, beaconID, key.GroupFolderName, "drand_group.toml")
	sp := filepath.Join(mb, beaconID, key.GroupFolderName, "dist_key.private")
	_, e1 := os.Stat(gp)
	_, e2 := os.Stat(sp)
	o.gPresent, o.sPresent = e1 == nil, e2 == nil
	var g *key.Group
	var sh *key.Share
	o.group, g = w.loadGroup(mb)
	o.share, sh = w.loadShare(mb)
	o.match = "n/a"
	if g != nil && sh != nil && g.PublicKey != nil && len(g.PublicKey.Coefficients) > 0 {
		o.match = "mismatch"
		guard(func() {
			pp := g.PublicKey.PubPoly(w.sch)
			if pp.Eval(sh.Share.I).V.Equal(w.sch.KeyGroup.Point().Mul(sh.Share.V, nil)) {
				o.match = "ok"
			}
		})
	}
	// the restart decision of DrandDaemon.LoadBeaconFromStore, on the real objects
	proc := dkg.NewDKGProcess(dst, ident{w.pairs[0]}, util.NewFanOutChan[dkg.SharingOutput](), nil, nil, dkg.Config{}, w.log)
	defer proc.Close()
	status, err := proc.DKGStatus(ctx, &pdkg.DKGStatusRequest{BeaconID: beaconID})
	if err != nil {
		return o, err
	}
	store := key.NewFileStore(mb, beaconID)
	bp, err := core.NewBeaconProcess(ctx, w.log, store, util.NewFanOutChan[dkg.SharingOutput](), beaconID, core.NewConfig(w.log, core.WithConfigFolder(work)), nil)
	if err != nil {
		return o, err
	}
	load := func() string {
		var lerr error
		if guard(func() { lerr = bp.Load(ctx) }) {
			return "RFailNoGroup (* panic *)"
		}
		switch {
		case lerr == nil:
			lg, ls := bp.VerifCrashLoaded()
			return fmt.Sprintf("(RRunning %s %s)", emit.Z(int64(w.groupEpoch(lg))), emit.Z(int64(w.shareEpoch(ls))))
		case errors.Is(lerr, core.ErrDKGNotStarted):
			return "RFailNoGroup"
		default:
			return "RFailShare"
		}
	}
	if status.Complete == nil {
		var fg *key.Group
		var ferr error
		pan := guard(func() { fg, ferr = store.LoadGroup() })
		switch {
		case pan || (ferr != nil && !errors.Is(ferr, iofs.ErrNotExist)):
			o.restart = "RFailFreshDecode"
		case fg == nil:
			o.restart = "RFresh"
		default:
			if _, err := store.LoadShare(); err != nil {
				o.restart = "RFailShare"
			} else {
				o.restart = load()
			}
		}
	} else {
		o.restart = load()
	}
	return o, nil
}

// ---------------------------------------------------------------------------------------------

func (n *node) saveCurrent(st *dkg.DBState, d drec, txs *[]int64) error {
	t0 := n.dst.VerifCrashWriteTxN()
	if err := n.dst.SaveCurrent(beaconID, st); err != nil {
		return err
	}
	*txs = append(*txs, n.dst.VerifCrashWriteTxN()-t0)
	n.ops = append(n.ops, fmt.Sprintf("PDkgTx [(BCurrent, %s)]", d.coq()))
	n.snap(fmt.Sprintf("dkg-save-current-e%d-s%d", d.epoch, d.status), "after", "")
	return nil
}

func (n *node) saveFinished(st *dkg.DBState, d drec, txs *[]int64) error {
	t0 := n.dst.VerifCrashWriteTxN()
	if err := n.dst.SaveFinished(beaconID, st); err != nil {
		return err
	}
	*txs = append(*txs, n.dst.VerifCrashWriteTxN()-t0)
	n.ops = append(n.ops, fmt.Sprintf("PDkgTx [(BFinished, %s); (BCurrent, %s)]", d.coq(), d.coq()))
	n.snap(fmt.Sprintf("dkg-save-finished-e%d", d.epoch), "after", "")
	return nil
}

// put sends one beacon through the real append/scheme store stack over the bolt store.
func (n *node) put(b *common.Beacon, txs *[]int64, fault bool) (bool, error) {
	ctx := context.Background()
	if n.app == nil {
		// the store stack of a running node (chainstore.go), on the real bolt store:
		// callbackStore(appendStore(schemeStore([crash point] bolt))), with one subscriber registered
		// the way PublicRandStream / SyncChain register theirs
		ss, err := beacon.NewSchemeStore(ctx, &cpStore{Store: n.raw, n: n}, n.w.sch)
		if err != nil {
			return false, err
		}
		as, err := beacon.VerifCrashNewAppendStore(ctx, ss)
		if err != nil {
			return false, err
		}
		cbs := beacon.NewCallbackStore(n.w.log, as)
		cbs.AddCallback("verif-stream-client", func(sb *common.Beacon, closed bool) {
			if closed || sb == nil {
				return
			}
			n.mu.Lock()
			id := n.w.sigID(sb.Signature)
			n.servedLog = append(n.servedLog, servedRec{sb.Round, id})
			n.events = append(n.events, fmt.Sprintf("CServe (mkB %d %d 0)", sb.Round, id))
			n.mu.Unlock()
		})
		n.app = cbs
	}
	bterm := func(x *common.Beacon) string {
		n.mu.Lock()
		defer n.mu.Unlock()
		prev := n.w.sigID(x.PreviousSig)
		return fmt.Sprintf("(mkB %d %d %d)", x.Round, n.w.sigID(x.Signature), prev)
	}
	if n.attHead == "" {
		n.attHead = bterm(n.last)
	}
	desc := bterm(b)
	if fault {
		n.injectErr = true // an environment fault, not part of the model's Put list
	} else {
		n.attOffered = append(n.attOffered, desc)
	}
	n.mu.Lock()
	n.putLog = append(n.putLog, fmt.Sprintf("Put round %d %s -> in flight", b.Round, desc))
	li := len(n.putLog) - 1
	n.mu.Unlock()
	servedBefore := n.servedCount()
	t0 := boltdb.VerifCrashWriteTxN(n.raw)
	err := n.app.Put(ctx, b)
	dt := boltdb.VerifCrashWriteTxN(n.raw) - t0
	if err != nil {
		class := "refused"
		if errors.Is(err, errInjected) {
			class = "underlying write failed"
		} else if errors.Is(err, beacon.ErrBeaconAlreadyStored) {
			class = "refused: already stored"
		}
		n.mu.Lock()
		n.putLog[li] = fmt.Sprintf("Put round %d %s -> %s", b.Round, desc, class)
		n.mu.Unlock()
		if dt != 0 {
			return false, fmt.Errorf("a rejected Put started %d write transactions", dt)
		}
		// nothing may reach the callbacks from a Put that failed
		if n.waitServed(servedBefore+1, 150*time.Millisecond) {
			n.failedPutServed = append(n.failedPutServed, fmt.Sprintf("Put round %d %s (%s)", b.Round, desc, class))
		}
		return false, nil
	}
	n.mu.Lock()
	n.putLog[li] = fmt.Sprintf("Put round %d %s -> stored", b.Round, desc)
	n.mu.Unlock()
	*txs = append(*txs, dt)
	n.attAccepted = append(n.attAccepted, emit.U(b.Round))
	n.stored = append(n.stored, b.Round)
	n.last = b
	// the hand-over of a stored beacon is asynchronous: wait for it so that the order of events is the code's
	n.waitServed(servedBefore+1, 10*time.Second)
	n.mu.Lock()
	prev := n.w.sigID(b.PreviousSig)
	if n.w.sch.Name != crypto.DefaultSchemeID {
		prev = 0 // schemeStore drops the previous signature for unchained schemes
	}
	n.ops = append(n.ops, fmt.Sprintf("PBeaconTx (mkB %d %d %d)", b.Round, n.w.sigID(b.Signature), prev))
	n.mu.Unlock()
	n.snap(fmt.Sprintf("beacon-%d", b.Round), "after", "")
	return true, nil
}

func (n *node) produce(k int, txs *[]int64) error {
	for i := 0; i < k; i++ {
		r := n.last.Round + 1
		sig := make([]byte, 96)
		n.w.rng.Read(sig)
		// attempts the store must refuse: a duplicate of the head and a round that leaves a gap.
		// If the store takes them the run goes on: the monitor sees the hole in the reloaded chain.
		if i == 1 {
			if _, err := n.put(&common.Beacon{Round: n.last.Round, Signature: n.last.Signature, PreviousSig: n.last.PreviousSig}, txs, false); err != nil {
				return err
			}
			if _, err := n.put(&common.Beacon{Round: r + 1, Signature: sig, PreviousSig: n.last.Signature}, txs, false); err != nil {
				return err
			}
			// and a good beacon whose bolt write fails
			fsig := make([]byte, 96)
			n.w.rng.Read(fsig)
			if _, err := n.put(&common.Beacon{Round: n.last.Round + 1, Signature: fsig, PreviousSig: n.last.Signature}, txs, true); err != nil {
				return err
			}
			r = n.last.Round + 1
			sig = make([]byte, 96)
			n.w.rng.Read(sig)
		}
		if _, err := n.put(&common.Beacon{Round: r, Signature: sig, PreviousSig: n.last.Signature}, txs, false); err != nil {
			return err
		}
	}
	return nil
}

// Run is the engine entry point ("crash").
func Run(outDir string, seed int64, tier string) error {
	rep := emit.NewReport("crash", seed, tier)
	schemes := []string{crypto.DefaultSchemeID}
	if tier == "thorough" {
		schemes = crypto.ListSchemes()
	}
	var lines, descr []string
	seen := map[string]bool{}
	for si, id := range schemes {
		sch, err := crypto.GetSchemeByID(id)
		if err != nil {
			return err
		}
		root, err := os.MkdirTemp("", "zzv-crash-")
		if err != nil {
			return err
		}
		l, d, err := runScheme(rep, sch, seed+int64(si), root, tier, seen)
		_ = os.RemoveAll(root)
		if err != nil {
			return fmt.Errorf("%s: %w", id, err)
		}
		lines, descr = append(lines, l...), append(descr, d...)
	}
	rep.Rule = "one node's whole persistence history on the real stores (genesis, first DKG output n=3 with dealt shares, 5 rounds incl. a refused duplicate and a refused gap, staged + completed resharing, 2 rounds, Left + key-store Reset); one snapshot after every persistence call plus, for every file save, the created-empty and torn variants and, for Reset, the half-done variant; each reloaded with fresh objects. distinct = distinct (crash point, reloaded observation); non-trivial = the snapshot holds at least one beacon or DKG record. M sweep: every byte-prefix of the group and share text of the resharing, placed where the observed Save would leave it (the temporary file next to the intact target; the target itself if Save were to write in place)."
	if err := rep.Shard(outDir, "cases_crash", []string{"From DV Require Import Model.Crash Corr.CrashCorr."}, "ccase", "mismatches", lines, descr, 1500); err != nil {
		return err
	}
	return rep.Write(outDir)
}

func runScheme(rep *emit.Report, sch *crypto.Scheme, seed int64, root, tier string, seen map[string]bool) ([]string, []string, error) {
	w, err := newWorld(sch, seed)
	if err != nil {
		return nil, nil, err
	}
	n, err := newNode(w, root)
	if err != nil {
		return nil, nil, err
	}
	defer n.close()
	ctx := context.Background()
	var txCur, txFin, txPut []int64
	n.snap("fresh", "after", "")
	// genesis beacon, as NewHandler stores it
	gen := chain.GenesisBeacon(w.groups[1].GenesisSeed)
	if err := n.raw.Put(ctx, gen); err != nil {
		return nil, nil, err
	}
	n.last = gen
	n.stored = append(n.stored, 0)
	n.ops = append(n.ops, fmt.Sprintf("PBeaconTx (mkB 0 %d 0)", w.sigID(gen.Signature)))
	n.snap("genesis", "after", "")
	chainOps0 := len(n.ops)
	var events []string
	// ---- first DKG (epoch 1) ----
	// the staged states a node goes through before its first DKG completes: each is a SaveCurrent
	for _, st := range []dkg.Status{dkg.Proposed, dkg.Joined, dkg.Executing} {
		sd := drec{1, int(st), 0, 0}
		if err := n.saveCurrent(w.state(1, st, 0, 0), sd, &txCur); err != nil {
			return nil, nil, err
		}
		events = append(events, "EvStage "+sd.coq())
	}
	r1 := drec{1, int(dkg.Complete), 1, 1}
	if err := n.saveFinished(w.state(1, dkg.Complete, 1, 1), r1, &txFin); err != nil {
		return nil, nil, err
	}
	if err := n.bp.VerifCrashStoreDKGOutput(ctx, w.groups[1], w.shares[1]); err != nil {
		return nil, nil, err
	}
	n.hadPair = true
	events = append(events, "EvComplete "+r1.coq())
	// ---- production ----
	var chainOps []string
	mark := len(n.ops)
	if err := n.produce(5, &txPut); err != nil {
		return nil, nil, err
	}
	chainOps = append(chainOps, n.ops[mark:]...)
	// ---- resharing (epoch 2) ----
	s2 := drec{2, int(dkg.Executing), 1, 1}
	if err := n.saveCurrent(w.state(2, dkg.Executing, 1, 1), s2, &txCur); err != nil {
		return nil, nil, err
	}
	events = append(events, "EvStage "+s2.coq())
	r2 := drec{2, int(dkg.Complete), 2, 2}
	if err := n.saveFinished(w.state(2, dkg.Complete, 2, 2), r2, &txFin); err != nil {
		return nil, nil, err
	}
	reshareFrom := len(n.snaps)
	if err := n.bp.VerifCrashStoreDKGOutput(ctx, w.groups[2], w.shares[2]); err != nil {
		return nil, nil, err
	}
	events = append(events, "EvComplete "+r2.coq())
	mark = len(n.ops)
	if err := n.produce(2, &txPut); err != nil {
		return nil, nil, err
	}
	chainOps = append(chainOps, n.ops[mark:]...)
	// ---- leaving ----
	s3 := drec{3, int(dkg.Left), 2, 2}
	if err := n.saveCurrent(w.state(3, dkg.Left, 2, 2), s3, &txCur); err != nil {
		return nil, nil, err
	}
	events = append(events, "EvStage "+s3.coq())
	if err := n.ks.Reset(); err != nil {
		return nil, nil, err
	}
	events = append(events, "EvLeave")
	_ = reshareFrom

	// ---- a new joiner of a resharing that dies after it recorded Joined: no finished record, no files ----
	if err := n.joinerSnapshot(); err != nil {
		return nil, nil, err
	}
	// ---- reload every snapshot: K cases and monitor M ----
	var lines, descr []string
	add := func(l, d string, nontrivial bool) {
		lines = append(lines, l)
		descr = append(descr, l+" (* "+d+" *)")
		rep.Evaluations++
		if !seen[l] {
			seen[l] = true
			if nontrivial {
				rep.DistinctNontrivial++
			}
		}
		rep.Sample(d+": "+l[len(l)-min(len(l), 160):], 8)
	}
	stored := map[string][]uint64{}
	for i, s := range n.snaps {
		o, err := w.reload(s, root)
		if err != nil {
			return nil, nil, fmt.Errorf("reload %s: %w", s.name, err)
		}
		rep.Count("snapshot/" + s.kind)
		add(fmt.Sprintf("Snap %s %s %s", emit.List(s.run), s.cp, o.coqTail()), fmt.Sprintf("%s %s", sch.Name, s.name), len(o.rounds) > 0 || o.fin != nil || o.cur != nil)
		_ = i
		monitor(rep, sch.Name, s, o, stored)
		// ... and after that restart the next DKG output must be storable without operator repair
		// (the snapshots around beacon Puts have the key folder of the snapshot before them)
		if s.kind == "inside-put" || strings.HasPrefix(s.name, "beacon-") {
			continue
		}
		lg, ls, gErr, sErr, left, err := w.laterSave(s, root, 3)
		if err != nil {
			return nil, nil, fmt.Errorf("later save on %s: %w", s.name, err)
		}
		add(fmt.Sprintf("LaterSave %s %s 3 %s %s", emit.List(s.run), s.cp, lg.coq(), ls.coq()), fmt.Sprintf("%s %s, then the output of epoch 3 is stored", sch.Name, s.name), true)
		rep.Count("later-save/" + s.kind)
		if gErr != nil || sErr != nil || lg.class != "ok" || lg.epoch != 3 || ls.class != "ok" || ls.epoch != 3 {
			class := "C13-later-save-after-crash-fails"
			if len(left) > 0 && (errors.Is(gErr, iofs.ErrExist) || errors.Is(sErr, iofs.ErrExist)) {
				class = "C13-leftover-temp-file-blocks-later-save"
			}
			rep.Fail(class, fmt.Sprintf("process died at %q, was restarted, and the next DKG output (epoch 3) could not be stored: SaveGroup %s, SaveShare %s; the key folder then reads back group %s/%d share %s/%d",
				s.name, errClass(gErr), errClass(sErr), lg.class, lg.epoch, ls.class, ls.epoch),
				map[string]interface{}{"scheme": sch.Name, "crash_point": s.name, "kind": s.kind, "files_left_by_the_crash": left,
					"later_SaveGroup": errClass(gErr), "later_SaveShare": errClass(sErr), "group_file_after": lg, "share_file_after": ls})
		}
	}
	// ---- a REAL daemon started on the crash points inside and around the first DKG ----
	if err := daemonRestarts(rep, w, n, root, add); err != nil {
		return nil, nil, err
	}
	for _, b := range n.blockedSaves {
		rep.Fail("C13-leftover-temp-file-blocks-later-save", b, map[string]interface{}{"scheme": sch.Name, "history": "a cut temporary file as a crashed earlier Save leaves it, then this Save on the live node"})
	}
	// the whole history as events, expanded with the shape read from the source
	var last *snapshot
	for _, sn := range n.snaps {
		if sn.name == "reset/done" {
			last = sn
		}
	}
	if last == nil {
		return nil, nil, errors.New("final snapshot of the history not found")
	}
	final, err := w.reload(last, root)
	if err != nil {
		return nil, nil, err
	}
	cops := append(append([]string{}, n.ops[:chainOps0]...), chainOps...)
	add(fmt.Sprintf("Hist %s %s %s", emit.List(cops), emit.List(events), final.coqTail()), sch.Name+" whole history as events", true)
	// the same lifetime seen from outside the callback store: committed writes and hand-overs
	n.mu.Lock()
	evs := append([]string{}, n.events...)
	n.mu.Unlock()
	add(fmt.Sprintf("CbTrace %s %s %s %s", emit.Bool(sch.Name == crypto.DefaultSchemeID), n.attHead, emit.List(n.attOffered), emit.List(evs)),
		sch.Name+" callbackStore: order of committed writes and hand-overs to the callback", true)
	rep.Count("callback/served-beacons")
	for _, f := range n.failedPutServed {
		rep.Fail("C13-callback-served-beacon-whose-put-failed", "a beacon was handed to the registered callback although its Put failed: "+f,
			map[string]interface{}{"scheme": sch.Name, "put": f, "puts_offered": n.putLog})
	}
	if len(n.servedLog) == 0 {
		return nil, nil, errors.New("the registered callback never received a beacon")
	}
	// the append store's decisions over its lifetime
	add(fmt.Sprintf("Attempts %s %s %s %s", emit.Bool(sch.Name == crypto.DefaultSchemeID), n.attHead, emit.List(n.attOffered), emit.List(n.attAccepted)),
		sch.Name+" appendStore/schemeStore decisions", true)
	// write transactions per call
	for _, c := range []struct {
		which int
		v     []int64
		name  string
	}{{0, txCur, "SaveCurrent"}, {1, txFin, "SaveFinished"}, {2, txPut, "beacon Put"}} {
		for _, x := range c.v {
			add(fmt.Sprintf("TxCount %d %d", c.which, x), sch.Name+" write transactions of one "+c.name, true)
			rep.Count("txcount/" + c.name)
			if x != 1 {
				rep.Fail("C13-persistence-call-not-one-transaction", fmt.Sprintf("%s used %d write transactions", c.name, x), map[string]interface{}{"call": c.name, "transactions": x})
			}
		}
	}
	// ---- a real first DKG: is the result committed to dkg.db before it is handed over? ----
	dbFirst, err := finishOrder(w, root)
	if err != nil {
		if dbFirst, err = finishOrder(w, filepath.Join(root, "retry")); err != nil {
			return nil, nil, fmt.Errorf("real DKG for the commit/hand-over order: %w", err)
		}
	}
	add(fmt.Sprintf("FinishOrder %s", emit.Bool(dbFirst)), sch.Name+" executeAndFinishDKG: SaveFinished before the hand-over on completedDKGs", true)
	rep.Count("finish-order/real-dkg")
	if !dbFirst {
		// the crash states that order makes reachable, built with the real stores and reloaded
		if err := filesAheadHistory(rep, w, filepath.Join(root, "alt"), add); err != nil {
			return nil, nil, err
		}
		rep.Fail("C13-dkg-result-handed-over-before-db-commit", "executeAndFinishDKG handed the new group/share to the beacon process before SaveFinished committed it: a crash in between leaves files of an epoch the database does not know",
			map[string]interface{}{"scheme": sch.Name})
	}
	// ---- key.Save on targets that are not regular files (CLI --out): still written through ----
	if err := specialTargets(rep, w, root); err != nil {
		return nil, nil, err
	}
	// ---- M sweep: every prefix of the group / share file of the resharing ----
	if err := sweep(rep, w, n, root, tier); err != nil {
		return nil, nil, err
	}
	return lines, descr, nil
}

// monitor M: the property's own predicate on what was reloaded from one snapshot.
func monitor(rep *emit.Report, scheme string, s *snapshot, o obs, _ map[string][]uint64) {
	in := map[string]interface{}{"scheme": scheme, "crash_point": s.name, "kind": s.kind, "rounds": o.rounds,
		"finished": optDrec(o.fin), "current": optDrec(o.cur), "group_file": o.group, "share_file": o.share,
		"share_on_group_polynomial": o.match, "restart": o.restart}
	// chain: every beacon that had been handed to a callback (stream client, syncing peer) when the
	// process died is in the store the restart finds
	for _, sv := range s.served {
		if id, ok := o.sigOf[sv.Round]; !ok || id != sv.Sig {
			rep.Fail("C13-served-beacon-not-in-restarted-store",
				fmt.Sprintf("beacon of round %d had been handed to the registered callback when the process died at %q, but the restarted chain store holds rounds %v", sv.Round, s.name, o.rounds),
				map[string]interface{}{"scheme": scheme, "puts_offered": s.puts, "crash_point": s.name + " (" + s.kind + ": before the bolt transaction of that Put)", "served_to_callback": s.served, "restarted_store_rounds": o.rounds})
			break
		}
	}
	// chain: gap-free from 0 and able to take the next round
	for i, r := range o.rounds {
		if r != uint64(i) {
			rep.Fail("C13-chain-gap-after-crash", "reloaded chain store is not gap-free from round 0", in)
			break
		}
	}
	if len(o.rounds) > 0 && !o.resumed {
		rep.Fail("C13-chain-does-not-resume", "a fresh append store on the reloaded chain refused round last+1", in)
	}
	// dkg db: the completed record is one whole epoch
	if o.fin != nil && !o.finWhole {
		rep.Fail("C13-dkgdb-finished-record-mixed", "the completed DKG record is not one whole epoch", in)
	}
	if o.fin != nil && o.cur != nil && o.cur.epoch < o.fin.epoch {
		rep.Fail("C13-dkgdb-current-older-than-finished", "the staged DKG record is older than the completed one", in)
	}
	// files
	left := o.cur != nil && o.cur.status == int(dkg.Left)
	running := strings.HasPrefix(o.restart, "(RRunning")
	switch {
	case o.fin == nil:
		if o.gPresent || o.sPresent || o.restart != "RFresh" {
			rep.Fail("C13-key-files-ahead-of-dkg-database", fmt.Sprintf("group file / share present (group %s/%d, share %s/%d) although dkg.db records no completed DKG: restart = %s", o.group.class, o.group.epoch, o.share.class, o.share.epoch, o.restart), in)
		}
	case s.hadPair && !left && (!o.gPresent || !o.sPresent):
		// a key file of an earlier epoch was REMOVED (not merely being rewritten in place) although
		// the node did not leave
		rep.Fail("C13-previous-epoch-files-destroyed-before-new-ones-written",
			fmt.Sprintf("a complete group/share pair had been on disk, dkg.db records epoch %d as completed, and at this crash point group file present=%v (%s), share present=%v (%s): restart = %s",
				o.fin.epoch, o.gPresent, o.group.class, o.sPresent, o.share.class, o.restart), in)
	case left && !o.gPresent:
		// the node recorded that it left and has no group file: that IS the state a completed Reset
		// leaves, whether or not the share file is still there (nothing loads a share without the
		// group). The restart must be the one of a node whose Reset completed.
		if o.restart != "RFailNoGroup" {
			rep.Fail("C13-leaver-half-reset-fails-load", fmt.Sprintf("leaving node crashed inside Reset (share present %v) and restarts differently from a node whose Reset completed: %s", o.sPresent, o.restart), in)
		} else {
			rep.Count("monitor/left-without-group-file")
		}
	case !o.gPresent && !o.sPresent:
		if !left {
			rep.Fail("C13-db-ahead-of-files", fmt.Sprintf("dkg.db records epoch %d as completed but there is no group file and no share: restart = %s", o.fin.epoch, o.restart), in)
		}
	case (o.gPresent && o.group.class != "ok") || (o.sPresent && o.share.class != "ok"):
		bad, cl := "group", o.group.class
		if !o.gPresent || o.group.class == "ok" {
			bad, cl = "share", o.share.class
		}
		if cl == "other" {
			rep.Fail("C13-torn-key-file-loads-other-content", fmt.Sprintf("%s file is incomplete but loads without error as a different object", bad), in)
		} else {
			rep.Fail("C13-torn-key-file-fails-load", fmt.Sprintf("%s file is empty/torn: load %s, restart = %s", bad, cl, o.restart), in)
		}
	case o.gPresent != o.sPresent:
		switch {
		case left:
			rep.Fail("C13-leaver-half-reset-fails-load", fmt.Sprintf("leaving node crashed inside Reset: group present %v, share present %v: restart = %s", o.gPresent, o.sPresent, o.restart), in)
		case o.gPresent:
			rep.Fail("C13-group-share-epoch-mismatch-after-crash", fmt.Sprintf("group file is epoch %d but there is no share file yet; restart = %s", o.group.epoch, o.restart), in)
		default:
			rep.Fail("C13-share-ahead-of-group-after-crash", fmt.Sprintf("share is epoch %d but there is no group file yet; restart = %s", o.share.epoch, o.restart), in)
		}
	case o.match != "ok" || o.group.epoch != o.share.epoch:
		if o.group.epoch > o.share.epoch {
			rep.Fail("C13-group-share-epoch-mismatch-after-crash", fmt.Sprintf("group file is epoch %d, share is epoch %d (share not on the group's polynomial); restart = %s", o.group.epoch, o.share.epoch, o.restart), in)
		} else {
			rep.Fail("C13-share-ahead-of-group-after-crash", fmt.Sprintf("share is epoch %d, group file is epoch %d; restart = %s", o.share.epoch, o.group.epoch, o.restart), in)
		}
	case o.group.epoch != o.fin.epoch:
		if o.group.epoch < o.fin.epoch {
			rep.Fail("C13-db-ahead-of-files", fmt.Sprintf("dkg.db records epoch %d as completed, group file and share are epoch %d; restart = %s", o.fin.epoch, o.group.epoch, o.restart), in)
		} else {
			rep.Fail("C13-key-files-ahead-of-dkg-database", fmt.Sprintf("group file and share are epoch %d but dkg.db records epoch %d as the completed one; restart = %s", o.group.epoch, o.fin.epoch, o.restart), in)
		}
	case !running:
		rep.Fail("C13-consistent-state-does-not-restart", "files and database agree but the restart fails: "+o.restart, in)
	default:
		rep.Count("monitor/consistent")
	}
}

func sortedKeys(m map[string][]int) []string {
	var ks []string
	for k := range m {
		ks = append(ks, k)
	}
	sort.Strings(ks)
	return ks
}

// sweep truncates the group file and the share file written by the resharing at every byte
// offset (quick: every offset of the share file, every 3rd of the group file plus all line
// boundaries) and classifies what the real loaders do with each prefix.
func sweep(rep *emit.Report, w *world, n *node, root, tier string) error {
	var base *snapshot
	for _, s := range n.snaps {
		if s.name == "save-KShare-e2/written" || s.name == "save-KShare-e2/renamed" {
			base = s
		}
	}
	if base == nil {
		return errors.New("sweep: snapshot after the resharing not found")
	}
	work, err := copyTree(root, base.dir, "sweep")
	if err != nil {
		return err
	}
	mb := filepath.Join(work, common.MultiBeaconFolder)
	for _, f := range []struct{ name, kind string }{{"drand_group.toml", "group"}, {"dist_key.private", "share"}} {
		p := filepath.Join(mb, beaconID, key.GroupFolderName, f.name)
		full, err := os.ReadFile(p)
		if err != nil {
			return err
		}
		classes := map[string][]int{}
		kf := map[string]string{"group": "KGroup", "share": "KShare"}[f.kind]
		aside := n.saveMode[kf] == "rename"
		target := p
		if aside {
			// the real Save wrote the text aside and renamed it: a crash inside the write leaves a cut
			// TEMPORARY file next to the intact target, and that must never change what is loaded
			target = p + ".tmp"
		}
		for off := 0; off < len(full); off++ {
			if tier != "thorough" && f.kind == "group" && off%3 != 0 && full[off] != '\n' && (off == 0 || full[off-1] != '\n') {
				continue
			}
			if err := os.WriteFile(target, full[:off], 0o600); err != nil {
				return err
			}
			var fl fload
			var detail string
			if f.kind == "group" {
				var g *key.Group
				fl, g = w.loadGroup(mb)
				if fl.class == "other" && g != nil {
					detail = fmt.Sprintf("(nodes=%d,threshold=%d,public-key=%v)", g.Len(), g.Threshold, g.PublicKey != nil && len(g.PublicKey.Coefficients) > 0)
				}
			} else {
				var s *key.Share
				fl, s = w.loadShare(mb)
				if fl.class == "other" && s != nil {
					detail = fmt.Sprintf("(index=%d,commits=%d)", s.Share.I, len(s.Commits))
				}
			}
			rep.Evaluations++
			c := fl.class + detail
			classes[c] = append(classes[c], off)
			if aside {
				rep.Count("sweep-temp/" + f.kind + "/" + fl.class)
			} else {
				rep.Count("sweep/" + f.kind + "/" + fl.class)
			}
		}
		if aside {
			_ = os.Remove(target)
			for _, k := range sortedKeys(classes) {
				if k != "ok" {
					rep.Fail("C13-temp-file-changes-what-loads", fmt.Sprintf("with %s.tmp holding the first %d of %d bytes next to the complete %s, the loader returns %s", f.name, classes[k][0], len(full), f.name, k),
						map[string]interface{}{"file": f.name, "behaviour": k, "prefixes": len(classes[k])})
				}
			}
			rep.Extra["sweep_temp_"+f.kind] = map[string]interface{}{"file": f.name + ".tmp", "length": len(full), "prefixes_ignored_by_loader": len(classes["ok"])}
			continue
		}
		if err := os.WriteFile(p, full, 0o600); err != nil {
			return err
		}
		var ks []string
		for k := range classes {
			ks = append(ks, k)
		}
		sort.Strings(ks)
		summary := map[string]interface{}{"file": f.name, "length": len(full)}
		for _, k := range ks {
			offs := classes[k]
			ex := offs
			if len(ex) > 6 {
				ex = ex[:6]
			}
			summary[k] = map[string]interface{}{"prefixes": len(offs), "first_offsets": ex}
		}
		rep.Extra["sweep_"+f.kind] = summary
		for _, k := range ks {
			switch {
			case strings.HasPrefix(k, "err"), strings.HasPrefix(k, "panic"):
				// reported once per file and loader behaviour
				what := fmt.Sprintf("%s truncated to %d of %d bytes: load %s", f.name, classes[k][0], len(full), k)
				if strings.HasPrefix(k, "panic") {
					what += fmt.Sprintf(" (the loader PANICS on %d prefixes)", len(classes[k]))
				}
				rep.Fail("C13-torn-key-file-fails-load", what, map[string]interface{}{"file": f.name, "behaviour": k, "prefixes": len(classes[k]), "first_offsets": summary[k]})
			case strings.HasPrefix(k, "other"):
				rep.Fail("C13-torn-key-file-loads-other-content", fmt.Sprintf("%s truncated to %d of %d bytes loads without error as a different object %s (%d such prefixes)", f.name, classes[k][0], len(full), k, len(classes[k])),
					map[string]interface{}{"file": f.name, "behaviour": k, "prefixes": len(classes[k]), "first_offsets": summary[k]})
			}
		}
	}
	return os.RemoveAll(work)
}
