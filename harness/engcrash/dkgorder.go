package engcrash

import (
	"context"
	"errors"
	"fmt"
	"os"
	"path/filepath"
	"sync"
	"sync/atomic"
	"time"

	"google.golang.org/grpc"
	"google.golang.org/protobuf/proto"
	"google.golang.org/protobuf/types/known/timestamppb"

	"github.com/drand/drand/v2/internal/dkg"
	dnet "github.com/drand/drand/v2/internal/net"
	"github.com/drand/drand/v2/internal/util"
	pdkg "github.com/drand/drand/v2/protobuf/dkg"
)

// orderStore wraps a node's real DKG store and watches the order of the two things
// executeAndFinishDKG does with a finished DKG: commit it to dkg.db, hand it to the beacon process.
type orderStore struct {
	dkg.Store
	committed   atomic.Bool
	handedOver  atomic.Bool
	earlyOutput atomic.Bool // the result was handed over before SaveFinished returned
}

func (o *orderStore) SaveFinished(id string, st *dkg.DBState) error {
	// give a result that was (wrongly) handed over first the time to reach the listener
	time.Sleep(80 * time.Millisecond)
	if o.handedOver.Load() {
		o.earlyOutput.Store(true)
	}
	err := o.Store.SaveFinished(id, st)
	if err == nil {
		o.committed.Store(true)
	}
	return err
}

type onode struct {
	proc *dkg.Process
	st   dkg.Store
}

type obus struct {
	mu    sync.Mutex
	nodes map[string]*onode
	off   bool
}

func (b *obus) get(a string) *onode {
	b.mu.Lock()
	defer b.mu.Unlock()
	if b.off {
		return nil
	}
	return b.nodes[a]
}

func (b *obus) Packet(_ context.Context, p dnet.Peer, packet *pdkg.GossipPacket, _ ...grpc.CallOption) (*pdkg.EmptyDKGResponse, error) {
	n := b.get(p.Address())
	if n == nil {
		return nil, errors.New("no such address")
	}
	return n.proc.Packet(context.Background(), proto.Clone(packet).(*pdkg.GossipPacket))
}

func (b *obus) BroadcastDKG(_ context.Context, p dnet.Peer, in *pdkg.DKGPacket, _ ...grpc.CallOption) (*pdkg.EmptyDKGResponse, error) {
	n := b.get(p.Address())
	if n == nil {
		return nil, errors.New("no such address")
	}
	return n.proc.BroadcastDKG(context.Background(), proto.Clone(in).(*pdkg.DKGPacket))
}

// finishOrder runs a real first DKG of the three nodes on an in-memory network and reports
// whether node 0's executeAndFinishDKG committed the result to dkg.db before handing it over.
func finishOrder(w *world, root string) (dbFirst bool, err error) {
	bus := &obus{nodes: map[string]*onode{}}
	var procs []*dkg.Process
	var outs []chan dkg.SharingOutput
	var parts []*pdkg.Participant
	watch := &orderStore{}
	phase := 1500 * time.Millisecond
	for i, kp := range w.pairs {
		st, err := dkg.NewDKGStore(filepath.Join(root, fmt.Sprintf("order-%d-%d", len(root), i)))
		if err != nil {
			return false, err
		}
		var store dkg.Store = st
		if i == 0 {
			watch.Store = st
			store = watch
		}
		part, err := util.PublicKeyAsParticipant(kp.Public)
		if err != nil {
			return false, err
		}
		out := util.NewFanOutChan[dkg.SharingOutput]()
		p := dkg.NewDKGProcess(store, ident{kp}, out, bus, nil,
			dkg.Config{Timeout: time.Minute, TimeBetweenDKGPhases: phase, KickoffGracePeriod: 600 * time.Millisecond}, w.log)
		bus.nodes[kp.Public.Addr] = &onode{proc: p, st: store}
		procs = append(procs, p)
		outs = append(outs, out.Listen())
		parts = append(parts, part)
	}
	defer func() {
		bus.mu.Lock()
		bus.off = true
		bus.mu.Unlock()
		for _, p := range procs {
			func() {
				defer func() { _ = recover() }()
				p.Close()
			}()
		}
	}()
	cmd := func(i int, c *pdkg.DKGCommand) error {
		c.Metadata = &pdkg.CommandMetadata{BeaconID: beaconID}
		_, err := procs[i].Command(context.Background(), c)
		return err
	}
	start := time.Now()
	err = cmd(0, &pdkg.DKGCommand{Command: &pdkg.DKGCommand_Initial{Initial: &pdkg.FirstProposalOptions{
		Timeout: timestamppb.New(start.Add(40 * time.Second)), Threshold: 2, PeriodSeconds: 3, Scheme: w.sch.Name,
		CatchupPeriodSeconds: 1, GenesisTime: timestamppb.New(start.Add(30 * time.Second)), Joining: parts}}})
	if err != nil {
		return false, fmt.Errorf("initial proposal: %w", err)
	}
	for i := 1; i < len(procs); i++ {
		deadline := time.Now().Add(8 * time.Second)
		for {
			cur, err := bus.nodes[w.pairs[i].Public.Addr].st.GetCurrent(beaconID)
			if err == nil && cur.State == dkg.Proposed {
				break
			}
			if time.Now().After(deadline) {
				return false, fmt.Errorf("node %d did not receive the proposal", i)
			}
			time.Sleep(10 * time.Millisecond)
		}
		if err := cmd(i, &pdkg.DKGCommand{Command: &pdkg.DKGCommand_Join{Join: &pdkg.JoinOptions{}}}); err != nil {
			return false, fmt.Errorf("join: %w", err)
		}
	}
	// the beacon process's side of the hand-over (StartListeningForDKGUpdates reads this channel)
	got := make(chan struct{})
	go func() {
		for so := range outs[0] {
			if so.New.Epoch == 1 {
				if !watch.committed.Load() {
					watch.earlyOutput.Store(true)
				}
				watch.handedOver.Store(true)
				close(got)
				return
			}
		}
	}()
	if err := cmd(0, &pdkg.DKGCommand{Command: &pdkg.DKGCommand_Execute{Execute: &pdkg.ExecutionOptions{}}}); err != nil {
		return false, fmt.Errorf("execute: %w", err)
	}
	select {
	case <-got:
	case <-time.After(4*phase + 15*time.Second):
		return false, errors.New("the DKG did not complete")
	}
	// let a SaveFinished that comes after the hand-over happen
	deadline := time.Now().Add(3 * time.Second)
	for !watch.committed.Load() && time.Now().Before(deadline) {
		time.Sleep(10 * time.Millisecond)
	}
	if !watch.committed.Load() {
		return false, errors.New("the DKG result was handed over but never committed to dkg.db")
	}
	_ = os.Remove
	return !watch.earlyOutput.Load(), nil
}
