package engcodec

// Disk path of C20: histories of operations on ONE real key file store (key.NewFileStore:
// SaveKeyPair / LoadKeyPair, SaveShare / LoadShare, SaveGroup / LoadGroup, Reset) in which the
// values written to the same file grow AND shrink (thresholds t1 > t2, groups of different
// sizes, schemes with longer and shorter names and points). The model is one register per file:
// a load returns exactly the value written last (case CDisk, theorem C20_disk_last_written);
// the monitor reports the history itself when a load fails or returns something else.

import (
	"fmt"
	"os"
	"strings"

	"github.com/drand/drand/v2/common/key"
	"github.com/drand/drand/v2/crypto"
	"github.com/drand/kyber/share"
	"github.com/drand/kyber/util/random"
)

type diskVal struct {
	kind string // pair | share | group
	rec  string // what a load must give back (deep value)
	what string
	save func(st key.Store) error
}

func quiet(f func() error) error {
	old := os.Stdout
	devnull, err := os.OpenFile(os.DevNull, os.O_WRONLY, 0)
	if err == nil {
		os.Stdout = devnull
	}
	e := f()
	os.Stdout = old
	if err == nil {
		devnull.Close()
	}
	return e
}

func (e *codecEngine) diskShare(s *crypto.Scheme, thr int) diskVal {
	poly := share.NewPriPoly(s.KeyGroup, thr, nil, random.New(rngReader{e.g.r}))
	sh := e.g.share(s, poly, thr+e.g.r.Intn(3))
	return diskVal{kind: "share", rec: e.cv.rec(sh), what: fmt.Sprintf("share(%s,t=%d)", s.Name, thr),
		save: func(st key.Store) error { return quiet(func() error { return st.SaveShare(sh) }) }}
}

func (e *codecEngine) diskPair(s *crypto.Scheme, realSig bool) diskVal {
	p := e.g.pair(s, realSig)
	return diskVal{kind: "pair", rec: e.cv.rec(p), what: fmt.Sprintf("pair(%s,addr=%s,siglen=%d)", s.Name, p.Public.Addr, len(p.Public.Signature)),
		save: func(st key.Store) error { return quiet(func() error { return st.SaveKeyPair(p) }) }}
}

func (e *codecEngine) diskGroup(s *crypto.Scheme, n int, withKey bool) diskVal {
	grp, _ := e.g.group(s, groupOpts{n: n, withKey: withKey, withSeed: e.g.r.Intn(2) == 0, withTT: e.g.r.Intn(2) == 0, id: ids[e.g.r.Intn(len(ids))]})
	return diskVal{kind: "group", rec: e.expectGroup(grp), what: fmt.Sprintf("group(%s,n=%d,key=%v)", s.Name, n, withKey),
		save: func(st key.Store) error { return st.SaveGroup(cloneGroup(grp)) }}
}

var diskFile = map[string]string{"pair": "FPair", "share": "FShare", "group": "FGroup"}

// diskHistory runs one history on a fresh store and emits the CDisk case.
func (e *codecEngine) diskHistory(label string, plan []interface{}) {
	st := key.NewFileStore(e.tmp, fmt.Sprintf("disk%d", e.n))
	e.n++
	var vals []diskVal
	var ops, loads, trace []string
	last := map[string]int{"pair": -1, "share": -1, "group": -1}
	bad := ""
	load := func(kind string) {
		var rec string
		var err error
		switch kind {
		case "pair":
			var p *key.Pair
			if p, err = st.LoadKeyPair(); err == nil {
				rec = e.cv.rec(p)
			}
		case "share":
			var s *key.Share
			if s, err = st.LoadShare(); err == nil {
				rec = e.cv.rec(s)
			}
		case "group":
			var g *key.Group
			if g, err = st.LoadGroup(); err == nil {
				if g == nil {
					err = fmt.Errorf("empty group")
				} else {
					rec = e.cv.rec(g)
				}
			}
		}
		ops = append(ops, "DLoad "+diskFile[kind])
		got := -2
		switch {
		case err != nil:
			got = -1
			loads = append(loads, "None")
		default:
			for i := len(vals) - 1; i >= 0; i-- {
				if vals[i].kind == kind && vals[i].rec == rec {
					got = i
					break
				}
			}
			loads = append(loads, fmt.Sprintf("(Some %s)", map[bool]string{true: "(-2)", false: fmt.Sprint(got)}[got < 0]))
		}
		res := map[int]string{-1: "error", -2: "a value that was never saved"}[got]
		if got >= 0 {
			res = fmt.Sprintf("#%d", got)
		}
		trace = append(trace, fmt.Sprintf("Load %s -> %s", kind, res))
		e.rep.Count("disk/load/" + kind)
		want := last[kind]
		if got != want && bad == "" {
			exp := "an error (nothing stored)"
			if want >= 0 {
				exp = fmt.Sprintf("#%d = %s", want, vals[want].what)
			}
			bad = fmt.Sprintf("step %d: Load %s returned %s, expected %s", len(trace), kind, res, exp)
		}
	}
	for _, step := range plan {
		switch x := step.(type) {
		case diskVal:
			id := len(vals)
			vals = append(vals, x)
			err := x.save(st)
			ops = append(ops, fmt.Sprintf("DSave %s %d", diskFile[x.kind], id))
			trace = append(trace, fmt.Sprintf("Save #%d %s", id, x.what))
			e.rep.Count("disk/save/" + x.kind)
			if err != nil {
				if bad == "" {
					bad = fmt.Sprintf("step %d: saving %s failed", len(trace), x.what)
				}
				continue
			}
			last[x.kind] = id
		case string:
			if x == "reset" {
				_ = st.Reset()
				ops = append(ops, "DReset")
				trace = append(trace, "Reset")
				last["share"], last["group"] = -1, -1
				e.rep.Count("disk/reset")
			} else {
				load(x)
			}
		}
	}
	e.add(fmt.Sprintf("CDisk [%s] [%s]", strings.Join(ops, "; "), strings.Join(loads, "; ")), "key store history "+label+": "+strings.Join(trace, " | "))
	e.rep.Count("monitor/disk")
	if bad != "" {
		e.fail("C20-disk-roundtrip-not-last-written", "the key store does not return the value written last: "+bad,
			map[string]interface{}{"history": trace, "store": "key.NewFileStore", "label": label})
	}
}

// diskAll generates the histories: per scheme sizes going down and up, and mixed-scheme stores.
func (e *codecEngine) diskAll(tier string) {
	g := e.g
	reps := 1
	if tier == "thorough" {
		reps = 6
	}
	for r := 0; r < reps; r++ {
		for si, s := range g.sch {
			big, small := 5+g.r.Intn(4), 1+g.r.Intn(2)
			mid := small + 1 + g.r.Intn(big-small-1)
			plan := []interface{}{
				"share", "group", // nothing stored yet
				e.diskShare(s, big), "share", e.diskShare(s, small), "share", e.diskShare(s, mid), "share",
				e.diskGroup(s, 7+g.r.Intn(4), true), "group", e.diskGroup(s, 1+g.r.Intn(2), false), "group", e.diskGroup(s, 3+g.r.Intn(3), true), "group",
				e.diskPair(s, true), "pair", e.diskPair(s, false), "pair",
				"reset", "share", "group", "pair",
				e.diskShare(s, small), "share", e.diskShare(s, big), "share", e.diskGroup(s, 2, true), "group",
			}
			e.diskHistory(fmt.Sprintf("%s/%d", s.Name, r), plan)
			// mixed schemes on one store: scheme names and point sizes differ, so files shrink and grow
			o := g.sch[(si+1+g.r.Intn(len(g.sch)-1))%len(g.sch)]
			plan = nil
			for k := 0; k < 6; k++ {
				sc := []*crypto.Scheme{s, o}[k%2]
				switch g.r.Intn(3) {
				case 0:
					plan = append(plan, e.diskPair(sc, k%3 == 0), "pair")
				case 1:
					plan = append(plan, e.diskShare(sc, 1+g.r.Intn(6)), "share")
				default:
					plan = append(plan, e.diskGroup(sc, 1+g.r.Intn(5), g.r.Intn(2) == 0), "group")
				}
				if g.r.Intn(4) == 0 {
					plan = append(plan, "pair", "share", "group")
				}
			}
			// longest scheme name first, shortest second: the private key file shrinks
			plan = append(plan, e.diskPair(schemeByName(g.sch, "bls-bn254-unchained-on-g1"), false), "pair",
				e.diskPair(schemeByName(g.sch, "bls-unchained-on-g1"), false), "pair")
			e.diskHistory(fmt.Sprintf("mixed %s+%s/%d", s.Name, o.Name, r), plan)
		}
	}
}

func schemeByName(all []*crypto.Scheme, name string) *crypto.Scheme {
	for _, s := range all {
		if s.Name == name {
			return s
		}
	}
	return all[0]
}
