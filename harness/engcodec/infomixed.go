package engcodec

// Mixed-spelling chain info documents for Info.UnmarshalJSON (C17): every combination of the
// v2 / v1 spelling of the scheme (scheme | schemeID), of the genesis seed (genesis_seed |
// groupHash) and of the beacon id (beacon_id | metadata.beaconID) - one, the other or both -
// times chain_hash absent / matching / another hash / matching before a single-field change.
// Monitor M is the property's own predicate on the real decoder: an accepted document that
// carried a chain_hash must decode to an Info whose HashString() is that chain_hash.
// K: the model's decoder (generated checks and legacy overrides) must accept / reject the same
// documents and produce the same Info; the hash of "the value being decoded" comes from an
// independent reading of the field selection rules below plus the real Info.Hash (itself tied to
// the model by engine "hash").

import (
	"encoding/hex"
	"encoding/json"
	"fmt"
	"strings"
	"time"

	"github.com/drand/drand/v2/common/chain"
	"github.com/drand/drand/v2/zzverif/emit"
)

type infoDoc struct {
	scheme, schemeID     *string
	seed, groupHash      *string // hex
	beaconID, metaBeacon *string
	period               int64
	genesis              int64
	pk                   string // hex
	chainHash            *string
}

func sp(s string) *string { return &s }

func (d *infoDoc) json() []byte {
	m := map[string]interface{}{"public_key": d.pk, "period": d.period, "genesis_time": d.genesis}
	set := func(k string, v *string) {
		if v != nil {
			m[k] = *v
		}
	}
	set("scheme", d.scheme)
	set("schemeID", d.schemeID)
	set("genesis_seed", d.seed)
	set("groupHash", d.groupHash)
	set("beacon_id", d.beaconID)
	set("chain_hash", d.chainHash)
	if d.metaBeacon != nil {
		m["metadata"] = map[string]interface{}{"beaconID": *d.metaBeacon}
	}
	b, _ := json.Marshal(m)
	return b
}

func deref(s *string) string {
	if s == nil {
		return ""
	}
	return *s
}

// effective reads the document the way the decoder is documented to: the v1 members are used
// when schemeID is given and scheme is not.
func (d *infoDoc) effective(pkOf func(scheme, pkhex string) (*chain.Info, bool)) (*chain.Info, bool) {
	legacy := deref(d.schemeID) != "" && deref(d.scheme) == ""
	scheme, seedHex, id := deref(d.scheme), d.seed, deref(d.beaconID)
	if legacy {
		scheme, seedHex = deref(d.schemeID), d.groupHash
		if deref(d.metaBeacon) != "" {
			id = deref(d.metaBeacon)
		}
	}
	i, ok := pkOf(scheme, d.pk)
	if !ok {
		return nil, false
	}
	i.Scheme, i.ID, i.GenesisTime, i.Period = scheme, id, d.genesis, time.Duration(d.period)*time.Second
	i.GenesisSeed = nil
	if seedHex != nil {
		b, err := hex.DecodeString(*seedHex)
		if err != nil {
			return nil, false
		}
		i.GenesisSeed = b
	}
	return i, true
}

func (e *codecEngine) infoMixed(info *chain.Info, thorough bool) {
	g := e.g
	leaves := e.infoJSONLeaves("Info.UnmarshalJSON", true)
	zero := map[string]string{"scheme": "(VBytes [])", "schemeID": "(VBytes [])", "beacon_id": "(VBytes [])", "chain_hash": "(VBytes [])",
		"period": "(VInt 0)", "genesis_time": "(VInt 0)"}
	pkHex := hex.EncodeToString(pointBytes(info.PublicKey))
	pkOf := func(scheme, pkhex string) (*chain.Info, bool) {
		// the key group is the scheme's; all documents here keep the original scheme name
		if scheme != info.Scheme || pkhex != pkHex {
			if pkhex != pkHex && scheme == info.Scheme {
				c := cloneInfo(info)
				b, err := hex.DecodeString(pkhex)
				if err != nil {
					return nil, false
				}
				for _, s := range g.sch {
					if s.Name == scheme {
						p := s.KeyGroup.Point()
						if p.UnmarshalBinary(b) != nil {
							return nil, false
						}
						c.PublicKey = p
						return c, true
					}
				}
			}
			return nil, false
		}
		return cloneInfo(info), true
	}
	seedHex := hex.EncodeToString(info.GenesisSeed)
	otherSeed := hex.EncodeToString(g.bytes(32))
	otherID := "other-" + info.ID
	var otherPK string
	for _, s := range g.sch {
		if s.Name == info.Scheme {
			otherPK = hex.EncodeToString(pointBytes(g.point(s)))
		}
	}
	type spelling struct {
		name   string
		v2, v1 bool
	}
	spellings := []spelling{{"v2", true, false}, {"v1", false, true}, {"both", true, true}}
	for _, ss := range spellings { // scheme
		for _, sd := range spellings { // seed
			for _, si := range spellings { // beacon id
				base := infoDoc{period: int64(info.Period / time.Second), genesis: info.GenesisTime, pk: pkHex}
				if ss.v2 {
					base.scheme = sp(info.Scheme)
				}
				if ss.v1 {
					base.schemeID = sp(info.Scheme)
				}
				if sd.v2 {
					base.seed = sp(seedHex)
				}
				if sd.v1 {
					base.groupHash = sp(seedHex)
					if sd.v2 {
						base.groupHash = sp(otherSeed) // both given, different: only one may count
					}
				}
				if si.v2 {
					base.beaconID = sp(info.ID)
				}
				if si.v1 {
					base.metaBeacon = sp(info.ID)
					if si.v2 {
						base.metaBeacon = sp(otherID)
					}
				}
				eff, ok := base.effective(pkOf)
				if !ok {
					continue
				}
				match := eff.HashString()
				type variant struct {
					what string
					mut  func(d *infoDoc)
				}
				vars := []variant{
					{"nohash", func(d *infoDoc) {}},
					{"matching", func(d *infoDoc) { d.chainHash = sp(match) }},
					{"otherhash", func(d *infoDoc) { d.chainHash = sp(hex.EncodeToString(g.bytes(32))) }},
					{"period+1", func(d *infoDoc) { d.chainHash = sp(match); d.period++ }},
					{"genesis+1", func(d *infoDoc) { d.chainHash = sp(match); d.genesis++ }},
					{"publickey", func(d *infoDoc) { d.chainHash = sp(match); d.pk = otherPK }},
					{"seed", func(d *infoDoc) {
						d.chainHash = sp(match)
						if d.seed != nil {
							d.seed = sp(hex.EncodeToString(g.bytes(32)))
						}
						if d.groupHash != nil {
							d.groupHash = sp(hex.EncodeToString(g.bytes(32)))
						}
					}},
					{"id", func(d *infoDoc) {
						d.chainHash = sp(match)
						if d.beaconID != nil {
							d.beaconID = sp("x-" + *d.beaconID)
						}
						if d.metaBeacon != nil {
							d.metaBeacon = sp("y-" + *d.metaBeacon)
						}
					}},
				}
				if !thorough && !(ss.name == "v1" || (sd.name == "v2" && si.name == "v2")) {
					// quick tier: all variants for the legacy scheme spelling and for the pure v2 document,
					// the plain ones for the rest
					vars = vars[:3]
				}
				for _, v := range vars {
					d := base
					v.mut(&d)
					js := d.json()
					label := fmt.Sprintf("scheme:%s seed:%s id:%s %s", ss.name, sd.name, si.name, v.what)
					var got chain.Info
					err := json.Unmarshal(js, &got)
					e.rep.Count("mixed/" + map[bool]string{true: "accepted", false: "rejected"}[err == nil] + "/" + v.what)
					// M: the property's own predicate
					if err == nil && d.chainHash != nil && *d.chainHash != "" && got.HashString() != *d.chainHash {
						e.fail("C17-json-mismatching-chain-hash-accepted",
							"Info.UnmarshalJSON accepted a document whose chain_hash is not the hash of the chain info it decodes to",
							map[string]interface{}{"document": string(js), "spelling": label, "chain_hash": *d.chainHash, "hash_of_decoded": got.HashString()})
					}
					// K
					effv, ok := d.effective(pkOf)
					if !ok {
						continue
					}
					rec, jerr := jsonRecordT(js, leaves, zero)
					if jerr != nil {
						continue
					}
					hs := emit.Bytes([]byte(effv.HashString()))
					if err != nil {
						e.dec("Info.UnmarshalJSON", "[]", nil, hs, rec, false, label)
					} else {
						e.add(fmt.Sprintf("CDecOut \"Info.UnmarshalJSON\" [] [] %s %s %s", hs, rec, e.cv.rec(&got)), "Info.UnmarshalJSON decoded: "+label)
						e.rep.Count("decout/Info.UnmarshalJSON")
					}
				}
			}
		}
	}
	_ = strings.Join
}
