package engcodec

import (
	"bytes"
	"fmt"
	"os"
	"path/filepath"
	"reflect"
	"time"

	"github.com/drand/drand/v2/common/chain"
	"github.com/drand/drand/v2/common/key"
	"github.com/drand/drand/v2/zzverif/emit"
	"github.com/drand/kyber"
)

// RunHash is the entry point of engine "hash" (C17).
func RunHash(outDir string, seed int64, tier string) error {
	rep := emit.NewReport("hash", seed, tier)
	e := &hashEngine{rep: rep, g: newGen(seed), seen: map[string]bool{}}
	g := e.g
	tmp, err := os.MkdirTemp("", "zzv-hash-")
	if err != nil {
		return err
	}
	defer os.RemoveAll(tmp)
	perScheme, small := 3, true
	if tier == "thorough" {
		perScheme, small = 30, false
	}
	// translator cross-check: widths of the integer fields as reflect sees them
	e.add(fmt.Sprintf("HWidth node_hash_spec \"Index\" %d", reflect.TypeOf(key.Node{}.Index).Size()), "width of key.Node.Index")
	e.add(fmt.Sprintf("HWidth info_hash_spec \"GenesisTime\" %d", reflect.TypeOf(chain.Info{}.GenesisTime).Size()), "width of chain.Info.GenesisTime")
	e.add(fmt.Sprintf("HWidth group_hash_spec \"TransitionTime\" %d", reflect.TypeOf(key.Group{}.TransitionTime).Size()), "width of key.Group.TransitionTime")

	differ := func(class, what string, a, b []byte, in interface{}) {
		rep.Count("monitor/" + class)
		if bytes.Equal(a, b) {
			rep.Fail("C17-"+class+"-insensitive", what, in)
		}
	}
	same := func(class, what string, a, b []byte, in interface{}) {
		rep.Count("monitor/" + class)
		if !bytes.Equal(a, b) {
			rep.Fail("C17-"+class+"-differs", what, in)
		}
	}
	nonEquivID := func(id string) string {
		for {
			c := ids[g.r.Intn(len(ids))]
			if c != id && !(isDefaultID(c) && isDefaultID(id)) {
				return c
			}
		}
	}
	for si, sch := range g.sch {
		for k := 0; k < perScheme; k++ {
			o := g.randOpts()
			if k == 0 {
				o = groupOpts{n: 1, withKey: true, withSeed: true, id: "default"}
			}
			if k == 1 {
				o = groupOpts{n: 10, withKey: true, withSeed: false, withTT: true, id: "", shuffled: true}
			}
			if k > 1 && small && o.n > 3 {
				o.n = 1 + o.n%3 // keep the quick tier's case files small; 10-node groups are covered by k == 1
			}
			grp, _ := g.group(sch, o)
			in := map[string]interface{}{"scheme": sch.Name, "n": o.n, "id": grp.ID, "thr": grp.Threshold, "genesis": grp.GenesisTime, "tt": grp.TransitionTime, "key": o.withKey}
			base := e.groupCase(grp, "base")
			for i, n := range grp.Nodes {
				if i < 2 {
					np := nodePre(n)
					e.add(fmt.Sprintf("HNode %d %s %s %s", n.Index, hexB(pointBytes(n.Key)), hexB(np), emit.Bool(bytes.Equal(b2(np), n.Hash()))), "node of "+sch.Name)
					rep.Count("node")
				}
			}
			if grp.PublicKey != nil {
				var cs []string
				for _, c := range grp.PublicKey.Coefficients {
					cs = append(cs, hexB(pointBytes(c)))
				}
				dp := distPre(grp.PublicKey)
				e.add(fmt.Sprintf("HDist %s %s %s", emit.List(cs), hexB(dp), emit.Bool(bytes.Equal(b2(dp), grp.PublicKey.Hash()))), "dist key of "+sch.Name)
				rep.Count("dist")
			}
			// ---- node order ----
			for t := 0; t < 2 && len(grp.Nodes) > 1; t++ {
				p := cloneGroup(grp)
				g.r.Shuffle(len(p.Nodes), func(i, j int) { p.Nodes[i], p.Nodes[j] = p.Nodes[j], p.Nodes[i] })
				same("group-order", "group hash depends on the node listing order", base, e.groupCase(p, "permuted"), in)
			}
			// ---- single-field perturbations of the group ----
			if !(small && k == 1) { // the quick tier keeps the 10-node group for order invariance only
				p := cloneGroup(grp)
				i := g.r.Intn(len(p.Nodes))
				p.Nodes[i].Identity.Key = g.point(sch)
				differ("group-member-key", "group hash unchanged after replacing one member key", base, e.groupCase(p, "memberkey"), in)
				p = cloneGroup(grp)
				i = g.r.Intn(len(p.Nodes))
				p.Nodes[i].Index += 1000003
				differ("group-member-index", "group hash unchanged after changing one member index", base, e.groupCase(p, "memberindex"), in)
				p = cloneGroup(grp)
				p.Nodes[i].Identity.Addr = g.addr()
				p.Nodes[i].Identity.Signature = g.bytes(10)
				same("group-member-addr", "group hash depends on a member's address or signature", base, e.groupCase(p, "memberaddr"), in)
				p = cloneGroup(grp)
				p.Threshold++
				differ("group-threshold", "group hash unchanged after changing the threshold", base, e.groupCase(p, "threshold"), in)
				p = cloneGroup(grp)
				p.GenesisTime += 1 + g.r.Int63n(1000)
				differ("group-genesis", "group hash unchanged after changing the genesis time", base, e.groupCase(p, "genesis"), in)
				p = cloneGroup(grp)
				if p.TransitionTime == 0 {
					p.TransitionTime = 1 + g.r.Int63n(1<<40)
				} else if g.r.Intn(2) == 0 {
					p.TransitionTime = 0
				} else {
					p.TransitionTime++
				}
				differ("group-transition", "group hash unchanged after changing the transition time", base, e.groupCase(p, "transition"), in)
				p = cloneGroup(grp)
				if p.PublicKey == nil || g.r.Intn(3) == 0 {
					q, _ := g.group(sch, groupOpts{n: len(grp.Nodes), withKey: true})
					p.PublicKey = q.PublicKey
				} else if g.r.Intn(2) == 0 {
					p.PublicKey = nil
				} else {
					j := g.r.Intn(len(p.PublicKey.Coefficients))
					p.PublicKey.Coefficients[j] = g.point(sch)
				}
				differ("group-publickey", "group hash unchanged after changing the distributed public key", base, e.groupCase(p, "publickey"), in)
				p = cloneGroup(grp)
				p.ID = nonEquivID(grp.ID)
				differ("group-id", "group hash unchanged after changing the id", base, e.groupCase(p, "id"), in)
				if isDefaultID(grp.ID) {
					p = cloneGroup(grp)
					p.ID = map[string]string{"": "default", "default": ""}[grp.ID]
					same("group-id-default", `group hash distinguishes "" and "default"`, base, e.groupCase(p, "iddefault"), in)
				}
				p = cloneGroup(grp)
				p.Period += 7 * time.Second
				p.CatchupPeriod += time.Second
				same("group-period", "group hash depends on the period (not an input)", base, e.groupCase(p, "period"), in)
			}
			// ---- chain info ----
			if grp.PublicKey == nil {
				continue
			}
			info := chain.NewChainInfo(cloneGroup(grp))
			// info_of_group as the model has it
			{
				gg := cloneGroup(grp)
				seedSet := gg.GenesisSeed != nil
				var seedOpt string
				if seedSet {
					seedOpt = "(Some " + hexB(gg.GenesisSeed) + ")"
				} else {
					seedOpt = "None"
				}
				e.add(fmt.Sprintf("HInfoOf %s %s %s %s %s %s %s  %s %s %s %s %s %s", emit.Z(int64(gg.Period)), hexB([]byte(gg.Scheme.Name)), hexB([]byte(gg.ID)),
					emit.Z(gg.GenesisTime), seedOpt, hexB(pointBytes(gg.PublicKey.Coefficients[0])), hexB(cloneGroup(grp).Hash()),
					hexB(pointBytes(info.PublicKey)), hexB([]byte(info.ID)), emit.Z(int64(info.Period)), hexB([]byte(info.Scheme)), emit.Z(info.GenesisTime), hexB(info.GenesisSeed)),
					"NewChainInfo of a group of "+sch.Name)
				rep.Count("infoof")
			}
			ib := e.infoCase(info, "base")
			iin := map[string]interface{}{"scheme": sch.Name, "id": info.ID, "period": info.Period.String(), "genesis": info.GenesisTime}
			q := cloneInfo(info)
			q.Period += time.Duration(1+g.r.Intn(100)) * time.Second
			differ("chain-period", "chain hash unchanged after changing the period by whole seconds", ib, e.infoCase(q, "period"), iin)
			q = cloneInfo(info)
			q.GenesisTime += 1 + g.r.Int63n(100000)
			differ("chain-genesis", "chain hash unchanged after changing the genesis time", ib, e.infoCase(q, "genesis"), iin)
			q = cloneInfo(info)
			q.PublicKey = g.point(sch)
			differ("chain-publickey", "chain hash unchanged after changing the public key", ib, e.infoCase(q, "publickey"), iin)
			q = cloneInfo(info)
			q.GenesisSeed[g.r.Intn(len(q.GenesisSeed))] ^= byte(1 + g.r.Intn(255))
			differ("chain-seed", "chain hash unchanged after changing the genesis seed", ib, e.infoCase(q, "seed"), iin)
			q = cloneInfo(info)
			q.ID = nonEquivID(info.ID)
			differ("chain-id", "chain hash unchanged after changing the id", ib, e.infoCase(q, "id"), iin)
			if isDefaultID(info.ID) {
				q = cloneInfo(info)
				q.ID = map[string]string{"": "default", "default": ""}[info.ID]
				same("chain-id-default", `chain hash distinguishes "" and "default"`, ib, e.infoCase(q, "iddefault"), iin)
			}
			q = cloneInfo(info)
			q.Scheme = g.sch[(si+1)%len(g.sch)].Name
			same("chain-scheme", "chain hash depends on the scheme name (not an input)", ib, e.infoCase(q, "scheme"), iin)
			// membership / threshold / transition time are not inputs (the seed is carried over, as in a resharing)
			{
				p := cloneGroup(grp)
				p.GetGenesisSeed()
				r, _ := g.group(sch, groupOpts{n: 1 + g.r.Intn(10), withTT: true})
				r.PublicKey = &key.DistPublic{Coefficients: []kyber.Point{p.PublicKey.Coefficients[0]}}
				for len(r.PublicKey.Coefficients) < r.Threshold {
					r.PublicKey.Coefficients = append(r.PublicKey.Coefficients, g.point(sch))
				}
				r.Period, r.GenesisTime, r.ID, r.GenesisSeed = p.Period, p.GenesisTime, p.ID, p.GenesisSeed
				same("chain-membership", "chain hash changes with membership / threshold / transition time", ib, chain.NewChainInfo(r).Hash(), iin)
			}
			// sub-second part of the period is not hashed (stated limit of the format)
			q = cloneInfo(info)
			q.Period += time.Duration(1+g.r.Intn(999)) * time.Millisecond
			e.infoCase(q, "subsecond")
			e.paths(grp, filepath.Join(tmp, fmt.Sprintf("s%d-%d", si, k)))
			// every path that carries a chain info, also for periods that are not whole seconds
			e.infoPaths(info, "whole seconds")
			for _, ms := range []int64{2500, 1001, 500, 999, 1999, 1 + g.r.Int63n(120000)} {
				q = cloneInfo(info)
				q.Period = time.Duration(ms) * time.Millisecond
				e.infoPaths(q, "period with a fraction of a second")
			}
		}
	}
	// ---- every bit of a member index is hashed ----
	// groups that differ in ONE bit of ONE member's index (all 32 bits of the uint32), and in
	// boundary indices (65535 / 65536 / 2^31 / 2^32-1, 3 vs 65539), must differ in group hash and in
	// the genesis seed derived from it; a few of them are also cases for the model
	for _, sch := range g.sch {
		grp, _ := g.group(sch, groupOpts{n: 2, id: "default"})
		grp.Nodes[0].Index, grp.Nodes[1].Index = 3, 1<<20+5
		baseHash := cloneGroup(grp).Hash()
		baseSeed := cloneGroup(grp).GetGenesisSeed()
		check := func(p *key.Group, j int, what string, emitCase bool) {
			rep.Count("monitor/group-index-bits")
			if p.Nodes[0].Index == p.Nodes[1].Index {
				return
			}
			var h []byte
			if emitCase {
				h = e.groupCase(p, "indexbit")
			} else {
				h = cloneGroup(p).Hash()
			}
			seed := cloneGroup(p).GetGenesisSeed()
			if bytes.Equal(h, baseHash) || bytes.Equal(seed, baseSeed) {
				rep.Fail("C17-group-hash-insensitive-to-index", "two groups that differ only in one member's index have the same group hash / derived genesis seed",
					map[string]interface{}{"scheme": sch.Name, "member": j, "change": what, "index_before": grp.Nodes[j].Index, "index_after": p.Nodes[j].Index,
						"other_member_index": grp.Nodes[1-j].Index, "group_hash_before": fmt.Sprintf("%x", baseHash), "group_hash_after": fmt.Sprintf("%x", h),
						"same_hash": bytes.Equal(h, baseHash), "same_derived_seed": bytes.Equal(seed, baseSeed)})
			}
		}
		e.groupCase(grp, "indexbit-base")
		for j := 0; j < 2; j++ {
			for b := uint(0); b < 32; b++ {
				p := cloneGroup(grp)
				p.Nodes[j].Index ^= 1 << b
				check(p, j, fmt.Sprintf("bit %d flipped", b), j == 0 && (b == 0 || b == 15 || b == 16 || b == 31))
			}
			for _, idx := range []uint32{0, 65535, 65536, 65539, 1 << 31, 1<<32 - 1, 3 + 5*65536} {
				if idx == grp.Nodes[j].Index {
					continue
				}
				p := cloneGroup(grp)
				p.Nodes[j].Index = idx
				check(p, j, "boundary index", j == 0 && (idx == 65539 || idx == 1<<32-1))
			}
		}
	}
	// ---- malformed / boundary stream (model must still agree) ----
	for _, sch := range g.sch {
		grp, _ := g.group(sch, groupOpts{n: 3, withKey: true, id: "x"})
		p := cloneGroup(grp)
		p.Nodes[1].Index = p.Nodes[0].Index // duplicate index with identical key: order cannot matter
		p.Nodes[1].Identity.Key = p.Nodes[0].Identity.Key
		e.groupCase(p, "dupindex-samekey")
		p = cloneGroup(grp)
		p.Threshold = -1
		e.groupCase(p, "negthreshold")
		p = cloneGroup(grp)
		p.Threshold = 1<<32 + 2
		e.groupCase(p, "hugethreshold")
		p = cloneGroup(grp)
		p.GenesisTime = -5
		p.TransitionTime = -1
		e.groupCase(p, "negtimes")
		p = cloneGroup(grp)
		p.Nodes = nil
		e.groupCase(p, "nonodes")
		p = cloneGroup(grp)
		p.ID = string([]byte{0, 255, 34, 10})
		e.groupCase(p, "binaryid")
		info := chain.NewChainInfo(cloneGroup(grp))
		q := cloneInfo(info)
		q.GenesisTime = -1
		e.infoCase(q, "neggenesis")
		q = cloneInfo(info)
		q.GenesisSeed = nil
		e.infoCase(q, "noseed")
		q = cloneInfo(info)
		q.Period = 0
		e.infoCase(q, "zeroperiod")
		q = cloneInfo(info)
		q.Period = 500 * time.Millisecond
		e.infoCase(q, "halfsecond")
		q = cloneInfo(info)
		q.Period = time.Duration(1<<32-1) * time.Second
		e.infoCase(q, "maxperiod")
	}
	// the joint (seed, id) collision of the unframed tail, replayed on the real code
	{
		sch := g.sch[0]
		grp, _ := g.group(sch, groupOpts{n: 1, withKey: true, withSeed: true, id: "ab"})
		a := chain.NewChainInfo(grp)
		b := cloneInfo(a)
		b.GenesisSeed = append(b.GenesisSeed, 'a')
		b.ID = "b"
		rep.Count("monitor/joint-collision")
		rep.Extra["joint_seed_id_collision_reproduced"] = bytes.Equal(e.infoCase(a, "joint-a"), e.infoCase(b, "joint-b"))
	}
	rep.Rule = "per scheme: generated groups (1..10 nodes, holes in indices, optional key/seed/transition, 8 ids) and their chain infos, each with single-field perturbations, node permutations and membership changes, plus a malformed stream (duplicate indices, out-of-range threshold/times, binary ids, sub-second periods); distinct = distinct real digest; non-trivial = every case (all have a non-empty preimage)"
	for i := 0; i < len(e.descr) && i < 6; i++ {
		rep.Sample(e.descr[i*len(e.descr)/6], 8)
	}
	if err := rep.Shard(outDir, "cases_hash", []string{"From DV Require Import Model.ByteEnc Model.HashVocab Gen.HashOrder Corr.HashCorr."}, "hcase", "mismatches", e.cases, e.descr, 40); err != nil {
		return err
	}
	return rep.Write(outDir)
}
