package engcodec

// Concurrent history on the real dkg BoltStore (C20): a record is written once and never
// modified; reader goroutines reload it (GetCurrent / GetFinished) while one writer keeps
// re-saving ANOTHER beacon's record in two sizes. Reads are linearizable, so the model stays the
// sequential round trip: every load must return exactly the record written for that id.

import (
	"path/filepath"
	"reflect"
	"runtime/debug"
	"sync"
	"sync/atomic"
	"time"
	"unsafe"

	bolt "go.etcd.io/bbolt"

	"github.com/drand/drand/v2/internal/dkg"
)

func (e *codecEngine) dkgConcurrent(tier string) error {
	g := e.g
	store, err := dkg.NewDKGStore(filepath.Join(e.tmp, "dkgconc"))
	if err != nil {
		return err
	}
	defer store.Close()
	// commits need not reach the disk for this check; without the fsync the writer commits much more
	// often (BoltStore keeps its *bolt.DB in an unexported field: reached through reflect + unsafe)
	if f := reflect.ValueOf(store).Elem().FieldByName("db"); f.IsValid() && f.Kind() == reflect.Ptr {
		if db := *(**bolt.DB)(unsafe.Pointer(f.UnsafeAddr())); db != nil {
			db.NoSync = true
		}
	}
	sch := g.sch[g.r.Intn(len(g.sch))]
	// bolt keeps the records of a bucket sorted by key inside copy-on-write leaf pages: the record
	// that is only read sorts AFTER the one that is rewritten, and the records are small, so that
	// they share a page which every save of the other record replaces
	const victimID, otherID = "z-victim-beacon", "a-writer-beacon"
	victim := g.dbStateN(sch, dkg.Accepted, false, 2)
	victim.BeaconID = victimID
	if err := store.SaveFinished(victimID, cloneState(victim)); err != nil {
		return err
	}
	want := e.cv.rec(cloneState(victim))
	small := g.dbStateN(sch, dkg.Proposed, false, 2)
	small.Remaining, small.Joining, small.Leaving, small.Acceptors, small.Rejectors = small.Remaining[:0], nil, nil, nil, nil
	large := g.dbStateN(sch, dkg.Proposed, false, 2)
	large.Remaining = g.participants(sch, 6)
	large.Joining = g.participants(sch, 3)
	// warm-up: both shapes once, so that the file has reached its size before the readers start
	for _, st := range []*dkg.DBState{small, large, small} {
		if err := store.SaveFinished(otherID, st); err != nil {
			return err
		}
	}
	dur := 1200 * time.Millisecond
	if tier == "thorough" {
		dur = 6 * time.Second
	}
	var loads, bad, writes int64
	var mu sync.Mutex
	first := ""
	stop := make(chan struct{})
	var wg sync.WaitGroup
	reader := func(k int) {
		defer wg.Done()
		for {
			select {
			case <-stop:
				return
			default:
			}
			res := func() (res string) {
				defer func() {
					if r := recover(); r != nil {
						res = "the load panicked"
					}
				}()
				debug.SetPanicOnFault(true)
				var d *dkg.DBState
				var err error
				if k%2 == 0 {
					d, err = store.GetCurrent(victimID)
				} else {
					d, err = store.GetFinished(victimID)
				}
				switch {
				case err != nil:
					return "the load returned an error"
				case d == nil:
					return "the load returned nothing"
				case e.cv.rec(d) != want:
					return "the load returned a different record"
				}
				return ""
			}()
			atomic.AddInt64(&loads, 1)
			if res != "" {
				atomic.AddInt64(&bad, 1)
				mu.Lock()
				if first == "" {
					first = res
				}
				mu.Unlock()
			}
		}
	}
	for k := 0; k < 12; k++ {
		wg.Add(1)
		go reader(k)
	}
	wg.Add(1)
	go func() {
		defer wg.Done()
		for i := 0; ; i++ {
			select {
			case <-stop:
				return
			default:
			}
			st := small
			if i%2 == 0 {
				st = large
			}
			if i%3 == 0 {
				_ = store.SaveCurrent(otherID, st)
			} else {
				_ = store.SaveFinished(otherID, st)
			}
			atomic.AddInt64(&writes, 1)
		}
	}()
	time.Sleep(dur)
	close(stop)
	wg.Wait()
	e.rep.Count("dkgconc/histories")
	e.rep.Extra["dkgconc"] = map[string]interface{}{"readers": 12, "duration_ms": dur.Milliseconds(), "loads_at_least": loads > 100, "writes_at_least": writes > 10}
	e.rep.Evaluations++
	if bad > 0 {
		e.fail("C20-stored-record-does-not-reload-under-concurrent-saves",
			"a DKG record written once and never modified does not reload while another beacon's record is being re-saved: "+first,
			map[string]interface{}{"history": []string{
				"SaveFinished(z-victim-beacon, Accepted state)",
				"12 goroutines: GetCurrent(victim) / GetFinished(victim) in a loop, each result compared with the record written",
				"1 goroutine: SaveCurrent / SaveFinished(a-writer-beacon, small state | large state) on the same dkg.db in a loop",
			}, "scheme": sch.Name, "first_failure": first, "store": "dkg.NewDKGStore (bbolt)"})
	}
	return nil
}
