package engcodec

// Engine "codec" (C20): every generated value is converted by the REAL conversion functions and
// sent through the REAL libraries, files (key store) and database (dkg BoltStore); the model's
// denotation of the generated mirrors must reproduce what the real functions did (cases CMir),
// predict what comes back (cases CRt) and which inputs the decoders reject (cases CDec). The
// monitor M compares decoded values with the originals using the repository's Equal methods and
// a reflect-based deep comparison, and checks that hashes are preserved.

import (
	"bytes"
	"encoding/json"
	"fmt"
	"net"
	"os"
	"path/filepath"
	"reflect"
	"time"

	"github.com/BurntSushi/toml"
	"google.golang.org/protobuf/proto"

	"github.com/drand/drand/v2/common"
	"github.com/drand/drand/v2/common/chain"
	"github.com/drand/drand/v2/common/key"
	"github.com/drand/drand/v2/crypto"
	"github.com/drand/drand/v2/internal/chain/beacon"
	"github.com/drand/drand/v2/internal/dkg"
	pdkg "github.com/drand/drand/v2/protobuf/dkg"
	pb "github.com/drand/drand/v2/protobuf/drand"
	"github.com/drand/drand/v2/zzverif/cli"
	"github.com/drand/drand/v2/zzverif/emit"
	"github.com/drand/drand/v2/zzverif/extract"
)

type codecEngine struct {
	rep   *emit.Report
	g     *gen
	cv    *conv
	cases []string
	descr []string
	tmp   string
	n     int
	seen  map[string]bool
	mirs  map[string]*extract.MirOut
	noK   bool
}

func (e *codecEngine) add(c, d string) {
	if e.noK {
		// the generated tables are missing: no correspondence cases, the monitors still run
		e.rep.Evaluations++
		return
	}
	e.cases = append(e.cases, c)
	e.descr = append(e.descr, d)
	e.rep.Evaluations++
	if !e.seen[c] {
		e.seen[c] = true
		e.rep.DistinctNontrivial++
	}
}

func dursOf(ds ...time.Duration) string {
	var items []string
	seen := map[time.Duration]bool{}
	for _, d := range ds {
		if seen[d] {
			continue
		}
		seen[d] = true
		items = append(items, fmt.Sprintf("(%s, %s)", emit.Z(int64(d)), emit.Bytes([]byte(d.String()))))
	}
	return emit.List(items)
}

func (e *codecEngine) mir(name, durs, in, out, what string) {
	e.add(fmt.Sprintf("CMir \"%s\" %s %s %s", name, durs, in, out), name+": "+what)
	e.rep.Count("mir/" + name)
}

func (e *codecEngine) rt(a, b, durs, in, out, what string) {
	e.add(fmt.Sprintf("CRt \"%s\" \"%s\" %s %s %s", a, b, durs, in, out), a+" -> "+b+" via "+what)
	e.rep.Count("rt/" + a + "/" + what)
}

func (e *codecEngine) dec(name, durs string, good []string, hs, in string, accepted bool, what string) {
	gs := make([]string, len(good))
	for i, a := range good {
		gs[i] = emit.Bytes([]byte(a))
	}
	e.add(fmt.Sprintf("CDec \"%s\" %s %s %s %s %s", name, durs, emit.List(gs), hs, in, emit.Bool(accepted)), name+" decode: "+what)
	e.rep.Count(fmt.Sprintf("dec/%s/%v", name, accepted))
}

// bundle is one CPair case: encoder a on input gave mid, decoder b on mid gave decoded, and the
// values in rts came back through a library / file / database path.
type bundle struct {
	a, b, durs, input, mid, decoded string
	rts                             []string
	ok                              bool
}

func (b *bundle) back(rec string) {
	if rec == b.decoded {
		return
	}
	for _, r := range b.rts {
		if r == rec {
			return
		}
	}
	b.rts = append(b.rts, rec)
}

func (e *codecEngine) pair(b *bundle, what string) {
	if !b.ok {
		return
	}
	e.add(fmt.Sprintf("CPair \"%s\" \"%s\" %s %s %s %s %s", b.a, b.b, b.durs, b.input, b.mid, b.decoded, emit.List(b.rts)), b.a+" / "+b.b+": "+what)
	e.rep.Count("pair/" + b.a)
	e.rep.Count(fmt.Sprintf("pair-paths/%s/%d", b.a, len(b.rts)))
}

func (e *codecEngine) fail(class, what string, in interface{}) { e.rep.Fail(class, what, in) }

func groupAddrs(g *key.Group) []string {
	var out []string
	for _, n := range g.Nodes {
		out = append(out, n.Addr)
	}
	return out
}

func groupDurs(g *key.Group) string { return dursOf(g.Period, g.CatchupPeriod) }

func canonID(id string) string {
	if isDefaultID(id) {
		return "default"
	}
	return id
}

// expected value of a group after a round trip, with the stated asymmetries applied
func (e *codecEngine) expectGroup(g *key.Group) string {
	return e.cv.rec(normGroup(g))
}

// normGroup applies the stated asymmetries of a group round trip to a copy: the id is read back
// in canonical form and a nil genesis seed is written as the group hash. (The seed is computed
// on another copy: Group.Hash sorts the node list of its receiver in place.)
func normGroup(g *key.Group) *key.Group {
	x := cloneGroup(g)
	x.ID = canonID(x.ID)
	if x.GenesisSeed == nil {
		x.GenesisSeed = cloneGroup(g).Hash()
	}
	return x
}

func goodAddrs(nodes []*pb.Node) []string {
	var out []string
	for _, n := range nodes {
		if _, _, err := net.SplitHostPort(n.GetPublic().GetAddress()); err == nil {
			out = append(out, n.GetPublic().GetAddress())
		}
	}
	return out
}

// ---------------------------------------------------------------- groups

func (e *codecEngine) groupAll(g *key.Group, poly interface{}, rtAllowed bool) {
	cv := e.cv
	durs := groupDurs(g)
	in := map[string]interface{}{"scheme": g.Scheme.Name, "n": len(g.Nodes), "id": g.ID, "thr": g.Threshold, "period": g.Period.String(),
		"seed": g.GenesisSeed != nil, "key": g.PublicKey != nil, "tt": g.TransitionTime, "addresses": groupAddrs(g)}
	orig := cv.rec(cloneGroup(g))
	wantHash := cloneGroup(g).Hash()
	// --- TOML structs
	gt := cloneGroup(g).TOML().(*key.GroupTOML)
	bt := &bundle{a: "Group.TOML", b: "Group.FromTOML", durs: durs, input: orig, mid: cv.rec(gt)}
	bp := &bundle{a: "Group.ToProto", b: "GroupFromProto", durs: durs, input: orig}
	g2 := new(key.Group)
	if err := g2.FromTOML(gt); err != nil {
		e.fail("C20-group-toml-decode-error", "Group.FromTOML rejects the TOML form of a valid group", in)
		e.mir("Group.TOML", durs, orig, cv.rec(gt), "group")
	} else {
		bt.decoded, bt.ok = cv.rec(g2), true
	}
	if !rtAllowed {
		e.pair(bt, "group (conversion functions only)")
		gp := cloneGroup(g).ToProto(common.GetAppVersion())
		e.mir("Group.ToProto", durs, orig, cv.rec(gp), "group")
		return
	}
	check := func(path string, d *key.Group, err error) {
		e.rep.Count("monitor/group/" + path)
		if err != nil || d == nil {
			e.fail("C20-group-"+path+"-error", "a valid group does not survive "+path, in)
			return
		}
		if path == "toml" || path == "file" {
			bt.back(cv.rec(d))
		} else if path == "wire" {
			bp.back(cv.rec(d))
		}
		if !normGroup(g).Equal(cloneGroup(d)) || !cloneGroup(d).Equal(normGroup(g)) {
			e.fail("C20-group-"+path+"-not-equal", "group decoded from "+path+" is not Equal to the original", in)
		}
		if got := cv.rec(d); got != e.expectGroup(g) {
			e.fail("C20-group-"+path+"-deep-diff", "group decoded from "+path+" differs field by field from the original (beyond id canonicalisation and seed defaulting)", in)
		}
		if !bytes.Equal(cloneGroup(d).Hash(), wantHash) {
			e.fail("C20-group-"+path+"-hash", "group hash changed by the round trip through "+path, in)
		}
	}
	// TOML text
	var tb bytes.Buffer
	err := toml.NewEncoder(&tb).Encode(cloneGroup(g).TOML())
	g3 := new(key.Group)
	if err == nil {
		t2 := new(key.GroupTOML)
		if _, err = toml.Decode(tb.String(), t2); err == nil {
			err = g3.FromTOML(t2)
		}
	}
	check("toml", g3, err)
	// key store file
	st := key.NewFileStore(e.tmp, fmt.Sprintf("g%d", e.n))
	e.n++
	err = st.SaveGroup(cloneGroup(g))
	var g4 *key.Group
	if err == nil {
		g4, err = st.LoadGroup()
	}
	check("file", g4, err)
	e.optionalKeys(g, in)
	// --- protobuf
	e.pair(bt, "group")
	gp := cloneGroup(g).ToProto(common.GetAppVersion())
	bp.mid = cv.rec(gp)
	g5, err := key.GroupFromProto(gp, nil)
	if err == nil {
		bp.decoded, bp.ok = cv.rec(g5), true
	} else {
		e.mir("Group.ToProto", durs, orig, cv.rec(gp), "group")
	}
	check("proto", g5, err)
	wire, err := proto.Marshal(gp)
	var g6 *key.Group
	if err == nil {
		q := new(pb.GroupPacket)
		if err = proto.Unmarshal(wire, q); err == nil {
			g6, err = key.GroupFromProto(q, g.Scheme)
		}
	}
	check("wire", g6, err)
	e.pair(bp, "group")
	// --- pieces: first node, its identity, the distributed key
	n0 := g.Nodes[0]
	nt := n0.TOML().(*key.NodeTOML)
	nb := new(key.Node)
	if err := nb.FromTOML(nt); err == nil {
		e.pair(&bundle{a: "Node.TOML", b: "Node.FromTOML", durs: "[]", input: cv.rec(n0), mid: cv.rec(nt), decoded: cv.rec(nb), ok: true}, "node")
		if !nb.Equal(n0) {
			e.fail("C20-node-toml-not-equal", "node decoded from TOML is not Equal to the original", in)
		}
	} else {
		e.fail("C20-node-toml-error", "Node.FromTOML rejects the TOML form of a valid node", in)
	}
	it := n0.Identity.TOML().(*key.PublicTOML)
	ib := new(key.Identity)
	if err := ib.FromTOML(it); err == nil {
		e.pair(&bundle{a: "Identity.TOML", b: "Identity.FromTOML", durs: "[]", input: cv.rec(n0.Identity), mid: cv.rec(it), decoded: cv.rec(ib), ok: true}, "identity")
	}
	ip := n0.Identity.ToProto()
	if id2, err := key.IdentityFromProto(ip, g.Scheme); err == nil {
		e.pair(&bundle{a: "Identity.ToProto", b: "IdentityFromProto", durs: "[]", input: cv.rec(n0.Identity), mid: cv.rec(ip), decoded: cv.rec(id2), ok: true}, "identity")
		if !id2.Equal(n0.Identity) || !bytes.Equal(id2.Signature, n0.Identity.Signature) {
			e.fail("C20-identity-proto-not-equal", "identity decoded from protobuf differs from the original", in)
		}
	} else {
		e.fail("C20-identity-proto-error", "IdentityFromProto rejects a valid identity", in)
	}
	if n2, err := key.NodeFromProto(gp.Nodes[0], g.Scheme); err == nil {
		e.mir("NodeFromProto", "[]", cv.rec(gp.Nodes[0]), cv.rec(n2), "node")
	}
	if g.PublicKey != nil {
		dt := g.PublicKey.TOML().(*key.DistPublicTOML)
		d2 := new(key.DistPublic)
		if err := d2.FromTOML(g.Scheme, dt); err == nil {
			e.pair(&bundle{a: "DistPublic.TOML", b: "DistPublic.FromTOML", durs: "[]", input: cv.rec(g.PublicKey), mid: cv.rec(dt), decoded: cv.rec(d2), ok: true}, "dist key")
			if !d2.Equal(g.PublicKey) || !bytes.Equal(d2.Hash(), g.PublicKey.Hash()) {
				e.fail("C20-distpublic-toml-not-equal", "distributed key decoded from TOML differs from the original", in)
			}
		} else {
			e.fail("C20-distpublic-toml-error", "DistPublic.FromTOML rejects a valid key", in)
		}
	}
}

// optionalKeys: the group's file with one optional key absent must load as the group that has
// the key's default (class C20-group-toml-optional-field-not-defaulted); the real FromTOML on
// the reduced TOML struct is also a CMir case for the model.
func (e *codecEngine) optionalKeys(g *key.Group, in map[string]interface{}) {
	vars, err := groupFileVariants(g)
	if err != nil {
		return
	}
	for _, v := range vars {
		e.rep.Count("monitor/group/optional-" + v.key)
		got, err := loadGroupFile(e.tmp, fmt.Sprintf("opt%d", e.n), v.text)
		e.n++
		fin := map[string]interface{}{"absent_key": v.key, "group_file": v.text}
		for k, x := range in {
			fin[k] = x
		}
		if err != nil {
			e.fail("C20-group-toml-optional-field-not-defaulted", "a group file without the optional key "+v.key+" does not load", fin)
			continue
		}
		// the TOML struct as the library decodes the file, through the real FromTOML: a case for the model
		gt := new(key.GroupTOML)
		if _, derr := toml.Decode(v.text, gt); derr == nil {
			g2 := new(key.Group)
			if g2.FromTOML(gt) == nil {
				e.mir("Group.FromTOML", groupDurs(v.expect), e.cv.rec(gt), e.cv.rec(g2), "group file without "+v.key)
			}
		}
		want := normGroup(v.expect)
		if e.cv.rec(normGroup(got)) != e.cv.rec(want) || !want.Equal(normGroup(got)) {
			fin["loaded_genesis_seed_is_nil"] = got.GenesisSeed == nil
			e.fail("C20-group-toml-optional-field-not-defaulted",
				"a group file without the optional key "+v.key+" does not load as the group with that field at its default", fin)
			continue
		}
		if !bytes.Equal(cloneGroup(got).Hash(), cloneGroup(v.expect).Hash()) || !bytes.Equal(cloneGroup(got).GetGenesisSeed(), cloneGroup(v.expect).GetGenesisSeed()) {
			e.fail("C20-group-toml-optional-field-not-defaulted", "group hash / genesis seed of a group loaded from a file without "+v.key+" differ from those of the same group in memory", fin)
		}
	}
}

// ---------------------------------------------------------------- decode-side checks

func (e *codecEngine) groupRejects(g *key.Group) {
	cv := e.cv
	durs := groupDurs(g)
	n := len(g.Nodes)
	minT := key.MinimumT(n)
	base := cloneGroup(g).TOML().(*key.GroupTOML)
	thrs := []int{-1, 0, minT - 1, minT, n, n + 1, n + 5}
	schemes := []string{g.Scheme.Name, "", "no-such-scheme", "Pedersen-BLS-Chained"}
	mon := func(path string, thr int, scheme string, accepted bool, in interface{}) {
		e.rep.Count("monitor/reject/" + path)
		known := scheme == ""
		for _, s := range crypto.ListSchemes() {
			if s == scheme {
				known = true
			}
		}
		if path == "proto" && scheme == "" {
			known = false // SchemeFromName has no default
		}
		switch {
		case !known && accepted:
			e.fail("C20-"+path+"-unknown-scheme-accepted", "group encoding with an unknown scheme is accepted", in)
		case known && thr < minT && accepted:
			e.fail("C20-"+path+"-threshold-below-minimum-accepted", "group encoding with threshold below MinimumT(n) is accepted", in)
		case known && thr > n && accepted && path == "toml":
			e.fail("C20-toml-threshold-above-n-accepted", "group file with threshold above the number of nodes is accepted", in)
		case known && thr > n && accepted && path == "proto":
			e.fail("C20-proto-threshold-upper-bound-unchecked", "GroupFromProto accepts a group packet whose threshold exceeds the number of nodes (the TOML path rejects it)", in)
		case known && thr >= minT && thr <= n && !accepted && path == "toml":
			e.fail("C20-"+path+"-valid-rejected", "group encoding with threshold in range and known scheme is rejected", in)
		}
	}
	for _, thr := range thrs {
		for si, sc := range schemes {
			if si > 0 && thr != minT && thr != n+1 {
				continue
			}
			t := *base
			t.Threshold = thr
			t.SchemeID = sc
			x := new(key.Group)
			err := x.FromTOML(&t)
			in := map[string]interface{}{"path": "toml", "n": n, "thr": thr, "scheme": sc, "group_scheme": g.Scheme.Name}
			// a scheme id other than the nodes' own is a different (valid) question: skip mixed schemes
			if sc == "" && g.Scheme.Name != crypto.DefaultSchemeID {
				continue
			}
			e.dec("Group.FromTOML", durs, nil, "[]", cv.rec(&t), err == nil, fmt.Sprintf("n=%d thr=%d scheme=%q", n, thr, sc))
			mon("toml", thr, sc, err == nil, in)
		}
	}
	pbase := cloneGroup(g).ToProto(common.GetAppVersion())
	type pvar struct {
		what string
		mut  func(p *pb.GroupPacket)
		thr  int
		sc   string
	}
	var vars []pvar
	for _, thr := range []int{0, minT - 1, minT, n, n + 1, n + 5} {
		thr := thr
		vars = append(vars, pvar{fmt.Sprintf("thr=%d,nokey", thr), func(p *pb.GroupPacket) { p.Threshold = uint32(thr); p.DistKey = nil }, thr, g.Scheme.Name})
		if g.PublicKey != nil && thr > 0 {
			vars = append(vars, pvar{fmt.Sprintf("thr=%d,key=thr", thr), func(p *pb.GroupPacket) {
				p.Threshold = uint32(thr)
				p.DistKey = nil
				for i := 0; i < thr; i++ {
					p.DistKey = append(p.DistKey, pointBytes(e.g.point(g.Scheme)))
				}
			}, thr, g.Scheme.Name})
			vars = append(vars, pvar{fmt.Sprintf("thr=%d,key=orig", thr), func(p *pb.GroupPacket) { p.Threshold = uint32(thr) }, thr, g.Scheme.Name})
		}
	}
	vars = append(vars,
		pvar{"scheme=''", func(p *pb.GroupPacket) { p.SchemeID = "" }, g.Threshold, ""},
		pvar{"scheme=unknown", func(p *pb.GroupPacket) { p.SchemeID = "no-such-scheme" }, g.Threshold, "no-such-scheme"},
		pvar{"genesis=0", func(p *pb.GroupPacket) { p.GenesisTime = 0 }, -100, g.Scheme.Name},
		pvar{"period=0", func(p *pb.GroupPacket) { p.Period = 0 }, -100, g.Scheme.Name},
		pvar{"badaddr", func(p *pb.GroupPacket) { p.Nodes[0].Public.Address = "no-port-here" }, -100, g.Scheme.Name},
		pvar{"nometadata", func(p *pb.GroupPacket) { p.Metadata = nil }, g.Threshold, g.Scheme.Name},
	)
	for _, v := range vars {
		p := proto.Clone(pbase).(*pb.GroupPacket)
		v.mut(p)
		_, err := key.GroupFromProto(p, nil)
		in := map[string]interface{}{"path": "proto", "n": n, "variant": v.what, "scheme": g.Scheme.Name}
		e.dec("GroupFromProto", durs, goodAddrs(p.Nodes), "[]", cv.rec(p), err == nil, fmt.Sprintf("n=%d %s", n, v.what))
		if v.thr != -100 {
			mon("proto", v.thr, v.sc, err == nil, in)
		}
	}
}

// ---------------------------------------------------------------- key pairs, shares

func (e *codecEngine) pairAll(s *crypto.Scheme, realSig bool) {
	cv := e.cv
	p := e.g.pair(s, realSig)
	in := map[string]interface{}{"scheme": s.Name, "signed": realSig}
	pt := p.TOML().(*key.PairTOML)
	bq := &bundle{a: "Pair.TOML", b: "Pair.FromTOML", durs: "[]", input: cv.rec(p), mid: cv.rec(pt)}
	p2 := new(key.Pair)
	if err := p2.FromTOML(pt); err != nil {
		e.fail("C20-pair-toml-error", "Pair.FromTOML rejects a valid pair", in)
	} else {
		bq.decoded, bq.ok = cv.rec(p2), true
	}
	st := key.NewFileStore(e.tmp, fmt.Sprintf("p%d", e.n))
	e.n++
	old := os.Stdout
	devnull, _ := os.OpenFile(os.DevNull, os.O_WRONLY, 0)
	os.Stdout = devnull
	err := st.SaveKeyPair(p)
	os.Stdout = old
	devnull.Close()
	var p3 *key.Pair
	if err == nil {
		p3, err = st.LoadKeyPair()
	}
	e.rep.Count("monitor/pair/file")
	if err != nil {
		e.fail("C20-pair-file-error", "a key pair does not survive the key store", in)
		return
	}
	bq.back(cv.rec(p3))
	e.pair(bq, "key pair through the key store")
	e.rt("Identity.TOML", "Identity.FromTOML", "[]", cv.rec(p.Public), cv.rec(p3.Public), "file")
	if !p3.Key.Equal(p.Key) || !p3.Public.Equal(p.Public) || !bytes.Equal(p3.Public.Signature, p.Public.Signature) || p3.Public.Scheme.Name != s.Name {
		e.fail("C20-pair-file-not-equal", "key pair reloaded from the key store differs from the one saved", in)
	}
	if cv.rec(p3) != cv.rec(p) {
		e.fail("C20-pair-file-deep-diff", "key pair reloaded from the key store differs field by field", in)
	}
	if realSig && p3.Public.ValidSignature() != nil {
		e.fail("C20-pair-file-signature", "self-signature no longer verifies after reload", in)
	}
}

func (e *codecEngine) shareAll(s *crypto.Scheme, sh *key.Share) {
	cv := e.cv
	in := map[string]interface{}{"scheme": s.Name, "commits": len(sh.Commits), "index": sh.Share.I}
	stt := sh.TOML().(*key.ShareTOML)
	bs := &bundle{a: "Share.TOML", b: "Share.FromTOML", durs: "[]", input: cv.rec(sh), mid: cv.rec(stt)}
	s2 := new(key.Share)
	if err := s2.FromTOML(stt); err != nil {
		e.fail("C20-share-toml-error", "Share.FromTOML rejects a valid share", in)
	} else {
		bs.decoded, bs.ok = cv.rec(s2), true
	}
	st := key.NewFileStore(e.tmp, fmt.Sprintf("s%d", e.n))
	e.n++
	old := os.Stdout
	devnull, _ := os.OpenFile(os.DevNull, os.O_WRONLY, 0)
	os.Stdout = devnull
	err := st.SaveShare(sh)
	os.Stdout = old
	devnull.Close()
	var s3 *key.Share
	if err == nil {
		s3, err = st.LoadShare()
	}
	e.rep.Count("monitor/share/file")
	if err != nil {
		e.fail("C20-share-file-error", "a share does not survive the key store", in)
		return
	}
	bs.back(cv.rec(s3))
	e.pair(bs, "share through the key store")
	if cv.rec(s3) != cv.rec(sh) || !s3.Share.V.Equal(sh.Share.V) || s3.Share.I != sh.Share.I {
		e.fail("C20-share-file-not-equal", "share reloaded from the key store differs from the one saved", in)
	}
	if !s3.Public().Equal(sh.Public()) {
		e.fail("C20-share-file-public", "public polynomial of the reloaded share differs", in)
	}
}

// ---------------------------------------------------------------- chain info

func (e *codecEngine) infoJSONLeaves(name string, src bool) [][]string {
	m := e.mirs[name]
	if m == nil {
		return nil
	}
	if src {
		return m.SrcLeaves
	}
	return m.DstLeaves
}

func (e *codecEngine) infoAll(info *chain.Info, rtAllowed bool) {
	cv := e.cv
	in := map[string]interface{}{"scheme": info.Scheme, "id": info.ID, "period": info.Period.String(), "genesis": info.GenesisTime}
	orig := cv.rec(info)
	want := info.Hash()
	p := info.ToProto(nil)
	bp := &bundle{a: "Info.ToProto", b: "InfoFromProto", durs: "[]", input: orig, mid: cv.rec(p)}
	bj := &bundle{a: "Info.MarshalJSON", b: "Info.UnmarshalJSON", durs: "[]", input: orig}
	i2, err := chain.InfoFromProto(p)
	if err == nil {
		bp.decoded, bp.ok = cv.rec(i2), true
	}
	js, jerr := json.Marshal(info)
	var i3 chain.Info
	if jerr == nil {
		jerr = json.Unmarshal(js, &i3)
	}
	if jerr == nil {
		// the JSON object is the mirror value of both directions (the decoder's struct has more members)
		r1, e1 := jsonRecord(js, e.infoJSONLeaves("Info.UnmarshalJSON", true))
		if e1 == nil {
			bj.mid, bj.decoded, bj.ok = r1, cv.rec(&i3), true
		}
	}
	if !rtAllowed {
		e.pair(bp, "info (conversion functions only)")
		e.pair(bj, "info (conversion functions only)")
		return
	}
	check := func(path string, d *chain.Info, err error, a, b string) {
		e.rep.Count("monitor/info/" + path)
		if err != nil || d == nil {
			e.fail("C20-info-"+path+"-error", "a chain info does not survive "+path, in)
			return
		}
		if a == "Info.ToProto" {
			bp.back(cv.rec(d))
		} else {
			bj.back(cv.rec(d))
		}
		if !info.Equal(d) {
			e.fail("C20-info-"+path+"-not-equal", "chain info decoded from "+path+" is not Equal to the original", in)
		}
		if cv.rec(d) != orig {
			e.fail("C20-info-"+path+"-deep-diff", "chain info decoded from "+path+" differs field by field", in)
		}
		if !bytes.Equal(d.Hash(), want) {
			e.fail("C20-info-"+path+"-hash", "chain hash changed by the round trip through "+path, in)
		}
	}
	check("proto", i2, err, "Info.ToProto", "InfoFromProto")
	wire, err := proto.Marshal(p)
	var i4 *chain.Info
	if err == nil {
		q := new(pb.ChainInfoPacket)
		if err = proto.Unmarshal(wire, q); err == nil {
			i4, err = chain.InfoFromProto(q)
		}
	}
	check("wire", i4, err, "Info.ToProto", "InfoFromProto")
	check("json", &i3, jerr, "Info.MarshalJSON", "Info.UnmarshalJSON")
	var buf bytes.Buffer
	err = info.ToJSON(&buf, nil)
	var i5 *chain.Info
	if err == nil {
		i5, err = chain.InfoFromJSON(&buf)
	}
	check("hexjson", i5, err, "Info.ToProto", "InfoFromProto")
	e.pair(bp, "info")
	e.pair(bj, "info")
}

// infoRejects: decode-side check of Info.UnmarshalJSON
func (e *codecEngine) infoRejects(info *chain.Info) {
	js, err := json.Marshal(info)
	if err != nil {
		return
	}
	var m map[string]interface{}
	d := json.NewDecoder(bytes.NewReader(js))
	d.UseNumber()
	_ = d.Decode(&m)
	leaves := e.infoJSONLeaves("Info.UnmarshalJSON", true)
	hs := info.HashString()
	vars := []struct {
		what string
		mut  func(mm map[string]interface{})
		hash func() string
	}{
		{"same", func(mm map[string]interface{}) {}, nil},
		{"absent", func(mm map[string]interface{}) { delete(mm, "chain_hash") }, nil},
		{"empty", func(mm map[string]interface{}) { mm["chain_hash"] = "" }, nil},
		{"wrong", func(mm map[string]interface{}) { mm["chain_hash"] = fmt.Sprintf("%x", e.g.bytes(32)) }, nil},
		{"upper", func(mm map[string]interface{}) { mm["chain_hash"] = fmt.Sprintf("%X", info.Hash()) }, nil},
		{"short", func(mm map[string]interface{}) { mm["chain_hash"] = hs[:len(hs)-2] }, nil},
		{"period+1", func(mm map[string]interface{}) {
			mm["period"] = json.Number(fmt.Sprint(int64(info.Period/time.Second) + 1))
		},
			func() string { c := cloneInfo(info); c.Period += time.Second; return c.HashString() }},
		{"id", func(mm map[string]interface{}) { mm["beacon_id"] = "other-" + info.ID },
			func() string { c := cloneInfo(info); c.ID = "other-" + info.ID; return c.HashString() }},
		{"scheme=unknown", func(mm map[string]interface{}) { mm["scheme"] = "no-such-scheme" }, nil},
	}
	for _, v := range vars {
		mm := map[string]interface{}{}
		for k, x := range m {
			mm[k] = x
		}
		v.mut(mm)
		b, _ := json.Marshal(mm)
		var x chain.Info
		err := json.Unmarshal(b, &x)
		h := hs
		if v.hash != nil {
			h = v.hash()
		}
		r, jerr := jsonRecord(b, leaves)
		if jerr != nil {
			continue
		}
		e.dec("Info.UnmarshalJSON", "[]", nil, emit.Bytes([]byte(h)), r, err == nil, v.what)
	}
}

// ---------------------------------------------------------------- beacons

func (e *codecEngine) beaconAll(b *common.Beacon) {
	cv := e.cv
	in := map[string]interface{}{"round": b.Round, "siglen": len(b.Signature), "prev": b.PreviousSig != nil, "prevlen": len(b.PreviousSig)}
	orig := cv.rec(b)
	p := beacon.VerifBeaconToProto(b, "some-id")
	b2 := beacon.VerifProtoToBeacon(p)
	bp := &bundle{a: "beaconToProto", b: "protoToBeacon", durs: "[]", input: orig, mid: cv.rec(p), decoded: cv.rec(b2), ok: true}
	bj := &bundle{a: "Beacon.MarshalJSON", b: "Beacon.UnmarshalJSON", durs: "[]", input: orig}
	check := func(path string, d *common.Beacon, err error, a, c string) {
		e.rep.Count("monitor/beacon/" + path)
		if err != nil {
			e.fail("C20-beacon-"+path+"-error", "a beacon does not survive "+path, in)
			return
		}
		if a == "beaconToProto" {
			bp.back(cv.rec(d))
		} else {
			bj.back(cv.rec(d))
		}
		if !b.Equal(d) {
			e.fail("C20-beacon-"+path+"-not-equal", "beacon decoded from "+path+" is not Equal to the original", in)
		}
	}
	check("proto", b2, nil, "beaconToProto", "protoToBeacon")
	wire, err := proto.Marshal(p)
	q := new(pb.BeaconPacket)
	if err == nil {
		err = proto.Unmarshal(wire, q)
	}
	check("wire", beacon.VerifProtoToBeacon(q), err, "beaconToProto", "protoToBeacon")
	js, err := b.Marshal()
	if err == nil {
		if r, jerr := jsonRecord(js, e.infoJSONLeaves("Beacon.MarshalJSON", false)); jerr == nil {
			b3 := new(common.Beacon)
			if err = b3.Unmarshal(js); err == nil {
				bj.mid, bj.decoded, bj.ok = r, cv.rec(b3), true
			}
			check("json", b3, err, "Beacon.MarshalJSON", "Beacon.UnmarshalJSON")
		}
	}
	e.pair(bp, "beacon")
	e.pair(bj, "beacon")
}

// ---------------------------------------------------------------- DKG database records

func stateDurs(d *dkg.DBState) string {
	ds := []time.Duration{d.CatchupPeriod, d.BeaconPeriod}
	if d.FinalGroup != nil {
		ds = append(ds, d.FinalGroup.Period, d.FinalGroup.CatchupPeriod)
	}
	return dursOf(ds...)
}

func cloneState(d *dkg.DBState) *dkg.DBState {
	c := *d
	if d.FinalGroup != nil {
		c.FinalGroup = cloneGroup(d.FinalGroup)
	}
	return &c
}

func (e *codecEngine) stateAll(store *dkg.BoltStore, d *dkg.DBState) {
	cv := e.cv
	durs := stateDurs(d)
	in := map[string]interface{}{"status": d.State.String(), "scheme": d.SchemeID, "final": d.FinalGroup != nil, "share": d.KeyShare != nil,
		"beacon_id": d.BeaconID, "epoch": d.Epoch}
	orig := cv.rec(cloneState(d))
	t := cloneState(d).TOML()
	bd := &bundle{a: "DBState.TOML", b: "DBStateTOML.FromTOML", durs: durs, input: orig, mid: cv.rec(&t)}
	d2, err := t.FromTOML()
	if err != nil {
		e.fail("C20-dbstate-toml-error", "DBStateTOML.FromTOML rejects the TOML form of a valid state", in)
	} else {
		bd.decoded, bd.ok = cv.rec(d2), true
	}
	expect := func() string {
		x := cloneState(d)
		if x.FinalGroup != nil {
			x.FinalGroup = normGroup(x.FinalGroup)
		}
		return cv.rec(x)
	}
	check := func(path string, got *dkg.DBState, err error) {
		e.rep.Count("monitor/dbstate/" + path)
		if err != nil || got == nil {
			e.fail("C20-dbstate-"+path+"-error", "a DKG state does not survive the "+path+" bucket of the database", in)
			return
		}
		bd.back(cv.rec(got))
		// DBState.Equals compares KeyShare with reflect.DeepEqual, which is false for any two distinct
		// *key.Share values (crypto.Scheme holds func values; points may be in different projective
		// representations). The share is therefore compared by the deep comparison below and Equals
		// is evaluated on copies without it; how often Equals itself says false is recorded.
		if d.KeyShare != nil && !cloneState(d).Equals(got) {
			e.rep.Count("observation/dbstate-Equals-false-because-of-share")
		}
		a, b := cloneState(d), cloneState(got)
		a.KeyShare, b.KeyShare = nil, nil
		if a.FinalGroup != nil {
			a.FinalGroup = normGroup(a.FinalGroup)
		}
		if !a.Equals(b) {
			e.fail("C20-dbstate-"+path+"-not-equal", "DKG state read back from the database is not Equals to the one saved", in)
		}
		if cv.rec(got) != expect() {
			e.fail("C20-dbstate-"+path+"-deep-diff", "DKG state read back from the database differs field by field from the one saved", in)
		}
		if d.FinalGroup != nil && (got.FinalGroup == nil || !bytes.Equal(cloneGroup(got.FinalGroup).Hash(), cloneGroup(d.FinalGroup).Hash())) {
			e.fail("C20-dbstate-"+path+"-group-hash", "hash of the final group changed in the database", in)
		}
	}
	id := fmt.Sprintf("beacon-%d", e.n)
	e.n++
	err = store.SaveCurrent(id, cloneState(d))
	var got *dkg.DBState
	if err == nil {
		got, err = store.GetCurrent(id)
	}
	check("current", got, err)
	if d.State == dkg.Complete {
		err = store.SaveFinished(id, cloneState(d))
		if err == nil {
			got, err = store.GetFinished(id)
		}
		check("finished", got, err)
	}
	e.pair(bd, "DKG state "+d.State.String())
}

// ---------------------------------------------------------------- run

func (e *codecEngine) fields() {
	cv := e.cv
	for _, x := range []interface{}{key.Group{}, key.GroupTOML{}, key.Node{}, key.NodeTOML{}, key.Identity{}, key.PublicTOML{},
		key.DistPublic{}, key.DistPublicTOML{}, key.Share{}, key.ShareTOML{}, key.Pair{}, key.PairTOML{}, dkg.DBState{}, dkg.DBStateTOML{},
		chain.Info{}, common.Beacon{}} {
		t := reflect.TypeOf(x)
		e.add(fmt.Sprintf("CFields \"%s\" %s", qualName(t), coqPaths(cv.leaves(t, 0))), "fields of "+qualName(t))
		e.rep.Count("fields")
	}
	for _, x := range []interface{}{&pb.GroupPacket{}, &pb.Node{}, &pb.Identity{}, &pb.ChainInfoPacket{}, &pb.BeaconPacket{}} {
		t := reflect.TypeOf(x)
		e.add(fmt.Sprintf("CFields \"%s\" %s", qualName(t), coqPaths(cv.leaves(t, 0))), "fields of "+qualName(t))
		e.rep.Count("fields")
	}
	_ = pdkg.Participant{}
}

func newCodecEngine(name string, seed int64, tier string) (*codecEngine, error) {
	// a translator that cannot read the sources is reported by the translator step itself; the
	// engine still runs everything that does not need the generated tables (all monitors)
	outs, terr := extract.Mirrors(cli.Repo)
	e := &codecEngine{rep: emit.NewReport(name, seed, tier), g: newGen(seed), cv: &conv{roots: extract.MirRoots()}, seen: map[string]bool{}, mirs: map[string]*extract.MirOut{}}
	var reg func(o *extract.MirOut)
	reg = func(o *extract.MirOut) {
		e.mirs[o.Spec.Name] = o
		for _, s := range o.SubMirrors {
			reg(s)
		}
	}
	for _, o := range outs {
		reg(o)
	}
	if terr != nil {
		e.rep.Extra["translator_error"] = terr.Error()
		e.noK = true
	}
	var err error
	e.tmp, err = os.MkdirTemp("", "zzv-codec-")
	return e, err
}

func (e *codecEngine) finish(outDir, prefix string, per int) error {
	for i := 0; i < 6 && i < len(e.descr); i++ {
		e.rep.Sample(e.descr[i*len(e.descr)/6], 8)
	}
	if err := e.rep.Shard(outDir, prefix, []string{"From DV Require Import Model.ByteEnc Model.CodecVocab Model.Codec Corr.CodecCorr.", "Open Scope string_scope."}, "ccase", "mismatches", e.cases, e.descr, per); err != nil {
		return err
	}
	return e.rep.Write(outDir)
}

// RunCodec is the entry point of engine "codec" (C20).
func RunCodec(outDir string, seed int64, tier string) error {
	e, err := newCodecEngine("codec", seed, tier)
	if err != nil {
		return err
	}
	defer os.RemoveAll(e.tmp)
	g := e.g
	e.fields()
	store, err := dkg.NewDKGStore(filepath.Join(e.tmp, "dkgdb"))
	if err != nil {
		return err
	}
	defer store.Close()
	sizes := []int{1, 10, 0}
	nBeacons, nStates := 8, 1
	if tier == "thorough" {
		sizes = []int{1, 2, 3, 4, 5, 6, 7, 8, 9, 10, 0, 0, 0}
		nBeacons, nStates = 100, 2
	}
	for si, sch := range g.sch {
		for k, n := range sizes {
			o := g.randOpts()
			if n > 0 {
				o.n = n
			} else if tier != "thorough" && o.n > 4 {
				o.n = 1 + o.n%4
			}
			switch k {
			case 0:
				o.withKey, o.withSeed, o.withTT, o.id = true, true, true, "default"
			case 1:
				o.withKey, o.withSeed, o.withTT, o.id = false, false, false, ""
			}
			grp, poly := g.group(sch, o)
			e.groupAll(grp, poly, true)
			if tier == "thorough" {
				e.groupRejects(grp)
			}
			if grp.PublicKey != nil {
				info := chain.NewChainInfo(cloneGroup(grp))
				e.infoAll(info, true)
				if k == 0 {
					e.infoRejects(info)
				}
				e.shareAll(sch, g.share(sch, poly, grp.Len()))
			}
		}
		if tier != "thorough" {
			// decode-side checks on small groups (the checks do not look at the keys)
			for _, n := range []int{1 + si} {
				grp, _ := g.group(sch, groupOpts{n: n, withKey: n%2 == 1, withSeed: true, id: ids[(si+n)%len(ids)]})
				e.groupRejects(grp)
			}
		}
		// sub-second period: conversions must agree with the model; the protobuf / JSON forms
		// carry whole seconds only, so no round-trip claim is made for them
		{
			grp, _ := g.group(sch, groupOpts{n: 2, withKey: true, withSeed: true, id: "x", subsec: true})
			e.groupAll(grp, nil, false)
			e.infoAll(chain.NewChainInfo(cloneGroup(grp)), false)
		}
		// values whose every basic field is non-zero (filled by reflection, so that fields unknown to
		// the generators are exercised too)
		{
			grp, _ := g.group(sch, groupOpts{n: 2, withKey: true, withSeed: true, withTT: true, id: "filled"})
			fillZero(grp)
			e.groupAll(grp, nil, true)
			d := g.dbStateN(sch, dkg.Complete, si%2 == 0, 2)
			fillZero(d)
			e.stateAll(store, d)
		}
		e.pairAll(sch, true)
		e.pairAll(sch, false)
		// beacons with arbitrary byte strings
		for k := 0; k < nBeacons; k++ {
			b := &common.Beacon{Round: g.r.Uint64() >> uint(g.r.Intn(64)), Signature: g.bytes(48 + 48*g.r.Intn(2))}
			switch k % 4 {
			case 0:
				b.PreviousSig = g.bytes(len(b.Signature))
			case 1:
				b.Round = []uint64{0, 1, 1<<64 - 1, 1 << 53}[g.r.Intn(4)]
			case 2:
				b.PreviousSig = g.bytes(1 + g.r.Intn(5))
				b.Signature = g.bytes(g.r.Intn(4) + 1)
			}
			e.beaconAll(b)
		}
		// DKG states in every status, with and without final group / share
		for k := 0; k < nStates; k++ {
			for sti, st := range allStatuses {
				// quick tier: every status once without and once with final group / share, schemes in rotation
				if tier != "thorough" && sti%len(g.sch) != si {
					continue
				}
				mx := 10
				if tier != "thorough" {
					mx = 2
				}
				e.stateAll(store, g.dbStateN(sch, st, false, mx))
				e.stateAll(store, g.dbStateN(sch, st, true, mx))
			}
		}
	}
	// the disk path: histories on one real key file store with values growing and shrinking
	e.diskAll(tier)
	// the dkg database under concurrent saves of another record
	if err := e.dkgConcurrent(tier); err != nil {
		return err
	}
	e.rep.Rule = "per scheme: groups of 1, 10 and random size (optional key / seed / transition time, 8 ids), their nodes, identities, distributed keys, chain infos and shares, key pairs (real and random signatures), beacons with arbitrary byte strings, DKG states in every status with and without final group and share; each converted by the real functions (CMir) and sent through TOML text, the key store files, the dkg BoltStore, protobuf wire format and JSON (CRt); group TOML / protobuf and info JSON decoders on threshold / scheme / genesis / period / address / chain_hash perturbations (CDec); histories of SaveKeyPair / SaveShare / SaveGroup / Load* / Reset on one real key file store per scheme and per pair of schemes, with thresholds, group sizes and scheme names going down and up, every load compared with the value written last (CDisk); distinct = distinct case text; non-trivial = all (every case carries a non-empty value)"
	return e.finish(outDir, "cases_codec", 40)
}

// RunInfoJSON is the entry point of engine "infojson" (C17: the JSON path and its decode-side check).
func RunInfoJSON(outDir string, seed int64, tier string) error {
	e, err := newCodecEngine("infojson", seed, tier)
	if err != nil {
		return err
	}
	defer os.RemoveAll(e.tmp)
	g := e.g
	per := 2
	if tier == "thorough" {
		per = 20
	}
	for _, sch := range g.sch {
		for k := 0; k < per; k++ {
			o := g.randOpts()
			o.withKey, o.n = true, 1+o.n%3
			grp, _ := g.group(sch, o)
			info := chain.NewChainInfo(cloneGroup(grp))
			e.infoAll(info, true)
			e.infoRejects(info)
			if k == 0 {
				e.infoMixed(info, tier == "thorough")
			}
		}
	}
	e.rep.Rule = "per scheme: chain infos of generated groups through Info.ToProto/InfoFromProto, MarshalJSON/UnmarshalJSON (CMir, CRt), UnmarshalJSON on chain_hash / period / id / scheme perturbations (CDec), and documents in every combination of v2 / v1 / both spellings of scheme, genesis seed and beacon id x chain_hash absent / matching / other / matching before a change of period, genesis time, public key, seed or id (CDec, CDecOut; monitor: an accepted document's chain_hash is the hash of the decoded info)"
	return e.finish(outDir, "cases_infojson", 40)
}
