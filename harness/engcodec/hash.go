package engcodec

// Engine "hash" (C17). Coq cannot run SHA-256 / BLAKE2b, so the tie between the model's
// preimages and the real digests goes through a witness: for every generated value the engine
// builds the preimage bytes with an independent re-implementation of the documented format,
// checks in Go that hashing these bytes gives exactly the digest the REAL code returns
// (Info.Hash, Group.Hash, Node.Hash, DistPublic.Hash), and hands fields + witness + the result of
// that check to Coq, where `ok` demands (a) the check succeeded and (b) the model's preimage,
// computed by folding over the write order generated from the sources, equals the witness.
// Together: hash(model preimage) = real digest. Nested digests (node hashes, the distributed
// key hash) reach the model through an oracle table of (preimage, digest) pairs that are
// themselves checked in Go against the real functions.

import (
	"bytes"
	"crypto/sha256"
	"encoding/binary"
	"encoding/hex"
	"encoding/json"
	"fmt"
	"reflect"
	"sort"
	"strings"
	"time"

	"golang.org/x/crypto/blake2b"
	"google.golang.org/protobuf/proto"

	"github.com/BurntSushi/toml"
	"github.com/drand/drand/v2/common"
	"github.com/drand/drand/v2/common/chain"
	"github.com/drand/drand/v2/common/key"
	"github.com/drand/drand/v2/crypto"
	pb "github.com/drand/drand/v2/protobuf/drand"
	"github.com/drand/drand/v2/zzverif/emit"
	"github.com/drand/kyber"
)

// hexB renders a byte string compactly for the case files (decoded in Coq by ByteEnc.hx).
func hexB(b []byte) string { return emit.Bytes(b) }

func b2(b []byte) []byte { h := blake2b.Sum256(b); return h[:] }
func s2(b []byte) []byte { h := sha256.Sum256(b); return h[:] }

func le32(x uint32) []byte { b := make([]byte, 4); binary.LittleEndian.PutUint32(b, x); return b }
func le64(x uint64) []byte { b := make([]byte, 8); binary.LittleEndian.PutUint64(b, x); return b }
func be32(x uint32) []byte { b := make([]byte, 4); binary.BigEndian.PutUint32(b, x); return b }
func be64(x uint64) []byte { b := make([]byte, 8); binary.BigEndian.PutUint64(b, x); return b }

func pointBytes(p interface{ MarshalBinary() ([]byte, error) }) []byte {
	b, err := p.MarshalBinary()
	if err != nil {
		panic(err)
	}
	return b
}

func isDefaultID(id string) bool { return id == "" || id == "default" }

// independent re-implementations of the preimage formats
func nodePre(n *key.Node) []byte { return append(le32(n.Index), pointBytes(n.Key)...) }

func distPre(d *key.DistPublic) []byte {
	var out []byte
	for _, c := range d.Coefficients {
		out = append(out, pointBytes(c)...)
	}
	return out
}

func groupPre(g *key.Group) []byte {
	nodes := append([]*key.Node{}, g.Nodes...)
	sort.SliceStable(nodes, func(i, j int) bool { return nodes[i].Index < nodes[j].Index })
	var out []byte
	for _, n := range nodes {
		out = append(out, b2(nodePre(n))...)
	}
	out = append(out, le32(uint32(g.Threshold))...)
	out = append(out, le64(uint64(g.GenesisTime))...)
	if g.TransitionTime != 0 {
		out = append(out, le64(uint64(g.TransitionTime))...)
	}
	if g.PublicKey != nil {
		out = append(out, b2(distPre(g.PublicKey))...)
	}
	if !isDefaultID(g.ID) {
		out = append(out, []byte(g.ID)...)
	}
	return out
}

func infoPre(i *chain.Info) []byte {
	out := be32(uint32(int64(i.Period) / int64(time.Second)))
	out = append(out, be64(uint64(i.GenesisTime))...)
	out = append(out, pointBytes(i.PublicKey)...)
	out = append(out, i.GenesisSeed...)
	if !isDefaultID(i.ID) {
		out = append(out, []byte(i.ID)...)
	}
	return out
}

func cloneGroup(g *key.Group) *key.Group {
	c := *g
	c.Nodes = make([]*key.Node, len(g.Nodes))
	for i, n := range g.Nodes {
		id := *n.Identity
		c.Nodes[i] = &key.Node{Identity: &id, Index: n.Index}
	}
	if g.PublicKey != nil {
		c.PublicKey = &key.DistPublic{Coefficients: append([]kyber.Point{}, g.PublicKey.Coefficients...)}
	}
	if g.GenesisSeed != nil {
		c.GenesisSeed = append([]byte{}, g.GenesisSeed...)
	}
	return &c
}

func optList(present bool, items []string) string {
	if !present {
		return "None"
	}
	return "(Some " + emit.List(items) + ")"
}

type hashEngine struct {
	rep   *emit.Report
	g     *gen
	cases []string
	descr []string
	seen  map[string]bool
}

func (e *hashEngine) add(c, d string) {
	e.cases = append(e.cases, c)
	e.descr = append(e.descr, d)
	e.rep.Evaluations++
}

func (e *hashEngine) groupCase(g0 *key.Group, what string) []byte {
	g := cloneGroup(g0)
	digest := cloneGroup(g0).Hash()
	pre := groupPre(g)
	dok := bytes.Equal(b2(pre), digest)
	var nodes, tbl []string
	for _, n := range g.Nodes {
		np := nodePre(n)
		real := n.Hash()
		if !bytes.Equal(b2(np), real) {
			dok = false
		}
		nodes = append(nodes, fmt.Sprintf("(%d, %s)", n.Index, hexB(pointBytes(n.Key))))
		tbl = append(tbl, fmt.Sprintf("(%s, %s)", hexB(np), hexB(real)))
	}
	var coeffs []string
	if g.PublicKey != nil {
		for _, c := range g.PublicKey.Coefficients {
			coeffs = append(coeffs, hexB(pointBytes(c)))
		}
		dp := distPre(g.PublicKey)
		real := g.PublicKey.Hash()
		if !bytes.Equal(b2(dp), real) {
			dok = false
		}
		tbl = append(tbl, fmt.Sprintf("(%s, %s)", hexB(dp), hexB(real)))
	}
	e.add(fmt.Sprintf("HGroup %s %s %s %s %s %s %s %s %s", emit.List(nodes), emit.Z(int64(g.Threshold)), emit.Z(g.GenesisTime), emit.Z(g.TransitionTime),
		optList(g.PublicKey != nil, coeffs), hexB([]byte(g.ID)), emit.List(tbl), hexB(pre), emit.Bool(dok)),
		fmt.Sprintf("group %s scheme=%s n=%d thr=%d tt=%d key=%v id=%q digest=%x", what, g.Scheme.Name, len(g.Nodes), g.Threshold, g.TransitionTime, g.PublicKey != nil, g.ID, digest))
	e.rep.Count("group/" + what)
	k := hex.EncodeToString(digest)
	if !e.seen[k] {
		e.seen[k] = true
		e.rep.DistinctNontrivial++
	}
	return digest
}

func (e *hashEngine) infoCase(i *chain.Info, what string) []byte {
	digest := i.Hash()
	pre := infoPre(i)
	dok := bytes.Equal(s2(pre), digest)
	e.add(fmt.Sprintf("HInfo %s %s %s %s %s %s %s", emit.Z(int64(i.Period)), emit.Z(i.GenesisTime), hexB(pointBytes(i.PublicKey)),
		hexB(i.GenesisSeed), hexB([]byte(i.ID)), hexB(pre), emit.Bool(dok)),
		fmt.Sprintf("info %s scheme=%s period=%s genesis=%d id=%q seedlen=%d digest=%x", what, i.Scheme, i.Period, i.GenesisTime, i.ID, len(i.GenesisSeed), digest))
	e.rep.Count("info/" + what)
	k := hex.EncodeToString(digest)
	if !e.seen[k] {
		e.seen[k] = true
		e.rep.DistinctNontrivial++
	}
	return digest
}

func cloneInfo(i *chain.Info) *chain.Info {
	c := *i
	c.GenesisSeed = append([]byte{}, i.GenesisSeed...)
	return &c
}

// chain hash through every encoding path of a group's chain info
func (e *hashEngine) paths(g *key.Group, dir string) {
	info := chain.NewChainInfo(cloneGroup(g))
	want := info.Hash()
	in := map[string]interface{}{"scheme": g.Scheme.Name, "id": g.ID, "period": g.Period.String(), "genesis": g.GenesisTime, "n": len(g.Nodes)}
	chk := func(path string, got []byte, err error) {
		e.rep.Count("path/" + path)
		if err != nil {
			e.rep.Fail("C17-path-"+path+"-error", "chain info does not survive this encoding path: "+errClass(err), in)
			return
		}
		if !bytes.Equal(got, want) {
			e.rep.Fail("C17-path-"+path+"-hash", "chain hash differs after this encoding path", in)
		}
	}
	// protobuf structs
	p := info.ToProto(nil)
	i2, err := chain.InfoFromProto(p)
	chk("proto", hashOf(i2), err)
	if !bytes.Equal(p.Hash, want) {
		e.rep.Fail("C17-proto-embedded-hash", "ChainInfoPacket.Hash is not the chain hash", in)
	}
	// protobuf wire
	wire, err := proto.Marshal(p)
	if err == nil {
		var q pb.ChainInfoPacket
		if err = proto.Unmarshal(wire, &q); err == nil {
			i2, err = chain.InfoFromProto(&q)
		}
	}
	chk("protowire", hashOf(i2), err)
	// JSON (Info.MarshalJSON / UnmarshalJSON)
	js, err := json.Marshal(info)
	var i3 chain.Info
	if err == nil {
		err = json.Unmarshal(js, &i3)
	}
	chk("json", hashOf(&i3), err)
	// hexjson of the packet (ToJSON / InfoFromJSON)
	var buf bytes.Buffer
	err = info.ToJSON(&buf, nil)
	var i4 *chain.Info
	if err == nil {
		i4, err = chain.InfoFromJSON(&buf)
	}
	chk("hexjson", hashOf(i4), err)
	// group file: TOML text, and the key store
	var tb bytes.Buffer
	err = toml.NewEncoder(&tb).Encode(cloneGroup(g).TOML())
	g2 := new(key.Group)
	if err == nil {
		gt := new(key.GroupTOML)
		if _, err = toml.Decode(tb.String(), gt); err == nil {
			err = g2.FromTOML(gt)
		}
	}
	if err == nil {
		chk("grouptoml", chain.NewChainInfo(g2).Hash(), nil)
	} else {
		chk("grouptoml", nil, err)
	}
	st := key.NewFileStore(dir, "hashpaths")
	err = st.SaveGroup(cloneGroup(g))
	var g3 *key.Group
	if err == nil {
		g3, err = st.LoadGroup()
	}
	if err == nil && g3 != nil {
		chk("groupfile", chain.NewChainInfo(g3).Hash(), nil)
	} else {
		chk("groupfile", nil, fmt.Errorf("load: %v", err))
	}
	// group files in which an optional key is absent (legacy / hand-written files): the chain hash
	// of the loaded group must be the chain hash of the same group built in memory
	if vars, err := groupFileVariants(g); err == nil {
		for k, v := range vars {
			e.rep.Count("path/groupfile-without-" + v.key)
			mem := chain.NewChainInfo(cloneGroup(v.expect)).Hash()
			got, err := loadGroupFile(dir, fmt.Sprintf("opt%d", k), v.text)
			fin := map[string]interface{}{"path": "group file without " + v.key, "group_file": v.text, "hash_in_memory": hex.EncodeToString(mem)}
			for kk, x := range in {
				fin[kk] = x
			}
			if err != nil || got.PublicKey == nil {
				fin["error"] = errClass(err)
				e.rep.Fail("C17-hash-differs-across-encoding-paths", "a group file without the optional key "+v.key+" does not load, so the chain hash cannot be recomputed from it", fin)
				continue
			}
			if h := chain.NewChainInfo(got).Hash(); !bytes.Equal(h, mem) {
				fin["hash_from_file"] = hex.EncodeToString(h)
				fin["loaded_genesis_seed_hex"] = hex.EncodeToString(got.GenesisSeed)
				e.rep.Fail("C17-hash-differs-across-encoding-paths", "the chain hash of the group loaded from a file without "+v.key+" differs from the chain hash of the same group in memory", fin)
			}
		}
	}
	// group protobuf
	gp := cloneGroup(g).ToProto(common.GetAppVersion())
	g4, err := key.GroupFromProto(gp, nil)
	if err == nil {
		chk("groupproto", chain.NewChainInfo(g4).Hash(), nil)
	} else {
		chk("groupproto", nil, err)
	}
	// JSON decode-side check
	var m map[string]interface{}
	_ = json.Unmarshal(js, &m)
	reject := func(class, what string, mut func(map[string]interface{}), wantReject bool) {
		mm := map[string]interface{}{}
		for k, v := range m {
			mm[k] = v
		}
		mut(mm)
		b, _ := json.Marshal(mm)
		var x chain.Info
		err := json.Unmarshal(b, &x)
		e.rep.Count("jsoncheck/" + class)
		if wantReject && err == nil {
			e.rep.Fail("C17-json-"+class+"-accepted", what, map[string]interface{}{"json": string(b)})
		}
		if !wantReject && err != nil {
			e.rep.Fail("C17-json-"+class+"-rejected", what, map[string]interface{}{"json": string(b)})
		}
	}
	other := hex.EncodeToString(e.g.bytes(32))
	reject("wronghash", "chain info whose chain_hash is another hash is accepted", func(mm map[string]interface{}) { mm["chain_hash"] = other }, true)
	reject("period", "chain info whose period was changed but not its chain_hash is accepted", func(mm map[string]interface{}) { mm["period"] = m["period"].(float64) + 1 }, true)
	reject("genesis", "chain info whose genesis time was changed but not its chain_hash is accepted", func(mm map[string]interface{}) { mm["genesis_time"] = m["genesis_time"].(float64) + 1 }, true)
	reject("seed", "chain info whose genesis seed was changed but not its chain_hash is accepted", func(mm map[string]interface{}) { mm["genesis_seed"] = other }, true)
	reject("id", "chain info whose beacon id was changed but not its chain_hash is accepted", func(mm map[string]interface{}) { mm["beacon_id"] = "another-" + g.ID }, true)
	reject("absent", "chain info without chain_hash is rejected (coded: accepted)", func(mm map[string]interface{}) { delete(mm, "chain_hash") }, false)
	reject("same", "unchanged chain info is rejected", func(mm map[string]interface{}) {}, false)
}

func hashOf(i *chain.Info) []byte {
	if i == nil || i.PublicKey == nil {
		return nil
	}
	return i.Hash()
}

func errClass(err error) string {
	if err == nil {
		return "nil"
	}
	return reflect.TypeOf(err).String()
}

var _ = strings.Join
var _ = crypto.ListSchemes

// infoPaths: one chain Info (any period, including fractions of a second) through every
// encoding path that carries a chain info; the chain hash computed after each path must be the
// hash of the Info in memory, and the hash a packet embeds must be the hash of the fields it
// carries.
func (e *hashEngine) infoPaths(info *chain.Info, what string) {
	want := info.Hash()
	desc := map[string]interface{}{"scheme": info.Scheme, "id": info.ID, "period": info.Period.String(), "period_ns": int64(info.Period),
		"genesis_time": info.GenesisTime, "public_key": hex.EncodeToString(pointBytes(info.PublicKey)),
		"genesis_seed": hex.EncodeToString(info.GenesisSeed), "hash_in_memory": hex.EncodeToString(want), "case": what}
	chk := func(path string, got *chain.Info, err error) {
		e.rep.Count("infopath/" + path)
		in := map[string]interface{}{"path": path}
		for k, v := range desc {
			in[k] = v
		}
		if err != nil || got == nil || got.PublicKey == nil {
			in["error"] = errClass(err)
			e.rep.Fail("C17-hash-differs-across-encoding-paths", "the chain info is rejected on the "+path+" path, so its hash cannot be recomputed there", in)
			return
		}
		if h := got.Hash(); !bytes.Equal(h, want) {
			in["hash_after_path"] = hex.EncodeToString(h)
			in["period_after_path"] = got.Period.String()
			e.rep.Fail("C17-hash-differs-across-encoding-paths", "the chain hash of the Info decoded from the "+path+" form differs from the hash of the Info in memory", in)
		}
	}
	p := cloneInfo(info).ToProto(nil)
	i2, err := chain.InfoFromProto(p)
	chk("proto", i2, err)
	if err == nil && i2 != nil {
		e.rep.Count("infopath/embedded")
		if !bytes.Equal(p.Hash, i2.Hash()) {
			in := map[string]interface{}{"path": "proto", "embedded_hash": hex.EncodeToString(p.Hash), "hash_of_carried_fields": hex.EncodeToString(i2.Hash()), "packet_period_s": p.Period}
			for k, v := range desc {
				in[k] = v
			}
			e.rep.Fail("C17-packet-embedded-hash-mismatch", "the hash embedded in the ChainInfoPacket is not the hash of the fields the packet carries", in)
		}
	}
	wire, err := proto.Marshal(p)
	var i3 *chain.Info
	if err == nil {
		q := new(pb.ChainInfoPacket)
		if err = proto.Unmarshal(wire, q); err == nil {
			i3, err = chain.InfoFromProto(q)
		}
	}
	chk("protowire", i3, err)
	var buf bytes.Buffer
	err = cloneInfo(info).ToJSON(&buf, nil)
	var i4 *chain.Info
	if err == nil {
		i4, err = chain.InfoFromJSON(&buf)
	}
	chk("packetjson", i4, err)
	js, err := json.Marshal(cloneInfo(info))
	var i5 chain.Info
	if err == nil {
		err = json.Unmarshal(js, &i5)
	}
	chk("v2json", &i5, err)
}
