package engcodec

import "errors"

func RunHash(outDir string, seed int64, tier string) error { return errors.New("not yet") }
