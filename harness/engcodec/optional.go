package engcodec

// Group files in which one OPTIONAL key is absent (a legacy or hand-written file): the TOML text
// the real encoder writes for a group, minus the lines of that key, loaded back through the real
// key store. The loader must default the field exactly as a group built in memory has it: no
// GenesisSeed line means "no seed" (GetGenesisSeed then derives it from the group hash), no
// TransitionTime / CatchupPeriod means 0, no Signature means unsigned, no ID means the default id.

import (
	"bytes"
	"fmt"
	"os"
	"regexp"

	"github.com/BurntSushi/toml"

	"github.com/drand/drand/v2/common/key"
)

type fileVariant struct {
	key    string     // the absent key
	text   string     // the group file
	expect *key.Group // the group the file describes
}

func dropKey(text, k string) (string, bool) {
	re := regexp.MustCompile(`(?m)^[ \t]*` + k + ` = .*\n`)
	if !re.MatchString(text) {
		return text, false
	}
	return re.ReplaceAllString(text, ""), true
}

// groupFileVariants returns the group's file with each optional key removed in turn.
func groupFileVariants(g *key.Group) ([]fileVariant, error) {
	var tb bytes.Buffer
	if err := toml.NewEncoder(&tb).Encode(cloneGroup(g).TOML()); err != nil {
		return nil, err
	}
	full := tb.String()
	var out []fileVariant
	add := func(k string, mut func(x *key.Group)) {
		text, ok := dropKey(full, k)
		if !ok {
			return
		}
		x := cloneGroup(g)
		// the file carries the seed the encoder wrote (the group hash when the group had none)
		x.GenesisSeed = cloneGroup(g).GetGenesisSeed()
		mut(x)
		out = append(out, fileVariant{k, text, x})
	}
	add("GenesisSeed", func(x *key.Group) { x.GenesisSeed = nil })
	add("TransitionTime", func(x *key.Group) { x.TransitionTime = 0 })
	add("CatchupPeriod", func(x *key.Group) { x.CatchupPeriod = 0 })
	add("ID", func(x *key.Group) { x.ID = "" })
	add("Signature", func(x *key.Group) {
		for _, n := range x.Nodes {
			n.Identity.Signature = nil
		}
	})
	return out, nil
}

// loadGroupFile puts the text where the key store keeps its group file and loads it.
func loadGroupFile(dir, beaconID, text string) (*key.Group, error) {
	st := key.NewFileStore(dir, beaconID)
	p := key.GroupFilePath(st)
	if p == "" {
		return nil, fmt.Errorf("no group file path")
	}
	if err := os.WriteFile(p, []byte(text), 0o600); err != nil {
		return nil, err
	}
	g, err := st.LoadGroup()
	if err == nil && g == nil {
		err = fmt.Errorf("empty group")
	}
	return g, err
}
